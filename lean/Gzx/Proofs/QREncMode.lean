/-
  wp `enc2` — `chooseMode` of the mirror model characterised: for EVERY content and CHARACTER_SET hint value it
  returns (never an error, never a panic) the mode of the reference mode analysis `refMode`:
  Kanji iff the hint is Shift_JIS and `isOnlyDoubleByteKanji`, else numeric iff the content is non-empty and all
  digits, else alphanumeric iff it is non-empty and every character is in the 45-character table, else byte.
-/
import Gzx.Proofs.QREncSegments
namespace Gzx.QREnc
open Gzx Gzx.QRRef

/-- lead byte of a double-byte Shift_JIS character in the ranges QR Kanji mode covers -/
def leadOK (b : Nat) : Bool := (0x81 ≤ b && b ≤ 0x9F) || (0xE0 ≤ b && b ≤ 0xEB)

/-- `isOnlyDoubleByteKanji` as a predicate: the Shift_JIS encoder succeeded, the byte count is even and every byte at
    an even position is such a lead byte -/
def onlyDoubleByteKanji (sjis : Option (List Nat)) : Bool :=
  match sjis with
  | none => false
  | some bytes => bytes.length % 2 == 0 && (List.range (bytes.length / 2)).all (fun k => leadOK (bytes.getD (2 * k) 0))

def inTable (c : Nat) : Bool := (alnumCode c).isSome
def isDigitB (c : Nat) : Bool := 48 ≤ c && c ≤ 57

/-- the reference mode analysis -/
def refMode (content : List Nat) (isSJIS : Bool) (sjis : Option (List Nat)) : Mode :=
  if isSJIS && onlyDoubleByteKanji sjis then .kanji
  else if !content.isEmpty && content.all isDigitB then .numeric
  else if !content.isEmpty && content.all inTable then .alnum
  else .byte

theorem isOnlyDoubleByteKanji_eq (sjis : Option (List Nat)) :
    isOnlyDoubleByteKanji sjis = .ok (onlyDoubleByteKanji sjis) := by
  cases sjis with
  | none => rfl
  | some bytes =>
    unfold isOnlyDoubleByteKanji onlyDoubleByteKanji
    simp only
    by_cases he : bytes.length % 2 = 0
    · have h1 : ¬ (bytes.length % 2 ≠ 0) := by omega
      rw [if_neg h1]
      have key : ∀ k, 2 * k ≤ bytes.length →
          (List.range k).foldlM (fun (ok : Bool) k =>
            if !ok then pure false
            else do
              let byte1 ← idx bytes ((2 * k : Nat) : Int)
              pure (!((byte1 < 0x81 ∨ byte1 > 0x9F) ∧ (byte1 < 0xE0 ∨ byte1 > 0xEB)))) true =
            (.ok ((List.range k).all (fun k => leadOK (bytes.getD (2 * k) 0))) : Res Bool) := by
        intro k
        induction k with
        | zero => intro _; rfl
        | succ k ih =>
          intro hk
          rw [List.range_succ, List.foldlM_append, ih (by omega)]
          simp only [bind, Except.bind, List.foldlM_cons, List.foldlM_nil, List.all_append, List.all_cons, List.all_nil,
            Bool.and_true]
          cases hall : (List.range k).all (fun k => leadOK (bytes.getD (2 * k) 0))
          · simp [pure, Except.pure]
          · simp only [Bool.not_true, Bool.false_eq_true, if_false, Bool.true_and]
            rw [idx_nat bytes (2 * k) (by omega)]
            simp only [pure, Except.pure]
            have : bytes.getD (2 * k) 0 = bytes[2 * k]'(by omega) := by
              simp [List.getD_eq_getElem?_getD, List.getElem?_eq_getElem (by omega : 2 * k < bytes.length)]
            rw [this]
            generalize bytes[2 * k]'(by omega) = b
            congr 1
            unfold leadOK
            by_cases h : ((b < 0x81 ∨ b > 0x9F) ∧ (b < 0xE0 ∨ b > 0xEB))
            · simp only [h, decide_true, Bool.not_true]
              simp; omega
            · simp only [h, decide_false, Bool.not_false]
              simp; omega
      rw [key (bytes.length / 2) (by omega)]
      simp [he]
    · rw [if_pos he]
      simp [he]

/-- one step of the scan loop of `chooseMode` -/
def scanStep (st : Option (Bool × Bool)) (c : Nat) : Res (Option (Bool × Bool)) :=
  match st with
  | none => pure none
  | some (hasNumeric, hasAlphanumeric) =>
    if c ≥ 48 ∧ c ≤ 57 then pure (some (true, hasAlphanumeric))
    else do
      let code ← getAlphanumericCode c
      if code ≠ -1 then pure (some (hasNumeric, true)) else pure none

theorem scanContent_def (content : List Nat) : scanContent content = content.foldlM scanStep (some (false, false)) := rfl

/-- the step without the error monad -/
def scanPure (st : Option (Bool × Bool)) (c : Nat) : Option (Bool × Bool) :=
  match st with
  | none => none
  | some (n, a) => if isDigitB c then some (true, a) else if inTable c then some (n, true) else none

theorem scanStep_eq (st : Option (Bool × Bool)) (c : Nat) : scanStep st c = .ok (scanPure st c) := by
  cases st with
  | none => rfl
  | some p =>
    obtain ⟨n, a⟩ := p
    unfold scanStep scanPure
    simp only
    by_cases hd : c ≥ 48 ∧ c ≤ 57
    · have hdb : isDigitB c = true := by simp [isDigitB]; omega
      rw [if_pos hd, hdb]; rfl
    · have hdb : isDigitB c = false := by simp [isDigitB]; omega
      rw [if_neg hd, getAlphanumericCode_eq, hdb]
      simp only [bind, Except.bind, Bool.false_eq_true, if_false]
      cases hc : alnumCode c with
      | none => simp [inTable, hc, pure, Except.pure]
      | some k =>
        have hk : ((k : Int) ≠ -1) := by omega
        simp [inTable, hc, hk, pure, Except.pure]

theorem foldlM_ok_pure {σ ι : Type} (f : σ → ι → Res σ) (g : σ → ι → σ) (h : ∀ s i, f s i = .ok (g s i)) :
    ∀ (l : List ι) (s : σ), l.foldlM f s = .ok (l.foldl g s) := by
  intro l
  induction l with
  | nil => intro s; rfl
  | cons i is ih => intro s; simp only [List.foldlM_cons, List.foldl_cons, h, bind, Except.bind]; exact ih _

theorem scanPure_none (l : List Nat) : l.foldl scanPure none = none := by
  induction l with
  | nil => rfl
  | cons c cs ih => exact ih

theorem scanPure_fold : ∀ (l : List Nat) (n a : Bool),
    l.foldl scanPure (some (n, a)) =
      if l.all inTable then some (n || l.any isDigitB, a || l.any (fun c => !isDigitB c)) else none := by
  intro l
  induction l with
  | nil => intro n a; simp
  | cons c cs ih =>
    intro n a
    simp only [List.foldl_cons, List.all_cons, List.any_cons]
    have hstep : scanPure (some (n, a)) c =
        (if isDigitB c then some (true, a) else if inTable c then some (n, true) else none) := rfl
    rw [hstep]
    cases hd : isDigitB c
    · by_cases hin : inTable c = true
      · simp only [Bool.false_eq_true, if_false, if_true, hin, ih, Bool.true_and, Bool.false_or, Bool.not_false, Bool.true_or,
          Bool.or_true]
      · simp [hin, scanPure_none]
    · have hin : inTable c = true := by
        unfold inTable alnumCode
        have : 48 ≤ c ∧ c ≤ 57 := by simpa [isDigitB] using hd
        simp [this]
      simp only [if_true, ih, hin, Bool.true_and, Bool.true_or, Bool.or_true, Bool.not_true, Bool.false_or]

theorem scanContent_eq (content : List Nat) :
    scanContent content =
      .ok (if content.all inTable then some (content.any isDigitB, content.any (fun c => !isDigitB c)) else none) := by
  rw [scanContent_def, foldlM_ok_pure scanStep scanPure scanStep_eq, scanPure_fold]
  simp

theorem all_digit_iff (content : List Nat) : content.all isDigitB = !content.any (fun c => !isDigitB c) := by
  induction content with
  | nil => rfl
  | cons c cs ih => simp only [List.all_cons, List.any_cons, ih]; cases isDigitB c <;> simp

theorem digit_inTable (content : List Nat) (h : content.all isDigitB = true) : content.all inTable = true := by
  rw [List.all_eq_true] at h ⊢
  intro c hc
  have := h c hc
  unfold inTable alnumCode
  simp only [isDigitB, Bool.and_eq_true, decide_eq_true_eq] at this
  simp [this]

/-- the mode the scan loop and the three tests after it yield -/
theorem scanMode_eq (content : List Nat) :
    (do
      match ← scanContent content with
      | none => pure Mode.byte
      | some (hasNumeric, hasAlphanumeric) =>
        if hasAlphanumeric then pure Mode.alnum
        else if hasNumeric then pure Mode.numeric
        else pure Mode.byte : Res Mode) =
      .ok (if !content.isEmpty && content.all isDigitB then Mode.numeric
        else if !content.isEmpty && content.all inTable then Mode.alnum else Mode.byte) := by
  rw [scanContent_eq]
  simp only [bind, Except.bind, pure, Except.pure]
  by_cases hall : content.all inTable = true
  · rw [if_pos hall]
    simp only [hall, Bool.and_true]
    by_cases hnd : content.any (fun c => !isDigitB c) = true
    · have hd : content.all isDigitB = false := by rw [all_digit_iff, hnd]; rfl
      have hne : content.isEmpty = false := by cases content <;> simp at hnd ⊢
      simp [hnd, hd, hne]
    · have hnd' : content.any (fun c => !isDigitB c) = false := by simpa using hnd
      have hd : content.all isDigitB = true := by rw [all_digit_iff, hnd']; rfl
      simp only [hnd', Bool.false_eq_true, if_false, hd, Bool.and_true]
      cases content with
      | nil => simp
      | cons c cs =>
        have : isDigitB c = true := by simp only [List.all_cons, Bool.and_eq_true] at hd; exact hd.1
        simp [this]
  · have hall' : content.all inTable = false := by simpa using hall
    have hd : content.all isDigitB = false := by
      cases h : content.all isDigitB
      · rfl
      · exact absurd (digit_inTable content h) hall
    simp [hall', hd]

/-- `chooseMode` = the reference mode analysis, for every content and CHARACTER_SET hint value -/
theorem chooseMode_eq (content : List Nat) (isSJIS : Bool) (sjis : Option (List Nat)) :
    chooseMode content isSJIS sjis = .ok (refMode content isSJIS sjis) := by
  unfold chooseMode refMode
  cases isSJIS
  · simp only [Bool.false_eq_true, if_false, Bool.false_and]
    exact scanMode_eq content
  · simp only [if_true, Bool.true_and]
    rw [isOnlyDoubleByteKanji_eq]
    cases hk : onlyDoubleByteKanji sjis
    · simp only [Bool.false_eq_true, if_false]
      exact scanMode_eq content
    · rfl

end Gzx.QREnc
