/-
  wp `qrenc` — naturality of the type-info / version-info embedding loops in the cell values: running the
  loops with values `vals.map σ` on the matrix `m.map σ` gives the `σ`-image of running them with `vals` on `m`.
  Lets the per-version kernel checks (Proofs/QREncFunc*.lean) run ONCE with position tags as values and be
  instantiated with the real format / version bits afterwards.
-/
import Gzx.Model.QREncMatrix
namespace Gzx.QREnc
open Gzx

def mapM (σ : Int → Int) (m : ByteMatrix) : ByteMatrix := { m with bytes := m.bytes.map (fun r => r.map σ) }

theorem idx_map {α β} (f : α → β) (l : List α) (i : Int) : idx (l.map f) i = (idx l i).map f := by
  unfold idx panicIdx
  by_cases h : i < 0
  · simp [h, Except.map]
  · simp only [h, if_false, List.getElem?_map]
    cases l[i.toNat]? <;> simp [Except.map]

theorem get_mapM (σ : Int → Int) (m : ByteMatrix) (x y : Int) : (mapM σ m).get x y = (m.get x y).map σ := by
  unfold ByteMatrix.get mapM
  simp only [idx_map, bind, Except.bind]
  cases idx m.bytes y with
  | error e => simp [Except.map]
  | ok row => simp only [Except.map, idx_map]

theorem set_mapM (σ : Int → Int) (m : ByteMatrix) (x y v : Int) :
    (mapM σ m).set x y (σ v) = (m.set x y v).map (mapM σ) := by
  unfold ByteMatrix.set mapM
  simp only [idx_map, bind, Except.bind]
  cases idx m.bytes y with
  | error e => simp [Except.map]
  | ok row =>
    simp only [Except.map, idx_map]
    cases idx row x with
    | error e => simp
    | ok c => simp [pure, Except.pure, List.map_set]

theorem foldlM_natural {σ τ ι} (φ : σ → τ) (body : σ → ι → Res σ) (body' : τ → ι → Res τ)
    (h : ∀ s k, body' (φ s) k = (body s k).map φ) :
    ∀ (l : List ι) (s : σ), l.foldlM body' (φ s) = (l.foldlM body s).map φ := by
  intro l
  induction l with
  | nil => intro s; simp [Except.map, pure, Except.pure]
  | cons k ks ih =>
    intro s
    simp only [List.foldlM_cons, bind, Except.bind]
    rw [h]
    cases body s k with
    | error e => simp [Except.map]
    | ok s' => simp only [Except.map]; rw [ih]; rfl

theorem forRange_natural {σ τ} (φ : σ → τ) (lo hi : Int) (body : Int → σ → Res σ) (body' : Int → τ → Res τ)
    (h : ∀ i s, body' i (φ s) = (body i s).map φ) (s : σ) :
    forRange lo hi body' (φ s) = (forRange lo hi body s).map φ := by
  unfold forRange
  exact foldlM_natural φ _ _ (fun s k => h _ s) _ s

/-- type information: values commute with the loop -/
theorem embedTypeInfoVals_natural (σ : Int → Int) (vals : List Int) (m : ByteMatrix) :
    embedTypeInfoVals (vals.map σ) (mapM σ m) = (embedTypeInfoVals vals m).map (mapM σ) := by
  unfold embedTypeInfoVals
  simp only [List.length_map]
  apply forRange_natural
  intro i s
  simp only [idx_map, bind, Except.bind]
  cases idx vals (↑vals.length - 1 - i) with
  | error e => simp [Except.map]
  | ok bit =>
    simp only [Except.map]
    cases idx typeInfoCoordinates i with
    | error e => simp
    | ok coordinates =>
      simp only
      cases idx coordinates 0 with
      | error e => simp
      | ok x1 =>
        simp only
        cases idx coordinates 1 with
        | error e => simp
        | ok y1 =>
          simp only
          rw [set_mapM]
          cases s.set x1 y1 bit with
          | error e => simp [Except.map]
          | ok s1 =>
            simp only [Except.map]
            have hw : (mapM σ s1).width = s1.width := rfl
            have hh : (mapM σ s1).height = s1.height := rfl
            rw [hw, hh]
            split
            · rw [set_mapM]; rfl
            · rw [set_mapM]
              cases s1.set 8 (s1.height - 7 + (i - 8)) bit with
              | error e => simp [Except.map]
              | ok s2 => simp only [Except.map]; rw [set_mapM]; rfl

/-- version information: values commute with the double loop -/
theorem embedVersionInfoVals_natural (σ : Int → Int) (vals : List Int) (m : ByteMatrix) :
    embedVersionInfoVals (vals.map σ) (mapM σ m) = (embedVersionInfoVals vals m).map (mapM σ) := by
  unfold embedVersionInfoVals
  have key := forRange_natural (fun (st : ByteMatrix × Int) => (mapM σ st.1, st.2)) 0 6
    (fun i (st : ByteMatrix × Int) =>
      forRange 0 3 (fun j (st : ByteMatrix × Int) => do
        let (m, bitIndex) := st
        let bit ← idx vals bitIndex
        let m ← m.set i (m.height - 11 + j) bit
        let m ← m.set (m.height - 11 + j) i bit
        pure (m, bitIndex - 1)) st)
    (fun i (st : ByteMatrix × Int) =>
      forRange 0 3 (fun j (st : ByteMatrix × Int) => do
        let (m, bitIndex) := st
        let bit ← idx (vals.map σ) bitIndex
        let m ← m.set i (m.height - 11 + j) bit
        let m ← m.set (m.height - 11 + j) i bit
        pure (m, bitIndex - 1)) st)
    (by
      intro i st
      apply forRange_natural (fun (st : ByteMatrix × Int) => (mapM σ st.1, st.2))
      intro j st
      obtain ⟨s, bitIndex⟩ := st
      simp only [idx_map, bind, Except.bind]
      cases idx vals bitIndex with
      | error e => simp [Except.map]
      | ok bit =>
        simp only [Except.map]
        have hh : (mapM σ s).height = s.height := rfl
        rw [hh, set_mapM]
        cases s.set i (s.height - 11 + j) bit with
        | error e => simp [Except.map]
        | ok s1 =>
          simp only [Except.map]
          have hh1 : (mapM σ s1).height = s1.height := rfl
          rw [hh1, set_mapM]
          cases s1.set (s1.height - 11 + j) i bit with
          | error e => simp [Except.map]
          | ok s2 => simp [Except.map, pure, Except.pure])
    (m, 6 * 3 - 1)
  simp only [bind, Except.bind] at key ⊢
  rw [key]
  generalize forRange 0 6 _ _ = X
  cases X with
  | error e => simp [Except.map]
  | ok r => simp [Except.map, pure, Except.pure]

end Gzx.QREnc
