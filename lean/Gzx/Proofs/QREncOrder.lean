/-
  wp `qrenc` — GENERAL proof that the coded zig-zag loop of `embedDataBits` (with its `x == 6` skip and direction
  flips) visits the modules in the standard's placement order `QRRef.zigzagAll n`, for every odd side `n ≥ 9`
  (hence for every version number, not only 1..40).
-/
import Gzx.Proofs.QREncOrderDefs
import Gzx.Proofs.QRZigzag
namespace Gzx.QREnc
open Gzx Gzx.QRRef

def pairCells (x : Int) (ys : List Nat) : List (Int × Int) :=
  ys.flatMap (fun (y : Nat) => [(x, (y : Int)), (x - 1, (y : Int))])

/-- upward column: from `y = k - 1` down to 0 -/
theorem col_up (H x : Int) : ∀ (k : Nat), (k : Int) ≤ H → ∀ fuel, k + 1 ≤ fuel →
    columnCells H x (-1) fuel ((k : Int) - 1) = some (pairCells x (List.range k).reverse, -1) := by
  intro k
  induction k with
  | zero =>
    intro _ fuel hf
    cases fuel with
    | zero => omega
    | succ f =>
      unfold columnCells
      have : ¬ (((0 : Nat) : Int) - 1 ≥ 0 ∧ ((0 : Nat) : Int) - 1 < H) := by omega
      rw [if_neg this]
      simp [pairCells]
  | succ k ih =>
    intro hk fuel hf
    cases fuel with
    | zero => omega
    | succ f =>
      unfold columnCells
      have hy : (((k + 1 : Nat) : Int) - 1 ≥ 0 ∧ ((k + 1 : Nat) : Int) - 1 < H) := by omega
      rw [if_pos hy]
      have hstep : ((k + 1 : Nat) : Int) - 1 + -1 = (k : Int) - 1 := by omega
      rw [hstep, ih (by omega) f (by omega)]
      simp only [pairCells, List.range_succ, List.reverse_append, List.reverse_cons, List.reverse_nil, List.nil_append,
        List.singleton_append, List.flatMap_cons, Option.some.injEq, Prod.mk.injEq, and_true]
      have : ((k + 1 : Nat) : Int) - 1 = (k : Int) := by omega
      rw [this]
      rfl

/-- downward column: from `y = n - k` up to `n - 1` -/
theorem col_down (n : Nat) (x : Int) : ∀ (k : Nat), k ≤ n → ∀ fuel, k + 1 ≤ fuel →
    columnCells (n : Int) x 1 fuel ((n - k : Nat) : Int) = some (pairCells x (List.range' (n - k) k), (n : Int)) := by
  intro k
  induction k with
  | zero =>
    intro _ fuel hf
    cases fuel with
    | zero => omega
    | succ f =>
      unfold columnCells
      have : ¬ (((n - 0 : Nat) : Int) ≥ 0 ∧ ((n - 0 : Nat) : Int) < (n : Int)) := by omega
      rw [if_neg this]
      simp [pairCells]
  | succ k ih =>
    intro hk fuel hf
    cases fuel with
    | zero => omega
    | succ f =>
      unfold columnCells
      have hy : (((n - (k + 1) : Nat) : Int) ≥ 0 ∧ ((n - (k + 1) : Nat) : Int) < (n : Int)) := by omega
      rw [if_pos hy]
      have hstep : ((n - (k + 1) : Nat) : Int) + 1 = ((n - k : Nat) : Int) := by omega
      rw [hstep, ih (by omega) f (by omega)]
      have hr : List.range' (n - (k + 1)) (k + 1) = (n - (k + 1)) :: List.range' (n - k) k := by
        have : n - (k + 1) + 1 = n - k := by omega
        rw [List.range'_succ, this]
      rw [hr]
      simp [pairCells]

/-- the reference column pair as the Int cells the loop handles -/
theorem columnPair_cast (n xr : Nat) (hx : 0 < xr) (up : Bool) :
    (columnPair n xr up).map (fun c => ((c.1 : Int), (c.2 : Int))) =
      pairCells (xr : Int) (if up then (List.range n).reverse else List.range n) := by
  unfold columnPair pairCells
  rw [List.map_flatMap]
  congr 1
  funext y
  simp only [List.map_cons, List.map_nil]
  have : ((xr - 1 : Nat) : Int) = (xr : Int) - 1 := by omega
  rw [this]

/-- x before the `if x == 6` adjustment of iteration `k` -/
def xBefore (n k : Nat) : Int := if 2 * k + 7 ≤ n then (n : Int) - 1 - 2 * k else (n : Int) - 2 - 2 * k

theorem outer_from (n : Nat) (hodd : n % 2 = 1) (h9 : 9 ≤ n) :
    ∀ (r k : Nat), k + r = (n - 1) / 2 → ∀ fuel, r + 1 ≤ fuel →
      outerCells (n : Int) fuel (xBefore n k) (if k % 2 = 0 then (n : Int) - 1 else 0) (if k % 2 = 0 then -1 else 1) =
        some ((List.range' k r).flatMap (fun j =>
          (columnPair n (pairColumn n j) (j % 2 == 0)).map (fun c => ((c.1 : Int), (c.2 : Int))))) := by
  intro r
  induction r with
  | zero =>
    intro k hk fuel hf
    cases fuel with
    | zero => omega
    | succ f =>
      unfold outerCells
      have hx : ¬ (xBefore n k > 0) := by unfold xBefore; split <;> omega
      rw [if_neg hx]
      simp
  | succ r ih =>
    intro k hk fuel hf
    cases fuel with
    | zero => omega
    | succ f =>
      unfold outerCells
      have hx : xBefore n k > 0 := by unfold xBefore; split <;> omega
      rw [if_pos hx]
      simp only
      have hpc : (if xBefore n k = 6 then xBefore n k - 1 else xBefore n k) = ((pairColumn n k : Nat) : Int) := by
        unfold xBefore pairColumn
        split <;> split <;> split <;> omega
      have hpos : 0 < pairColumn n k := pairColumn_pos hodd (by omega)
      rw [hpc]
      have hnext : ((pairColumn n k : Nat) : Int) - 2 = xBefore n (k + 1) := by
        unfold xBefore pairColumn
        split <;> split <;> omega
      have htoNat : ((n : Int).toNat + 1) = n + 1 := by omega
      rw [htoNat, List.range'_succ, List.flatMap_cons]
      by_cases hev : k % 2 = 0
      · -- upward column
        simp only [hev, if_true]
        have hcol := col_up (n : Int) ((pairColumn n k : Nat) : Int) n (by omega) (n + 1) (by omega)
        rw [hcol]
        simp only
        have hk1 : (k + 1) % 2 = 1 := by omega
        have hih := ih (k + 1) (by omega) f (by omega)
        have hne : ¬ ((k + 1) % 2 = 0) := by omega
        simp only [hne, if_false] at hih
        have e1 : (-1 : Int) + - -1 = 0 := by omega
        have e2 : (- (-1 : Int)) = 1 := by omega
        rw [hnext, e1, e2, hih]
        simp only [Option.some.injEq]
        congr 1
        rw [columnPair_cast n _ hpos]
        simp
      · -- downward column
        simp only [hev, if_false]
        have hcol := col_down n ((pairColumn n k : Nat) : Int) n (Nat.le_refl _) (n + 1) (by omega)
        have h0 : ((n - n : Nat) : Int) = 0 := by omega
        rw [h0] at hcol
        rw [hcol]
        simp only
        have hih := ih (k + 1) (by omega) f (by omega)
        have hev1 : (k + 1) % 2 = 0 := by omega
        simp only [hev1, if_true] at hih
        have e1 : (n : Int) + -1 = (n : Int) - 1 := by omega
        rw [hnext, e1, hih]
        simp only [Option.some.injEq]
        congr 1
        rw [columnPair_cast n _ hpos]
        have : (k % 2 == 0) = false := by simp [hev]
        simp [this, List.range_eq_range']

/-- the coded loop visits exactly `zigzagAll n`, in that order -/
theorem visitOrder_eq (n : Nat) (hodd : n % 2 = 1) (h9 : 9 ≤ n) :
    visitOrder (n : Int) (n : Int) = some (refOrder n) := by
  unfold visitOrder
  have h := outer_from n hodd h9 ((n - 1) / 2) 0 (by omega) ((n : Int).toNat + 1) (by omega)
  have hx : xBefore n 0 = (n : Int) - 1 := by unfold xBefore; split <;> omega
  simp only [Nat.zero_mod, if_true] at h
  rw [hx] at h
  rw [h]
  unfold refOrder zigzagAll
  rw [List.map_flatMap, List.range_eq_range']

theorem orderOK_all (v : Nat) : OrderOK v := by
  unfold OrderOK
  exact visitOrder_eq (dimension v) (odd_dimension v) (dimension_ge v)

end Gzx.QREnc
