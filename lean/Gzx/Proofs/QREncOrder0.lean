/- wp `qrenc` — the coded zig-zag loop of embedDataBits visits the modules in the standard's placement order, versions 2, 16, 17, 25, 40 (kernel evaluation) -/
import Gzx.Proofs.QREncOrderDefs
set_option maxRecDepth 1000000
namespace Gzx.QREnc.Order
theorem orderOK_2 : OrderOK 2 := by decide +kernel
theorem orderOK_16 : OrderOK 16 := by decide +kernel
theorem orderOK_17 : OrderOK 17 := by decide +kernel
theorem orderOK_25 : OrderOK 25 := by decide +kernel
theorem orderOK_40 : OrderOK 40 := by decide +kernel
end Gzx.QREnc.Order
