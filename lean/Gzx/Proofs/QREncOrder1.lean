/- wp `qrenc` — the coded zig-zag loop of embedDataBits visits the modules in the standard's placement order, versions 4, 15, 18, 26, 39 (kernel evaluation) -/
import Gzx.Proofs.QREncOrderDefs
set_option maxRecDepth 1000000
namespace Gzx.QREnc.Order
theorem orderOK_4 : OrderOK 4 := by decide +kernel
theorem orderOK_15 : OrderOK 15 := by decide +kernel
theorem orderOK_18 : OrderOK 18 := by decide +kernel
theorem orderOK_26 : OrderOK 26 := by decide +kernel
theorem orderOK_39 : OrderOK 39 := by decide +kernel
end Gzx.QREnc.Order
