/- wp `qrenc` — the coded zig-zag loop of embedDataBits visits the modules in the standard's placement order, versions 6, 14, 19, 27, 38 (kernel evaluation) -/
import Gzx.Proofs.QREncOrderDefs
set_option maxRecDepth 1000000
namespace Gzx.QREnc.Order
theorem orderOK_6 : OrderOK 6 := by decide +kernel
theorem orderOK_14 : OrderOK 14 := by decide +kernel
theorem orderOK_19 : OrderOK 19 := by decide +kernel
theorem orderOK_27 : OrderOK 27 := by decide +kernel
theorem orderOK_38 : OrderOK 38 := by decide +kernel
end Gzx.QREnc.Order
