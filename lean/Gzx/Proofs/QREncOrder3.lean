/- wp `qrenc` — the coded zig-zag loop of embedDataBits visits the modules in the standard's placement order, versions 8, 13, 20, 28, 37 (kernel evaluation) -/
import Gzx.Proofs.QREncOrderDefs
set_option maxRecDepth 1000000
namespace Gzx.QREnc.Order
theorem orderOK_8 : OrderOK 8 := by decide +kernel
theorem orderOK_13 : OrderOK 13 := by decide +kernel
theorem orderOK_20 : OrderOK 20 := by decide +kernel
theorem orderOK_28 : OrderOK 28 := by decide +kernel
theorem orderOK_37 : OrderOK 37 := by decide +kernel
end Gzx.QREnc.Order
