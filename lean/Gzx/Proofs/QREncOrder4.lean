/- wp `qrenc` — the coded zig-zag loop of embedDataBits visits the modules in the standard's placement order, versions 7, 12, 21, 29, 36 (kernel evaluation) -/
import Gzx.Proofs.QREncOrderDefs
set_option maxRecDepth 1000000
namespace Gzx.QREnc.Order
theorem orderOK_7 : OrderOK 7 := by decide +kernel
theorem orderOK_12 : OrderOK 12 := by decide +kernel
theorem orderOK_21 : OrderOK 21 := by decide +kernel
theorem orderOK_29 : OrderOK 29 := by decide +kernel
theorem orderOK_36 : OrderOK 36 := by decide +kernel
end Gzx.QREnc.Order
