/- wp `qrenc` — the coded zig-zag loop of embedDataBits visits the modules in the standard's placement order, versions 5, 11, 22, 30, 35 (kernel evaluation) -/
import Gzx.Proofs.QREncOrderDefs
set_option maxRecDepth 1000000
namespace Gzx.QREnc.Order
theorem orderOK_5 : OrderOK 5 := by decide +kernel
theorem orderOK_11 : OrderOK 11 := by decide +kernel
theorem orderOK_22 : OrderOK 22 := by decide +kernel
theorem orderOK_30 : OrderOK 30 := by decide +kernel
theorem orderOK_35 : OrderOK 35 := by decide +kernel
end Gzx.QREnc.Order
