/- wp `qrenc` — the coded zig-zag loop of embedDataBits visits the modules in the standard's placement order, versions 3, 10, 23, 31, 34 (kernel evaluation) -/
import Gzx.Proofs.QREncOrderDefs
set_option maxRecDepth 1000000
namespace Gzx.QREnc.Order
theorem orderOK_3 : OrderOK 3 := by decide +kernel
theorem orderOK_10 : OrderOK 10 := by decide +kernel
theorem orderOK_23 : OrderOK 23 := by decide +kernel
theorem orderOK_31 : OrderOK 31 := by decide +kernel
theorem orderOK_34 : OrderOK 34 := by decide +kernel
end Gzx.QREnc.Order
