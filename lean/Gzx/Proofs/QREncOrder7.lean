/- wp `qrenc` — the coded zig-zag loop of embedDataBits visits the modules in the standard's placement order, versions 1, 9, 24, 32, 33 (kernel evaluation) -/
import Gzx.Proofs.QREncOrderDefs
set_option maxRecDepth 1000000
namespace Gzx.QREnc.Order
theorem orderOK_1 : OrderOK 1 := by decide +kernel
theorem orderOK_9 : OrderOK 9 := by decide +kernel
theorem orderOK_24 : OrderOK 24 := by decide +kernel
theorem orderOK_32 : OrderOK 32 := by decide +kernel
theorem orderOK_33 : OrderOK 33 := by decide +kernel
end Gzx.QREnc.Order
