/-
  wp `qrenc` — the cells the coded zig-zag loop of `embedDataBits` visits, as a list computed by the SAME control
  flow (`zigzagColumn` / `zigzagOuter` of the model with the step replaced by "record the cell"), and the lemma
  that the loop with any step function is the fold of that step over this list.
-/
import Gzx.Model.QREncMatrix
namespace Gzx.QREnc
open Gzx Gzx.QRRef

/-- cells visited by one run of the inner `for y` loop, and the `y` it ends on -/
def columnCells (height x direction : Int) : Nat → Int → Option (List (Int × Int) × Int)
  | 0, _ => none
  | fuel + 1, y =>
    if y ≥ 0 ∧ y < height then
      match columnCells height x direction fuel (y + direction) with
      | some (cs, y') => some ((x, y) :: (x - 1, y) :: cs, y')
      | none => none
    else some ([], y)

/-- cells visited by the outer `for x > 0` loop from state (x, y, direction) -/
def outerCells (height : Int) : Nat → Int → Int → Int → Option (List (Int × Int))
  | 0, _, _, _ => none
  | fuel + 1, x, y, direction =>
    if x > 0 then
      let x := if x = 6 then x - 1 else x
      match columnCells height x direction (height.toNat + 1) y with
      | some (cs, y) =>
        let direction := -direction
        let y := y + direction
        match outerCells height fuel (x - 2) y direction with
        | some rest => some (cs ++ rest)
        | none => none
      | none => none
    else some []

/-- the visit order of `embedDataBits` on a `width × height` matrix -/
def visitOrder (width height : Int) : Option (List (Int × Int)) :=
  outerCells height (width.toNat + 1) (width - 1) (height - 1) (-1)

def stepAll {σ} (step : Int → Int → σ → Res σ) (cs : List (Int × Int)) (s : σ) : Res σ :=
  cs.foldlM (fun s c => step c.1 c.2 s) s

theorem stepAll_append {σ} (step : Int → Int → σ → Res σ) (a b : List (Int × Int)) (s : σ) :
    stepAll step (a ++ b) s = (stepAll step a s >>= stepAll step b) := by
  unfold stepAll
  rw [List.foldlM_append]

theorem zigzagColumn_eq {σ} (step : Int → Int → σ → Res σ) (height x direction : Int) :
    ∀ (fuel : Nat) (y : Int) (s : σ) (cs : List (Int × Int)) (y' : Int),
      columnCells height x direction fuel y = some (cs, y') →
      zigzagColumn step height x direction fuel y s = (stepAll step cs s).map (fun s => (s, y')) := by
  intro fuel
  induction fuel with
  | zero => intro y s cs y' h; simp [columnCells] at h
  | succ fuel ih =>
    intro y s cs y' h
    unfold columnCells at h
    unfold zigzagColumn
    by_cases hy : y ≥ 0 ∧ y < height
    · rw [if_pos hy] at h ⊢
      cases hc : columnCells height x direction fuel (y + direction) with
      | none => rw [hc] at h; simp at h
      | some r =>
        obtain ⟨cs0, y0⟩ := r
        rw [hc] at h
        simp only [Option.some.injEq, Prod.mk.injEq] at h
        obtain ⟨rfl, rfl⟩ := h
        simp only [stepAll, List.foldlM_cons, bind, Except.bind]
        cases step x y s with
        | error e => simp [Except.map]
        | ok s1 =>
          simp only
          cases step (x - 1) y s1 with
          | error e => simp [Except.map]
          | ok s2 =>
            simp only
            have := ih (y + direction) s2 cs0 y0 hc
            rw [this]; rfl
    · rw [if_neg hy] at h ⊢
      simp only [Option.some.injEq, Prod.mk.injEq] at h
      obtain ⟨rfl, rfl⟩ := h
      simp [stepAll, Except.map, pure, Except.pure]

theorem zigzagOuter_eq {σ} (step : Int → Int → σ → Res σ) (height : Int) :
    ∀ (fuel : Nat) (x y direction : Int) (s : σ) (cs : List (Int × Int)),
      outerCells height fuel x y direction = some cs →
      zigzagOuter step height fuel x y direction s = stepAll step cs s := by
  intro fuel
  induction fuel with
  | zero => intro x y d s cs h; simp [outerCells] at h
  | succ fuel ih =>
    intro x y d s cs h
    unfold outerCells at h
    unfold zigzagOuter
    by_cases hx : x > 0
    · rw [if_pos hx] at h ⊢
      simp only at h ⊢
      cases hc : columnCells height (if x = 6 then x - 1 else x) d (height.toNat + 1) y with
      | none => rw [hc] at h; simp at h
      | some r =>
        obtain ⟨cs0, y0⟩ := r
        rw [hc] at h
        simp only at h
        cases ho : outerCells height fuel ((if x = 6 then x - 1 else x) - 2) (y0 + -d) (-d) with
        | none => rw [ho] at h; simp at h
        | some rest =>
          rw [ho] at h
          simp only [Option.some.injEq] at h
          subst h
          rw [zigzagColumn_eq step height _ d _ y s cs0 y0 hc, stepAll_append]
          simp only [bind, Except.bind]
          cases stepAll step cs0 s with
          | error e => simp [Except.map]
          | ok s1 =>
            simp only [Except.map]
            exact ih _ _ _ s1 rest ho
    · rw [if_neg hx] at h ⊢
      simp only [Option.some.injEq] at h
      subst h
      simp [stepAll, pure, Except.pure]

/-- the zig-zag loop with any step function = the fold of the step over the visit order -/
theorem zigzagLoop_eq {σ} (step : Int → Int → σ → Res σ) (width height : Int) (s : σ) (cs : List (Int × Int))
    (h : visitOrder width height = some cs) : zigzagLoop step width height s = stepAll step cs s :=
  zigzagOuter_eq step height _ _ _ _ s cs h

/-- the reference placement order over ALL modules outside column 6, as the Int pairs the loop handles -/
def refOrder (n : Nat) : List (Int × Int) := (zigzagAll n).map (fun c => ((c.1 : Int), (c.2 : Int)))

/-- the per-version statement: the coded loop visits the modules in the standard's placement order -/
def OrderOK (v : Nat) : Prop := visitOrder (dimension v) (dimension v) = some (refOrder (dimension v))

instance (v : Nat) : Decidable (OrderOK v) := by unfold OrderOK; exact inferInstance

end Gzx.QREnc
