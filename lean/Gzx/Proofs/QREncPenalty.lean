/-
  wp `qrenc` — the four penalty loops of mask_util.go (index loops over `array[y][x]` with their early exits)
  compute the reference penalties of ISO/IEC 18004 Table 11 (`QRRef.penalty1..4`, structural recursion) on
  every square 0/1 matrix.
-/
import Gzx.Model.QREncMirror
import Gzx.Proofs.QREncInterleave
import Gzx.Proofs.QRPenalty
import Gzx.Proofs.QRKernels
namespace Gzx.QREnc
open Gzx Gzx.QRRef

/-- a Bool matrix as the ByteMatrix the encoder evaluates -/
def ofRows (rows : List (List Bool)) (n : Nat) : ByteMatrix := ⟨rows.map (fun r => r.map b2i), n, n⟩

structure Square (n : Nat) (rows : List (List Bool)) : Prop where
  len : rows.length = n
  cols : ∀ r ∈ rows, r.length = n

theorem idx_rows {n : Nat} {rows : List (List Bool)} (hs : Square n rows) (y : Nat) (hy : y < n) :
    idx (ofRows rows n).bytes (y : Int) = .ok ((rows.getD y []).map b2i) := by
  unfold ofRows
  simp only
  rw [idx_nat _ _ (by simp [hs.len]; exact hy)]
  simp [List.getD_eq_getElem?_getD, List.getElem?_eq_getElem (by rw [hs.len]; exact hy : y < rows.length)]

theorem getD_row_len {n : Nat} {rows : List (List Bool)} (hs : Square n rows) (y : Nat) (hy : y < n) :
    (rows.getD y []).length = n := by
  have hy' : y < rows.length := by rw [hs.len]; exact hy
  simp only [List.getD_eq_getElem?_getD, List.getElem?_eq_getElem hy', Option.getD_some]
  exact hs.cols _ (List.getElem_mem hy')

theorem idx_cell (r : List Bool) (x : Nat) (hx : x < r.length) :
    idx (r.map b2i) (x : Int) = .ok (b2i (r.getD x false)) := by
  rw [idx_nat _ _ (by simp; exact hx)]
  simp [List.getD_eq_getElem?_getD, List.getElem?_eq_getElem hx]

theorem foldl_range_getD {α σ} (l : List α) (d : α) (f : σ → α → σ) (s : σ) :
    (List.range l.length).foldl (fun s k => f s (l.getD k d)) s = l.foldl f s := by
  have : l = (List.range l.length).map (fun k => l.getD k d) := by
    apply List.ext_getElem
    · simp
    · intro i h1 h2
      simp [List.getD_eq_getElem?_getD, List.getElem?_eq_getElem h1]
  conv => rhs; rw [this]
  rw [List.foldl_map]

theorem forRange_ok {σ} (n : Nat) (body : Int → σ → Res σ) (g : σ → Nat → σ) (s : σ)
    (h : ∀ s k, k < n → body ((k : Nat) : Int) s = .ok (g s k)) :
    forRange 0 (n : Int) body s = .ok ((List.range n).foldl g s) := by
  unfold forRange
  have hn : ((n : Int) - 0).toNat = n := by omega
  rw [hn]
  apply foldlM_ok
  intro s k hk
  have : (0 : Int) + ((k : Nat) : Int) = ((k : Nat) : Int) := by omega
  rw [this]
  exact h s k (List.mem_range.mp hk)

/-! ### rule 1 -/

/-- one step of the run scanner of `applyMaskPenaltyRule1Internal`: (numSameBitCells, prevBit, penalty) -/
def step1 (st : Int × Int × Int) (bit : Int) : Int × Int × Int :=
  if bit = st.2.1 then (st.1 + 1, st.2.1, st.2.2)
  else (1, bit, if st.1 ≥ 5 then st.2.2 + (3 + (st.1 - 5)) else st.2.2)

def encPrev : Option Bool → Int
  | none => -1
  | some b => b2i b

theorem b2i_eq_enc (b : Bool) (prev : Option Bool) : (b2i b = encPrev prev) ↔ prev = some b := by
  cases prev with
  | none => cases b <;> simp [b2i, encPrev]
  | some c => cases b <;> cases c <;> simp [b2i, encPrev]

theorem scan1 : ∀ (r : List Bool) (prev : Option Bool) (run : Nat) (p : Int),
    ((r.map b2i).foldl step1 ((run : Int), encPrev prev, p)).2.2 +
      (if ((r.map b2i).foldl step1 ((run : Int), encPrev prev, p)).1 ≥ 5
        then 3 + (((r.map b2i).foldl step1 ((run : Int), encPrev prev, p)).1 - 5) else 0) =
      p + ((runPenalty r prev run : Nat) : Int) := by
  intro r
  induction r with
  | nil =>
    intro prev run p
    simp only [List.map_nil, List.foldl_nil, runPenalty]
    split <;> split <;> omega
  | cons b bs ih =>
    intro prev run p
    simp only [List.map_cons, List.foldl_cons]
    unfold runPenalty
    by_cases h : prev = some b
    · have hb : b2i b = encPrev prev := (b2i_eq_enc b prev).mpr h
      have hstep : step1 ((run : Int), encPrev prev, p) (b2i b) = (((run + 1 : Nat) : Int), encPrev prev, p) := by
        unfold step1; simp [hb]
      rw [hstep, if_pos h]
      exact ih prev (run + 1) p
    · have hb : ¬ (b2i b = encPrev prev) := fun e => h ((b2i_eq_enc b prev).mp e)
      have hstep : step1 ((run : Int), encPrev prev, p) (b2i b) =
          (((1 : Nat) : Int), encPrev (some b), if (run : Int) ≥ 5 then p + (3 + ((run : Int) - 5)) else p) := by
        unfold step1
        simp only []
        rw [if_neg hb]
        rfl
      rw [hstep, if_neg h, ih (some b) 1]
      split <;> split <;> omega

def lineScore (r : List Bool) : Nat := runPenalty r none 0

theorem inner1 (cells : List Bool) (p : Int) :
    let st := (cells.map b2i).foldl step1 (0, -1, p)
    (if st.1 ≥ 5 then st.2.2 + (3 + (st.1 - 5)) else st.2.2) = p + ((lineScore cells : Nat) : Int) := by
  have := scan1 cells none 0 p
  simp only [encPrev, Int.natCast_zero] at this
  simp only
  unfold lineScore
  rw [← this]
  split <;> omega

theorem sumL_eq_foldl (l : List Nat) (p : Nat) : l.foldl (· + ·) p = p + sumL l := by
  unfold sumL; rw [QRRef.foldl_add_eq]

theorem sumL_cons (x : Nat) (xs : List Nat) : sumL (x :: xs) = x + sumL xs := by
  unfold sumL
  rw [List.foldl_cons, Nat.zero_add, QRRef.foldl_add_eq]

theorem foldl_score (lines : List (List Bool)) (p : Int) :
    lines.foldl (fun (pen : Int) l => pen + ((lineScore l : Nat) : Int)) p = p + ((sumL (lines.map lineScore) : Nat) : Int) := by
  induction lines generalizing p with
  | nil => simp [sumL]
  | cons l ls ih =>
    rw [List.foldl_cons, ih, List.map_cons, sumL_cons]
    omega

theorem rule1_h {n : Nat} {rows : List (List Bool)} (hs : Square n rows) :
    applyMaskPenaltyRule1Internal (ofRows rows n) true = .ok ((sumL (rows.map lineScore) : Nat) : Int) := by
  unfold applyMaskPenaltyRule1Internal
  simp only [if_true]
  have hw : (ofRows rows n).width = (n : Int) := rfl
  have hh : (ofRows rows n).height = (n : Int) := rfl
  simp only [hw, hh, bind, Except.bind]
  rw [forRange_ok n _ (fun pen i => pen + ((lineScore (rows.getD i []) : Nat) : Int))]
  · rw [← hs.len, foldl_range_getD rows [] (fun (pen : Int) l => pen + ((lineScore l : Nat) : Int)), foldl_score]
    simp
  · intro pen i hi
    rw [forRange_ok n _ (fun st j => step1 st (b2i ((rows.getD i []).getD j false)))]
    · simp only [pure, Except.pure]
      have hl := getD_row_len hs i hi
      rw [← hl, foldl_range_getD (rows.getD i []) false (fun st c => step1 st (b2i c))]
      have := inner1 (rows.getD i []) pen
      simp only at this
      rw [List.foldl_map] at this
      rw [← this]
    · intro st j hj
      obtain ⟨a, b, c⟩ := st
      rw [idx_rows hs i hi]
      simp only
      rw [idx_cell _ j (by rw [getD_row_len hs i hi]; exact hj)]
      simp only [step1, pure, Except.pure]
      split <;> rfl

/-- column `i` of the matrix -/
def column (rows : List (List Bool)) (i : Nat) : List Bool := rows.map (fun r => r.getD i false)

theorem rule1_v {n : Nat} {rows : List (List Bool)} (hs : Square n rows) :
    applyMaskPenaltyRule1Internal (ofRows rows n) false =
      .ok ((sumL ((List.range n).map (fun i => lineScore (column rows i))) : Nat) : Int) := by
  unfold applyMaskPenaltyRule1Internal
  simp only [Bool.false_eq_true, if_false]
  have hw : (ofRows rows n).width = (n : Int) := rfl
  have hh : (ofRows rows n).height = (n : Int) := rfl
  simp only [hw, hh, bind, Except.bind]
  rw [forRange_ok n _ (fun pen i => pen + ((lineScore (column rows i) : Nat) : Int))]
  · have := foldl_score ((List.range n).map (column rows)) 0
    rw [List.foldl_map] at this
    rw [this, List.map_map]
    simp
    rfl
  · intro pen i hi
    rw [forRange_ok n _ (fun st j => step1 st (b2i ((column rows i).getD j false)))]
    · simp only [pure, Except.pure]
      have hl : (column rows i).length = n := by simp [column, hs.len]
      rw [← hl, foldl_range_getD (column rows i) false (fun st c => step1 st (b2i c))]
      have := inner1 (column rows i) pen
      simp only at this
      rw [List.foldl_map] at this
      rw [← this]
    · intro st j hj
      obtain ⟨a, b, c⟩ := st
      rw [idx_rows hs j hj]
      simp only
      rw [idx_cell _ i (by rw [getD_row_len hs j hj]; exact hi)]
      have hcol : (column rows i).getD j false = (rows.getD j []).getD i false := by
        have hj' : j < rows.length := by rw [hs.len]; exact hj
        simp [column, List.getD_eq_getElem?_getD, List.getElem?_map, List.getElem?_eq_getElem hj']
      rw [hcol]
      simp only [step1, pure, Except.pure]
      split <;> rfl

theorem transpose_eq {n : Nat} (rows : List (List Bool)) : transpose n rows = (List.range n).map (column rows) := rfl

/-- rule 1 of the mirror = N1 of the reference -/
theorem rule1_eq {n : Nat} {rows : List (List Bool)} (hs : Square n rows) :
    applyMaskPenaltyRule1 (ofRows rows n) = .ok ((penalty1 rows : Nat) : Int) := by
  unfold applyMaskPenaltyRule1
  rw [rule1_h hs, rule1_v hs]
  simp only [bind, Except.bind, pure, Except.pure]
  unfold penalty1
  rw [hs.len, transpose_eq, List.map_map]
  congr 1


/-! ### rule 4 -/

theorem b2i_eq_one (b : Bool) : (b2i b = 1) ↔ b = true := by cases b <;> simp [b2i]

theorem count_row (r : List Bool) (c : Int) :
    r.foldl (fun (n : Int) b => if b2i b = 1 then n + 1 else n) c = c + ((r.count true : Nat) : Int) := by
  induction r generalizing c with
  | nil => simp
  | cons b bs ih =>
    rw [List.foldl_cons, ih]
    cases b <;> simp [b2i, List.count_cons] <;> omega

theorem count_rows (rows : List (List Bool)) (c : Int) :
    rows.foldl (fun (n : Int) r => n + ((r.count true : Nat) : Int)) c =
      c + ((sumL (rows.map (fun r => r.count true)) : Nat) : Int) := by
  induction rows generalizing c with
  | nil => simp [sumL]
  | cons r rs ih => rw [List.foldl_cons, ih, List.map_cons, sumL_cons]; omega

theorem sumL_const (rows : List (List Bool)) (n : Nat) (h : ∀ r ∈ rows, r.length = n) :
    sumL (rows.map List.length) = rows.length * n := by
  induction rows with
  | nil => simp [sumL]
  | cons r rs ih =>
    rw [List.map_cons, sumL_cons, ih (fun r' hr' => h r' (List.mem_cons_of_mem _ hr')), h r List.mem_cons_self,
      List.length_cons, Nat.succ_mul]
    omega

/-- rule 4 of the mirror = N4 of the reference (non-empty matrix) -/
theorem rule4_eq {n : Nat} {rows : List (List Bool)} (hs : Square n rows) (hn : 0 < n) :
    applyMaskPenaltyRule4 (ofRows rows n) = .ok ((penalty4 rows : Nat) : Int) := by
  unfold applyMaskPenaltyRule4
  have hw : (ofRows rows n).width = (n : Int) := rfl
  have hh : (ofRows rows n).height = (n : Int) := rfl
  simp only [hw, hh, bind, Except.bind]
  rw [forRange_ok n _ (fun cnt y => cnt + (((rows.getD y []).count true : Nat) : Int))]
  · rw [← hs.len, foldl_range_getD rows [] (fun (cnt : Int) r => cnt + ((r.count true : Nat) : Int)), count_rows]
    simp only [Int.zero_add]
    have hz : ¬ ((rows.length : Int) * (rows.length : Int) = 0) := by
      rw [hs.len]
      have : (0 : Int) < (n : Int) * (n : Int) := Int.mul_pos (by omega) (by omega)
      omega
    rw [if_neg hz]
    simp only [pure, Except.pure, Except.ok.injEq]
    unfold penalty4
    simp only
    rw [sumL_const rows n hs.cols, hs.len]
    generalize sumL (rows.map (fun r => r.count true)) = dark
    have hnn : ((n : Int) * (n : Int)) = ((n * n : Nat) : Int) := by simp
    rw [hnn]
    have hpos : 0 < n * n := Nat.mul_pos hn hn
    by_cases hge : 2 * dark ≥ n * n
    · rw [if_pos hge]
      have h1 : ¬ (((dark : Nat) : Int) * 2 - ((n * n : Nat) : Int) < 0) := by omega
      rw [if_neg h1]
      have : (((dark : Nat) : Int) * 2 - ((n * n : Nat) : Int)) * 10 = (((2 * dark - n * n) * 10 : Nat) : Int) := by omega
      rw [this, QRKernels.tdiv_natCast]
      simp [Int.natCast_mul]; omega
    · rw [if_neg hge]
      have h1 : (((dark : Nat) : Int) * 2 - ((n * n : Nat) : Int) < 0) := by omega
      rw [if_pos h1]
      have : (-(((dark : Nat) : Int) * 2 - ((n * n : Nat) : Int))) * 10 = (((n * n - 2 * dark) * 10 : Nat) : Int) := by omega
      rw [this, QRKernels.tdiv_natCast]
      simp [Int.natCast_mul]; omega
  · intro cnt y hy
    rw [idx_rows hs y hy]
    simp only
    rw [forRange_ok n _ (fun c x => if b2i ((rows.getD y []).getD x false) = 1 then c + 1 else c)]
    · have hl := getD_row_len hs y hy
      rw [← hl, foldl_range_getD (rows.getD y []) false (fun (c : Int) b => if b2i b = 1 then c + 1 else c), count_row]
    · intro c x hx
      rw [idx_cell _ x (by rw [getD_row_len hs y hy]; exact hx)]
      simp only [bind, Except.bind, pure, Except.pure]


/-! ### rule 2 -/

def cond2 (r0 r1 : List Bool) (x : Nat) : Bool :=
  r0.getD x false == r0.getD (x + 1) false && r0.getD x false == r1.getD x false &&
    r0.getD x false == r1.getD (x + 1) false

theorem b2i_inj (a b : Bool) : (b2i a = b2i b) ↔ a = b := by cases a <;> cases b <;> simp [b2i]

theorem blocks2_range : ∀ (r0 r1 : List Bool) (p : Int), r0.length = r1.length →
    (List.range (r0.length - 1)).foldl (fun (p : Int) x => if cond2 r0 r1 x then p + 1 else p) p =
      p + ((blocks2 r0 r1 : Nat) : Int) := by
  intro r0
  induction r0 with
  | nil => intro r1 p _; simp [blocks2]
  | cons a r0' ih =>
    intro r1 p hl
    cases r0' with
    | nil =>
      cases r1 with
      | nil => simp at hl
      | cons c r1' =>
        cases r1' with
        | nil => simp [blocks2]
        | cons d r1'' => simp at hl
    | cons b r0'' =>
      cases r1 with
      | nil => simp at hl
      | cons c r1' =>
        cases r1' with
        | nil => simp at hl
        | cons d r1'' =>
          have hlen : (a :: b :: r0'').length - 1 = (b :: r0'').length - 1 + 1 := by simp
          rw [hlen, List.range_succ_eq_map, List.foldl_cons, List.foldl_map]
          have hshift : ∀ x, cond2 (a :: b :: r0'') (c :: d :: r1'') (x + 1) = cond2 (b :: r0'') (d :: r1'') x := by
            intro x; simp [cond2, List.getD_eq_getElem?_getD]
          simp only [hshift]
          rw [ih (d :: r1'') _ (by simpa using hl)]
          have hb2 : blocks2 (a :: b :: r0'') (c :: d :: r1'') =
              (if a = b ∧ a = c ∧ a = d then 1 else 0) + blocks2 (b :: r0'') (d :: r1'') := rfl
          rw [hb2]
          have h0 : cond2 (a :: b :: r0'') (c :: d :: r1'') 0 = (a == b && a == c && a == d) := by
            simp [cond2, List.getD_eq_getElem?_getD]
          rw [h0]
          by_cases h : a = b ∧ a = c ∧ a = d
          · obtain ⟨rfl, rfl, rfl⟩ := h
            simp; omega
          · rw [if_neg h]
            have : (a == b && a == c && a == d) = false := by
              cases a <;> cases b <;> cases c <;> cases d <;> simp_all
            rw [this]
            simp

theorem rowPairs_range : ∀ (rows : List (List Bool)) (p : Int),
    (List.range (rows.length - 1)).foldl (fun (p : Int) y => p + ((blocks2 (rows.getD y []) (rows.getD (y + 1) []) : Nat) : Int)) p =
      p + ((rowPairs rows : Nat) : Int) := by
  intro rows
  induction rows with
  | nil => intro p; simp [rowPairs]
  | cons r0 rs ih =>
    intro p
    cases rs with
    | nil => simp [rowPairs]
    | cons r1 rs' =>
      have hlen : (r0 :: r1 :: rs').length - 1 = (r1 :: rs').length - 1 + 1 := by simp
      rw [hlen, List.range_succ_eq_map, List.foldl_cons, List.foldl_map]
      have := ih (p + ((blocks2 r0 r1 : Nat) : Int))
      simp only [List.getD_eq_getElem?_getD, List.getElem?_cons_succ, List.getElem?_cons_zero, Option.getD_some] at this ⊢
      rw [this]
      have hrp : rowPairs (r0 :: r1 :: rs') = blocks2 r0 r1 + rowPairs (r1 :: rs') := rfl
      rw [hrp]
      simp; omega

/-- rule 2 of the mirror = N2 of the reference -/
theorem rule2_eq {n : Nat} {rows : List (List Bool)} (hs : Square n rows) :
    applyMaskPenaltyRule2 (ofRows rows n) = .ok ((penalty2 rows : Nat) : Int) := by
  unfold applyMaskPenaltyRule2
  have hw : (ofRows rows n).width = (n : Int) := rfl
  have hh : (ofRows rows n).height = (n : Int) := rfl
  simp only [hw, hh, bind, Except.bind]
  by_cases hn : n = 0
  · subst hn
    have : rows = [] := List.eq_nil_of_length_eq_zero hs.len
    subst this
    simp [forRange, penalty2, rowPairs, pure, Except.pure]
  have hn1 : ((n : Int) - 1) = ((n - 1 : Nat) : Int) := by omega
  rw [hn1, forRange_ok (n - 1) _
    (fun p y => p + ((blocks2 (rows.getD y []) (rows.getD (y + 1) []) : Nat) : Int))]
  · rw [← hs.len, rowPairs_range]
    simp [penalty2, pure, Except.pure]
  · intro p y hy
    have hy0 : y < n := by omega
    have hy1 : y + 1 < n := by omega
    rw [idx_rows hs y hy0]
    simp only
    rw [forRange_ok (n - 1) _ (fun p x => if cond2 (rows.getD y []) (rows.getD (y + 1) []) x then p + 1 else p)]
    · have hl0 := getD_row_len hs y hy0
      have hl1 := getD_row_len hs (y + 1) hy1
      have := blocks2_range (rows.getD y []) (rows.getD (y + 1) []) p (by rw [hl0, hl1])
      rw [hl0] at this
      rw [this]
    · intro p x hx
      have hx0 : x < (rows.getD y []).length := by rw [getD_row_len hs y hy0]; omega
      have hx1 : x + 1 < (rows.getD y []).length := by rw [getD_row_len hs y hy0]; omega
      have hx0' : x < (rows.getD (y + 1) []).length := by rw [getD_row_len hs (y + 1) hy1]; omega
      have hx1' : x + 1 < (rows.getD (y + 1) []).length := by rw [getD_row_len hs (y + 1) hy1]; omega
      have hyc : ((y : Nat) : Int) + 1 = ((y + 1 : Nat) : Int) := by omega
      have hxc : ((x : Nat) : Int) + 1 = ((x + 1 : Nat) : Int) := by omega
      rw [idx_cell _ x hx0]
      simp only [bind, Except.bind, hxc, hyc]
      rw [idx_cell _ (x + 1) hx1, idx_rows hs (y + 1) hy1]
      simp only [ne_eq, b2i_inj, pure, Except.pure]
      rw [idx_cell _ x hx0', idx_cell _ (x + 1) hx1']
      simp only [b2i_inj]
      unfold cond2
      generalize (rows.getD y []).getD x false = a
      generalize (rows.getD y []).getD (x + 1) false = b
      generalize (rows.getD (y + 1) []).getD x false = c
      generalize (rows.getD (y + 1) []).getD (x + 1) false = d
      cases a <;> cases b <;> cases c <;> cases d <;> simp

end Gzx.QREnc
