/-
  wp `qrenc` — penalty rule 3: the per-position test of `MaskUtil_applyMaskPenaltyRule3` (index comparisons with
  `isWhiteHorizontal/Vertical` and their clamps) is the reference's `n3Here`, and the interleaved row/column count
  is the reference's sum over rows plus sum over columns.
-/
import Gzx.Proofs.QREncPenalty
set_option linter.unusedSimpArgs false
namespace Gzx.QREnc
open Gzx Gzx.QRRef

/-! ### the position test on a line of Booleans -/

def patAt (l : List Bool) (i : Nat) : Bool :=
  decide (i + 6 < l.length) && l.getD i false && !l.getD (i + 1) false && l.getD (i + 2) false &&
    l.getD (i + 3) false && l.getD (i + 4) false && !l.getD (i + 5) false && l.getD (i + 6) false

/-- cells `a ≤ j < a + k` of the line are light -/
def whiteR (l : List Bool) (a k : Nat) : Bool := (List.range' a k).all (fun j => !(l.getD j false))

def n3At (l : List Bool) (i : Nat) : Bool :=
  patAt l i && (whiteR l (i - 4) (i - (i - 4)) || whiteR l (i + 7) (min (i + 11) l.length - (i + 7)))

theorem finderAt_eq (m : List Bool) : finderAt m =
    (decide (6 < m.length) && m.getD 0 false && !m.getD 1 false && m.getD 2 false && m.getD 3 false &&
      m.getD 4 false && !m.getD 5 false && m.getD 6 false) := by
  rcases m with _ | ⟨a, _ | ⟨b, _ | ⟨c, _ | ⟨d, _ | ⟨e, _ | ⟨f, _ | ⟨g, t⟩⟩⟩⟩⟩⟩⟩ <;> simp [finderAt] <;>
    (try (cases a <;> simp [finderAt])) <;> (try (cases b <;> simp [finderAt])) <;> (try (cases c <;> simp [finderAt])) <;>
    (try (cases d <;> simp [finderAt])) <;> (try (cases e <;> simp [finderAt])) <;> (try (cases f <;> simp [finderAt])) <;>
    (try (cases g <;> simp [finderAt]))

theorem getD_drop (l : List Bool) (i k : Nat) : (l.drop i).getD k false = l.getD (i + k) false := by
  simp [List.getD_eq_getElem?_getD, List.getElem?_drop]

theorem patAt_eq (l : List Bool) (i : Nat) : finderAt (l.drop i) = patAt l i := by
  rw [finderAt_eq]
  unfold patAt
  simp only [getD_drop, List.length_drop, Nat.add_zero]
  congr 8
  apply propext
  omega

/-- a slice of the line as a map over its index range -/
theorem slice_eq (l : List Bool) (a k : Nat) :
    (l.drop a).take k = (List.range' a (min k (l.length - a))).map (fun j => l.getD j false) := by
  apply List.ext_getElem
  · simp
  · intro j h1 h2
    simp only [List.length_take, List.length_drop] at h1
    simp [List.getD_eq_getElem?_getD, List.getElem?_eq_getElem (by omega : a + j < l.length)]

theorem allLight_slice (l : List Bool) (a k : Nat) :
    allLight ((l.drop a).take k) = whiteR l a (min k (l.length - a)) := by
  unfold allLight whiteR
  rw [slice_eq, List.all_map]
  rfl

theorem n3Here_eq (l : List Bool) (i : Nat) (hi : i < l.length) :
    n3Here ((l.take i).reverse ++ []) (l.drop i) = n3At l i := by
  unfold n3Here n3At
  rw [patAt_eq, List.append_nil]
  congr 2
  · -- four modules before
    rw [List.take_reverse]
    unfold allLight
    rw [List.all_reverse]
    have hlen : (l.take i).length = i := by rw [List.length_take]; omega
    rw [hlen, List.drop_take]
    have := allLight_slice l (i - 4) (i - (i - 4))
    unfold allLight at this
    rw [this]
    congr 1
    omega
  · -- four modules after
    rw [List.drop_drop, allLight_slice]
    congr 1
    omega

/-! ### sums -/

def sumR (n : Nat) (f : Nat → Nat) : Nat := sumL ((List.range n).map f)

theorem sumR_succ (n : Nat) (f : Nat → Nat) : sumR (n + 1) f = sumR n f + f n := by
  unfold sumR sumL
  rw [List.range_succ, List.map_append, List.foldl_append]
  rfl

theorem sumR_add (n : Nat) (f g : Nat → Nat) : sumR n (fun k => f k + g k) = sumR n f + sumR n g := by
  induction n with
  | zero => rfl
  | succ n ih => rw [sumR_succ, sumR_succ, sumR_succ, ih]; omega

theorem sumR_congr (n : Nat) (f g : Nat → Nat) (h : ∀ k, k < n → f k = g k) : sumR n f = sumR n g := by
  induction n with
  | zero => rfl
  | succ n ih => rw [sumR_succ, sumR_succ, ih (fun k hk => h k (by omega)), h n (by omega)]

theorem sumR_swap (m n : Nat) (a : Nat → Nat → Nat) :
    sumR m (fun y => sumR n (fun x => a y x)) = sumR n (fun x => sumR m (fun y => a y x)) := by
  induction m with
  | zero =>
    have : ∀ n, sumR n (fun _ => 0) = 0 := by
      intro n; induction n with
      | zero => rfl
      | succ n ih => rw [sumR_succ, ih]
    show sumR 0 _ = _
    simp only [sumR, List.range_zero, List.map_nil, sumL, List.foldl_nil]
    exact (this n).symm
  | succ m ih =>
    rw [sumR_succ, ih, ← sumR_add]
    apply sumR_congr
    intro x _
    rw [sumR_succ]

theorem foldl_sumR (n : Nat) (f : Nat → Nat) (a : Int) :
    (List.range n).foldl (fun (acc : Int) k => acc + ((f k : Nat) : Int)) a = a + ((sumR n f : Nat) : Int) := by
  induction n with
  | zero => simp [sumR, sumL]
  | succ n ih =>
    rw [List.range_succ, List.foldl_append, ih, sumR_succ]
    simp only [List.foldl_cons, List.foldl_nil]
    omega

theorem filter_length_sumR (n : Nat) (p : Nat → Bool) :
    ((List.range n).filter p).length = sumR n (fun i => if p i then 1 else 0) := by
  induction n with
  | zero => rfl
  | succ n ih =>
    rw [List.range_succ, List.filter_append, List.length_append, ih, sumR_succ]
    cases h : p n <;> simp [h]

/-- the reference line count as a sum over positions of the position test -/
theorem finderLike_sumR (l : List Bool) :
    finderLike [] l = sumR l.length (fun i => if n3At l i then 1 else 0) := by
  rw [penalty_n3_line l [], filter_length_sumR]
  apply sumR_congr
  intro i hi
  rw [n3Here_eq l i hi]


/-! ### the coded tests -/

theorem allSeq_cons (c : Unit → Res Bool) (cs : List (Unit → Res Bool)) (b : Bool) (h : c () = .ok b) :
    allSeq (c :: cs) = if b then allSeq cs else .ok false := by
  rw [allSeq]
  simp only [bind, Except.bind, h, pure, Except.pure]

theorem white_fold (q : Nat → Bool) : ∀ (k : Nat) (w : Bool),
    (List.range k).foldl (fun (w : Bool) j => if (!w) = true then false else q j) w =
      (w && (List.range k).all q) := by
  intro k
  induction k with
  | zero => intro w; simp
  | succ k ih =>
    intro w
    rw [List.range_succ, List.foldl_append, ih, List.all_append]
    simp only [List.foldl_cons, List.foldl_nil, List.all_cons, List.all_nil, Bool.and_true]
    cases w <;> cases (List.range k).all q <;> simp

theorem all_range' (a k : Nat) (q : Nat → Bool) : (List.range' a k).all q = (List.range k).all (fun j => q (a + j)) := by
  rw [List.range'_eq_map_range, List.all_map]
  rfl

/-- `isWhiteHorizontal` on a line of cells, with the clamps resolved -/
theorem isWhiteHorizontal_eq (r : List Bool) (a k : Nat) (hak : a + k ≤ r.length) (f t : Int)
    (hf : (if f < 0 then 0 else f) = (a : Int))
    (ht : (if t > ((r.map b2i).length : Int) then ((r.map b2i).length : Int) else t) = ((a + k : Nat) : Int)) :
    isWhiteHorizontal (r.map b2i) f t = .ok (whiteR r a k) := by
  unfold isWhiteHorizontal
  simp only [bind, Except.bind]
  rw [hf, ht]
  unfold forRange
  have hcnt : (((a + k : Nat) : Int) - (a : Int)).toNat = k := by omega
  rw [hcnt, foldlM_ok _ (fun (w : Bool) j => if (!w) = true then false else !(r.getD (a + j) false))]
  · rw [white_fold (fun j => !(r.getD (a + j) false)) k true]
    unfold whiteR
    rw [all_range']
    simp
  · intro w j hj
    have hj' : j < k := List.mem_range.mp hj
    cases w with
    | false => simp [pure, Except.pure]
    | true =>
      have : (a : Int) + ((j : Nat) : Int) = ((a + j : Nat) : Int) := by omega
      simp only [Bool.not_true, Bool.false_eq_true, if_false, this]
      rw [idx_cell r (a + j) (by omega)]
      simp only [bind, Except.bind, pure, Except.pure, b2i_eq_one]
      cases r.getD (a + j) false <;> simp

/-- `isWhiteVertical` on column `col` -/
theorem isWhiteVertical_eq {n : Nat} {rows : List (List Bool)} (hs : Square n rows) (col : Nat) (hc : col < n)
    (a k : Nat) (hak : a + k ≤ n) (f t : Int)
    (hf : (if f < 0 then 0 else f) = (a : Int))
    (ht : (if t > (n : Int) then (n : Int) else t) = ((a + k : Nat) : Int)) :
    isWhiteVertical (ofRows rows n).bytes (col : Int) f t = .ok (whiteR (column rows col) a k) := by
  unfold isWhiteVertical
  simp only [bind, Except.bind]
  have hlen : (((ofRows rows n).bytes.length : Nat) : Int) = (n : Int) := by simp [ofRows, hs.len]
  rw [hlen, hf, ht]
  unfold forRange
  have hcnt : (((a + k : Nat) : Int) - (a : Int)).toNat = k := by omega
  rw [hcnt, foldlM_ok _ (fun (w : Bool) j => if (!w) = true then false else !((column rows col).getD (a + j) false))]
  · rw [white_fold (fun j => !((column rows col).getD (a + j) false)) k true]
    unfold whiteR
    rw [all_range']
    simp
  · intro w j hj
    have hj' : j < k := List.mem_range.mp hj
    cases w with
    | false => simp [pure, Except.pure]
    | true =>
      have : (a : Int) + ((j : Nat) : Int) = ((a + j : Nat) : Int) := by omega
      simp only [Bool.not_true, Bool.false_eq_true, if_false, this]
      have hy : a + j < n := by omega
      rw [idx_rows hs (a + j) hy]
      simp only
      rw [idx_cell _ col (by rw [getD_row_len hs _ hy]; exact hc)]
      have hcol : (column rows col).getD (a + j) false = (rows.getD (a + j) []).getD col false := by
        have hj'' : a + j < rows.length := by rw [hs.len]; exact hy
        simp [column, List.getD_eq_getElem?_getD, List.getElem?_map, List.getElem?_eq_getElem hj'']
      rw [hcol]
      simp only [pure, Except.pure, b2i_eq_one]
      cases (rows.getD (a + j) []).getD col false <;> simp

theorem b2i_eq_zero (b : Bool) : (b2i b = 0) ↔ b = false := by cases b <;> simp [b2i]


theorem n3At_false_of_short (l : List Bool) (i : Nat) (h : ¬ i + 6 < l.length) : n3At l i = false := by
  unfold n3At patAt
  simp [h]

theorem allSeq_step (c : Unit → Res Bool) (cs : List (Unit → Res Bool)) (b target : Bool) (h : c () = .ok b)
    (hf : b = false → target = false) (ht : b = true → allSeq cs = .ok target) :
    allSeq (c :: cs) = .ok target := by
  rw [allSeq_cons c cs b h]
  cases b with
  | false => simp [hf rfl]
  | true => simp [ht rfl]

theorem n3At_pattern (l : List Bool) (i : Nat) (h : n3At l i = true) :
    l.getD i false = true ∧ l.getD (i + 1) false = false ∧ l.getD (i + 2) false = true ∧ l.getD (i + 3) false = true ∧
      l.getD (i + 4) false = true ∧ l.getD (i + 5) false = false ∧ l.getD (i + 6) false = true := by
  unfold n3At patAt at h
  simp only [Bool.and_eq_true, Bool.not_eq_true', decide_eq_true_eq] at h
  obtain ⟨⟨⟨⟨⟨⟨⟨⟨_, h0⟩, h1⟩, h2⟩, h3⟩, h4⟩, h5⟩, h6⟩, _⟩ := h
  exact ⟨h0, h1, h2, h3, h4, h5, h6⟩

/-- the coded horizontal condition at column `x` of a row = the position test -/
theorem rule3Horizontal_eq (r : List Bool) (x : Nat) (hx : x < r.length) :
    rule3Horizontal (r.map b2i) (r.length : Int) (x : Int) = .ok (n3At r x) := by
  unfold rule3Horizontal
  simp only
  by_cases h6 : x + 6 < r.length
  · have hd : decide ((x : Int) + 6 < (r.length : Int)) = true := by simp; omega
    have hat : ∀ (k : Nat) (want : Int), k ≤ 6 →
        (do pure ((← idx (r.map b2i) ((x : Int) + (k : Int))) = want) : Res Bool) =
          .ok (decide (b2i (r.getD (x + k) false) = want)) := by
      intro k want hk
      have : (x : Int) + (k : Int) = ((x + k : Nat) : Int) := by omega
      rw [this, idx_cell r (x + k) (by omega)]
      simp [bind, Except.bind, pure, Except.pure]
    have hone : ∀ k, decide (b2i (r.getD (x + k) false) = 1) = r.getD (x + k) false := by
      intro k; cases r.getD (x + k) false <;> simp [b2i]
    have hzero : ∀ k, decide (b2i (r.getD (x + k) false) = 0) = !r.getD (x + k) false := by
      intro k; cases r.getD (x + k) false <;> simp [b2i]
    apply allSeq_step _ _ true _ (by simp [pure, Except.pure, hd]) (by simp)
    intro _
    apply allSeq_step _ _ _ _ (hat 0 1 (by omega))
    · rw [hone]; intro h; cases hn : n3At r x with
      | false => rfl
      | true => have := n3At_pattern r x hn; simp_all
    intro c0; rw [hone] at c0
    apply allSeq_step _ _ _ _ (hat 1 0 (by omega))
    · rw [hzero]; intro h; cases hn : n3At r x with
      | false => rfl
      | true => have := n3At_pattern r x hn; simp_all
    intro c1; rw [hzero] at c1
    apply allSeq_step _ _ _ _ (hat 2 1 (by omega))
    · rw [hone]; intro h; cases hn : n3At r x with
      | false => rfl
      | true => have := n3At_pattern r x hn; simp_all
    intro c2; rw [hone] at c2
    apply allSeq_step _ _ _ _ (hat 3 1 (by omega))
    · rw [hone]; intro h; cases hn : n3At r x with
      | false => rfl
      | true => have := n3At_pattern r x hn; simp_all
    intro c3; rw [hone] at c3
    apply allSeq_step _ _ _ _ (hat 4 1 (by omega))
    · rw [hone]; intro h; cases hn : n3At r x with
      | false => rfl
      | true => have := n3At_pattern r x hn; simp_all
    intro c4; rw [hone] at c4
    apply allSeq_step _ _ _ _ (hat 5 0 (by omega))
    · rw [hzero]; intro h; cases hn : n3At r x with
      | false => rfl
      | true => have := n3At_pattern r x hn; simp_all
    intro c5; rw [hzero] at c5
    apply allSeq_step _ _ _ _ (hat 6 1 (by omega))
    · rw [hone]; intro h; cases hn : n3At r x with
      | false => rfl
      | true => have := n3At_pattern r x hn; simp_all
    intro c6; rw [hone] at c6
    -- the pattern is there: the two white tests
    have hw1 := isWhiteHorizontal_eq r (x - 4) (x - (x - 4)) (by omega) ((x : Int) - 4) (x : Int)
      (by split <;> omega) (by simp only [List.length_map]; split <;> omega)
    have hw2 := isWhiteHorizontal_eq r (x + 7) (min (x + 11) r.length - (x + 7)) (by omega) ((x : Int) + 7) ((x : Int) + 11)
      (by split <;> omega) (by simp only [List.length_map]; split <;> omega)
    have hlast : (do
        if ← isWhiteHorizontal (r.map b2i) ((x : Int) - 4) (x : Int) then pure true
        else isWhiteHorizontal (r.map b2i) ((x : Int) + 7) ((x : Int) + 11) : Res Bool) =
        .ok (whiteR r (x - 4) (x - (x - 4)) || whiteR r (x + 7) (min (x + 11) r.length - (x + 7))) := by
      rw [hw1, hw2]
      simp only [bind, Except.bind, pure, Except.pure]
      cases whiteR r (x - 4) (x - (x - 4)) <;> simp
    have hval : n3At r x = (whiteR r (x - 4) (x - (x - 4)) || whiteR r (x + 7) (min (x + 11) r.length - (x + 7))) := by
      simp only [Nat.add_zero] at c0
      have e1 : r.getD (x + 1) false = false := by simpa using c1
      have e5 : r.getD (x + 5) false = false := by simpa using c5
      unfold n3At patAt
      rw [c0, e1, c2, c3, c4, e5, c6]
      simp [h6]
    apply allSeq_step _ _ _ _ hlast
    · intro h; rw [hval, h]
    · intro h; rw [hval, h]; simp [allSeq]
  · have hd : decide ((x : Int) + 6 < (r.length : Int)) = false := by simp; omega
    rw [allSeq_cons _ _ false (by simp [pure, Except.pure, hd])]
    simp [n3At_false_of_short r x h6]


theorem column_getD {n : Nat} {rows : List (List Bool)} (hs : Square n rows) (x y : Nat) (hy : y < n) :
    (column rows x).getD y false = (rows.getD y []).getD x false := by
  have hy' : y < rows.length := by rw [hs.len]; exact hy
  simp [column, List.getD_eq_getElem?_getD, List.getElem?_map, List.getElem?_eq_getElem hy']

theorem column_length {n : Nat} {rows : List (List Bool)} (hs : Square n rows) (x : Nat) : (column rows x).length = n := by
  simp [column, hs.len]

/-- the coded vertical condition at (x, y) = the position test on column `x` -/
theorem rule3Vertical_eq {n : Nat} {rows : List (List Bool)} (hs : Square n rows) (x y : Nat) (hx : x < n) (hy : y < n) :
    rule3Vertical (ofRows rows n).bytes (n : Int) (x : Int) (y : Int) = .ok (n3At (column rows x) y) := by
  unfold rule3Vertical
  simp only
  have hcl := column_length hs x
  by_cases h6 : y + 6 < n
  · have hd : decide ((y : Int) + 6 < (n : Int)) = true := by simp; omega
    have hat : ∀ (k : Nat) (want : Int), k ≤ 6 →
        (do pure ((← idx (← idx (ofRows rows n).bytes ((y : Int) + (k : Int))) (x : Int)) = want) : Res Bool) =
          .ok (decide (b2i ((column rows x).getD (y + k) false) = want)) := by
      intro k want hk
      have : (y : Int) + (k : Int) = ((y + k : Nat) : Int) := by omega
      rw [this, idx_rows hs (y + k) (by omega)]
      simp only [bind, Except.bind]
      rw [idx_cell _ x (by rw [getD_row_len hs (y + k) (by omega)]; exact hx), column_getD hs x (y + k) (by omega)]
      simp [pure, Except.pure]
    have hone : ∀ k, decide (b2i ((column rows x).getD (y + k) false) = 1) = (column rows x).getD (y + k) false := by
      intro k; cases (column rows x).getD (y + k) false <;> simp [b2i]
    have hzero : ∀ k, decide (b2i ((column rows x).getD (y + k) false) = 0) = !(column rows x).getD (y + k) false := by
      intro k; cases (column rows x).getD (y + k) false <;> simp [b2i]
    apply allSeq_step _ _ true _ (by simp [pure, Except.pure, hd]) (by simp)
    intro _
    apply allSeq_step _ _ _ _ (hat 0 1 (by omega))
    · rw [hone]; intro h; cases hn : n3At (column rows x) y with
      | false => rfl
      | true => have := n3At_pattern _ y hn; simp_all
    intro c0; rw [hone] at c0
    apply allSeq_step _ _ _ _ (hat 1 0 (by omega))
    · rw [hzero]; intro h; cases hn : n3At (column rows x) y with
      | false => rfl
      | true => have := n3At_pattern _ y hn; simp_all
    intro c1; rw [hzero] at c1
    apply allSeq_step _ _ _ _ (hat 2 1 (by omega))
    · rw [hone]; intro h; cases hn : n3At (column rows x) y with
      | false => rfl
      | true => have := n3At_pattern _ y hn; simp_all
    intro c2; rw [hone] at c2
    apply allSeq_step _ _ _ _ (hat 3 1 (by omega))
    · rw [hone]; intro h; cases hn : n3At (column rows x) y with
      | false => rfl
      | true => have := n3At_pattern _ y hn; simp_all
    intro c3; rw [hone] at c3
    apply allSeq_step _ _ _ _ (hat 4 1 (by omega))
    · rw [hone]; intro h; cases hn : n3At (column rows x) y with
      | false => rfl
      | true => have := n3At_pattern _ y hn; simp_all
    intro c4; rw [hone] at c4
    apply allSeq_step _ _ _ _ (hat 5 0 (by omega))
    · rw [hzero]; intro h; cases hn : n3At (column rows x) y with
      | false => rfl
      | true => have := n3At_pattern _ y hn; simp_all
    intro c5; rw [hzero] at c5
    apply allSeq_step _ _ _ _ (hat 6 1 (by omega))
    · rw [hone]; intro h; cases hn : n3At (column rows x) y with
      | false => rfl
      | true => have := n3At_pattern _ y hn; simp_all
    intro c6; rw [hone] at c6
    have hw1 := isWhiteVertical_eq hs x hx (y - 4) (y - (y - 4)) (by omega) ((y : Int) - 4) (y : Int)
      (by split <;> omega) (by split <;> omega)
    have hw2 := isWhiteVertical_eq hs x hx (y + 7) (min (y + 11) n - (y + 7)) (by omega) ((y : Int) + 7) ((y : Int) + 11)
      (by split <;> omega) (by split <;> omega)
    have hlast : (do
        if ← isWhiteVertical (ofRows rows n).bytes (x : Int) ((y : Int) - 4) (y : Int) then pure true
        else isWhiteVertical (ofRows rows n).bytes (x : Int) ((y : Int) + 7) ((y : Int) + 11) : Res Bool) =
        .ok (whiteR (column rows x) (y - 4) (y - (y - 4)) || whiteR (column rows x) (y + 7) (min (y + 11) n - (y + 7))) := by
      rw [hw1, hw2]
      simp only [bind, Except.bind, pure, Except.pure]
      cases whiteR (column rows x) (y - 4) (y - (y - 4)) <;> simp
    have hval : n3At (column rows x) y =
        (whiteR (column rows x) (y - 4) (y - (y - 4)) || whiteR (column rows x) (y + 7) (min (y + 11) n - (y + 7))) := by
      simp only [Nat.add_zero] at c0
      have e1 : (column rows x).getD (y + 1) false = false := by simpa using c1
      have e5 : (column rows x).getD (y + 5) false = false := by simpa using c5
      unfold n3At patAt
      rw [c0, e1, c2, c3, c4, e5, c6, hcl]
      simp [h6]
    apply allSeq_step _ _ _ _ hlast
    · intro h; rw [hval, h]
    · intro h; rw [hval, h]; simp [allSeq]
  · have hd : decide ((y : Int) + 6 < (n : Int)) = false := by simp; omega
    rw [allSeq_cons _ _ false (by simp [pure, Except.pure, hd])]
    simp [n3At_false_of_short (column rows x) y (by rw [hcl]; exact h6)]

/-- rule 3 of the mirror = N3 of the reference -/
theorem rule3_eq {n : Nat} {rows : List (List Bool)} (hs : Square n rows) :
    applyMaskPenaltyRule3 (ofRows rows n) = .ok ((penalty3 rows : Nat) : Int) := by
  unfold applyMaskPenaltyRule3
  have hw : (ofRows rows n).width = (n : Int) := rfl
  have hh : (ofRows rows n).height = (n : Int) := rfl
  simp only [hw, hh, bind, Except.bind]
  rw [forRange_ok n _ (fun acc y => acc + ((sumR n (fun x =>
      (if n3At (rows.getD y []) x then 1 else 0) + (if n3At (column rows x) y then 1 else 0)) : Nat) : Int))]
  · rw [foldl_sumR]
    simp only [pure, Except.pure, Except.ok.injEq, Int.zero_add]
    unfold penalty3
    rw [hs.len, transpose_eq, List.map_map]
    have hrows : sumL (rows.map (finderLike [])) = sumR n (fun y => sumR n (fun x => if n3At (rows.getD y []) x then 1 else 0)) := by
      unfold sumR
      congr 1
      apply List.ext_getElem
      · simp [hs.len]
      · intro y h1 h2
        have hy : y < n := by simpa [hs.len] using h1
        have hy' : y < rows.length := by rw [hs.len]; exact hy
        simp only [List.getElem_map, List.getElem_range]
        have hrl := getD_row_len hs y hy
        have hg : rows.getD y [] = rows[y] := by simp [List.getD_eq_getElem?_getD, List.getElem?_eq_getElem hy']
        rw [finderLike_sumR, ← hg, hrl]
        rfl
    have hcols : sumL ((List.range n).map ((finderLike []) ∘ column rows)) =
        sumR n (fun x => sumR n (fun y => if n3At (column rows x) y then 1 else 0)) := by
      unfold sumR
      congr 1
      apply List.map_congr_left
      intro x _
      simp only [Function.comp]
      rw [finderLike_sumR, column_length hs]
      rfl
    rw [hrows, hcols, ← sumR_swap n n (fun y x => if n3At (column rows x) y then 1 else 0), ← sumR_add]
    have : sumR n (fun y => sumR n (fun x => (if n3At (rows.getD y []) x then 1 else 0) + (if n3At (column rows x) y then 1 else 0))) =
        sumR n (fun k => sumR n (fun x => if n3At (rows.getD k []) x then 1 else 0) + sumR n (fun x => if n3At (column rows x) k then 1 else 0)) := by
      apply sumR_congr
      intro y _
      rw [sumR_add]
    rw [this]
    simp [Int.natCast_mul]; omega
  · intro acc y hy
    rw [forRange_ok n _ (fun a x => a + (((if n3At (rows.getD y []) x then 1 else 0) + (if n3At (column rows x) y then 1 else 0) : Nat) : Int))]
    · rw [foldl_sumR]
    · intro a x hx
      rw [idx_rows hs y hy]
      simp only
      have hrl := getD_row_len hs y hy
      have := rule3Horizontal_eq (rows.getD y []) x (by rw [hrl]; exact hx)
      rw [hrl] at this
      rw [this]
      simp only
      rw [rule3Vertical_eq hs x y hx hy]
      simp only [pure, Except.pure, Except.ok.injEq]
      cases n3At (rows.getD y []) x <;> cases n3At (column rows x) y <;> simp <;> omega

end Gzx.QREnc
