/-
  wp `qrenc` — the back half of `Encoder_encode` on the mirror model, composed: terminateBits →
  interleaveWithECBytes → (chooseMaskPattern) → MatrixUtil_buildMatrix = the reference symbol of the payload
  (`refMatrix` of `finalCodewords` of `terminate`), which is the symbol C01's round-trip theorems decode.
-/
import Gzx.Proofs.QREncMask
import Gzx.Proofs.QREncInterleave
import Gzx.Proofs.QREncBits
namespace Gzx.QREnc
open Gzx Gzx.QRRef

/-- the reference codeword sequence of a payload -/
def refCodewords (v : Nat) (ec : EC) (payload : List Bool) : List Nat :=
  finalCodewords v ec (terminate (dataCodewords v ec) payload)

/-- what `Encoder_encode` does after the version is known -/
def backHalf (K : Kernels) (v : Nat) (ec : EC) (forced : Option Nat) (payload : Bits) : Res (Int × ByteMatrix) := do
  let terminated ← terminateBits (dataCodewords v ec : Nat) payload
  let finalBits ← interleaveWithECBytes K terminated (totalCodewords v : Nat) (dataCodewords v ec : Nat) (numBlocks v ec : Nat)
  let matrix ← newByteMatrix (dimension v : Nat) (dimension v : Nat)
  let (maskPattern, _, matrix) ← match forced with
    | some k => pure ((k : Int), ([] : List Int), matrix)
    | none => chooseMaskPattern K finalBits ec v matrix
  let matrix ← buildMatrix K finalBits ec v maskPattern matrix
  pure (maskPattern, matrix)

theorem newByteMatrix_wfm (n : Nat) : ∃ m, newByteMatrix (n : Int) (n : Int) = .ok m ∧ WFM n m := by
  unfold newByteMatrix
  have : ¬ ((n : Int) < 0 ∨ (0 < (n : Int) ∧ (n : Int) < 0)) := by omega
  rw [if_neg this]
  refine ⟨_, rfl, ?_⟩
  refine ⟨rfl, rfl, by simp, ?_⟩
  intro r hr
  simp only [Int.toNat_natCast] at hr
  rw [List.eq_of_mem_replicate hr]
  simp

theorem zigzag_room (v : Nat) (h1 : 1 ≤ v) (h40 : v ≤ 40) (cw : List Nat) (hl : cw.length = totalCodewords v) :
    (bitsOfBytes cw).length ≤ (zigzag v).length := by
  rw [bitsOfBytes_length, hl, Gzx.Properties.C07.std_zigzag_count v h1 h40]
  omega

/-- the composed back half: the reference symbol, with the forced mask or the reference's own choice -/
theorem backHalf_eq_ref {K : Kernels} (hK : KernelsOK K) (v : Nat) (h1 : 1 ≤ v) (h40 : v ≤ 40) (hf : FuncOK v)
    (ec : EC) (forced : Option Nat) (hforced : ∀ k, forced = some k → k < 8) (payload : Bits)
    (hfit : payload.length ≤ 8 * dataCodewords v ec) :
    backHalf K v ec forced payload =
      .ok (((forced.getD (chooseMask v ec (refCodewords v ec payload)) : Nat) : Int),
        refByteMatrix v ec (forced.getD (chooseMask v ec (refCodewords v ec payload))) (refCodewords v ec payload)) := by
  unfold backHalf
  rw [terminateBits_eq _ _ hfit]
  simp only [bind, Except.bind]
  have hdl := terminate_length (dataCodewords v ec) payload hfit
  have hdb := QRComp.terminate_lt (dataCodewords v ec) payload
  rw [interleave_eq_ref hK v h1 h40 ec _ hdl hdb]
  simp only
  obtain ⟨m0, hm0, hw0⟩ := newByteMatrix_wfm (dimension v)
  rw [hm0]
  simp only
  have hcwl := Gzx.Properties.C07.final_codewords_length v h1 h40 ec _ hdl
  have hroom := zigzag_room v h1 h40 _ hcwl
  cases hfo : forced with
  | some k =>
    have hk := hforced k hfo
    simp only [pure, Except.pure, Option.getD_some]
    rw [buildMatrix_eq_ref hK v h1 h40 hf (orderOK_all v) ec k hk _ hroom m0 hw0]
    rfl
  | none =>
    obtain ⟨pens, m1, hch, hw1⟩ := chooseMaskPattern_eq hK v h1 h40 hf ec _ hroom m0 hw0
    simp only [Option.getD_none]
    rw [hch]
    simp only
    have hk : chooseMask v ec (finalCodewords v ec (terminate (dataCodewords v ec) payload)) < 8 := by
      rw [chooseMask_eq_fold]
      have : ∀ (l : List Nat) (b : Nat × Nat), b.1 < 8 → (∀ k ∈ l, k < 8) →
          (l.foldl (refStep (refPenalty v ec (finalCodewords v ec (terminate (dataCodewords v ec) payload)))) b).1 < 8 := by
        intro l
        induction l with
        | nil => intro b hb _; exact hb
        | cons k ks ih =>
          intro b hb hl
          rw [List.foldl_cons]
          apply ih
          · unfold refStep; split
            · exact hl k List.mem_cons_self
            · exact hb
          · intro k' hk'; exact hl k' (List.mem_cons_of_mem _ hk')
      exact this _ _ (by decide) (fun k hk => List.mem_range.mp hk)
    rw [buildMatrix_eq_ref hK v h1 h40 hf (orderOK_all v) ec _ hk _ hroom m1 hw1]
    rfl

end Gzx.QREnc
