/-
  wp `qrenc` — the data-bit loops of encoder.go on the mirror model (`appendNumericBytes`, `appendAlphanumericBytes`,
  `append8BitBytes` with their index arithmetic) produce the reference packings of ISO/IEC 18004 (`QRRef.packNumeric`,
  `packAlnum`, `bitsOfBytes`); `appendLengthInfo` writes the character count in the version's count width.
-/
import Gzx.Model.QREncMirror
import Gzx.Proofs.QREncBits
import Gzx.Proofs.QREncInv
namespace Gzx.QREnc
open Gzx Gzx.QRRef

/-! ### byte mode -/

theorem append8BitBytes_eq (bs : List Nat) (bits : Bits) :
    append8BitBytes (some bs) bits = .ok (bits ++ bitsOfBytes bs) := by
  unfold append8BitBytes
  simp only [Except.ok.injEq]
  induction bs generalizing bits with
  | nil => simp [bitsOfBytes]
  | cons b bs ih =>
    rw [List.foldl_cons, ih, appendBitsIgn_byte, bitsOfBytes_cons, List.append_assoc]

/-! ### numeric mode -/

def isDigit (c : Nat) : Prop := 48 ≤ c ∧ c ≤ 57

theorem idx_append_right {α} (pre rest : List α) (k : Nat) (hk : k < rest.length) :
    idx (pre ++ rest) ((pre.length : Int) + (k : Int)) = .ok rest[k] := by
  have : (pre.length : Int) + (k : Int) = ((pre.length + k : Nat) : Int) := by omega
  rw [this, idx_nat _ _ (by simp; omega)]
  simp [List.getElem_append_right]

theorem numericLoop : ∀ (n : Nat) (rest pre : List Nat) (bits : Bits) (fuel : Nat), rest.length = n → rest.length + 1 ≤ fuel →
    (∀ c ∈ rest, isDigit c) →
    appendNumericLoop (pre ++ rest) fuel (pre.length : Int) bits = .ok (bits ++ packNumeric (rest.map (· - 48))) := by
  intro n
  induction n using Nat.strongRecOn with
  | _ n ih =>
    intro rest pre bits fuel hn hf hd
    cases fuel with
    | zero => omega
    | succ f =>
      unfold appendNumericLoop
      have hL : (((pre ++ rest).length : Nat) : Int) = (pre.length : Int) + (rest.length : Int) := by simp
      simp only [hL]
      match rest, hn, hf, hd with
      | [], _, _, _ =>
        have : ¬ ((pre.length : Int) < (pre.length : Int) + ((([] : List Nat).length : Nat) : Int)) := by simp
        rw [if_neg this]
        simp [packNumeric]
      | [a], hn, hf, hd =>
        have ha := hd a (by simp)
        have hl : ((([a] : List Nat).length : Nat) : Int) = 1 := rfl
        rw [hl]
        have h1 : ((pre.length : Int) < (pre.length : Int) + 1) := by omega
        have h2 : ¬ ((pre.length : Int) + 2 < (pre.length : Int) + 1) := by omega
        have h3 : ¬ ((pre.length : Int) + 1 < (pre.length : Int) + 1) := by omega
        rw [if_pos h1]
        have hi0 := idx_append_right pre [a] 0 (by simp)
        simp only [Int.natCast_zero, Int.add_zero, List.getElem_cons_zero] at hi0
        simp only [bind, Except.bind, hi0, if_neg h2, if_neg h3]
        have hv : ((a : Int) - 48) = (((a - 48 : Nat)) : Int) := by unfold isDigit at ha; omega
        rw [hv, show (4 : Int) = ((4 : Nat) : Int) by rfl, appendBitsIgn_nat _ 4 (by omega)]
        have := ih 0 (by simp at hn; omega) [] (pre ++ [a]) (bits ++ toBitsBE 4 (a - 48)) f rfl (by simp at hf ⊢; omega) (by simp)
        have e : (((pre ++ [a]).length : Nat) : Int) = (pre.length : Int) + 1 := by simp
        rw [e, List.append_nil] at this
        rw [this]
        simp [packNumeric]
      | [a, b], hn, hf, hd =>
        have ha := hd a (by simp)
        have hb := hd b (by simp)
        have hl : ((([a, b] : List Nat).length : Nat) : Int) = 2 := rfl
        rw [hl]
        have h1 : ((pre.length : Int) < (pre.length : Int) + 2) := by omega
        have h2 : ¬ ((pre.length : Int) + 2 < (pre.length : Int) + 2) := by omega
        have h3 : ((pre.length : Int) + 1 < (pre.length : Int) + 2) := by omega
        rw [if_pos h1]
        have hi0 := idx_append_right pre [a, b] 0 (by simp)
        have hi1 := idx_append_right pre [a, b] 1 (by simp)
        simp only [Int.natCast_zero, Int.add_zero, List.getElem_cons_zero, Int.natCast_one, List.getElem_cons_succ] at hi0 hi1
        simp only [bind, Except.bind, hi0, hi1, if_neg h2, if_pos h3]
        have hv : ((a : Int) - 48) * 10 + ((b : Int) - 48) = (((10 * (a - 48) + (b - 48) : Nat)) : Int) := by
          unfold isDigit at ha hb; omega
        rw [hv, show (7 : Int) = ((7 : Nat) : Int) by rfl, appendBitsIgn_nat _ 7 (by omega)]
        have := ih 0 (by simp at hn; omega) [] (pre ++ [a, b]) (bits ++ toBitsBE 7 (10 * (a - 48) + (b - 48))) f rfl (by simp at hf ⊢; omega) (by simp)
        have e : (((pre ++ [a, b]).length : Nat) : Int) = (pre.length : Int) + 2 := by simp
        rw [e, List.append_nil] at this
        rw [this]
        simp [packNumeric]
      | a :: b :: c :: rest', hn, hf, hd =>
        have ha := hd a (by simp)
        have hb := hd b (by simp)
        have hc := hd c (by simp)
        have hl : (((a :: b :: c :: rest').length : Nat) : Int) = (rest'.length : Int) + 3 := by simp; omega
        rw [hl]
        have h1 : ((pre.length : Int) < (pre.length : Int) + ((rest'.length : Int) + 3)) := by omega
        have h2 : ((pre.length : Int) + 2 < (pre.length : Int) + ((rest'.length : Int) + 3)) := by omega
        rw [if_pos h1]
        have hi0 := idx_append_right pre (a :: b :: c :: rest') 0 (by simp)
        have hi1 := idx_append_right pre (a :: b :: c :: rest') 1 (by simp)
        have hi2 := idx_append_right pre (a :: b :: c :: rest') 2 (by simp)
        simp only [Int.natCast_zero, Int.add_zero, List.getElem_cons_zero, Int.natCast_one, List.getElem_cons_succ] at hi0 hi1 hi2
        have e2 : ((2 : Nat) : Int) = 2 := rfl
        rw [e2] at hi2
        simp only [bind, Except.bind, hi0, hi1, hi2, if_pos h2]
        have hv : ((a : Int) - 48) * 100 + ((b : Int) - 48) * 10 + ((c : Int) - 48) =
            (((100 * (a - 48) + 10 * (b - 48) + (c - 48) : Nat)) : Int) := by
          unfold isDigit at ha hb hc; omega
        rw [hv, show (10 : Int) = ((10 : Nat) : Int) by rfl, appendBitsIgn_nat _ 10 (by omega)]
        have := ih rest'.length (by simp at hn; omega) rest' (pre ++ [a, b, c])
          (bits ++ toBitsBE 10 (100 * (a - 48) + 10 * (b - 48) + (c - 48))) f rfl (by simp at hf ⊢; omega)
          (fun x hx => hd x (by simp [hx]))
        have e : (((pre ++ [a, b, c]).length : Nat) : Int) = (pre.length : Int) + 3 := by simp
        rw [e, show pre ++ [a, b, c] ++ rest' = pre ++ a :: b :: c :: rest' by simp] at this
        rw [this]
        simp [packNumeric, List.append_assoc]

/-- `appendNumericBytes` on a digit string: the reference's numeric packing of the digit values -/
theorem appendNumericBytes_eq (content : List Nat) (hd : ∀ c ∈ content, isDigit c) (bits : Bits) :
    appendNumericBytes content bits = .ok (bits ++ packNumeric (content.map (· - 48))) := by
  unfold appendNumericBytes
  have := numericLoop content.length content [] bits (content.length + 1) rfl (by omega) hd
  simpa using this


/-! ### alphanumeric mode -/

theorem alnumCode_beyond (c : Nat) (h : 96 ≤ c) : alnumCode c = none := by
  unfold alnumCode
  repeat' split
  all_goals (first | rfl | omega)

theorem getAlphanumericCode_eq (c : Nat) :
    getAlphanumericCode c = .ok (match alnumCode c with | some k => (k : Int) | none => -1) := by
  unfold getAlphanumericCode
  have hlen : alphanumericTable.length = 96 := by simp [alphanumericTable]
  by_cases h : c < 96
  · have : ((c : Nat) : Int) < ((alphanumericTable.length : Nat) : Int) := by rw [hlen]; omega
    rw [if_pos this, idx_nat _ _ (by rw [hlen]; exact h)]
    simp [alphanumericTable, List.getElem_map, List.getElem_range]
    cases alnumCode c <;> rfl
  · have : ¬ ((c : Nat) : Int) < ((alphanumericTable.length : Nat) : Int) := by rw [hlen]; omega
    rw [if_neg this, alnumCode_beyond c (by omega)]

theorem alnumLoop : ∀ (n : Nat) (rest pre : List Nat) (codes : List Nat) (bits : Bits) (fuel : Nat), rest.length = n →
    rest.length + 1 ≤ fuel → rest.mapM alnumCode = some codes →
    appendAlphanumericLoop (pre ++ rest) fuel (pre.length : Int) bits = .ok (bits ++ packAlnum codes) := by
  intro n
  induction n using Nat.strongRecOn with
  | _ n ih =>
    intro rest pre codes bits fuel hn hf hc
    cases fuel with
    | zero => omega
    | succ f =>
      unfold appendAlphanumericLoop
      have hL : (((pre ++ rest).length : Nat) : Int) = (pre.length : Int) + (rest.length : Int) := by simp
      simp only [hL]
      match rest, hn, hf, hc with
      | [], _, _, hc =>
        have : ¬ ((pre.length : Int) < (pre.length : Int) + ((([] : List Nat).length : Nat) : Int)) := by simp
        rw [if_neg this]
        simp only [List.mapM_nil, Option.pure_def, Option.some.injEq] at hc
        subst hc
        simp [packAlnum]
      | [a], hn, hf, hc =>
        have hl : ((([a] : List Nat).length : Nat) : Int) = 1 := rfl
        rw [hl]
        have h1 : ((pre.length : Int) < (pre.length : Int) + 1) := by omega
        have h3 : ¬ ((pre.length : Int) + 1 < (pre.length : Int) + 1) := by omega
        rw [if_pos h1]
        have hi0 := idx_append_right pre [a] 0 (by simp)
        simp only [Int.natCast_zero, Int.add_zero, List.getElem_cons_zero] at hi0
        cases ha : alnumCode a with
        | none => simp [List.mapM_cons, ha] at hc
        | some ka =>
          simp only [List.mapM_cons, ha, List.mapM_nil, Option.pure_def, Option.bind_eq_bind, Option.bind_some, Option.some.injEq] at hc
          subst hc
          simp only [bind, Except.bind, hi0, getAlphanumericCode_eq, ha]
          have hne : ¬ ((ka : Int) = -1) := by omega
          rw [if_neg hne, if_neg h3]
          rw [show (6 : Int) = ((6 : Nat) : Int) by rfl, appendBitsIgn_nat _ 6 (by omega)]
          have := ih 0 (by simp at hn; omega) [] (pre ++ [a]) [] (bits ++ toBitsBE 6 ka) f rfl (by simp at hf ⊢; omega) (by simp)
          have e : (((pre ++ [a]).length : Nat) : Int) = (pre.length : Int) + 1 := by simp
          rw [e, List.append_nil] at this
          rw [this]
          simp [packAlnum]
      | a :: b :: rest', hn, hf, hc =>
        have hl : (((a :: b :: rest').length : Nat) : Int) = (rest'.length : Int) + 2 := by simp; omega
        rw [hl]
        have h1 : ((pre.length : Int) < (pre.length : Int) + ((rest'.length : Int) + 2)) := by omega
        have h3 : ((pre.length : Int) + 1 < (pre.length : Int) + ((rest'.length : Int) + 2)) := by omega
        rw [if_pos h1]
        have hi0 := idx_append_right pre (a :: b :: rest') 0 (by simp)
        have hi1 := idx_append_right pre (a :: b :: rest') 1 (by simp)
        simp only [Int.natCast_zero, Int.add_zero, List.getElem_cons_zero, Int.natCast_one, List.getElem_cons_succ] at hi0 hi1
        cases ha : alnumCode a with
        | none => simp [List.mapM_cons, ha] at hc
        | some ka =>
          cases hb : alnumCode b with
          | none => simp [List.mapM_cons, ha, hb] at hc
          | some kb =>
            cases hr : rest'.mapM alnumCode with
            | none => simp [List.mapM_cons, ha, hb, hr] at hc
            | some cs =>
              simp only [List.mapM_cons, ha, hb, hr, Option.pure_def, Option.bind_eq_bind, Option.bind_some, Option.some.injEq] at hc
              subst hc
              simp only [bind, Except.bind, hi0, hi1, getAlphanumericCode_eq, ha, hb]
              have hne : ¬ ((ka : Int) = -1) := by omega
              have hne2 : ¬ ((kb : Int) = -1) := by omega
              rw [if_neg hne, if_pos h3]
              simp only [if_neg hne2]
              have hv : (ka : Int) * 45 + (kb : Int) = ((45 * ka + kb : Nat) : Int) := by omega
              rw [hv, show (11 : Int) = ((11 : Nat) : Int) by rfl, appendBitsIgn_nat _ 11 (by omega)]
              have := ih rest'.length (by simp at hn; omega) rest' (pre ++ [a, b]) cs (bits ++ toBitsBE 11 (45 * ka + kb)) f rfl
                (by simp at hf ⊢; omega) hr
              have e : (((pre ++ [a, b]).length : Nat) : Int) = (pre.length : Int) + 2 := by simp
              rw [e, show pre ++ [a, b] ++ rest' = pre ++ a :: b :: rest' by simp] at this
              rw [this]
              simp [packAlnum, List.append_assoc]

/-- `appendAlphanumericBytes` on a string of Table-5 characters: the reference's alphanumeric packing -/
theorem appendAlphanumericBytes_eq (content codes : List Nat) (hc : content.mapM alnumCode = some codes) (bits : Bits) :
    appendAlphanumericBytes content bits = .ok (bits ++ packAlnum codes) := by
  unfold appendAlphanumericBytes
  have := alnumLoop content.length content [] codes bits (content.length + 1) rfl (by omega) hc
  simpa using this

/-! ### character count -/

theorem appendLengthInfo_eq (v : Nat) (h1 : 1 ≤ v) (h40 : v ≤ 40) (m : Mode) (count : Nat)
    (hlt : count < 2 ^ countBits m v) (bits : Bits) :
    appendLengthInfo (count : Int) (versionInfo v) m bits = .ok (bits ++ toBitsBE (countBits m v) count) := by
  unfold appendLengthInfo QRVersionChoice.characterCountBits tables QRVersionChoice.refTables
  have hnum : (versionInfo v).number = v := rfl
  simp only [hnum]
  have hcb : countBits m v ≤ 32 := by cases m <;> simp [countBits] <;> split <;> (try split) <;> omega
  have hsel : ([countBits m 1, countBits m 10, countBits m 27])[if v ≤ 9 then 0 else if v ≤ 26 then 1 else 2]? =
      some (countBits m v) := by
    by_cases h9 : v ≤ 9
    · simp [h9]; cases m <;> simp [countBits, h9]
    · by_cases h26 : v ≤ 26
      · simp [h9, h26]; cases m <;> simp [countBits, h9, h26]
      · simp [h9, h26]; cases m <;> simp [countBits, h9, h26]
  rw [hsel]
  simp only [bind, Except.bind]
  have hge : ¬ ((count : Int) ≥ ((2 ^ countBits m v : Nat) : Int)) := by omega
  rw [if_neg hge]
  simp only [pure, Except.pure]
  rw [appendBitsIgn_nat _ _ hcb]

end Gzx.QREnc
