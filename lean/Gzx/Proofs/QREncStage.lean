/-
  wp `qrenc` — the function-pattern stage of `MatrixUtil_buildMatrix` with the REAL format / version bits:
  from the per-version tag check (`FuncOK v`) by naturality in the cell values.
-/
import Gzx.Proofs.QREncInv
import Gzx.Proofs.QREncNat
import Gzx.Proofs.QREncFuncDefs
import Gzx.Proofs.QREncBCH
namespace Gzx.QREnc
open Gzx Gzx.QRRef

/-- replace the position tags by the bits of the format word (100 + i) and of the version word (200 + i) -/
def sigma (ec : EC) (mask v : Nat) (c : Int) : Int :=
  if 100 ≤ c ∧ c < 115 then b2i ((formatWord ec mask).testBit (c - 100).toNat)
  else if 200 ≤ c ∧ c < 218 then b2i ((versionWord v).testBit (c - 200).toNat)
  else c

theorem sigma_small (ec : EC) (mask v : Nat) (c : Int) (h : c = -1 ∨ c = 0 ∨ c = 1) : sigma ec mask v c = c := by
  unfold sigma
  have h1 : ¬ (100 ≤ c ∧ c < 115) := by omega
  have h2 : ¬ (200 ≤ c ∧ c < 218) := by omega
  rw [if_neg h1, if_neg h2]

theorem b2i_small (b : Bool) : b2i b = -1 ∨ b2i b = 0 ∨ b2i b = 1 := by cases b <;> simp [b2i]

theorem tags15_sigma (ec : EC) (mask v : Nat) :
    tags15.map (sigma ec mask v) = (toBitsBE 15 (formatWord ec mask)).map b2i := by
  unfold tags15 toBitsBE
  rw [List.map_map, List.map_map]
  apply List.map_congr_left
  intro p hp
  have hp' : p < 15 := List.mem_range.mp hp
  simp only [Function.comp]
  unfold sigma
  have h1 : (100 : Int) ≤ ((100 + (14 - p) : Nat) : Int) ∧ ((100 + (14 - p) : Nat) : Int) < 115 := by omega
  rw [if_pos h1]
  have : (((100 + (14 - p) : Nat) : Int) - 100).toNat = 15 - 1 - p := by omega
  rw [this]

theorem tags18_sigma (ec : EC) (mask v : Nat) :
    tags18.map (sigma ec mask v) = (toBitsBE 18 (versionWord v)).map b2i := by
  unfold tags18 toBitsBE
  rw [List.map_map, List.map_map]
  apply List.map_congr_left
  intro p hp
  have hp' : p < 18 := List.mem_range.mp hp
  simp only [Function.comp]
  unfold sigma
  have h1 : ¬ ((100 : Int) ≤ ((200 + (17 - p) : Nat) : Int) ∧ ((200 + (17 - p) : Nat) : Int) < 115) := by omega
  have h2 : (200 : Int) ≤ ((200 + (17 - p) : Nat) : Int) ∧ ((200 + (17 - p) : Nat) : Int) < 218 := by omega
  rw [if_neg h1, if_pos h2]
  have : (((200 + (17 - p) : Nat) : Int) - 200).toNat = 18 - 1 - p := by omega
  rw [this]

theorem mapM_small (σ : Int → Int) (hσ : ∀ c, (c = -1 ∨ c = 0 ∨ c = 1) → σ c = c) (m : ByteMatrix) (hs : Small m) :
    mapM σ m = m := by
  unfold mapM
  have : m.bytes.map (fun r => r.map σ) = m.bytes := by
    rw [List.map_congr_left (g := id)]
    · simp
    · intro r hr
      show r.map σ = r
      rw [List.map_congr_left (g := id)]
      · simp
      · intro c hc
        exact hσ c (hs r hr c hc)
  rw [this]

theorem small_empty (n : Nat) : Small (emptyMatrix n) := by
  intro r hr c hc
  unfold emptyMatrix at hr
  simp only at hr
  have := List.eq_of_mem_replicate hr
  subst this
  have := List.eq_of_mem_replicate hc
  left; exact this

theorem clear_wfm {n : Nat} {m : ByteMatrix} (hm : WFM n m) : m.clear (-1) = emptyMatrix n := by
  unfold ByteMatrix.clear emptyMatrix
  have hb : m.bytes.map (fun row => row.map (fun _ => (-1 : Int))) = List.replicate n (List.replicate n (-1)) := by
    apply List.ext_getElem
    · simp [hm.rows]
    · intro i h1 h2
      simp only [List.getElem_map, List.getElem_replicate]
      have hi : i < m.bytes.length := by simpa using h1
      have hl := hm.cols _ (List.getElem_mem hi)
      apply List.ext_getElem
      · simp [hl]
      · intro j _ _; simp
  cases m with
  | mk bytes width height =>
    simp only at hb ⊢
    have hw := hm.w; have hh := hm.h
    simp only at hw hh
    rw [hb, hw, hh]

/-- the three function-pattern steps of `buildMatrix` with the real type / version information -/
def functionStage (v : Nat) (ec : EC) (mask : Nat) (m : ByteMatrix) : Res ByteMatrix := do
  let m ← embedBasicPatterns v m
  let m ← embedTypeInfo ec (mask : Int) m
  maybeEmbedVersionInfo v m

theorem mem_EC_all' (ec : EC) : ec ∈ EC.all := by cases ec <;> simp [EC.all]

/-- with the real bits the function stage leaves the tag matrix with every tag replaced by its bit -/
theorem functionStage_eq (v : Nat) (h1 : 1 ≤ v) (h40 : v ≤ 40) (hf : FuncOK v) (ec : EC) (mask : Nat) (hk : mask < 8) :
    functionStage v ec mask (emptyMatrix (dimension v)) =
      .ok (mapM (sigma ec mask v) ⟨tagRows v, dimension v, dimension v⟩) := by
  unfold FuncOK functionTags at hf
  obtain ⟨B, hB, hf⟩ := bind_ok hf
  obtain ⟨T1, hT1, hf⟩ := bind_ok hf
  have hsB : Small B := small_basic v (small_empty _) hB
  have hBσ : mapM (sigma ec mask v) B = B := mapM_small _ (sigma_small ec mask v) B hsB
  unfold functionStage
  simp only [bind, Except.bind]
  rw [hB]
  simp only
  -- type information
  have hti : embedTypeInfo ec (mask : Int) B = .ok (mapM (sigma ec mask v) T1) := by
    unfold embedTypeInfo
    rw [typeInfoBits_all ec (mem_EC_all' ec) mask (List.mem_range.mpr hk)]
    simp only [bind, Except.bind]
    unfold embedTypeInfoBits
    rw [← tags15_sigma ec mask v]
    have := embedTypeInfoVals_natural (sigma ec mask v) tags15 B
    rw [hBσ, hT1] at this
    rw [this]; rfl
  rw [hti]
  simp only
  unfold maybeEmbedVersionInfo
  by_cases hv : v < 7
  · rw [if_pos hv]
    rw [if_pos hv] at hf
    simp only [pure, Except.pure, Except.ok.injEq] at hf
    rw [hf]
  · rw [if_neg hv]
    rw [if_neg hv] at hf
    have hvi := versionInfoBits_all (v - 7) (List.mem_range.mpr (by omega))
    have hv7 : v - 7 + 7 = v := by omega
    rw [hv7] at hvi
    rw [hvi]
    simp only [bind, Except.bind]
    unfold embedVersionInfoBits
    rw [← tags18_sigma ec mask v]
    have := embedVersionInfoVals_natural (sigma ec mask v) tags18 T1
    rw [hf] at this
    rw [this]; rfl

/-! ### what the function stage leaves at each module -/

theorem sigma_b2i (ec : EC) (mask v : Nat) (b : Bool) : sigma ec mask v (b2i b) = b2i b :=
  sigma_small ec mask v _ (b2i_small b)

/-- tag ↦ bit: the cell of the function stage at (x, y) is the standard's function module, -1 on data modules -/
theorem sigma_tagCell (v : Nat) (ec : EC) (mask x y : Nat) :
    sigma ec mask v (tagCell v x y) =
      if isFunction v x y then b2i (functionModule v ec mask x y) else -1 := by
  unfold tagCell functionModule isFunction
  cases hr : regionOf v x y with
  | finder => simp [sigma_b2i]
  | separator => simp [sigma_small, b2i]
  | timing => simp [sigma_b2i]
  | alignment => simp [sigma_b2i]
  | dark => simp [sigma_small, b2i]
  | format =>
    simp only [bne_iff_ne, ne_eq, reduceCtorEq, not_false_eq_true, if_true]
    unfold formatBitAt
    cases hfind : (List.range 15).find? (fun i => formatPos1 i == (x, y) || formatPos2 (dimension v) i == (x, y)) with
    | none => simp [sigma_small, b2i]
    | some i =>
      simp only
      have hi : i < 15 := List.mem_range.mp (List.mem_of_find?_eq_some hfind)
      unfold sigma
      have h1 : (100 : Int) ≤ ((100 + i : Nat) : Int) ∧ ((100 + i : Nat) : Int) < 115 := by omega
      rw [if_pos h1]
      have : (((100 + i : Nat) : Int) - 100).toNat = i := by omega
      rw [this]
  | version =>
    simp only [bne_iff_ne, ne_eq, reduceCtorEq, not_false_eq_true, if_true]
    unfold versionBitAt
    cases hfind : (List.range 18).find? (fun i => versionPos1 (dimension v) i == (x, y) || versionPos2 (dimension v) i == (x, y)) with
    | none => simp [sigma_small, b2i]
    | some i =>
      simp only
      have hi : i < 18 := List.mem_range.mp (List.mem_of_find?_eq_some hfind)
      unfold sigma
      have h1 : ¬ ((100 : Int) ≤ ((200 + i : Nat) : Int) ∧ ((200 + i : Nat) : Int) < 115) := by omega
      have h2 : (200 : Int) ≤ ((200 + i : Nat) : Int) ∧ ((200 + i : Nat) : Int) < 218 := by omega
      rw [if_neg h1, if_pos h2]
      have : (((200 + i : Nat) : Int) - 200).toNat = i := by omega
      rw [this]
  | data => simp [sigma_small]

/-- the matrix the function stage leaves -/
def funcMatrix (v : Nat) (ec : EC) (mask : Nat) : ByteMatrix :=
  mapM (sigma ec mask v) ⟨tagRows v, dimension v, dimension v⟩

theorem funcMatrix_wfm (v : Nat) (ec : EC) (mask : Nat) : WFM (dimension v) (funcMatrix v ec mask) := by
  refine ⟨rfl, rfl, ?_, ?_⟩
  · simp [funcMatrix, mapM, tagRows]
  · intro r hr
    simp only [funcMatrix, mapM, tagRows, List.map_map, List.mem_map, List.mem_range, Function.comp] at hr
    obtain ⟨y, _, rfl⟩ := hr
    simp

theorem funcMatrix_cell (v : Nat) (ec : EC) (mask x y : Nat) (hx : x < dimension v) (hy : y < dimension v) :
    cell (funcMatrix v ec mask) x y =
      if isFunction v x y then b2i (functionModule v ec mask x y) else -1 := by
  rw [← sigma_tagCell]
  unfold cell funcMatrix mapM tagRows
  simp [List.getD_eq_getElem?_getD, List.getElem?_map, List.getElem?_range, hx, hy]

end Gzx.QREnc
