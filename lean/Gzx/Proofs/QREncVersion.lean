/-
  wp `qrenc` — version choice of the mirror (`chooseVersion` loop, two-pass `recommendVersion`; the model of
  C13, `Gzx.QRVersionChoice`, instantiated with the reference tables) = the smallest version that fits by the
  reference's `fitsBits` (`QRRef.minVersion`): links C13's `recommend_is_min` to the reference encoder.
-/
import Gzx.Model.QREncMirror
import Gzx.Properties.C13
namespace Gzx.QREnc
open Gzx Gzx.QRRef Gzx.QRVersionChoice

def rowFacts (v : Nat) (ec : EC) : Bool :=
  decide (rowOf refTables v = versionInfo v) &&
  decide (dataBytes refTables v ec = ((dataCodewords v ec : Nat) : Int)) &&
  Mode.all.all (fun m => cbOf refTables m v == countBits m v)

theorem rowFacts_all : ∀ v ∈ List.range 40, ∀ ec ∈ EC.all, rowFacts (v + 1) ec = true := by decide +kernel

theorem row_facts (v : Nat) (h1 : 1 ≤ v) (h40 : v ≤ 40) (ec : EC) (m : Mode) :
    rowOf refTables v = versionInfo v ∧ dataBytes refTables v ec = ((dataCodewords v ec : Nat) : Int) ∧
      cbOf refTables m v = countBits m v := by
  have h := rowFacts_all (v - 1) (List.mem_range.mpr (by omega)) ec (mem_EC_all ec)
  rw [show v - 1 + 1 = v by omega] at h
  unfold rowFacts at h
  simp only [Bool.and_eq_true, decide_eq_true_eq, List.all_eq_true, beq_iff_eq] at h
  exact ⟨h.1.1, h.1.2, h.2 m (mem_Mode_all m)⟩

/-- C13's "fits" on the reference tables is the reference encoder's `fitsBits` -/
theorem fits_eq_fitsBits (v : Nat) (h1 : 1 ≤ v) (h40 : v ≤ 40) (ec : EC) (m : Mode) (hdr data : Nat) :
    Gzx.Properties.C13.fits refTables ec m hdr data v = fitsBits v ec m hdr data := by
  obtain ⟨_, hd, hc⟩ := row_facts v h1 h40 ec m
  unfold Gzx.Properties.C13.fits Gzx.Properties.C13.bitsNeeded fitsBytes fitsBits
  rw [hd, hc]
  rw [Bool.eq_iff_iff]
  simp only [decide_eq_true_eq]
  omega

theorem find?_congr' {α} {p q : α → Bool} : ∀ (l : List α), (∀ a ∈ l, p a = q a) → l.find? p = l.find? q
  | [], _ => rfl
  | a :: l, h => by
    rw [List.find?_cons, List.find?_cons, h a List.mem_cons_self,
      find?_congr' l (fun x hx => h x (List.mem_cons_of_mem _ hx))]

theorem minFit_eq_minVersion (ec : EC) (m : Mode) (hdr data : Nat) :
    Gzx.Properties.C13.minFit refTables ec m hdr data = minVersion ec m hdr data := by
  unfold Gzx.Properties.C13.minFit minVersion
  apply find?_congr'
  intro v hv
  simp only [List.mem_map, List.mem_range] at hv
  obtain ⟨i, hi, rfl⟩ := hv
  exact fits_eq_fitsBits (i + 1) (by omega) (by omega) ec m hdr data

/-- `recommendVersion` (two passes over the `chooseVersion` loop) returns the row of the smallest version that
    holds the payload, and refuses exactly when none does -/
theorem recommendVersion_eq_min (ec : EC) (m : Mode) (hdr data : Nat) :
    recommendVersion tables ec m hdr data =
      match minVersion ec m hdr data with
      | some v => .ok (versionInfo v)
      | none => .error .writer := by
  have h := Gzx.Properties.C13.recommend_is_min refTables Gzx.Properties.C13.ref_wf Gzx.Properties.C13.ref_mono ec m hdr data
  rw [minFit_eq_minVersion] at h
  show recommendVersion refTables ec m hdr data = _
  rw [h]
  cases hm : minVersion ec m hdr data with
  | none => rfl
  | some v =>
    simp only
    have hv := List.find?_some hm
    have hmem := List.mem_of_find?_eq_some hm
    simp only [List.mem_map, List.mem_range] at hmem
    obtain ⟨i, hi, rfl⟩ := hmem
    rw [(row_facts (i + 1) (by omega) (by omega) ec m).1]

theorem minVersion_range {ec : EC} {m : Mode} {hdr data v : Nat} (h : minVersion ec m hdr data = some v) :
    1 ≤ v ∧ v ≤ 40 ∧ fitsBits v ec m hdr data = true := by
  have hv := List.find?_some h
  have hmem := List.mem_of_find?_eq_some h
  simp only [minVersion, List.mem_map, List.mem_range] at hmem
  obtain ⟨i, hi, rfl⟩ := hmem
  exact ⟨by omega, by omega, hv⟩

end Gzx.QREnc
