/-
  wp `enc2` — the QR writer front end (Model/WriterFrontend.lean) over the MIRROR of `Encoder_encode`
  (Model/QREncMirror.lean) as its core: the core is total because `encode` is (`encode_total`).
-/
import Gzx.Proofs.WriterFrontend
import Gzx.Proofs.QREncFront
namespace Gzx.WriterFrontend
open Gzx Gzx.Render Gzx.QREnc

/-- The QR core built from the mirror of `Encoder_encode`.  `prep` stands for what is outside the mirror model:
    the character-set registry look-up, the golang.org/x/text encoders, `utf8.RuneCountInString` and the conversion
    of the hint values (any function of contents, level and hints). -/
def qrMirrorCore (K : Kernels) (prep : List Nat → Int → Hints → EncInput) : List Nat → Int → Hints → Res Modules :=
  fun c e h =>
    match encode K (prep c e h) with
    | .error f => .error f
    | .ok t =>
      .ok ⟨17 + 4 * t.version, 17 + 4 * t.version,
           fun x y => ((t.matrix.bytes[y]?).bind (fun row => row[x]?)).getD 0 == 1⟩

theorem qrMirrorCore_total {K : Kernels} (hK : KernelsOK K) (prep : List Nat → Int → Hints → EncInput)
    (knownCharset : HintVal → Bool) : QRCoreTotal ⟨knownCharset, qrMirrorCore K prep⟩ := by
  constructor
  · intro c e h w hw
    simp only [qrMirrorCore] at hw
    rcases encode_total hK (prep c e h) with ⟨t, ht, _⟩ | he
    · rw [ht] at hw; cases hw
    · rw [he] at hw; cases hw
  · intro c e h md hok
    simp only [qrMirrorCore] at hok
    split at hok
    · cases hok
    · cases hok
      exact ⟨by show 1 ≤ 17 + 4 * _; omega, by show 1 ≤ 17 + 4 * _; omega⟩

end Gzx.WriterFrontend
