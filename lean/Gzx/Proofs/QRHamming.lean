/-
  Hamming-distance facts for the BCH look-ups of the QR decoder model (format and version information):
  triangle inequality for `numBitsDiffering`, and the behaviour of the two nearest-word loops
  (`fmtLoop`, `verLoop`) on a table whose words are pairwise far apart.
-/
import Gzx.Model.QRDecoder
namespace Gzx.QRDec

theorem xor_mod_two (a b : Nat) : (a ^^^ b) % 2 = (a % 2 + b % 2) % 2 := by
  have h := @Nat.xor_mod_two_eq_one a b
  rcases Nat.mod_two_eq_zero_or_one a with ha | ha <;>
  rcases Nat.mod_two_eq_zero_or_one b with hb | hb <;>
  rcases Nat.mod_two_eq_zero_or_one (a ^^^ b) with hx | hx <;>
  simp [ha, hb, hx] at h ⊢

theorem popCount_zero (k : Nat) : popCount k 0 = 0 := by
  induction k with
  | zero => rfl
  | succ k ih => simp [popCount, ih]

theorem popCount_triangle (k a b c : Nat) :
    popCount k (a ^^^ c) ≤ popCount k (a ^^^ b) + popCount k (b ^^^ c) := by
  induction k generalizing a b c with
  | zero => simp [popCount]
  | succ k ih =>
    simp only [popCount, Nat.xor_div_two]
    have h := ih (a / 2) (b / 2) (c / 2)
    have h1 := xor_mod_two a c
    have h2 := xor_mod_two a b
    have h3 := xor_mod_two b c
    omega

theorem nbd_triangle (a b c : Nat) : numBitsDiffering a c ≤ numBitsDiffering a b + numBitsDiffering b c :=
  popCount_triangle 64 a b c

theorem nbd_comm (a b : Nat) : numBitsDiffering a b = numBitsDiffering b a := by
  simp [numBitsDiffering, Nat.xor_comm]

theorem nbd_self (a : Nat) : numBitsDiffering a a = 0 := by
  simp [numBitsDiffering, Nat.xor_self, popCount_zero]

theorem nbd_xor_left (w e : Nat) : numBitsDiffering (w ^^^ e) w = popCount 64 e := by
  unfold numBitsDiffering
  rw [Nat.xor_comm w e, Nat.xor_assoc, Nat.xor_self, Nat.xor_zero]

/-- all words of a list pairwise differ in at least `n` bits (structural check, linear per pair) -/
def minDistB (n : Nat) : List Nat → Bool
  | [] => true
  | w :: rest => rest.all (fun v => decide (n ≤ numBitsDiffering w v)) && minDistB n rest

def MinDist (n : Nat) (ws : List Nat) : Prop := minDistB n ws = true

instance (n : Nat) (ws : List Nat) : Decidable (MinDist n ws) := by unfold MinDist; infer_instance

theorem minDist_split {n : Nat} {pre post : List Nat} {w : Nat} (h : MinDist n (pre ++ w :: post)) :
    (∀ p ∈ pre, n ≤ numBitsDiffering p w) ∧ (∀ q ∈ post, n ≤ numBitsDiffering w q) := by
  induction pre with
  | nil =>
    simp only [List.nil_append, MinDist, minDistB, Bool.and_eq_true, List.all_eq_true, decide_eq_true_eq] at h
    exact ⟨by simp, h.1⟩
  | cons p pre ih =>
    simp only [List.cons_append, MinDist, minDistB, Bool.and_eq_true, List.all_eq_true, decide_eq_true_eq] at h
    have ⟨h1, h2⟩ := ih h.2
    refine ⟨?_, h2⟩
    intro x hx
    rcases List.mem_cons.mp hx with rfl | hx
    · exact h.1 w (by simp)
    · exact h1 x hx

/-- a received word within 3 bits of a table word is at least `n - 3` bits away from the others -/
theorem far_of_near {n : Nat} {m w t : Nat} (hm : numBitsDiffering m w ≤ 3) (ht : n ≤ numBitsDiffering w t) :
    n ≤ numBitsDiffering m t + 3 := by
  have := nbd_triangle w m t
  rw [nbd_comm w m] at this
  omega

/-! ### format loop -/

theorem fmtLoop_after (m1 m2 : Nat) (rest : List (Nat × Nat)) (best info : Nat)
    (h : ∀ p ∈ rest, 4 ≤ numBitsDiffering m1 p.1 ∧ 4 ≤ numBitsDiffering m2 p.1) (hb : best ≤ 3) :
    fmtLoop m1 m2 rest best info = some info := by
  induction rest with
  | nil => simp [fmtLoop, hb]
  | cons p rest ih =>
    obtain ⟨t, d⟩ := p
    have ⟨h1, h2⟩ := h (t, d) (by simp)
    have ht1 : ¬ t = m1 := by
      intro e; subst e; simp [nbd_self] at h1
    have ht2 : ¬ t = m2 := by
      intro e; subst e; simp [nbd_self] at h2
    simp only at h1 h2
    have hn1 : ¬ numBitsDiffering m1 t < best := by omega
    have hn2 : ¬ numBitsDiffering m2 t < best := by omega
    unfold fmtLoop
    simp only [ht1, ht2, or_self, if_false, hn1, hn2]
    split <;> exact ih (fun q hq => h q (List.mem_cons_of_mem _ hq))

theorem fmtLoop_before (m1 m2 w d : Nat) (pre post : List (Nat × Nat)) (best info : Nat)
    (hpre : ∀ p ∈ pre, 4 ≤ numBitsDiffering m1 p.1 ∧ 4 ≤ numBitsDiffering m2 p.1)
    (hpost : ∀ p ∈ post, 4 ≤ numBitsDiffering m1 p.1 ∧ 4 ≤ numBitsDiffering m2 p.1)
    (h1 : numBitsDiffering m1 w ≤ 3) (h2 : numBitsDiffering m2 w ≤ 3) (hb : 4 ≤ best) :
    fmtLoop m1 m2 (pre ++ (w, d) :: post) best info = some d := by
  induction pre generalizing best info with
  | nil =>
    simp only [List.nil_append]
    unfold fmtLoop
    by_cases hx : w = m1 ∨ w = m2
    · simp [hx]
    · simp only [hx, if_false]
      have hlt : numBitsDiffering m1 w < best := by omega
      simp only [hlt, if_true]
      split
      · split
        · exact fmtLoop_after m1 m2 post _ d hpost (by omega)
        · exact fmtLoop_after m1 m2 post _ d hpost (by omega)
      · exact fmtLoop_after m1 m2 post _ d hpost (by omega)
  | cons p pre ih =>
    obtain ⟨t, d'⟩ := p
    have ⟨g1, g2⟩ := hpre (t, d') (by simp)
    simp only at g1 g2
    have ht1 : ¬ t = m1 := by
      intro e; subst e; simp [nbd_self] at g1
    have ht2 : ¬ t = m2 := by
      intro e; subst e; simp [nbd_self] at g2
    have hpre' : ∀ p ∈ pre, 4 ≤ numBitsDiffering m1 p.1 ∧ 4 ≤ numBitsDiffering m2 p.1 :=
      fun q hq => hpre q (List.mem_cons_of_mem _ hq)
    simp only [List.cons_append]
    unfold fmtLoop
    simp only [ht1, ht2, or_self, if_false]
    split <;> split <;> (try split) <;> exact ih _ _ hpre' (by omega)

/-! ### version loop -/

theorem verLoop_after (bits : Nat) (rest : List Nat) (i best bv : Nat)
    (h : ∀ t ∈ rest, 4 ≤ numBitsDiffering bits t) (hb : best ≤ 3) :
    verLoop bits rest i best bv = .inr (best, bv) := by
  induction rest generalizing i with
  | nil => simp [verLoop]
  | cons t rest ih =>
    have h1 := h t (by simp)
    have ht : ¬ t = bits := by
      intro e; subst e; simp [nbd_self] at h1
    have hn : ¬ numBitsDiffering bits t < best := by omega
    unfold verLoop
    simp only [ht, if_false, hn]
    exact ih _ (fun q hq => h q (List.mem_cons_of_mem _ hq))

theorem verLoop_before (bits w : Nat) (pre post : List Nat) (i best bv : Nat)
    (hpre : ∀ t ∈ pre, 4 ≤ numBitsDiffering bits t)
    (hpost : ∀ t ∈ post, 4 ≤ numBitsDiffering bits t)
    (h1 : numBitsDiffering bits w ≤ 3) (hb : 4 ≤ best) :
    verLoop bits (pre ++ w :: post) i best bv = .inl (i + pre.length + 7) ∨
    ∃ b, b ≤ 3 ∧ verLoop bits (pre ++ w :: post) i best bv = .inr (b, i + pre.length + 7) := by
  induction pre generalizing i best bv with
  | nil =>
    simp only [List.nil_append, List.length_nil, Nat.add_zero]
    unfold verLoop
    by_cases hx : w = bits
    · left; simp [hx]
    · right
      simp only [hx, if_false]
      have hlt : numBitsDiffering bits w < best := by omega
      simp only [hlt, if_true]
      exact ⟨_, h1, verLoop_after bits post _ _ _ hpost h1⟩
  | cons t pre ih =>
    have g := hpre t (by simp)
    have ht : ¬ t = bits := by
      intro e; subst e; simp [nbd_self] at g
    have hpre' : ∀ t ∈ pre, 4 ≤ numBitsDiffering bits t := fun q hq => hpre q (List.mem_cons_of_mem _ hq)
    simp only [List.cons_append, List.length_cons]
    unfold verLoop
    simp only [ht, if_false]
    have e : i + (pre.length + 1) + 7 = (i + 1) + pre.length + 7 := by omega
    rw [e]
    split
    · exact ih (i + 1) _ _ hpre' (by omega)
    · exact ih (i + 1) _ _ hpre' hb

end Gzx.QRDec
