/-
  `DataBlock_GetDataBlocks` inverts the standard's interleaving (ISO/IEC 18004 7.6) for every
  short/long block structure.
-/
import Gzx.Proofs.QRTablesWF
namespace Gzx.QRDec
open Gzx

/-- ISO 18004 7.6 (and `interleaveWithECBytes`): data codewords column by column over the blocks — a
    block contributes to a column while it still has a codeword there —, then the error-correction
    codewords in the same way.  A block is `(data, ec)`. -/
def maxLen (ls : List (List Nat)) : Nat := ls.foldr (fun l m => max l.length m) 0

def interleave (blocks : List (List Nat × List Nat)) : List Nat :=
  (List.range (maxLen (blocks.map (·.1)))).flatMap (fun i => blocks.filterMap (fun b => b.1[i]?)) ++
  (List.range (maxLen (blocks.map (·.2)))).flatMap (fun i => blocks.filterMap (fun b => b.2[i]?))

theorem le_maxLen (ls : List (List Nat)) (l : List Nat) (h : l ∈ ls) : l.length ≤ maxLen ls := by
  induction ls with
  | nil => cases h
  | cons a as ih =>
    simp only [maxLen, List.foldr_cons]
    rcases List.mem_cons.mp h with rfl | h
    · exact Nat.le_max_left _ _
    · exact Nat.le_trans (ih h) (Nat.le_max_right _ _)

theorem mapM_ok {α β : Type} (f : α → Res β) (g : α → β) (l : List α) (h : ∀ x ∈ l, f x = .ok (g x)) :
    l.mapM f = .ok (l.map g) := by
  induction l with
  | nil => rfl
  | cons a l ih =>
    rw [List.mapM_cons, h a (by simp), ih (fun x hx => h x (List.mem_cons_of_mem _ hx))]
    rfl

/-- rows beyond `B` are empty: the flattened prefix does not depend on how far we go -/
theorem flatMap_range_stable {α : Type} (f : Nat → List α) (B : Nat) (hB : ∀ i, B ≤ i → f i = []) (k : Nat) (hk : B ≤ k) :
    (List.range k).flatMap f = (List.range B).flatMap f := by
  induction k with
  | zero => have : B = 0 := by omega
            subst this; rfl
  | succ k ih =>
    rcases Nat.lt_or_ge k B with h | h
    · have : B = k + 1 := by omega
      subst this; rfl
    · rw [List.range_succ, List.flatMap_append, ih h]
      simp [hB k h]

theorem flatMap_range_length {α : Type} (f : Nat → List α) (n d : Nat) (h : ∀ i, i < d → (f i).length = n) :
    ((List.range d).flatMap f).length = d * n := by
  induction d with
  | zero => simp
  | succ d ih =>
    rw [List.range_succ, List.flatMap_append, List.length_append, ih (fun i hi => h i (by omega))]
    simp [h d (by omega), Nat.succ_mul]

/-- element `(i, j)` of a concatenation of `d` rows of equal length `n` -/
theorem flatMap_range_index {α : Type} (f : Nat → List α) (n d : Nat) (h : ∀ i, i < d → (f i).length = n)
    (i j : Nat) (hi : i < d) (hj : j < n) : ((List.range d).flatMap f)[i * n + j]? = (f i)[j]? := by
  induction d with
  | zero => omega
  | succ d ih =>
    rw [List.range_succ, List.flatMap_append, List.getElem?_append,
      flatMap_range_length f n d (fun i hi => h i (by omega))]
    rcases Nat.lt_or_ge i d with hlt | hge
    · have : i * n + j < d * n := by
        have : (i + 1) * n ≤ d * n := Nat.mul_le_mul_right n hlt
        rw [Nat.succ_mul] at this; omega
      simp only [this, if_true]
      exact ih (fun i hi => h i (by omega)) hlt
    · have hid : i = d := by omega
      subst hid
      have : ¬ i * n + j < i * n := by omega
      simp only [this, if_false]
      simp [Nat.add_sub_cancel_left]

theorem filterMap_all_some {α β : Type} (g : α → Option β) (bs : List α) (h : ∀ b ∈ bs, (g b).isSome) :
    (bs.filterMap g).length = bs.length ∧ ∀ j : Nat, (bs.filterMap g)[j]? = bs[j]?.bind g := by
  induction bs with
  | nil => simp
  | cons b bs ih =>
    have hb := h b (by simp)
    obtain ⟨y, hy⟩ := Option.isSome_iff_exists.mp hb
    have ⟨l, e⟩ := ih (fun x hx => h x (List.mem_cons_of_mem _ hx))
    simp only [List.filterMap_cons, hy, List.length_cons, l, true_and]
    intro j
    cases j with
    | zero => simp [hy]
    | succ j => simp [e j]

theorem filterMap_all_none {α β : Type} (g : α → Option β) (bs : List α) (h : ∀ b ∈ bs, g b = none) :
    bs.filterMap g = [] := by
  induction bs with
  | nil => rfl
  | cons b bs ih =>
    simp [List.filterMap_cons, h b (by simp), ih (fun x hx => h x (List.mem_cons_of_mem _ hx))]

theorem map_getD_range (l : List Nat) (k : Nat) (hk : k ≤ l.length) :
    (List.range k).map (fun i => l.getD i 0) = l.take k := by
  apply List.ext_getElem?
  intro i
  rcases Nat.lt_or_ge i k with h | h
  · rw [List.getElem?_map, List.getElem?_range h, List.getElem?_take]
    simp only [h, if_true, Option.map_some]
    have : i < l.length := by omega
    simp [List.getD, List.getElem?_eq_getElem this]
  · rw [List.getElem?_eq_none (by simp; omega), List.getElem?_eq_none (by simp; omega)]


/-- the block structures of ISO 18004 Table 9: `short` blocks with `d` data codewords followed by `long`
    blocks with `d+1`, all with `e` error-correction codewords; at least one short block -/
structure ShortLong (d e : Nat) (short long : List (List Nat × List Nat)) : Prop where
  hs : ∀ b ∈ short, b.1.length = d ∧ b.2.length = e
  hl : ∀ b ∈ long, b.1.length = d + 1 ∧ b.2.length = e
  hne : short ≠ []

section
variable {d e : Nat} {short long : List (List Nat × List Nat)}

theorem ShortLong.data_len (w : ShortLong d e short long) (b : List Nat × List Nat) (hb : b ∈ short ++ long) :
    d ≤ b.1.length ∧ b.1.length ≤ d + 1 ∧ b.2.length = e := by
  rcases List.mem_append.mp hb with h | h
  · have := w.hs b h; omega
  · have := w.hl b h; omega

/-- the interleaved stream is: `d` full data rows, the row of the extra codewords of the long blocks,
    `e` full error-correction rows -/
theorem interleave_eq (w : ShortLong d e short long) :
    interleave (short ++ long) =
      (List.range d).flatMap (fun i => (short ++ long).filterMap (fun b => b.1[i]?)) ++
      long.filterMap (fun b => b.1[d]?) ++
      (List.range e).flatMap (fun i => (short ++ long).filterMap (fun b => b.2[i]?)) := by
  unfold interleave
  have hD : ∀ B, (∀ b ∈ short ++ long, b.1.length ≤ B) → ∀ i, B ≤ i →
      (short ++ long).filterMap (fun b => b.1[i]?) = [] := by
    intro B hB i hi
    apply filterMap_all_none
    intro b hb
    exact List.getElem?_eq_none (by have := hB b hb; omega)
  have hE : ∀ B, (∀ b ∈ short ++ long, b.2.length ≤ B) → ∀ i, B ≤ i →
      (short ++ long).filterMap (fun b => b.2[i]?) = [] := by
    intro B hB i hi
    apply filterMap_all_none
    intro b hb
    exact List.getElem?_eq_none (by have := hB b hb; omega)
  have m1 : ∀ b ∈ short ++ long, b.1.length ≤ maxLen ((short ++ long).map (·.1)) :=
    fun b hb => le_maxLen _ _ (List.mem_map_of_mem hb)
  have m2 : ∀ b ∈ short ++ long, b.2.length ≤ maxLen ((short ++ long).map (·.2)) :=
    fun b hb => le_maxLen _ _ (List.mem_map_of_mem hb)
  have d1 : ∀ b ∈ short ++ long, b.1.length ≤ d + 1 := fun b hb => (w.data_len b hb).2.1
  have e1 : ∀ b ∈ short ++ long, b.2.length ≤ e := fun b hb => by have := (w.data_len b hb).2.2; omega
  -- data part
  have dataEq : (List.range (maxLen ((short ++ long).map (·.1)))).flatMap (fun i => (short ++ long).filterMap (fun b => b.1[i]?)) =
      (List.range (d + 1)).flatMap (fun i => (short ++ long).filterMap (fun b => b.1[i]?)) := by
    let k := max (maxLen ((short ++ long).map (·.1))) (d + 1)
    rw [← flatMap_range_stable _ _ (hD _ m1) k (Nat.le_max_left _ _),
        ← flatMap_range_stable _ _ (hD _ d1) k (Nat.le_max_right _ _)]
  have ecEq : (List.range (maxLen ((short ++ long).map (·.2)))).flatMap (fun i => (short ++ long).filterMap (fun b => b.2[i]?)) =
      (List.range e).flatMap (fun i => (short ++ long).filterMap (fun b => b.2[i]?)) := by
    let k := max (maxLen ((short ++ long).map (·.2))) e
    rw [← flatMap_range_stable _ _ (hE _ m2) k (Nat.le_max_left _ _),
        ← flatMap_range_stable _ _ (hE _ e1) k (Nat.le_max_right _ _)]
  rw [dataEq, ecEq, List.range_succ, List.flatMap_append]
  have hrow : (short ++ long).filterMap (fun b => b.1[d]?) = long.filterMap (fun b => b.1[d]?) := by
    rw [List.filterMap_append, filterMap_all_none _ short (fun b hb => List.getElem?_eq_none (by have := w.hs b hb; omega))]
    rfl
  simp only [List.flatMap_cons, List.flatMap_nil, List.append_nil, hrow]


theorem rawAt_of (raw : List Nat) (i x : Nat) (h : raw[i]? = some x) : rawAt raw i = .ok x := by
  simp [rawAt, h]

theorem row_facts (w : ShortLong d e short long) :
    (∀ i, i < d → ((short ++ long).filterMap (fun b => b.1[i]?)).length = (short ++ long).length) ∧
    (∀ i, i < d → ∀ j : Nat, ((short ++ long).filterMap (fun b => b.1[i]?))[j]? = (short ++ long)[j]?.bind (fun b => b.1[i]?)) ∧
    ((long.filterMap (fun b => b.1[d]?)).length = long.length) ∧
    (∀ j : Nat, (long.filterMap (fun b => b.1[d]?))[j]? = long[j]?.bind (fun b => b.1[d]?)) ∧
    (∀ i, i < e → ((short ++ long).filterMap (fun b => b.2[i]?)).length = (short ++ long).length) ∧
    (∀ i, i < e → ∀ j : Nat, ((short ++ long).filterMap (fun b => b.2[i]?))[j]? = (short ++ long)[j]?.bind (fun b => b.2[i]?)) := by
  have hD : ∀ i, i < d → ∀ b ∈ short ++ long, (b.1[i]?).isSome := by
    intro i hi b hb
    have := (w.data_len b hb).1
    rw [List.getElem?_eq_getElem (by omega)]; rfl
  have hX : ∀ b ∈ long, (b.1[d]?).isSome := by
    intro b hb
    have := (w.hl b hb).1
    rw [List.getElem?_eq_getElem (by omega)]; rfl
  have hE : ∀ i, i < e → ∀ b ∈ short ++ long, (b.2[i]?).isSome := by
    intro i hi b hb
    have := (w.data_len b hb).2.2
    rw [List.getElem?_eq_getElem (by omega)]; rfl
  refine ⟨fun i hi => (filterMap_all_some _ _ (hD i hi)).1, fun i hi => (filterMap_all_some _ _ (hD i hi)).2,
    (filterMap_all_some _ _ hX).1, (filterMap_all_some _ _ hX).2,
    fun i hi => (filterMap_all_some _ _ (hE i hi)).1, fun i hi => (filterMap_all_some _ _ (hE i hi)).2⟩

/-- `interleave_deinterleave`, block level: the three filling loops of `DataBlock_GetDataBlocks` put
    into block `j` exactly the data and error-correction codewords of the `j`-th block that was
    interleaved -/
theorem blockCodewords_interleave (w : ShortLong d e short long) (j : Nat) (b : List Nat × List Nat)
    (hb : (short ++ long)[j]? = some b) :
    blockCodewords (interleave (short ++ long)) (short ++ long).length short.length d e j = .ok (b.1 ++ b.2) := by
  obtain ⟨rD1, rD2, rX1, rX2, rE1, rE2⟩ := row_facts w
  have hj : j < (short ++ long).length := by
    rcases Nat.lt_or_ge j (short ++ long).length with h | h
    · exact h
    · rw [List.getElem?_eq_none h] at hb; cases hb
  have hbm : b ∈ short ++ long := List.mem_of_getElem? hb
  have ⟨bl1, bl2, bl3⟩ := w.data_len b hbm
  have hn : (short ++ long).length = short.length + long.length := List.length_append
  rw [interleave_eq w]
  generalize hDdef : (List.range d).flatMap (fun i => (short ++ long).filterMap (fun b => b.1[i]?)) = D
  generalize hXdef : long.filterMap (fun b => b.1[d]?) = X at rX1 rX2
  generalize hEdef : (List.range e).flatMap (fun i => (short ++ long).filterMap (fun b => b.2[i]?)) = E
  have lenD : D.length = d * (short ++ long).length := by
    rw [← hDdef]; exact flatMap_range_length _ _ _ rD1
  -- the three kinds of raw accesses
  have accD : ∀ i, i < d → (D ++ X ++ E)[i * (short ++ long).length + j]? = some (b.1.getD i 0) := by
    intro i hi
    have hlt : i * (short ++ long).length + j < D.length := by
      rw [lenD]
      have : (i + 1) * (short ++ long).length ≤ d * (short ++ long).length := Nat.mul_le_mul_right _ hi
      rw [Nat.succ_mul] at this; omega
    rw [List.append_assoc, List.getElem?_append_left hlt, ← hDdef,
      flatMap_range_index _ _ _ rD1 i j hi hj, rD2 i hi j, hb]
    have : i < b.1.length := by omega
    simp [List.getD, List.getElem?_eq_getElem this]
  have accX : short.length ≤ j → (D ++ X ++ E)[d * (short ++ long).length + (j - short.length)]? = some (b.1.getD d 0) := by
    intro hge
    have hbl : long[j - short.length]? = some b := by
      rw [List.getElem?_append_right hge] at hb; exact hb
    have hbl' : b ∈ long := List.mem_of_getElem? hbl
    have hlen := (w.hl b hbl').1
    have hlt : j - short.length < X.length := by rw [rX1]; omega
    have hDX : (D ++ X).length = D.length + X.length := List.length_append
    rw [List.getElem?_append_left (by omega),
      List.getElem?_append_right (by omega), lenD, Nat.add_sub_cancel_left, rX2, hbl]
    have : d < b.1.length := by omega
    simp [List.getD, List.getElem?_eq_getElem this]
  have accE : ∀ k, k < e → (D ++ X ++ E)[d * (short ++ long).length + ((short ++ long).length - short.length) +
      k * (short ++ long).length + j]? = some (b.2.getD k 0) := by
    intro k hk
    have hDX : (D ++ X).length = D.length + X.length := List.length_append
    have hpre : (D ++ X).length = d * (short ++ long).length + ((short ++ long).length - short.length) := by
      omega
    rw [List.getElem?_append_right (by rw [hpre]; omega), hpre]
    have : d * (short ++ long).length + ((short ++ long).length - short.length) + k * (short ++ long).length + j -
        (d * (short ++ long).length + ((short ++ long).length - short.length)) = k * (short ++ long).length + j := by omega
    rw [this, ← hEdef, flatMap_range_index _ _ _ rE1 k j hk hj, rE2 k hk j, hb]
    have : k < b.2.length := by omega
    simp [List.getD, List.getElem?_eq_getElem this]
  unfold blockCodewords
  rw [mapM_ok _ (fun i => b.1.getD i 0) (List.range d)
    (fun i hi => rawAt_of _ _ _ (accD i (List.mem_range.mp hi)))]
  rw [mapM_ok _ (fun k => b.2.getD k 0) (List.range e)
    (fun k hk => rawAt_of _ _ _ (accE k (List.mem_range.mp hk)))]
  rw [map_getD_range b.1 d bl1, map_getD_range b.2 e (by omega)]
  have t2 : b.2.take e = b.2 := List.take_of_length_le (by omega)
  by_cases hge : short.length ≤ j
  · have hbl : long[j - short.length]? = some b := by
      rw [List.getElem?_append_right hge] at hb; exact hb
    have hlen := (w.hl b (List.mem_of_getElem? hbl)).1
    simp only [ge_iff_le, hge, if_true, bind, Except.bind, rawAt_of _ _ _ (accX hge), pure, Except.pure, t2]
    have : b.1.take d ++ [b.1.getD d 0] = b.1 := by
      have hd : d < b.1.length := by omega
      calc b.1.take d ++ [b.1.getD d 0] = b.1.take d ++ (b.1[d]?).toList := by
              simp only [List.getD, List.getElem?_eq_getElem hd, Option.getD_some, Option.toList_some]
        _ = b.1.take (d + 1) := (List.take_succ).symm
        _ = b.1 := List.take_of_length_le (by omega)
    rw [this]
  · have hbs : short[j]? = some b := by
      rw [List.getElem?_append_left (by omega)] at hb; exact hb
    have hlen := (w.hs b (List.mem_of_getElem? hbs)).1
    have t1 : b.1.take d = b.1 := List.take_of_length_le (by omega)
    simp only [ge_iff_le, hge, if_false, bind, Except.bind, pure, Except.pure, t1, t2, List.append_nil]


theorem longerStart_shortLong (w : ShortLong d e short long) :
    longerStart (e + d) ((short ++ long).map (fun b => e + b.1.length)) = short.length := by
  unfold longerStart
  have hS : short.map (fun b => e + b.1.length) = List.replicate short.length (e + d) := by
    apply List.eq_replicate_iff.mpr
    refine ⟨by simp, ?_⟩
    intro x hx
    obtain ⟨b, hb, rfl⟩ := List.mem_map.mp hx
    rw [(w.hs b hb).1]
  have hL : long.map (fun b => e + b.1.length) = List.replicate long.length (e + d + 1) := by
    apply List.eq_replicate_iff.mpr
    refine ⟨by simp, ?_⟩
    intro x hx
    obtain ⟨b, hb, rfl⟩ := List.mem_map.mp hx
    rw [(w.hl b hb).1]; omega
  rw [List.map_append, hS, hL, List.reverse_append, List.reverse_replicate, List.reverse_replicate]
  have hpos : 0 < short.length := List.length_pos_iff.mpr w.hne
  rw [List.takeWhile_append_of_pos (by
    intro a ha
    have := (List.mem_replicate.mp ha).2
    simp [this])]
  obtain ⟨k, hk⟩ : ∃ k, short.length = k + 1 := ⟨short.length - 1, by omega⟩
  rw [hk, List.replicate_succ, List.takeWhile_cons]
  simp
  omega

/-- `interleave_deinterleave` (shared by C01 and C05): for every well-formed block structure —
    `short` blocks of `d` data codewords followed by `long` blocks of `d+1`, `e` error-correction
    codewords each, as the version table describes it for `(v, ec)` — `DataBlock_GetDataBlocks` applied
    to the interleaved codeword sequence of ISO 18004 7.6 returns the blocks in order, each with its
    number of data codewords. -/
theorem interleave_deinterleave (w : ShortLong d e short long) (v : VersionInfo) (ec : EC) (eb : ECBlocks)
    (heb : v.ecBlocks[ec.index]? = some eb) (hec : eb.ecPerBlock = e)
    (hshape : blockShapes eb = (short ++ long).map (fun b => (b.1.length, e + b.1.length)))
    (htot : v.totalCodewords = (interleave (short ++ long)).length) :
    getDataBlocks (interleave (short ++ long)) v ec =
      .ok ((short ++ long).map (fun b => (b.1.length, b.1 ++ b.2))) := by
  unfold getDataBlocks
  simp only [htot, ne_eq, not_true_eq_false, if_false, heb, hshape]
  obtain ⟨s0, srest, hs0⟩ : ∃ s0 srest, short = s0 :: srest := by
    cases hsh : short with
    | nil => exact absurd hsh w.hne
    | cons a as => exact ⟨a, as, rfl⟩
  have hs0len : s0.1.length = d := (w.hs s0 (by rw [hs0]; simp)).1
  have hmapcons : (short ++ long).map (fun b => (b.1.length, e + b.1.length)) =
      (s0.1.length, e + s0.1.length) :: (srest ++ long).map (fun b => (b.1.length, e + b.1.length)) := by
    rw [hs0]; rfl
  rw [hmapcons]
  simp only
  rw [← hmapcons, hs0len]
  have hL : longerStart (e + d) (((short ++ long).map (fun b => (b.1.length, e + b.1.length))).map (·.2)) = short.length := by
    rw [List.map_map]
    exact longerStart_shortLong w
  rw [hL, hec]
  have h1 : e + d - e = d := by omega
  have h2 : e + d - d = e := by omega
  simp only [List.length_map, h1, h2]
  rw [mapM_ok _ (fun sj => (sj.1.1, ((short ++ long).getD sj.2 ([], [])).1 ++ ((short ++ long).getD sj.2 ([], [])).2))]
  · congr 1
    apply List.ext_getElem?
    intro j
    rw [List.getElem?_map, List.getElem?_zipIdx, List.getElem?_map, List.getElem?_map]
    cases hbj : (short ++ long)[j]? with
    | none => rfl
    | some b => simp [List.getD, hbj]
  · intro sj hsj
    obtain ⟨j, hj⟩ := List.getElem?_of_mem hsj
    rw [List.getElem?_zipIdx, List.getElem?_map] at hj
    cases hbj : (short ++ long)[j]? with
    | none => rw [hbj] at hj; cases hj
    | some b =>
      rw [hbj] at hj
      simp only [Option.map_some, Nat.zero_add, Option.some.injEq] at hj
      subst hj
      simp only [blockCodewords_interleave w j b hbj, bind, Except.bind, pure, Except.pure, List.getD, hbj, Option.getD_some]

end

/-- per-block correction after de-interleaving: if RS decoding maps every received block to the block
    that was written, the corrected data stream is the concatenation of the written data parts -/
theorem correctBlocks_map (rs : List Nat → Nat → Res (List Nat)) (orig dmg : List (List Nat × List Nat))
    (hlen : orig.length = dmg.length)
    (h : ∀ p ∈ orig.zip dmg, p.2.1.length = p.1.1.length ∧
        rs (p.2.1 ++ p.2.2) ((p.2.1 ++ p.2.2).length - p.2.1.length) = .ok (p.1.1 ++ p.1.2)) :
    correctBlocks rs (dmg.map (fun b' => (b'.1.length, b'.1 ++ b'.2))) = .ok (orig.flatMap (·.1)) := by
  induction orig generalizing dmg with
  | nil =>
    cases dmg with
    | nil => rfl
    | cons _ _ => simp at hlen
  | cons b bs ih =>
    cases dmg with
    | nil => simp at hlen
    | cons b' bs' =>
      have hb := h (b, b') (by simp)
      simp only at hb
      have ih' := ih bs' (by simpa using hlen) (fun p hp => h p (by simp [hp]))
      have e := hb.2
      simp only [List.map_cons, correctBlocks, e, bind, Except.bind, ih', List.flatMap_cons]
      simp [hb.1]

end Gzx.QRDec
