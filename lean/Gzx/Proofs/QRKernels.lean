/-
  Bridging lemmas for translated integer kernels (`Gzx.Gen.*`, Go `int` arithmetic on `Int`) applied
  to natural-number arguments: everything is pushed back to `Nat`, where `omega` decides the
  residue arithmetic.  Used by Obligations/C07.lean (mask predicates, block sizes).
-/
import Gzx.GoVal
namespace Gzx.QRKernels
open Gzx

theorem iand_natCast_one (n : Nat) : GoVal.iand (n : Int) 1 = ((n % 2 : Nat) : Int) := by
  unfold GoVal.iand
  have h1 : (n : Int) ≥ 0 := Int.natCast_nonneg n
  simp only [h1, if_true]
  have h2 : ((1 : Int) ≥ 0) := by decide
  simp only [h2, if_true]
  show Int.ofNat ((n : Int).toNat &&& (1 : Int).toNat) = _
  simp [Nat.and_one_is_mod]

theorem tmod_natCast (a b : Nat) : Int.tmod (a : Int) (b : Int) = ((a % b : Nat) : Int) := (Int.ofNat_tmod a b).symm
theorem tmod_natCast_2 (a : Nat) : Int.tmod (a : Int) 2 = ((a % 2 : Nat) : Int) := tmod_natCast a 2
theorem tmod_natCast_3 (a : Nat) : Int.tmod (a : Int) 3 = ((a % 3 : Nat) : Int) := tmod_natCast a 3
theorem tmod_natCast_6 (a : Nat) : Int.tmod (a : Int) 6 = ((a % 6 : Nat) : Int) := tmod_natCast a 6
theorem tdiv_natCast (a b : Nat) : Int.tdiv (a : Int) (b : Int) = ((a / b : Nat) : Int) := rfl
theorem tdiv_natCast_2 (a : Nat) : Int.tdiv (a : Int) 2 = ((a / 2 : Nat) : Int) := tdiv_natCast a 2
theorem tdiv_natCast_3 (a : Nat) : Int.tdiv (a : Int) 3 = ((a / 3 : Nat) : Int) := tdiv_natCast a 3

theorem natCast_beq_zero (a : Nat) : ((a : Int) == 0) = (a == 0) := by
  cases a <;> rfl

theorem natCast_lt_3 (a : Nat) : decide ((a : Int) < 3) = decide (a < 3) := by
  simp only [decide_eq_decide]; omega

end Gzx.QRKernels
