/-
  The array-assembled matrix `refMatrix` (what the driver prints and the oracle compares with the
  library) is the functional specification `specMatrix` / `moduleAt` (what the theorems are about).
-/
import Gzx.Proofs.QRPlacement
namespace Gzx.QRRef

theorem foldl_set_getD {β : Type} (idx : β → Nat) (val : β → Bool) :
    ∀ (ps : List β) (base : Array Bool) (j : Nat), j < base.size → (ps.map idx).Nodup →
      (ps.foldl (fun a p => a.setIfInBounds (idx p) (val p)) base).getD j false =
        ((ps.find? (fun p => idx p == j)).map val).getD (base.getD j false) := by
  intro ps
  induction ps with
  | nil => intro base j _ _; rfl
  | cons p ps ih =>
    intro base j hj hnd
    rw [List.map_cons, List.nodup_cons] at hnd
    rw [List.foldl_cons, ih _ j (by rw [Array.size_setIfInBounds]; exact hj) hnd.2, List.find?_cons]
    by_cases hp : idx p = j
    · have hnone : ps.find? (fun q => idx q == j) = none := by
        rw [List.find?_eq_none]
        intro q hq hqj
        have : idx q = idx p := by rw [hp]; simpa using hqj
        exact hnd.1 (this ▸ List.mem_map_of_mem hq)
      have hb : (idx p == j) = true := by simpa using hp
      rw [hnone, hb]
      simp only [Option.map_none, Option.getD_none, Option.map_some, Option.getD_some]
      rw [Array.getD_eq_getD_getElem?, Array.getElem?_setIfInBounds]
      simp [hp, hj]
    · have hb : (idx p == j) = false := by simpa using hp
      rw [hb]
      simp only
      rw [Array.getD_eq_getD_getElem?, Array.getElem?_setIfInBounds, if_neg hp, ← Array.getD_eq_getD_getElem?]

theorem idx_inj {n x y x' y' : Nat} (hx : x < n) (hx' : x' < n) (h : y * n + x = y' * n + x') :
    x = x' ∧ y = y' := by
  have e1 : (y * n + x) % n = x := by rw [Nat.mul_comm, Nat.mul_add_mod, Nat.mod_eq_of_lt hx]
  have e2 : (y' * n + x') % n = x' := by rw [Nat.mul_comm, Nat.mul_add_mod, Nat.mod_eq_of_lt hx']
  have hxx : x = x' := by rw [← e1, ← e2, h]
  subst hxx
  have : y * n = y' * n := by omega
  exact ⟨rfl, Nat.eq_of_mul_eq_mul_right (by omega) this⟩

theorem find_idx_eq_lookup (n x y : Nat) (hx : x < n) :
    ∀ (ps : List ((Nat × Nat) × Bool)), (∀ p ∈ ps, p.1.1 < n) →
      (ps.find? (fun p => p.1.2 * n + p.1.1 == y * n + x)).map (·.2) = ps.lookup (x, y) := by
  intro ps
  induction ps with
  | nil => intro _; rfl
  | cons p ps ih =>
    intro hall
    obtain ⟨⟨px, py⟩, b⟩ := p
    have hpx : px < n := hall _ List.mem_cons_self
    rw [List.find?_cons, List.lookup_cons]
    by_cases hk : (x, y) = (px, py)
    · have h1 : ((x, y) == (px, py)) = true := by simpa using hk
      simp only [Prod.mk.injEq] at hk
      have h2 : (py * n + px == y * n + x) = true := by simp [hk.1, hk.2]
      rw [h1, h2]; rfl
    · have h1 : ((x, y) == (px, py)) = false := by simpa using hk
      have h2 : (py * n + px == y * n + x) = false := by
        apply beq_false_of_ne
        intro h
        have := idx_inj hpx hx h
        exact hk (by rw [this.1, this.2])
      rw [h1, h2]
      exact ih (fun q hq => hall q (List.mem_cons_of_mem _ hq))

theorem lookup_none_of_not_mem {α β : Type} [BEq α] [LawfulBEq α] (k : α) :
    ∀ (ps : List (α × β)), k ∉ ps.map (·.1) → ps.lookup k = none := by
  intro ps
  induction ps with
  | nil => intro _; rfl
  | cons p ps ih =>
    intro h
    obtain ⟨a, b⟩ := p
    rw [List.map_cons, List.mem_cons, not_or] at h
    rw [List.lookup_cons]
    have : (k == a) = false := by simpa using h.1
    rw [this]
    exact ih h.2

theorem map_fst_zipWith {α β γ : Type} (g : α → β → γ) :
    ∀ (cs : List α) (bs : List β), cs.length ≤ bs.length →
      (List.zipWith (fun c b => (c, g c b)) cs bs).map (·.1) = cs := by
  intro cs
  induction cs with
  | nil => intro bs _; simp
  | cons c cs ih =>
    intro bs h
    cases bs with
    | nil => simp at h
    | cons b bs =>
      simp only [List.zipWith_cons_cons, List.map_cons]
      rw [ih bs (by simpa using h)]

theorem placedData_keys (v mask : Nat) (cw : List Nat) :
    (placedData v mask cw).map (·.1) = zigzag v := by
  rw [placedData_eq]
  apply map_fst_zipWith
  unfold streamBits
  rw [List.length_append, List.length_replicate]
  omega

/-- the driver's matrix is the specification matrix -/
theorem refMatrix_eq_spec (v : Nat) (ec : EC) (mask : Nat) (cw : List Nat) :
    refMatrix v ec mask cw = specMatrix v ec mask cw := by
  unfold refMatrix specMatrix
  simp only
  apply List.map_congr_left
  intro y hy
  apply List.map_congr_left
  intro x hx
  rw [List.mem_range] at hx hy
  generalize hn : dimension v = n at hx hy ⊢
  have hj : y * n + x < n * n := by
    have : (y + 1) * n ≤ n * n := Nat.mul_le_mul_right n hy
    rw [Nat.add_mul] at this
    omega
  have hkeys := placedData_keys v mask cw
  have hall : ∀ p ∈ placedData v mask cw, p.1.1 < n := by
    intro p hp
    have : p.1 ∈ zigzag v := by rw [← hkeys]; exact List.mem_map_of_mem hp
    have := (mem_zigzag v p.1.1 p.1.2).mp this
    rw [hn] at this
    exact this.1
  have hnd : ((placedData v mask cw).map (fun p => p.1.2 * n + p.1.1)).Nodup := by
    have hk : ((placedData v mask cw).map (·.1)).Nodup := by rw [hkeys]; exact nodup_zigzag v
    rw [List.nodup_iff_pairwise_ne, List.pairwise_map] at hk ⊢
    rw [List.pairwise_iff_forall_sublist] at hk ⊢
    intro a b hab heq
    have ha : a ∈ placedData v mask cw := hab.subset (by simp)
    have hb : b ∈ placedData v mask cw := hab.subset (by simp)
    have := idx_inj (hall a ha) (hall b hb) heq
    exact hk hab (Prod.ext this.1 this.2)
  rw [foldl_set_getD (fun (p : (Nat × Nat) × Bool) => p.1.2 * n + p.1.1) (fun p => p.2) _ _ _
    (by rw [Array.size_ofFn]; exact hj) hnd]
  rw [find_idx_eq_lookup n x y hx _ hall]
  unfold moduleAt
  by_cases hf : isFunction v x y = true
  · rw [hf]
    simp only [if_true]
    have hnot : (x, y) ∉ (placedData v mask cw).map (·.1) := by
      rw [hkeys, mem_zigzag]
      intro h
      rw [hf] at h
      exact absurd h.2.2 (by simp)
    rw [lookup_none_of_not_mem _ _ hnot]
    simp only [Option.getD_none]
    rw [Array.getD_eq_getD_getElem?, Array.getElem?_ofFn]
    simp only [hj, dite_true, Option.getD_some]
    have e1 : (y * n + x) % n = x := by rw [Nat.mul_comm, Nat.mul_add_mod, Nat.mod_eq_of_lt hx]
    have e2 : (y * n + x) / n = y := by
      rw [Nat.mul_comm, Nat.mul_add_div (by omega), Nat.div_eq_of_lt hx, Nat.add_zero]
    rw [e1, e2]
    unfold functionModule
    rw [hn]
  · have hf' : isFunction v x y = false := by simpa using hf
    rw [hf']
    simp only [Bool.false_eq_true, if_false]
    have hmem : (x, y) ∈ zigzag v := (mem_zigzag v x y).mpr ⟨hn ▸ hx, hn ▸ hy, hf'⟩
    cases hl : (placedData v mask cw).lookup (x, y) with
    | some b => rfl
    | none =>
      exfalso
      rw [← hkeys] at hmem
      obtain ⟨p, hp, hpk⟩ := List.mem_map.mp hmem
      have hcontra : ∀ (ps : List ((Nat × Nat) × Bool)), p ∈ ps → ps.lookup p.1 ≠ none := by
        intro ps
        induction ps with
        | nil => intro h; simp at h
        | cons q qs ih =>
          intro h
          obtain ⟨qa, qb⟩ := q
          rw [List.lookup_cons]
          by_cases hq : p.1 = qa
          · have : (p.1 == qa) = true := by simpa using hq
            rw [this]; simp
          · have : (p.1 == qa) = false := by simpa using hq
            rw [this]
            rcases List.mem_cons.mp h with rfl | h'
            · exact absurd rfl hq
            · exact ih h'
      exact hcontra _ hp (hpk ▸ hl)

end Gzx.QRRef
