/-
  Reading the format and version information back from a matrix (`BitMatrixParser.copyBit`,
  `ReadFormatInformation`, `ReadVersion`): what the parser sees is the big-endian number held by
  the cells it visits.
-/
import Gzx.Proofs.QRBitsLemmas
namespace Gzx.QRDec
open Gzx

/-- `BitMatrix.Get` as a total function -/
def Matrix.getB (m : Matrix) (x y : Nat) : Bool := if x < m.dim ∧ y < m.dim then m.bit x y else false

theorem Matrix.get_eq (m : Matrix) (x y : Nat) : m.get x y = .ok (m.getB x y) := by
  unfold Matrix.get Matrix.getB
  split <;> rfl

/-- the module `copyBit(i, j)` looks at -/
def cellOf (m : Matrix) (mirror : Bool) (c : Nat × Nat) : Bool :=
  if mirror then m.getB c.2 c.1 else m.getB c.1 c.2

theorem copyBit_eq (m : Matrix) (mirror : Bool) (acc : Nat) (c : Nat × Nat) :
    copyBit m mirror acc c = .ok (2 * acc + (cellOf m mirror c).toNat) := by
  unfold copyBit cellOf
  cases mirror <;> simp [Matrix.get_eq, bind, Except.bind]

theorem copyBits_eq (m : Matrix) (mirror : Bool) (cells : List (Nat × Nat)) (acc : Nat) :
    copyBits m mirror cells acc =
      .ok ((cells.map (cellOf m mirror)).foldl (fun a b => 2 * a + b.toNat) acc) := by
  induction cells generalizing acc with
  | nil => rfl
  | cons c cs ih =>
    simp only [copyBits, copyBit_eq, bind, Except.bind, List.map_cons, List.foldl_cons]
    exact ih _

/-- the parser reads the number whose bits (most significant first) the visited cells hold -/
theorem copyBits_read (m : Matrix) (mirror : Bool) (cells : List (Nat × Nat)) :
    copyBits m mirror cells 0 = .ok (natOfBits (cells.map (cellOf m mirror))) := by
  rw [copyBits_eq]; rfl

/-- `ReadFormatInformation` on a parser without cached format: both copies are read and handed to
    `FormatInformation_DecodeFormatInformation` -/
theorem readFormat_reads (T : Tables) (p : Parser) (hc : p.fmt = none) (m1 m2 : Nat)
    (hm1 : m1 < 2 ^ 15) (hm2 : m2 < 2 ^ 15)
    (h1 : formatCoords1.map (cellOf p.m p.mirror) = natToBits 15 m1)
    (h2 : (formatCoords2 p.m.dim).map (cellOf p.m p.mirror) = natToBits 15 m2) :
    readFormatInformation T p =
      (match decodeFormat T.fmt T.fmtMask m1 m2 with
       | .ok (some f) => .ok (f, { p with fmt := some f })
       | .ok none => .error .format
       | .error e => .error e) := by
  unfold readFormatInformation
  simp only [hc, copyBits_read, h1, h2, natOfBits_natToBits 15 m1 hm1, natOfBits_natToBits 15 m2 hm2,
    bind, Except.bind]
  cases hdec : decodeFormat T.fmt T.fmtMask m1 m2 with
  | error e => rfl
  | ok o => cases o <;> rfl

/-- `ReadVersion` for a symbol of version ≥ 7 whose first copy holds `b1` -/
theorem readVersion_reads_first (T : Tables) (p : Parser) (hc : p.ver = none) (hbig : ¬ (p.m.dim - 17) / 4 ≤ 6)
    (b1 : Nat) (hb : b1 < 2 ^ 18)
    (h1 : (versionCoords1 p.m.dim).map (cellOf p.m p.mirror) = natToBits 18 b1)
    (v : VersionInfo) (hv : versionCopyOK T p.m.dim b1 = some v) :
    readVersion T p = .ok (v, { p with ver := some v }) := by
  unfold readVersion
  simp only [hc, hbig, if_false, copyBits_read, h1, natOfBits_natToBits 18 b1 hb, bind, Except.bind, hv]

/-- `ReadVersion` for versions 1..6: decided by the dimension alone -/
theorem readVersion_small (T : Tables) (p : Parser) (hc : p.ver = none) (hsmall : (p.m.dim - 17) / 4 ≤ 6)
    (v : VersionInfo) (hv : getVersionForNumber T.versions ((p.m.dim - 17) / 4) = .ok v) :
    readVersion T p = .ok (v, p) := by
  unfold readVersion
  simp only [hc, hsmall, if_true, hv, bind, Except.bind]

end Gzx.QRDec
