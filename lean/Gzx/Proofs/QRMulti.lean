/-
  C01 (work package c01multi) — the bit-stream parser on MULTI-SEGMENT streams.
  `QRMulti.bitsOf v items` is the reference stream (Ref/QRMulti.lean, from ISO/IEC 18004 and GB/T 18284);
  `run` is the meaning of an item list (decoder-independent fold over the parser's visible state: segments so far,
  byte segments, structured-append fields, the ECI in effect, FNC1 in effect).  Induction over the item list with the
  per-segment parse∘pack lemmas (Proofs/QRSegments.lean, Properties/C01.lean, C15.parseLoop_eci); the invariant is the
  parser state between two segments.
-/
import Gzx.Ref.QRMultiSem
import Gzx.Properties.C01
namespace Gzx.QRMulti
open Gzx Gzx.QRDec Gzx.QRPack Gzx.ECI

/-! ### Hanzi: GB 2312 pairs come back -/

/-- a GB 2312 double-byte character that Hanzi mode can carry (rows 0xA1..0xAA and 0xB0..0xFA, cells 0xA1..0xFE) -/
def hanziPairOK (p : Nat × Nat) : Prop :=
  ((0xA1 ≤ p.1 ∧ p.1 ≤ 0xAA) ∨ (0xB0 ≤ p.1 ∧ p.1 ≤ 0xFA)) ∧ 0xA1 ≤ p.2 ∧ p.2 ≤ 0xFE

instance (p : Nat × Nat) : Decidable (hanziPairOK p) := by unfold hanziPairOK; infer_instance

theorem hanziValue_lt (p : Nat × Nat) (h : hanziPairOK p) : hanziValue p.1 p.2 < 2 ^ 13 := by
  obtain ⟨h1, h2, h3⟩ := h
  unfold hanziValue
  dsimp only
  split <;> omega

theorem hanziBytes_value (p : Nat × Nat) (h : hanziPairOK p) : hanziBytes (hanziValue p.1 p.2) = [p.1, p.2] := by
  obtain ⟨h1, h2, h3⟩ := h
  unfold hanziBytes hanziValue
  dsimp only
  rcases h1 with ⟨a, b⟩ | ⟨a, b⟩
  · have hb : p.1 ≤ 0xAA := b
    simp only [hb, if_true]
    have e1 : ((p.1 - 0xA1) * 0x60 + (p.2 - 0xA1)) / 0x60 = p.1 - 0xA1 := by omega
    have e2 : ((p.1 - 0xA1) * 0x60 + (p.2 - 0xA1)) % 0x60 = p.2 - 0xA1 := by omega
    rw [e1, e2]
    have hlt : (p.1 - 0xA1) * 256 + (p.2 - 0xA1) < 0xA00 := by omega
    simp only [hlt, if_true]
    have : (p.1 - 0xA1) * 256 + (p.2 - 0xA1) + 0xA1A1 = p.1 * 256 + p.2 := by omega
    rw [this]
    simp; omega
  · have hb : ¬ p.1 ≤ 0xAA := by omega
    simp only [hb, if_false]
    have e1 : ((p.1 - 0xA6) * 0x60 + (p.2 - 0xA1)) / 0x60 = p.1 - 0xA6 := by omega
    have e2 : ((p.1 - 0xA6) * 0x60 + (p.2 - 0xA1)) % 0x60 = p.2 - 0xA1 := by omega
    rw [e1, e2]
    have hlt : ¬ (p.1 - 0xA6) * 256 + (p.2 - 0xA1) < 0xA00 := by omega
    simp only [hlt, if_false]
    have : (p.1 - 0xA6) * 256 + (p.2 - 0xA1) + 0xA6A1 = p.1 * 256 + p.2 := by omega
    rw [this]
    simp; omega

theorem flatMap_hanziBytes (ps : List (Nat × Nat)) (h : ∀ p ∈ ps, hanziPairOK p) :
    ps.flatMap (fun a => hanziBytes (hanziValue a.1 a.2)) = ps.flatMap (fun p => [p.1, p.2]) := by
  induction ps with
  | nil => rfl
  | cons p ps ih =>
    simp only [List.flatMap_cons]
    rw [hanziBytes_value p (h p (by simp)), ih (fun q hq => h q (List.mem_cons_of_mem _ hq))]

theorem packHanzi_eq (ps : List (Nat × Nat)) :
    packHanzi ps = (ps.map (fun p => hanziValue p.1 p.2)).flatMap (natToBits 13) := by
  induction ps with
  | nil => rfl
  | cons p ps ih => obtain ⟨l, t⟩ := p; simp [packHanzi, ih]

theorem packHanzi_length : ∀ ps : List (Nat × Nat), (packHanzi ps).length = 13 * ps.length
  | [] => rfl
  | (l, t) :: ps => by
    unfold packHanzi
    rw [List.length_append, natToBits_length, packHanzi_length ps, List.length_cons]; omega

theorem decode13_packHanzi (ps : List (Nat × Nat)) (h : ∀ p ∈ ps, hanziPairOK p) (rest : List Bool) :
    decode13 hanziBytes ps.length (packHanzi ps ++ rest) = .ok (ps.flatMap (fun p => [p.1, p.2]), rest) := by
  unfold decode13
  rw [packHanzi_eq]
  have hlen : ¬ ps.length * 13 > ((ps.map (fun p => hanziValue p.1 p.2)).flatMap (natToBits 13) ++ rest).length := by
    simp only [List.length_append, flatMap_natToBits_length, List.length_map]; omega
  simp only [hlen, if_false]
  have := readGroups_pack 13 (by omega) (by omega) (ps.map (fun p => hanziValue p.1 p.2))
    (by intro v hv; obtain ⟨p, hp, rfl⟩ := List.mem_map.mp hv; exact hanziValue_lt p (h p hp)) rest []
  simp only [List.length_map, List.nil_append] at this
  rw [this]
  simp only [bind, Except.bind, List.flatMap_map]
  rw [flatMap_hanziBytes ps h]

theorem countBits_hanzi (ver : Nat) : countBits .hanzi ver = .ok (countWidth 3 ver) := by
  by_cases h9 : ver ≤ 9 <;> by_cases h26 : ver ≤ 26 <;> simp [countBits, countWidth, Mode.countTable, h9, h26]

/-- `hanzi_segment_inv`: one round of the parser on a Hanzi segment packed as in GB/T 18284 (mode 1101, subset 0001,
    count, 13 bits per character) appends exactly the GB 2312 byte pairs, labelled with the GB 2312 decoder of the
    library (registry name GB18030), and leaves the rest of the stream — for every version and count -/
theorem hanzi_segment_inv (reg : Registry) (ver : Nat) (hint : Hint) (fuel : Nat) (st : PSt)
    (ps : List (Nat × Nat)) (hp : ∀ p ∈ ps, hanziPairOK p) (hlen : ps.length < 2 ^ countWidth 3 ver)
    (rest : List Bool) :
    parseLoop reg ver hint (fuel + 1) st (Item.bits ver (.hanzi ps) ++ rest) =
      parseLoop reg ver hint fuel
        { st with segs := st.segs ++ [.text (.named "GB18030") (ps.flatMap (fun p => [p.1, p.2]))] } rest := by
  conv => lhs; unfold parseLoop
  have ⟨c1, c32⟩ := countWidth_range 3 ver
  simp only [Item.bits, List.append_assoc]
  have hl : ¬ (natToBits 4 0xD ++ (natToBits 4 1 ++ (natToBits (countWidth 3 ver) ps.length ++
      (packHanzi ps ++ rest)))).length < 4 := by
    simp only [List.length_append, natToBits_length]; omega
  simp only [hl, if_false]
  rw [readBitsF_natToBits_lt 4 0xD _ (by omega) (by omega) (by decide)]
  simp only [bind, Except.bind, modeForBits, wrapF]
  rw [readBitsF_natToBits_lt 4 1 _ (by omega) (by omega) (by decide)]
  simp only [countBits_hanzi]
  rw [readBitsF_natToBits_lt _ _ _ c1 c32 hlen]
  simp only [decode13_packHanzi ps hp rest, if_true]

/-! ### FNC1, structured append -/

theorem parseLoop_fnc1First (reg : Registry) (ver : Nat) (hint : Hint) (fuel : Nat) (st : PSt) (rest : List Bool) :
    parseLoop reg ver hint (fuel + 1) st (natToBits 4 5 ++ rest) =
      parseLoop reg ver hint fuel { st with fnc1First := true, fnc1 := true } rest := by
  conv => lhs; unfold parseLoop
  have hl : ¬ (natToBits 4 5 ++ rest).length < 4 := by
    simp only [List.length_append, natToBits_length]; omega
  simp only [hl, if_false]
  rw [readBitsF_natToBits_lt 4 5 _ (by omega) (by omega) (by decide)]
  simp only [bind, Except.bind, modeForBits, wrapF]

theorem parseLoop_fnc1Second (reg : Registry) (ver : Nat) (hint : Hint) (fuel : Nat) (st : PSt) (rest : List Bool) :
    parseLoop reg ver hint (fuel + 1) st (natToBits 4 9 ++ rest) =
      parseLoop reg ver hint fuel { st with fnc1Second := true, fnc1 := true } rest := by
  conv => lhs; unfold parseLoop
  have hl : ¬ (natToBits 4 9 ++ rest).length < 4 := by
    simp only [List.length_append, natToBits_length]; omega
  simp only [hl, if_false]
  rw [readBitsF_natToBits_lt 4 9 _ (by omega) (by omega) (by decide)]
  simp only [bind, Except.bind, modeForBits, wrapF]

theorem parseLoop_sa (reg : Registry) (ver : Nat) (hint : Hint) (fuel : Nat) (st : PSt) (seq par : Nat)
    (hs : seq < 256) (hp : par < 256) (rest : List Bool) :
    parseLoop reg ver hint (fuel + 1) st (natToBits 4 3 ++ (natToBits 8 seq ++ (natToBits 8 par ++ rest))) =
      parseLoop reg ver hint fuel { st with saSeq := seq, saPar := par } rest := by
  conv => lhs; unfold parseLoop
  have hl : ¬ (natToBits 4 3 ++ (natToBits 8 seq ++ (natToBits 8 par ++ rest))).length < 4 := by
    simp only [List.length_append, natToBits_length]; omega
  simp only [hl, if_false]
  rw [readBitsF_natToBits_lt 4 3 _ (by omega) (by omega) (by decide)]
  simp only [bind, Except.bind, modeForBits, wrapF]
  rw [readBitsF_natToBits_lt 8 seq _ (by omega) (by omega) (by omega)]
  simp only []
  rw [readBitsF_natToBits_lt 8 par _ (by omega) (by omega) (by omega)]

/-- alphanumeric segment, whatever the FNC1 state: `%%` → `%`, single `%` → GS when FNC1 is in effect -/
theorem parseLoop_alnum (reg : Registry) (ver : Nat) (hint : Hint) (fuel : Nat) (st : PSt)
    (cs : List Nat) (hc : ∀ c ∈ cs, c < 45) (hlen : cs.length < 2 ^ countWidth 1 ver) (rest : List Bool) :
    parseLoop reg ver hint (fuel + 1) st (segment 2 (countWidth 1 ver) cs.length (packAlnum cs) ++ rest) =
      parseLoop reg ver hint fuel
        { st with segs := st.segs ++
            [.raw (if st.fnc1 then fnc1Massage (cs.map alnumCharOf) else cs.map alnumCharOf)] } rest := by
  conv => lhs; unfold parseLoop
  have ⟨c1, c32⟩ := countWidth_range 1 ver
  simp only [segment, List.append_assoc]
  have hl : ¬ (natToBits 4 2 ++ (natToBits (countWidth 1 ver) cs.length ++ (packAlnum cs ++ rest))).length < 4 := by
    simp only [List.length_append, natToBits_length]; omega
  simp only [hl, if_false]
  rw [readBitsF_natToBits_lt 4 2 _ (by omega) (by omega) (by decide)]
  simp only [bind, Except.bind, modeForBits, wrapF, countBits_alnum]
  rw [readBitsF_natToBits_lt _ _ _ c1 c32 hlen]
  simp only [decodeAlnum, bind, Except.bind, decodeAlnumRaw_pack cs hc rest [], List.nil_append]

/-! ### ECI designator -/

theorem eciBits_eq (val : Nat) :
    eciBits val = encodeECIValue (if val < 128 then 1 else if val < 16384 then 2 else 3) val := by
  unfold eciBits encodeECIValue
  by_cases h1 : val < 128
  · simp [h1]
  · by_cases h2 : val < 16384
    · simp [h1, h2]
    · simp [h1, h2]

theorem eciBits_length_pos (val : Nat) : 8 ≤ (eciBits val).length := by
  unfold eciBits
  split
  · simp
  · split <;> simp

/-! ### meaning of an item list -/

/-- the contents of an item are encodable in its mode (no bound on the count) -/
def Item.Content (reg : Registry) : Item → Prop
  | .numeric ds => ∀ d ∈ ds, d < 10
  | .alnum cs => ∀ c ∈ cs, c < 45
  | .byte bs => ∀ b ∈ bs, b < 256
  | .kanji ps => ∀ p ∈ ps, kanjiPairOK p
  | .hanzi ps => ∀ p ∈ ps, hanziPairOK p
  | .eci val => val < 900 ∧ (lookupValue reg val).isSome
  | .sa q p => q < 256 ∧ p < 256
  | .fnc1First => True
  | .fnc1Second => True

/-- the number of characters fits the character count indicator of version `v` -/
def Item.CountOK (v : Nat) : Item → Prop
  | .numeric ds => ds.length < 2 ^ countWidth 0 v
  | .alnum cs => cs.length < 2 ^ countWidth 1 v
  | .byte bs => bs.length < 2 ^ countWidth 2 v
  | .kanji ps => ps.length < 2 ^ countWidth 3 v
  | .hanzi ps => ps.length < 2 ^ countWidth 3 v
  | _ => True

/-- the byte segments whose charset is guessed (no ECI in effect when they are reached) -/
def guessed : Bool → List Item → List (List Nat)
  | _, [] => []
  | _, .eci _ :: r => guessed true r
  | b, .byte bs :: r => (if b then [] else [bs]) ++ guessed b r
  | b, _ :: r => guessed b r

/-- one round of the segment loop on one item -/
theorem parseLoop_item (reg : Registry) (ver : Nat) (hint : Hint) (g : List Nat → Charset) (fuel : Nat) (st : PSt)
    (it : Item) (hc : it.Content reg) (hn : it.CountOK ver)
    (hg : ∀ bs, it = .byte bs → st.eci = none → guessCharset reg bs hint = .ok (g bs)) (rest : List Bool) :
    parseLoop reg ver hint (fuel + 1) st (it.bits ver ++ rest) = parseLoop reg ver hint fuel (step reg g st it) rest := by
  cases it with
  | numeric ds => exact Gzx.Properties.C01.bits_numeric_inv reg ver hint fuel st ds hc hn rest
  | alnum cs => exact parseLoop_alnum reg ver hint fuel st cs hc hn rest
  | byte bs =>
    cases he : st.eci with
    | some e =>
      have := Gzx.Properties.C01.bits_byte_inv_eci reg ver hint fuel st e he bs hc hn rest
      simpa [step, charsetOf, he, Item.bits] using this
    | none =>
      have := Gzx.Properties.C01.bits_byte_inv_guess reg ver hint fuel st he bs hc hn (g bs) (hg bs rfl he) rest
      simpa [step, charsetOf, he, Item.bits] using this
  | kanji ps => exact Gzx.Properties.C01.bits_kanji_inv reg ver hint fuel st ps hc hn rest
  | hanzi ps => exact hanzi_segment_inv reg ver hint fuel st ps hc hn rest
  | eci val =>
    obtain ⟨h9, hl⟩ := hc
    obtain ⟨e, he⟩ := Option.isSome_iff_exists.mp hl
    simp only [Item.bits, List.append_assoc, eciBits_eq]
    rw [Gzx.Properties.C15.parseLoop_eci reg ver hint fuel st _ val rest (by
      by_cases h1 : val < 128
      · simp [h1]
      · by_cases h2 : val < 16384
        · simp [h1, h2]
        · simp [h1, h2]; omega), he]
    simp only [h9, if_true, step, he]
  | fnc1First => exact parseLoop_fnc1First reg ver hint fuel st rest
  | fnc1Second => exact parseLoop_fnc1Second reg ver hint fuel st rest
  | sa q p =>
    simp only [Item.bits, List.append_assoc]
    exact parseLoop_sa reg ver hint fuel st q p hc.1 hc.2 rest

theorem step_eci_isSome (reg : Registry) (g : List Nat → Charset) (st : PSt) (it : Item) (hc : it.Content reg) :
    guessed (step reg g st it).eci.isSome = guessed (match it with | .eci _ => true | _ => st.eci.isSome) := by
  cases it <;> simp only [step]
  · rw [hc.2]

/-- **the segment loop over a whole item list** (induction; the parser state between segments is the invariant) -/
theorem parseLoop_items (reg : Registry) (ver : Nat) (hint : Hint) (g : List Nat → Charset) :
    ∀ (items : List Item) (fuel : Nat) (st : PSt) (rest : List Bool),
      (∀ it ∈ items, it.Content reg ∧ it.CountOK ver) →
      (∀ bs ∈ guessed st.eci.isSome items, guessCharset reg bs hint = .ok (g bs)) →
      parseLoop reg ver hint (fuel + items.length) st (bitsOf ver items ++ rest) =
        parseLoop reg ver hint fuel (run reg g st items) rest
  | [], fuel, st, rest, _, _ => rfl
  | it :: items, fuel, st, rest, hok, hg => by
    have ⟨hc, hn⟩ := hok it List.mem_cons_self
    rw [List.length_cons, ← Nat.add_assoc, bitsOf, List.append_assoc,
      parseLoop_item reg ver hint g (fuel + items.length) st it hc hn ?_ (bitsOf ver items ++ rest)]
    · unfold run
      apply parseLoop_items reg ver hint g items fuel _ rest (fun i hi => hok i (List.mem_cons_of_mem _ hi))
      rw [step_eci_isSome reg g st it hc]
      intro bs hbs
      apply hg bs
      cases it <;> simp only [guessed] at hbs ⊢ <;> first | exact hbs | (exact List.mem_append_right _ hbs)
    · intro bs hit he
      subst hit
      apply hg bs
      simp [guessed, he]

theorem Item.bits_length_pos (v : Nat) (it : Item) : 1 ≤ (it.bits v).length := by
  cases it <;> simp [Item.bits, segment] <;> omega

theorem bitsOf_length_ge (v : Nat) : ∀ items : List Item, items.length ≤ (bitsOf v items).length
  | [] => Nat.le_refl _
  | it :: items => by
    have := bitsOf_length_ge v items
    have := Item.bits_length_pos v it
    simp only [bitsOf, List.length_cons, List.length_append]
    omega

theorem bitsOf_append (v : Nat) (a b : List Item) : bitsOf v (a ++ b) = bitsOf v a ++ bitsOf v b := by
  induction a with
  | nil => rfl
  | cons x a ih => simp [bitsOf, ih]

theorem mem_bits_length_le (v : Nat) : ∀ (items : List Item) (it : Item), it ∈ items →
    (it.bits v).length ≤ (bitsOf v items).length
  | x :: items, it, h => by
    simp only [bitsOf, List.length_append]
    rcases List.mem_cons.mp h with rfl | h
    · omega
    · have := mem_bits_length_le v items it h; omega

/-- **whole streams**: items, terminator (full or shortened), padding — the parser returns the meaning of the list -/
theorem parseStream_items (reg : Registry) (ver : Nat) (hint : Hint) (g : List Nat → Charset) (items : List Item)
    (hok : ∀ it ∈ items, it.Content reg ∧ it.CountOK ver)
    (hg : ∀ bs ∈ guessed false items, guessCharset reg bs hint = .ok (g bs))
    (tail : List Bool) (ht : Terminated tail) :
    parseStream reg (bitsOf ver items ++ tail) ver hint = .ok (toParsed (run reg g {} items)) := by
  unfold parseStream
  obtain ⟨f, hf⟩ : ∃ f, (bitsOf ver items ++ tail).length + 1 = (f + 1) + items.length := by
    have := bitsOf_length_ge ver items
    refine ⟨(bitsOf ver items ++ tail).length - items.length, ?_⟩
    rw [List.length_append]; omega
  rw [hf, parseLoop_items reg ver hint g items (f + 1) {} tail hok hg, parseLoop_terminated reg ver hint f _ tail ht]
  rfl

/-! ### GS1 escaping of alphanumeric data (7.4.8.2) is undone by the parser's FNC1 rule -/

theorem massage_pp (r : List Nat) : fnc1Massage (37 :: 37 :: r) = 37 :: fnc1Massage r := by
  simp [fnc1Massage]

theorem massage_p_nil : fnc1Massage [37] = [0x1D] := by decide

theorem massage_p (y : Nat) (r : List Nat) (hy : y ≠ 37) : fnc1Massage (37 :: y :: r) = 0x1D :: fnc1Massage (y :: r) := by
  rw [fnc1Massage]
  intro rest h
  exact hy (by simpa using (List.cons.inj h).1)

theorem massage_other (c : Nat) (r : List Nat) (hc : c ≠ 37) : fnc1Massage (c :: r) = c :: fnc1Massage r := by
  rw [fnc1Massage]
  · intros; exact hc ‹c = 37›
  · intros; exact hc ‹c = 37›

theorem fnc1Massage_gs1Escape : ∀ (xs : List Nat), gs1Clean xs = true → fnc1Massage (gs1Escape xs) = xs
  | [], _ => rfl
  | [x], _ => by
    unfold gs1Escape
    by_cases hg : x = 0x1D
    · subst hg; decide
    · by_cases hp : x = 37
      · subst hp; decide
      · simp only [hg, hp, if_false, gs1Escape, List.append_nil]
        rw [massage_other x [] hp]; rfl
  | x :: y :: rest, h => by
    have hcl : gs1Clean (y :: rest) = true := by
      unfold gs1Clean at h; simp only [Bool.and_eq_true] at h; exact h.2
    have ih := fnc1Massage_gs1Escape (y :: rest) hcl
    have hxy : ¬ (x = 0x1D ∧ (y = 0x1D ∨ y = 37)) := by
      unfold gs1Clean at h
      simp only [Bool.and_eq_true, Bool.not_eq_true', Bool.and_eq_false_iff, Bool.or_eq_false_iff, beq_eq_false_iff_ne,
        ne_eq] at h
      intro ⟨a, b⟩
      rcases h.1 with h1 | ⟨h2, h3⟩
      · exact h1 a
      · rcases b with b | b
        · exact h2 b
        · exact h3 b
    rw [gs1Escape]
    by_cases hg : x = 0x1D
    · subst hg
      have hy1 : y ≠ 0x1D := fun e => hxy ⟨rfl, Or.inl e⟩
      have hy2 : y ≠ 37 := fun e => hxy ⟨rfl, Or.inr e⟩
      simp only [if_true, List.cons_append, List.nil_append]
      -- the escape of (y :: rest) starts with y
      have hstart : gs1Escape (y :: rest) = y :: gs1Escape rest := by
        rw [gs1Escape]; simp [hy1, hy2]
      rw [hstart, massage_p y _ hy2, ← hstart, ih]
    · by_cases hp : x = 37
      · subst hp
        simp only [hg, if_false, if_true, List.cons_append, List.nil_append]
        rw [massage_pp, ih]
      · simp only [hg, hp, if_false, List.cons_append, List.nil_append]
        rw [massage_other x _ hp, ih]

end Gzx.QRMulti
