/-
  C05 (work package c01multi) — COMBINED damage: the decoder model on a matrix that
    * holds, in the data cells (the reference placement order `QRRef.zigzag v` = the cells `ReadCodewords` visits),
      the modules of the reference symbol carrying a received codeword stream,
    * holds the format word with ≤ 3 flipped bits in EACH copy,
    * holds (version ≥ 7) the version word with ≤ 3 flipped bits in AT LEAST ONE of the two copies
      (the other copy may hold anything),
    * and anything at all elsewhere (finder, timing, alignment patterns, dark module are never read),
  returns what the clean symbol returns.  Composition of `decodeFormat_near` / `versionCopyOK_near`
  (Proofs/QRTolerance.lean), the function-pattern/data-cell partition (`data_cells_eq`, all versions) and
  `rsQR_corrects` — the matrix reads of Proofs/QRCompRead.lean redone for a matrix that agrees with the reference symbol
  on the data cells only.
-/
import Gzx.Proofs.QRCompTop
namespace Gzx.QRComp
open Gzx Gzx.QRDec Gzx.ECI

/-! ### the second copy of the version information -/

def coords2OK (v : Nat) : Bool :=
  decide (v < 7) || versionCoords2 (17 + 4 * v) == (List.range 18).map (fun i => QRRef.versionPos1 (17 + 4 * v) (18 - 1 - i))

theorem coords2OK_all : ∀ v ∈ List.range 40, coords2OK (v + 1) = true := by decide +kernel

theorem versionCoords2_eq (v : Nat) (h7 : 7 ≤ v) (h40 : v ≤ 40) :
    versionCoords2 (17 + 4 * v) = (List.range 18).map (fun i => QRRef.versionPos1 (17 + 4 * v) (18 - 1 - i)) := by
  have := coords2OK_all (v - 1) (List.mem_range.mpr (by omega))
  rw [show v - 1 + 1 = v by omega] at this
  unfold coords2OK at this
  simp only [Bool.or_eq_true, decide_eq_true_eq, beq_iff_eq] at this
  exact this.resolve_left (by omega)

theorem versionPos1_lt (n i : Nat) (hn : 21 ≤ n) (hi : i < 18) :
    (QRRef.versionPos1 n i).1 < n ∧ (QRRef.versionPos1 n i).2 < n := by
  unfold QRRef.versionPos1
  constructor <;> simp <;> omega

/-- the copy of the version information that `ReadVersion` reads second, on the reference symbol -/
theorem version_cells2 (v : Nat) (h7 : 7 ≤ v) (h40 : v ≤ 40) (ec : QRRef.EC) (mask : Nat) (cw : List Nat) :
    (versionCoords2 (17 + 4 * v)).map (cellOf (sym v ec mask cw) false) = natToBits 18 (QRRef.versionWord v) := by
  rw [versionCoords2_eq v h7 h40, List.map_map, ← toBitsBE_eq_natToBits]
  unfold QRRef.toBitsBE
  apply List.map_congr_left
  intro i hi
  have hi := List.mem_range.mp hi
  have hb := versionPos1_lt (17 + 4 * v) (18 - 1 - i) (by omega) (by omega)
  simp only [Function.comp, cellOf, Bool.false_eq_true, if_false]
  rw [matrixOf_getB v ec mask cw _ _ hb.1 hb.2]
  exact (Gzx.Properties.C07.ref_version_info_readback v h7 h40 ec mask cw _ (by omega)).1

/-- whatever a copy of the version information holds: if `ReadVersion` accepts it (it decodes to a version of the
    symbol's dimension), the version is the right one -/
theorem versionCopyOK_ref (T : Tables) (hT : TablesConform T) (v : Nat) (b : Nat) (v' : VersionInfo)
    (h : versionCopyOK T (17 + 4 * v) b = some v') : v' = refVersion v := by
  unfold versionCopyOK at h
  cases hd : decodeVersionInformation T b with
  | error e => rw [hd] at h; cases h
  | ok w =>
    rw [hd] at h
    simp only at h
    split at h
    · rename_i hdim
      have hw : w = v' := Option.some.inj h
      subst hw
      obtain ⟨n, hn⟩ : ∃ n, getVersionForNumber T.versions n = .ok w := by
        unfold decodeVersionInformation at hd
        split at hd
        · exact ⟨_, hd⟩
        · split at hd
          · exact ⟨_, hd⟩
          · cases hd
      by_cases hr : 1 ≤ n ∧ n ≤ 40
      · rw [getVersion_ref T hT n hr.1 hr.2] at hn
        have hw : refVersion n = w := Except.ok.inj hn
        subst hw
        have : n = v := by
          unfold VersionInfo.dimension refVersion at hdim
          simp only at hdim
          omega
        rw [this]
      · unfold getVersionForNumber at hn
        have : n < 1 ∨ n > 40 := by omega
        simp only [this, if_true] at hn
        cases hn
    · cases h

/-- a matrix that is the reference symbol `(v, ec, mask, cw)` up to tolerable damage of the format / version
    information and arbitrary damage of the other function patterns -/
structure Damaged (v : Nat) (ec : QRRef.EC) (mask : Nat) (cw : List Nat) (m : Matrix) : Prop where
  dim : m.dim = 17 + 4 * v
  data : ∀ c ∈ QRRef.zigzag v, m.bit c.1 c.2 = QRRef.moduleAt v ec mask cw c.1 c.2
  fmt1 : ∃ e, e < 2 ^ 15 ∧ popCount 64 e ≤ 3 ∧
    formatCoords1.map (cellOf m false) = natToBits 15 (QRRef.formatWord ec mask ^^^ e)
  fmt2 : ∃ e, e < 2 ^ 15 ∧ popCount 64 e ≤ 3 ∧
    (formatCoords2 (17 + 4 * v)).map (cellOf m false) = natToBits 15 (QRRef.formatWord ec mask ^^^ e)
  ver : 7 ≤ v →
    (∃ e, e < 2 ^ 18 ∧ popCount 64 e ≤ 3 ∧
      (versionCoords1 (17 + 4 * v)).map (cellOf m false) = natToBits 18 (QRRef.versionWord v ^^^ e)) ∨
    (∃ e, e < 2 ^ 18 ∧ popCount 64 e ≤ 3 ∧
      (versionCoords2 (17 + 4 * v)).map (cellOf m false) = natToBits 18 (QRRef.versionWord v ^^^ e))

section reads
variable (v : Nat) (h1 : 1 ≤ v) (h40 : v ≤ 40) (ec : QRRef.EC) (mask : Nat) (cw : List Nat) (m : Matrix)
  (T : Tables) (hT : TablesConform T) (hD : Damaged v ec mask cw m)

/-- parser state after `ReadVersion` -/
def dparser1 : Parser := if v ≤ 6 then { m := m } else { m := m, ver := some (refVersion v) }

/-- parser state after `ReadFormatInformation` -/
def dparser2 : Parser := { dparser1 v m with fmt := some (toDecEC ec, mask) }

theorem dparser1_m : (dparser1 v m).m = m := by unfold dparser1; split <;> rfl
theorem dparser1_fmt : (dparser1 v m).fmt = none := by unfold dparser1; split <;> rfl
theorem dparser1_mirror : (dparser1 v m).mirror = false := by unfold dparser1; split <;> rfl

include h1 h40 hT hD

/-- `ReadVersion` on the damaged symbol: a copy within three bits of the written word decides — the first one if it
    is, otherwise whatever the first copy holds is either rejected (not a version word of this dimension within three
    bits) or yields the same version, and the second copy decides -/
theorem readVersion_damaged : readVersion T { m := m } = .ok (refVersion v, dparser1 v m) := by
  have hdim := hD.dim
  have hprov : (17 + 4 * v - 17) / 4 = v := by omega
  by_cases hs : v ≤ 6
  · have := readVersion_small T { m := m } rfl (by simp only [hdim, hprov]; exact hs) (refVersion v)
      (by simp only [hdim, hprov]; exact getVersion_ref T hT v h1 h40)
    rw [this]; unfold dparser1; rw [if_pos hs]
  · have h7 : 7 ≤ v := by omega
    have hw : T.vdi[v - 7]? = some (QRRef.versionWord v) := by
      rw [hT.2.1]; unfold refVdi
      rw [List.getElem?_map, List.getElem?_range (by omega)]
      simp only [Option.map_some]
      rw [show v - 7 + 7 = v by omega]
    have hlt : QRRef.versionWord v < 2 ^ 18 := by
      have := versionWord_lt (v - 7) (List.mem_range.mpr (by omega))
      rwa [show v - 7 + 7 = v by omega] at this
    have hgv : getVersionForNumber T.versions (v - 7 + 7) = .ok (refVersion v) := by
      rw [show v - 7 + 7 = v by omega]; exact getVersion_ref T hT v h1 h40
    have hnear : ∀ e, popCount 64 e ≤ 3 → versionCopyOK T (17 + 4 * v) (QRRef.versionWord v ^^^ e) = some (refVersion v) :=
      fun e hpe => versionCopyOK_near T (by rw [hT.2.1]; exact refVdi_minDist) (v - 7) (QRRef.versionWord v) hw e
        hpe (refVersion v) hgv (17 + 4 * v) rfl
    rcases hD.ver h7 with ⟨e, he, hpe, hcells⟩ | ⟨e, he, hpe, hcells⟩
    · have := readVersion_reads_first T { m := m } rfl (by simp only [hdim, hprov]; exact hs)
        (QRRef.versionWord v ^^^ e) (Nat.xor_lt_two_pow hlt he) (by simp only [hdim]; exact hcells)
        (refVersion v) (by simp only [hdim]; exact hnear e hpe)
      rw [this]; unfold dparser1; rw [if_neg hs]
    · have hbig : ¬ (17 + 4 * v - 17) / 4 ≤ 6 := by rw [hprov]; exact hs
      unfold readVersion dparser1
      simp only [hdim, hbig, hs, if_false, copyBits_read, bind, Except.bind]
      cases h1c : versionCopyOK T (17 + 4 * v) (natOfBits ((versionCoords1 (17 + 4 * v)).map (cellOf m false))) with
      | some v' =>
        have := versionCopyOK_ref T hT v _ v' h1c
        subst this
        rfl
      | none =>
        simp only [hcells, natOfBits_natToBits 18 _ (Nat.xor_lt_two_pow hlt he), hnear e hpe]

omit h1 h40 in
/-- `ReadFormatInformation` on the damaged symbol: both copies within three bits of the written word -/
theorem readFormat_damaged (hm : mask < 8) :
    readFormatInformation T (dparser1 v m) = .ok ((toDecEC ec, mask), dparser2 v ec mask m) := by
  have hdim := hD.dim
  obtain ⟨e₁, b₁, p₁, c₁⟩ := hD.fmt1
  obtain ⟨e₂, b₂, p₂, c₂⟩ := hD.fmt2
  obtain ⟨hd32, hfi⟩ := formatData_facts ec mask (List.mem_range.mpr hm)
  have hlt : QRRef.formatWord ec mask < 2 ^ 15 := formatWord_lt _ (List.mem_range.mpr hd32)
  have hmem : (QRRef.formatWord ec mask, (ec.bits <<< 3) ||| mask) ∈ T.fmt := by
    rw [hT.1]; unfold refFmt
    exact List.mem_map.mpr ⟨_, List.mem_range.mpr hd32, rfl⟩
  have hdec := decodeFormat_near T.fmt T.fmtMask (by rw [hT.1]; exact refFmt_minDist) _ _ hmem e₁ e₂ p₁ p₂
  rw [readFormat_reads T (dparser1 v m) (dparser1_fmt v m) _ _ (Nat.xor_lt_two_pow hlt b₁) (Nat.xor_lt_two_pow hlt b₂)
    (by rw [dparser1_m, dparser1_mirror]; exact c₁)
    (by rw [dparser1_m, dparser1_mirror, hdim]; exact c₂), hdec, hfi]
  rfl

/-- `ReadCodewords` on the damaged symbol returns the codeword sequence the data cells carry -/
theorem readCodewords_damaged (hl : cw.length = QRRef.totalCodewords v) (hb : ∀ b ∈ cw, b < 256) :
    (readCodewords T (dparser2 v ec mask m)).1 = .ok cw := by
  have hdim := hD.dim
  have hprov : (17 + 4 * v - 17) / 4 = v := by omega
  have hfmt : readFormatInformation T (dparser2 v ec mask m) = .ok ((toDecEC ec, mask), dparser2 v ec mask m) := rfl
  have hpm : (dparser2 v ec mask m).m = m := dparser1_m v m
  have hver : readVersion T (dparser2 v ec mask m) = .ok (refVersion v, dparser2 v ec mask m) := by
    by_cases hs : v ≤ 6
    · have hp : (dparser2 v ec mask m).ver = none := by
        unfold dparser2 dparser1; rw [if_pos hs]
      exact readVersion_small T _ hp (by rw [hpm, hdim, hprov]; exact hs) (refVersion v)
        (by rw [hpm, hdim, hprov]; exact getVersion_ref T hT v h1 h40)
    · unfold dparser2 dparser1 readVersion
      rw [if_neg hs]
  unfold readCodewords
  rw [hfmt]
  simp only [hver]
  have hfp := buildFunctionPattern_ref (refVersion v) v h1 h40 rfl rfl
  simp only [hfp, wrapF, bind, Except.bind, hpm, unmask, hdim, readDataBits_eq, List.reverse_nil, List.nil_append,
    data_cells_eq v h1 h40]
  have hbits : (QRRef.zigzag v).map (fun c =>
      Matrix.getB { dim := 17 + 4 * v, bit := fun x y => m.bit x y != QRDec.maskBit mask y x } c.1 c.2) =
      QRRef.readDataBits v mask (QRRef.moduleAt v ec mask cw) := by
    unfold QRRef.readDataBits
    apply List.map_congr_left
    intro c hc
    have hd := hD.data c hc
    obtain ⟨x, y⟩ := c
    have hm := (QRRef.mem_zigzag v x y).mp hc
    unfold QRRef.dimension at hm
    simp only [Matrix.getB, hm.1, hm.2.1, and_self, if_true]
    rw [hd, maskBit_eq]
  rw [hbits]
  have hc := Gzx.Properties.C07.std_zigzag_count v h1 h40
  have hrem : QRRef.remainderBits v < 8 := by unfold QRRef.remainderBits; omega
  have hlen8 : (QRRef.bitsOfBytes cw).length ≤ (QRRef.zigzag v).length := by
    rw [QRRef.bitsOfBytes_length, hl, hc]; omega
  rw [QRRef.readDataBits_moduleAt v ec mask cw hlen8]
  have hsl : (QRRef.streamBits v cw).length = 8 * QRRef.totalCodewords v + QRRef.remainderBits v := by
    rw [QRRef.streamBits_length v cw hlen8, hc]
  have hdiv : (QRRef.streamBits v cw).length / 8 = QRRef.totalCodewords v := by rw [hsl]; omega
  rw [refVersion_total v h1 h40, hdiv]
  simp only [Nat.lt_irrefl, if_false, ne_eq, not_true_eq_false]
  unfold QRRef.streamBits
  rw [← hl, bitsToBytes_bitsOfBytes cw _ hb]

end reads

/-- the decoder on a matrix `m` that is, up to tolerable damage, the reference symbol carrying received blocks -/
theorem decode_damaged (T : Tables) (hT : TablesConform T) (hint : Hint) (v : Nat) (h1 : 1 ≤ v) (h40 : v ≤ 40)
    (ec : QRRef.EC) (mask : Nat) (hm : mask < 8) (bits : List Bool)
    (hfit : bits.length ≤ 8 * QRRef.dataCodewords v ec) (parsed : Parsed)
    (hparse : ∀ tail, Terminated tail → parseStream T.eci (bits ++ tail) v hint = .ok parsed)
    (recv : List (List Nat × List Nat))
    (hrecv : Received v ec (QRRef.terminate (QRRef.dataCodewords v ec) bits) recv)
    (m : Matrix) (hD : Damaged v ec mask (QRDec.interleave recv) m) :
    decode T rsQR hint m =
      .ok ⟨parsed, toDecEC ec, v, QRRef.terminate (QRRef.dataCodewords v ec) bits, false⟩ := by
  revert hrecv
  generalize hdata : QRRef.terminate (QRRef.dataCodewords v ec) bits = data
  intro hrecv
  have hd : data.length = QRRef.dataCodewords v ec := by
    rw [← hdata]; exact QRRef.terminate_length _ _ hfit
  have hb : ∀ x ∈ data, x < 256 := by rw [← hdata]; exact terminate_lt _ _
  obtain ⟨s, l, q, hs, hq, h255, hlens, hpar, eb, heb, hec, hshape0, htot0⟩ :=
    refBlocks_structure v h1 h40 ec data hd
  have hl1 : recv.map (fun b => b.1.length) = (refBlocks v ec data).map (fun b => b.1.length) := by
    have := congrArg (List.map Prod.fst) hrecv.shape
    simpa only [List.map_map, Function.comp_def] using this
  have hl2 : recv.map (fun b => b.2.length) = (refBlocks v ec data).map (fun b => b.2.length) := by
    have := congrArg (List.map Prod.snd) hrecv.shape
    simpa only [List.map_map, Function.comp_def] using this
  have hlenB : recv.length = (refBlocks v ec data).length := by
    have := congrArg List.length hl1; simpa using this
  have hpar' : ∀ b ∈ recv, b.2.length = QRRef.ecPerBlock v ec := by
    intro b hbm
    have : b.2.length ∈ recv.map (fun b => b.2.length) := List.mem_map_of_mem (f := fun b => b.2.length) hbm
    rw [hl2] at this
    obtain ⟨b0, hb0, hb0e⟩ := List.mem_map.mp this
    rw [← hb0e]; exact hpar b0 hb0
  have w := shortLong_of_lengths _ s l q _ hs hlens hpar
  have w' := shortLong_of_lengths recv s l q _ hs (by rw [hl1, hlens]) hpar'
  have hsplit' : recv = recv.take s ++ recv.drop s := (List.take_append_drop _ _).symm
  have hsplit : refBlocks v ec data = (refBlocks v ec data).take s ++ (refBlocks v ec data).drop s :=
    (List.take_append_drop _ _).symm
  have hlenI : (QRDec.interleave recv).length = (QRDec.interleave (refBlocks v ec data)).length := by
    rw [hsplit', hsplit, interleave_length w, interleave_length w', ← hsplit', ← hsplit, hlenB,
      List.length_drop, List.length_drop, hlenB]
  have hl : (QRDec.interleave recv).length = QRRef.totalCodewords v := by
    rw [hlenI, ← htot0, refVersion_total v h1 h40]
  have hcb : ∀ x ∈ QRDec.interleave recv, x < 256 := by
    intro x hx
    obtain ⟨b, hbm, hxb⟩ := mem_interleave recv x hx
    exact hrecv.bytes b hbm x (List.mem_append.mpr hxb)
  have hdim : ¬ (m.dim < 21 ∨ m.dim % 4 ≠ 1) := by rw [hD.dim]; omega
  have hplace := readCodewords_damaged v h1 h40 ec mask _ m T hT hD hl hcb
  have hshape' : blockShapes eb =
      (recv.take s ++ recv.drop s).map (fun b => (b.1.length, QRRef.ecPerBlock v ec + b.1.length)) := by
    rw [hshape0, ← hlens, ← hl1, ← hsplit', List.map_map]; rfl
  have htot' : (refVersion v).totalCodewords = (QRDec.interleave (recv.take s ++ recv.drop s)).length := by
    rw [← hsplit', hlenI]; exact htot0
  have hde := QRDec.interleave_deinterleave w' (refVersion v) (toDecEC ec) eb heb hec hshape' htot'
  rw [← hsplit'] at hde
  refine decode_layers T rsQR hint m hdim (refVersion v) _
    (readVersion_damaged v h1 h40 ec mask _ m T hT hD) (toDecEC ec, mask) _
    (readFormat_damaged v ec mask _ m T hT hD hm)
    (QRDec.interleave recv) _ (Prod.ext hplace rfl) _ hde data ?_ parsed ?_
  · have hflat : (refBlocks v ec data).flatMap (·.1) = data := refBlocks_data v h1 h40 ec data hd
    rw [← hflat]
    apply correctBlocks_map rsQR (refBlocks v ec data) recv hlenB.symm
    intro p hp
    have hsh := zip_shape hrecv.shape p hp
    simp only [Prod.mk.injEq] at hsh
    refine ⟨hsh.1, ?_⟩
    have hmem : p.1 ∈ refBlocks v ec data := (List.of_mem_zip hp).1
    have hmem' : p.2 ∈ recv := (List.of_mem_zip hp).2
    obtain ⟨hparity, hne, hbytes, hecm⟩ := refBlocks_mem v h1 h40 ec data hd hb p.1 hmem
    have hp2 : p.2.2.length = QRRef.ecPerBlock v ec := hpar' p.2 hmem'
    have hlen : (p.2.1 ++ p.2.2).length - p.2.1.length = QRRef.ecPerBlock v ec := by simp [hp2]
    have hq1 : p.1.1.length ≤ q + 1 := by
      have : p.1.1.length ∈ (refBlocks v ec data).map (fun b => b.1.length) :=
        List.mem_map_of_mem (f := fun b => b.1.length) hmem
      rw [hlens] at this
      rcases List.mem_append.mp this with h | h
      · rw [(List.mem_replicate.mp h).2]; omega
      · rw [(List.mem_replicate.mp h).2]; omega
    have herr := hrecv.errors p hp
    rw [hparity] at herr ⊢
    rw [hlen]
    exact rsQR_corrects _ hecm p.1.1 hne hbytes (by omega) (p.2.1 ++ p.2.2)
      (by rw [List.length_append, hsh.1, hp2]) (hrecv.bytes p.2 hmem') herr
  · unfold parse
    obtain ⟨tail, hbits, hterm⟩ := terminate_stream (QRRef.dataCodewords v ec) bits hfit
    rw [← hdata, hbits]
    exact hparse tail hterm

end Gzx.QRComp
