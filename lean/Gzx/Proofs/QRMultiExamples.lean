/-
  C05 (work package c01multi) — one END-TO-END KERNEL EVALUATION of the executable decoder model on a symbol with combined
  damage (kept in a module of its own: the kernel needs about half a minute for it).  Listed in specs/C05.d/c01multi.json so
  that it is built and audited with the property modules.
-/
import Gzx.Properties.C05Comb
namespace Gzx.QRComp.MultiExamples
open Gzx Gzx.QRDec Gzx.QRComp Gzx.QRComp.Examples Gzx.Properties.C05Comb

/-- the Annex I block with one wrong data codeword -/
def recv1 : List (List Nat × List Nat) :=
  [([0x10, 0x20, 0x0C, 0x56, 0x61, 0x80, 0xEC, 0x11, 0xEC, 0x11, 0xEC, 0x11, 0xEC, 0x11, 0xEC, 0x55],
    [0xA5, 0x24, 0xD4, 0xC1, 0xED, 0x36, 0xC7, 0x87, 0x2C, 0x55])]

set_option maxRecDepth 1000000 in
/-- no theorem used: `BitMatrixParser` (format information read from two copies with three flipped modules each, nearest
    BCH word), function pattern, zig-zag read-out, unmasking, de-interleaving, the C04 Reed-Solomon decoder correcting one
    codeword, the bit-stream parser — on the 21x21 Annex I symbol with `flips1` applied — return the digits -/
theorem damaged_annexI_combined_evaluates :
    (decode refTables rsQR .none
        (flipCells (matrixOf (QRRef.refMatrix 1 .M 3 (QRDec.interleave recv1))) flips1)).map (·.parsed) =
      .ok ⟨[.raw [48, 49, 50, 51, 52, 53, 54, 55]], [], -1, -1, 1⟩ := by decide +kernel

end Gzx.QRComp.MultiExamples
