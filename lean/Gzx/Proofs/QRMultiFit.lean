/-
  C01 (work package c01multi): a multi-segment stream that fits the data capacity of (version, level) also fits every
  character count indicator (Table 3 is wide enough for Table 7), and the explicit description of the meaning of a
  symbol in the standard's layout (structured-append header, FNC1 indicator, segments and ECI designators).
-/
import Gzx.Proofs.QRMulti
namespace Gzx.QRMulti
open Gzx Gzx.QRDec Gzx.QRPack Gzx.ECI Gzx.QRComp

theorem segment_length (m cb count : Nat) (data : List Bool) : (segment m cb count data).length = 4 + cb + data.length := by
  simp [segment]; omega

/-- an item whose bits fit the data capacity has a count below the range of its character count indicator -/
theorem countOK_of_fit (v : Nat) (h1 : 1 ≤ v) (h40 : v ≤ 40) (ec : QRRef.EC) (it : Item)
    (hfit : (it.bits v).length ≤ 8 * QRRef.dataCodewords v ec) : it.CountOK v := by
  obtain ⟨k0, k1, k2, k3⟩ := countBits_eq v
  obtain ⟨c0, c1, c2, c3⟩ := cap_facts v h1 h40 ec
  rw [k0] at c0; rw [k1] at c1; rw [k2] at c2; rw [k3] at c3
  cases it with
  | numeric ds =>
    simp only [Item.bits, segment_length, ← packNumeric_eq, packNumeric_length] at hfit
    show ds.length < 2 ^ countWidth 0 v
    generalize 2 ^ countWidth 0 v = P at c0 ⊢
    split at hfit
    · omega
    · split at hfit <;> omega
  | alnum cs =>
    simp only [Item.bits, segment_length, ← packAlnum_eq, packAlnum_length] at hfit
    show cs.length < 2 ^ countWidth 1 v
    generalize 2 ^ countWidth 1 v = P at c1 ⊢
    omega
  | byte bs =>
    simp only [Item.bits, segment_length, packBytes, flatMap_natToBits_length] at hfit
    show bs.length < 2 ^ countWidth 2 v
    generalize 2 ^ countWidth 2 v = P at c2 ⊢
    omega
  | kanji ps =>
    simp only [Item.bits, segment_length, packKanji_length] at hfit
    show ps.length < 2 ^ countWidth 3 v
    generalize 2 ^ countWidth 3 v = P at c3 ⊢
    omega
  | hanzi ps =>
    simp only [Item.bits, List.length_append, natToBits_length, packHanzi_length] at hfit
    show ps.length < 2 ^ countWidth 3 v
    generalize 2 ^ countWidth 3 v = P at c3 ⊢
    omega
  | eci val => trivial
  | fnc1First => trivial
  | fnc1Second => trivial
  | sa q p => trivial

theorem countOK_of_fit_all (v : Nat) (h1 : 1 ≤ v) (h40 : v ≤ 40) (ec : QRRef.EC) (items : List Item)
    (hfit : (bitsOf v items).length ≤ 8 * QRRef.dataCodewords v ec) : ∀ it ∈ items, it.CountOK v := by
  intro it hit
  exact countOK_of_fit v h1 h40 ec it (Nat.le_trans (mem_bits_length_le v items it hit) hfit)

/-! ### the meaning of a symbol in the standard's layout, explicitly -/

/-- the decoded segments of a body (data segments and ECI designators): `fnc1` = an FNC1 indicator heads the symbol,
    `e` = the ECI in effect -/
def contents (reg : Registry) (g : List Nat → Charset) (fnc1 : Bool) : Option Entry → List Item → List Seg
  | _, [] => []
  | _, .eci val :: r => contents reg g fnc1 (lookupValue reg val) r
  | e, .numeric ds :: r => .raw (ds.map (48 + ·)) :: contents reg g fnc1 e r
  | e, .alnum cs :: r =>
    .raw (if fnc1 then fnc1Massage (cs.map alnumCharOf) else cs.map alnumCharOf) :: contents reg g fnc1 e r
  | e, .byte bs :: r => .text (charsetOf g e bs) bs :: contents reg g fnc1 e r
  | e, .kanji ps :: r => .text .sjis (ps.flatMap (fun p => [p.1, p.2])) :: contents reg g fnc1 e r
  | e, .hanzi ps :: r => .text (.named "GB18030") (ps.flatMap (fun p => [p.1, p.2])) :: contents reg g fnc1 e r
  | e, _ :: r => contents reg g fnc1 e r

/-- the byte-mode segments (result metadata BYTE_SEGMENTS) -/
def byteSegsOf : List Item → List (List Nat)
  | [] => []
  | .byte bs :: r => bs :: byteSegsOf r
  | _ :: r => byteSegsOf r

def hasECI : List Item → Bool
  | [] => false
  | .eci _ :: _ => true
  | _ :: r => hasECI r

/-- symbology modifier of `]Q`: 1 plain, 2 ECI, 3/4 FNC1 first position (without/with ECI), 5/6 FNC1 second position -/
def modifier (eci : Bool) : Fnc1 → Nat
  | .none => if eci then 2 else 1
  | .first => if eci then 4 else 3
  | .second => if eci then 6 else 5

/-- what the decoder must report for a symbol -/
def Symbol.expected (reg : Registry) (g : List Nat → Charset) (s : Symbol) : Parsed :=
  ⟨contents reg g (s.fnc1 != .none) none s.body, byteSegsOf s.body,
   (match s.sa with | some (q, _) => (q : Int) | none => -1),
   (match s.sa with | some (_, p) => (p : Int) | none => -1),
   modifier (hasECI s.body) s.fnc1⟩

theorem run_body (reg : Registry) (g : List Nat → Charset) :
    ∀ (body : List Item) (st : PSt), (∀ it ∈ body, it.isBody = true ∧ it.Content reg) →
      (run reg g st body).segs = st.segs ++ contents reg g st.fnc1 st.eci body ∧
      (run reg g st body).byteSegs = st.byteSegs ++ byteSegsOf body ∧
      (run reg g st body).saSeq = st.saSeq ∧ (run reg g st body).saPar = st.saPar ∧
      (run reg g st body).fnc1First = st.fnc1First ∧ (run reg g st body).fnc1Second = st.fnc1Second ∧
      (run reg g st body).eci.isSome = (st.eci.isSome || hasECI body)
  | [], st, _ => by simp [run, contents, byteSegsOf, hasECI]
  | it :: body, st, h => by
    have ⟨hb, hc⟩ := h it List.mem_cons_self
    have ih := run_body reg g body (step reg g st it) (fun i hi => h i (List.mem_cons_of_mem _ hi))
    unfold run
    obtain ⟨i1, i2, i3, i4, i5, i6, i7⟩ := ih
    rw [i1, i2, i3, i4, i5, i6, i7]
    cases it <;> simp only [Item.isBody, Bool.false_eq_true] at hb <;>
      simp [step, contents, byteSegsOf, hasECI, List.append_assoc]
    · -- eci: the lookup succeeded
      rw [hc.2]; simp

theorem run_symbol (reg : Registry) (g : List Nat → Charset) (s : Symbol)
    (hb : ∀ it ∈ s.body, it.isBody = true ∧ it.Content reg) :
    toParsed (run reg g {} s.items) = s.expected reg g := by
  obtain ⟨sa, fnc1, body⟩ := s
  have key : ∀ st : PSt, st.eci = none → st.segs = [] → st.byteSegs = [] →
      toParsed (run reg g st body) =
        ⟨contents reg g st.fnc1 none body, byteSegsOf body, st.saSeq, st.saPar,
          (if hasECI body then (if st.fnc1First then 4 else if st.fnc1Second then 6 else 2)
           else (if st.fnc1First then 3 else if st.fnc1Second then 5 else 1))⟩ := by
    intro st he hs hbs
    obtain ⟨i1, i2, i3, i4, i5, i6, i7⟩ := run_body reg g body st hb
    simp only [toParsed, symbologyModifier, i1, i2, i3, i4, i5, i6, i7, he, hs, hbs, List.nil_append,
      Option.isSome_none, Bool.false_or]
  cases sa with
  | none =>
    cases fnc1 <;>
      simp only [Symbol.items, Symbol.header, List.nil_append, List.cons_append, run, step] <;>
      rw [key _ rfl rfl rfl] <;>
      (simp only [Symbol.expected, modifier]; cases hasECI body <;> rfl)
  | some qp =>
    obtain ⟨q, p⟩ := qp
    cases fnc1 <;>
      simp only [Symbol.items, Symbol.header, List.nil_append, List.cons_append, run, step] <;>
      rw [key _ rfl rfl rfl] <;>
      (simp only [Symbol.expected, modifier]; cases hasECI body <;> rfl)

/-- in the standard's layout the first guessed byte segments are those of the body before the first ECI -/
theorem guessed_symbol (s : Symbol) : guessed false s.items = guessed false s.body := by
  obtain ⟨sa, fnc1, body⟩ := s
  cases sa <;> cases fnc1 <;> rfl

end Gzx.QRMulti
