/-
  C05 (work package c01multi) — combined damage given as a SET OF FLIPPED MODULES: flipping any function-pattern
  modules of the reference symbol, of which at most three lie in each copy of the format information and at most three in
  one of the two copies of the version information, yields a `Damaged` matrix (Proofs/QRMultiComb.lean).
  Ingredients: `natToBits` of an exclusive-or is the bitwise exclusive-or of the bit lists; the population count of a
  flag list; function-pattern cells and data cells are disjoint (`QRRef.mem_zigzag`).
-/
import Gzx.Proofs.QRMultiComb
namespace Gzx.QRComp
open Gzx Gzx.QRDec

/-- flip the modules listed in `F` -/
def flipCells (m : Matrix) (F : List (Nat × Nat)) : Matrix :=
  { dim := m.dim, bit := fun x y => m.bit x y != F.contains (x, y) }

theorem natToBits_xor : ∀ (w a b : Nat),
    natToBits w (a ^^^ b) = List.zipWith (· != ·) (natToBits w a) (natToBits w b)
  | 0, _, _ => rfl
  | w + 1, a, b => by
    unfold natToBits
    rw [List.zipWith_append (by simp), Nat.xor_div_two, natToBits_xor w]
    congr 1
    have := xor_mod_two a b
    rcases Nat.mod_two_eq_zero_or_one a with ha | ha <;> rcases Nat.mod_two_eq_zero_or_one b with hb | hb <;>
      simp [this, ha, hb]

theorem popCount_natOfBits : ∀ (bs : List Bool) (k : Nat), bs.length ≤ k →
    popCount k (natOfBits bs) = bs.count true := by
  intro bs
  induction bs using rev_ind with
  | h0 => intro k _; exact popCount_zero k
  | hs xs b ih =>
    intro k hk
    rw [List.length_append, List.length_singleton] at hk
    obtain ⟨k', rfl⟩ : ∃ k', k = k' + 1 := ⟨k - 1, by omega⟩
    rw [natOfBits_append, List.count_append]
    unfold popCount
    have h1 : (2 * natOfBits xs + b.toNat) / 2 = natOfBits xs := by cases b <;> simp <;> omega
    have h2 : (2 * natOfBits xs + b.toNat) % 2 = b.toNat := by cases b <;> simp <;> omega
    rw [h1, h2, ih k' (by omega)]
    cases b <;> simp <;> omega

theorem count_map_true {α : Type} (f : α → Bool) (cs : List α) : (cs.map f).count true = cs.countP f := by
  induction cs with
  | nil => rfl
  | cons c cs ih =>
    rw [List.map_cons, List.count_cons, List.countP_cons, ih]
    cases f c <;> simp

/-- what the parser reads from in-range cells of a matrix with flipped modules -/
theorem cells_flip (m : Matrix) (F : List (Nat × Nat)) (cs : List (Nat × Nat))
    (hr : ∀ c ∈ cs, c.1 < m.dim ∧ c.2 < m.dim) :
    cs.map (cellOf (flipCells m F) false) =
      List.zipWith (· != ·) (cs.map (cellOf m false)) (cs.map (F.contains ·)) := by
  induction cs with
  | nil => rfl
  | cons c cs ih =>
    have hc := hr c List.mem_cons_self
    rw [List.map_cons, List.map_cons, List.map_cons, List.zipWith_cons_cons,
      ih (fun d hd => hr d (List.mem_cons_of_mem _ hd))]
    congr 1
    simp only [cellOf, Bool.false_eq_true, if_false, Matrix.getB, flipCells, hc.1, hc.2, and_self, if_true]

/-- a copy of an information word with the flags `F` flipped holds the word XOR the flag word -/
theorem cells_flip_word (m : Matrix) (F : List (Nat × Nat)) (cs : List (Nat × Nat)) (n w : Nat)
    (hn : cs.length = n) (hn64 : n ≤ 64) (hr : ∀ c ∈ cs, c.1 < m.dim ∧ c.2 < m.dim)
    (hw : cs.map (cellOf m false) = natToBits n w) (k : Nat) (hk : cs.countP (F.contains ·) ≤ k) :
    ∃ e, e < 2 ^ n ∧ popCount 64 e ≤ k ∧ cs.map (cellOf (flipCells m F) false) = natToBits n (w ^^^ e) := by
  refine ⟨natOfBits (cs.map (F.contains ·)), ?_, ?_, ?_⟩
  · have := natOfBits_lt (cs.map (F.contains ·))
    rwa [List.length_map, hn] at this
  · rw [popCount_natOfBits _ 64 (by rw [List.length_map]; omega), count_map_true]; exact hk
  · rw [cells_flip m F cs hr, hw, natToBits_xor]
    congr 1
    have := natToBits_natOfBits (cs.map (F.contains ·))
    rw [List.length_map, hn] at this
    exact this.symm

/-- **combined damage as module flips**: any set `F` of function-pattern modules of the reference symbol (format and
    version information, but also finder / timing / alignment patterns and the dark module) of which at most three lie
    in each copy of the format information and at most three in AT LEAST ONE of the two copies of the version information
    (the other copy is unconstrained) -/
theorem damaged_of_flips (v : Nat) (h1 : 1 ≤ v) (h40 : v ≤ 40) (ec : QRRef.EC) (mask : Nat) (cw : List Nat)
    (F : List (Nat × Nat)) (hF : ∀ c ∈ F, QRRef.isFunction v c.1 c.2 = true)
    (hf1 : formatCoords1.countP (F.contains ·) ≤ 3)
    (hf2 : (formatCoords2 (17 + 4 * v)).countP (F.contains ·) ≤ 3)
    (hv : 7 ≤ v → (versionCoords1 (17 + 4 * v)).countP (F.contains ·) ≤ 3 ∨
      (versionCoords2 (17 + 4 * v)).countP (F.contains ·) ≤ 3) :
    Damaged v ec mask cw (flipCells (sym v ec mask cw) F) := by
  have hdim : (sym v ec mask cw).dim = 17 + 4 * v := matrixOf_dim v ec mask cw
  have hco := coordsOK_of v h1 h40
  unfold coordsOK at hco
  simp only [Bool.and_eq_true, Bool.or_eq_true, decide_eq_true_eq, beq_iff_eq] at hco
  refine ⟨hdim, ?_, ?_, ?_, ?_⟩
  · intro c hc
    obtain ⟨x, y⟩ := c
    have hm := (QRRef.mem_zigzag v x y).mp hc
    unfold QRRef.dimension at hm
    have hnot : F.contains (x, y) = false := by
      cases hcon : F.contains (x, y) with
      | false => rfl
      | true =>
        have := hF (x, y) (List.contains_iff_mem.mp hcon)
        rw [hm.2.2] at this; cases this
    show ((sym v ec mask cw).bit x y != F.contains (x, y)) = _
    rw [hnot, matrixOf_bit v ec mask cw x y hm.1 hm.2.1]
    simp
  · apply cells_flip_word _ F formatCoords1 15 _ rfl (by omega) ?_ (format_cells1 v h1 h40 ec mask cw) 3 hf1
    intro c hc
    rw [hco.1.1] at hc
    obtain ⟨i, _, rfl⟩ := List.mem_map.mp hc
    have := formatPos1_lt (15 - 1 - i)
    rw [hdim]; omega
  · apply cells_flip_word _ F (formatCoords2 (17 + 4 * v)) 15 _ (by rw [hco.1.2]; simp) (by omega) ?_
      (format_cells2 v h1 h40 ec mask cw) 3 hf2
    intro c hc
    rw [hco.1.2] at hc
    obtain ⟨i, hi, rfl⟩ := List.mem_map.mp hc
    have := formatPos2_lt (17 + 4 * v) (15 - 1 - i) (by omega) (by have := List.mem_range.mp hi; omega)
    rw [hdim]; exact this
  · intro h7
    have hvc := hco.2.resolve_left (by omega)
    rcases hv h7 with hv1 | hv2
    · left
      apply cells_flip_word _ F (versionCoords1 (17 + 4 * v)) 18 _ (by rw [hvc]; simp) (by omega) ?_
        (version_cells1 v h1 h40 ec mask cw h7) 3 hv1
      intro c hc
      rw [hvc] at hc
      obtain ⟨i, hi, rfl⟩ := List.mem_map.mp hc
      have := versionPos2_lt (17 + 4 * v) (18 - 1 - i) (by omega) (by have := List.mem_range.mp hi; omega)
      rw [hdim]; exact this
    · right
      have hvc2 := versionCoords2_eq v h7 h40
      apply cells_flip_word _ F (versionCoords2 (17 + 4 * v)) 18 _ (by rw [hvc2]; simp) (by omega) ?_
        (version_cells2 v h7 h40 ec mask cw) 3 hv2
      intro c hc
      rw [hvc2] at hc
      obtain ⟨i, hi, rfl⟩ := List.mem_map.mp hc
      have := versionPos1_lt (17 + 4 * v) (18 - 1 - i) (by omega) (by have := List.mem_range.mp hi; omega)
      rw [hdim]; exact this

end Gzx.QRComp
