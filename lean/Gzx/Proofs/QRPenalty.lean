/-
  The executable mask-evaluation functions of the reference construction against declarative
  readings of ISO/IEC 18004 Table 11 (N1, N2, N4; N3 as a position count).
-/
import Gzx.Ref.QR
namespace Gzx.QRRef

/-! ### N1: runs of five or more modules of one colour -/

/-- lengths of the maximal same-colour runs of a line, continuing a run of `cnt` modules of colour `cur` -/
def runsFrom : List Bool → Bool → Nat → List Nat
  | [], _, cnt => [cnt]
  | b :: bs, cur, cnt => if b = cur then runsFrom bs cur (cnt + 1) else cnt :: runsFrom bs b 1

/-- lengths of the maximal same-colour runs of a line -/
def lineRuns : List Bool → List Nat
  | [] => []
  | b :: bs => runsFrom bs b 1

/-- Table 11, first row: a run of `5 + i` modules scores `N1 + i = 3 + i`; shorter runs nothing -/
def runScore (r : Nat) : Nat := if r ≥ 5 then 3 + (r - 5) else 0

def sumN (xs : List Nat) : Nat := xs.foldr (· + ·) 0

theorem runPenalty_some (bs : List Bool) (c : Bool) (k : Nat) :
    runPenalty bs (some c) k = sumN ((runsFrom bs c k).map runScore) := by
  induction bs generalizing c k with
  | nil => simp [runPenalty, runsFrom, sumN, runScore]
  | cons b bs ih =>
    unfold runPenalty runsFrom
    by_cases h : b = c
    · subst h
      simp only [if_true]
      exact ih b (k + 1)
    · have h' : ¬ some c = some b := fun e => h (Option.some.inj e).symm
      simp only [h', h, if_false, List.map_cons, sumN, List.foldr_cons]
      rw [ih b 1]
      rfl

/-- `penalty_n1_line`: the executable run penalty of a line is the sum of the Table 11 scores of
    its maximal runs -/
theorem penalty_n1_line (row : List Bool) :
    runPenalty row none 0 = sumN ((lineRuns row).map runScore) := by
  cases row with
  | nil => rfl
  | cons b bs =>
    unfold runPenalty lineRuns
    have : ¬ (none : Option Bool) = some b := by simp
    simp only [this, if_false]
    rw [runPenalty_some]
    simp

/-- the maximal runs partition the line -/
theorem runsFrom_sum (bs : List Bool) (c : Bool) (k : Nat) : sumN (runsFrom bs c k) = k + bs.length := by
  induction bs generalizing c k with
  | nil => simp [runsFrom, sumN]
  | cons b bs ih =>
    unfold runsFrom
    split
    · rw [ih]; simp; omega
    · simp only [sumN, List.foldr_cons] at ih ⊢
      rw [ih]; simp; omega

theorem lineRuns_sum (row : List Bool) : sumN (lineRuns row) = row.length := by
  cases row with
  | nil => rfl
  | cons b bs => unfold lineRuns; rw [runsFrom_sum]; simp; omega

/-! ### N2: blocks of one colour -/

/-- a line of `w` modules of colour `c` -/
def solidRow (c : Bool) (w : Nat) : List Bool := List.replicate w c

theorem blocks2_solid (c : Bool) : ∀ w, blocks2 (solidRow c (w + 1)) (solidRow c (w + 1)) = w := by
  intro w
  induction w with
  | zero => rfl
  | succ w ih =>
    have e : solidRow c (w + 1 + 1) = c :: c :: solidRow c w := rfl
    have e' : solidRow c (w + 1) = c :: solidRow c w := rfl
    rw [e, blocks2]
    simp only [and_self, if_true]
    rw [← e', ih]; omega

theorem rowPairs_solid (c : Bool) (w : Nat) : ∀ h, rowPairs (List.replicate (h + 1) (solidRow c (w + 1))) = h * w := by
  intro h
  induction h with
  | zero => simp [rowPairs]
  | succ h ih =>
    have e : List.replicate (h + 1 + 1) (solidRow c (w + 1)) =
        solidRow c (w + 1) :: solidRow c (w + 1) :: List.replicate h (solidRow c (w + 1)) := rfl
    have e' : List.replicate (h + 1) (solidRow c (w + 1)) = solidRow c (w + 1) :: List.replicate h (solidRow c (w + 1)) := rfl
    rw [e, rowPairs, blocks2_solid, ← e', ih, Nat.add_mul]; omega

/-- `penalty_n2_block`: a solid block of m x n modules scores `N2·(m-1)·(n-1)` (Table 11, second
    row): counting 2x2 blocks agrees with the standard's block formula -/
theorem penalty_n2_block (c : Bool) (m n : Nat) (hm : 1 ≤ m) (hn : 1 ≤ n) :
    penalty2 (List.replicate m (solidRow c n)) = 3 * ((m - 1) * (n - 1)) := by
  obtain ⟨h, rfl⟩ : ∃ h, m = h + 1 := ⟨m - 1, by omega⟩
  obtain ⟨w, rfl⟩ : ∃ w, n = w + 1 := ⟨n - 1, by omega⟩
  unfold penalty2
  rw [rowPairs_solid]
  simp

/-! ### N4: proportion of dark modules -/

/-- `penalty_n4_spec`: `penalty4 = 10·k` where the dark proportion deviates from 50% by at least
    `5k%` and by less than `5(k+1)%`: with `dev = |2·dark − total|`,
    `k·total ≤ 10·dev < (k+1)·total` (deviation in percent = 50·dev/total) -/
theorem penalty_n4_spec (m : List (List Bool)) (total dark : Nat)
    (ht : total = sumL (m.map List.length)) (hd : dark = sumL (m.map (fun r => r.count true)))
    (hpos : 0 < total) :
    ∃ k, penalty4 m = 10 * k ∧
      k * total ≤ 10 * (if 2 * dark ≥ total then 2 * dark - total else total - 2 * dark) ∧
      10 * (if 2 * dark ≥ total then 2 * dark - total else total - 2 * dark) < (k + 1) * total := by
  subst ht hd
  unfold penalty4
  simp only
  generalize (if 2 * sumL (m.map (fun r => r.count true)) ≥ sumL (m.map List.length) then _ else _) = dev
  refine ⟨dev * 10 / sumL (m.map List.length), rfl, ?_, ?_⟩
  · have := Nat.div_mul_le_self (dev * 10) (sumL (m.map List.length))
    omega
  · have := Nat.lt_div_mul_add (a := dev * 10) hpos
    rw [Nat.add_mul]
    omega

/-! ### N3: 1:1:3:1:1 pattern next to four light modules -/

/-- the seven modules at the head of `l` are dark-light-dark-dark-dark-light-dark -/
def finderAt (l : List Bool) : Bool :=
  match l with
  | true :: false :: true :: true :: true :: false :: true :: _ => true
  | _ => false

/-- position test of Table 11, third row, at the split `before.reverse ++ rest` of a line: the
    pattern starts here and the four modules before it or the four modules after it are light
    (modules outside the symbol — the quiet zone — are light) -/
def n3Here (before rest : List Bool) : Bool :=
  finderAt rest && (allLight (before.take 4) || allLight ((rest.drop 7).take 4))

theorem finderLike_cons (before : List Bool) (b : Bool) (rest : List Bool) :
    finderLike before (b :: rest) = (if n3Here before (b :: rest) then 1 else 0) + finderLike (b :: before) rest := by
  rw [finderLike]
  congr 1
  unfold n3Here finderAt
  split <;> simp_all

/-- `penalty_n3_line`: the executable count is the number of positions of the line at which the
    declarative test holds -/
theorem penalty_n3_line : ∀ (rest before : List Bool),
    finderLike before rest =
      ((List.range rest.length).filter (fun i =>
        n3Here ((rest.take i).reverse ++ before) (rest.drop i))).length := by
  intro rest
  induction rest with
  | nil => intro before; rfl
  | cons b rest ih =>
    intro before
    rw [finderLike_cons, ih (b :: before), List.length_cons, List.range_succ_eq_map, List.filter_cons]
    have h0 : n3Here (((b :: rest).take 0).reverse ++ before) ((b :: rest).drop 0) = n3Here before (b :: rest) := rfl
    rw [h0, List.filter_map]
    have hf : ((fun i => n3Here (((b :: rest).take i).reverse ++ before) ((b :: rest).drop i)) ∘ Nat.succ) =
        (fun i => n3Here ((rest.take i).reverse ++ b :: before) (rest.drop i)) := by
      funext i
      simp [List.take_succ_cons, List.reverse_cons, List.append_assoc]
    rw [hf]
    cases n3Here before (b :: rest)
    · simp only [Bool.false_eq_true, if_false, List.length_map]; omega
    · simp only [if_true, List.length_cons, List.length_map]; omega

end Gzx.QRRef
