/-
  Encoder-side placement lemmas of the reference construction (for the C01 composition):
  every data module of `moduleAt` carries exactly the bit of the codeword stream that the
  placement order assigns to it, XORed with the mask; function modules are untouched by data.
-/
import Gzx.Proofs.QRZigzag
namespace Gzx.QRRef

theorem lookup_zipWith_nodup {α β γ : Type} [BEq α] [LawfulBEq α] (f : α → β → γ) :
    ∀ (ks : List α) (vs : List β), ks.Nodup → ∀ (i : Nat) (hi : i < ks.length) (hv : i < vs.length),
      (List.zipWith (fun k v => (k, f k v)) ks vs).lookup ks[i] = some (f ks[i] vs[i]) := by
  intro ks
  induction ks with
  | nil => intro vs _ i hi; simp at hi
  | cons k ks ih =>
    intro vs hnd i hi hv
    cases vs with
    | nil => simp at hv
    | cons v vs =>
      rw [List.nodup_cons] at hnd
      cases i with
      | zero => simp
      | succ i =>
        simp only [List.zipWith_cons_cons, List.getElem_cons_succ]
        have hne : (ks[i]'(by simpa using hi) == k) = false := by
          apply beq_false_of_ne
          intro h
          exact hnd.1 (h ▸ List.getElem_mem _)
        rw [List.lookup_cons, hne]
        exact ih vs hnd.2 i (by simpa using hi) (by simpa using hv)

/-- the bit stream laid along the placement order: codeword bits then zero remainder bits -/
def streamBits (v : Nat) (codewords : List Nat) : List Bool :=
  bitsOfBytes codewords ++ List.replicate ((zigzag v).length - (bitsOfBytes codewords).length) false

theorem streamBits_length (v : Nat) (cw : List Nat) (h : (bitsOfBytes cw).length ≤ (zigzag v).length) :
    (streamBits v cw).length = (zigzag v).length := by
  unfold streamBits
  rw [List.length_append, List.length_replicate]
  omega

theorem placedData_eq (v mask : Nat) (cw : List Nat) :
    placedData v mask cw =
      List.zipWith (fun c b => (c, b != maskBit mask c.1 c.2)) (zigzag v) (streamBits v cw) := rfl

/-- `place`: the `i`-th module of the placement order shows stream bit `i` XOR the mask there -/
theorem moduleAt_data (v : Nat) (ec : EC) (mask : Nat) (cw : List Nat)
    (hlen : (bitsOfBytes cw).length ≤ (zigzag v).length) (i : Nat) (hi : i < (zigzag v).length) :
    moduleAt v ec mask cw ((zigzag v)[i]).1 ((zigzag v)[i]).2 =
      ((streamBits v cw)[i]'(by rw [streamBits_length v cw hlen]; exact hi)
        != maskBit mask ((zigzag v)[i]).1 ((zigzag v)[i]).2) := by
  have hmem : (zigzag v)[i] ∈ zigzag v := List.getElem_mem hi
  have hf : isFunction v ((zigzag v)[i]).1 ((zigzag v)[i]).2 = false :=
    ((mem_zigzag v _ _).mp hmem).2.2
  unfold moduleAt
  rw [hf]
  simp only [Bool.false_eq_true, if_false]
  rw [placedData_eq]
  have hv : i < (streamBits v cw).length := by rw [streamBits_length v cw hlen]; exact hi
  have := lookup_zipWith_nodup (fun (c : Nat × Nat) (b : Bool) => (b != maskBit mask c.1 c.2))
    (zigzag v) (streamBits v cw) (nodup_zigzag v) i hi hv
  rw [this]
  rfl

/-- function modules do not depend on the data -/
theorem moduleAt_function (v : Nat) (ec : EC) (mask : Nat) (cw : List Nat) (x y : Nat)
    (h : isFunction v x y = true) : moduleAt v ec mask cw x y = functionModule v ec mask x y := by
  unfold moduleAt; rw [h]; simp

end Gzx.QRRef
