/-
  Read-back lemmas of the reference symbol (encoder half of C01's `place_read_inv`,
  `format_info_inv`, `version_info_inv`), stated over the functional specification `moduleAt`:
  reading the data modules in placement order and unmasking returns the codeword stream; both
  copies of the format word and of the version word sit at the prescribed positions.
-/
import Gzx.Proofs.QRPlacement
namespace Gzx.QRRef

/-- what a reader gets from a symbol `M` (x = column, y = row): the data modules in placement
    order with the mask removed -/
def readDataBits (v mask : Nat) (M : Nat → Nat → Bool) : List Bool :=
  (zigzag v).map (fun c => M c.1 c.2 != maskBit mask c.1 c.2)

theorem bne_bne_cancel (a m : Bool) : ((a != m) != m) = a := by cases a <;> cases m <;> rfl

/-- reading the reference symbol returns the stream that was placed: codeword bits (msb first)
    followed by zero remainder bits -/
theorem readDataBits_moduleAt (v : Nat) (ec : EC) (mask : Nat) (cw : List Nat)
    (hlen : (bitsOfBytes cw).length ≤ (zigzag v).length) :
    readDataBits v mask (moduleAt v ec mask cw) = streamBits v cw := by
  unfold readDataBits
  apply List.ext_getElem
  · rw [List.length_map, streamBits_length v cw hlen]
  · intro i h1 h2
    rw [List.length_map] at h1
    rw [List.getElem_map, moduleAt_data v ec mask cw hlen i h1, bne_bne_cancel]

theorem toBitsBE_length (w x : Nat) : (toBitsBE w x).length = w := by
  unfold toBitsBE; rw [List.length_map, List.length_range]

theorem byte_roundtrip : ∀ b ∈ List.range 256, ofBitsBE (toBitsBE 8 b) = b := by decide +kernel

theorem bitsOfBytes_cons (b : Nat) (bs : List Nat) : bitsOfBytes (b :: bs) = toBitsBE 8 b ++ bitsOfBytes bs := by
  unfold bitsOfBytes; rw [List.flatMap_cons]

theorem bitsOfBytes_length (bs : List Nat) : (bitsOfBytes bs).length = 8 * bs.length := by
  induction bs with
  | nil => rfl
  | cons b bs ih => rw [bitsOfBytes_cons, List.length_append, toBitsBE_length, ih, List.length_cons]; omega

/-- grouping the bits of byte values back into bytes is the identity (whatever follows) -/
theorem bytesOfBits_bitsOfBytes (bs : List Nat) (rest : List Bool) (h : ∀ b ∈ bs, b < 256) :
    bytesOfBits bs.length (bitsOfBytes bs ++ rest) = bs := by
  induction bs with
  | nil => rfl
  | cons b bs ih =>
    rw [bitsOfBytes_cons, List.length_cons, List.append_assoc]
    have hl := toBitsBE_length 8 b
    cases hb : toBitsBE 8 b ++ (bitsOfBytes bs ++ rest) with
    | nil =>
      have := congrArg List.length hb
      rw [List.length_append, hl] at this
      simp at this
    | cons x xs =>
      unfold bytesOfBits
      rw [← hb, List.take_left' hl, List.drop_left' hl, ih (fun c hc => h c (List.mem_cons_of_mem _ hc)),
        byte_roundtrip b (List.mem_range.mpr (h b List.mem_cons_self))]

/-- the data bits read back, grouped into bytes, are the codewords; the rest are zero remainder bits -/
theorem read_codewords (v : Nat) (ec : EC) (mask : Nat) (cw : List Nat)
    (hlen : 8 * cw.length ≤ (zigzag v).length) (hb : ∀ b ∈ cw, b < 256) :
    bytesOfBits cw.length (readDataBits v mask (moduleAt v ec mask cw)) = cw ∧
    (readDataBits v mask (moduleAt v ec mask cw)).drop (8 * cw.length) =
      List.replicate ((zigzag v).length - 8 * cw.length) false := by
  have hl : (bitsOfBytes cw).length ≤ (zigzag v).length := by rw [bitsOfBytes_length]; exact hlen
  rw [readDataBits_moduleAt v ec mask cw hl]
  unfold streamBits
  constructor
  · exact bytesOfBits_bitsOfBytes cw _ hb
  · rw [← bitsOfBytes_length, List.drop_left]

/-! ### format and version information -/

/-- both copies of format bit `i` are format modules of version `v`, and the lookup that draws
    them resolves to bit `i` (positions are pairwise distinct) -/
def formatPosOK (v : Nat) : Bool :=
  let n := dimension v
  (List.range 15).all (fun i =>
    regionOf v (formatPos1 i).1 (formatPos1 i).2 == .format &&
    regionOf v (formatPos2 n i).1 (formatPos2 n i).2 == .format &&
    (List.range 15).find? (fun j => formatPos1 j == formatPos1 i || formatPos2 n j == formatPos1 i) == some i &&
    (List.range 15).find? (fun j => formatPos1 j == formatPos2 n i || formatPos2 n j == formatPos2 n i) == some i)

theorem formatPos_all : ∀ v ∈ List.range 40, formatPosOK (v + 1) = true := by decide +kernel

def versionPosOK (v : Nat) : Bool :=
  let n := dimension v
  (List.range 18).all (fun i =>
    regionOf v (versionPos1 n i).1 (versionPos1 n i).2 == .version &&
    regionOf v (versionPos2 n i).1 (versionPos2 n i).2 == .version &&
    (List.range 18).find? (fun j => versionPos1 n j == versionPos1 n i || versionPos2 n j == versionPos1 n i) == some i &&
    (List.range 18).find? (fun j => versionPos1 n j == versionPos2 n i || versionPos2 n j == versionPos2 n i) == some i)

theorem versionPos_all : ∀ v ∈ List.range 34, versionPosOK (v + 7) = true := by decide +kernel

theorem moduleAt_format (v : Nat) (ec : EC) (mask : Nat) (cw : List Nat) (x y i : Nat)
    (hr : regionOf v x y = .format)
    (hf : (List.range 15).find? (fun j => formatPos1 j == (x, y) || formatPos2 (dimension v) j == (x, y)) = some i) :
    moduleAt v ec mask cw x y = (formatWord ec mask).testBit i := by
  have hfun : isFunction v x y = true := by unfold isFunction; rw [hr]; rfl
  rw [moduleAt_function v ec mask cw x y hfun]
  unfold functionModule
  rw [hr]
  simp only
  unfold formatBitAt
  rw [hf]

theorem moduleAt_version (v : Nat) (ec : EC) (mask : Nat) (cw : List Nat) (x y i : Nat)
    (hr : regionOf v x y = .version)
    (hf : (List.range 18).find? (fun j => versionPos1 (dimension v) j == (x, y) || versionPos2 (dimension v) j == (x, y)) = some i) :
    moduleAt v ec mask cw x y = (versionWord v).testBit i := by
  have hfun : isFunction v x y = true := by unfold isFunction; rw [hr]; rfl
  rw [moduleAt_function v ec mask cw x y hfun]
  unfold functionModule
  rw [hr]
  simp only
  unfold versionBitAt
  rw [hf]

/-! ### matrices as lists of rows -/

/-- module (x, y) of a matrix given as rows; light outside -/
def matrixAt (m : List (List Bool)) (x y : Nat) : Bool := (m.getD y []).getD x false

theorem specMatrix_at (v : Nat) (ec : EC) (mask : Nat) (cw : List Nat) (x y : Nat)
    (hx : x < dimension v) (hy : y < dimension v) :
    matrixAt (specMatrix v ec mask cw) x y = moduleAt v ec mask cw x y := by
  unfold matrixAt specMatrix
  simp only [List.getD_eq_getElem?_getD, List.getElem?_map, List.getElem?_range hy, List.getElem?_range hx,
    Option.map_some, Option.getD_some]

end Gzx.QRRef
