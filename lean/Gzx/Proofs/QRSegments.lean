/-
  Decoder-side layer inverses for the QR data segments: parsing what the standard's packing
  (Gzx/Ref/QRPack.lean) wrote returns the characters, for all lengths.
-/
import Gzx.Proofs.QRBitsLemmas
import Gzx.Ref.QRPack
namespace Gzx.QRDec
open Gzx Gzx.QRPack

theorem decodeNumeric_pack (ds : List Nat) (hd : ∀ d ∈ ds, d < 10) (rest : List Bool) (acc : List Nat) :
    decodeNumeric ds.length (packNumeric ds ++ rest) acc = .ok (acc ++ ds.map (48 + ·), rest) := by
  fun_induction packNumeric ds generalizing acc with
  | case1 a b c tl ih =>
    have ha := hd a (by simp); have hb := hd b (by simp); have hc := hd c (by simp)
    simp only [List.length_cons, decodeNumeric, List.append_assoc]
    rw [readBitsF_natToBits_lt 10 _ _ (by omega) (by omega) (by omega)]
    simp only [bind, Except.bind]
    have h1000 : ¬ (100 * a + 10 * b + c ≥ 1000) := by omega
    simp only [h1000, if_false]
    rw [ih (fun d h => hd d (by simp [h]))]
    have e1 : (100 * a + 10 * b + c) / 100 = a := by omega
    have e2 : (100 * a + 10 * b + c) / 10 % 10 = b := by omega
    have e3 : (100 * a + 10 * b + c) % 10 = c := by omega
    simp [e1, e2, e3]
  | case2 a b =>
    have ha := hd a (by simp); have hb := hd b (by simp)
    simp only [List.length_cons, List.length_nil, decodeNumeric]
    rw [readBitsF_natToBits_lt 7 _ _ (by omega) (by omega) (by omega)]
    have h100 : ¬ (10 * a + b ≥ 100) := by omega
    have e1 : (10 * a + b) / 10 = a := by omega
    have e2 : (10 * a + b) % 10 = b := by omega
    simp [bind, Except.bind, h100, e1, e2]
  | case3 a =>
    have ha := hd a (by simp)
    simp only [List.length_cons, List.length_nil, decodeNumeric]
    rw [readBitsF_natToBits_lt 4 _ _ (by omega) (by omega) (by omega)]
    have h10 : ¬ (a ≥ 10) := by omega
    simp [bind, Except.bind, h10]
  | case4 => simp [decodeNumeric, packNumeric]

/-- the character of an alphanumeric value (`ALPHANUMERIC_CHARS[v]`) -/
def alnumCharOf (v : Nat) : Nat := alnumChars.getD v 0

theorem toAlnumChar_lt (v : Nat) (h : v < 45) : toAlnumChar v = .ok (alnumCharOf v) := by
  unfold toAlnumChar alnumCharOf
  have : v < alnumChars.length := by simpa [alnumChars] using h
  rw [List.getElem?_eq_getElem this]
  simp [List.getD, List.getElem?_eq_getElem this]

theorem decodeAlnumRaw_pack (cs : List Nat) (hc : ∀ c ∈ cs, c < 45) (rest : List Bool) (acc : List Nat) :
    decodeAlnumRaw cs.length (packAlnum cs ++ rest) acc = .ok (acc ++ cs.map alnumCharOf, rest) := by
  fun_induction packAlnum cs generalizing acc with
  | case1 a b tl ih =>
    have ha := hc a (by simp); have hb := hc b (by simp)
    simp only [List.length_cons, decodeAlnumRaw, List.append_assoc]
    rw [readBitsF_natToBits_lt 11 _ _ (by omega) (by omega) (by omega)]
    have e1 : (45 * a + b) / 45 = a := by omega
    have e2 : (45 * a + b) % 45 = b := by omega
    simp only [bind, Except.bind, e1, e2, toAlnumChar_lt a ha, toAlnumChar_lt b hb]
    rw [ih (fun d h => hc d (by simp [h]))]
    simp
  | case2 a =>
    have ha := hc a (by simp)
    simp only [List.length_cons, List.length_nil, decodeAlnumRaw]
    rw [readBitsF_natToBits_lt 6 _ _ (by omega) (by omega) (by omega)]
    simp [bind, Except.bind, toAlnumChar_lt a ha]
  | case3 => simp [decodeAlnumRaw, packAlnum]

theorem readGroups_pack (w : Nat) (h1 : 1 ≤ w) (h32 : w ≤ 32) (vs : List Nat) (hv : ∀ v ∈ vs, v < 2 ^ w)
    (rest : List Bool) (acc : List Nat) :
    readGroups w vs.length (vs.flatMap (natToBits w) ++ rest) acc = .ok (acc ++ vs, rest) := by
  induction vs generalizing acc with
  | nil => simp [readGroups]
  | cons v vs ih =>
    simp only [List.length_cons, readGroups, List.flatMap_cons, List.append_assoc]
    rw [readBitsF_natToBits_lt w v _ h1 h32 (hv v (by simp))]
    simp only [bind, Except.bind]
    rw [ih (fun x hx => hv x (List.mem_cons_of_mem _ hx))]
    simp

theorem flatMap_natToBits_length (w : Nat) (vs : List Nat) : (vs.flatMap (natToBits w)).length = vs.length * w := by
  induction vs with
  | nil => simp
  | cons v vs ih => simp [List.flatMap_cons, ih, Nat.succ_mul]; omega

/-- a Shift_JIS double-byte character that Kanji mode can carry -/
def kanjiPairOK (p : Nat × Nat) : Prop :=
  ((0x81 ≤ p.1 ∧ p.1 ≤ 0x9F) ∨ (0xE0 ≤ p.1 ∧ p.1 ≤ 0xEB)) ∧ 0x40 ≤ p.2 ∧ p.2 ≤ 0xFC ∧
  (p.1 = 0xEB → p.2 ≤ 0xBF)        -- 0x8140..0x9FFC and 0xE040..0xEBBF

theorem kanjiValue_lt (p : Nat × Nat) (h : kanjiPairOK p) : kanjiValue p.1 p.2 < 2 ^ 13 := by
  obtain ⟨h1, h2, h3, h4⟩ := h
  unfold kanjiValue
  dsimp only
  split <;> omega

theorem kanjiBytes_value (p : Nat × Nat) (h : kanjiPairOK p) : kanjiBytes (kanjiValue p.1 p.2) = [p.1, p.2] := by
  obtain ⟨h1, h2, h3, h4⟩ := h
  unfold kanjiBytes kanjiValue
  dsimp only
  rcases h1 with ⟨a, b⟩ | ⟨a, b⟩
  · have hb : p.1 ≤ 0x9F := b
    simp only [hb, if_true]
    have e1 : ((p.1 - 0x81) * 0xC0 + (p.2 - 0x40)) / 0xC0 = p.1 - 0x81 := by omega
    have e2 : ((p.1 - 0x81) * 0xC0 + (p.2 - 0x40)) % 0xC0 = p.2 - 0x40 := by omega
    rw [e1, e2]
    have hlt : (p.1 - 0x81) * 256 + (p.2 - 0x40) < 0x1F00 := by omega
    simp only [hlt, if_true]
    have : (p.1 - 0x81) * 256 + (p.2 - 0x40) + 0x8140 = p.1 * 256 + p.2 := by omega
    rw [this]
    simp; omega
  · have hb : ¬ p.1 ≤ 0x9F := by omega
    simp only [hb, if_false]
    have e1 : ((p.1 - 0xC1) * 0xC0 + (p.2 - 0x40)) / 0xC0 = p.1 - 0xC1 := by omega
    have e2 : ((p.1 - 0xC1) * 0xC0 + (p.2 - 0x40)) % 0xC0 = p.2 - 0x40 := by omega
    rw [e1, e2]
    have hlt : ¬ (p.1 - 0xC1) * 256 + (p.2 - 0x40) < 0x1F00 := by omega
    simp only [hlt, if_false]
    have : (p.1 - 0xC1) * 256 + (p.2 - 0x40) + 0xC140 = p.1 * 256 + p.2 := by omega
    rw [this]
    simp; omega

theorem flatMap_kanjiBytes (ps : List (Nat × Nat)) (h : ∀ p ∈ ps, kanjiPairOK p) :
    ps.flatMap (fun a => kanjiBytes (kanjiValue a.1 a.2)) = ps.flatMap (fun p => [p.1, p.2]) := by
  induction ps with
  | nil => rfl
  | cons p ps ih =>
    simp only [List.flatMap_cons]
    rw [kanjiBytes_value p (h p (by simp)), ih (fun q hq => h q (List.mem_cons_of_mem _ hq))]

theorem packKanji_eq (ps : List (Nat × Nat)) :
    packKanji ps = (ps.map (fun p => kanjiValue p.1 p.2)).flatMap (natToBits 13) := by
  induction ps with
  | nil => rfl
  | cons p ps ih => obtain ⟨l, t⟩ := p; simp [packKanji, ih]

theorem decode13_packKanji (ps : List (Nat × Nat)) (h : ∀ p ∈ ps, kanjiPairOK p) (rest : List Bool) :
    decode13 kanjiBytes ps.length (packKanji ps ++ rest) = .ok (ps.flatMap (fun p => [p.1, p.2]), rest) := by
  unfold decode13
  rw [packKanji_eq]
  have hlen : ¬ ps.length * 13 > ((ps.map (fun p => kanjiValue p.1 p.2)).flatMap (natToBits 13) ++ rest).length := by
    simp only [List.length_append, flatMap_natToBits_length, List.length_map]; omega
  simp only [hlen, if_false]
  have := readGroups_pack 13 (by omega) (by omega) (ps.map (fun p => kanjiValue p.1 p.2))
    (by intro v hv; obtain ⟨p, hp, rfl⟩ := List.mem_map.mp hv; exact kanjiValue_lt p (h p hp)) rest []
  simp only [List.length_map, List.nil_append] at this
  rw [this]
  simp only [bind, Except.bind, List.flatMap_map]
  rw [flatMap_kanjiBytes ps h]

section
open Gzx.ECI
theorem countBits_numeric (ver : Nat) : countBits .numeric ver = .ok (countWidth 0 ver) := by
  by_cases h9 : ver ≤ 9 <;> by_cases h26 : ver ≤ 26 <;> simp [countBits, countWidth, Mode.countTable, h9, h26]
theorem countBits_alnum (ver : Nat) : countBits .alphanumeric ver = .ok (countWidth 1 ver) := by
  by_cases h9 : ver ≤ 9 <;> by_cases h26 : ver ≤ 26 <;> simp [countBits, countWidth, Mode.countTable, h9, h26]
theorem countBits_byte (ver : Nat) : countBits .byte ver = .ok (countWidth 2 ver) := by
  by_cases h9 : ver ≤ 9 <;> by_cases h26 : ver ≤ 26 <;> simp [countBits, countWidth, Mode.countTable, h9, h26]
theorem countBits_kanji (ver : Nat) : countBits .kanji ver = .ok (countWidth 3 ver) := by
  by_cases h9 : ver ≤ 9 <;> by_cases h26 : ver ≤ 26 <;> simp [countBits, countWidth, Mode.countTable, h9, h26]

theorem countWidth_range (m ver : Nat) : 1 ≤ countWidth m ver ∧ countWidth m ver ≤ 32 := by
  by_cases h9 : ver ≤ 9 <;> by_cases h26 : ver ≤ 26 <;>
    (unfold countWidth; simp only [h9, h26, if_true, if_false]; split <;> omega)


/-- `bits_byte_inv` (7.4.5): the bytes come back unchanged together with the charset that decodes
    them — the current ECI entry if there is one … -/
theorem parseLoop_byte_eci (reg : Registry) (ver : Nat) (hint : Hint) (fuel : Nat) (st : PSt) (e : Entry)
    (he : st.eci = some e)
    (bs : List Nat) (hb : ∀ b ∈ bs, b < 256) (hlen : bs.length < 2 ^ countWidth 2 ver) (rest : List Bool) :
    parseLoop reg ver hint (fuel + 1) st (segment 4 (countWidth 2 ver) bs.length (packBytes bs) ++ rest) =
      parseLoop reg ver hint fuel
        { st with segs := st.segs ++ [.text (.named e.name) bs], byteSegs := st.byteSegs ++ [bs] } rest := by
  conv => lhs; unfold parseLoop
  have ⟨c1, c32⟩ := countWidth_range 2 ver
  simp only [segment, List.append_assoc]
  have hl : ¬ (natToBits 4 4 ++ (natToBits (countWidth 2 ver) bs.length ++ (packBytes bs ++ rest))).length < 4 := by
    simp only [List.length_append, natToBits_length]; omega
  simp only [hl, if_false]
  rw [readBitsF_natToBits_lt 4 4 _ (by omega) (by omega) (by decide)]
  simp only [bind, Except.bind, modeForBits, wrapF, countBits_byte]
  rw [readBitsF_natToBits_lt _ _ _ c1 c32 hlen]
  have hfit : ¬ 8 * bs.length > (List.flatMap (natToBits 8) bs ++ rest).length := by
    simp only [List.length_append, flatMap_natToBits_length]; omega
  simp only [decodeByte, packBytes, hfit, if_false, bind, Except.bind,
    readGroups_pack 8 (by omega) (by omega) bs hb rest [], List.nil_append, he]


/-- a payload followed by the full terminator and arbitrary padding, or by a shortened terminator -/
def Terminated (tail : List Bool) : Prop := (∃ pad, tail = List.replicate 4 false ++ pad) ∨ tail.length < 4

theorem parseLoop_terminated (reg : Registry) (ver : Nat) (hint : Hint) (fuel : Nat) (st : PSt)
    (tail : List Bool) (ht : Terminated tail) : parseLoop reg ver hint (fuel + 1) st tail = .ok st := by
  rcases ht with ⟨pad, rfl⟩ | h
  · unfold parseLoop
    have hl : ¬ (List.replicate 4 false ++ pad).length < 4 := by simp
    simp only [hl, if_false]
    have : List.replicate 4 false = natToBits 4 0 := by decide
    rw [this, readBitsF_natToBits_lt 4 0 _ (by omega) (by omega) (by decide)]
    simp [bind, Except.bind, modeForBits, wrapF]
  · unfold parseLoop
    simp [h]

end

end Gzx.QRDec
