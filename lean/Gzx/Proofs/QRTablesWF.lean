/-
  Well-formedness predicates for the QR version table, as consumed by the de-interleaving theorems
  (decidable, linear structural checks; the per-run obligations instantiate them with `Gzx.Gen`).
-/
import Gzx.Model.QRDecoder
namespace Gzx.QRDec

/-- one group of equal blocks, or two groups whose second has one more data codeword per block -/
def wfBlocks (b : ECBlocks) : Bool :=
  match b.groups with
  | [(c, _)] => decide (1 ≤ c)
  | [(c1, d1), (c2, d2)] => decide (1 ≤ c1) && decide (1 ≤ c2) && d2 == d1 + 1
  | _ => false

def ECBlocks.total (b : ECBlocks) : Nat :=
  (b.groups.map (fun g => g.1 * (g.2 + b.ecPerBlock))).foldl (· + ·) 0

/-- entry `i` of VERSIONS: number `i+1`, four levels, well-formed block lists that all fill the
    same total number of codewords -/
def wfVersion (v : VersionInfo) (i : Nat) : Bool :=
  v.num == i + 1 && v.ecBlocks.length == 4 && v.ecBlocks.all wfBlocks &&
  v.ecBlocks.all (fun b => b.total == v.totalCodewords)

def wfVersionsFrom : List VersionInfo → Nat → Bool
  | [], _ => true
  | v :: vs, i => wfVersion v i && wfVersionsFrom vs (i + 1)

def wfVersions (vs : List VersionInfo) : Bool := vs.length == 40 && wfVersionsFrom vs 0

end Gzx.QRDec
