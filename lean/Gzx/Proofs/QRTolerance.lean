/-
  Nearest-word decoding of the format and version information tolerates three flipped bits
  (shared by Properties/C05 and Properties/C01).
-/
import Gzx.Proofs.QRHamming
namespace Gzx.QRDec
open Gzx

/-- `doDecodeFormatInformation` / `FormatInformation_DecodeFormatInformation` on two copies within
    three bits of the word of lookup entry `(w, d)`: the data bits `d`, on the first attempt -/
theorem decodeFormatData_near (T : List (Nat × Nat)) (mask : Nat) (hT : MinDist 7 (T.map (·.1)))
    (w d : Nat) (hw : (w, d) ∈ T) (e₁ e₂ : Nat) (h₁ : popCount 64 e₁ ≤ 3) (h₂ : popCount 64 e₂ ≤ 3) :
    decodeFormatData T mask (w ^^^ e₁) (w ^^^ e₂) = some d := by
  obtain ⟨pre, post, rfl⟩ := List.append_of_mem hw
  simp only [List.map_append, List.map_cons] at hT
  have ⟨hp, hq⟩ := minDist_split hT
  have n1 : numBitsDiffering (w ^^^ e₁) w ≤ 3 := by rw [nbd_xor_left]; exact h₁
  have n2 : numBitsDiffering (w ^^^ e₂) w ≤ 3 := by rw [nbd_xor_left]; exact h₂
  have far : ∀ m, numBitsDiffering m w ≤ 3 → ∀ p : Nat × Nat, (p ∈ pre ∨ p ∈ post) → 4 ≤ numBitsDiffering m p.1 := by
    intro m hm p hp'
    have h7 : 7 ≤ numBitsDiffering w p.1 := by
      rcases hp' with h | h
      · rw [nbd_comm]; exact hp p.1 (List.mem_map_of_mem h)
      · exact hq p.1 (List.mem_map_of_mem h)
    have := far_of_near hm h7
    omega
  unfold decodeFormatData doDecodeFormat
  rw [fmtLoop_before (w ^^^ e₁) (w ^^^ e₂) w d pre post maxInt32 0
    (fun p h => ⟨far _ n1 p (Or.inl h), far _ n2 p (Or.inl h)⟩)
    (fun p h => ⟨far _ n1 p (Or.inr h), far _ n2 p (Or.inr h)⟩) n1 n2 (by decide)]

theorem decodeFormat_near (T : List (Nat × Nat)) (mask : Nat) (hT : MinDist 7 (T.map (·.1)))
    (w d : Nat) (hw : (w, d) ∈ T) (e₁ e₂ : Nat) (h₁ : popCount 64 e₁ ≤ 3) (h₂ : popCount 64 e₂ ≤ 3) :
    decodeFormat T mask (w ^^^ e₁) (w ^^^ e₂) = (do let fi ← formatInfoOf d; pure (some fi)) := by
  unfold decodeFormat
  rw [decodeFormatData_near T mask hT w d hw e₁ e₂ h₁ h₂]
  rfl

/-- `Version_decodeVersionInformation` on a copy within three bits of the `i`-th word -/
theorem decodeVersion_near (T : Tables) (hT : MinDist 8 T.vdi) (i w : Nat) (hw : T.vdi[i]? = some w)
    (e : Nat) (he : popCount 64 e ≤ 3) :
    decodeVersionInformation T (w ^^^ e) = getVersionForNumber T.versions (i + 7) := by
  have hi : i < T.vdi.length := by
    rcases Nat.lt_or_ge i T.vdi.length with h | h
    · exact h
    · rw [List.getElem?_eq_none h] at hw; cases hw
  have hsplit : T.vdi = T.vdi.take i ++ w :: T.vdi.drop (i + 1) := by
    have hg : T.vdi[i] = w := by
      rw [List.getElem?_eq_getElem hi] at hw; exact Option.some.inj hw
    rw [← hg, ← List.drop_eq_getElem_cons hi, List.take_append_drop]
  have hlen : (T.vdi.take i).length = i := by rw [List.length_take]; omega
  rw [hsplit] at hT
  have ⟨hp, hq⟩ := minDist_split hT
  have n1 : numBitsDiffering (w ^^^ e) w ≤ 3 := by rw [nbd_xor_left]; exact he
  have farP : ∀ t ∈ T.vdi.take i, 4 ≤ numBitsDiffering (w ^^^ e) t := by
    intro t ht
    have h8 : 8 ≤ numBitsDiffering w t := by rw [nbd_comm]; exact hp t ht
    have := far_of_near n1 h8; omega
  have farQ : ∀ t ∈ T.vdi.drop (i + 1), 4 ≤ numBitsDiffering (w ^^^ e) t := by
    intro t ht
    have := far_of_near n1 (hq t ht); omega
  unfold decodeVersionInformation
  rw [hsplit]
  rcases verLoop_before (w ^^^ e) w (T.vdi.take i) (T.vdi.drop (i + 1)) 0 maxInt32 0 farP farQ n1 (by decide) with h | ⟨b, hb, h⟩
  · rw [h, hlen]; simp
  · rw [h, hlen]; simp [hb]

/-- one copy inside `ReadVersion` (decode + dimension check) -/
theorem versionCopyOK_near (T : Tables) (hT : MinDist 8 T.vdi) (i w : Nat) (hw : T.vdi[i]? = some w)
    (e : Nat) (he : popCount 64 e ≤ 3) (v : VersionInfo)
    (hv : getVersionForNumber T.versions (i + 7) = .ok v) (dim : Nat) (hd : v.dimension = dim) :
    versionCopyOK T dim (w ^^^ e) = some v := by
  unfold versionCopyOK
  rw [decodeVersion_near T hT i w hw e he, hv]
  simp [hd]

theorem popCount_zero' : popCount 64 0 ≤ 3 := by decide

end Gzx.QRDec
