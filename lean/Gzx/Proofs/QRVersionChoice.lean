/-
  Helper lemmas for C13: the two-pass version recommendation of the QR encoder lands on the
  smallest fitting version.  Pure layer (`dataBytes`, `cbOf`, `firstFrom`) + refinement of the
  monadic model `Gzx.QRVersionChoice` to it under table well-formedness.
-/
import Gzx.Model.QRVersionChoice
namespace Gzx.QRVersionChoice
open Gzx Gzx.QRRef

/-! ## first index satisfying a predicate, shaped like the Go loop -/

def firstFrom (P : Nat → Bool) : Nat → Nat → Option Nat
  | 0, _ => none
  | f + 1, cur => if P cur then some cur else firstFrom P f (cur + 1)

theorem firstFrom_some {P : Nat → Bool} {f c v : Nat} :
    firstFrom P f c = some v ↔ (c ≤ v ∧ v < c + f ∧ P v = true ∧ ∀ u, c ≤ u → u < v → P u = false) := by
  induction f generalizing c with
  | zero => simp [firstFrom]; omega
  | succ f ih =>
    unfold firstFrom
    by_cases hp : P c = true
    · simp only [hp, if_true, Option.some.injEq]
      constructor
      · rintro rfl
        exact ⟨Nat.le_refl _, by omega, hp, fun u h1 h2 => by omega⟩
      · rintro ⟨h1, _, _, h4⟩
        by_cases hcv : c = v
        · exact hcv
        · have := h4 c (Nat.le_refl _) (by omega)
          rw [hp] at this; cases this
    · have hp' : P c = false := by simpa using hp
      simp only [hp', Bool.false_eq_true, if_false]
      rw [ih]
      constructor
      · rintro ⟨h1, h2, h3, h4⟩
        refine ⟨by omega, by omega, h3, ?_⟩
        intro u hu1 hu2
        by_cases huc : u = c
        · rw [huc]; exact hp'
        · exact h4 u (by omega) hu2
      · rintro ⟨h1, h2, h3, h4⟩
        have hne : c ≠ v := by
          intro h; rw [h] at hp'; rw [hp'] at h3; cases h3
        exact ⟨by omega, by omega, h3, fun u hu1 hu2 => h4 u (by omega) hu2⟩

theorem firstFrom_none {P : Nat → Bool} {f c : Nat} :
    firstFrom P f c = none ↔ ∀ u, c ≤ u → u < c + f → P u = false := by
  induction f generalizing c with
  | zero => simp [firstFrom]; intro u h1 h2; omega
  | succ f ih =>
    unfold firstFrom
    by_cases hp : P c = true
    · simp only [hp, if_true]
      constructor
      · intro h; cases h
      · intro h
        have := h c (Nat.le_refl _) (by omega)
        rw [hp] at this; cases this
    · have hp' : P c = false := by simpa using hp
      simp only [hp', Bool.false_eq_true, if_false]
      rw [ih]
      constructor
      · intro h u hu1 hu2
        by_cases huc : u = c
        · rw [huc]; exact hp'
        · exact h u (by omega) (by omega)
      · intro h u hu1 hu2
        exact h u (by omega) (by omega)

/-- `firstFrom` over 1..40 is `find?` over the list of version numbers -/
theorem firstFrom_eq_find (P : Nat → Bool) (f c : Nat) :
    firstFrom P f c = ((List.range f).map (· + c)).find? P := by
  induction f generalizing c with
  | zero => rfl
  | succ f ih =>
    unfold firstFrom
    rw [List.range_succ_eq_map, List.map_cons, List.find?_cons, Nat.zero_add, ih]
    have : (List.map (fun x => x + c) (List.map Nat.succ (List.range f))) = List.map (fun x => x + (c + 1)) (List.range f) := by
      rw [List.map_map]; apply List.map_congr_left; intro a _; simp; omega
    rw [this]
    cases P c <;> rfl

/-! ## the abstract two-pass argument -/

/-- `b` input bits fit into `d` data bytes (`willFit`'s comparison) -/
def fitsBytes (d : Int) (b : Nat) : Bool := decide (d ≥ (((b + 7) / 8 : Nat) : Int))

/-- Two-pass choice over capacities `D` (strictly increasing on 1..40) and bit demands `b v`
    (payload bits when the count indicator has the width of version `v`: monotone, total variation at
    most 8 bits): choosing with the demand of version 1, then again with the demand of that
    provisional version, gives the first version that fits with its own demand — or fails exactly
    when no version fits. -/
theorem two_pass (D : Nat → Int) (b : Nat → Nat)
    (hD : ∀ u v, 1 ≤ u → u < v → v ≤ 40 → D u < D v)
    (hw : ∀ u v, 1 ≤ u → u ≤ v → v ≤ 40 → b u ≤ b v) (hw8 : b 40 ≤ b 1 + 8) :
    (match firstFrom (fun v => fitsBytes (D v) (b 1)) 40 1 with
     | none => none
     | some p => firstFrom (fun v => fitsBytes (D v) (b p)) 40 1)
    = firstFrom (fun v => fitsBytes (D v) (b v)) 40 1 := by
  cases hp : firstFrom (fun v => fitsBytes (D v) (b 1)) 40 1 with
  | none =>
    simp only
    symm
    rw [firstFrom_none] at hp ⊢
    intro u h1 h2
    have := hp u h1 h2
    have hwu := hw 1 u (Nat.le_refl _) h1 (by omega)
    simp only [fitsBytes, decide_eq_false_iff_not] at this ⊢
    omega
  | some p =>
    simp only
    rw [firstFrom_some] at hp
    obtain ⟨hp1, hp2, hp3, hp4⟩ := hp
    have hw1p := hw 1 p (Nat.le_refl _) hp1 (by omega)
    have hwp40 := hw p 40 hp1 (by omega) (Nat.le_refl _)
    simp only [fitsBytes, decide_eq_true_eq] at hp3
    cases hf : firstFrom (fun v => fitsBytes (D v) (b p)) 40 1 with
    | none =>
      symm
      rw [firstFrom_none] at hf ⊢
      intro u h1 h2
      by_cases hup : p ≤ u
      · have := hf u h1 h2
        have hwu := hw p u hp1 hup (by omega)
        simp only [fitsBytes, decide_eq_false_iff_not] at this ⊢
        omega
      · have := hp4 u h1 (by omega)
        have hwu := hw 1 u (Nat.le_refl _) h1 (by omega)
        simp only [fitsBytes, decide_eq_false_iff_not] at this ⊢
        omega
    | some f =>
      symm
      rw [firstFrom_some] at hf ⊢
      obtain ⟨hf1, hf2, hf3, hf4⟩ := hf
      simp only [fitsBytes, decide_eq_true_eq] at hf3
      have hpf : p ≤ f := by
        by_cases h : p ≤ f
        · exact h
        · have := hp4 f hf1 (by omega)
          simp only [fitsBytes, decide_eq_false_iff_not] at this
          omega
      refine ⟨hf1, hf2, ?_, ?_⟩
      · simp only [fitsBytes, decide_eq_true_eq]
        by_cases hpf' : p = f
        · subst hpf'; exact hf3
        · have hnp := hf4 p hp1 (by omega)
          simp only [fitsBytes, decide_eq_false_iff_not] at hnp
          have hDpf := hD p f hp1 (by omega) (by omega)
          have hwf40 := hw f 40 hf1 (by omega) (Nat.le_refl _)
          omega
      · intro u h1 h2
        by_cases hup : p ≤ u
        · have := hf4 u h1 h2
          have hwu := hw p u hp1 hup (by omega)
          simp only [fitsBytes, decide_eq_false_iff_not] at this ⊢
          omega
        · have := hp4 u h1 (by omega)
          have hwu := hw 1 u (Nat.le_refl _) h1 (by omega)
          simp only [fitsBytes, decide_eq_false_iff_not] at this ⊢
          omega

/-! ## well-formed tables: the accessors cannot panic -/

/-- row of version `v` (1-based) -/
def rowOf (T : QRTables) (v : Nat) : VersionInfo := T.versions.getD (v - 1) default

/-- data bytes of (version, level): total codewords − EC codewords -/
def dataBytes (T : QRTables) (v : Nat) (ec : EC) : Int :=
  let r := rowOf T v
  (r.total : Int) - (totalECCodewords (r.ecBlocks.getD ec.idx (0, [])) : Int)

/-- count-indicator width of `m` in version `v` -/
def cbOf (T : QRTables) (m : Mode) (v : Nat) : Nat :=
  (T.counts m).getD (if v ≤ 9 then 0 else if v ≤ 26 then 1 else 2) 0

/-- 40 rows, row `i` carries version number `i+1` and four EC block lists; three count widths per mode -/
def wfB (T : QRTables) : Bool :=
  (List.range 40).all (fun i =>
    match T.versions[i]? with
    | some r => r.number == i + 1 && r.ecBlocks.length == 4
    | none => false) &&
  Mode.all.all (fun m => (T.counts m).length == 3)

/-- capacities strictly increase with the version; count widths grow with the version class by at
    most 8 bits in total -/
def monoB (T : QRTables) : Bool :=
  (List.range 39).all (fun i => EC.all.all (fun ec => decide (dataBytes T (i + 1) ec < dataBytes T (i + 2) ec))) &&
  Mode.all.all (fun m =>
    match T.counts m with
    | [a, b, c] => a ≤ b && b ≤ c && c ≤ a + 8
    | _ => false)

theorem mem_Mode_all (m : Mode) : m ∈ Mode.all := by cases m <;> simp [Mode.all]
theorem mem_EC_all (ec : EC) : ec ∈ EC.all := by cases ec <;> simp [EC.all]

theorem wf_row {T : QRTables} (h : wfB T = true) {v : Nat} (h1 : 1 ≤ v) (h40 : v ≤ 40) :
    T.versions[v - 1]? = some (rowOf T v) ∧ (rowOf T v).number = v ∧ (rowOf T v).ecBlocks.length = 4 := by
  unfold wfB at h
  rw [Bool.and_eq_true, List.all_eq_true] at h
  have := h.1 (v - 1) (List.mem_range.mpr (by omega))
  unfold rowOf
  cases hr : T.versions[v - 1]? with
  | none => rw [hr] at this; cases this
  | some r =>
    rw [hr] at this
    simp only [Bool.and_eq_true, beq_iff_eq] at this
    have hg : T.versions.getD (v - 1) default = r := by
      rw [List.getD_eq_getElem?_getD, hr]; rfl
    rw [hg]
    exact ⟨rfl, by omega, this.2⟩

theorem wf_counts {T : QRTables} (h : wfB T = true) (m : Mode) : (T.counts m).length = 3 := by
  unfold wfB at h
  rw [Bool.and_eq_true, List.all_eq_true, List.all_eq_true] at h
  simpa using h.2 m (mem_Mode_all m)

theorem getVersion_ok {T : QRTables} (h : wfB T = true) {v : Nat} (h1 : 1 ≤ v) (h40 : v ≤ 40) :
    getVersionForNumber T (v : Int) = .ok (rowOf T v) := by
  unfold getVersionForNumber
  have hn : ¬ ((v : Int) < 1 ∨ (v : Int) > 40) := by omega
  simp only [hn, if_false]
  have : ((v : Int) - 1).toNat = v - 1 := by omega
  rw [this, (wf_row h h1 h40).1]

theorem numDataBytes_ok {T : QRTables} (h : wfB T = true) {v : Nat} (h1 : 1 ≤ v) (h40 : v ≤ 40) (ec : EC) :
    numDataBytes (rowOf T v) ec = .ok (dataBytes T v ec) := by
  unfold numDataBytes ecBlocksForLevel dataBytes
  have hl := (wf_row h h1 h40).2.2
  have hi : ec.idx < (rowOf T v).ecBlocks.length := by rw [hl]; cases ec <;> decide
  rw [List.getElem?_eq_getElem hi]
  simp only [bind, Except.bind, pure, Except.pure]
  rw [List.getD_eq_getElem?_getD, List.getElem?_eq_getElem hi]
  rfl

theorem characterCountBits_ok {T : QRTables} (h : wfB T = true) (m : Mode) {v : Nat} (h1 : 1 ≤ v) (h40 : v ≤ 40) :
    characterCountBits T m (rowOf T v) = .ok (cbOf T m v) := by
  unfold characterCountBits cbOf
  rw [(wf_row h h1 h40).2.1]
  have hl := wf_counts h m
  have hi : (if v ≤ 9 then 0 else if v ≤ 26 then 1 else 2) < (T.counts m).length := by
    rw [hl]; split
    · decide
    · split <;> decide
  dsimp only
  rw [List.getElem?_eq_getElem hi, List.getD_eq_getElem?_getD, List.getElem?_eq_getElem hi]
  rfl

theorem willFit_ok {T : QRTables} (h : wfB T = true) {v : Nat} (h1 : 1 ≤ v) (h40 : v ≤ 40) (ec : EC) (bits : Nat) :
    willFit bits (rowOf T v) ec = .ok (fitsBytes (dataBytes T v ec) bits) := by
  unfold willFit
  rw [numDataBytes_ok h h1 h40]
  rfl

theorem calculateBitsNeeded_ok {T : QRTables} (h : wfB T = true) (m : Mode) (hdr data : Nat) {v : Nat}
    (h1 : 1 ≤ v) (h40 : v ≤ 40) :
    calculateBitsNeeded T m hdr data (rowOf T v) = .ok (hdr + cbOf T m v + data) := by
  unfold calculateBitsNeeded
  rw [characterCountBits_ok h m h1 h40]
  rfl

/-- `chooseVersion`'s loop is `firstFrom` -/
theorem chooseVersionLoop_eq {T : QRTables} (h : wfB T = true) (bits : Nat) (ec : EC) (fuel cur : Nat)
    (h1 : 1 ≤ cur) (hsum : cur + fuel = 41) :
    chooseVersionLoop T bits ec fuel cur =
      match firstFrom (fun v => fitsBytes (dataBytes T v ec) bits) fuel cur with
      | some v => .ok (rowOf T v)
      | none => .error .writer := by
  induction fuel generalizing cur with
  | zero => rfl
  | succ f ih =>
    unfold chooseVersionLoop firstFrom
    rw [getVersion_ok h h1 (by omega)]
    simp only [bind, Except.bind, pure, Except.pure]
    rw [willFit_ok h h1 (by omega)]
    simp only
    cases hfit : fitsBytes (dataBytes T cur ec) bits
    · simp only [Bool.false_eq_true, if_false]
      exact ih (cur + 1) (by omega) (by omega)
    · simp only [if_true]

theorem chooseVersion_eq {T : QRTables} (h : wfB T = true) (bits : Nat) (ec : EC) :
    chooseVersion T bits ec =
      match firstFrom (fun v => fitsBytes (dataBytes T v ec) bits) 40 1 with
      | some v => .ok (rowOf T v)
      | none => .error .writer :=
  chooseVersionLoop_eq h bits ec 40 1 (Nat.le_refl _) rfl

/-! ## monotone tables -/

theorem mono_D {T : QRTables} (h : monoB T = true) (ec : EC) :
    ∀ u v, 1 ≤ u → u < v → v ≤ 40 → dataBytes T u ec < dataBytes T v ec := by
  unfold monoB at h
  rw [Bool.and_eq_true, List.all_eq_true] at h
  have step : ∀ i, 1 ≤ i → i < 40 → dataBytes T i ec < dataBytes T (i + 1) ec := by
    intro i h1 h2
    have := h.1 (i - 1) (List.mem_range.mpr (by omega))
    rw [List.all_eq_true] at this
    have := this ec (mem_EC_all ec)
    have e1 : i - 1 + 1 = i := by omega
    have e2 : i - 1 + 2 = i + 1 := by omega
    rw [e1, e2] at this
    simpa using this
  intro u v hu huv hv
  induction v with
  | zero => omega
  | succ v ih =>
    by_cases huv' : u = v
    · rw [huv']; exact step v (by omega) (by omega)
    · exact Int.lt_trans (ih (by omega) (by omega)) (step v (by omega) (by omega))

theorem mono_w {T : QRTables} (h : monoB T = true) (m : Mode) :
    (∀ u v, 1 ≤ u → u ≤ v → v ≤ 40 → cbOf T m u ≤ cbOf T m v) ∧ cbOf T m 40 ≤ cbOf T m 1 + 8 := by
  unfold monoB at h
  rw [Bool.and_eq_true, List.all_eq_true, List.all_eq_true] at h
  have := h.2 m (mem_Mode_all m)
  unfold cbOf
  match hc : T.counts m, this with
  | [a, b, c], this =>
    simp only [Bool.and_eq_true, decide_eq_true_eq] at this
    obtain ⟨⟨hab, hbc⟩, hca⟩ := this
    constructor
    · intro u v _ huv _
      by_cases h9 : u ≤ 9 <;> by_cases h9' : v ≤ 9 <;> by_cases h26 : u ≤ 26 <;> by_cases h26' : v ≤ 26 <;>
        simp [h9, h9', h26, h26'] <;> omega
    · simp; omega

end Gzx.QRVersionChoice
