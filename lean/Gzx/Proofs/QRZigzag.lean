/-
  The placement order of the reference construction visits every module outside the vertical
  timing column exactly once; hence `zigzag v` enumerates every data module exactly once.
-/
import Gzx.Ref.QR
namespace Gzx.QRRef

theorem mem_columnPair {n xr : Nat} {up : Bool} {x y : Nat} :
    (x, y) ∈ columnPair n xr up ↔ y < n ∧ (x = xr ∨ x = xr - 1) := by
  unfold columnPair
  simp only [List.mem_flatMap, List.mem_cons, Prod.mk.injEq, List.not_mem_nil, or_false]
  constructor
  · rintro ⟨y', hy', h⟩
    have hy'' : y' < n := by cases up <;> simpa using hy'
    rcases h with ⟨rfl, rfl⟩ | ⟨rfl, rfl⟩ <;> exact ⟨hy'', by simp⟩
  · rintro ⟨hy, h⟩
    refine ⟨y, by cases up <;> simp [hy], ?_⟩
    rcases h with rfl | rfl <;> simp

theorem nodup_columnPair {n xr : Nat} {up : Bool} (hx : 0 < xr) : (columnPair n xr up).Nodup := by
  unfold columnPair
  rw [List.nodup_iff_pairwise_ne, List.pairwise_flatMap]
  constructor
  · intro y _
    have : ¬ xr = xr - 1 := by omega
    simp [this]
  · have h : ∀ l : List Nat, l.Nodup →
        l.Pairwise (fun a₁ a₂ => ∀ p ∈ [(xr, a₁), (xr - 1, a₁)], ∀ q ∈ [(xr, a₂), (xr - 1, a₂)], p ≠ q) := by
      intro l hl
      refine List.Pairwise.imp ?_ hl
      intro a b hab p hp q hq
      simp only [List.mem_cons, List.not_mem_nil, or_false] at hp hq
      rcases hp with rfl | rfl <;> rcases hq with rfl | rfl <;> simp [hab]
    cases up
    · exact h _ List.nodup_range
    · refine h _ ?_
      simp only [if_true]
      rw [List.nodup_iff_pairwise_ne, List.pairwise_reverse]
      exact List.Pairwise.imp (fun h => (Ne.symm h)) List.nodup_range

theorem pairColumn_pos {n k : Nat} (hn : n % 2 = 1) (hk : k < (n - 1) / 2) : 0 < pairColumn n k := by
  unfold pairColumn; split <;> omega

/-- membership in the full placement order: every module except column 6 -/
theorem mem_zigzagAll {n x y : Nat} (hn : n % 2 = 1) (h9 : 9 ≤ n) :
    (x, y) ∈ zigzagAll n ↔ x < n ∧ y < n ∧ x ≠ 6 := by
  unfold zigzagAll
  simp only [List.mem_flatMap, List.mem_range, mem_columnPair]
  constructor
  · rintro ⟨k, hk, hy, hx⟩
    refine ⟨?_, hy, ?_⟩ <;> (unfold pairColumn at hx; split at hx <;> omega)
  · rintro ⟨hx, hy, h6⟩
    by_cases h7 : 7 ≤ x
    · refine ⟨(n - 1 - x) / 2, by omega, hy, ?_⟩
      unfold pairColumn; split <;> omega
    · refine ⟨(n - 2 - x) / 2, by omega, hy, ?_⟩
      unfold pairColumn; split <;> omega

theorem nodup_zigzagAll {n : Nat} (hn : n % 2 = 1) : (zigzagAll n).Nodup := by
  unfold zigzagAll
  rw [List.nodup_iff_pairwise_ne, List.pairwise_flatMap]
  constructor
  · intro k hk
    exact nodup_columnPair (pairColumn_pos hn (List.mem_range.mp hk))
  · have hr : (List.range ((n - 1) / 2)).Pairwise (fun a b => a < b ∧ b < (n - 1) / 2) := by
      have h1 := @List.pairwise_lt_range ((n - 1) / 2)
      rw [List.pairwise_iff_forall_sublist] at h1 ⊢
      intro a b hab
      refine ⟨h1 hab, ?_⟩
      have : b ∈ List.range ((n - 1) / 2) := hab.subset (by simp)
      exact List.mem_range.mp this
    refine List.Pairwise.imp ?_ hr
    rintro a b ⟨hab, hb⟩ ⟨x1, y1⟩ h1 ⟨x2, y2⟩ h2
    rw [mem_columnPair] at h1 h2
    intro heq
    simp only [Prod.mk.injEq] at heq
    obtain ⟨rfl, rfl⟩ := heq
    obtain ⟨_, h1⟩ := h1
    obtain ⟨_, h2⟩ := h2
    unfold pairColumn at h1 h2
    split at h1 <;> split at h2 <;> omega

/-- column 6 (the vertical timing pattern and what it crosses) is never a data module -/
theorem isFunction_col6 (v y : Nat) : isFunction v 6 y = true := by
  unfold isFunction regionOf
  simp only []
  repeat' split
  all_goals simp_all

theorem odd_dimension (v : Nat) : dimension v % 2 = 1 := by unfold dimension; omega
theorem dimension_ge (v : Nat) : 9 ≤ dimension v := by unfold dimension; omega

theorem nodup_zigzag (v : Nat) : (zigzag v).Nodup :=
  List.Nodup.sublist List.filter_sublist (nodup_zigzagAll (odd_dimension v))

theorem mem_zigzag (v x y : Nat) :
    (x, y) ∈ zigzag v ↔ x < dimension v ∧ y < dimension v ∧ isFunction v x y = false := by
  unfold zigzag
  rw [List.mem_filter, mem_zigzagAll (odd_dimension v) (dimension_ge v)]
  simp only [Bool.not_eq_eq_eq_not, Bool.not_true]
  constructor
  · rintro ⟨⟨hx, hy, _⟩, hf⟩; exact ⟨hx, hy, hf⟩
  · rintro ⟨hx, hy, hf⟩
    refine ⟨⟨hx, hy, ?_⟩, hf⟩
    rintro rfl
    rw [isFunction_col6] at hf
    cases hf

/-! ### counting the data modules row by row (cheap to evaluate in the kernel) -/

/-- number of `x < k` with `p x y = false` -/
def cntRow (p : Nat → Nat → Bool) (y : Nat) : Nat → Nat
  | 0 => 0
  | x + 1 => (if p x y then 0 else 1) + cntRow p y x

/-- number of cells `(x, y)`, `x < n`, `y < k`, with `p x y = false` -/
def cntGrid (p : Nat → Nat → Bool) (n : Nat) : Nat → Nat
  | 0 => 0
  | y + 1 => cntRow p y n + cntGrid p n y

/-- number of data modules of version `v`, counted over the grid -/
def dataCount (v : Nat) : Nat := cntGrid (fun x y => isFunction v x y) (dimension v) (dimension v)

def rowCells (p : Nat → Nat → Bool) (n y : Nat) : List (Nat × Nat) :=
  ((List.range n).filter (fun x => !p x y)).map (fun x => (x, y))

def gridCells (p : Nat → Nat → Bool) (n k : Nat) : List (Nat × Nat) :=
  (List.range k).flatMap (rowCells p n)

theorem cntRow_eq (p : Nat → Nat → Bool) (y k : Nat) :
    cntRow p y k = ((List.range k).filter (fun x => !p x y)).length := by
  induction k with
  | zero => rfl
  | succ k ih =>
    rw [cntRow, ih, List.range_succ, List.filter_append, List.length_append]
    cases h : p k y <;> simp [h] <;> omega

theorem cntGrid_eq (p : Nat → Nat → Bool) (n k : Nat) :
    cntGrid p n k = (gridCells p n k).length := by
  induction k with
  | zero => rfl
  | succ k ih =>
    rw [cntGrid, ih, gridCells, gridCells, List.range_succ, List.flatMap_append, List.length_append]
    simp only [List.flatMap_cons, List.flatMap_nil, List.append_nil]
    rw [rowCells, List.length_map, cntRow_eq]
    omega

theorem mem_gridCells (p : Nat → Nat → Bool) (n k x y : Nat) :
    (x, y) ∈ gridCells p n k ↔ y < k ∧ x < n ∧ p x y = false := by
  unfold gridCells rowCells
  simp only [List.mem_flatMap, List.mem_range, List.mem_map, List.mem_filter, Prod.mk.injEq,
    Bool.not_eq_eq_eq_not, Bool.not_true]
  constructor
  · rintro ⟨y', hy', x', ⟨hx', hp⟩, rfl, rfl⟩
    exact ⟨hy', hx', hp⟩
  · rintro ⟨hy, hx, hp⟩
    exact ⟨y, hy, x, ⟨hx, hp⟩, rfl, rfl⟩

theorem nodup_gridCells (p : Nat → Nat → Bool) (n k : Nat) : (gridCells p n k).Nodup := by
  unfold gridCells
  rw [List.nodup_iff_pairwise_ne, List.pairwise_flatMap]
  constructor
  · intro y _
    unfold rowCells
    rw [List.pairwise_map]
    refine List.Pairwise.imp ?_ (List.Pairwise.filter _ List.nodup_range)
    intro a b hab h
    simp only [Prod.mk.injEq, and_true] at h
    exact hab h
  · refine List.Pairwise.imp ?_ (@List.nodup_range k)
    intro a b hab c hc d hd
    unfold rowCells at hc hd
    simp only [List.mem_map, List.mem_filter] at hc hd
    obtain ⟨_, _, rfl⟩ := hc
    obtain ⟨_, _, rfl⟩ := hd
    intro h
    simp only [Prod.mk.injEq] at h
    exact hab h.2

theorem length_eq_of_nodup_of_mem_iff {α} {l₁ l₂ : List α} (h₁ : l₁.Nodup) (h₂ : l₂.Nodup)
    (h : ∀ a, a ∈ l₁ ↔ a ∈ l₂) : l₁.length = l₂.length :=
  Nat.le_antisymm (h₁.length_le_of_subset (fun a ha => (h a).mp ha))
    (h₂.length_le_of_subset (fun a ha => (h a).mpr ha))

/-- the placement order has as many cells as the grid has data modules -/
theorem zigzag_length (v : Nat) : (zigzag v).length = dataCount v := by
  unfold dataCount
  rw [cntGrid_eq]
  apply length_eq_of_nodup_of_mem_iff (nodup_zigzag v) (nodup_gridCells _ _ _)
  rintro ⟨x, y⟩
  rw [mem_zigzag, mem_gridCells]
  constructor
  · rintro ⟨hx, hy, hf⟩; exact ⟨hy, hx, hf⟩
  · rintro ⟨hy, hx, hf⟩; exact ⟨hx, hy, hf⟩

end Gzx.QRRef
