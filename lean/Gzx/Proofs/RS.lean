/-
  Divide, the generator polynomial, Encode and the clean path of Decode (Model/RS.lean) under
  `FieldOK F`.  Helper lemmas for Properties/C04.lean.  Core Lean only.
-/
import Gzx.Proofs.PolyOps
namespace Gzx.Proofs.RS
open Gzx Gzx.GF Gzx.RS Gzx.Ref.GF Gzx.Proofs.GF Gzx.Proofs.Poly

section F
variable {F : GF} (hF : FieldOK F)
include hF

/-! ### Divide -/

/-- the division loop: terminates within the fuel, the remainder is shorter than the divisor (or zero)
    and agrees with the dividend at every root of the divisor -/
theorem divLoop_spec (oh : Nat) (ot : List Nat) (hother : WF F.size (oh :: ot)) (hoh : oh ≠ 0)
    (inv : Nat) (hinv : inv < F.size) (hmul : gmul F.prim oh inv = 1) :
    ∀ (fuel : Nat) (q rem : List Nat), WF F.size q → WF F.size rem →
      (if rem = [0] then 1 else rem.length + 1) ≤ fuel →
      ∃ q' r', divLoop F (oh :: ot) inv fuel q rem = .ok (q', r') ∧ WF F.size r' ∧
        (r'.length < (oh :: ot).length ∨ r' = [0]) ∧
        ∀ a, a < F.size → evalH F.prim a (oh :: ot) = 0 → evalH F.prim a r' = evalH F.prim a rem
  | 0, _, rem, _, _, hfuel => by
    exfalso
    split at hfuel <;> omega
  | fuel + 1, q, rem, hq, hrem, hfuel => by
    unfold divLoop
    by_cases hcond : (decide (degree rem ≥ degree (oh :: ot)) && !isZero rem) = true
    · rw [if_pos hcond]
      simp only [Bool.and_eq_true, decide_eq_true_eq, Bool.not_eq_true'] at hcond
      obtain ⟨hdeg, hnz⟩ := hcond
      -- rem = rh :: rt with rh ≠ 0
      have hne0 : rem ≠ [0] := fun h => by rw [h] at hnz; simp [isZero] at hnz
      obtain ⟨rh, rt, rfl, hrh⟩ : ∃ c r, rem = c :: r ∧ c ≠ 0 := by
        rcases hrem.2 with h | h
        · exact absurd h hne0
        · exact h
      have hrh_lt : rh < F.size := hrem.1.head
      have hoh_lt : oh < F.size := hother.1.head
      have hinv0 : inv ≠ 0 := by
        intro h; rw [h, gmul_zero_right hF.2] at hmul; exact absurd hmul (by decide)
      -- scale
      have hscale_lt : gmul F.prim rh inv < F.size := gmul_lt hF.2 _ _
      have hscale0 : gmul F.prim rh inv ≠ 0 := by
        intro h
        rcases gmul_eq_zero hF.2 rh inv hrh_lt hinv h with h | h
        · exact hrh h
        · exact hinv0 h
      have hlead : gmul F.prim (gmul F.prim rh inv) oh = rh := by
        rw [gmul_assoc hF.2 rh inv oh hrh_lt hinv hoh_lt, gmul_comm hF.2 inv oh hinv hoh_lt, hmul,
          gmul_one_right hF.2 rh hrh_lt]
      simp only [degree, List.length_cons, Nat.add_sub_cancel] at hdeg
      obtain ⟨term, hterm, hterm_wf, hterm_ev, hterm_shape⟩ :=
        multiplyByMonomial_spec hF (oh :: ot) hother (degree (rh :: rt) - degree (oh :: ot)) _ hscale_lt
      have hshape := hterm_shape oh ot rfl (by rw [hlead]; exact hrh)
      rw [hlead] at hshape
      obtain ⟨iq, hiq, hiq_wf⟩ := buildMonomial_spec hF (degree (rh :: rt) - degree (oh :: ot)) _ hscale_lt
      obtain ⟨q', hq', hq'_wf, _, _⟩ := addOrSubtract_spec hF q iq hq hiq_wf
      obtain ⟨r', hr', hr'_wf, _, hr'_ev⟩ := addOrSubtract_spec hF (rh :: rt) term hrem hterm_wf
      have htl : rt.length = (List.map (gmul F.prim (gmul F.prim rh inv)) ot ++
          List.replicate (degree (rh :: rt) - degree (oh :: ot)) 0).length := by
        simp [degree]; omega
      have hcancel := addOrSubtract_cancel rh rt _ hrh htl
      rw [← hshape, hr'] at hcancel
      have hr'_eq := Except.ok.inj hcancel
      rw [getCoefficient_lead]
      simp only [bind, Except.bind, F_mul hF rh inv hrh_lt hinv, hterm, hiq, hq', hr']
      -- fuel for the recursive call
      have hfuel' : (if r' = [0] then 1 else r'.length + 1) ≤ fuel := by
        rw [if_neg hne0] at hfuel
        simp only [List.length_cons] at hfuel
        split
        · omega
        · rename_i hr0
          have hlen := normalize_length_le' (List.zipWith (· ^^^ ·) rt
            (List.map (gmul F.prim (gmul F.prim rh inv)) ot ++
              List.replicate (degree (rh :: rt) - degree (oh :: ot)) 0))
          rw [← hr'_eq, List.length_zipWith, ← htl, Nat.min_self] at hlen
          cases rt with
          | nil =>
            exfalso
            apply hr0
            rw [hr'_eq]
            simp [normalize]
          | cons x xs =>
            simp only [List.length_cons] at hlen hfuel
            omega
      obtain ⟨q'', r'', hrec, hwf, hlen, hev⟩ := divLoop_spec oh ot hother hoh inv hinv hmul fuel q' r' hq'_wf hr'_wf hfuel'
      refine ⟨q'', r'', hrec, hwf, hlen, ?_⟩
      intro a ha hroot
      rw [hev a ha hroot, hr'_ev a ha, hterm_ev a ha, hroot, gmul_zero_right hF.2, gmul_zero_right hF.2,
        Nat.xor_zero]
    · rw [if_neg hcond]
      refine ⟨q, rem, rfl, hrem, ?_, fun _ _ _ => rfl⟩
      simp only [Bool.and_eq_true, decide_eq_true_eq, Bool.not_eq_true', not_and, Bool.not_eq_false] at hcond
      by_cases hdeg : degree rem ≥ degree (oh :: ot)
      · right
        exact (isZero_iff hrem.2).1 (hcond hdeg)
      · left
        have := List.length_pos_iff.2 hrem.2.ne_nil
        simp only [degree, List.length_cons, Nat.add_sub_cancel] at hdeg ⊢
        omega

/-- `Divide(other)` for a non-zero divisor -/
theorem divide_spec (p : List Nat) (hp : WF F.size p) (oh : Nat) (ot : List Nat)
    (hother : WF F.size (oh :: ot)) (hoh : oh ≠ 0) :
    ∃ q r, divide F p (oh :: ot) = .ok (q, r) ∧ WF F.size r ∧
      (r.length < (oh :: ot).length ∨ r = [0]) ∧
      ∀ a, a < F.size → evalH F.prim a (oh :: ot) = 0 → evalH F.prim a r = evalH F.prim a p := by
  unfold divide
  rw [isZero_false hoh]
  simp only [Bool.false_eq_true, if_false]
  obtain ⟨v, hv, hvlt, _, hmul⟩ := F_inv hF oh hoh hother.1.head
  rw [getCoefficient_lead]
  simp only [bind, Except.bind, hv]
  have hfuel : (if p = [0] then 1 else p.length + 1) ≤ p.length + 1 := by
    split <;> omega
  exact divLoop_spec hF oh ot hother hoh v hvlt hmul (p.length + 1) [0] p (wf_zero (size_pos hF)) hp hfuel

/-! ### generator polynomial -/

/-- `buildGenerator(n)` is monic of degree `n` and vanishes at `α^(i+base)`, `i < n` -/
theorem buildGenerator_spec : ∀ (n : Nat), n + F.base ≤ F.size →
    ∃ gt, buildGenerator F n = .ok (1 :: gt) ∧ InR F.size (1 :: gt) ∧ gt.length = n ∧
      ∀ i, i < n → evalH F.prim (pw F.prim F.size (i + F.base)) (1 :: gt) = 0
  | 0, _ => ⟨[], rfl, InR.cons (one_lt_size hF.2) InR.nil, rfl, fun i hi => by omega⟩
  | n + 1, hn => by
    obtain ⟨gt, hg, hgin, hglen, hgroots⟩ := buildGenerator_spec n (by omega)
    unfold buildGenerator
    rw [hg, F_exp hF (n + F.base) (by omega)]
    simp only [bind, Except.bind]
    have he := pw_lt hF.2 (n + F.base)
    rw [mkPoly_ok _ (by simp), normalize_of_head_ne_zero _ _ (by decide)]
    have hwf1 : WF F.size (1 :: gt) := ⟨hgin, Or.inr ⟨1, gt, rfl, by decide⟩⟩
    have hwf2 : WF F.size [1, pw F.prim F.size (n + F.base)] :=
      ⟨InR.cons (one_lt_size hF.2) (InR.cons he InR.nil), Or.inr ⟨1, _, rfl, by decide⟩⟩
    obtain ⟨r, hr, hrwf, hrev, hrshape⟩ := multiply_spec hF _ _ hwf1 hwf2
    obtain ⟨hrlen, hrhead⟩ := hrshape gt _ rfl rfl
    simp only
    rw [hr]
    cases r with
    | nil => simp at hrhead
    | cons c cs =>
      simp only [List.head?_cons, Option.some.injEq] at hrhead
      subst hrhead
      refine ⟨cs, rfl, hrwf.1, ?_, ?_⟩
      · simp only [List.length_cons, List.length_nil, hglen] at hrlen; omega
      · intro i hi
        have hai := pw_lt hF.2 (i + F.base)
        rw [hrev _ hai]
        by_cases hin : i < n
        · rw [hgroots i hin, gmul_zero_left hF.2 _ (evalH_lt hF.2 _ _ hwf2.1)]
        · have : i = n := by omega
          subst this
          have : evalH F.prim (pw F.prim F.size (i + F.base)) [1, pw F.prim F.size (i + F.base)] = 0 := by
            unfold evalH
            rw [evalFrom_cons, evalFrom_cons, evalFrom_nil, gmul_zero_right hF.2, Nat.zero_xor,
              gmul_one_right hF.2 _ he, Nat.xor_self]
          rw [this, gmul_zero_right hF.2]

/-! ### Encode -/

/-- `Encode(data ++ tail, r)`: data kept, `r` parity symbols appended, the word vanishes at every
    `α^(i+base)`, `i < r` -/
theorem encodeArr_spec (data tail : List Nat) (r : Nat) (hk : data ≠ []) (hr : 0 < r) (htl : tail.length = r)
    (hd : InR F.size data) (hb : r + F.base ≤ F.size) :
    ∃ par, encodeArr F (data ++ tail) r = .ok (data ++ par) ∧ par.length = r ∧ InR F.size par ∧
      ∀ i, i < r → evalH F.prim (pw F.prim F.size (i + F.base)) (data ++ par) = 0 := by
  have hkl : 0 < data.length := List.length_pos_iff.2 hk
  obtain ⟨gt, hgen, hgin, hglen, hgroots⟩ := buildGenerator_spec hF r hb
  have hgwf : WF F.size (1 :: gt) := ⟨hgin, Or.inr ⟨1, gt, rfl, by decide⟩⟩
  have hinfo0 : WF F.size (normalize data) := wf_normalize (size_pos hF) data hd
  obtain ⟨info, hinfo, hinfo_wf, hinfo_ev, _⟩ :=
    multiplyByMonomial_spec hF (normalize data) hinfo0 r 1 (one_lt_size hF.2)
  obtain ⟨q, rem, hdiv, hrem_wf, hrem_len, hrem_ev⟩ := divide_spec hF info hinfo_wf 1 gt hgwf (by decide)
  have hreml : rem.length ≤ r := by
    rcases hrem_len with h | h
    · simp only [List.length_cons, hglen] at h; omega
    · rw [h]; show 1 ≤ r; omega
  have hrem_pos : 0 < rem.length := List.length_pos_iff.2 hrem_wf.2.ne_nil
  unfold encodeArr
  have h1 : ¬ r = 0 := by omega
  have h2 : ¬ (data ++ tail).length ≤ r := by rw [List.length_append]; omega
  have hk' : (data ++ tail).length - r = data.length := by rw [List.length_append]; omega
  have htk : List.take data.length (data ++ tail) = data := List.take_left' rfl
  have h3 : ¬ rem.length > (data ++ tail).length := by rw [List.length_append]; omega
  have hmin : min data.length ((data ++ tail).length - rem.length) = data.length := by
    rw [List.length_append]; omega
  rw [if_neg h1, if_neg h2, hk']
  simp only [htk, hgen, mkPoly_ok data hk, bind, Except.bind, hinfo, hdiv, if_neg h3, hmin, List.append_assoc]
  refine ⟨_, rfl, ?_, InR.append (InR.replicate (size_pos hF)) hrem_wf.1, ?_⟩
  · rw [List.length_append, List.length_replicate, List.length_append]; omega
  · intro i hi
    have ha := pw_lt hF.2 (i + F.base)
    have hparlen : (List.replicate ((data ++ tail).length - rem.length - data.length) 0 ++ rem).length = r := by
      rw [List.length_append, List.length_replicate, List.length_append]; omega
    rw [evalH_append hF.2 _ ha data _ hd (InR.append (InR.replicate (size_pos hF)) hrem_wf.1), hparlen,
      evalH_zeros_append hF, hrem_ev _ ha (hgroots i hi), hinfo_ev _ ha, evalH_normalize hF.2,
      gmul_one_left hF.2 _ (evalH_lt hF.2 _ _ hd), Nat.xor_self]

/-! ### syndromes, clean decode -/

theorem syndromes_spec (poly : List Nat) (hne : poly ≠ []) (hin : InR F.size poly) : ∀ (n i : Nat),
    i + n + F.base ≤ F.size →
    syndromes F poly n i =
      .ok ((List.range' i n).map (fun j => evalH F.prim (pw F.prim F.size (j + F.base)) poly))
  | 0, _, _ => rfl
  | n + 1, i, h => by
    unfold syndromes
    rw [F_exp hF (i + F.base) (by omega)]
    simp only [bind, Except.bind]
    rw [evaluateAt_ok hF poly hne hin _ (pw_lt hF.2 _), syndromes_spec poly hne hin n (i + 1) (by omega)]
    rfl

/-- a word whose syndromes all vanish passes `Decode` unchanged -/
theorem decodeD_clean (w : List Nat) (hne : w ≠ []) (hin : InR F.size w) (twoS : Nat)
    (hb : twoS + F.base ≤ F.size)
    (hz : ∀ i, i < twoS → evalH F.prim (pw F.prim F.size (i + F.base)) w = 0) :
    decodeD F w twoS = .ok w := by
  unfold decodeD
  rw [mkPoly_ok w hne]
  simp only [liftD, bind, Except.bind]
  rw [syndromes_spec hF _ (normalize_ne_nil w) (InR_normalize (size_pos hF) w hin) twoS 0 (by omega)]
  simp only
  have : (List.map (fun j => evalH F.prim (pw F.prim F.size (j + F.base)) (normalize w)) (List.range' 0 twoS)).all
      (· == 0) = true := by
    rw [List.all_eq_true]
    intro x hx
    obtain ⟨j, hj, rfl⟩ := List.mem_map.1 hx
    rw [evalH_normalize hF.2, hz j (by have := List.mem_range'_1.1 hj; omega)]
    rfl
  rw [if_pos this]

end F
end Gzx.Proofs.RS
