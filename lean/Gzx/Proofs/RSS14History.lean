/-
  wp rowsrest — the pair history of the RSS-14 reader: counts, and why a fresh reader needs three sightings.
-/
import Gzx.Proofs.RSS14Total4
namespace Gzx.Proofs.RSS14Total
open Gzx Gzx.Det Gzx.RSS14

def AllCountLe (n : Nat) (ps : List Pair) : Prop := ∀ p ∈ ps, p.count ≤ n

theorem tally_counts {v : Int} : ∀ {ps ps' : List Pair} {n : Nat}, tally v ps = some ps' → AllCountLe n ps →
    AllCountLe (n + 1) ps'
  | [], _, _, h, _ => by simp [tally] at h
  | p :: ps, ps', n, h, hc => by
    unfold tally at h
    split at h
    · cases h
      intro q hq
      simp only [List.mem_cons] at hq
      rcases hq with rfl | hq
      · have := hc p (by simp); simp only []; omega
      · have := hc q (by simp [hq]); omega
    · cases ht : tally v ps with
      | none => rw [ht] at h; simp at h
      | some r =>
        rw [ht] at h
        simp only [Option.map_some, Option.some.injEq] at h
        subst h
        have ih := tally_counts ht (fun q hq => hc q (by simp [hq]))
        intro q hq
        simp only [List.mem_cons] at hq
        rcases hq with rfl | hq
        · have := hc q (by simp); omega
        · exact ih q hq

theorem addOrTally_counts {ps : List Pair} {n : Nat} (hc : AllCountLe n ps) (p : Option Pair)
    (hp : ∀ q, p = some q → q.count = 0) : AllCountLe (n + 1) (addOrTally ps p) := by
  unfold addOrTally
  cases p with
  | none => intro q hq; have := hc q hq; omega
  | some q =>
    simp only []
    cases ht : tally q.value ps with
    | some r => exact tally_counts ht hc
    | none =>
      intro x hx
      simp only [List.mem_append, List.mem_singleton] at hx
      rcases hx with hx | rfl
      · have := hc x hx; omega
      · rw [hp x rfl]; omega

theorem addOrTally_nil (p : Option Pair) (hp : ∀ q, p = some q → q.count = 0) : AllCountLe 0 (addOrTally [] p) := by
  unfold addOrTally
  cases p with
  | none => intro q hq; simp at hq
  | some q =>
    simp only [tally]
    intro x hx
    simp only [List.nil_append, List.mem_singleton] at hx
    subst hx
    rw [hp x rfl]; omega

theorem findMatch_count {rights : List Pair} : ∀ {lefts : List Pair} {l r : Pair},
    findMatch rights lefts = some (l, r) → l ∈ lefts ∧ l.count > 1
  | [], _, _, h => by simp [findMatch] at h
  | x :: xs, l, r, h => by
    unfold findMatch at h
    split at h
    · rename_i hx
      split at h
      · cases h; exact ⟨by simp, hx⟩
      · have := findMatch_count h; exact ⟨by simp [this.1], this.2⟩
    · have := findMatch_count h; exact ⟨by simp [this.1], this.2⟩

section
variable {F : Type} (o : FOps F)

/-- a pair delivered by `decodePair` is new: count 0 -/
theorem decodePair_count (T : Tables) (row : List Bool) (right : Bool) (rn : Int) (cb : Bool) (q : Pair)
    (h : (decodePair o T row right rn cb).2 = .ok (some q)) : q.count = 0 := by
  unfold decodePair at h
  repeat' split at h
  all_goals first
    | (cases h; done)
    | (simp only [Except.ok.injEq, Option.some.injEq] at h; subst h; rfl)
    | (simp at h)

/-- all left counts ≤ 1 after the tally: no left pair qualifies, the call is NotFound -/
theorem decodeRow_notFound_of_counts (T : Tables) (wf : WFRSS T) (st : State) (rn : Int) (row : List Bool) (cb : Bool)
    (hc : AllCountLe 0 st.left) :
    (decodeRow o T st rn row cb).2.2 = .error .notFound ∧ AllCountLe 1 (decodeRow o T st rn row cb).1.left := by
  unfold decodeRow
  obtain ⟨lp, hlp⟩ := decodePair_ok o T wf row false rn cb
  obtain ⟨rp, hrp⟩ := decodePair_ok o T wf row.reverse true rn cb
  have hl1 : AllCountLe 1 (addOrTally st.left lp) :=
    addOrTally_counts hc lp (fun q hq => decodePair_count o T row false rn cb q (by rw [hlp, hq]))
  simp only [hlp, hrp]
  refine ⟨?_, hl1⟩
  split
  · rename_i l r hm
    have := findMatch_count hm
    have := hl1 l this.1
    omega
  · rfl

/-- from the empty history: the first call leaves counts 0 -/
theorem decodeRow_empty_counts (T : Tables) (wf : WFRSS T) (rn : Int) (row : List Bool) (cb : Bool) :
    AllCountLe 0 (decodeRow o T State.empty rn row cb).1.left := by
  unfold decodeRow
  obtain ⟨lp, hlp⟩ := decodePair_ok o T wf row false rn cb
  obtain ⟨rp, hrp⟩ := decodePair_ok o T wf row.reverse true rn cb
  simp only [hlp, hrp, State.empty]
  exact addOrTally_nil lp (fun q hq => decodePair_count o T row false rn cb q (by rw [hlp, hq]))
end
end Gzx.Proofs.RSS14Total

namespace Gzx.Proofs.RSS14Total
open Gzx Gzx.Det Gzx.RSS14

theorem tally_values {v : Int} : ∀ {ps ps' : List Pair}, tally v ps = some ps' → ps'.map (·.value) = ps.map (·.value)
  | [], _, h => by simp [tally] at h
  | p :: ps, ps', h => by
    unfold tally at h
    split at h
    · cases h; rfl
    · cases ht : tally v ps with
      | none => rw [ht] at h; simp at h
      | some r =>
        rw [ht] at h
        simp only [Option.map_some, Option.some.injEq] at h
        subst h
        simp [tally_values ht]

theorem tally_none {v : Int} : ∀ {ps : List Pair}, tally v ps = none → v ∉ ps.map (·.value)
  | [], _ => by simp
  | p :: ps, h => by
    unfold tally at h
    split at h
    · cases h
    · rename_i hne
      cases ht : tally v ps with
      | some r => rw [ht] at h; simp at h
      | none =>
        have := tally_none ht
        simp only [List.map_cons, List.mem_cons, not_or]
        exact ⟨fun e => hne e.symm, this⟩

/-- `addOrTally` keeps the remembered values pairwise distinct and adds at most one pair -/
theorem addOrTally_nodup {ps : List Pair} (hn : (ps.map (·.value)).Nodup) (p : Option Pair) :
    ((addOrTally ps p).map (·.value)).Nodup ∧ (addOrTally ps p).length ≤ ps.length + 1 := by
  unfold addOrTally
  cases p with
  | none => exact ⟨hn, Nat.le_succ _⟩
  | some q =>
    simp only []
    cases ht : tally q.value ps with
    | some r =>
      have hv := tally_values ht
      refine ⟨by rw [hv]; exact hn, ?_⟩
      have : r.length = ps.length := by
        have := congrArg List.length hv
        simpa using this
      show r.length ≤ ps.length + 1
      omega
    | none =>
      have hnot := tally_none ht
      refine ⟨?_, by simp⟩
      rw [List.map_append, List.nodup_append]
      refine ⟨hn, by simp, ?_⟩
      intro a ha b hb
      simp only [List.map_cons, List.map_nil, List.mem_singleton] at hb
      subst hb
      intro e; subst e; exact hnot ha

end Gzx.Proofs.RSS14Total
