/-
  wp rowsrest — totality of the RSS-14 row reader model (Gzx/Model/RSS14.lean) for every row, every pair history and
  every float interpretation: helper lemmas for Properties/C06RSS.lean.  Part 1: RSSUtils, finder pattern.
-/
import Gzx.Model.RSS14
import Gzx.Proofs.OneDRowExtTotal3
namespace Gzx.Proofs.RSS14Total
open Gzx Gzx.Det Gzx.RSS14
open Gzx.Proofs.OneDRowExtTotal (nfo)

/-! ## RSSUtils: `combins` and `getRSSvalue` never divide by zero -/

theorem combinsLoop1_ok (minDenom : Int) : ∀ (k : Nat) (i val j : Int), 1 ≤ j →
    ∃ r, combinsLoop1 minDenom k i val j = .ok r ∧ 1 ≤ r.2
  | 0, _, val, j, hj => ⟨(val, j), rfl, hj⟩
  | k + 1, i, val, j, hj => by
    unfold combinsLoop1
    simp only []
    split
    · rw [if_neg (by omega)]
      exact combinsLoop1_ok minDenom k _ _ _ (by omega)
    · exact combinsLoop1_ok minDenom k _ _ _ hj

theorem combinsLoop2_ok : ∀ (k : Nat) (val j : Int), 1 ≤ j → ∃ r, combinsLoop2 k val j = .ok r
  | 0, val, _, _ => ⟨val, rfl⟩
  | k + 1, val, j, hj => by
    unfold combinsLoop2
    rw [if_neg (by omega)]
    exact combinsLoop2_ok k _ _ (by omega)

theorem combins_ok (n r : Int) : ∃ v, combins n r = .ok v := by
  unfold combins
  simp only []
  generalize hp : (if n - r > r then (r, n - r) else (r, n - r)) = p
  obtain ⟨v, hv, hj⟩ := combinsLoop1_ok p.1 (n - p.2).toNat n 1 1 (by omega)
  rw [hv]
  exact combinsLoop2_ok _ _ _ hj

theorem lessValLoop_ok (base r : Int) : ∀ (k : Nat) (mxw acc : Int), ∃ v, lessValLoop base r k mxw acc = .ok v
  | 0, _, acc => ⟨acc, rfl⟩
  | k + 1, mxw, acc => by
    unfold lessValLoop
    obtain ⟨c, hc⟩ := combins_ok (base - mxw - 1) r
    rw [hc]
    exact lessValLoop_ok base r k _ _

theorem subValOf_ok (n elmWidth eb maxWidth : Int) (noNarrow : Bool) (mask : Nat) :
    ∃ v, subValOf n elmWidth eb maxWidth noNarrow mask = .ok v := by
  unfold subValOf
  obtain ⟨c0, hc0⟩ := combins_ok (n - elmWidth - 1) (eb - 2)
  rw [hc0]
  simp only []
  have h1 : ∃ s1, narrowAdjust n elmWidth eb noNarrow mask c0 = .ok s1 := by
    unfold narrowAdjust
    split
    · obtain ⟨c, hc⟩ := combins_ok (n - elmWidth - eb) (eb - 2)
      rw [hc]; exact ⟨_, rfl⟩
    · exact ⟨_, rfl⟩
  obtain ⟨s1, hs1⟩ := h1
  rw [hs1]
  simp only []
  unfold widthAdjust
  split
  · simp only []
    obtain ⟨l, hl⟩ := lessValLoop_ok (n - elmWidth) (eb - 3) (n - elmWidth - (eb - 2) - maxWidth).toNat (n - elmWidth - (eb - 2)) 0
    rw [hl]; exact ⟨_, rfl⟩
  · split <;> exact ⟨_, rfl⟩

theorem elmLoop_ok (n : Int) (elements bar : Nat) (maxWidth : Int) (noNarrow : Bool) :
    ∀ (k : Nat) (elmWidth : Int) (mask : Nat) (val : Int),
      ∃ r, elmLoop n elements bar maxWidth noNarrow k elmWidth mask val = .ok r
  | 0, elmWidth, mask, val => ⟨_, rfl⟩
  | k + 1, elmWidth, mask, val => by
    unfold elmLoop
    obtain ⟨v, hv⟩ := subValOf_ok n elmWidth ((elements : Int) - (bar : Int)) maxWidth noNarrow mask
    rw [hv]
    exact elmLoop_ok n elements bar maxWidth noNarrow k _ _ _

theorem barLoop_ok (elements : Nat) (maxWidth : Int) (noNarrow : Bool) :
    ∀ (ws : List Int) (bar : Nat) (n : Int) (mask : Nat) (val : Int),
      ∃ v, barLoop elements maxWidth noNarrow ws bar n mask val = .ok v
  | [], _, _, _, val => ⟨val, rfl⟩
  | [_], _, _, _, val => ⟨val, rfl⟩
  | w :: w2 :: ws, bar, n, mask, val => by
    unfold barLoop
    simp only []
    obtain ⟨r, hr⟩ := elmLoop_ok n elements bar maxWidth noNarrow (w - 1).toNat 1 (mask ||| 2 ^ bar) val
    rw [hr]
    obtain ⟨v, e, m⟩ := r
    exact barLoop_ok elements maxWidth noNarrow (w2 :: ws) _ _ _ _

/-- `RSSUtils_getRSSvalue` on ANY widths (also zero, negative, too wide), any `maxWidth`: a value, never a fault -/
theorem getRSSvalue_ok (widths : List Int) (maxWidth : Int) (noNarrow : Bool) :
    ∃ v, getRSSvalue widths maxWidth noNarrow = .ok v :=
  barLoop_ok _ _ _ _ _ _ _ _

end Gzx.Proofs.RSS14Total
