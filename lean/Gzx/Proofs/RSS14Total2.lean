/-
  wp rowsrest — totality of the RSS-14 row reader model, part 2: finder search and parse (every read of the row stays
  inside it), data characters, pairs, DecodeRow for every history.
-/
import Gzx.Proofs.RSS14Total
namespace Gzx.Proofs.RSS14Total
open Gzx Gzx.Det Gzx.RSS14
open Gzx.Proofs.OneDRowExtTotal (nfo)

/-- decidable shape condition on the tables: finder patterns of at least four runs, five outside groups, four inside groups -/
def wfRSS (T : Tables) : Bool :=
  T.finderPatterns.all (fun p => decide (4 ≤ p.length)) &&
  decide (5 ≤ T.outsideOddWidest.length) && decide (5 ≤ T.outsideEvenTotalSubset.length) && decide (5 ≤ T.outsideGsum.length) &&
  decide (4 ≤ T.insideOddWidest.length) && decide (4 ≤ T.insideOddTotalSubset.length) && decide (4 ≤ T.insideGsum.length)

structure WFRSS (T : Tables) : Prop where
  finder : ∀ p ∈ T.finderPatterns, 4 ≤ p.length
  oow : 5 ≤ T.outsideOddWidest.length
  oets : 5 ≤ T.outsideEvenTotalSubset.length
  ogs : 5 ≤ T.outsideGsum.length
  iow : 4 ≤ T.insideOddWidest.length
  iots : 4 ≤ T.insideOddTotalSubset.length
  igs : 4 ≤ T.insideGsum.length

theorem wfRSS_iff {T : Tables} (h : wfRSS T = true) : WFRSS T := by
  simp only [wfRSS, Bool.and_eq_true, decide_eq_true_eq, List.all_eq_true] at h
  obtain ⟨⟨⟨⟨⟨⟨h1, h2⟩, h3⟩, h4⟩, h5⟩, h6⟩, h7⟩ := h
  exact ⟨h1, h2, h3, h4, h5, h6, h7⟩

section
variable {F : Type} (o : FOps F)

/-! ## finder search -/

/-- invariant of the sliding window: the counters add up to the distance from the pattern start, counters right of the
    current one are zero -/
def FInv (cs : C4) (pos ps x : Nat) : Prop :=
  ps + cs.c0 + cs.c1 + cs.c2 + cs.c3 = x ∧ pos ≤ 3 ∧ (pos < 1 → cs.c1 = 0) ∧ (pos < 2 → cs.c2 = 0) ∧ (pos < 3 → cs.c3 = 0)

theorem finderLoop_sat : ∀ (bs : List Bool) (x : Nat) (cs : C4) (pos ps : Nat) (isWhite : Bool), FInv cs pos ps x →
    Sat OnlyNotFound (fun r => r.1.1 ≤ r.1.2 ∧ r.1.2 < x + bs.length) (finderLoop o bs x cs pos ps isWhite)
  | [], _, _, _, _, _, _ => rfl
  | b :: bs, x, cs, pos, ps, isWhite, hinv => by
    obtain ⟨hsum, hp3, hz1, hz2, hz3⟩ := hinv
    unfold finderLoop
    by_cases hb : (b != isWhite) = true
    · rw [if_pos hb]
      have step : ∀ cs', cs.incr pos = .ok cs' → FInv cs' pos ps (x + 1) →
          Sat OnlyNotFound (fun r => r.1.1 ≤ r.1.2 ∧ r.1.2 < x + (b :: bs).length)
            (match cs.incr pos with
             | .error e => .error e
             | .ok cs => finderLoop o bs (x + 1) cs pos ps isWhite) := by
        intro cs' h1 h2
        rw [h1]
        exact (finderLoop_sat bs (x + 1) cs' pos ps isWhite h2).mono (fun _ h => h)
          (fun r hr => ⟨hr.1, by simp only [List.length_cons]; omega⟩)
      match pos, hp3, hz1, hz2, hz3 with
      | 0, _, hz1, hz2, hz3 => exact step _ rfl ⟨by simp only []; omega, by omega, hz1, hz2, hz3⟩
      | 1, _, hz1, hz2, hz3 => exact step _ rfl ⟨by simp only []; omega, by omega, by omega, hz2, hz3⟩
      | 2, _, hz1, hz2, hz3 => exact step _ rfl ⟨by simp only []; omega, by omega, by omega, by omega, hz3⟩
      | 3, _, hz1, hz2, hz3 => exact step _ rfl ⟨by simp only []; omega, by omega, by omega, by omega, by omega⟩
      | n + 4, h, _, _, _ => omega
    · rw [if_neg hb]
      by_cases h3 : pos = 3
      · rw [if_pos h3]
        split
        · exact ⟨by show ps ≤ x; omega, by show x < x + (b :: bs).length; simp⟩
        · have := finderLoop_sat bs (x + 1) ⟨cs.c2, cs.c3, 1, 0⟩ 2 (ps + cs.c0 + cs.c1) (!isWhite)
            ⟨by simp only []; omega, by omega, by omega, by omega, fun _ => rfl⟩
          exact this.mono (fun _ h => h) (fun r hr => ⟨hr.1, by simp only [List.length_cons]; omega⟩)
      · rw [if_neg h3]
        have step : ∀ cs', cs.setOne (pos + 1) = .ok cs' → FInv cs' (pos + 1) ps (x + 1) →
            Sat OnlyNotFound (fun r => r.1.1 ≤ r.1.2 ∧ r.1.2 < x + (b :: bs).length)
              (match cs.setOne (pos + 1) with
               | .error e => .error e
               | .ok cs => finderLoop o bs (x + 1) cs (pos + 1) ps (!isWhite)) := by
          intro cs' h1 h2
          rw [h1]
          exact (finderLoop_sat bs (x + 1) cs' (pos + 1) ps (!isWhite) h2).mono (fun _ h => h)
            (fun r hr => ⟨hr.1, by simp only [List.length_cons]; omega⟩)
        match pos, hp3, h3, hz1, hz2, hz3 with
        | 0, _, _, hz1, hz2, hz3 =>
          exact step _ rfl ⟨by have := hz1 (by omega); simp only []; omega, by omega, by omega, fun _ => hz2 (by omega), fun _ => hz3 (by omega)⟩
        | 1, _, _, hz1, hz2, hz3 =>
          exact step _ rfl ⟨by have := hz2 (by omega); simp only []; omega, by omega, by omega, by omega, fun _ => hz3 (by omega)⟩
        | 2, _, _, hz1, hz2, hz3 =>
          exact step _ rfl ⟨by have := hz3 (by omega); simp only []; omega, by omega, by omega, by omega, by omega⟩
        | 3, _, h, _, _, _ => exact absurd rfl h
        | n + 4, h, _, _, _, _ => omega

theorem skipTo_le (right : Bool) : ∀ (bs : List Bool) (off : Nat), skipTo right bs off ≤ off + bs.length
  | [], off => by simp [skipTo]
  | b :: bs, off => by
    unfold skipTo
    split
    · omega
    · have := skipTo_le right bs (off + 1); simp only [List.length_cons]; omega

theorem skipTo_ge (right : Bool) : ∀ (bs : List Bool) (off : Nat), off ≤ skipTo right bs off
  | [], off => by simp [skipTo]
  | b :: bs, off => by
    unfold skipTo
    split
    · omega
    · have := skipTo_ge right bs (off + 1); omega

/-- `findFinderPattern` on any row: a range `[start, end)` with `start ≤ end < size`, or NotFound -/
theorem findFinderPattern_sat (row : List Bool) (right : Bool) :
    Sat OnlyNotFound (fun r => r.1.1 ≤ r.1.2 ∧ r.1.2 < row.length) (findFinderPattern o row right) := by
  unfold findFinderPattern
  simp only []
  have hle := skipTo_le right row 0
  have := finderLoop_sat o (row.drop (skipTo right row 0)) (skipTo right row 0) ⟨0, 0, 0, 0⟩ 0 (skipTo right row 0) right
    ⟨by simp, by omega, fun _ => rfl, fun _ => rfl, fun _ => rfl⟩
  refine this.mono (fun _ h => h) (fun r hr => ⟨hr.1, ?_⟩)
  have h2 := hr.2
  simp only [List.length_drop] at h2
  omega

/-! ## finder parse -/

theorem getPx_ok (row : List Bool) (i : Nat) (h : i < row.length) : ∃ b, getPx row i = .ok b := by
  unfold getPx
  rw [List.getElem?_eq_getElem h]
  exact ⟨_, rfl⟩

theorem backLoop_ok (row : List Bool) (fib : Bool) : ∀ (k : Nat), k ≤ row.length →
    ∃ r, backLoop row fib k = .ok r ∧ r ≤ k
  | 0, _ => ⟨0, rfl, Nat.le_refl _⟩
  | k + 1, h => by
    unfold backLoop
    obtain ⟨b, hb⟩ := getPx_ok row k (by omega)
    rw [hb]
    simp only []
    split
    · obtain ⟨r, hr, hle⟩ := backLoop_ok row fib k (by omega)
      exact ⟨r, hr, by omega⟩
    · exact ⟨k + 1, rfl, Nat.le_refl _⟩

theorem parseFinderValue_sat (counters : List Nat) (hc : counters.length ≤ 4) :
    ∀ (ps : List (List Nat)) (i : Nat), (∀ p ∈ ps, 4 ≤ p.length) →
      Sat OnlyNotFound (fun _ => True) (parseFinderValue o counters ps i)
  | [], _, _ => rfl
  | p :: ps, i, h => by
    unfold parseFinderValue
    rw [if_neg (by have := h p (by simp); omega)]
    split
    · trivial
    · exact parseFinderValue_sat counters hc ps _ (fun q hq => h q (by simp [hq]))

/-- `parseFoundFinderPattern` on a range delivered by `findFinderPattern`: the reads stay inside the row; the pattern
    starts at or left of the range and inside the row -/
theorem parseFoundFinderPattern_sat (T : Tables) (wf : WFRSS T) (row : List Bool) (rn : Int) (right : Bool)
    (se : Nat × Nat) (cs : C4) (hse : se.1 ≤ se.2 ∧ se.2 < row.length) :
    Sat OnlyNotFound (fun fp => fp.startEnd.1 < row.length ∧ fp.startEnd.2 < row.length)
      (parseFoundFinderPattern o T row rn right se cs) := by
  unfold parseFoundFinderPattern
  obtain ⟨b, hb⟩ := getPx_ok row se.1 (by omega)
  obtain ⟨fes, hfes, hle⟩ := backLoop_ok row b se.1 (by omega)
  simp only [hb, bind, Except.bind, hfes]
  have hv := parseFinderValue_sat o [se.1 - fes, cs.c0, cs.c1, cs.c2] (by simp) T.finderPatterns 0 wf.finder
  cases hvr : parseFinderValue o [se.1 - fes, cs.c0, cs.c1, cs.c2] T.finderPatterns 0 with
  | error e => rw [hvr] at hv; exact hv
  | ok v =>
    simp only [pure, Except.pure]
    exact ⟨by show fes < row.length; omega, by show se.2 < row.length; omega⟩
end
end Gzx.Proofs.RSS14Total
