/-
  wp rowsrest — totality of the RSS-14 row reader model, part 3: data characters, pairs, DecodeRow for every history.
-/
import Gzx.Proofs.RSS14Total2
namespace Gzx.Proofs.RSS14Total
open Gzx Gzx.Det Gzx.RSS14
open Gzx.Proofs.OneDRowExtTotal (nfo)

/-! ## counters -/

theorem rpLoop_len_le (n : Nat) : ∀ (bs : List Bool) (cur : Bool) (done : List Nat) (cnt : Nat),
    done.length + 1 ≤ n → (RunLength.rpLoop n bs cur done cnt).1.length ≤ n
  | [], _, done, cnt, h => by simp [RunLength.rpLoop]; omega
  | b :: bs, cur, done, cnt, h => by
    unfold RunLength.rpLoop
    by_cases hb : b = cur
    · rw [if_pos hb]; exact rpLoop_len_le n bs cur done (cnt + 1) h
    · rw [if_neg hb]
      by_cases hd : done.length + 1 = n
      · rw [if_pos hd]; simp; omega
      · rw [if_neg hd]; exact rpLoop_len_le n bs b (done ++ [cnt]) 1 (by simp; omega)

theorem recordPatternRaw_length (row : List Bool) (start n : Nat) (hn : 1 ≤ n) :
    (recordPatternRaw row start n).length = n := by
  unfold recordPatternRaw
  split
  · simp
  · rename_i b bs _
    have := rpLoop_len_le n bs b [] 1 (by simpa using hn)
    simp only [List.length_append, List.length_replicate]
    omega

theorem recordPatternInReverseRaw_ok (row : List Bool) (start n : Nat) (hn : 1 ≤ n) (hs : start < row.length) :
    ∃ cs, recordPatternInReverseRaw row start n = .ok cs ∧ cs.length = n := by
  unfold recordPatternInReverseRaw
  obtain ⟨b, hb⟩ := getPx_ok row start hs
  rw [hb]
  simp only []
  generalize RunLength.revScan (RunLength.getBit row) (start + 1) start b (Int.ofNat n) = r
  obtain ⟨s, left⟩ := r
  simp only []
  split
  · exact ⟨_, rfl, by simp⟩
  · exact ⟨_, rfl, recordPatternRaw_length row (s + 1) n hn⟩

theorem splitOddEven_length {α : Type} : ∀ (l : List α),
    (splitOddEven l).1.length = (l.length + 1) / 2 ∧ (splitOddEven l).2.length = l.length / 2
  | [] => by simp [splitOddEven]
  | [a] => by simp [splitOddEven]
  | a :: b :: rest => by
    have := splitOddEven_length rest
    simp only [splitOddEven, List.length_cons]
    omega

section
variable {F : Type} (o : FOps F)

theorem argBest_lt (better : F → F → Bool) : ∀ (es : List F) (i idx : Nat) (best : F), idx < i →
    argBest better es i idx best < i + es.length
  | [], i, idx, _, h => by simp [argBest]; exact h
  | e :: es, i, idx, best, h => by
    unfold argBest
    split
    · have := argBest_lt better es (i + 1) i e (by omega); simp only [List.length_cons]; omega
    · have := argBest_lt better es (i + 1) idx best (by omega); simp only [List.length_cons]; omega

theorem bump_ok (d : Int) : ∀ (l : List Int) (i : Nat), i < l.length → ∃ r, bump d l i = .ok r ∧ r.length = l.length
  | [], _, h => by simp at h
  | c :: cs, 0, _ => ⟨_, rfl, rfl⟩
  | c :: cs, i + 1, h => by
    obtain ⟨r, hr, hl⟩ := bump_ok d cs i (by simpa using h)
    exact ⟨c :: r, by simp [bump, hr, Except.map], by simp [hl]⟩

theorem increment_ok (array : List Int) (errors : List F) (ha : 1 ≤ array.length) (he : array.length ≤ errors.length) :
    ∃ r, increment o array errors = .ok r ∧ r.length = array.length := by
  unfold increment
  cases errors with
  | nil => simp only [List.length_nil] at he; omega
  | cons e0 es =>
    simp only []
    rw [if_neg (by simp only [List.length_cons] at he ⊢; omega)]
    apply bump_ok
    have := argBest_lt (fun e best => o.gt e best) (es.take (array.length - 1)) 1 0 e0 (by omega)
    simp only [List.length_take] at this
    omega

theorem decrement_ok (array : List Int) (errors : List F) (ha : 1 ≤ array.length) (he : array.length ≤ errors.length) :
    ∃ r, decrement o array errors = .ok r ∧ r.length = array.length := by
  unfold decrement
  cases errors with
  | nil => simp only [List.length_nil] at he; omega
  | cons e0 es =>
    simp only []
    rw [if_neg (by simp only [List.length_cons] at he ⊢; omega)]
    apply bump_ok
    have := argBest_lt (fun e best => o.lt e best) (es.take (array.length - 1)) 1 0 e0 (by omega)
    simp only [List.length_take] at this
    omega

theorem stepInc_sat (inc dec : Bool) (array : List Int) (errors : List F) (ha : 1 ≤ array.length)
    (he : array.length ≤ errors.length) :
    Sat OnlyNotFound (fun r : List Int => r.length = array.length) (stepInc o inc dec array errors) := by
  unfold stepInc
  split
  · split
    · rfl
    · obtain ⟨r, hr, hl⟩ := increment_ok o array errors ha he; rw [hr]; exact hl
  · rfl

theorem stepDec_sat (dec : Bool) (array : List Int) (errors : List F) (ha : 1 ≤ array.length)
    (he : array.length ≤ errors.length) :
    Sat OnlyNotFound (fun r : List Int => r.length = array.length) (stepDec o dec array errors) := by
  unfold stepDec
  split
  · obtain ⟨r, hr, hl⟩ := decrement_ok o array errors ha he; rw [hr]; exact hl
  · rfl

theorem applyFlags_sat (odd even : List Int) (oddErr evenErr : List F)
    (h1 : 1 ≤ odd.length) (h2 : odd.length ≤ oddErr.length) (h3 : 1 ≤ even.length) (h4 : even.length ≤ evenErr.length)
    (incOdd decOdd incEven decEven : Bool) :
    Sat OnlyNotFound (fun _ => True) (applyFlags o odd even oddErr evenErr incOdd decOdd incEven decEven) := by
  unfold applyFlags
  have s1 := stepInc_sat o incOdd decOdd odd oddErr h1 h2
  cases hr1 : stepInc o incOdd decOdd odd oddErr with
  | error e => rw [hr1] at s1; exact s1
  | ok odd1 =>
    rw [hr1] at s1
    have hl1 : odd1.length = odd.length := s1
    simp only []
    have s2 := stepDec_sat o decOdd odd1 oddErr (by omega) (by omega)
    cases hr2 : stepDec o decOdd odd1 oddErr with
    | error e => rw [hr2] at s2; exact s2
    | ok odd2 =>
      simp only []
      have s3 := stepInc_sat o incEven decEven even evenErr h3 h4
      cases hr3 : stepInc o incEven decEven even evenErr with
      | error e => rw [hr3] at s3; exact s3
      | ok even1 =>
        rw [hr3] at s3
        have hl3 : even1.length = even.length := s3
        simp only []
        have s4 := stepDec_sat o decEven even1 evenErr (by omega) (by omega)
        cases hr4 : stepDec o decEven even1 evenErr with
        | error e => rw [hr4] at s4; exact s4
        | ok even2 => trivial

theorem flagsOf_sat (outside : Bool) (numModules oddSum evenSum : Int) :
    Sat OnlyNotFound (fun _ => True) (flagsOf outside numModules oddSum evenSum) := by
  unfold flagsOf
  simp only []
  repeat' split
  all_goals first | rfl | trivial

theorem adjustOddEvenCounts_sat (outside : Bool) (numModules : Int) (odd even : List Int) (oddErr evenErr : List F)
    (h1 : 1 ≤ odd.length) (h2 : odd.length ≤ oddErr.length) (h3 : 1 ≤ even.length) (h4 : even.length ≤ evenErr.length) :
    Sat OnlyNotFound (fun _ => True) (adjustOddEvenCounts o outside numModules odd even oddErr evenErr) := by
  unfold adjustOddEvenCounts
  have hf := flagsOf_sat outside numModules (sumI odd) (sumI even)
  cases hfr : flagsOf outside numModules (sumI odd) (sumI even) with
  | error e => rw [hfr] at hf; exact hf
  | ok fl =>
    obtain ⟨a, b, c, d⟩ := fl
    exact applyFlags_sat o odd even oddErr evenErr h1 h2 h3 h4 a b c d
end
end Gzx.Proofs.RSS14Total
