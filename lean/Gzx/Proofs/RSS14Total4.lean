/-
  wp rowsrest — totality of the RSS-14 row reader model, part 4: character values, data characters, pairs, the result,
  DecodeRow for every history and every sequence of calls.
-/
import Gzx.Proofs.RSS14Total3
namespace Gzx.Proofs.RSS14Total
open Gzx Gzx.Det Gzx.RSS14
open Gzx.Proofs.OneDRowExtTotal (nfo)

theorem nthI_ok {α : Type} (l : List α) (i : Int) (h0 : 0 ≤ i) (h1 : i < l.length) : ∃ x, nthI l i = .ok x := by
  unfold nthI
  rw [if_neg (by omega)]
  unfold nth
  have : i.toNat < l.length := by omega
  rw [List.getElem?_eq_getElem this]
  exact ⟨_, rfl⟩

theorem lowBit_even {x : Int} (h : ¬ lowBit x ≠ 0) : x % 2 = 0 := by
  unfold lowBit at h
  simp only [ne_eq, Decidable.not_not] at h
  exact h

theorem charValue_sat (T : Tables) (wf : WFRSS T) (outside : Bool) (odd even : List Int) :
    Sat OnlyNotFound (fun _ => True) (charValue T outside odd even) := by
  unfold charValue
  simp only []
  split
  · split
    · rfl
    · rename_i hc
      have hb : sumI odd % 2 = 0 ∧ sumI odd ≤ 12 ∧ 4 ≤ sumI odd := by
        refine ⟨lowBit_even (fun h => hc (Or.inl h)), ?_, ?_⟩
        · exact Int.not_lt.mp (fun h => hc (Or.inr (Or.inl h)))
        · exact Int.not_lt.mp (fun h => hc (Or.inr (Or.inr h)))
      have hg : 0 ≤ (12 - sumI odd).tdiv 2 ∧ (12 - sumI odd).tdiv 2 < 5 := by
        rw [Int.tdiv_eq_ediv_of_nonneg (by omega)]; omega
      obtain ⟨ow, how⟩ := nthI_ok T.outsideOddWidest _ hg.1 (by have := wf.oow; omega)
      obtain ⟨te, hte⟩ := nthI_ok T.outsideEvenTotalSubset _ hg.1 (by have := wf.oets; omega)
      obtain ⟨gs, hgs⟩ := nthI_ok T.outsideGsum _ hg.1 (by have := wf.ogs; omega)
      obtain ⟨vo, hvo⟩ := getRSSvalue_ok odd ow false
      obtain ⟨ve, hve⟩ := getRSSvalue_ok even (9 - ow) true
      simp only [how, hte, hgs, hvo, hve, bind, Except.bind, pure, Except.pure]
      trivial
  · split
    · rfl
    · rename_i hc
      have hb : sumI even % 2 = 0 ∧ sumI even ≤ 10 ∧ 4 ≤ sumI even := by
        refine ⟨lowBit_even (fun h => hc (Or.inl h)), ?_, ?_⟩
        · exact Int.not_lt.mp (fun h => hc (Or.inr (Or.inl h)))
        · exact Int.not_lt.mp (fun h => hc (Or.inr (Or.inr h)))
      have hg : 0 ≤ (10 - sumI even).tdiv 2 ∧ (10 - sumI even).tdiv 2 < 4 := by
        rw [Int.tdiv_eq_ediv_of_nonneg (by omega)]; omega
      obtain ⟨ow, how⟩ := nthI_ok T.insideOddWidest _ hg.1 (by have := wf.iow; omega)
      obtain ⟨te, hte⟩ := nthI_ok T.insideOddTotalSubset _ hg.1 (by have := wf.iots; omega)
      obtain ⟨gs, hgs⟩ := nthI_ok T.insideGsum _ hg.1 (by have := wf.igs; omega)
      obtain ⟨vo, hvo⟩ := getRSSvalue_ok odd ow true
      obtain ⟨ve, hve⟩ := getRSSvalue_ok even (9 - ow) false
      simp only [how, hte, hgs, hvo, hve, bind, Except.bind, pure, Except.pure]
      trivial

theorem charCounters_ok (row : List Bool) (fp : FinderPattern) (outside : Bool) (h : fp.startEnd.1 < row.length) :
    ∃ cs, charCounters row fp outside = .ok cs ∧ cs.length = 8 := by
  unfold charCounters
  split
  · exact recordPatternInReverseRaw_ok row fp.startEnd.1 8 (by decide) h
  · exact ⟨_, rfl, by rw [List.length_reverse]; exact recordPatternRaw_length row fp.startEnd.2 8 (by decide)⟩

section
variable {F : Type} (o : FOps F)

theorem decodeDataCharacter_sat (T : Tables) (wf : WFRSS T) (row : List Bool) (fp : FinderPattern) (outside : Bool)
    (h : fp.startEnd.1 < row.length) :
    Sat OnlyNotFound (fun _ => True) (decodeDataCharacter o T row fp outside) := by
  unfold decodeDataCharacter
  obtain ⟨cs, hcs, hlen⟩ := charCounters_ok row fp outside h
  rw [hcs]
  simp only []
  generalize hr : cs.map (roundCount o (o.div (o.ofInt (sumN cs)) (o.ofInt (if outside = true then 16 else 15)))) = rounded
  have hrl : rounded.length = 8 := by rw [← hr, List.length_map]; exact hlen
  have hsl := splitOddEven_length rounded
  rw [hrl] at hsl
  have ha := adjustOddEvenCounts_sat o outside (if outside = true then 16 else 15)
    ((splitOddEven rounded).1.map (·.1)) ((splitOddEven rounded).2.map (·.1))
    ((splitOddEven rounded).1.map (·.2)) ((splitOddEven rounded).2.map (·.2))
    (by simp [hsl.1]) (by simp) (by simp [hsl.2]) (by simp)
  cases har : adjustOddEvenCounts o outside (if outside = true then 16 else 15)
    ((splitOddEven rounded).1.map (·.1)) ((splitOddEven rounded).2.map (·.1))
    ((splitOddEven rounded).1.map (·.2)) ((splitOddEven rounded).2.map (·.2)) with
  | error e => rw [har] at ha; exact ha
  | ok r =>
    obtain ⟨odd, even⟩ := r
    exact charValue_sat T wf outside odd even

/-- `swallow` of a computation that can only fail with NotFound never fails -/
theorem swallow_ok {α : Type} {P : α → Prop} {r : Res α} (h : Sat OnlyNotFound P r) :
    ∃ x, swallow r = .ok x ∧ (∀ a, x = some a → P a) := by
  cases r with
  | ok a => exact ⟨some a, rfl, fun b hb => by cases hb; exact h⟩
  | error e =>
    have : e = .notFound := h
    subst this
    exact ⟨none, rfl, fun a ha => by cases ha⟩

/-- `decodePair` on any row, for either half: a pair or nil, never a fault -/
theorem decodePair_ok (T : Tables) (wf : WFRSS T) (row : List Bool) (right : Bool) (rn : Int) (cb : Bool) :
    ∃ p, (decodePair o T row right rn cb).2 = .ok p := by
  unfold decodePair
  obtain ⟨x1, h1, hp1⟩ := swallow_ok (findFinderPattern_sat o row right)
  rw [h1]
  cases x1 with
  | none => exact ⟨none, rfl⟩
  | some r1 =>
    obtain ⟨se, cs⟩ := r1
    have hse := hp1 _ rfl
    simp only []
    obtain ⟨x2, h2, hp2⟩ := swallow_ok (parseFoundFinderPattern_sat o T wf row rn right se cs hse)
    rw [h2]
    cases x2 with
    | none => exact ⟨none, rfl⟩
    | some fp =>
      have hfp := hp2 _ rfl
      simp only []
      obtain ⟨x3, h3, _⟩ := swallow_ok (decodeDataCharacter_sat o T wf row fp true hfp.1)
      rw [h3]
      cases x3 with
      | none => exact ⟨none, rfl⟩
      | some outside =>
        simp only []
        obtain ⟨x4, h4, _⟩ := swallow_ok (decodeDataCharacter_sat o T wf row fp false hfp.1)
        rw [h4]
        cases x4 with
        | none => exact ⟨none, rfl⟩
        | some inside => exact ⟨_, rfl⟩
end

/-! ## result -/

theorem checkDigitLoop_ok (buffer : List Nat) : ∀ (k i acc : Nat), i + k ≤ buffer.length →
    ∃ r, checkDigitLoop buffer k i acc = .ok r
  | 0, _, acc, _ => ⟨acc, rfl⟩
  | k + 1, i, acc, h => by
    unfold checkDigitLoop
    unfold nth
    rw [List.getElem?_eq_getElem (by omega)]
    simp only []
    exact checkDigitLoop_ok buffer k (i + 1) _ (by omega)

/-- `constructResult` for ANY two pairs (any values, also negative or of more than 13 digits): the buffer always has
    the 13 characters the check-digit loop reads -/
theorem constructResult_ok (l r : Pair) : ∃ res, constructResult l r = .ok res := by
  unfold constructResult
  have hlen : 0 + 13 ≤ (List.replicate (13 - (itoa (4537077 * l.value + r.value)).length) 48 ++
      itoa (4537077 * l.value + r.value)).length := by
    simp only [List.length_append, List.length_replicate]; omega
  obtain ⟨cd, hcd⟩ := checkDigitLoop_ok _ 13 0 0 hlen
  simp only [hcd, bind, Except.bind, pure, Except.pure]
  exact ⟨_, rfl⟩

/-- ok or NotFoundException -/
def OkOrNotFound {α : Type} (r : Res α) : Prop := (∃ a, r = .ok a) ∨ r = .error .notFound

section
variable {F : Type} (o : FOps F)

/-- `DecodeRow` for every pair history `st` (no invariant needed), every row, row number and callback hint -/
theorem decodeRow_total (T : Tables) (wf : WFRSS T) (st : State) (rn : Int) (row : List Bool) (cb : Bool) :
    OkOrNotFound (decodeRow o T st rn row cb).2.2 := by
  unfold decodeRow
  obtain ⟨lp, hlp⟩ := decodePair_ok o T wf row false rn cb
  obtain ⟨rp, hrp⟩ := decodePair_ok o T wf row.reverse true rn cb
  simp only [hlp, hrp]
  split
  · rename_i l r _
    obtain ⟨res, hres⟩ := constructResult_ok l r
    exact Or.inl ⟨res, hres⟩
  · exact Or.inr rfl

/-- every outcome of a sequence of `DecodeRow` / `Reset` calls on one instance, from any initial history -/
theorem run_total (T : Tables) (wf : WFRSS T) : ∀ (ops : List Op) (st : State),
    ∀ out ∈ (run o T st ops).1, OkOrNotFound out.2
  | [], _, out, h => by simp [run] at h
  | .reset :: ops, _, out, h => by
    unfold run at h
    exact run_total T wf ops State.empty out h
  | .row rn px cb :: ops, st, out, h => by
    unfold run at h
    simp only [List.mem_cons] at h
    rcases h with rfl | h
    · exact decodeRow_total o T wf st rn px cb
    · exact run_total T wf ops _ out h
end

end Gzx.Proofs.RSS14Total
