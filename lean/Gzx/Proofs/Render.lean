/-
  Helper lemmas for C14: what the rendering loops emit, and the pixel formula of a regular grid of
  `s x s` blocks.  Core Lean only (Nat/Int division lemmas + omega).
-/
import Gzx.Model.Render
namespace Gzx.Render

/-! ## the loops emit exactly one call per dark module -/

theorem mem_colLoop (get : Nat → Bool) (top cw ch step : Int) (r : Rect) :
    ∀ (k ix : Nat) (ox : Int), r ∈ colLoop get top cw ch step k ix ox ↔
      ∃ j : Nat, j < k ∧ get (ix + j) = true ∧ r = ⟨ox + (j : Int) * step, top, cw, ch⟩ := by
  intro k
  induction k with
  | zero => intro ix ox; simp [colLoop]
  | succ k ih =>
    intro ix ox
    simp only [colLoop, List.mem_append, ih]
    constructor
    · rintro (h | ⟨j, hj, hg, hr⟩)
      · refine ⟨0, by omega, ?_, ?_⟩
        · by_cases hg : get ix = true
          · simpa using hg
          · simp [hg] at h
        · by_cases hg : get ix = true
          · simp [hg] at h; simp [h]
          · simp [hg] at h
      · refine ⟨j + 1, by omega, ?_, ?_⟩
        · have : ix + (j + 1) = ix + 1 + j := by omega
          rw [this]; exact hg
        · rw [hr]
          have : ox + step + (j : Int) * step = ox + ((j + 1 : Nat) : Int) * step := by
            rw [Int.natCast_add, Int.add_mul]; simp; omega
          rw [this]
    · rintro ⟨j, hj, hg, hr⟩
      cases j with
      | zero =>
        left
        simp at hg hr
        simp [hg, hr]
      | succ j =>
        right
        refine ⟨j, by omega, ?_, ?_⟩
        · have : ix + 1 + j = ix + (j + 1) := by omega
          rw [this]; exact hg
        · rw [hr]
          have : ox + step + (j : Int) * step = ox + ((j + 1 : Nat) : Int) * step := by
            rw [Int.natCast_add, Int.add_mul]; simp; omega
          rw [this]

theorem mem_rowLoop (get : Nat → Nat → Bool) (mw : Nat) (left cw ch step : Int) (r : Rect) :
    ∀ (k iy : Nat) (oy : Int), r ∈ rowLoop get mw left cw ch step k iy oy ↔
      ∃ i j : Nat, i < mw ∧ j < k ∧ get i (iy + j) = true ∧
        r = ⟨left + (i : Int) * step, oy + (j : Int) * step, cw, ch⟩ := by
  intro k
  induction k with
  | zero => intro iy oy; simp [rowLoop]
  | succ k ih =>
    intro iy oy
    simp only [rowLoop, List.mem_append, ih, mem_colLoop]
    constructor
    · rintro (⟨i, hi, hg, hr⟩ | ⟨i, j, hi, hj, hg, hr⟩)
      · refine ⟨i, 0, hi, by omega, ?_, ?_⟩
        · simpa using hg
        · simpa using hr
      · refine ⟨i, j + 1, hi, by omega, ?_, ?_⟩
        · have : iy + (j + 1) = iy + 1 + j := by omega
          rw [this]; exact hg
        · rw [hr]
          have : oy + step + (j : Int) * step = oy + ((j + 1 : Nat) : Int) * step := by
            rw [Int.natCast_add, Int.add_mul]; simp; omega
          rw [this]
    · rintro ⟨i, j, hi, hj, hg, hr⟩
      cases j with
      | zero =>
        left
        refine ⟨i, hi, ?_, ?_⟩
        · simpa using hg
        · simpa using hr
      | succ j =>
        right
        refine ⟨i, j, hi, by omega, ?_, ?_⟩
        · have : iy + 1 + j = iy + (j + 1) := by omega
          rw [this]; exact hg
        · rw [hr]
          have : oy + step + (j : Int) * step = oy + ((j + 1 : Nat) : Int) * step := by
            rw [Int.natCast_add, Int.add_mul]; simp; omega
          rw [this]

theorem mem_barLoop (cw ch step : Int) (r : Rect) :
    ∀ (code : List Bool) (ox : Int), r ∈ barLoop cw ch step code ox ↔
      ∃ j : Nat, code[j]? = some true ∧ r = ⟨ox + (j : Int) * step, 0, cw, ch⟩ := by
  intro code
  induction code with
  | nil => intro ox; simp [barLoop]
  | cons b bs ih =>
    intro ox
    simp only [barLoop, List.mem_append, ih]
    constructor
    · rintro (h | ⟨j, hg, hr⟩)
      · cases b with
        | false => simp at h
        | true => simp at h; exact ⟨0, by simp, by simp [h]⟩
      · refine ⟨j + 1, by simpa using hg, ?_⟩
        rw [hr]
        have : ox + step + (j : Int) * step = ox + ((j + 1 : Nat) : Int) * step := by
          rw [Int.natCast_add, Int.add_mul]; simp; omega
        rw [this]
    · rintro ⟨j, hg, hr⟩
      cases j with
      | zero =>
        left
        simp at hg hr
        simp [hg, hr]
      | succ j =>
        right
        refine ⟨j, by simpa using hg, ?_⟩
        rw [hr]
        have : ox + step + (j : Int) * step = ox + ((j + 1 : Nat) : Int) * step := by
          rw [Int.natCast_add, Int.add_mul]; simp; omega
        rw [this]

/-! ## block index of a pixel: `pad + i·s ≤ x < pad + i·s + s  ↔  i = (x - pad) / s` -/

theorem block_index (s d : Int) (i : Nat) (hs : 0 < s) (hd : 0 ≤ d) :
    ((i : Int) * s ≤ d ∧ d < (i : Int) * s + s) ↔ (d / s).toNat = i := by
  have hq : 0 ≤ d / s := Int.ediv_nonneg hd (Int.le_of_lt hs)
  constructor
  · rintro ⟨h1, h2⟩
    have a : (i : Int) ≤ d / s := (Int.le_ediv_iff_mul_le hs).2 h1
    have b : d / s < (i : Int) + 1 := (Int.ediv_lt_iff_lt_mul hs).2 (by rw [Int.add_mul]; omega)
    omega
  · intro h
    have hi : (i : Int) = d / s := by omega
    rw [hi]
    have a := Int.ediv_mul_le d (Int.ne_of_gt hs)
    have b := Int.lt_ediv_add_one_mul_self d hs
    rw [Int.add_mul] at b
    omega

/-- `d < n·s ↔ d / s < n` -/
theorem block_lt (s d : Int) (n : Nat) (hs : 0 < s) :
    d < (n : Int) * s ↔ d / s < (n : Int) := (Int.ediv_lt_iff_lt_mul hs).symm

/-! ## pixel formula of a regular grid -/

/-- A grid of `s x s` blocks drawn by `rowLoop` at `(left, top)` that fits into the `W x H` matrix:
    a pixel is black iff it lies in the symbol area and its block's module is dark. -/
theorem grid_px (mw mh : Nat) (m : Nat → Nat → Bool) (W H left top s : Int)
    (hs : 1 ≤ s) (hl : 0 ≤ left) (ht : 0 ≤ top)
    (hr : left + (mw : Int) * s ≤ W) (hb : top + (mh : Int) * s ≤ H) (x y : Int) :
    (Image.px ⟨W, H, rowLoop m mw left s s s mh 0 top⟩ x y = true) ↔
      (left ≤ x ∧ x < left + (mw : Int) * s ∧ top ≤ y ∧ y < top + (mh : Int) * s ∧
        m ((x - left) / s).toNat ((y - top) / s).toNat = true) := by
  have hs0 : 0 < s := by omega
  unfold Image.px
  simp only [Bool.and_eq_true, decide_eq_true_eq, List.any_eq_true, mem_rowLoop]
  constructor
  · rintro ⟨⟨⟨⟨hx0, hxW⟩, hy0⟩, hyH⟩, r, ⟨i, j, hi, hj, hg, rfl⟩, -, hc⟩
    simp only [Rect.covers, Bool.and_eq_true, decide_eq_true_eq] at hc
    obtain ⟨⟨⟨c1, c2⟩, c3⟩, c4⟩ := hc
    have hi' : (i : Int) + 1 ≤ (mw : Int) := by omega
    have hj' : (j : Int) + 1 ≤ (mh : Int) := by omega
    have e1 : ((i : Int) + 1) * s ≤ (mw : Int) * s := Int.mul_le_mul_of_nonneg_right hi' (by omega)
    have e2 : ((j : Int) + 1) * s ≤ (mh : Int) * s := Int.mul_le_mul_of_nonneg_right hj' (by omega)
    rw [Int.add_mul] at e1 e2
    have ni : 0 ≤ (i : Int) * s := Int.mul_nonneg (by omega) (by omega)
    have nj : 0 ≤ (j : Int) * s := Int.mul_nonneg (by omega) (by omega)
    have bi : ((x - left) / s).toNat = i :=
      (block_index s (x - left) i hs0 (by omega)).1 ⟨by omega, by omega⟩
    have bj : ((y - top) / s).toNat = j :=
      (block_index s (y - top) j hs0 (by omega)).1 ⟨by omega, by omega⟩
    refine ⟨by omega, by omega, by omega, by omega, ?_⟩
    rw [bi, bj]; simpa using hg
  · rintro ⟨h1, h2, h3, h4, hm⟩
    have dx : 0 ≤ x - left := by omega
    have dy : 0 ≤ y - top := by omega
    have qx : 0 ≤ (x - left) / s := Int.ediv_nonneg dx (by omega)
    have qy : 0 ≤ (y - top) / s := Int.ediv_nonneg dy (by omega)
    have lx : (x - left) / s < (mw : Int) := (block_lt s (x - left) mw hs0).1 (by omega)
    have ly : (y - top) / s < (mh : Int) := (block_lt s (y - top) mh hs0).1 (by omega)
    obtain ⟨bx1, bx2⟩ := (block_index s (x - left) ((x - left) / s).toNat hs0 dx).2 rfl
    obtain ⟨by1, by2⟩ := (block_index s (y - top) ((y - top) / s).toNat hs0 dy).2 rfl
    have ci : ((((x - left) / s).toNat : Nat) : Int) + 1 ≤ (mw : Int) := by omega
    have cj : ((((y - top) / s).toNat : Nat) : Int) + 1 ≤ (mh : Int) := by omega
    have e1 := Int.mul_le_mul_of_nonneg_right ci (Int.le_of_lt hs0)
    have e2 := Int.mul_le_mul_of_nonneg_right cj (Int.le_of_lt hs0)
    rw [Int.add_mul] at e1 e2
    refine ⟨⟨⟨⟨by omega, by omega⟩, by omega⟩, by omega⟩,
      ⟨left + (((x - left) / s).toNat : Int) * s, top + (((y - top) / s).toNat : Int) * s, s, s⟩,
      ⟨((x - left) / s).toNat, ((y - top) / s).toNat, by omega, by omega, by simpa using hm, by simp⟩, ?_, ?_⟩
    · simp only [Rect.accepted, Bool.and_eq_true, Bool.not_eq_true', Bool.or_eq_false_iff,
        decide_eq_false_iff_not]
      have n1 : 0 ≤ (((x - left) / s).toNat : Int) * s := Int.mul_nonneg (by omega) (by omega)
      have n2 : 0 ≤ (((y - top) / s).toNat : Int) * s := Int.mul_nonneg (by omega) (by omega)
      refine ⟨⟨⟨by omega, by omega⟩, ⟨by omega, by omega⟩⟩, ⟨by omega, by omega⟩⟩
    · simp only [Rect.covers, Bool.and_eq_true, decide_eq_true_eq]
      refine ⟨⟨⟨by omega, by omega⟩, by omega⟩, by omega⟩

/-- 1-D: bars of width `s` and full height drawn by `barLoop` at `left` that fit into the matrix -/
theorem bars_px (code : List Bool) (W H left s : Int)
    (hs : 1 ≤ s) (hl : 0 ≤ left) (hH : 1 ≤ H)
    (hr : left + (code.length : Int) * s ≤ W) (x y : Int) :
    (Image.px ⟨W, H, barLoop s H s code left⟩ x y = true) ↔
      (left ≤ x ∧ x < left + (code.length : Int) * s ∧ 0 ≤ y ∧ y < H ∧
        code[((x - left) / s).toNat]? = some true) := by
  have hs0 : 0 < s := by omega
  unfold Image.px
  simp only [Bool.and_eq_true, decide_eq_true_eq, List.any_eq_true, mem_barLoop]
  constructor
  · rintro ⟨⟨⟨⟨hx0, hxW⟩, hy0⟩, hyH⟩, r, ⟨i, hg, rfl⟩, -, hc⟩
    simp only [Rect.covers, Bool.and_eq_true, decide_eq_true_eq] at hc
    obtain ⟨⟨⟨c1, c2⟩, c3⟩, c4⟩ := hc
    have hilt : i < code.length := by
      rcases Nat.lt_or_ge i code.length with h | h
      · exact h
      · rw [List.getElem?_eq_none h] at hg; cases hg
    have hi' : (i : Int) + 1 ≤ (code.length : Int) := by omega
    have e1 : ((i : Int) + 1) * s ≤ (code.length : Int) * s := Int.mul_le_mul_of_nonneg_right hi' (by omega)
    rw [Int.add_mul] at e1
    have ni : 0 ≤ (i : Int) * s := Int.mul_nonneg (by omega) (by omega)
    have bi : ((x - left) / s).toNat = i :=
      (block_index s (x - left) i hs0 (by omega)).1 ⟨by omega, by omega⟩
    refine ⟨by omega, by omega, by omega, by omega, ?_⟩
    rw [bi]; exact hg
  · rintro ⟨h1, h2, h3, h4, hm⟩
    have dx : 0 ≤ x - left := by omega
    have qx : 0 ≤ (x - left) / s := Int.ediv_nonneg dx (by omega)
    have lx : (x - left) / s < (code.length : Int) := (block_lt s (x - left) code.length hs0).1 (by omega)
    obtain ⟨bx1, bx2⟩ := (block_index s (x - left) ((x - left) / s).toNat hs0 dx).2 rfl
    have ci : ((((x - left) / s).toNat : Nat) : Int) + 1 ≤ (code.length : Int) := by omega
    have e1 := Int.mul_le_mul_of_nonneg_right ci (Int.le_of_lt hs0)
    rw [Int.add_mul] at e1
    refine ⟨⟨⟨⟨by omega, by omega⟩, by omega⟩, by omega⟩,
      ⟨left + (((x - left) / s).toNat : Int) * s, 0, s, H⟩,
      ⟨((x - left) / s).toNat, hm, by simp⟩, ?_, ?_⟩
    · simp only [Rect.accepted, Bool.and_eq_true, Bool.not_eq_true', Bool.or_eq_false_iff,
        decide_eq_false_iff_not]
      have n1 : 0 ≤ (((x - left) / s).toNat : Int) * s := Int.mul_nonneg (by omega) (by omega)
      refine ⟨⟨⟨by omega, by omega⟩, ⟨by omega, by omega⟩⟩, ⟨by omega, by omega⟩⟩
    · simp only [Rect.covers, Bool.and_eq_true, decide_eq_true_eq]
      refine ⟨⟨⟨by omega, by omega⟩, by omega⟩, by omega⟩

/-! ## the band-wise row evaluation used by the driver is `px` -/

theorem row_getElem? (img : Image) (y : Int) (hy0 : 0 ≤ y) (hyH : y < img.h) (x : Nat) :
    (img.row y)[x]? = if x < img.w.toNat then some (img.px (x : Int) y) else none := by
  unfold Image.row Image.px
  simp only [List.getElem?_map]
  by_cases hx : x < img.w.toNat
  · rw [List.getElem?_range hx]
    simp only [hx, if_true, Option.map_some, Option.some.injEq]
    have h1 : (0 : Int) ≤ (x : Int) := by omega
    have h2 : (x : Int) < img.w := by omega
    simp only [h1, h2, hy0, hyH, decide_true, Bool.true_and, List.any_filter, Rect.covers]
    congr 1
    funext r
    cases r.accepted img.w img.h <;> cases decide (r.t ≤ y) <;> cases decide (y < r.t + r.h) <;> simp
  · simp only [hx, if_false]
    rw [List.getElem?_eq_none (by simpa using hx)]
    rfl

/-! ## the quantities of the property statement -/

/-- out = max(req, n + Q) -/
def outSize (req : Int) (n : Nat) (Q : Int) : Int := max req ((n : Int) + Q)
/-- per-axis scale ⌊out / (n+Q)⌋ -/
def axisScale (req : Int) (n : Nat) (Q : Int) : Int := outSize req n Q / ((n : Int) + Q)
/-- pad = ⌊(out − n·s)/2⌋ -/
def padOf (out : Int) (n : Nat) (s : Int) : Int := (out - (n : Int) * s) / 2

/-! ## arithmetic facts shared by the three renderers -/

theorem axis_facts (req : Int) (n : Nat) (Q : Int) (hn : 1 ≤ n) (hQ : 0 ≤ Q) :
    1 ≤ axisScale req n Q ∧ axisScale req n Q * ((n : Int) + Q) ≤ outSize req n Q ∧
    outSize req n Q < (axisScale req n Q + 1) * ((n : Int) + Q) := by
  have hA : 0 < (n : Int) + Q := by omega
  have hge : (n : Int) + Q ≤ outSize req n Q := by unfold outSize; omega
  refine ⟨?_, Int.ediv_mul_le _ (by omega), Int.lt_ediv_add_one_mul_self _ hA⟩
  unfold axisScale
  exact (Int.le_ediv_iff_mul_le hA).2 (by omega)

/-- a scale `s` between 1 and the axis scale leaves at least `Q·s` white pixels, split evenly -/
theorem pad_facts (out : Int) (n : Nat) (Q s a : Int) (hQ : 0 ≤ Q)
    (h1 : 1 ≤ s) (hsa : s ≤ a) (ha : a * ((n : Int) + Q) ≤ out) :
    0 ≤ (n : Int) * s ∧ 0 ≤ Q * s ∧ (n : Int) * s + Q * s ≤ out := by
  have h0 : 0 ≤ (n : Int) + Q := by omega
  have e : s * ((n : Int) + Q) ≤ a * ((n : Int) + Q) := Int.mul_le_mul_of_nonneg_right hsa h0
  rw [Int.mul_add, Int.mul_comm s n, Int.mul_comm s Q] at e
  exact ⟨Int.mul_nonneg (by omega) (by omega), Int.mul_nonneg hQ (by omega), by omega⟩

/-- centre sampling follows from the pixel formula (shared by QR and Data Matrix) -/
theorem centres_of_pixel (mw mh : Nat) (m : Nat → Nat → Bool) (img : Image) (s padX padY : Int)
    (hs1 : 1 ≤ s)
    (hpx : ∀ x y : Int, img.px x y = true ↔
        (padX ≤ x ∧ x < padX + (mw : Int) * s ∧ padY ≤ y ∧ y < padY + (mh : Int) * s ∧
          m ((x - padX) / s).toNat ((y - padY) / s).toNat = true)) :
    ∀ i j : Nat, i < mw → j < mh →
      img.px (padX + (i : Int) * s + s / 2) (padY + (j : Int) * s + s / 2) = m i j := by
  intro i j hi hj
  have hs0 : 0 < s := by omega
  have ei : ((i : Int) + 1) * s ≤ (mw : Int) * s := Int.mul_le_mul_of_nonneg_right (by omega) (by omega)
  have ej : ((j : Int) + 1) * s ≤ (mh : Int) * s := Int.mul_le_mul_of_nonneg_right (by omega) (by omega)
  rw [Int.add_mul] at ei ej
  have ni : 0 ≤ (i : Int) * s := Int.mul_nonneg (by omega) (by omega)
  have nj : 0 ≤ (j : Int) * s := Int.mul_nonneg (by omega) (by omega)
  have bi : ((padX + (i : Int) * s + s / 2 - padX) / s).toNat = i :=
    (block_index s _ i hs0 (by omega)).1 ⟨by omega, by omega⟩
  have bj : ((padY + (j : Int) * s + s / 2 - padY) / s).toNat = j :=
    (block_index s _ j hs0 (by omega)).1 ⟨by omega, by omega⟩
  have h := hpx (padX + (i : Int) * s + s / 2) (padY + (j : Int) * s + s / 2)
  rw [bi, bj] at h
  cases hm : m i j with
  | true => rw [h]; exact ⟨by omega, by omega, by omega, by omega, hm⟩
  | false =>
    cases hp : img.px (padX + (i : Int) * s + s / 2) (padY + (j : Int) * s + s / 2) with
    | false => rfl
    | true => rw [hp] at h; have := (h.1 rfl).2.2.2.2; rw [hm] at this; cases this

end Gzx.Render
