/-
  Root bound by synthetic division: a coefficient list of length n with n distinct roots in the field is
  identically zero.  Helper lemmas for Properties/C04.lean.  Core Lean only.
-/
import Gzx.Proofs.Poly
namespace Gzx.Proofs.Roots
open Gzx Gzx.GF Gzx.Ref.GF Gzx.Proofs.GF Gzx.Proofs.Poly

/-- Horner partial values at `b` *before* each coefficient (synthetic division by `x + b`): for start value 0
    this is `0 :: quotient` -/
def qs (prim b : Nat) : Nat → List Nat → List Nat
  | _, [] => []
  | h, c :: cs => h :: qs prim b (gmul prim b h ^^^ c) cs

theorem qs_length (prim b : Nat) : ∀ (p : List Nat) (h : Nat), (qs prim b h p).length = p.length
  | [], _ => rfl
  | c :: cs, h => by simp [qs, qs_length prim b cs]

theorem xor_cancel_right (x y : Nat) : x ^^^ y ^^^ y = x := by
  rw [Nat.xor_assoc, Nat.xor_self, Nat.xor_zero]

section field
variable {prim size : Nat} (ok : ParamsOK prim size)
include ok

theorem qs_inR (b : Nat) : ∀ (p : List Nat) (h : Nat), h < size → InR size p → InR size (qs prim b h p)
  | [], _, _, _ => InR.nil
  | c :: cs, h, hh, hp =>
    InR.cons hh (qs_inR b cs _ (xor_lt_size ok _ _ (gmul_lt ok _ _) hp.head) hp.tail)

/-- `p(a) = (a + b)·q(a) + p(b)` with accumulators -/
theorem synth_eval (a b : Nat) (ha : a < size) (hb : b < size) : ∀ (p : List Nat) (v qv h : Nat),
    InR size p → qv < size → h < size →
    v = gmul prim (a ^^^ b) qv ^^^ h →
    evalFrom prim a v p = gmul prim (a ^^^ b) (evalFrom prim a qv (qs prim b h p)) ^^^ evalFrom prim b h p
  | [], v, qv, h, _, _, _, hv => hv
  | c :: cs, v, qv, h, hp, hqv, hh, hv => by
    have hk : a ^^^ b < size := xor_lt_size ok a b ha hb
    show evalFrom prim a (gmul prim a v ^^^ c) cs =
      gmul prim (a ^^^ b) (evalFrom prim a (gmul prim a qv ^^^ h) (qs prim b (gmul prim b h ^^^ c) cs)) ^^^
        evalFrom prim b (gmul prim b h ^^^ c) cs
    apply synth_eval a b ha hb cs _ _ _ hp.tail (xor_lt_size ok _ _ (gmul_lt ok _ _) hh)
      (xor_lt_size ok _ _ (gmul_lt ok _ _) hp.head)
    -- a·((a+b)·qv + h) + c = (a+b)·(a·qv + h) + (b·h + c)
    have haq : gmul prim a qv < size := gmul_lt ok _ _
    have e1 : gmul prim a v = gmul prim (a ^^^ b) (gmul prim a qv) ^^^ gmul prim a h := by
      rw [hv, gmul_xor_right ok a _ _ (gmul_lt ok _ _) hh,
        ← gmul_assoc ok a _ qv ha hk hqv, gmul_comm ok a _ ha hk, gmul_assoc ok _ a qv hk ha hqv]
    have e2 : gmul prim (a ^^^ b) (gmul prim a qv ^^^ h) =
        gmul prim (a ^^^ b) (gmul prim a qv) ^^^ (gmul prim a h ^^^ gmul prim b h) := by
      rw [gmul_xor_right ok _ _ _ haq hh, gmul_xor_left ok a b h ha hb hh]
    rw [e1, e2]
    apply Nat.eq_of_testBit_eq; intro i
    simp only [Nat.testBit_xor]
    cases (gmul prim (a ^^^ b) (gmul prim a qv)).testBit i <;> cases (gmul prim a h).testBit i <;>
      cases (gmul prim b h).testBit i <;> cases c.testBit i <;> rfl

/-- the quotient of the synthetic division by `x + b` -/
def quot (prim b : Nat) (p : List Nat) : List Nat := (qs prim b 0 p).tail

omit ok in
theorem quot_length (b : Nat) (p : List Nat) : (quot prim b p).length = p.length - 1 := by
  unfold quot; rw [List.length_tail, qs_length]

theorem quot_inR (b : Nat) (p : List Nat) (hp : InR size p) : InR size (quot prim b p) := by
  intro x hx
  exact qs_inR ok b p 0 (zero_lt_size ok) hp x (List.mem_of_mem_tail hx)

theorem evalH_quot (a b : Nat) (ha : a < size) (hb : b < size) (p : List Nat) (hp : InR size p) :
    evalH prim a p = gmul prim (a ^^^ b) (evalH prim a (quot prim b p)) ^^^ evalH prim b p := by
  have hs := zero_lt_size ok
  have := synth_eval ok a b ha hb p 0 0 0 hp hs hs (by rw [gmul_zero_right ok]; rfl)
  unfold evalH quot
  rw [this]
  congr 2
  cases p with
  | nil => rfl
  | cons c cs =>
    show evalFrom prim a 0 (0 :: qs prim b _ cs) = evalFrom prim a 0 (qs prim b _ cs)
    exact evalH_zero_cons ok a _

/-- if the quotient is identically zero and `p(b) = 0` then `p` is identically zero -/
theorem zero_of_quot_zero (b : Nat) (hb : b < size) : ∀ (p : List Nat) (h : Nat), h = 0 →
    (∀ x, x ∈ (qs prim b h p).tail → x = 0) → evalFrom prim b h p = 0 → ∀ c, c ∈ p → c = 0
  | [], _, _, _, _ => fun c hc => by simp at hc
  | [c], h, hh, _, hev => by
    subst hh
    intro x hx
    simp at hx
    subst hx
    have : evalFrom prim b 0 [x] = x := by
      show gmul prim b 0 ^^^ x = x
      rw [gmul_zero_right ok, Nat.zero_xor]
    rw [this] at hev; exact hev
  | c :: c' :: cs, h, hh, hq, hev => by
    subst hh
    have hc : c = 0 := by
      have := hq (gmul prim b 0 ^^^ c) (by simp [qs])
      rw [gmul_zero_right ok, Nat.zero_xor] at this
      exact this
    subst hc
    have h0 : gmul prim b 0 ^^^ 0 = 0 := by rw [gmul_zero_right ok]; rfl
    have ih := zero_of_quot_zero b hb (c' :: cs) (gmul prim b 0 ^^^ 0) h0
      (fun x hx => hq x (by
        simp only [qs, List.tail_cons] at hx ⊢
        exact List.mem_cons_of_mem _ hx))
      hev
    intro x hx
    rcases List.mem_cons.1 hx with rfl | hx
    · rfl
    · exact ih x hx

/-- root bound: `n` distinct roots force a coefficient list of length `≤ n` to be identically zero -/
theorem zero_of_roots : ∀ (bs : List Nat) (p : List Nat), InR size p → bs.Nodup → (∀ b, b ∈ bs → b < size) →
    (∀ b, b ∈ bs → evalH prim b p = 0) → p.length ≤ bs.length → ∀ c, c ∈ p → c = 0
  | _, [], _, _, _, _, _ => fun c hc => by simp at hc
  | [], _ :: _, _, _, _, _, hlen => by simp at hlen
  | b :: bs, c0 :: cs, hp, hnd, hbs, hroots, hlen => by
    have hb : b < size := hbs b (by simp)
    have hnd' := List.nodup_cons.1 hnd
    have hq : ∀ x, x ∈ quot prim b (c0 :: cs) → x = 0 := by
      apply zero_of_roots bs (quot prim b (c0 :: cs)) (quot_inR ok b _ hp) hnd'.2
        (fun b' hb' => hbs b' (List.mem_cons_of_mem _ hb'))
      · intro b' hb'
        have hb'lt : b' < size := hbs b' (List.mem_cons_of_mem _ hb')
        have h1 := evalH_quot ok b' b hb'lt hb (c0 :: cs) hp
        rw [hroots b' (List.mem_cons_of_mem _ hb'), hroots b (by simp), Nat.xor_zero] at h1
        rcases gmul_eq_zero ok _ _ (xor_lt_size ok b' b hb'lt hb) (evalH_lt ok b' _ (quot_inR ok b _ hp)) h1.symm with h | h
        · exfalso
          have : b' = b := xor_eq_zero h
          subst this
          exact hnd'.1 hb'
        · exact h
      · rw [quot_length]; simp only [List.length_cons] at hlen ⊢; omega
    exact zero_of_quot_zero ok b hb (c0 :: cs) 0 rfl hq (hroots b (by simp))

end field
end Gzx.Proofs.Roots
