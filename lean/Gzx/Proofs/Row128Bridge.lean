/-
  wp oned128 — helper lemmas for Properties/C03Row128.lean (part 5): without the ASSUME_GS1 hint the `step` function of
  the row model is the symbol-level state machine `c128Step` of Gzx/Model/OneD.lean (plus the symbology modifier), so the
  symbol-level theorems of C03 / C10 (`code128_codeset_inv`, `code128_forced_inv`, …) apply to what the row decoder reads;
  the writer's module pattern as a run list.
-/
import Gzx.Proofs.Row128Top
set_option linter.unusedSimpArgs false
set_option linter.unusedVariables false
namespace Gzx.Row128
open Gzx Gzx.OneD Gzx.CheckDigit

def proj (s : St) : C128St :=
  ⟨s.codeSet, s.result, s.lastPrintable, s.upper, s.shiftUpper, s.nextShifted, s.lastCode, s.code, s.total, s.mult⟩

def projR : Res (St × Bool) → Res (C128St × Bool)
  | .ok (s', d) => .ok (proj s', d)
  | .error e => .error e

def newMod (s : St) : Nat := if s.result.length = 0 then 1 else if s.result.length = 1 then 2 else s.symMod

theorem fnc1_false (s : St) : fnc1 false s = { s with symMod := newMod s } := by
  unfold fnc1 newMod
  simp only [Bool.false_eq_true, if_false]
  split
  · rfl
  · split <;> rfl

macro "bridge_simp" : tactic =>
  `(tactic| simp [step, c128Step, projR, stepPre, stepBody, stepPost, proj, emit, fnc1_false, fnc4, np, *])

theorem step_proj_A (s : St) (code : Nat) (hA : s.codeSet = 101) : projR (step false s code) = c128Step (proj s) code := by
  obtain ⟨cs, res, lp, up, su, ns, lc, cd, tot, mu, sm⟩ := s
  simp only [] at hA
  subst hA
  by_cases hst : code = 103 ∨ code = 104 ∨ code = 105
  · simp [step, c128Step, hst, projR]
  · by_cases h64 : code < 64
    · have h106 : code ≠ 106 := by omega
      cases ns <;> bridge_simp
    · by_cases h96 : code < 96
      · have h106 : code ≠ 106 := by omega
        cases ns <;> bridge_simp
      · by_cases h102 : code = 102
        · subst h102; cases ns <;> bridge_simp
        · by_cases h97 : code = 97
          · subst h97; cases ns <;> bridge_simp
          · by_cases h96' : code = 96
            · subst h96'; cases ns <;> bridge_simp
            · by_cases h101 : code = 101
              · subst h101; cases ns <;> cases up <;> cases su <;> bridge_simp
              · by_cases h98 : code = 98
                · subst h98; cases ns <;> bridge_simp
                · by_cases h100 : code = 100
                  · subst h100; cases ns <;> bridge_simp
                  · by_cases h99 : code = 99
                    · subst h99; cases ns <;> bridge_simp
                    · by_cases h106 : code = 106
                      · subst h106; cases ns <;> bridge_simp
                      · cases ns <;> bridge_simp

theorem step_proj_B (s : St) (code : Nat) (hB : s.codeSet = 100) : projR (step false s code) = c128Step (proj s) code := by
  obtain ⟨cs, res, lp, up, su, ns, lc, cd, tot, mu, sm⟩ := s
  simp only [] at hB
  subst hB
  by_cases hst : code = 103 ∨ code = 104 ∨ code = 105
  · simp [step, c128Step, hst, projR]
  · by_cases h96 : code < 96
    · have h106 : code ≠ 106 := by omega
      cases ns <;> bridge_simp
    · by_cases h102 : code = 102
      · subst h102; cases ns <;> bridge_simp
      · by_cases h97 : code = 97
        · subst h97; cases ns <;> bridge_simp
        · by_cases h96' : code = 96
          · subst h96'; cases ns <;> bridge_simp
          · by_cases h100 : code = 100
            · subst h100; cases ns <;> cases up <;> cases su <;> bridge_simp
            · by_cases h98 : code = 98
              · subst h98; cases ns <;> bridge_simp
              · by_cases h101 : code = 101
                · subst h101; cases ns <;> bridge_simp
                · by_cases h99 : code = 99
                  · subst h99; cases ns <;> bridge_simp
                  · by_cases h106 : code = 106
                    · subst h106; cases ns <;> bridge_simp
                    · cases ns <;> bridge_simp

theorem step_proj_C (s : St) (code : Nat) (hC : s.codeSet = 99) : projR (step false s code) = c128Step (proj s) code := by
  obtain ⟨cs, res, lp, up, su, ns, lc, cd, tot, mu, sm⟩ := s
  simp only [] at hC
  subst hC
  by_cases hst : code = 103 ∨ code = 104 ∨ code = 105
  · simp [step, c128Step, hst, projR]
  · by_cases h100 : code < 100
    · have h106 : code ≠ 106 := by omega
      cases ns <;> bridge_simp
    · by_cases h102 : code = 102
      · subst h102; cases ns <;> bridge_simp
      · by_cases h101 : code = 101
        · subst h101; cases ns <;> bridge_simp
        · by_cases h100' : code = 100
          · subst h100'; cases ns <;> bridge_simp
          · by_cases h106 : code = 106
            · subst h106; cases ns <;> bridge_simp
            · cases ns <;> bridge_simp

/-- without ASSUME_GS1 the row model's `step` is `c128Step` on the shared fields -/
theorem step_proj (s : St) (code : Nat) (h : CS s) : projR (step false s code) = c128Step (proj s) code := by
  rcases h with h | h | h
  · exact step_proj_C s code h
  · exact step_proj_B s code h
  · exact step_proj_A s code h

theorem symRun_proj : ∀ (codes : List Nat) (s : St), CS s →
    (match symRun false codes s with | .ok s' => .ok (proj s') | .error e => .error e) = c128Run codes (proj s)
  | [], _, _ => rfl
  | c :: cs, s, h => by
    unfold symRun c128Run
    rw [← step_proj s c h]
    cases hstep : step false s c with
    | error e => rfl
    | ok r =>
      obtain ⟨s', d⟩ := r
      cases d with
      | true => rfl
      | false =>
        simp only [projR]
        exact symRun_proj cs s' (step_CS false s c s' false h hstep).1

/-- the text the symbol-level reader of the row model returns is what `code128ReadCodes` (C03 / C10) returns -/
theorem readSyms_text (sc : Nat) (hsc : sc = 103 ∨ sc = 104 ∨ sc = 105) (rest : List Nat) :
    (match readSyms false sc rest with | .ok r => .ok r.1 | .error e => .error e) = code128ReadCodes (sc :: rest) := by
  obtain ⟨cs, hcs, hcs3⟩ := codeSetOf_start sc hsc
  have hCS : CS (st0 cs sc) := by unfold CS st0; simp only []; omega
  have hrun := symRun_proj rest (st0 cs sc) hCS
  have hcs' : cs = (if sc = 103 then 101 else if sc = 104 then 100 else 99) := by
    rcases hsc with rfl | rfl | rfl <;> (simp [codeSetOf] at hcs; simp; omega)
  unfold readSyms code128ReadCodes
  rw [hcs]
  have hnot : ¬ (sc ≠ 103 ∧ sc ≠ 104 ∧ sc ≠ 105) := by omega
  simp only [hnot, if_false]
  have hp : proj (st0 cs sc) = ⟨(if sc = 103 then 101 else if sc = 104 then 100 else 99), [], true, false, false, false, 0, 0, sc, 0⟩ := by
    rw [← hcs']; rfl
  rw [← hp, ← hrun]
  cases symRun false rest (st0 cs sc) with
  | error e => rfl
  | ok s =>
    refine Eq.trans ?_ (show finish s = _ from rfl)
    simp only []
    cases finish s <;> rfl

/-- the module pattern the Code 128 writer draws for symbol characters `body ++ [STOP]`, as one run list -/
theorem code128Draw_runs (T : Tables) (hT : WF128 T.code128 = true) (body : List Nat) (hb : ∀ c ∈ body, c < 106) :
    code128Draw T (body ++ [106]) = .ok (appendPattern (fullRuns T.code128 (body ++ [106])) true) := by
  simp only [WF128, Bool.and_eq_true, beq_iff_eq, decide_eq_true_eq] at hT
  obtain ⟨⟨⟨hlen, h6⟩, h7⟩, hnd⟩ := hT
  generalize hP : T.code128 = P at *
  let W := body.map (fun c => P.getD c [])
  have hW : ∀ p ∈ W, p.length = 6 := by
    intro p hp
    obtain ⟨c, hc, rfl⟩ := List.mem_map.mp hp
    have := take_all_getD P 106 _ h6 c (hb c hc) (by have := hb c hc; omega)
    simp only [Bool.and_eq_true, beq_iff_eq, List.all_eq_true, decide_eq_true_eq] at this
    exact this.1
  unfold code128Draw
  rw [hP]
  have hm : (body ++ [106]).mapM (nth P) = .ok ((body ++ [106]).map (fun c => P.getD c [])) := by
    apply mapM_ok
    intro c hc
    simp only [List.mem_append, List.mem_singleton] at hc
    apply nth_getD
    rcases hc with hc | rfl
    · have := hb c hc; omega
    · omega
  simp only [hm, bind, Except.bind, pure, Except.pure, List.map_append, List.map_cons, List.map_nil,
    List.flatten_append, List.flatten_cons, List.flatten_nil, List.append_nil, List.map_map, fullRuns]
  have he : ∀ p ∈ W, p.length % 2 = 0 := fun p hp => by have := hW p hp; omega
  have := flatten_map_appendPattern W true he
  simp only [W, List.map_map] at this
  rw [this]
  exact congrArg _ (appendPattern_even_append _ _ true (flatten_length_even W he))

/-- shape of what the un-hinted writer emits for an ASCII content: start code, values below STOP, STOP -/
theorem codes_shape (contents codes : List Nat) (hascii : ∀ c ∈ contents, c < 128)
    (hcodes : code128Codes contents none = .ok codes) :
    ∃ body, codes = body ++ [106] ∧ ∀ c ∈ body, c < 106 := by
  unfold code128Codes at hcodes
  simp only [bind, Except.bind, pure, Except.pure, throw, throwThe, MonadExceptOf.throw] at hcodes
  split at hcodes
  · cases hcodes
  · split at hcodes
    · cases hcodes
    · split at hcodes
      · cases hcodes
      · rename_i emitted hloop
        cases hcodes
        cases contents with
        | nil => simp [c128Loop] at hloop; subst hloop; rename_i hlen _; simp at hlen
        | cons c rest =>
          have hc : c < 128 := hascii c (by simp)
          have adm := chooseCode_adm c rest 0 hc
          obtain ⟨f, hfuel⟩ : ∃ f, 2 * (c :: rest).length + 2 = f + 1 := ⟨2 * (c :: rest).length + 1, by omega⟩
          rw [hfuel] at hloop
          simp only [c128Loop] at hloop
          have hn0 : ¬ chooseCode (c :: rest) 0 = 0 := by rcases adm.1 with h | h | h <;> omega
          simp only [hn0, if_false, if_true] at hloop
          have hlt := loop_idx_lt f (c :: rest) false (chooseCode (c :: rest) 0) _ emitted hascii adm.1
            (by intro e he
                simp only [List.mem_singleton] at he
                subst he
                simp; split <;> (try split) <;> omega) hloop
          refine ⟨emitted.map (·.1) ++ [c128WriterSum emitted 0 1], by simp, ?_⟩
          intro x hx
          simp only [List.mem_append, List.mem_map, List.mem_singleton] at hx
          rcases hx with ⟨e, he, rfl⟩ | rfl
          · exact hlt e he
          · have : c128WriterSum emitted 0 1 < 103 := c128WriterSum_lt emitted 0 1
            omega

/-- shape of what the writer emits under a FORCE_CODE_SET hint -/
theorem codes_shape_forced (f : Nat) (hf : f = 99 ∨ f = 100 ∨ f = 101) (contents codes : List Nat)
    (hascii : ∀ c ∈ contents, c < 128) (h : code128Codes contents (some f) = .ok codes) :
    ∃ body, codes = body ++ [106] ∧ ∀ c ∈ body, c < 106 := by
  unfold code128Codes at h
  simp only [bind, Except.bind, pure, Except.pure, throw, throwThe, MonadExceptOf.throw] at h
  split at h
  · cases h
  · split at h
    · cases h
    · rename_i hall
      split at h
      · cases h
      · rename_i emitted hloop
        cases h
        have hok : ∀ c ∈ contents, c128CharOk (some f) c = true := by
          have : contents.all (c128CharOk (some f)) = true := by simpa using hall
          exact List.all_eq_true.mp this
        cases contents with
        | nil => exfalso; simp_all
        | cons c rest =>
          obtain ⟨fu, hfuel⟩ : ∃ fu, 2 * (c :: rest).length + 2 = fu + 1 := ⟨2 * (c :: rest).length + 1, by omega⟩
          rw [hfuel] at hloop
          simp only [c128Loop] at hloop
          have hn0 : ¬ f = 0 := by omega
          simp only [hn0, if_false, if_true] at hloop
          obtain ⟨em, hem, _, hlt, _⟩ := loop_spec_forced f hf fu (c :: rest) false _ emitted hascii hok
            (Or.inr trivial) hloop
          subst hem
          generalize hst : (if f = 101 then 103 else if f = 100 then 104 else 105) = st at *
          have hst' : st < 106 := by rcases hf with h | h | h <;> subst h <;> simp at hst <;> omega
          refine ⟨(st :: em.map (·.1)) ++ [c128WriterSum ((st, false) :: em) 0 1], by simp, ?_⟩
          intro x hx
          simp only [List.cons_append, List.mem_append, List.mem_cons, List.mem_map, List.mem_singleton,
            List.mem_nil_iff, or_false] at hx
          rcases hx with rfl | ⟨e, he, rfl⟩ | rfl
          · exact hst'
          · exact hlt e he
          · have := c128WriterSum_lt ((st, false) :: em) 0 1
            omega

end Gzx.Row128
