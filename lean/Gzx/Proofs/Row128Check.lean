/-
  wp oned128 — helper lemmas for Properties/C10Row128.lean: the running checksum of the row model's `for !done` loop.
-/
import Gzx.Proofs.Row128Bridge
import Gzx.Properties.C10
set_option linter.unusedSimpArgs false
set_option linter.unusedVariables false
namespace Gzx.Row128
open Gzx Gzx.OneD Gzx.CheckDigit

/-- the checksum fields of the loop state -/
def chk (s : St) : Nat × Nat × Nat × Nat := (s.total, s.mult, s.code, s.lastCode)

theorem fnc1_chk (g : Bool) (s : St) : chk (fnc1 g s) = chk s := by
  unfold fnc1 chk; simp only []; split <;> (try split) <;> (try split) <;> (try split) <;> rfl
theorem fnc4_chk (s : St) : chk (fnc4 s) = chk s := by
  unfold fnc4 chk; split <;> (try split) <;> rfl
theorem np_chk (s : St) (c : Nat) : chk (np s c) = chk s := by
  unfold np chk; split <;> rfl

theorem chk_ite (c : Prop) [Decidable c] (a b : St) (x : Nat × Nat × Nat × Nat) (ha : chk a = x) (hb : chk b = x) :
    chk (if c then a else b) = x := by
  split <;> assumption

/-- the `switch codeSet` block never touches the checksum variables -/
theorem stepBody_chk (g : Bool) (t : St) (code : Nat) : chk (stepBody g t code).1 = chk t := by
  unfold stepBody
  simp only [apply_ite Prod.fst]
  repeat' (apply chk_ite)
  all_goals (first | rfl | exact fnc1_chk g _ ▸ np_chk t code | exact fnc4_chk _ ▸ np_chk t code | exact np_chk t code | skip)
  all_goals (simp only [chk, np]; split <;> rfl)

theorem stepPost_chk (u : Bool) (s : St) : chk (stepPost u s) = chk s := by
  unfold stepPost; split <;> rfl

/-- one loop iteration on a code that is neither a start code nor STOP -/
theorem step_data (g : Bool) (s : St) (c : Nat) (hc : c < 103) (hcs : CS s) :
    ∃ s', step g s c = .ok (s', false) ∧ CS s' ∧
      chk s' = (s.total + (s.mult + 1) * c, s.mult + 1, c, s.code) := by
  obtain ⟨s', d, hstep⟩ := step_not_start g s c (by omega)
  have hd := step_CS g s c s' d hcs hstep
  have hdf : d = false := by rw [hd.2]; simp; omega
  subst hdf
  refine ⟨s', hstep, hd.1, ?_⟩
  unfold step at hstep
  rw [if_neg (by omega)] at hstep
  simp only [Except.ok.injEq, Prod.mk.injEq] at hstep
  rw [← hstep.1, stepPost_chk, stepBody_chk]
  have h106 : c ≠ 106 := by omega
  simp [chk, stepPre, h106]

/-- the iteration that decodes STOP -/
theorem step_stop (g : Bool) (s : St) (hcs : CS s) :
    ∃ s', step g s 106 = .ok (s', true) ∧ chk s' = (s.total, s.mult, 106, s.code) := by
  obtain ⟨s', d, hstep⟩ := step_not_start g s 106 (by omega)
  have hd := step_CS g s 106 s' d hcs hstep
  have hdt : d = true := by rw [hd.2]; simp
  subst hdt
  refine ⟨s', hstep, ?_⟩
  unfold step at hstep
  rw [if_neg (by omega)] at hstep
  simp only [Except.ok.injEq, Prod.mk.injEq] at hstep
  rw [← hstep.1, stepPost_chk, stepBody_chk]
  simp [chk, stepPre]

/-- the loop over data / check characters below 103 followed by STOP: total, multiplier and lastCode at the end -/
theorem symRun_data (g : Bool) : ∀ (codes : List Nat) (s : St), (∀ c ∈ codes, c < 103) → CS s →
    ∃ s', symRun g (codes ++ [106]) s = .ok s' ∧ s'.total = s.total + wsumFrom (s.mult + 1) codes ∧
      s'.mult = s.mult + codes.length ∧ s'.lastCode = (codes.getLast?).getD s.code
  | [], s, _, hcs => by
    obtain ⟨s', hstep, hchk⟩ := step_stop g s hcs
    refine ⟨s', by simp [symRun, hstep], ?_⟩
    simp only [chk, Prod.mk.injEq] at hchk
    simp [wsumFrom, hchk.1, hchk.2.1, hchk.2.2.2]
  | c :: cs, s, h, hcs => by
    obtain ⟨s1, hstep, hcs1, hchk⟩ := step_data g s c (h c (by simp)) hcs
    obtain ⟨s', hrun, h1, h2, h3⟩ := symRun_data g cs s1 (fun x hx => h x (by simp [hx])) hcs1
    simp only [chk, Prod.mk.injEq] at hchk
    refine ⟨s', by simp [symRun, hstep, hrun], ?_, ?_, ?_⟩
    · rw [h1, hchk.1, hchk.2.1]; simp only [wsumFrom]; omega
    · rw [h2, hchk.2.1]; simp; omega
    · rw [h3, hchk.2.2.1]
      cases cs with
      | nil => simp
      | cons x xs =>
        have : ∃ l, (x :: xs).getLast? = some l := by
          cases hl : (x :: xs).getLast? with
          | none => simp at hl
          | some l => exact ⟨l, rfl⟩
        obtain ⟨l, hl⟩ := this
        simp [List.getLast?_cons_cons, hl]

end Gzx.Row128
