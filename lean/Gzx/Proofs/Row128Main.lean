/-
  wp oned128 — helper lemmas for Properties/C03Row128.lean (part 3): the `for !done` loop of DecodeRow on a row that
  carries symbol characters `codes` at `s` pixels per module is the symbol-level reader `symRun` on `codes`; the stop
  pattern's last bar and the clipped trailing quiet-zone test; the whole DecodeRow on a drawn symbol.
-/
import Gzx.Proofs.Row128Start
set_option linter.unusedSimpArgs false
set_option linter.unusedVariables false
namespace Gzx.Row128
open Gzx Gzx.OneD

/-! ## the symbol-level reader -/

/-- the `for !done` loop on already classified symbol characters -/
def symRun (gs1 : Bool) : List Nat → St → Res St
  | [], _ => .error .notFound
  | c :: cs, s =>
    match step gs1 s c with
    | .error e => .error e
    | .ok (s', true) => .ok s'
    | .ok (s', false) => symRun gs1 cs s'

/-- what DecodeRow returns for the symbol characters `start :: rest` (text and symbology modifier) -/
def readSyms (gs1 : Bool) (start : Nat) (rest : List Nat) : Res (List Nat × Nat) :=
  match codeSetOf start with
  | none => .error .format
  | some cs =>
    match symRun gs1 rest (st0 cs start) with
    | .error e => .error e
    | .ok s =>
      match finish s with
      | .error e => .error e
      | .ok t => .ok (t, s.symMod)

/-! ## code set invariant, `done` exactly at STOP -/

def CS (s : St) : Prop := s.codeSet = 99 ∨ s.codeSet = 100 ∨ s.codeSet = 101

def mem3 (x : Nat) : Prop := x = 99 ∨ x = 100 ∨ x = 101

theorem mem3_ite (c : Prop) [Decidable c] (a b : Nat) (ha : mem3 a) (hb : mem3 b) : mem3 (if c then a else b) := by
  split <;> assumption

theorem stepBody_CS (gs1 : Bool) (t : St) (code : Nat) (h : CS t) : CS (stepBody gs1 t code).1 := by
  have h' : mem3 t.codeSet := h
  show mem3 (stepBody gs1 t code).1.codeSet
  unfold stepBody
  simp only [apply_ite Prod.fst, apply_ite St.codeSet, emit, fnc1_codeSet, fnc4_codeSet, np_codeSet]
  repeat' (apply mem3_ite)
  all_goals (first | exact h' | exact Or.inl rfl | exact Or.inr (Or.inl rfl) | exact Or.inr (Or.inr rfl))

theorem stepBody_done (gs1 : Bool) (t : St) (code : Nat) (h : CS t) : (stepBody gs1 t code).2 = decide (code = 106) := by
  unfold CS at h
  unfold stepBody
  simp only [apply_ite Prod.snd]
  by_cases h106 : code = 106
  · subst h106
    rcases h with h | h | h <;> simp [h]
  · rcases h with h | h | h <;> simp [h, h106]

theorem stepPost_CS (u : Bool) (s : St) (h : CS s) : CS (stepPost u s) := by
  unfold stepPost CS at *
  cases u with
  | false => simpa using h
  | true => simp only [if_true]; split <;> simp

theorem step_CS (gs1 : Bool) (s : St) (code : Nat) (s' : St) (d : Bool) (hcs : CS s)
    (h : step gs1 s code = .ok (s', d)) : CS s' ∧ d = decide (code = 106) := by
  unfold step at h
  split at h
  · cases h
  · simp only [Except.ok.injEq, Prod.mk.injEq] at h
    have hpre : CS (stepPre s code) := by unfold CS at *; rw [stepPre_codeSet]; exact hcs
    refine ⟨?_, ?_⟩
    · rw [← h.1]; exact stepPost_CS _ _ (stepBody_CS gs1 _ code hpre)
    · rw [← h.2]; exact stepBody_done gs1 _ code hpre

/-! ## the main loop on a drawn symbol -/

/-- run widths of symbol characters `codes` (each pattern cut to its six counted elements) at `s` pixels per module -/
def codeRuns (P : List (List Nat)) (s : Nat) (codes : List Nat) : List Nat :=
  (codes.map (fun c => ((P.getD c []).take 6).map (s * ·))).flatten

theorem codeRuns_cons (P : List (List Nat)) (s c : Nat) (codes : List Nat) :
    codeRuns P s (c :: codes) = ((P.getD c []).take 6).map (s * ·) ++ codeRuns P s codes := rfl

theorem step_not_start (gs1 : Bool) (st : St) (c : Nat) (h : ¬ (c = 103 ∨ c = 104 ∨ c = 105)) :
    ∃ s' d, step gs1 st c = .ok (s', d) := by
  unfold step
  rw [if_neg h]
  exact ⟨_, _, rfl⟩

theorem mainLoop_codes {P : List (List Nat)} (hP : PatTable P 6 11) (h106 : 106 < P.length) (s : Nat) (hs : 0 < s)
    (row : List Bool) (gs1 : Bool) :
    ∀ (body : List Nat) (off : Nat) (st : St) (raw : List Nat) (lastStart : Nat) (tailW : List Nat) (fuel : Nat),
    CS st → (∀ c ∈ body, c < P.length ∧ c ≠ 106) → body.length + 1 ≤ fuel →
    RowAt row off (codeRuns P s (body ++ [106]) ++ tailW) true →
    mainLoop exactDom P row gs1 fuel st ⟨raw, lastStart, off⟩ =
      match symRun gs1 (body ++ [106]) st with
      | .error e => .error e
      | .ok st' => .ok (st', ⟨(body ++ [106]).reverse ++ raw, off + s * 11 * body.length,
                               off + s * 11 * (body.length + 1)⟩) := by
  intro body
  induction body with
  | nil =>
    intro off st raw lastStart tailW fuel hcs _ hfuel hrow
    obtain ⟨f, rfl⟩ : ∃ f, fuel = f + 1 := ⟨fuel - 1, by simp at hfuel; omega⟩
    have hcr : codeRuns P s ([] ++ [106]) = (P[106].take 6).map (s * ·) := by
      have := getD_eq_getElem P 106 [] h106
      simp only [List.nil_append, codeRuns, List.map_cons, List.map_nil, List.flatten_cons, List.flatten_nil,
        List.append_nil, this]
    rw [hcr] at hrow
    have hdec := decodeCode_at hP 106 h106 s hs tailW true hrow
    obtain ⟨s', d, hstep⟩ := step_not_start gs1 st 106 (by omega)
    have hd := (step_CS gs1 st 106 s' d hcs hstep).2
    simp only [decide_true] at hd
    subst hd
    have hsum : sumL ((P[106].take 6).map (s * ·)) = s * 11 := by
      rw [sumL_scale, (hP.shape P[106] (List.getElem_mem h106)).2.1]
    unfold mainLoop
    simp only [hdec, hstep, List.nil_append, symRun, hsum, List.reverse_cons, List.reverse_nil, List.length_nil,
      Nat.mul_zero, Nat.add_zero, Nat.zero_add, Nat.mul_one, List.singleton_append]
  | cons c body ih =>
    intro off st raw lastStart tailW fuel hcs hb hfuel hrow
    obtain ⟨f, rfl⟩ : ∃ f, fuel = f + 1 := ⟨fuel - 1, by simp at hfuel; omega⟩
    have hc := hb c (by simp)
    rw [List.cons_append, codeRuns_cons, getD_eq_getElem P c [] hc.1, List.append_assoc] at hrow
    have hdec := decodeCode_at hP c hc.1 s hs _ true hrow
    have hsum : sumL ((P[c].take 6).map (s * ·)) = s * 11 := by
      rw [sumL_scale, (hP.shape P[c] (List.getElem_mem hc.1)).2.1]
    have hadv := hrow.advance_even _ _ (by
      have := (hP.shape P[c] (List.getElem_mem hc.1)).1
      simp; omega)
    rw [hsum] at hadv
    unfold mainLoop
    simp only [hdec, List.cons_append, symRun, hsum]
    cases hstep : step gs1 st c with
    | error e => rfl
    | ok r =>
      obtain ⟨s', d⟩ := r
      have hd := step_CS gs1 st c s' d hcs hstep
      have hdf : d = false := by rw [hd.2]; simp [hc.2]
      subst hdf
      simp only []
      rw [ih (off + s * 11) s' (c :: raw) off tailW f hd.1 (fun x hx => hb x (by simp [hx]))
        (by simp at hfuel ⊢; omega) hadv]
      cases symRun gs1 (body ++ [106]) s' with
      | error e => rfl
      | ok st' =>
        simp only [List.reverse_cons, List.append_assoc, List.singleton_append, List.length_cons,
          Except.ok.injEq, Prod.mk.injEq, Pos.mk.injEq, true_and]
        refine ⟨?_, ?_⟩
        · rw [Nat.mul_add]; omega
        · rw [Nat.mul_add (s * 11) (body.length + 1) 1]; omega

/-! ## after the loop: the stop pattern's last bar and the clipped quiet-zone test -/

theorem getNextUnset_replicate_true (w : Nat) (X : List Bool) (hX : X = [] ∨ X.head? = some false) :
    getNextUnset (List.replicate w true ++ X) 0 = w := by
  induction w with
  | zero =>
    rcases hX with rfl | hX
    · rfl
    · cases X with
      | nil => simp at hX
      | cons b bs => simp at hX; subst hX; simp [getNextUnset]
  | succ w ih => simp only [List.replicate_succ, List.cons_append, getNextUnset]; simp [ih]; omega

/-- 0 or 1 trailing white run -/
def tailQ (rq : Nat) : List Nat := if rq = 0 then [] else [rq]

theorem tailQ_pos (rq : Nat) : ∀ w ∈ tailQ rq, 0 < w := by
  intro w hw
  unfold tailQ at hw
  split at hw
  · simp at hw
  · simp at hw; omega

theorem appendPattern_tailQ (rq : Nat) : appendPattern (tailQ rq) false = List.replicate rq false := by
  unfold tailQ
  split
  · rename_i h; subst h; rfl
  · simp [appendPattern]

theorem getNextUnset_bar {row : List Bool} {off w rq : Nat} (h : RowAt row off (w :: tailQ rq) true) :
    getNextUnset row off = off + w := by
  rw [getNextUnset_drop row off h.le, h.drop]
  simp only [appendPattern, Bool.not_true, appendPattern_tailQ]
  rw [getNextUnset_replicate_true]
  cases rq with
  | zero => exact Or.inl rfl
  | succ n => exact Or.inr (by simp [List.replicate_succ])

theorem isRangeWhite_tail {row : List Bool} {off rq : Nat} (h : RowAt row off (tailQ rq) false) (e : Nat)
    (he1 : off ≤ e) (he2 : e ≤ row.length) : isRangeWhite row off e = true := by
  unfold isRangeWhite
  rw [if_neg (by omega), h.drop, appendPattern_tailQ]
  simp [List.all_eq_true]

/-! ## the row the theorems talk about -/

/-- the full patterns of the symbol characters, as the writer draws them -/
def fullRuns (P : List (List Nat)) (codes : List Nat) : List Nat := (codes.map (fun c => P.getD c [])).flatten

/-- `WF128` (107 rows; six positive widths, STOP seven; pairwise distinct) plus what the row reader needs: the rows cut
    to their six counted elements are still pairwise distinct and all sum to 11 modules -/
def wfRow128B (P : List (List Nat)) : Bool :=
  WF128 P && decide (P.map (List.take 6)).Nodup && P.all (fun q => sumL (q.take 6) == 11)

theorem wfRow128_facts (P : List (List Nat)) (h : wfRow128B P = true) :
    P.length = 107 ∧ PatTable P 6 11 ∧
    (∀ (c : Nat) (hc : c < P.length), c < 106 → P[c].length = 6) ∧
    (∀ (hc : 106 < P.length), P[106].length = 7 ∧ ∀ w ∈ P[106], 0 < w) := by
  simp only [wfRow128B, WF128, Bool.and_eq_true, beq_iff_eq, decide_eq_true_eq, List.all_eq_true] at h
  obtain ⟨⟨⟨⟨⟨hlen, h6⟩, h7⟩, _⟩, hnd⟩, hsum⟩ := h
  have hlt6 : ∀ (c : Nat) (hc : c < P.length), c < 106 → P[c].length = 6 ∧ ∀ w ∈ P[c], 0 < w := by
    intro c hc hc6
    have hm : P[c] ∈ P.take 106 := by
      have : (P.take 106)[c]'(by simp; omega) = P[c] := by simp
      rw [← this]; exact List.getElem_mem _
    exact h6 _ hm
  have hstop : ∀ (hc : 106 < P.length), P[106].length = 7 ∧ ∀ w ∈ P[106], 0 < w := by
    intro hc
    have hm : P[106] ∈ P.drop 106 := by
      have : (P.drop 106)[0]'(by simp; omega) = P[106] := by simp
      rw [← this]; exact List.getElem_mem _
    exact h7 _ hm
  refine ⟨hlen, ⟨hnd, ?_, by omega⟩, fun c hc h6' => (hlt6 c hc h6').1, hstop⟩
  intro q hq
  obtain ⟨c, hc, rfl⟩ := List.getElem_of_mem hq
  refine ⟨?_, hsum _ hq, ?_⟩
  · by_cases h6' : c < 106
    · rw [(hlt6 c hc h6').1]; omega
    · have : c = 106 := by omega
      subst this
      rw [(hstop hc).1]; omega
  · intro w hw
    have hw' := List.mem_of_mem_take hw
    by_cases h6' : c < 106
    · exact (hlt6 c hc h6').2 w hw'
    · have : c = 106 := by omega
      subst this
      exact (hstop hc).2 w hw'

end Gzx.Row128
