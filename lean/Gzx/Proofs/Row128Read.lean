/-
  wp oned128 — helper lemmas for Properties/C03Row128.lean (part 1): best-match loops of the exact interpretation on
  exact multiples of a table pattern; `decodeCode` at a run boundary; the generic counter-window loop (`genLoop`) of which
  `code128FindStartPattern` and `itfReader_findGuardPattern` are instances, and its behaviour on a first-attempt match.
-/
import Gzx.Proofs.Row128Total
import Gzx.Proofs.RowITFTotal
import Gzx.Proofs.UpceanRead
set_option linter.unusedSimpArgs false
set_option linter.unusedVariables false
namespace Gzx.Row128
open Gzx Gzx.OneD

/-! ## PatternMatchVariance sees only the first `len(counters)` pattern entries -/

theorem pmv_take (c q : List Nat) (a b : Nat) (h : c.length ≤ q.length) :
    pmv c q a b = pmv c (q.take c.length) a b := by
  unfold pmv RunLength.patternMatchVariance
  have h1 : ¬ q.length < c.length := by omega
  have h2 : ¬ (q.take c.length).length < c.length := by simp; omega
  simp only [h1, h2, if_false, List.take_take, Nat.min_self]

/-- a table whose rows, cut to `len` entries, are pairwise distinct, of positive widths with the same sum `M` -/
structure PatTable (P : List (List Nat)) (len M : Nat) : Prop where
  nodup : (P.map (List.take len)).Nodup
  shape : ∀ q ∈ P, len ≤ q.length ∧ sumL (q.take len) = M ∧ ∀ w ∈ q.take len, 0 < w
  lenPos : 0 < len

theorem PatTable.Mpos {P len M} (h : PatTable P len M) (j : Nat) (hj : j < P.length) : 0 < M := by
  have hq := h.shape P[j] (List.getElem_mem hj)
  rw [← hq.2.1]
  apply sumL_pos _ _ hq.2.2
  intro e
  have h1 : (P[j].take len).length = len := by rw [List.length_take]; exact Nat.min_eq_left hq.1
  rw [e] at h1
  have := h.lenPos
  simp at h1
  omega

/-! ## the best loop of the exact interpretation -/

theorem bestLoopD_stay (c : List Nat) (a b : Nat) (den : Nat) :
    ∀ (ps : List (List Nat)) (i : Nat) (bm : Option Nat),
    (∀ q ∈ ps, ∃ r, pmv c q a b = .ok r) →
    bestLoopD exactDom c a b ps i (some (0, den)) bm = .ok bm := by
  intro ps
  induction ps with
  | nil => intro i bm _; rfl
  | cons q ps ih =>
    intro i bm hall
    obtain ⟨r, hr⟩ := hall q (by simp)
    have hrest : ∀ q ∈ ps, ∃ r, pmv c q a b = .ok r := fun q' h' => hall q' (by simp [h'])
    have hr' : exactDom.pmv c q a b = .ok r := hr
    simp only [bestLoopD, hr']
    have : exactDom.lt r (some (0, den)) = false := by
      show fracLtO r (some (0, den)) = false
      cases r with
      | none => rfl
      | some v => simp [fracLtO]
    simp only [this, Bool.false_eq_true, if_false]
    exact ih _ _ hrest

theorem bestLoopD_pick (c : List Nat) (a b : Nat) (den : Nat) (hden : 0 < den) :
    ∀ (ps : List (List Nat)) (j i : Nat) (bn bd : Nat) (bm : Option Nat) (hj : j < ps.length),
    0 < bn →
    pmv c ps[j] a b = .ok (some (0, den)) →
    (∀ q ∈ ps.take j, pmv c q a b = .ok none ∨ ∃ n d, pmv c q a b = .ok (some (n, d)) ∧ 0 < n) →
    (∀ q ∈ ps.drop (j + 1), ∃ r, pmv c q a b = .ok r) →
    bestLoopD exactDom c a b ps i (some (bn, bd)) bm = .ok (some (i + j)) := by
  intro ps
  induction ps with
  | nil => intro j i bn bd bm hj; simp at hj
  | cons q ps ih =>
    intro j i bn bd bm hj hb hhit hbefore hafter
    cases j with
    | zero =>
      simp only [List.getElem_cons_zero] at hhit
      have hhit' : exactDom.pmv c q a b = .ok (some (0, den)) := hhit
      simp only [bestLoopD, hhit']
      have : exactDom.lt (some (0, den)) (some (bn, bd)) = true := by
        change fracLtO (some (0, den)) (some (bn, bd)) = true
        simp only [fracLtO, Nat.zero_mul, decide_eq_true_eq]
        exact Nat.mul_pos hb hden
      simp only [this, if_true]
      exact bestLoopD_stay c a b den ps _ _ (by simpa using hafter)
    | succ j =>
      have hj' : j < ps.length := by simpa using hj
      have hq := hbefore q (by simp)
      have hbefore' : ∀ q ∈ ps.take j, pmv c q a b = .ok none ∨ ∃ n d, pmv c q a b = .ok (some (n, d)) ∧ 0 < n :=
        fun q' h' => hbefore q' (by simp [h'])
      have hafter' : ∀ q ∈ ps.drop (j + 1), ∃ r, pmv c q a b = .ok r := by simpa using hafter
      have hhit' : pmv c ps[j] a b = .ok (some (0, den)) := by simpa using hhit
      have e : i + (j + 1) = i + 1 + j := by omega
      rw [e]
      rcases hq with hq | ⟨n, d, hq, hn⟩
      · have hq' : exactDom.pmv c q a b = .ok none := hq
        simp only [bestLoopD, hq']
        have : exactDom.lt none (some (bn, bd)) = false := rfl
        simp only [this, Bool.false_eq_true, if_false]
        exact ih j (i + 1) bn bd bm hj' hb hhit' hbefore' hafter'
      · have hq' : exactDom.pmv c q a b = .ok (some (n, d)) := hq
        simp only [bestLoopD, hq']
        split
        · exact ih j (i + 1) n d (some i) hj' hn hhit' hbefore' hafter'
        · exact ih j (i + 1) bn bd bm hj' hb hhit' hbefore' hafter'

/-- on `s`·(row `j` cut to `len`) the best loop over the whole table returns `j` -/
theorem bestLoopD_table {P : List (List Nat)} {len M : Nat} (hP : PatTable P len M) (j : Nat) (hj : j < P.length)
    (s : Nat) (hs : 0 < s) (a b bn bd : Nat) (hbn : 0 < bn) (bm : Option Nat) (i : Nat) :
    bestLoopD exactDom ((P[j].take len).map (s * ·)) a b P i (some (bn, bd)) bm = .ok (some (i + j)) := by
  have hq := hP.shape P[j] (List.getElem_mem hj)
  have hM := hP.Mpos j hj
  have hclen : ((P[j].take len).map (s * ·)).length = len := by simp; omega
  have htl : ∀ q ∈ P, (q.take len).length = len := fun q hqm => by
    have := (hP.shape q hqm).1
    simp; omega
  have hpmv : ∀ q ∈ P, pmv ((P[j].take len).map (s * ·)) q a b = pmv ((P[j].take len).map (s * ·)) (q.take len) a b :=
    fun q hqm => by
      have := pmv_take ((P[j].take len).map (s * ·)) q a b (by rw [hclen]; exact (hP.shape q hqm).1)
      rw [hclen] at this
      exact this
  have := bestLoopD_pick ((P[j].take len).map (s * ·)) a b (sumL (P[j].take len) * (s * sumL (P[j].take len)))
    (by rw [hq.2.1]; exact Nat.mul_pos hM (Nat.mul_pos hs hM)) P j i bn bd bm hj hbn
    (by rw [hpmv _ (List.getElem_mem hj)]; exact pmv_multiple (P[j].take len) s a b hs)
    (by
      intro q hqm
      have hqP := List.mem_of_mem_take hqm
      have hqs := hP.shape q hqP
      rw [hpmv q hqP]
      refine pmv_ne (P[j].take len) (q.take len) s a b hs (by rw [htl q hqP, htl _ (List.getElem_mem hj)])
        (by rw [hqs.2.1, hq.2.1]) (by rw [hq.2.1]; exact hM) ?_
      intro e
      -- q precedes P[j] in the table: their cuts differ because the cut table has no duplicates
      have hnd := hP.nodup
      have h1 : (P.map (List.take len))[j]'(by simpa using hj) = P[j].take len := by simp
      have hmem : q.take len ∈ (P.map (List.take len)).take j := by
        rw [← List.map_take]
        exact List.mem_map_of_mem hqm
      have := nodup_take_ne (P.map (List.take len)) hnd j (by simpa using hj) _ hmem
      rw [h1] at this
      exact this e.symm)
    (by
      intro q hqm
      have hqP := List.mem_of_mem_drop hqm
      exact Properties.C20.pmv_total _ _ a b (by rw [hclen]; exact (hP.shape q hqP).1))
  exact this

/-! ## decodeCode at a run boundary -/

theorem decodeCode_at {row off} {P : List (List Nat)} (hP : PatTable P 6 11) (j : Nat) (hj : j < P.length)
    (s : Nat) (hs : 0 < s) (rest : List Nat) (col : Bool)
    (h : RowAt row off ((P[j].take 6).map (s * ·) ++ rest) col) :
    decodeCode exactDom P row off = .ok (j, (P[j].take 6).map (s * ·)) := by
  have hq := hP.shape P[j] (List.getElem_mem hj)
  have hl6 : ((P[j].take 6).map (s * ·)).length = 6 := by simp; omega
  have hrec : RunLength.recordPattern row off 6 = .ok ((P[j].take 6).map (s * ·)) := by
    rw [Properties.C20.recordPattern_eq_runs row off 6 (by omega), h.drop, runs_appendPattern _ _ h.pos]
    have hl : ((P[j].take 6).map (s * ·) ++ rest).length ≥ 6 := by rw [List.length_append, hl6]; omega
    simp only [hl, if_true]
    rw [List.take_left' hl6]
  have hbest := bestLoopD_table hP j hj s hs 7 10 1 4 (by omega) none 0
  rw [Nat.zero_add] at hbest
  unfold decodeCode
  rw [hrec]
  simp only [wrapNF]
  have hb : bestLoopD exactDom ((P[j].take 6).map (s * ·)) 7 10 P 0 (exactDom.frac 1 4) none = .ok (some j) := hbest
  rw [hb]

/-! ## the counter-window loop shared by code128FindStartPattern and itfReader_findGuardPattern -/

/-- `check ps i counters`: what happens when the window is full at pixel `i` — `some r` returns `r`, `none` shifts the
    window by two counters -/
def genLoop {β : Type} (n : Nat) (check : Nat → Nat → List Nat → Res (Option β)) :
    List Bool → Nat → List Nat → Nat → Nat → Bool → Res β
  | [], _, _, _, _, _ => .error .notFound
  | b :: bs, i, cs, pos, ps, isWhite =>
    if b != isWhite then
      match incrChk cs pos with
      | .error e => .error e
      | .ok cs' => genLoop n check bs (i + 1) cs' pos ps isWhite
    else if pos + 1 = n then
      match check ps i cs with
      | .error e => .error e
      | .ok (some r) => .ok r
      | .ok none =>
        match cs with
        | c0 :: c1 :: tl =>
          if pos < 2 then .error (.panic "slice bounds out of range")
          else genLoop n check bs (i + 1) (tl ++ [1, 0]) (pos - 1) (ps + c0 + c1) (!isWhite)
        | _ => .error (.panic "index out of range")
    else
      if pos + 1 < cs.length then genLoop n check bs (i + 1) (cs.set (pos + 1) 1) (pos + 1) ps (!isWhite)
      else .error (.panic "index out of range")

theorem incrChk_mid (pre : List Nat) (k : Nat) (zs : List Nat) :
    incrChk (pre ++ k :: zs) pre.length = .ok (pre ++ (k + 1) :: zs) := by
  unfold incrChk
  rw [if_pos (by simp), incrAt_mid]

theorem genLoop_same {β : Type} (n : Nat) (check : Nat → Nat → List Nat → Res (Option β)) (m : Nat) (col : Bool)
    (tail : List Bool) (x : Nat) (pre : List Nat) (k : Nat) (zs : List Nat) (ps : Nat) :
    genLoop n check (List.replicate m col ++ tail) x (pre ++ k :: zs) pre.length ps (!col)
      = genLoop n check tail (x + m) (pre ++ (k + m) :: zs) pre.length ps (!col) := by
  induction m generalizing x k with
  | zero => simp
  | succ m ih =>
    have hc : (col != !col) = true := by cases col <;> rfl
    simp only [List.replicate_succ, List.cons_append, genLoop, hc, if_true, incrChk_mid]
    rw [ih]
    have e1 : x + 1 + m = x + (m + 1) := by omega
    have e2 : k + 1 + m = k + (m + 1) := by omega
    rw [e1, e2]

/-- the window fills with the runs `k+m, post…` and the check at the first pixel of the following run succeeds -/
theorem genLoop_match {β : Type} (n : Nat) (check : Nat → Nat → List Nat → Res (Option β)) (post : List Nat) :
    ∀ (pre : List Nat) (k m : Nat) (zs : List Nat) (w : Nat) (rest : List Nat) (col : Bool) (x ps : Nat) (r : β),
    pre.length + 1 + post.length = n → zs.length = post.length → (∀ p ∈ post, 0 < p) → 0 < w →
    check ps (x + m + sumL post) (pre ++ (k + m) :: post) = .ok (some r) →
    genLoop n check (List.replicate m col ++ appendPattern (post ++ w :: rest) (!col)) x (pre ++ k :: zs) pre.length
        ps (!col) = .ok r := by
  induction post with
  | nil =>
    intro pre k m zs w rest col x ps r hlen hzs _ hw hv
    have hz : zs = [] := by simpa using hzs
    subst hz
    obtain ⟨w', rfl⟩ : ∃ w', w = w' + 1 := ⟨w - 1, by omega⟩
    rw [genLoop_same]
    have hc : ((!col) != !col) = false := by cases col <;> rfl
    have hl : pre.length + 1 = n := by simpa using hlen
    simp only [sumL_nil, Nat.add_zero] at hv
    simp only [List.nil_append, appendPattern, List.replicate_succ, List.cons_append, genLoop, hc,
      Bool.false_eq_true, if_false, hl, if_true, hv]
  | cons p post ih =>
    intro pre k m zs w rest col x ps r hlen hzs hpos hw hv
    obtain ⟨z, zs', rfl⟩ : ∃ z zs', zs = z :: zs' := by
      cases zs with
      | nil => simp at hzs
      | cons z zs' => exact ⟨z, zs', rfl⟩
    have hp : 0 < p := hpos p (by simp)
    obtain ⟨p', rfl⟩ : ∃ p', p = p' + 1 := ⟨p - 1, by omega⟩
    rw [genLoop_same]
    have hc : ((!col) != !col) = false := by cases col <;> rfl
    have hl : ¬ pre.length + 1 = n := by simp at hlen; omega
    have hlt : pre.length + 1 < (pre ++ (k + m) :: z :: zs').length := by simp
    simp only [List.cons_append, appendPattern, List.replicate_succ, genLoop, hc,
      Bool.false_eq_true, if_false, hl, hlt, if_true]
    have hset : (pre ++ (k + m) :: z :: zs').set (pre.length + 1) 1 = (pre ++ [k + m]) ++ 1 :: zs' := by
      rw [List.set_append_right _ _ (by omega)]
      simp
    have hpl : pre.length + 1 = (pre ++ [k + m]).length := by simp
    rw [hset, hpl]
    have := ih (pre ++ [k + m]) 1 p' zs' w rest (!col) (x + m + 1) ps r
      (by simp at hlen ⊢; omega) (by simpa using hzs) (fun q hq => hpos q (by simp [hq])) hw
      (by
        have e : 1 + p' = p' + 1 := by omega
        have e2 : x + m + 1 + p' + sumL post = x + m + sumL ((p' + 1) :: post) := by rw [sumL_cons]; omega
        rw [e, e2]; simpa using hv)
    simpa using this

end Gzx.Row128
