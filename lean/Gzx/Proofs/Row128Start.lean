/-
  wp oned128 — helper lemmas for Properties/C03Row128.lean (part 2): `code128FindStartPattern` on a row whose first
  black pixel starts `s`·(a start pattern); the main loop of DecodeRow against the symbol-level reader.
-/
import Gzx.Proofs.Row128Read
set_option linter.unusedSimpArgs false
set_option linter.unusedVariables false
namespace Gzx.Row128
open Gzx Gzx.OneD

/-- `if bestMatch >= 0 { if IsRange(max(0, …), patternStart, false) { return … } }` -/
def hit128 (row : List Bool) (ps i : Nat) : Option Nat → Option (Nat × Nat × Nat)
  | some m => if isRangeWhite row (ps - (i - ps) / 2) ps then some (ps, i, m) else none
  | none => none

/-- what `code128FindStartPattern` does when its six counters are full -/
def check128 (D : VarDom) (P : List (List Nat)) (row : List Bool) (ps i : Nat) (cs : List Nat) :
    Res (Option (Nat × Nat × Nat)) :=
  match startPatterns P with
  | .error e => .error e
  | .ok pats =>
    match bestLoopD D cs 7 10 pats 103 (D.frac 1 4) none with
    | .error e => .error e
    | .ok bm => .ok (hit128 row ps i bm)

theorem check128_err1 (D : VarDom) (P : List (List Nat)) (row : List Bool) (ps i : Nat) (cs : List Nat) (e : Fault)
    (h : startPatterns P = .error e) : check128 D P row ps i cs = .error e := by
  unfold check128; rw [h]

theorem check128_err2 (D : VarDom) (P : List (List Nat)) (row : List Bool) (ps i : Nat) (cs : List Nat) (e : Fault)
    (pats : List (List Nat)) (h : startPatterns P = .ok pats)
    (h2 : bestLoopD D cs 7 10 pats 103 (D.frac 1 4) none = .error e) : check128 D P row ps i cs = .error e := by
  unfold check128; rw [h]; simp only []; rw [h2]

theorem check128_ok (D : VarDom) (P : List (List Nat)) (row : List Bool) (ps i : Nat) (cs : List Nat)
    (pats : List (List Nat)) (bm : Option Nat) (h : startPatterns P = .ok pats)
    (h2 : bestLoopD D cs 7 10 pats 103 (D.frac 1 4) none = .ok bm) :
    check128 D P row ps i cs = .ok (hit128 row ps i bm) := by
  unfold check128; rw [h]; simp only []; rw [h2]

theorem startLoop_eq_gen (D : VarDom) (P : List (List Nat)) (row : List Bool) :
    ∀ (bs : List Bool) (i : Nat) (cs : List Nat) (pos ps : Nat) (isWhite : Bool), cs.length = 6 →
      startLoop D P row bs i cs pos ps isWhite = genLoop 6 (check128 D P row) bs i cs pos ps isWhite
  | [], _, _, _, _, _, _ => rfl
  | b :: bs, i, cs, pos, ps, isWhite, hl => by
    unfold startLoop genLoop
    by_cases hb : (b != isWhite) = true
    · rw [if_pos hb, if_pos hb]
      by_cases hp : pos < cs.length
      · simp only [incrChk, hp, if_true]
        exact startLoop_eq_gen D P row bs _ _ _ _ _ (by rw [incrAt_length']; exact hl)
      · simp only [incrChk, hp, if_false]
    · rw [if_neg hb, if_neg hb, hl]
      by_cases hlast : pos + 1 = 6
      · rw [if_pos hlast, if_pos hlast]
        cases hsp : startPatterns P with
        | error e => rw [check128_err1 D P row ps i cs e hsp]
        | ok pats =>
          simp only []
          cases hbl : bestLoopD D cs 7 10 pats 103 (D.frac 1 4) none with
          | error e => rw [check128_err2 D P row ps i cs e pats hsp hbl]
          | ok bm =>
            rw [check128_ok D P row ps i cs pats bm hsp hbl]
            simp only []
            obtain ⟨c0, c1, tl, rfl⟩ : ∃ c0 c1 tl, cs = c0 :: c1 :: tl := by
              match cs, hl with
              | c0 :: c1 :: tl, _ => exact ⟨c0, c1, tl, rfl⟩
              | [_], hl => simp at hl
              | [], hl => simp at hl
            have hrec := startLoop_eq_gen D P row bs (i + 1) (tl ++ [1, 0]) (pos - 1) (ps + c0 + c1) (!isWhite)
              (by simp at hl ⊢; omega)
            cases bm with
            | none => simp only [hit128]; rw [hrec]
            | some m =>
              simp only [hit128]
              by_cases hq : isRangeWhite row (ps - (i - ps) / 2) ps = true
              · simp only [hq, if_true]
              · simp only [hq, Bool.false_eq_true, if_false]; rw [hrec]
      · rw [if_neg hlast, if_neg hlast]
        split
        · exact startLoop_eq_gen D P row bs _ _ _ _ _ (by rw [List.length_set]; exact hl)
        · rfl

/-- the three start patterns of a well-formed table -/
theorem startPatterns_eq (P : List (List Nat)) (hl : 106 ≤ P.length) :
    startPatterns P = .ok [P[103], P[104], P[105]] := by
  simp only [startPatterns, nth_ok' P 103 (by omega), nth_ok' P 104 (by omega), nth_ok' P 105 (by omega),
    bind, Except.bind, pure, Except.pure]

theorem getNextSet_white_then_black (lq : Nat) (X : List Bool) (hX : X.head? = some true) :
    getNextSet (List.replicate lq false ++ X) 0 = lq := by
  cases X with
  | nil => simp at hX
  | cons b bs =>
    simp only [List.head?_cons, Option.some.injEq] at hX
    subst hX
    exact getNextSet_replicate lq bs

/-- `code128FindStartPattern` on  lq white ++ s·(start pattern `sc`) ++ (another run) …: found at once, for EVERY lq ≥ 0
    (the quiet-zone test is clipped to the row: `max(0, …)`) -/
theorem findStartPattern_at {P : List (List Nat)} (hP : PatTable P 6 11) (hl : 106 ≤ P.length)
    (sc : Nat) (hsc : sc = 103 ∨ sc = 104 ∨ sc = 105) (hsc6 : P[sc]'(by omega) = (P[sc]'(by omega)).take 6)
    (lq s : Nat) (hs : 0 < s) (w : Nat) (hw : 0 < w) (rest : List Nat) :
    findStartPattern exactDom P
        (List.replicate lq false ++ appendPattern ((P[sc]'(by omega)).map (s * ·) ++ w :: rest) true)
      = .ok (lq, lq + s * 11, sc) := by
  have hscl : sc < P.length := by omega
  have hq := hP.shape P[sc] (List.getElem_mem hscl)
  obtain ⟨g0, g', hg⟩ : ∃ g0 g', P[sc] = g0 :: g' := by
    cases hc : P[sc] with
    | nil => rw [hc] at hq; simp at hq
    | cons a b => exact ⟨a, b, rfl⟩
  have hlen6 : P[sc].length = 6 := by rw [hsc6]; simp; omega
  have hsum : sumL P[sc] = 11 := by rw [hsc6]; exact hq.2.1
  have hposall : ∀ x ∈ P[sc], 0 < x := by rw [hsc6]; exact hq.2.2
  have hg0 : 0 < g0 := hposall g0 (by rw [hg]; simp)
  have hhead : (appendPattern (P[sc].map (s * ·) ++ w :: rest) true).head? = some true := by
    rw [hg]
    have : 0 < s * g0 := Nat.mul_pos hs hg0
    obtain ⟨k, hk⟩ : ∃ k, s * g0 = k + 1 := ⟨s * g0 - 1, by omega⟩
    simp [appendPattern, hk, List.replicate_succ]
  unfold findStartPattern
  simp only []
  rw [getNextSet_white_then_black lq _ hhead, List.drop_left' (by simp)]
  rw [startLoop_eq_gen _ _ _ _ _ _ _ _ _ (by simp)]
  rw [hg]
  simp only [List.map_cons, List.cons_append, appendPattern]
  have hg'len : g'.length = 5 := by rw [hg] at hlen6; simpa using hlen6
  have hm := genLoop_match 6 (check128 exactDom P
      (List.replicate lq false ++ (List.replicate (s * g0) true ++ appendPattern (g'.map (s * ·) ++ w :: rest) (!true))))
    (g'.map (s * ·)) [] 0 (s * g0) (List.replicate 5 0) w rest true lq lq (lq, lq + s * 11, sc)
    (by simp; omega) (by simp; omega) (scale_pos s hs g' (fun x hx => hposall x (by rw [hg]; simp [hx]))) hw
    (by
      -- the check: best start code = sc, and everything left of the pattern is white
      have hcs : [] ++ (0 + s * g0) :: g'.map (s * ·) = (P[sc].take 6).map (s * ·) := by
        rw [← hsc6, hg]; simp
      have hi : lq + s * g0 + sumL (g'.map (s * ·)) = lq + s * 11 := by
        rw [sumL_scale, ← hsum, hg, sumL_cons, Nat.mul_add]; omega
      rw [hcs, hi]
      unfold check128
      rw [startPatterns_eq P hl]
      simp only []
      -- the best of the three start patterns
      have hbest : bestLoopD exactDom ((P[sc].take 6).map (s * ·)) 7 10 [P[103], P[104], P[105]] 103
          (exactDom.frac 1 4) none = .ok (some sc) := by
        have hsub : PatTable [P[103], P[104], P[105]] 6 11 := by
          refine ⟨?_, ?_, by omega⟩
          · have hnd := hP.nodup
            have e : [P[103], P[104], P[105]].map (List.take 6) = ((P.map (List.take 6)).drop 103).take 3 := by
              rw [← List.map_drop, ← List.map_take]
              congr 1
              apply List.ext_getElem
              · simp; omega
              · intro n h1 h2
                have hn : n < 3 := by simpa using h1
                rcases n with _ | _ | _ | n
                · simp
                · simp
                · simp
                · omega
            rw [e]
            exact (hnd.sublist (List.drop_sublist _ _)).sublist (List.take_sublist _ _)
          · intro q hqm
            simp only [List.mem_cons, List.mem_nil_iff, or_false] at hqm
            rcases hqm with rfl | rfl | rfl <;> exact hP.shape _ (List.getElem_mem _)
        have hj : sc - 103 < [P[103], P[104], P[105]].length := by simp; omega
        have hidx : [P[103], P[104], P[105]][sc - 103] = P[sc] := by
          rcases hsc with rfl | rfl | rfl <;> rfl
        have hb := bestLoopD_table hsub (sc - 103) hj s hs 7 10 1 4 (by omega) none 103
        rw [hidx] at hb
        have e : 103 + (sc - 103) = sc := by omega
        rw [e] at hb
        exact hb
      rw [hbest]
      simp only [hit128]
      have e2 : lq + s * 11 - lq = s * 11 := by omega
      rw [e2, isRangeWhite_prefix lq _ _ _ (by omega) (by omega)]
      simp)
  simp only [List.nil_append, List.length_nil, Bool.not_true] at hm
  exact hm

end Gzx.Row128
