/-
  wp oned128 — helper lemmas for Properties/C03Row128.lean (part 4): the whole Code 128 DecodeRow model on a drawn symbol
  (any left / right quiet zone ≥ 0, any scale ≥ 1) equals the symbol-level reader on the drawn symbol characters.
-/
import Gzx.Proofs.Row128Main
set_option linter.unusedSimpArgs false
set_option linter.unusedVariables false
namespace Gzx.Row128
open Gzx Gzx.OneD

theorem fullRuns_cons (P : List (List Nat)) (c : Nat) (codes : List Nat) :
    fullRuns P (c :: codes) = P.getD c [] ++ fullRuns P codes := rfl

theorem fullRuns_append (P : List (List Nat)) (a b : List Nat) : fullRuns P (a ++ b) = fullRuns P a ++ fullRuns P b := by
  simp [fullRuns]

theorem codeRuns_append (P : List (List Nat)) (s : Nat) (a b : List Nat) :
    codeRuns P s (a ++ b) = codeRuns P s a ++ codeRuns P s b := by
  simp [codeRuns]

theorem codeRuns_body (P : List (List Nat)) (s : Nat) (body : List Nat)
    (h : ∀ c ∈ body, (P.getD c []).length = 6) : codeRuns P s body = (fullRuns P body).map (s * ·) := by
  induction body with
  | nil => rfl
  | cons c body ih =>
    rw [codeRuns_cons, fullRuns_cons, List.map_append, ih (fun x hx => h x (by simp [hx]))]
    have : (P.getD c []).take 6 = P.getD c [] := List.take_of_length_le (by rw [h c (by simp)]; omega)
    rw [this]

theorem sumL_codeRuns {P : List (List Nat)} (hP : PatTable P 6 11) (s : Nat) (codes : List Nat)
    (h : ∀ c ∈ codes, c < P.length) : sumL (codeRuns P s codes) = s * 11 * codes.length := by
  induction codes with
  | nil => rfl
  | cons c codes ih =>
    have hc := h c (by simp)
    rw [codeRuns_cons, sumL_append, ih (fun x hx => h x (by simp [hx])), getD_eq_getElem P c [] hc, sumL_scale,
      (hP.shape P[c] (List.getElem_mem hc)).2.1, List.length_cons, Nat.mul_add]
    omega

theorem codeRuns_pos {P : List (List Nat)} (hP : PatTable P 6 11) (s : Nat) (hs : 0 < s) (codes : List Nat)
    (h : ∀ c ∈ codes, c < P.length) : ∀ w ∈ codeRuns P s codes, 0 < w := by
  induction codes with
  | nil => intro w hw; simp [codeRuns] at hw
  | cons c codes ih =>
    have hc := h c (by simp)
    intro w hw
    rw [codeRuns_cons, List.mem_append] at hw
    rcases hw with hw | hw
    · rw [getD_eq_getElem P c [] hc] at hw
      exact scale_pos s hs _ (hP.shape P[c] (List.getElem_mem hc)).2.2 w hw
    · exact ih (fun x hx => h x (by simp [hx])) w hw

/-- the pixel row: `lq` white, the symbol at `s` pixels per module, `rq` white — as one run list from pixel `lq` on -/
theorem symbolRow_shape (P : List (List Nat)) (hWF : wfRow128B P = true) (sc : Nat) (hsc : sc = 103 ∨ sc = 104 ∨ sc = 105)
    (body : List Nat) (hb : ∀ c ∈ body, c < 106) (lq s rq : Nat) :
    ∃ (hscl : sc < P.length) (h106 : 106 < P.length) (last : Nat), 0 < last ∧
      paddedRow lq s rq (appendPattern (fullRuns P (sc :: body ++ [106])) true) =
        List.replicate lq false ++
          appendPattern (P[sc].map (s * ·) ++ (codeRuns P s (body ++ [106]) ++ s * last :: tailQ rq)) true := by
  obtain ⟨hlen, hP, h6, h7⟩ := wfRow128_facts P hWF
  have hscl : sc < P.length := by omega
  have h106 : 106 < P.length := by omega
  obtain ⟨hs7, hspos⟩ := h7 h106
  have hstop : P[106] = P[106].take 6 ++ [P[106][6]] := by
    have : P[106].take 7 = P[106] := List.take_of_length_le (by omega)
    conv => lhs; rw [← this]
    rw [List.take_succ_eq_append_getElem (by omega)]
  refine ⟨hscl, h106, P[106][6], hspos _ (List.getElem_mem _), ?_⟩
  have hbody6 : ∀ c ∈ body, (P.getD c []).length = 6 := by
    intro c hc
    have := hb c hc
    rw [getD_eq_getElem P c [] (by omega)]
    exact h6 c (by omega) this
  have hfull : fullRuns P (sc :: body ++ [106]) = P[sc] ++ (fullRuns P body ++ (P[106].take 6 ++ [P[106][6]])) := by
    rw [List.cons_append, fullRuns_cons, fullRuns_append, getD_eq_getElem P sc [] hscl]
    congr 2
    simp only [fullRuns, List.map_cons, List.map_nil, List.flatten_cons, List.flatten_nil, List.append_nil,
      getD_eq_getElem P 106 [] h106]
    exact hstop
  have hcr : codeRuns P s (body ++ [106]) = (fullRuns P body).map (s * ·) ++ (P[106].take 6).map (s * ·) := by
    rw [codeRuns_append, codeRuns_body P s body hbody6]
    congr 1
    simp only [codeRuns, List.map_cons, List.map_nil, List.flatten_cons, List.flatten_nil, List.append_nil,
      getD_eq_getElem P 106 [] h106]
  unfold paddedRow
  rw [scaleRow_appendPattern, hfull, hcr]
  simp only [List.map_append, List.map_cons, List.map_nil, List.append_assoc]
  -- the trailing white pixels as a 0-or-1 element run list
  have hpar : ∀ (X : List Nat), X.length % 2 = 1 →
      appendPattern X true ++ List.replicate rq false = appendPattern (X ++ tailQ rq) true := by
    intro X hX
    rw [appendPattern_append]
    have : ¬ X.length % 2 = 0 := by omega
    simp only [this, if_false, Bool.not_true, appendPattern_tailQ]
  have hlen' : (P[sc].map (s * ·) ++ ((fullRuns P body).map (s * ·) ++ ((P[106].take 6).map (s * ·) ++ [s * P[106][6]]))).length % 2 = 1 := by
    have h1 : P[sc].length = 6 := h6 sc hscl (by omega)
    have h2 : (fullRuns P body).length = 6 * body.length := by
      have := flatten_length_const (body.map (fun c => P.getD c [])) 6 (by
        intro x hx
        obtain ⟨c, hc, rfl⟩ := List.mem_map.mp hx
        exact hbody6 c hc)
      simpa [fullRuns] using this
    simp only [List.length_append, List.length_map, List.length_take, List.length_cons, List.length_nil, h1, h2, hs7]
    omega
  have := hpar _ hlen'
  simp only [List.append_assoc] at this
  rw [this]
  simp only [List.append_assoc, List.cons_append, List.nil_append]

theorem codeSetOf_start (sc : Nat) (hsc : sc = 103 ∨ sc = 104 ∨ sc = 105) :
    ∃ cs, codeSetOf sc = some cs ∧ (cs = 99 ∨ cs = 100 ∨ cs = 101) := by
  rcases hsc with rfl | rfl | rfl
  · exact ⟨101, rfl, by omega⟩
  · exact ⟨100, rfl, by omega⟩
  · exact ⟨99, rfl, by omega⟩

/-- DecodeRow on a drawn symbol = the symbol-level reader on its symbol characters, with the geometry of the row:
    every left and right quiet zone `lq, rq ≥ 0`, every scale `s ≥ 1`, both values of ASSUME_GS1 -/
theorem decodeRow_symbol (P : List (List Nat)) (hWF : wfRow128B P = true) (sc : Nat) (hsc : sc = 103 ∨ sc = 104 ∨ sc = 105)
    (body : List Nat) (hb : ∀ c ∈ body, c < 106) (lq s rq : Nat) (hs : 0 < s) (gs1 : Bool) :
    Row128.decodeRow exactDom P (paddedRow lq s rq (appendPattern (fullRuns P (sc :: body ++ [106])) true)) gs1 =
      match readSyms gs1 sc (body ++ [106]) with
      | .error e => .error e
      | .ok (t, m) => .ok { text := t, raw := sc :: body ++ [106], left2 := 2 * lq + s * 11,
                            right2 := 2 * (lq + s * 11 * (body.length + 1)) + s * 11, symMod := m } := by
  obtain ⟨hlen, hP, h6, h7⟩ := wfRow128_facts P hWF
  obtain ⟨hscl, h106, last, hlast, hrow⟩ := symbolRow_shape P hWF sc hsc body hb lq s rq
  generalize hR : paddedRow lq s rq (appendPattern (fullRuns P (sc :: body ++ [106])) true) = row at hrow
  have hcodes : ∀ c ∈ body ++ [106], c < P.length := by
    intro c hc
    simp only [List.mem_append, List.mem_singleton] at hc
    rcases hc with hc | rfl
    · have := hb c hc; omega
    · exact h106
  have hBpos := codeRuns_pos hP s hs (body ++ [106]) hcodes
  have hBsum := sumL_codeRuns hP s (body ++ [106]) hcodes
  have hsc6 : P[sc] = P[sc].take 6 := (List.take_of_length_le (by rw [h6 sc hscl (by omega)]; omega)).symm
  have hApos : ∀ w ∈ P[sc].map (s * ·), 0 < w := by
    rw [hsc6]; exact scale_pos s hs _ (hP.shape P[sc] (List.getElem_mem hscl)).2.2
  have hAsum : sumL (P[sc].map (s * ·)) = s * 11 := by
    rw [sumL_scale, hsc6, (hP.shape P[sc] (List.getElem_mem hscl)).2.1]
  have hlastpos : 0 < s * last := Nat.mul_pos hs hlast
  -- the rest after the start pattern is non-empty
  obtain ⟨w, rest, hwr⟩ : ∃ w rest, codeRuns P s (body ++ [106]) ++ s * last :: tailQ rq = w :: rest := by
    cases h : codeRuns P s (body ++ [106]) ++ s * last :: tailQ rq with
    | nil => simp at h
    | cons a b => exact ⟨a, b, rfl⟩
  have hallpos : ∀ x ∈ codeRuns P s (body ++ [106]) ++ s * last :: tailQ rq, 0 < x := by
    intro x hx
    simp only [List.mem_append, List.mem_cons] at hx
    rcases hx with hx | rfl | hx
    · exact hBpos x hx
    · exact hlastpos
    · exact tailQ_pos rq x hx
  have hw : 0 < w := hallpos w (by rw [hwr]; simp)
  -- 1. the start pattern
  have hstart := findStartPattern_at hP (by omega) sc hsc hsc6 lq s hs w hw rest
  rw [← hwr, ← hrow] at hstart
  -- 2. the row seen from the end of the start pattern
  have hat0 : RowAt row lq (P[sc].map (s * ·) ++ (codeRuns P s (body ++ [106]) ++ s * last :: tailQ rq)) true := by
    refine ⟨?_, ?_, ?_⟩
    · rw [hrow]; simp
    · rw [hrow, List.drop_left' (by simp)]
    · intro x hx
      rw [List.mem_append] at hx
      rcases hx with hx | hx
      · exact hApos x hx
      · exact hallpos x hx
  have hat1 := hat0.advance_even _ _ (by simp [h6 sc hscl (by omega)])
  rw [hAsum] at hat1
  have hrowlen := hat0.length
  rw [sumL_append, sumL_append, hAsum, hBsum, sumL_cons] at hrowlen
  obtain ⟨cs, hcs, hcs3⟩ := codeSetOf_start sc hsc
  have hCS0 : CS (st0 cs sc) := by unfold CS st0; simp only []; omega
  have hmain := mainLoop_codes hP h106 s hs row gs1 body (lq + s * 11) (st0 cs sc) [sc] lq (s * last :: tailQ rq)
    (row.length + 1) hCS0 (fun c hc => ⟨by have := hb c hc; omega, by have := hb c hc; omega⟩)
    (by
      have : body.length + 1 ≤ s * 11 * (body ++ [106]).length := by
        simp only [List.length_append, List.length_cons, List.length_nil]
        calc body.length + 1 ≤ 1 * (body.length + 1) := by omega
          _ ≤ s * 11 * (body.length + 1) := Nat.mul_le_mul_right _ (by omega)
      omega)
    hat1
  -- 3. assemble
  unfold Row128.decodeRow readSyms
  rw [hstart]
  simp only [hcs]
  rw [hmain]
  cases hsym : symRun gs1 (body ++ [106]) (st0 cs sc) with
  | error e => rfl
  | ok st' =>
    simp only []
    -- the last bar of STOP and the (clipped) quiet zone
    have hat2 : RowAt row (lq + s * 11 + s * 11 * (body.length + 1)) (s * last :: tailQ rq) true := by
      have := hat1.advance_even _ _ (by
        have : (codeRuns P s (body ++ [106])).length = 6 * (body.length + 1) := by
          have := flatten_length_const ((body ++ [106]).map (fun c => ((P.getD c []).take 6).map (s * ·))) 6 (by
            intro x hx
            obtain ⟨c, hc, rfl⟩ := List.mem_map.mp hx
            have hcl := hcodes c hc
            rw [getD_eq_getElem P c [] hcl]
            have := (hP.shape P[c] (List.getElem_mem hcl)).1
            simp; omega)
          simpa [codeRuns] using this
        omega)
      rw [hBsum] at this
      simpa using this
    have hnu := getNextUnset_bar hat2
    have hat3 : RowAt row (lq + s * 11 + s * 11 * (body.length + 1) + s * last) (tailQ rq) false := by
      have := hat2.advance_odd [s * last] (tailQ rq) (by simp)
      simp only [sumL_cons, sumL_nil, Nat.add_zero] at this
      exact this
    rw [hnu]
    have hwhite := isRangeWhite_tail hat3
      (min row.length (lq + s * 11 + s * 11 * (body.length + 1) + s * last +
        (lq + s * 11 + s * 11 * (body.length + 1) + s * last - (lq + s * 11 + s * 11 * body.length)) / 2))
      (by
        have := hat3.le
        omega)
      (Nat.min_le_left _ _)
    rw [hwhite]
    simp only [Bool.not_true, Bool.false_eq_true, if_false]
    cases hfin : finish st' with
    | error e => rfl
    | ok t =>
      simp only [List.reverse_append, List.reverse_cons, List.reverse_nil, List.nil_append, List.reverse_reverse,
        List.singleton_append, List.cons_append, Except.ok.injEq, Out.mk.injEq, true_and, and_true]
      have e : s * 11 * (body.length + 1) = s * 11 * body.length + s * 11 := by rw [Nat.mul_add]; omega
      refine ⟨by omega, ?_⟩
      rw [e]; omega

end Gzx.Row128
