/-
  wp oned128 — helper lemmas for Properties/C06Row128.lean: the Code 128 row decoder model
  (Gzx/Model/OneDRow128.lean) never panics and never runs out of fuel, for every interpretation of the variance
  arithmetic that does not panic on patterns at least as long as the counters.
-/
import Gzx.Model.OneDRow128
import Gzx.Properties.C20
set_option linter.unusedSimpArgs false
set_option linter.unusedVariables false
namespace Gzx.Row128
open Gzx Gzx.OneD

/-! ## vocabulary -/

/-- the interpretation never panics on a pattern at least as long as the counters -/
def VarDom.PmvOk (D : VarDom) : Prop :=
  ∀ (c p : List Nat) (a b : Nat), c.length ≤ p.length → ∃ v, D.pmv c p a b = .ok v

theorem exactDom_pmvOk : exactDom.PmvOk := fun c p a b h => Properties.C20.pmv_total c p a b h

theorem floatDom_pmvOk : floatDom.PmvOk := by
  intro c p a b h
  show ∃ v, floatPmv c p a b = .ok v
  unfold floatPmv
  rw [if_neg (by omega)]
  simp only []
  split
  · exact ⟨_, rfl⟩
  · split <;> exact ⟨_, rfl⟩

/-- a result, or one of the three ReaderException kinds -/
def Typed {α : Type} (r : Res α) : Prop :=
  (∃ a, r = .ok a) ∨ r = .error .notFound ∨ r = .error .checksum ∨ r = .error .format

/-- a result or NotFoundException -/
def NF {α : Type} (r : Res α) : Prop := (∃ a, r = .ok a) ∨ r = .error .notFound

theorem wrapNF_nf {α} (r : Res α) (h : ∀ w, r ≠ .error (.panic w)) (hf : r ≠ .error .fuel) : NF (wrapNF r) := by
  cases r with
  | ok a => exact Or.inl ⟨a, rfl⟩
  | error e =>
    cases e with
    | panic w => exact absurd rfl (h w)
    | fuel => exact absurd rfl hf
    | notFound => exact Or.inr rfl
    | checksum => exact Or.inr rfl
    | format => exact Or.inr rfl
    | illegalArg => exact Or.inr rfl
    | writer => exact Or.inr rfl

theorem wrapNF_of_nf {α} (r : Res α) (h : NF r) : NF (wrapNF r) := by
  rcases h with ⟨a, rfl⟩ | rfl
  · exact Or.inl ⟨a, rfl⟩
  · exact Or.inr rfl

theorem wrapNF_ok {α} (r : Res α) (a : α) (h : wrapNF r = .ok a) : r = .ok a := by
  cases r with
  | ok b => simpa [wrapNF] using h
  | error e => cases e <;> simp [wrapNF] at h

/-! ## run lengths -/

theorem sumL_runsAux (bs : List Bool) (cur : Bool) (cnt : Nat) :
    RunLength.sumL (RunLength.runsAux bs cur cnt) = cnt + bs.length := by
  induction bs generalizing cur cnt with
  | nil => simp [RunLength.runsAux, RunLength.sumL]
  | cons b bs ih =>
    unfold RunLength.runsAux
    split
    · rw [ih]; simp; omega
    · have := ih b 1
      simp only [RunLength.sumL, List.foldr_cons, List.length_cons] at this ⊢
      omega

theorem runsAux_pos (bs : List Bool) (cur : Bool) (cnt : Nat) (h : 0 < cnt) :
    ∀ r ∈ RunLength.runsAux bs cur cnt, 0 < r := by
  induction bs generalizing cur cnt with
  | nil => simp [RunLength.runsAux]; exact h
  | cons b bs ih =>
    unfold RunLength.runsAux
    split
    · exact ih cur (cnt + 1) (by omega)
    · intro r hr
      simp only [List.mem_cons] at hr
      rcases hr with rfl | hr
      · exact h
      · exact ih b 1 (by omega) r hr

theorem sumL_runs (l : List Bool) : RunLength.sumL (RunLength.runs l) = l.length := by
  cases l with
  | nil => rfl
  | cons b bs => simp only [RunLength.runs, sumL_runsAux, List.length_cons]; omega

theorem runs_pos (l : List Bool) : ∀ r ∈ RunLength.runs l, 0 < r := by
  cases l with
  | nil => simp [RunLength.runs]
  | cons b bs => exact runsAux_pos bs b 1 (by omega)

theorem sumL_take_le (xs : List Nat) (n : Nat) : RunLength.sumL (xs.take n) ≤ RunLength.sumL xs := by
  induction xs generalizing n with
  | nil => simp
  | cons x xs ih =>
    cases n with
    | zero => simp [RunLength.sumL]
    | succ n =>
      have := ih n
      simp only [List.take_succ_cons, RunLength.sumL, List.foldr_cons] at this ⊢
      omega

theorem le_sumL_take (xs : List Nat) (n : Nat) (hpos : ∀ x ∈ xs, 0 < x) (hn : n ≤ xs.length) :
    n ≤ RunLength.sumL (xs.take n) := by
  induction xs generalizing n with
  | nil => simp at hn; subst hn; simp
  | cons x xs ih =>
    cases n with
    | zero => simp
    | succ n =>
      have h1 := ih n (fun y hy => hpos y (by simp [hy])) (by simpa using hn)
      have h2 := hpos x (by simp)
      simp only [List.take_succ_cons, RunLength.sumL, List.foldr_cons] at h1 ⊢
      omega

/-- what a successful RecordPattern tells: `n` counters, at least one pixel each, all inside the row -/
theorem recordPattern_ok_facts (row : List Bool) (start n : Nat) (cs : List Nat) (hn : 0 < n)
    (h : RunLength.recordPattern row start n = .ok cs) :
    cs.length = n ∧ n ≤ sumL cs ∧ start + sumL cs ≤ row.length := by
  rw [Properties.C20.recordPattern_eq_runs row start n hn] at h
  simp only at h
  split at h
  · rename_i hlen
    cases h
    refine ⟨by simp; omega, ?_, ?_⟩
    · exact le_sumL_take _ n (runs_pos _) hlen
    · have h1 := sumL_take_le (RunLength.runs (row.drop start)) n
      have h2 := sumL_runs (row.drop start)
      rw [List.length_drop] at h2
      show start + RunLength.sumL _ ≤ _
      by_cases hs : start ≤ row.length
      · omega
      · have : row.drop start = [] := List.drop_eq_nil_of_le (by omega)
        rw [this] at hlen
        simp [RunLength.runs] at hlen
        omega
  · cases h

/-! ## best loops -/

theorem bestLoopD_ok (D : VarDom) (hD : D.PmvOk) (counters : List Nat) (a b : Nat) :
    ∀ (ps : List (List Nat)) (i : Nat) (best : D.V) (bm : Option Nat),
      (∀ p ∈ ps, counters.length ≤ p.length) → ∃ r, bestLoopD D counters a b ps i best bm = .ok r := by
  intro ps
  induction ps with
  | nil => intro i best bm _; exact ⟨bm, rfl⟩
  | cons p ps ih =>
    intro i best bm h
    obtain ⟨v, hv⟩ := hD counters p a b (h p (by simp))
    simp only [bestLoopD, hv]
    split
    · exact ih _ _ _ (fun q hq => h q (by simp [hq]))
    · exact ih _ _ _ (fun q hq => h q (by simp [hq]))

/-- table facts the totality proof needs: entries 103..105 exist, every pattern has at least six widths -/
def Table128 (P : List (List Nat)) : Prop := 106 ≤ P.length ∧ ∀ p ∈ P, 6 ≤ p.length

/-- decidable form of `Table128` for the per-run obligation -/
def table128B (P : List (List Nat)) : Bool := decide (106 ≤ P.length) && P.all (fun p => decide (6 ≤ p.length))

theorem table128_of_B (P : List (List Nat)) (h : table128B P = true) : Table128 P := by
  simp only [table128B, Bool.and_eq_true, decide_eq_true_eq, List.all_eq_true] at h
  exact h

theorem nth_ok' {α} (l : List α) (i : Nat) (hi : i < l.length) : nth l i = .ok l[i] := by
  simp [nth, List.getElem?_eq_getElem hi]

theorem startPatterns_ok (P : List (List Nat)) (hP : Table128 P) :
    ∃ pats, startPatterns P = .ok pats ∧ ∀ p ∈ pats, 6 ≤ p.length := by
  obtain ⟨hl, h6⟩ := hP
  refine ⟨[P[103], P[104], P[105]], ?_, ?_⟩
  · simp only [startPatterns, nth_ok' P 103 (by omega), nth_ok' P 104 (by omega), nth_ok' P 105 (by omega),
      bind, Except.bind, pure, Except.pure]
  · intro p hp
    simp only [List.mem_cons, List.mem_nil_iff, or_false] at hp
    rcases hp with rfl | rfl | rfl <;> exact h6 _ (List.getElem_mem _)

/-! ## findStartPattern -/

theorem incrAt_length' : ∀ (cs : List Nat) (n : Nat), (incrAt cs n).length = cs.length
  | [], _ => rfl
  | _ :: _, 0 => rfl
  | c :: cs, n + 1 => by simp [incrAt, incrAt_length' cs n]

/-- NotFound, or a triple whose second component is a pixel index of the row -/
def StartRes (n : Nat) (r : Res (Nat × Nat × Nat)) : Prop :=
  r = .error .notFound ∨ ∃ ps i m, r = .ok (ps, i, m) ∧ i ≤ n

theorem startLoop_res (D : VarDom) (hD : D.PmvOk) (P : List (List Nat)) (hP : Table128 P) (row : List Bool) (n : Nat) :
    ∀ (bs : List Bool) (i : Nat) (cs : List Nat) (pos ps : Nat) (isWhite : Bool),
      i + bs.length = n → cs.length = 6 → pos < 6 → StartRes n (startLoop D P row bs i cs pos ps isWhite)
  | [], _, _, _, _, _, _, _, _ => Or.inl rfl
  | b :: bs, i, cs, pos, ps, isWhite, hi, hl, hp => by
    have hi' : i + 1 + bs.length = n := by simp at hi; omega
    unfold startLoop
    by_cases hb : (b != isWhite) = true
    · rw [if_pos hb]
      simp only [incrChk, hl, hp, if_true]
      exact startLoop_res D hD P hP row n bs _ _ _ _ _ hi' (by rw [incrAt_length']; exact hl) hp
    · rw [if_neg hb]
      by_cases hlast : pos + 1 = cs.length
      · rw [if_pos hlast]
        obtain ⟨pats, hpats, hp6⟩ := startPatterns_ok P hP
        rw [hpats]
        simp only []
        obtain ⟨bm, hbm⟩ := bestLoopD_ok D hD cs 7 10 pats 103 (D.frac 1 4) none (by rw [hl]; exact hp6)
        rw [hbm]
        simp only []
        obtain ⟨c0, c1, tl, rfl⟩ : ∃ c0 c1 tl, cs = c0 :: c1 :: tl := by
          match cs, hl with
          | c0 :: c1 :: tl, _ => exact ⟨c0, c1, tl, rfl⟩
          | [_], hl => simp at hl
          | [], hl => simp at hl
        simp only [List.length_cons] at hl hlast
        have hpos2 : ¬ pos < 2 := by omega
        have hrec := startLoop_res D hD P hP row n bs (i + 1) (tl ++ [1, 0]) (pos - 1) (ps + c0 + c1) (!isWhite) hi'
          (by simp; omega) (by omega)
        cases bm with
        | none => simp only [hpos2, if_false]; exact hrec
        | some m =>
          simp only []
          by_cases hq : isRangeWhite row (ps - (i - ps) / 2) ps = true
          · simp only [hq, if_true]
            exact Or.inr ⟨ps, i, m, rfl, by omega⟩
          · simp only [hq, hpos2, if_false]
            exact hrec
      · rw [if_neg hlast]
        rw [if_pos (by omega)]
        exact startLoop_res D hD P hP row n bs _ _ _ _ _ hi' (by rw [List.length_set]; exact hl) (by omega)

theorem getNextSet_le : ∀ (row : List Bool) (from_ : Nat), getNextSet row from_ ≤ row.length
  | [], _ => by simp [getNextSet]
  | b :: bs, 0 => by
    simp only [getNextSet]
    split
    · omega
    · have := getNextSet_le bs 0; simp; omega
  | _ :: bs, n + 1 => by
    have := getNextSet_le bs n
    simp only [getNextSet, List.length_cons]; omega

theorem findStartPattern_res (D : VarDom) (hD : D.PmvOk) (P : List (List Nat)) (hP : Table128 P) (row : List Bool) :
    StartRes row.length (findStartPattern D P row) := by
  unfold findStartPattern
  have := getNextSet_le row 0
  exact startLoop_res D hD P hP row row.length _ _ _ _ _ _ (by rw [List.length_drop]; omega) (by simp) (by omega)

/-! ## decodeCode -/

theorem decodeCode_res (D : VarDom) (hD : D.PmvOk) (P : List (List Nat)) (hP : Table128 P) (row : List Bool) (off : Nat) :
    decodeCode D P row off = .error .notFound ∨
      ∃ m cs, decodeCode D P row off = .ok (m, cs) ∧ 6 ≤ sumL cs ∧ off + sumL cs ≤ row.length := by
  unfold decodeCode
  have hnf := wrapNF_nf (RunLength.recordPattern row off 6) (Properties.C20.recordPattern_total row off 6 (by omega))
    (by
      rw [Properties.C20.recordPattern_eq_runs row off 6 (by omega)]
      simp only
      split <;> simp)
  rcases hnf with ⟨cs, hcs⟩ | hcs
  · rw [hcs]
    simp only []
    have hfacts := recordPattern_ok_facts row off 6 cs (by omega) (wrapNF_ok _ _ hcs)
    obtain ⟨bm, hbm⟩ := bestLoopD_ok D hD cs 7 10 P 0 (D.frac 1 4) none (by rw [hfacts.1]; exact hP.2)
    rw [hbm]
    cases bm with
    | none => exact Or.inl rfl
    | some m => exact Or.inr ⟨m, cs, rfl, hfacts.2.1, hfacts.2.2⟩
  · rw [hcs]; exact Or.inl rfl

/-! ## the step function -/

/-- the fact that keeps `result[:resultLength-2]` in range: a printable last character in code set C came as two digits -/
def J (s : St) : Prop := s.lastPrintable = true → s.codeSet = 99 → s.result.length ≠ 1

theorem step_res (gs1 : Bool) (s : St) (code : Nat) :
    step gs1 s code = .error .format ∨ ∃ s' d, step gs1 s code = .ok (s', d) := by
  unfold step
  split
  · exact Or.inl rfl
  · exact Or.inr ⟨_, _, rfl⟩

theorem stepPre_codeSet (s : St) (code : Nat) : (stepPre s code).codeSet = s.codeSet := by
  by_cases h : code = 106 <;> simp [stepPre, h]
theorem stepPre_result (s : St) (code : Nat) : (stepPre s code).result = s.result := by
  by_cases h : code = 106 <;> simp [stepPre, h]
theorem stepPre_lp (s : St) (code : Nat) :
    (stepPre s code).lastPrintable = (if code = 106 then s.lastPrintable else true) := by
  by_cases h : code = 106 <;> simp [stepPre, h]

theorem fnc1_codeSet (g : Bool) (s : St) : (fnc1 g s).codeSet = s.codeSet := by
  unfold fnc1; simp only []; split <;> (try split) <;> (try split) <;> (try split) <;> rfl
theorem fnc1_lp (g : Bool) (s : St) : (fnc1 g s).lastPrintable = s.lastPrintable := by
  unfold fnc1; simp only []; split <;> (try split) <;> (try split) <;> (try split) <;> rfl
theorem fnc4_codeSet (s : St) : (fnc4 s).codeSet = s.codeSet := by
  unfold fnc4; split <;> (try split) <;> rfl
theorem fnc4_lp (s : St) : (fnc4 s).lastPrintable = s.lastPrintable := by
  unfold fnc4; split <;> (try split) <;> rfl
theorem np_codeSet (s : St) (c : Nat) : (np s c).codeSet = s.codeSet := by
  unfold np; split <;> rfl
theorem np_result (s : St) (c : Nat) : (np s c).result = s.result := by
  unfold np; split <;> rfl
theorem np_lp (s : St) (c : Nat) : (np s c).lastPrintable = (if c ≠ 106 then false else s.lastPrintable) := by
  unfold np; split <;> rfl

/-- the `switch codeSet` block keeps `J`; the old state matters only for STOP (which changes nothing) -/
theorem stepBody_J (gs1 : Bool) (t : St) (code : Nat) (hJ : code = 106 → J t) :
    J (stepBody gs1 t code).1 := by
  unfold J at *
  unfold stepBody
  simp only [apply_ite Prod.fst, apply_ite St.lastPrintable, apply_ite St.codeSet, apply_ite St.result, apply_ite List.length,
    emit, fnc1_codeSet, fnc4_codeSet, fnc1_lp, fnc4_lp, np_codeSet, np_result, np_lp]
  by_cases hA : t.codeSet = 101
  · by_cases h64 : code < 64
    · simp [hA, h64]
    · by_cases h96 : code < 96
      · simp [hA, h64, h96]
      · by_cases h106 : code = 106
        · subst h106; simp [hA]
        · simp [hA, h64, h96, h106]
  · by_cases hB : t.codeSet = 100
    · by_cases h96 : code < 96
      · simp [hA, hB, h96]
      · by_cases h106 : code = 106
        · subst h106; simp [hA, hB]
        · simp [hA, hB, h96, h106]
    · by_cases hC : t.codeSet = 99
      · by_cases h100 : code < 100
        · simp [hA, hB, hC, h100]
        · by_cases h106 : code = 106
          · subst h106; simp [hA, hB, hC]; simpa [hC] using hJ rfl
          · simp [hA, hB, hC, h100, h106]
      · simp [hA, hB, hC]

theorem stepPost_J (u : Bool) (s : St) (h : J s) : J (stepPost u s) := by
  unfold stepPost
  cases u with
  | false => simpa using h
  | true =>
    simp only [if_true]
    intro _ h2
    simp only [] at h2
    split at h2 <;> omega

theorem step_J (gs1 : Bool) (s : St) (code : Nat) (s' : St) (d : Bool) (hJ : J s)
    (h : step gs1 s code = .ok (s', d)) : J s' := by
  unfold step at h
  split at h
  · cases h
  · simp only [Except.ok.injEq, Prod.mk.injEq] at h
    rw [← h.1]
    apply stepPost_J
    apply stepBody_J
    intro h106
    subst h106
    unfold J at *
    rw [stepPre_codeSet, stepPre_result, stepPre_lp]
    simpa using hJ

/-! ## the main loop -/

/-- NotFound, Format, or a final state satisfying `J` -/
def MainRes (r : Res (St × Pos)) : Prop :=
  r = .error .notFound ∨ r = .error .format ∨ ∃ s p, r = .ok (s, p) ∧ J s

theorem mainLoop_res (D : VarDom) (hD : D.PmvOk) (P : List (List Nat)) (hP : Table128 P) (row : List Bool) (gs1 : Bool) :
    ∀ (fuel : Nat) (s : St) (p : Pos), J s → p.nextStart ≤ row.length → row.length < p.nextStart + fuel →
      MainRes (mainLoop D P row gs1 fuel s p)
  | 0, _, p, _, h1, h2 => by omega
  | fuel + 1, s, p, hJ, h1, h2 => by
    unfold mainLoop
    rcases decodeCode_res D hD P hP row p.nextStart with hnf | ⟨m, cs, hok, h6, hle⟩
    · rw [hnf]; exact Or.inl rfl
    · rw [hok]
      simp only []
      rcases step_res gs1 s m with hf | ⟨s', d, hstep⟩
      · rw [hf]; exact Or.inr (Or.inl rfl)
      · rw [hstep]
        have hJ' := step_J gs1 s m s' d hJ hstep
        cases d with
        | true => exact Or.inr (Or.inr ⟨_, _, rfl, hJ'⟩)
        | false =>
          simp only []
          exact mainLoop_res D hD P hP row gs1 fuel s' _ hJ' (by simpa using hle) (by simp only []; omega)

/-- `result[:resultLength-2]` / `[:resultLength-1]` stay in range under `J` -/
theorem finish_typed (s : St) (hJ : J s) : Typed (finish s) := by
  unfold finish
  split
  · exact Or.inr (Or.inr (Or.inl rfl))
  · simp only []
    split
    · exact Or.inr (Or.inl rfl)
    · rename_i hne
      by_cases hlp : s.lastPrintable = true
      · simp only [hlp, if_true]
        by_cases hC : s.codeSet = 99
        · have := hJ hlp hC
          simp only [hC, if_true]
          rw [if_neg (by simp only [List.length_reverse] at hne ⊢; omega)]
          exact Or.inl ⟨_, rfl⟩
        · simp only [hC, if_false]
          rw [if_neg (by simp only [List.length_reverse] at hne ⊢; omega)]
          exact Or.inl ⟨_, rfl⟩
      · simp only [hlp]
        exact Or.inl ⟨_, rfl⟩

end Gzx.Row128
