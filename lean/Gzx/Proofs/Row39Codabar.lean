/-
  wp oned39 — Codabar: the row decoder model reads back what the writer model draws, at every scale.
  Helper lemmas for Properties/C03Row39.lean.
-/
import Gzx.Proofs.Row39Read
import Gzx.Proofs.Row39Code39
import Gzx.Proofs.OneDCodabar
set_option linter.unusedVariables false
set_option linter.unusedSimpArgs false
namespace Gzx.Row39
open Gzx Gzx.OneD
open Gzx.CheckDigit (indexOf? indexOf?_lt indexOf?_get indexOf?_none indexOf?_getElem distinct)

/-! ## setCounters = run lengths from the first white pixel -/

theorem cbCountLoop_runs : ∀ (bs : List Bool) (w : Bool) (count : Nat) (acc : List Nat),
    cbCountLoop bs w count acc = acc.reverse ++ RunLength.runsAux bs (!w) count
  | [], w, count, acc => by simp [cbCountLoop, RunLength.runsAux]
  | b :: bs, w, count, acc => by
    unfold cbCountLoop RunLength.runsAux
    by_cases h : (b != w) = true
    · have hb : b = !w := by cases b <;> cases w <;> simp_all
      rw [if_pos h, if_pos hb, cbCountLoop_runs bs w (count + 1) acc]
    · have hb : ¬ b = !w := by cases b <;> cases w <;> simp_all
      have hbw : b = w := by cases b <;> cases w <;> simp_all
      rw [if_neg h, if_neg hb, cbCountLoop_runs bs (!w) 1 (count :: acc)]
      simp [hbw]

/-- a row that starts with a white pixel: the counters are its runs -/
theorem cbSetCounters_runs (R : List Nat) (hne : R ≠ []) (hpos : ∀ w ∈ R, 0 < w) :
    cbSetCounters (appendPattern R false) = .ok R := by
  obtain ⟨r0, R', rfl⟩ : ∃ r0 R', R = r0 :: R' := by
    cases R with
    | nil => exact absurd rfl hne
    | cons a b => exact ⟨a, b, rfl⟩
  have hr0 := hpos r0 (by simp)
  obtain ⟨k, rfl⟩ : ∃ k, r0 = k + 1 := ⟨r0 - 1, by omega⟩
  have hruns := runs_appendPattern ((k + 1) :: R') false hpos
  unfold cbSetCounters
  have hrow : appendPattern ((k + 1) :: R') false = false :: (List.replicate k false ++ appendPattern R' true) := by
    simp [appendPattern, List.replicate_succ]
  rw [hrow] at hruns ⊢
  simp only [getNextUnset, Bool.not_false, if_true, List.length_cons, List.drop_zero]
  rw [if_neg (by omega), cbCountLoop_runs]
  simp only [List.reverse_nil, List.nil_append, Bool.not_true]
  simp only [RunLength.runs] at hruns
  simp only [RunLength.runsAux, if_true]
  rw [hruns]

/-! ## toNarrowWidePattern on two-valued stripes -/

theorem cbMinMax_spec : ∀ (l : List Nat) (mn mx : Nat),
    (cbMinMax l (mn, mx)).1 ≤ mn ∧ (∀ c ∈ l, (cbMinMax l (mn, mx)).1 ≤ c) ∧
    ((cbMinMax l (mn, mx)).1 = mn ∨ (cbMinMax l (mn, mx)).1 ∈ l) ∧
    mx ≤ (cbMinMax l (mn, mx)).2 ∧ (∀ c ∈ l, c ≤ (cbMinMax l (mn, mx)).2) ∧
    ((cbMinMax l (mn, mx)).2 = mx ∨ (cbMinMax l (mn, mx)).2 ∈ l)
  | [], mn, mx => by simp [cbMinMax]
  | c :: cs, mn, mx => by
    simp only [cbMinMax]
    generalize hmn : (if c < mn then c else mn) = mn'
    generalize hmx : (if c > mx then c else mx) = mx'
    have a1 : mn' ≤ mn ∧ mn' ≤ c ∧ (mn' = mn ∨ mn' = c) := by subst hmn; split <;> omega
    have a2 : mx ≤ mx' ∧ c ≤ mx' ∧ (mx' = mx ∨ mx' = c) := by subst hmx; split <;> omega
    obtain ⟨h1, h2, h3, h4, h5, h6⟩ := cbMinMax_spec cs mn' mx'
    refine ⟨by omega, ?_, ?_, by omega, ?_, ?_⟩
    · intro d hd
      rcases List.mem_cons.mp hd with e | e
      · subst e; omega
      · exact h2 d e
    · rcases h3 with e | e
      · rcases a1.2.2 with e' | e'
        · left; omega
        · right; rw [e, e']; simp
      · right; simp [e]
    · intro d hd
      rcases List.mem_cons.mp hd with e | e
      · subst e; omega
      · exact h5 d e
    · rcases h6 with e | e
      · rcases a2.2.2 with e' | e'
        · left; omega
        · right; rw [e, e']; simp
      · right; simp [e]

/-- stripes of one kind (bars or spaces), widths `s` or `2s`, at least one narrow: a stripe is above the
    threshold `(min+max)/2` iff it is wide -/
theorem cbThreshold (s : Nat) (hs : 0 < s) (hs31 : s ≤ 2147483647) (bits : List Bool) (hn : false ∈ bits) :
    let l := nw s (2 * s) bits
    let mm := cbMinMax l (2147483647, 0)
    ∀ b ∈ bits, (decide ((if b then 2 * s else s) > (mm.1 + mm.2) / 2)) = b := by
  intro l mm b hb
  obtain ⟨h1, h2, h3, h4, h5, h6⟩ := cbMinMax_spec l 2147483647 0
  have hmem : s ∈ l := List.mem_map.mpr ⟨false, hn, by simp⟩
  have hl : ∀ c ∈ l, c = s ∨ c = 2 * s := mem_nw s (2 * s) bits
  have hmin : mm.1 = s := by
    have hle := h2 s hmem
    rcases h3 with e | e
    · show (cbMinMax l (2147483647, 0)).1 = s; omega
    · rcases hl _ e with e' | e'
      · exact e'
      · show (cbMinMax l (2147483647, 0)).1 = s; omega
  have hmax : mm.2 = s ∨ mm.2 = 2 * s := by
    rcases h6 with e | e
    · have := h5 s hmem
      show (cbMinMax l (2147483647, 0)).2 = s ∨ _; omega
    · exact hl _ e
  cases b with
  | false =>
    simp only [Bool.false_eq_true, if_false, decide_eq_false_iff_not]
    rw [hmin]; rcases hmax with e | e <;> rw [e] <;> omega
  | true =>
    simp only [if_true, decide_eq_true_eq]
    have h2s : 2 * s ∈ l := List.mem_map.mpr ⟨true, hb, by simp⟩
    have := h5 _ h2s
    have hm2 : mm.2 = 2 * s := by
      rcases hmax with e | e
      · have : (cbMinMax l (2147483647, 0)).2 = s := e
        omega
      · exact e
    rw [hmin, hm2]; omega

/-- value of a 7-bit word from its bits, most significant first -/
def bits7Val (b0 b1 b2 b3 b4 b5 b6 : Bool) : Nat :=
  (if b0 then 64 else 0) + (if b1 then 32 else 0) + (if b2 then 16 else 0) + (if b3 then 8 else 0) +
    (if b4 then 4 else 0) + (if b5 then 2 else 0) + (if b6 then 1 else 0)

theorem bits7_all : (List.range 128).all (fun w =>
    match bitsMSB 7 w with
    | [b0, b1, b2, b3, b4, b5, b6] => bits7Val b0 b1 b2 b3 b4 b5 b6 == w
    | _ => false) = true := by decide

/-- a word the reader can classify: 7 bits, not all four bars wide, not all three spaces wide -/
def cbWordOk (w : Nat) : Bool :=
  decide (w < 128) &&
  (match bitsMSB 7 w with
   | [b0, b1, b2, b3, b4, b5, b6] => !(b0 && b2 && b4 && b6) && !(b1 && b3 && b5)
   | _ => false)

theorem cbWord_bits (w : Nat) (hw : cbWordOk w = true) :
    ∃ b0 b1 b2 b3 b4 b5 b6, bitsMSB 7 w = [b0, b1, b2, b3, b4, b5, b6] ∧
      false ∈ [b0, b2, b4, b6] ∧ false ∈ [b1, b3, b5] ∧ bits7Val b0 b1 b2 b3 b4 b5 b6 = w := by
  simp only [cbWordOk, Bool.and_eq_true, decide_eq_true_eq] at hw
  obtain ⟨hlt, hm⟩ := hw
  have hv := List.all_eq_true.mp bits7_all w (by simpa using hlt)
  obtain ⟨b0, b1, b2, b3, b4, b5, b6, hb⟩ := len7 (bitsMSB 7 w) (by simp [bitsMSB])
  rw [hb] at hm hv
  simp only [beq_iff_eq] at hv
  refine ⟨b0, b1, b2, b3, b4, b5, b6, hb, ?_, ?_, hv⟩
  · cases b0 <;> cases b2 <;> cases b4 <;> cases b6 <;> simp_all
  · cases b1 <;> cases b3 <;> cases b5 <;> simp_all

theorem codabarWidths_scaled (s w : Nat) :
    (codabarWidths w).map (s * ·) = nw s (2 * s) (bitsMSB 7 w) := by
  unfold codabarWidths nw
  rw [List.map_map]
  apply List.map_congr_left
  intro b _
  cases b <;> simp <;> omega

/-- `toNarrowWidePattern(position)` on the seven stripes of a drawn character -/
theorem cbNW_at (T : Tables) (s : Nat) (hs : 0 < s) (hs31 : s ≤ 2147483647) (w : Nat) (hw : cbWordOk w = true)
    (cs : List Nat) (p : Nat) (hp : p + 7 < cs.length)
    (hwin : (cs.drop p).take 7 = (codabarWidths w).map (s * ·)) :
    cbToNarrowWide T cs p = .ok (indexOf? w T.codabarEnc) := by
  obtain ⟨b0, b1, b2, b3, b4, b5, b6, hb, hbar, hspace, hv⟩ := cbWord_bits w hw
  unfold cbToNarrowWide
  rw [if_neg (by omega), hwin, codabarWidths_scaled, hb]
  simp only [nw, List.map_cons, List.map_nil]
  have hB := cbThreshold s hs hs31 [b0, b2, b4, b6] hbar
  have hS := cbThreshold s hs hs31 [b1, b3, b5] hspace
  simp only [nw, List.map_cons, List.map_nil] at hB hS
  have e0 := hB b0 (by simp)
  have e2 := hB b2 (by simp)
  have e4 := hB b4 (by simp)
  have e6 := hB b6 (by simp)
  have e1 := hS b1 (by simp)
  have e3 := hS b3 (by simp)
  have e5 := hS b5 (by simp)
  have hbit : ∀ (c th k : Nat) (b : Bool), decide (c > th) = b → (if c > th then k else 0) = (if b then k else 0) := by
    intro c th k b h
    cases b with
    | true => simp only [decide_eq_true_eq] at h; simp [h]
    | false => simp only [decide_eq_false_iff_not] at h; simp [h]
  rw [hbit _ _ 64 b0 e0, hbit _ _ 32 b1 e1, hbit _ _ 16 b2 e2, hbit _ _ 8 b3 e3, hbit _ _ 4 b4 e4,
    hbit _ _ 2 b5 e5, hbit _ _ 1 b6 e6]
  have : (if b0 = true then 64 else 0) + (if b1 = true then 32 else 0) + (if b2 = true then 16 else 0) +
      (if b3 = true then 8 else 0) + (if b4 = true then 4 else 0) + (if b5 = true then 2 else 0) +
      (if b6 = true then 1 else 0) = w := hv
  rw [this]

/-! ## validatePattern accepts exact multiples -/

/-- a stripe whose width is what its wide/narrow flag says, at `s` pixels per module -/
def StripeOk (s : Nat) (st : Stripe) : Prop := st.size = if st.wide then 2 * s else s

theorem cbCat_ok (s : Nat) (sp wd : Bool) : ∀ (ss : List Stripe), (∀ st ∈ ss, StripeOk s st) →
    (cbCat ss sp wd).1 = (if wd then 2 * s else s) * (cbCat ss sp wd).2
  | [], _ => by simp [cbCat, sumL_nil]
  | st :: ss, h => by
    have ih := cbCat_ok s sp wd ss (fun x hx => h x (by simp [hx]))
    have hst := h st (by simp)
    unfold cbCat at ih ⊢
    simp only [] at ih ⊢
    simp only [List.filter_cons]
    split
    · rename_i hc
      simp only [decide_eq_true_eq] at hc
      simp only [List.map_cons, sumL_cons, List.length_cons]
      rw [ih, Nat.mul_succ]
      unfold StripeOk at hst
      rw [hst, hc.2]; omega
    · exact ih

theorem cbStripeBad_ok (s : Nat) (ss : List Stripe) (hall : ∀ st ∈ ss, StripeOk s st) (st : Stripe)
    (hst : StripeOk s st) : cbStripeBad (cbCat ss st.space false) (cbCat ss st.space true) st = false := by
  have hn := cbCat_ok s st.space false ss hall
  have hw := cbCat_ok s st.space true ss hall
  simp only [Bool.false_eq_true, if_false, if_true] at hn hw
  unfold cbStripeBad
  rw [hn, hw]
  generalize (cbCat ss st.space false).2 = kn
  generalize (cbCat ss st.space true).2 = kw
  unfold StripeOk at hst
  have hX1 : s * kn * kw = s * (kn * kw) := Nat.mul_assoc _ _ _
  have hX2 : 2 * s * kw * kn = 2 * (s * (kn * kw)) := by
    rw [Nat.mul_assoc 2 s kw, Nat.mul_assoc 2 (s * kw) kn, Nat.mul_assoc s kw kn, Nat.mul_comm kw kn]
  cases hwd : st.wide with
  | true =>
    rw [hwd] at hst
    simp only [if_true] at hst
    simp only [if_true, hst, Bool.or_eq_false_iff, decide_eq_false_iff_not]
    have hY : 2 * (2 * s) * (kn * kw) = 4 * (s * (kn * kw)) := by
      rw [← Nat.mul_assoc 2 2 s, Nat.mul_assoc (2 * 2) s (kn * kw)]
    have hZ : 2 * (2 * s) * kw = 4 * (s * kw) := by
      rw [← Nat.mul_assoc 2 2 s, Nat.mul_assoc (2 * 2) s kw]
    have hZ2 : 4 * (2 * s * kw) = 8 * (s * kw) := by
      rw [Nat.mul_assoc 2 s kw, ← Nat.mul_assoc 4 2 (s * kw)]
    rw [hX1, hX2, hY, hZ, hZ2]
    constructor <;> omega
  | false =>
    rw [hwd] at hst
    simp only [Bool.false_eq_true, if_false] at hst
    simp only [Bool.false_eq_true, if_false, hst, decide_eq_false_iff_not]
    have hY : 2 * s * (kn * kw) = 2 * (s * (kn * kw)) := Nat.mul_assoc _ _ _
    rw [hX1, hX2, hY]
    omega

/-! ## the drawn symbol as counters -/

theorem drop_split {α : Type} (cs : List α) (pos : Nat) (A B : List α) (h : cs.drop pos = A ++ B) :
    (cs.drop pos).take A.length = A ∧ cs.drop (pos + A.length) = B ∧ pos + A.length + B.length = cs.length ∨
      (pos > cs.length ∧ A = [] ∧ B = []) := by
  by_cases hp : pos ≤ cs.length
  · left
    refine ⟨by rw [h, List.take_left' rfl], ?_, ?_⟩
    · rw [← List.drop_drop, h, List.drop_left' rfl]
    · have := congrArg List.length h
      rw [List.length_drop, List.length_append] at this
      omega
  · right
    have : cs.drop pos = [] := List.drop_eq_nil_of_le (by omega)
    rw [this] at h
    have := List.append_eq_nil_iff.mp h.symm
    exact ⟨by omega, this.1, this.2⟩

/-- table facts for the row-level Codabar theorem: twenty distinct classifiable 7-bit words over the standard alphabet -/
def WFCbRow (T : Tables) : Bool :=
  WFCodabar T && T.codabarEnc.all cbWordOk && decide (T.codabarAlphabet = refTables.codabarAlphabet)

/-- the encoding word drawn for an alphabet character -/
def cbWord (T : Tables) (c : Nat) : Nat := T.codabarEnc.getD (cbIdx T.codabarAlphabet c) 0

structure CbFacts (T : Tables) : Prop where
  wf : WFCodabar T = true
  hA : T.codabarAlphabet = refTables.codabarAlphabet
  encLen : T.codabarEnc.length = 20
  char : ∀ c ∈ refTables.codabarAlphabet, cbIdx T.codabarAlphabet c < 20 ∧
    nth T.codabarAlphabet (cbIdx T.codabarAlphabet c) = .ok c ∧ cbWordOk (cbWord T c) = true ∧
    indexOf? (cbWord T c) T.codabarEnc = some (cbIdx T.codabarAlphabet c)

theorem cbFacts (T : Tables) (h : WFCbRow T = true) : CbFacts T := by
  simp only [WFCbRow, Bool.and_eq_true, decide_eq_true_eq, List.all_eq_true] at h
  obtain ⟨⟨hwf, hall⟩, hA⟩ := h
  have hwf' := hwf
  simp only [WFCodabar, Bool.and_eq_true, beq_iff_eq, List.all_eq_true, decide_eq_true_eq] at hwf'
  obtain ⟨⟨hlen, hdist⟩, _⟩ := hwf'
  refine ⟨hwf, hA, hlen, ?_⟩
  intro c hc
  obtain ⟨k, hk, hk20, hget⟩ := refA_mem c hc
  have hidx : cbIdx T.codabarAlphabet c = k := by simp [cbIdx, hA, hk]
  have hw : cbWord T c = T.codabarEnc[k]'(by omega) := by
    unfold cbWord; rw [hidx, getD_eq_getElem _ _ _ (by omega)]
  refine ⟨by omega, ?_, ?_, ?_⟩
  · rw [hidx, hA]
    unfold nth; rw [hget]
  · rw [hw]; exact hall _ (List.getElem_mem _)
  · rw [hw, hidx]; exact indexOf?_getElem hdist k (by omega)

theorem cbRuns_cons_window (w : Nat) (ws : List Nat) :
    ∃ more, cbRuns (w :: ws) = codabarWidths w ++ more ∧
      (ws = [] → more = []) ∧ (ws ≠ [] → more = 1 :: cbRuns ws) := by
  cases ws with
  | nil => exact ⟨[], by simp [cbRuns], fun _ => rfl, fun h => absurd rfl h⟩
  | cons a b => exact ⟨1 :: cbRuns (a :: b), by simp [cbRuns], fun h => absurd h (List.cons_ne_nil _ _), fun _ => rfl⟩

theorem widths7 (w : Nat) : ((codabarWidths w).map (fun x => s * x)).length = 7 := by
  simp [(codabarWidths_shape w).1]

/-- position `pos` of the counters shows the characters `chars` (then `tl`): the window of the first one -/
theorem cb_window (T : Tables) (s : Nat) (cs : List Nat) (pos : Nat) (c : Nat) (rest : List Nat) (tl : List Nat)
    (h : cs.drop pos = (cbRuns ((c :: rest).map (cbWord T))).map (s * ·) ++ tl) :
    (cs.drop pos).take 7 = (codabarWidths (cbWord T c)).map (s * ·) ∧ pos + 7 + tl.length ≤ cs.length ∧
    (rest ≠ [] → cs.drop (pos + 8) = (cbRuns (rest.map (cbWord T))).map (s * ·) ++ tl) ∧
    (rest = [] → cs.drop (pos + 7) = tl ∧ pos + 7 + tl.length = cs.length) := by
  obtain ⟨more, hm, hm1, hm2⟩ := cbRuns_cons_window (cbWord T c) (rest.map (cbWord T))
  simp only [List.map_cons] at h
  rw [hm, List.map_append, List.append_assoc] at h
  have h7 : ((codabarWidths (cbWord T c)).map (s * ·)).length = 7 := widths7 _
  rcases drop_split cs pos _ _ h with ⟨a, b, c'⟩ | ⟨_, a, _⟩
  · rw [h7] at a b c'
    refine ⟨a, ?_, ?_, ?_⟩
    · simp only [List.length_append] at c'; omega
    · intro hne
      have hne' : rest.map (cbWord T) ≠ [] := by simpa using hne
      rw [hm2 hne'] at b
      simp only [List.map_cons, List.cons_append] at b
      have : cs.drop (pos + 8) = (cs.drop (pos + 7)).drop 1 := by rw [List.drop_drop]
      rw [this, b]; rfl
    · intro he
      have he' : rest.map (cbWord T) = [] := by simp [he]
      rw [hm1 he'] at b c'
      simp only [List.map_nil, List.nil_append] at b c'
      exact ⟨b, c'⟩
  · rw [a] at h7; simp at h7

/-! ## validatePattern on the drawn symbol -/

theorem zip_map_self {α β : Type} (f : α → β) : ∀ (l : List α), (l.map f).zip l = l.map (fun b => (f b, b))
  | [] => rfl
  | a :: l => by simp [zip_map_self f l]

theorem char_stripes_ok (s w : Nat) :
    ∀ st ∈ (((nw s (2 * s) (bitsMSB 7 w)).zip (bitsMSB 7 w)).zipIdx.map
        (fun p => Stripe.mk p.1.1 (decide (p.2 % 2 = 1)) p.1.2)), StripeOk s st := by
  intro st hst
  obtain ⟨p, hp, rfl⟩ := List.mem_map.mp hst
  have hp1 : p.1 ∈ (nw s (2 * s) (bitsMSB 7 w)).zip (bitsMSB 7 w) := by
    obtain ⟨⟨a, b⟩, i⟩ := p
    exact (List.mem_zipIdx hp).2.2 ▸ List.getElem_mem _
  unfold nw at hp1
  rw [zip_map_self] at hp1
  obtain ⟨b, _, hb⟩ := List.mem_map.mp hp1
  unfold StripeOk
  rw [← hb]

theorem cbStripes_at (T : Tables) (f : CbFacts T) (s : Nat) (cs : List Nat) (tl : List Nat) :
    ∀ (chars : List Nat) (pos : Nat), (∀ c ∈ chars, c ∈ refTables.codabarAlphabet) → chars ≠ [] →
      cs.drop pos = (cbRuns (chars.map (cbWord T))).map (s * ·) ++ tl →
      ∃ ss, cbStripes T cs (chars.map (cbIdx T.codabarAlphabet)) pos = .ok ss ∧ ∀ st ∈ ss, StripeOk s st
  | [], _, _, hne, _ => absurd rfl hne
  | c :: rest, pos, hmem, _, hdrop => by
    obtain ⟨hwin, hlen, hnext, _⟩ := cb_window T s cs pos c rest tl hdrop
    obtain ⟨hidx, _, _, _⟩ := f.char c (hmem c (by simp))
    simp only [List.map_cons]
    unfold cbStripes
    rw [nth_ok _ _ (by rw [f.encLen]; exact hidx)]
    simp only []
    rw [if_neg (by omega), hwin, codabarWidths_scaled]
    have hword : T.codabarEnc[cbIdx T.codabarAlphabet c]'(by rw [f.encLen]; exact hidx) = cbWord T c := by
      unfold cbWord; rw [getD_eq_getElem _ _ _ (by rw [f.encLen]; exact hidx)]
    rw [hword]
    by_cases hr : rest = []
    · subst hr
      simp only [List.map_nil, cbStripes, List.append_nil]
      exact ⟨_, rfl, char_stripes_ok s _⟩
    · obtain ⟨ss, hss, hok⟩ := cbStripes_at T f s cs tl rest (pos + 8) (fun x hx => hmem x (by simp [hx])) hr (hnext hr)
      rw [hss]
      refine ⟨_, rfl, ?_⟩
      intro st hst
      rcases List.mem_append.mp hst with h | h
      · exact char_stripes_ok s _ st h
      · exact hok st h

theorem cbValidate_at (T : Tables) (f : CbFacts T) (s : Nat) (cs : List Nat) (tl : List Nat)
    (chars : List Nat) (pos : Nat) (hmem : ∀ c ∈ chars, c ∈ refTables.codabarAlphabet) (hne : chars ≠ [])
    (hdrop : cs.drop pos = (cbRuns (chars.map (cbWord T))).map (s * ·) ++ tl) :
    cbValidate T cs (chars.map (cbIdx T.codabarAlphabet)) pos = .ok () := by
  obtain ⟨ss, hss, hok⟩ := cbStripes_at T f s cs tl chars pos hmem hne hdrop
  unfold cbValidate
  rw [hss]
  simp only []
  have : ss.any (fun st => cbStripeBad (cbCat ss st.space false) (cbCat ss st.space true) st) = false := by
    rw [List.any_eq_false]
    intro st hst
    rw [cbStripeBad_ok s ss hok st (hok st hst)]
    simp
  rw [this]
  rfl

/-! ## the character loop and the start search on the drawn symbol -/

theorem cbIsStartEnd_at (T : Tables) (f : CbFacts T) (c : Nat) (hc : c ∈ refTables.codabarAlphabet) :
    cbIsStartEnd T (cbIdx T.codabarAlphabet c) = .ok (cbStartEnd.contains c) := by
  unfold cbIsStartEnd
  rw [(f.char c hc).2.1]

/-- classification of the first of the characters shown at `pos` -/
theorem cbNW_char (T : Tables) (f : CbFacts T) (s : Nat) (hs : 0 < s) (hs31 : s ≤ 2147483647) (cs : List Nat)
    (pos c : Nat) (rest tl : List Nat) (hc : c ∈ refTables.codabarAlphabet) (htl : tl ≠ [])
    (h : cs.drop pos = (cbRuns ((c :: rest).map (cbWord T))).map (s * ·) ++ tl) :
    cbToNarrowWide T cs pos = .ok (some (cbIdx T.codabarAlphabet c)) ∧ pos + 7 < cs.length := by
  obtain ⟨hwin, hlen, _, _⟩ := cb_window T s cs pos c rest tl h
  have htl' : 0 < tl.length := List.length_pos_iff.mpr htl
  obtain ⟨_, _, hok, hidx⟩ := f.char c hc
  refine ⟨?_, by omega⟩
  rw [cbNW_at T s hs hs31 (cbWord T c) hok cs pos (by omega) hwin, hidx]

theorem cbCharLoop_at (T : Tables) (f : CbFacts T) (s : Nat) (hs : 0 < s) (hs31 : s ≤ 2147483647) (cs : List Nat)
    (rq l : Nat) (hl : l ∈ refTables.codabarAlphabet) (hlse : cbStartEnd.contains l = true) :
    ∀ (mid : List Nat) (fuel nextStart : Nat) (acc : List Nat), acc ≠ [] →
      (∀ c ∈ mid, c ∈ refTables.codabarAlphabet ∧ cbStartEnd.contains c = false) → mid.length < fuel →
      cs.drop nextStart = (cbRuns ((mid ++ [l]).map (cbWord T))).map (s * ·) ++ [rq] →
      cbCharLoop T cs fuel nextStart acc =
        .ok (acc.reverse ++ (mid ++ [l]).map (cbIdx T.codabarAlphabet), nextStart + 8 * (mid.length + 1)) := by
  intro mid
  induction mid with
  | nil =>
    intro fuel nextStart acc hacc _ hfuel h
    obtain ⟨fuel', rfl⟩ : ∃ k, fuel = k + 1 := ⟨fuel - 1, by simp at hfuel; omega⟩
    simp only [List.nil_append] at h
    obtain ⟨hnw, hlt⟩ := cbNW_char T f s hs hs31 cs nextStart l [] [rq] hl (by simp) h
    have h20 := (f.char l hl).1
    have hmod : cbIdx T.codabarAlphabet l % 256 = cbIdx T.codabarAlphabet l := Nat.mod_eq_of_lt (by omega)
    have hlen : (cbIdx T.codabarAlphabet l :: acc).length > 1 := by
      have : 0 < acc.length := List.length_pos_iff.mpr hacc
      simp; omega
    unfold cbCharLoop
    rw [if_pos (by omega), hnw]
    simp only [hmod, hlen, if_true, cbIsStartEnd_at T f l hl, hlse]
    simp
  | cons c mid ih =>
    intro fuel nextStart acc hacc hmid hfuel h
    obtain ⟨fuel', rfl⟩ : ∃ k, fuel = k + 1 := ⟨fuel - 1, by simp at hfuel; omega⟩
    obtain ⟨hc, hcse⟩ := hmid c (by simp)
    simp only [List.cons_append] at h
    obtain ⟨hnw, hlt⟩ := cbNW_char T f s hs hs31 cs nextStart c (mid ++ [l]) [rq] hc (by simp) h
    obtain ⟨_, _, hnext, _⟩ := cb_window T s cs nextStart c (mid ++ [l]) [rq] h
    have h20 := (f.char c hc).1
    have hmod : cbIdx T.codabarAlphabet c % 256 = cbIdx T.codabarAlphabet c := Nat.mod_eq_of_lt (by omega)
    have hlen : (cbIdx T.codabarAlphabet c :: acc).length > 1 := by
      have : 0 < acc.length := List.length_pos_iff.mpr hacc
      simp; omega
    unfold cbCharLoop
    rw [if_pos (by omega), hnw]
    simp only [hmod, hlen, if_true, cbIsStartEnd_at T f c hc, hcse]
    rw [ih fuel' (nextStart + 8) (cbIdx T.codabarAlphabet c :: acc) (by simp)
      (fun x hx => hmid x (by simp [hx])) (by simp at hfuel; omega) (hnext (by simp))]
    simp only [List.reverse_cons, List.append_assoc, List.singleton_append, List.map_cons, List.cons_append,
      List.length_cons]
    congr 2
    omega

/-! ## DecodeRow on the drawn symbol -/

theorem cbRuns_length : ∀ (ws : List Nat), ws ≠ [] → (cbRuns ws).length + 1 = 8 * ws.length
  | [], h => absurd rfl h
  | [w], _ => by simp [cbRuns, (codabarWidths_shape w).1]
  | w :: w2 :: ws, _ => by
    have ih := cbRuns_length (w2 :: ws) (by simp)
    simp only [cbRuns, List.length_append, (codabarWidths_shape w).1, List.length_cons, List.length_nil] at ih ⊢
    omega

theorem cbRuns_pos : ∀ (ws : List Nat), ∀ x ∈ cbRuns ws, 0 < x
  | [], x, h => by simp [cbRuns] at h
  | [w], x, h => by
    simp only [cbRuns] at h
    rcases (codabarWidths_shape w).2.1 x h with e | e <;> omega
  | w :: w2 :: ws, x, h => by
    simp only [cbRuns, List.mem_append, List.mem_cons, List.not_mem_nil, or_false] at h
    rcases h with (h | h) | h
    · rcases (codabarWidths_shape w).2.1 x h with e | e <;> omega
    · omega
    · exact cbRuns_pos (w2 :: ws) x h

theorem mapM_nth_chars (T : Tables) (f : CbFacts T) : ∀ (chars : List Nat), (∀ c ∈ chars, c ∈ refTables.codabarAlphabet) →
    (chars.map (cbIdx T.codabarAlphabet)).mapM (nth T.codabarAlphabet) = .ok chars
  | [], _ => rfl
  | c :: cs, h => by
    simp only [List.map_cons, List.mapM_cons, (f.char c (h c (by simp))).2.1,
      mapM_nth_chars T f cs (fun x hx => h x (by simp [hx])), bind, Except.bind, pure, Except.pure]

/-- `codabarReader.DecodeRow` on a rendered Codabar symbol `a mid… b` (start/stop `a`, `b` ∈ A-D, data characters
    `mid`) between at least one white pixel on either side -/
theorem cbDecodeRow_core (T : Tables) (f : CbFacts T) (s : Nat) (hs : 0 < s) (hs31 : s ≤ 2147483647)
    (a b : Nat) (mid : List Nat) (ha : a ∈ refTables.codabarAlphabet) (hb : b ∈ refTables.codabarAlphabet)
    (hase : cbStartEnd.contains a = true) (hbse : cbStartEnd.contains b = true)
    (hmid : ∀ c ∈ mid, c ∈ refTables.codabarAlphabet ∧ cbStartEnd.contains c = false)
    (retSE : Bool) (lq rq : Nat) (hlq : 0 < lq) (hrq : 0 < rq) :
    let mods := codabarDraw ((a :: (mid ++ [b])).map (cbWord T))
    cbDecodeRow T retSE (paddedRow lq s rq mods) =
      if mid.length ≤ 1 then .error .notFound
      else .ok ⟨if retSE then a :: (mid ++ [b]) else mid, 2 * lq, 2 * (lq + s * mods.length)⟩ := by
  intro mods
  let chars := a :: (mid ++ [b])
  let R := cbRuns (chars.map (cbWord T))
  have hcharsne : chars.map (cbWord T) ≠ [] := by simp [chars]
  have hRlen := cbRuns_length _ hcharsne
  have hRpos := cbRuns_pos (chars.map (cbWord T))
  have hmods : mods = appendPattern R true := codabarDraw_runs _
  have hn : (chars.map (cbWord T)).length = mid.length + 2 := by simp [chars]
  have hodd : R.length % 2 = 1 := by
    have : R.length + 1 = 8 * (mid.length + 2) := by rw [← hn]; exact hRlen
    omega
  have hrowEq : paddedRow lq s rq mods = appendPattern (lq :: (R.map (s * ·) ++ [rq])) false := by
    rw [hmods]; exact paddedRow_runs R lq s rq hodd
  -- counters
  let cs := lq :: (R.map (s * ·) ++ [rq])
  have hcs : cbSetCounters (paddedRow lq s rq mods) = .ok cs := by
    rw [hrowEq]
    apply cbSetCounters_runs _ (by simp)
    intro w hw
    simp only [List.mem_cons, List.mem_append, List.not_mem_nil, or_false] at hw
    rcases hw with rfl | hw | rfl
    · exact hlq
    · exact scale_pos s hs R hRpos w hw
    · exact hrq
  have hcslen : cs.length = 8 * (mid.length + 2) + 1 := by
    have : R.length + 1 = 8 * (mid.length + 2) := by rw [← hn]; exact hRlen
    simp [cs]; omega
  have hdrop1 : cs.drop 1 = (cbRuns ((a :: (mid ++ [b])).map (cbWord T))).map (s * ·) ++ [rq] := rfl
  -- findStartPattern
  obtain ⟨hnwa, hlta⟩ := cbNW_char T f s hs hs31 cs 1 a (mid ++ [b]) [rq] ha (by simp) hdrop1
  have hfs : cbFindStart T cs = .ok 1 := by
    unfold cbFindStart
    obtain ⟨k, hk⟩ : ∃ k, cs.length / 2 = k + 1 := ⟨cs.length / 2 - 1, by omega⟩
    rw [hk, List.range_succ_eq_map]
    simp only [List.map_cons, Nat.mul_zero, Nat.zero_add]
    unfold cbFindStartLoop
    rw [hnwa]
    simp only [cbIsStartEnd_at T f a ha, hase]
    obtain ⟨v, hv⟩ := sumRange_ok cs 1 (1 + 7) (by omega)
    rw [hv]
    simp
  -- the character loop
  have hloop : cbCharLoop T cs (cs.length + 1) 1 [] =
      .ok (chars.map (cbIdx T.codabarAlphabet), 1 + 8 * (mid.length + 2)) := by
    have h20 := (f.char a ha).1
    have hmod : cbIdx T.codabarAlphabet a % 256 = cbIdx T.codabarAlphabet a := Nat.mod_eq_of_lt (by omega)
    obtain ⟨_, _, hnext, _⟩ := cb_window T s cs 1 a (mid ++ [b]) [rq] hdrop1
    unfold cbCharLoop
    rw [if_pos (by omega), hnwa]
    simp only [hmod, List.length_cons, List.length_nil, Nat.zero_add, gt_iff_lt, Nat.lt_irrefl, if_false]
    rw [cbCharLoop_at T f s hs hs31 cs rq b hb hbse mid cs.length (1 + 8) [cbIdx T.codabarAlphabet a] (by simp) hmid
      (by omega) (hnext (by simp))]
    simp only [chars, List.reverse_cons, List.reverse_nil, List.nil_append, List.singleton_append, List.map_cons]
    congr 2
    omega
  have hscan : cbScan T (paddedRow lq s rq mods) = .ok ⟨cs, 1, chars.map (cbIdx T.codabarAlphabet), 1 + 8 * (mid.length + 2)⟩ := by
    unfold cbScan
    rw [hcs]
    simp only [hfs, hloop]
  -- the rest of DecodeRow
  have hval := cbValidate_at T f s cs [rq] chars 1
    (by
      intro c hc
      simp only [chars, List.mem_cons, List.mem_append, List.not_mem_nil, or_false] at hc
      rcases hc with rfl | hc | rfl
      · exact ha
      · exact (hmid c hc).1
      · exact hb)
    (by simp [chars]) hdrop1
  have hchars := mapM_nth_chars T f chars (by
      intro c hc
      simp only [chars, List.mem_cons, List.mem_append, List.not_mem_nil, or_false] at hc
      rcases hc with rfl | hc | rfl
      · exact ha
      · exact (hmid c hc).1
      · exact hb)
  unfold cbDecodeRow
  rw [hscan]
  simp only []
  obtain ⟨tr, htr⟩ := nthI_ok cs (((1 + 8 * (mid.length + 2) : Nat) : Int) - 1) (by omega) (by omega)
  rw [htr]
  simp only []
  rw [if_neg (by omega)]
  obtain ⟨ls, hls⟩ := sumRange_ok cs (1 + 8 * (mid.length + 2) - 8) (1 + 8 * (mid.length + 2) - 1) (by omega)
  rw [hls]
  simp only []
  rw [if_neg (by omega), hval]
  simp only [hchars]
  have hc0 : nth chars 0 = .ok a := rfl
  rw [hc0]
  simp only [hase, Bool.not_true, Bool.false_eq_true, if_false]
  have hclen : chars.length = mid.length + 2 := by simp [chars]
  have hlast : nthI chars ((chars.length : Int) - 1) = .ok b := by
    unfold nthI
    rw [if_neg (by omega)]
    have : ((chars.length : Int) - 1).toNat = mid.length + 1 := by omega
    rw [this, nth_ok chars (mid.length + 1) (by omega)]
    simp [chars]
  rw [hlast]
  simp only [hbse, Bool.not_true, Bool.false_eq_true, if_false, hclen]
  by_cases hm : mid.length ≤ 1
  · rw [if_pos (by omega), if_pos hm]
  · rw [if_neg (by omega), if_neg hm]
    have hl : sumRange cs 0 1 = .ok lq := by
      unfold sumRange
      rw [if_neg (by omega)]
      simp [cs, sumL_cons, sumL_nil]
    have hm2 : sumRange cs 1 (1 + 8 * (mid.length + 2) - 1) = .ok (s * mods.length) := by
      unfold sumRange
      rw [if_neg (by omega)]
      have hRl : (R.map (s * ·)).length = 1 + 8 * (mid.length + 2) - 1 - 1 := by
        have : R.length + 1 = 8 * (mid.length + 2) := by rw [← hn]; exact hRlen
        simp; omega
      have : (cs.drop 1).take (1 + 8 * (mid.length + 2) - 1 - 1) = R.map (s * ·) := by
        show (R.map (s * ·) ++ [rq]).take _ = _
        rw [← hRl, List.take_left' rfl]
      rw [this, sumL_scale, hmods, length_appendPattern]
    rw [hl, hm2]
    simp only []
    have htext : (if retSE = true then chars else (chars.drop 1).take (mid.length + 2 - 2)) =
        (if retSE = true then a :: (mid ++ [b]) else mid) := by
      cases retSE with
      | true => rfl
      | false =>
        simp only [Bool.false_eq_true, if_false, chars, List.drop_succ_cons, List.drop_zero]
        have : mid.length + 2 - 2 = mid.length := by omega
        rw [this, List.take_left' rfl]
    rw [htext]

/-! ## what the writer draws for a content -/

/-- the Codabar writer model draws the words of the guard-mapped characters
    (the writer half of `codabar_read_write_core`, Proofs/OneDCodabar.lean) -/
theorem codabarModules_chars (T : Tables) (f : CbFacts T) (contents : List Nat) (g l : Nat) (mid : List Nat)
    (h : codabarFull contents = .ok (g :: (mid ++ [l]))) (hg : cbGuardOk g = true) (hl : cbGuardOk l = true)
    (hmid : ∀ c ∈ mid, cbMidOk c = true) :
    codabarModules T contents =
      .ok (codabarDraw ((codabarGuardMap (toUpperByte g) :: (mid ++ [codabarGuardMap (toUpperByte l)])).map (cbWord T))) := by
  have hA := f.hA
  generalize hn : (g :: (mid ++ [l])).length = n at *
  let chars := codabarGuardMap (toUpperByte g) :: (mid ++ [codabarGuardMap (toUpperByte l)])
  have hchars := cbChars_eq g l mid hmid
  rw [hn] at hchars
  have hmem : ∀ c ∈ chars, c ∈ refTables.codabarAlphabet := by
    intro c hc
    simp only [chars, List.mem_cons, List.mem_append, List.mem_singleton, List.mem_nil_iff, or_false] at hc
    rcases hc with rfl | hc | rfl
    · exact guard_mem _ hg
    · exact (mid_mem c (hmid c hc)).2
    · exact guard_mem _ hl
  have hmemi : ∀ i, i < n → cbChar n i ((g :: (mid ++ [l])).getD i 0) ∈ refTables.codabarAlphabet := by
    intro i hi
    apply hmem
    have : cbChar n i ((g :: (mid ++ [l])).getD i 0) ∈
        (List.range n).map (fun i => cbChar n i ((g :: (mid ++ [l])).getD i 0)) :=
      List.mem_map.mpr ⟨i, by simpa using hi, rfl⟩
    rw [hchars] at this
    exact this
  have hwords : codabarWords T (g :: (mid ++ [l])) = .ok (chars.map (cbWord T)) := by
    have e : chars.map (cbWord T)
        = (List.range n).map (fun i => T.codabarEnc.getD
            (cbIdx T.codabarAlphabet (cbChar n i ((g :: (mid ++ [l])).getD i 0))) 0) := by
      simp only [chars, ← hchars, List.map_map, Function.comp_def, cbWord]
    rw [e]
    unfold codabarWords
    simp only [hn]
    apply mapM_ok
    intro i hi
    have hi' : i < n := by simpa using hi
    obtain ⟨k, hk, hk20, _⟩ := refA_mem _ (hmemi i hi')
    have hnth := nthN_getD' (g :: (mid ++ [l])) i (by rw [hn]; exact hi')
    simp only [hnth, bind, Except.bind, pure, Except.pure]
    have hch : (if i = 0 ∨ i + 1 = n then codabarGuardMap (toUpperByte ((g :: (mid ++ [l])).getD i 0))
        else toUpperByte ((g :: (mid ++ [l])).getD i 0)) = cbChar n i ((g :: (mid ++ [l])).getD i 0) := rfl
    rw [hch, hA, hk]
    simp only [cbIdx, hA, hk, Option.getD_some]
    exact nthN_getD' _ _ (by rw [f.encLen]; omega)
  simp only [codabarModules, h, hwords, bind, Except.bind, pure, Except.pure, chars]

theorem midOk_not_startEnd (c : Nat) (h : cbMidOk c = true) : cbStartEnd.contains c = false := by
  simp only [cbMidOk, decide_eq_true_eq] at h
  simp only [cbStartEnd, List.contains_eq_mem, List.mem_cons, List.not_mem_nil, or_false, decide_eq_false_iff_not]
  omega

end Gzx.Row39
