/-
  wp oned39 — Code 39: the row decoder model reads back what the writer model draws, at every scale.
  Helper lemmas for Properties/C03Row39.lean.
-/
import Gzx.Proofs.Row39Read
import Gzx.Proofs.Row39Code93
set_option linter.unusedVariables false
set_option linter.unusedSimpArgs false
namespace Gzx.Row39
open Gzx Gzx.OneD
open Gzx.CheckDigit (indexOf? indexOf?_lt indexOf?_get indexOf?_none indexOf?_getElem distinct)

/-! ## `code39ToNarrowWidePattern` on two-valued counters with three wide ones -/

/-- element widths: `a` for a narrow (0) element, `b` for a wide (1) element -/
def nw (a b : Nat) (bits : List Bool) : List Nat := bits.map (fun w => if w then b else a)

theorem mem_nw (a b : Nat) (bits : List Bool) : ∀ c ∈ nw a b bits, c = a ∨ c = b := by
  intro c hc
  obtain ⟨w, _, rfl⟩ := List.mem_map.mp hc
  cases w <;> simp

theorem minAbove_nw (a b : Nat) (bits : List Bool) (ha0 : 0 < a) (ha : a ≤ 2147483647) (hab : a < b)
    (hn : false ∈ bits) : c39MinAbove (nw a b bits) 0 = a := by
  obtain ⟨h1, h2, h3⟩ := foldl_minAbove 0 (nw a b bits) 2147483647
  unfold c39MinAbove
  have hmem : a ∈ nw a b bits := List.mem_map.mpr ⟨false, hn, by simp⟩
  have hle := h2 a hmem ha0
  rcases h3 with e | ⟨e1, _⟩
  · omega
  · rcases mem_nw a b bits _ e1 with e | e
    · exact e
    · omega

def stepBits (p : Nat) (bits : List Bool) : Nat := bits.foldl (fun acc b => 2 * acc + (if b then 1 else 0)) p

theorem c39Scan_nw (a b : Nat) (hab : a < b) : ∀ (bits : List Bool) (p w t : Nat),
    c39Scan a (nw a b bits) (p, w, t) =
      (stepBits p bits, w + (bits.filter id).length, t + b * (bits.filter id).length)
  | [], p, w, t => by simp [nw, c39Scan, stepBits]
  | true :: bits, p, w, t => by
    have ih := c39Scan_nw a b hab bits (2 * p + 1) (w + 1) (t + b)
    simp only [nw, List.map_cons, if_true, c39Scan, hab, stepBits, List.foldl_cons, List.filter_cons, id,
      List.length_cons] at ih ⊢
    rw [ih]
    congr 2
    · omega
    · rw [Nat.mul_succ]; omega
  | false :: bits, p, w, t => by
    have ih := c39Scan_nw a b hab bits (2 * p) w t
    have hna : ¬ a > a := by omega
    simp only [nw, List.map_cons, Bool.false_eq_true, if_false, c39Scan, hna, stepBits, List.foldl_cons,
      List.filter_cons, id, Nat.add_zero] at ih ⊢
    rw [ih]

theorem c39WideOk_nw (a b : Nat) (hab : a < b) : ∀ (bits : List Bool) (w : Nat),
    c39WideOk a (0 + b * 3) (nw a b bits) w = true
  | [], _ => by simp [nw, c39WideOk]
  | bit :: bits, 0 => by simp [nw, c39WideOk]
  | true :: bits, w + 1 => by
    have ih := c39WideOk_nw a b hab bits w
    have h2 : ¬ b * 2 ≥ 0 + b * 3 := by omega
    simp only [nw, List.map_cons, if_true, c39WideOk, hab, h2, if_false] at ih ⊢
    exact ih
  | false :: bits, w + 1 => by
    have ih := c39WideOk_nw a b hab bits (w + 1)
    have hna : ¬ a > a := by omega
    simp only [nw, List.map_cons, Bool.false_eq_true, if_false, c39WideOk, hna] at ih ⊢
    exact ih

/-- three wide elements among narrow ones, all narrow equal, all wide equal: the pattern is the wide/narrow word -/
theorem c39Pattern_nw (a b : Nat) (bits : List Bool) (ha0 : 0 < a) (ha : a ≤ 2147483647) (hab : a < b)
    (h3 : (bits.filter id).length = 3) (hn : false ∈ bits) :
    c39Pattern (nw a b bits) = .ok (some (natOfBits bits)) := by
  unfold c39Pattern c39PatternLoop
  have hok := c39WideOk_nw a b hab bits 3
  simp only [Nat.zero_add] at hok
  simp only [minAbove_nw a b bits ha0 ha hab hn, c39Scan_nw a b hab, h3, Nat.zero_add, if_true, hok]
  rfl

/-! ## table facts -/

def enc39 (T : Tables) (i : Nat) : Nat := T.code39Enc.getD i 0
def alpha39 (T : Tables) (i : Nat) : Nat := T.code39Alphabet.getD i 0

/-- is `e` a 9-element word with exactly three wide elements? -/
def word39Ok (e : Nat) : Bool :=
  decide (((bitsMSB 9 e).filter id).length = 3) && (bitsMSB 9 e).contains false &&
    decide (natOfBits (bitsMSB 9 e) = e)

/-- what `code39_row_read_write` needs of the tables: 43 encodings + the asterisk, pairwise distinct, each three
    wide elements of nine; a 43-character alphabet without '*' -/
def WF39Row (T : Tables) : Bool :=
  decide (T.code39Enc.length = 43) && decide (T.code39Alphabet.length = 43) &&
  distinct (T.code39Asterisk :: T.code39Enc) && !T.code39Alphabet.contains 42 &&
  (T.code39Asterisk :: T.code39Enc).all word39Ok

structure WF39Facts (T : Tables) : Prop where
  encLen : T.code39Enc.length = 43
  alphaLen : T.code39Alphabet.length = 43
  encDistinct : distinct T.code39Enc = true
  starNot : T.code39Asterisk ∉ T.code39Enc
  noStar : 42 ∉ T.code39Alphabet
  star : word39Ok T.code39Asterisk = true
  word : ∀ i, i < 43 → word39Ok (enc39 T i) = true

theorem wf39Facts (T : Tables) (h : WF39Row T = true) : WF39Facts T := by
  simp only [WF39Row, Bool.and_eq_true, decide_eq_true_eq, List.all_eq_true, Bool.not_eq_true',
    List.contains_eq_mem, decide_eq_false_iff_not, distinct] at h
  obtain ⟨⟨⟨⟨h1, h2⟩, h3, h3'⟩, h4⟩, h5⟩ := h
  refine ⟨h1, h2, h3', h3, h4, h5 _ (by simp), ?_⟩
  intro i hi
  apply h5
  unfold enc39
  rw [getD_eq_getElem _ _ _ (by omega)]
  simp

theorem wf39_of_row (T : Tables) (h : WF39Row T = true) : WF39 T = true := by
  have f := wf39Facts T h
  simp [WF39, f.encLen, f.alphaLen]

/-- the nine element widths of a word at `s` pixels per module are the two-valued counters `nw s (2s)` -/
theorem widths_scaled (s e : Nat) : (code39Widths e).map (s * ·) = nw (s * 1) (s * 2) (bitsMSB 9 e) := by
  unfold code39Widths nw
  rw [List.map_map]
  apply List.map_congr_left
  intro w _
  cases w <;> simp

theorem widths_len (e : Nat) : (code39Widths e).length = 9 := by simp [code39Widths, bitsMSB]

theorem sumL_nw (a b : Nat) : ∀ (bits : List Bool),
    sumL (nw a b bits) = a * (bits.length - (bits.filter id).length) + b * (bits.filter id).length
  | [] => by simp [nw, sumL_nil]
  | true :: bits => by
    have ih := sumL_nw a b bits
    have hle : (bits.filter id).length ≤ bits.length := List.length_filter_le _ _
    simp only [nw, List.map_cons, if_true, sumL_cons, List.filter_cons, id, List.length_cons] at ih ⊢
    rw [ih, Nat.mul_succ]
    have : bits.length + 1 - ((List.filter id bits).length + 1) = bits.length - (List.filter id bits).length := by omega
    rw [this]; omega
  | false :: bits => by
    have ih := sumL_nw a b bits
    have hle : (bits.filter id).length ≤ bits.length := List.length_filter_le _ _
    simp only [nw, List.map_cons, Bool.false_eq_true, if_false, sumL_cons, List.filter_cons, id,
      List.length_cons] at ih ⊢
    rw [ih]
    have : bits.length + 1 - (List.filter id bits).length = (bits.length - (List.filter id bits).length) + 1 := by omega
    rw [this, Nat.mul_succ]; omega

theorem word39_facts (s e : Nat) (hs : 0 < s) (hs31 : s ≤ 2147483647) (hw : word39Ok e = true) :
    c39Pattern ((code39Widths e).map (s * ·)) = .ok (some e) ∧ sumL ((code39Widths e).map (s * ·)) = 12 * s ∧
      (∀ w ∈ (code39Widths e).map (s * ·), 0 < w) := by
  simp only [word39Ok, Bool.and_eq_true, decide_eq_true_eq, List.contains_eq_mem] at hw
  obtain ⟨⟨h3, hn⟩, hv⟩ := hw
  rw [widths_scaled]
  refine ⟨?_, ?_, ?_⟩
  · rw [c39Pattern_nw (s * 1) (s * 2) _ (by omega) (by omega) (by omega) h3 (by simpa using hn), hv]
  · rw [sumL_nw, h3]
    have : (bitsMSB 9 e).length = 9 := by simp [bitsMSB]
    rw [this]; omega
  · intro w hw
    rcases mem_nw _ _ _ w hw with e | e <;> omega

/-! ## table lookup -/

theorem indexOf?_of_not_mem (x : Nat) : ∀ (l : List Nat), x ∉ l → indexOf? x l = none
  | [], _ => rfl
  | y :: ys, h => by
    simp only [List.mem_cons, not_or] at h
    simp only [CheckDigit.indexOf?]
    rw [if_neg (fun e => h.1 e.symm), indexOf?_of_not_mem x ys h.2]
    rfl

theorem c39Char_at (T : Tables) (f : WF39Facts T) (i : Nat) (hi : i < 43) :
    c39Char T (enc39 T i) = .ok (alpha39 T i) := by
  unfold c39Char
  have he : enc39 T i = T.code39Enc[i]'(by rw [f.encLen]; exact hi) := by
    unfold enc39; exact getD_eq_getElem _ _ _ _
  rw [he, indexOf?_getElem f.encDistinct i (by rw [f.encLen]; exact hi)]
  simp only []
  rw [nth_ok _ i (by rw [f.alphaLen]; exact hi)]
  unfold alpha39
  rw [getD_eq_getElem _ _ _ (by rw [f.alphaLen]; exact hi)]

theorem c39Char_star (T : Tables) (f : WF39Facts T) : c39Char T T.code39Asterisk = .ok 42 := by
  unfold c39Char
  rw [indexOf?_of_not_mem _ _ f.starNot]
  simp

theorem alpha39_ne_star (T : Tables) (f : WF39Facts T) (i : Nat) (hi : i < 43) : alpha39 T i ≠ 42 := by
  intro h
  apply f.noStar
  rw [← h]
  unfold alpha39
  rw [getD_eq_getElem _ _ _ (by rw [f.alphaLen]; exact hi)]
  exact List.getElem_mem _

/-! ## the character loop on a drawn row -/

/-- nine elements of symbol character `i` and the narrow gap after it, at `s` pixels per module -/
def char39 (T : Tables) (s i : Nat) : List Nat := (code39Widths (enc39 T i)).map (s * ·) ++ [s * 1]
def runs39 (T : Tables) (s : Nat) (idx : List Nat) : List Nat := (idx.map (char39 T s)).flatten
def star39 (T : Tables) (s : Nat) : List Nat := (code39Widths T.code39Asterisk).map (s * ·)

theorem runs39_cons (T : Tables) (s i : Nat) (idx : List Nat) :
    runs39 T s (i :: idx) = (code39Widths (enc39 T i)).map (s * ·) ++ (s * 1 :: runs39 T s idx) := by
  simp [runs39, char39]

theorem c39Loop_at {row} (T : Tables) (f : WF39Facts T) (s : Nat) (hs : 0 < s) (hs31 : s ≤ 2147483647) :
    ∀ (idx : List Nat) (off fuel : Nat) (acc : List Nat) (tail : List Nat),
      (∀ i ∈ idx, i < 43) → idx.length < fuel →
      RowAt row off (runs39 T s idx ++ (star39 T s ++ tail)) true →
      c39Loop T row fuel off acc =
        .ok (acc.reverse ++ idx.map (alpha39 T), off + 13 * s * idx.length, 12 * s,
             getNextSet row (off + 13 * s * idx.length + 12 * s)) := by
  intro idx
  induction idx with
  | nil =>
    intro off fuel acc tail _ hfuel h
    obtain ⟨fuel', rfl⟩ : ∃ k, fuel = k + 1 := ⟨fuel - 1, by simp at hfuel; omega⟩
    simp only [runs39, List.map_nil, List.flatten_nil, List.nil_append] at h
    obtain ⟨h2, h3, _⟩ := word39_facts s T.code39Asterisk hs hs31 f.star
    unfold c39Loop
    rw [recordPattern_at (star39 T s) tail 9 (by omega) (by simp [star39, widths_len]) h]
    simp only [wrapNotFound, star39, h2, c39Char_star T f, if_true, h3]
    simp
  | cons i idx ih =>
    intro off fuel acc tail hidx hfuel h
    obtain ⟨fuel', rfl⟩ : ∃ k, fuel = k + 1 := ⟨fuel - 1, by simp at hfuel; omega⟩
    have hi : i < 43 := hidx i (by simp)
    rw [runs39_cons, List.append_assoc] at h
    obtain ⟨h2, h3, _⟩ := word39_facts s (enc39 T i) hs hs31 (f.word i hi)
    have hrec := recordPattern_at ((code39Widths (enc39 T i)).map (s * ·)) _ 9 (by omega) (by simp [widths_len]) h
    have hadv := h.advance_odd ((code39Widths (enc39 T i)).map (s * ·)) _ (by simp [widths_len])
    rw [h3] at hadv
    simp only [List.cons_append] at hadv
    -- the gap is followed by a black run (next character or the stop character)
    obtain ⟨w1, rest, hrest⟩ : ∃ w1 rest, runs39 T s idx ++ (star39 T s ++ tail) = w1 :: rest := by
      cases hc : runs39 T s idx ++ (star39 T s ++ tail) with
      | nil =>
        have : (runs39 T s idx ++ (star39 T s ++ tail)).length = 0 := by rw [hc]; rfl
        simp [star39, widths_len] at this
      | cons a b => exact ⟨a, b, rfl⟩
    have hskip : getNextSet row (off + 12 * s) = off + 12 * s + s * 1 := by
      have h' := hadv
      rw [hrest] at h'
      exact getNextSet_skip h'
    have hadv2 : RowAt row (off + 12 * s + s * 1) (runs39 T s idx ++ (star39 T s ++ tail)) true := by
      have := hadv.advance_odd [s * 1] _ (by simp)
      simpa [sumL_cons, sumL_nil] using this
    unfold c39Loop
    rw [hrec]
    simp only [wrapNotFound, h2, c39Char_at T f i hi, alpha39_ne_star T f i hi, if_false, h3, hskip]
    rw [ih (off + 12 * s + s * 1) fuel' (alpha39 T i :: acc) tail (fun j hj => hidx j (by simp [hj]))
      (by simp at hfuel; omega) hadv2]
    simp only [List.reverse_cons, List.append_assoc, List.singleton_append, List.map_cons, List.length_cons]
    have e1 : 13 * s * (idx.length + 1) = 13 * s * idx.length + 13 * s := Nat.mul_succ _ _
    rw [e1]
    have e3 : off + 12 * s + s * 1 + 13 * s * idx.length = off + (13 * s * idx.length + 13 * s) := by omega
    rw [e3]

/-! ## what the writer draws, as one run list -/

/-- run widths of a whole Code 39 symbol: start, gap, (character, gap)*, stop -/
def symbol39 (T : Tables) (syms : List Nat) : List Nat :=
  (code39Widths T.code39Asterisk ++ [1]) ++
    ((syms.map (fun i => code39Widths (enc39 T i) ++ [1])).flatten ++ code39Widths T.code39Asterisk)

theorem symbol39_scaled (T : Tables) (s : Nat) (syms : List Nat) :
    (symbol39 T syms).map (s * ·) = star39 T s ++ (s * 1 :: (runs39 T s syms ++ star39 T s)) := by
  simp only [symbol39, star39, runs39, List.map_append, List.map_flatten, List.map_map, List.map_cons, List.map_nil,
    List.append_assoc, List.singleton_append]
  congr 2

theorem appendPattern_gap (W : List Nat) (hW : W.length % 2 = 1) :
    appendPattern (W ++ [1]) true = appendPattern W true ++ [false] := by
  rw [appendPattern_append]
  have : ¬ W.length % 2 = 0 := by omega
  simp [this, appendPattern]

theorem code39Draw_runs (T : Tables) (f : WF39Facts T) (syms : List Nat) (h : ∀ i ∈ syms, i < 43) :
    code39Draw T syms = .ok (appendPattern (symbol39 T syms) true) := by
  unfold code39Draw
  have hchars : syms.mapM (fun i => do
        let e ← nth T.code39Enc i
        pure (appendPattern (code39Widths e) true ++ [false])) =
      .ok (syms.map (fun i => appendPattern (code39Widths (enc39 T i) ++ [1]) true)) := by
    apply mapM_ok
    intro i hi
    have := h i hi
    rw [nth_ok _ i (by rw [f.encLen]; exact this)]
    unfold enc39; rw [getD_eq_getElem _ _ _ (by rw [f.encLen]; exact this)]
    rw [appendPattern_gap _ (by rw [widths_len])]
    rfl
  have hbind : ∀ {α β : Type} (a : α) (g : α → Res β), (Except.ok a >>= g) = g a := fun _ _ => rfl
  simp only []
  rw [hchars, hbind]
  show Except.ok _ = Except.ok _
  congr 1
  have hflat : (syms.map (fun i => appendPattern (code39Widths (enc39 T i) ++ [1]) true)).flatten =
      appendPattern (syms.map (fun i => code39Widths (enc39 T i) ++ [1])).flatten true := by
    rw [← flatten_map_appendPattern _ true (by
      intro p hp
      obtain ⟨i, _, rfl⟩ := List.mem_map.mp hp
      simp [widths_len])]
    rw [List.map_map]
    rfl
  have hevenF : (syms.map (fun i => code39Widths (enc39 T i) ++ [1])).flatten.length % 2 = 0 := by
    apply flatten_length_even
    intro p hp
    obtain ⟨i, _, rfl⟩ := List.mem_map.mp hp
    simp [widths_len]
  unfold symbol39
  rw [hflat, ← appendPattern_even_append _ _ _ (by simp [widths_len]), ← appendPattern_even_append _ _ _ hevenF,
    appendPattern_gap _ (by rw [widths_len])]
  simp [List.append_assoc]

/-! ## DecodeRow on a drawn row -/

theorem getNextSet_white : ∀ (l : List Bool), (∀ b ∈ l, b = false) → getNextSet l 0 = l.length
  | [], _ => rfl
  | b :: bs, h => by
    have hb : b = false := h b (by simp)
    subst hb
    simp only [getNextSet, Bool.false_eq_true, if_false, List.length_cons]
    rw [getNextSet_white bs (fun x hx => h x (by simp [hx]))]; omega

theorem getNextSet_tailQ {row off rq} (h : RowAt row off (tailQ rq) false) : getNextSet row off = row.length := by
  rw [getNextSet_drop row off h.le, h.drop, getNextSet_white]
  · have := h.length
    rw [length_appendPattern]; omega
  · intro b hb
    unfold tailQ at hb
    split at hb
    · simp [appendPattern] at hb
    · simp [appendPattern] at hb; exact hb.2

/-- everything `code39Reader.DecodeRow` does before the optional check digit, on a row that shows (from pixel
    `lq` on, after white pixels only, followed by white pixels only) the symbol characters `syms` -/
theorem c39DecodeRow_core (T : Tables) (f : WF39Facts T) (s : Nat) (hs : 0 < s) (hs31 : s ≤ 2147483647)
    (syms : List Nat) (hsyms : ∀ i ∈ syms, i < 43) (ck ext : Bool) (row : List Bool) (lq rq : Nat)
    (hrow : RowAt row lq ((symbol39 T syms).map (s * ·) ++ tailQ rq) true) (hoff : getNextSet row 0 = lq)
    (hwhite : ∀ a, a ≤ lq → isRangeWhite row a lq = true) :
    c39DecodeRow T ck ext row =
      match c39Finish T.code39Alphabet ck ext (syms.map (alpha39 T)) with
      | .error e => .error e
      | .ok text => .ok ⟨text, 2 * lq + 12 * s, 2 * (lq + 13 * s + 13 * s * syms.length) + 12 * s⟩ := by
  obtain ⟨hsp0, hss0, hspos⟩ := word39_facts s T.code39Asterisk hs hs31 f.star
  have hsp : c39Pattern (star39 T s) = .ok (some T.code39Asterisk) := hsp0
  have hss : sumL (star39 T s) = 12 * s := hss0
  rw [symbol39_scaled, List.append_assoc] at hrow
  have hstarLen : (star39 T s).length = 9 := by simp [star39, widths_len]
  obtain ⟨p0, P, hP⟩ : ∃ p0 P, star39 T s = p0 :: P := by
    cases hc : star39 T s with
    | nil => rw [hc] at hstarLen; simp at hstarLen
    | cons a b => exact ⟨a, b, rfl⟩
  have hPlen : P.length + 1 = 9 := by rw [hP] at hstarLen; simpa using hstarLen
  have hfind : c39FindAsterisk T row = .ok (lq, lq + 12 * s) := by
    unfold c39FindAsterisk
    rw [hoff]
    have hrow' : RowAt row lq (p0 :: P ++ s * 1 :: ((runs39 T s syms ++ star39 T s) ++ tailQ rq)) true := by
      rw [← hP]; simpa [List.append_assoc] using hrow
    have := starLoop_first (c39Accept T row) p0 P (s * 1) _ hrow' (by
      unfold c39Accept
      rw [← hP]
      simp only [hsp, hss, if_true]
      have e : (lq + 12 * s - lq) / 2 = 6 * s := by omega
      rw [e, hwhite _ (by omega)])
    rw [hPlen] at this
    rw [this, ← hP, hss]
  have hadv := hrow.advance_odd (star39 T s) _ (by rw [hstarLen])
  rw [hss] at hadv
  simp only [Bool.not_true, List.cons_append] at hadv
  obtain ⟨w1, rest, hrest⟩ : ∃ w1 rest, (runs39 T s syms ++ star39 T s) ++ tailQ rq = w1 :: rest := by
    cases hc : (runs39 T s syms ++ star39 T s) ++ tailQ rq with
    | nil =>
      have : ((runs39 T s syms ++ star39 T s) ++ tailQ rq).length = 0 := by rw [hc]; rfl
      simp [hstarLen] at this
    | cons a b => exact ⟨a, b, rfl⟩
  have hskip : getNextSet row (lq + 12 * s) = lq + 12 * s + s * 1 := by
    have h' := hadv
    rw [hrest] at h'
    exact getNextSet_skip h'
  have hadv2 : RowAt row (lq + 12 * s + s * 1) (runs39 T s syms ++ (star39 T s ++ tailQ rq)) true := by
    have := hadv.advance_odd [s * 1] _ (by simp)
    simp only [sumL_cons, sumL_nil, Nat.add_zero, Bool.not_false] at this
    have e : (runs39 T s syms ++ star39 T s).append (tailQ rq) = runs39 T s syms ++ (star39 T s ++ tailQ rq) :=
      List.append_assoc _ _ _
    rw [e] at this
    exact this
  -- lengths of the character runs
  have hrl : ∀ (idx : List Nat), (∀ i ∈ idx, i < 43) →
      (runs39 T s idx).length % 2 = 0 ∧ sumL (runs39 T s idx) = 13 * s * idx.length := by
    intro idx
    induction idx with
    | nil => intro _; simp [runs39, sumL_nil]
    | cons i idx ih =>
      intro hh
      obtain ⟨a, b⟩ := ih (fun j hj => hh j (by simp [hj]))
      obtain ⟨_, c, _⟩ := word39_facts s (enc39 T i) hs hs31 (f.word i (hh i (by simp)))
      rw [runs39_cons]
      refine ⟨by simp [widths_len]; omega, ?_⟩
      have e : 13 * s * (idx.length + 1) = 13 * s * idx.length + 13 * s := Nat.mul_succ _ _
      rw [sumL_append, c, sumL_cons, b, List.length_cons, e]; omega
  obtain ⟨hrl1, hrl2⟩ := hrl syms hsyms
  have hloop := c39Loop_at (row := row) T f s hs hs31 syms (lq + 12 * s + s * 1) (row.length + 1) [] (tailQ rq) hsyms
    (by
      have hl := hadv2.length
      simp only [sumL_append, hrl2] at hl
      have : syms.length ≤ 13 * s * syms.length := Nat.le_mul_of_pos_left _ (by omega)
      omega)
    hadv2
  have hend : getNextSet row (lq + 12 * s + s * 1 + 13 * s * syms.length + 12 * s) = row.length := by
    have h' : RowAt row (lq + 12 * s + s * 1) ((runs39 T s syms ++ star39 T s) ++ tailQ rq) true := by
      simpa [List.append_assoc] using hadv2
    have := h'.advance_odd _ _ (by simp [hstarLen]; omega)
    rw [sumL_append, hrl2, hss, ← Nat.add_assoc] at this
    simp only [Bool.not_true] at this
    exact getNextSet_tailQ this
  unfold c39DecodeRow
  simp only [hfind, hskip, hloop, hend, List.reverse_nil, List.nil_append, ne_eq, not_true_eq_false, false_and,
    if_false]
  have e1 : lq + (lq + 12 * s) = 2 * lq + 12 * s := by omega
  have e2 : lq + 12 * s + s * 1 + 13 * s * syms.length = lq + 13 * s + 13 * s * syms.length := by omega
  rw [e1, e2]
  cases c39Finish T.code39Alphabet ck ext (List.map (alpha39 T) syms) <;> rfl

/-! ## extended mode: the repaired `code39DecodeExtended` agrees with the symbol-level unescaping -/

theorem pair39_escape (c n d : Nat) (hc : isShift39 c = true) (h : pair39 c n = .ok d) :
    OneDPost.c39Escape c n = some d := by
  simp only [isShift39, Bool.or_eq_true, decide_eq_true_eq] at hc
  rcases hc with ((rfl | rfl) | rfl) | rfl <;>
    simp only [pair39, OneDPost.c39Escape, OneDPost.inRange] at h ⊢ <;> grind

theorem shift39_eq (c : Nat) : OneDPost.c39IsEscape c = isShift39 c := by
  simp only [OneDPost.c39IsEscape, isShift39]
  have h : ∀ k : Nat, (c == k) = decide (c = k) := fun k => by
    by_cases e : c = k <;> simp [e]
  rw [h, h, h, h]

theorem c39Ext_of_unescape : ∀ (l r acc : List Nat), code39Unescape l = .ok r →
    OneDPost.c39Ext l acc = .ok (acc.reverse ++ r)
  | [], r, acc, h => by cases h; simp [OneDPost.c39Ext]
  | [c], r, acc, h => by
    unfold code39Unescape at h
    split at h
    · cases h
    · rename_i hs
      cases h
      have : OneDPost.c39IsEscape c = false := by rw [shift39_eq]; simpa using hs
      simp [OneDPost.c39Ext, this]
  | c :: n :: rest, r, acc, h => by
    unfold code39Unescape at h
    by_cases hs : isShift39 c = true
    · rw [if_pos hs] at h
      have hs' : OneDPost.c39IsEscape c = true := by rw [shift39_eq]; exact hs
      cases hp : pair39 c n with
      | error e => rw [hp] at h; cases h
      | ok d =>
        rw [hp] at h
        simp only [] at h
        cases hr : code39Unescape rest with
        | error e => rw [hr] at h; cases h
        | ok r' =>
          rw [hr] at h
          cases h
          unfold OneDPost.c39Ext
          rw [if_pos hs']
          simp only [pair39_escape c n d hs hp]
          rw [c39Ext_of_unescape rest r' (d :: acc) hr]
          simp
    · rw [if_neg hs] at h
      have hs' : OneDPost.c39IsEscape c = false := by rw [shift39_eq]; simpa using hs
      cases hr : code39Unescape (n :: rest) with
      | error e => rw [hr] at h; cases h
      | ok r' =>
        rw [hr] at h
        cases h
        unfold OneDPost.c39Ext
        simp only [hs', Bool.false_eq_true, if_false]
        rw [c39Ext_of_unescape (n :: rest) r' (c :: acc) hr]
        simp

/-- `DecodeRow` after the loop (no check digit) on the characters of the writer's symbols = the symbol-level reader -/
theorem c39Finish_symbols (T : Tables) (f : WF39Facts T) (syms : List Nat) (hsyms : ∀ i ∈ syms, i < 43)
    (ext : Bool) (contents : List Nat) (h : code39ReadSymbols T syms ext = .ok contents) :
    c39Finish T.code39Alphabet false ext (syms.map (alpha39 T)) = .ok contents := by
  have hm : syms.mapM (nth T.code39Alphabet) = .ok (syms.map (alpha39 T)) := by
    apply mapM_ok
    intro i hi
    have := hsyms i hi
    rw [nth_ok _ i (by rw [f.alphaLen]; exact this)]
    unfold alpha39
    rw [getD_eq_getElem _ _ _ (by rw [f.alphaLen]; exact this)]
  unfold code39ReadSymbols at h
  have hbind : ∀ {α β : Type} (a : α) (g : α → Res β), (Except.ok a >>= g) = g a := fun _ _ => rfl
  rw [hm, hbind] at h
  unfold c39Finish
  by_cases he : (syms.map (alpha39 T)).isEmpty = true
  · simp [he, throw, throwThe, MonadExceptOf.throw, bind, Except.bind] at h
  · have hl : ¬ (syms.map (alpha39 T)).length = 0 := by
      intro h0; apply he; exact List.isEmpty_iff.mpr (List.eq_nil_of_length_eq_zero h0)
    simp only [he, Bool.false_eq_true, if_false, bind, Except.bind, pure, Except.pure] at h
    simp only [hl, if_false, Bool.false_eq_true]
    cases ext with
    | false => simpa using h
    | true =>
      simp only [if_true] at h ⊢
      rw [c39Ext_of_unescape _ _ [] h]
      simp

end Gzx.Row39
