/-
  wp oned39 — Code 93: the row decoder model reads back what the writer model draws, at every scale.
  Helper lemmas for Properties/C03Row39.lean.
-/
import Gzx.Proofs.Row39Read
import Gzx.Properties.C10
set_option linter.unusedVariables false
set_option linter.unusedSimpArgs false
namespace Gzx.Row39
open Gzx Gzx.OneD
open Gzx.CheckDigit (indexOf? indexOf?_lt indexOf?_get indexOf?_none indexOf?_getElem distinct)

/-! ## the classifier is scale invariant -/

theorem c93PatLoop_scale (s : Nat) (hs : 0 < s) (sum : Nat) : ∀ (cs : List Nat) (even : Bool) (p : Nat),
    c93PatLoop (s * sum) (cs.map (s * ·)) even p = c93PatLoop sum cs even p
  | [], _, _ => rfl
  | c :: cs, even, p => by
    simp only [List.map_cons, c93PatLoop]
    have h0 : (s * sum = 0) ↔ (sum = 0) := by
      constructor
      · intro h; rcases Nat.mul_eq_zero.mp h with h | h <;> omega
      · intro h; rw [h]; simp
    have hdiv : (18 * (s * c) + s * sum) / (2 * (s * sum)) = (18 * c + sum) / (2 * sum) := by
      have e1 : 18 * (s * c) + s * sum = s * (18 * c + sum) := by
        rw [Nat.mul_add, Nat.mul_left_comm]
      have e2 : 2 * (s * sum) = s * (2 * sum) := Nat.mul_left_comm _ _ _
      rw [e1, e2, Nat.mul_div_mul_left _ _ hs]
    by_cases hz : sum = 0
    · have hz' : s * sum = 0 := h0.mpr hz
      simp [hz, hz']
    · have hz' : ¬ s * sum = 0 := fun h => hz (h0.mp h)
      simp only [hz, hz', if_false, hdiv]
      split
      · rfl
      · split
        · exact c93PatLoop_scale s hs sum cs false _
        · exact c93PatLoop_scale s hs sum cs true _

/-- `code93ToPattern` sees the same pattern at every integer scale -/
theorem c93Pattern_scale (s : Nat) (hs : 0 < s) (cs : List Nat) : c93Pattern (cs.map (s * ·)) = c93Pattern cs := by
  unfold c93Pattern
  rw [sumL_scale, c93PatLoop_scale s hs]

/-! ## table facts -/

/-- run widths of the nine modules of an encoding word -/
def r93 (e : Nat) : List Nat := RunLength.runs (bitsMSB 9 e)

def enc93 (T : Tables) (i : Nat) : Nat := T.code93Enc.getD i 0
def alpha93 (T : Tables) (i : Nat) : Nat := T.code93Alphabet.getD i 0

/-- what `code93_row_read_write` needs of the tables: 48 pairwise distinct words, each nine modules =
    three bars and three spaces (six runs, read back by the classifier at one pixel per module), 48 pairwise
    distinct alphabet characters, the 48th being '*' -/
def WF93Row (T : Tables) : Bool :=
  decide (T.code93Enc.length = 48) && decide (T.code93Alphabet.length = 48) &&
  distinct T.code93Enc && distinct T.code93Alphabet && decide (T.code93Alphabet[47]? = some 42) &&
  T.code93Enc.all (fun e =>
    decide ((r93 e).length = 6) && (r93 e).all (fun w => decide (0 < w)) &&
    decide (appendPattern (r93 e) true = bitsMSB 9 e) && decide (c93Pattern (r93 e) = some e))

structure WF93Facts (T : Tables) : Prop where
  encLen : T.code93Enc.length = 48
  alphaLen : T.code93Alphabet.length = 48
  encDistinct : distinct T.code93Enc = true
  alphaDistinct : distinct T.code93Alphabet = true
  star : T.code93Alphabet[47]? = some 42
  word : ∀ i, i < 48 → (r93 (enc93 T i)).length = 6 ∧ (∀ w ∈ r93 (enc93 T i), 0 < w) ∧
    appendPattern (r93 (enc93 T i)) true = bitsMSB 9 (enc93 T i) ∧ c93Pattern (r93 (enc93 T i)) = some (enc93 T i)

theorem wf93Facts (T : Tables) (h : WF93Row T = true) : WF93Facts T := by
  simp only [WF93Row, Bool.and_eq_true, decide_eq_true_eq, List.all_eq_true] at h
  obtain ⟨⟨⟨⟨⟨h1, h2⟩, h3⟩, h4⟩, h5⟩, h6⟩ := h
  refine ⟨h1, h2, h3, h4, h5, ?_⟩
  intro i hi
  have hmem : enc93 T i ∈ T.code93Enc := by
    unfold enc93
    rw [getD_eq_getElem _ _ _ (by omega)]
    exact List.getElem_mem _
  obtain ⟨⟨⟨a, b⟩, c⟩, d⟩ := h6 _ hmem
  exact ⟨a, fun w hw => by simpa using b w hw, c, d⟩

theorem wf93_of_row (T : Tables) (h : WF93Row T = true) : WF93 T = true := by
  have f := wf93Facts T h
  simp [WF93, f.encLen, f.alphaLen]

theorem sumL_eq_length_appendPattern (ws : List Nat) (c : Bool) : sumL ws = (appendPattern ws c).length :=
  (length_appendPattern ws c).symm

theorem r93_sum (T : Tables) (f : WF93Facts T) (i : Nat) (hi : i < 48) : sumL (r93 (enc93 T i)) = 9 := by
  have := (f.word i hi).2.2.1
  rw [sumL_eq_length_appendPattern _ true, this]
  simp [bitsMSB]

/-! ## the character loop on a drawn row -/

/-- runs of the symbol characters `idx` at `s` pixels per module -/
def runs93 (T : Tables) (s : Nat) (idx : List Nat) : List Nat :=
  (idx.map (fun i => (r93 (enc93 T i)).map (s * ·))).flatten

theorem runs93_cons (T : Tables) (s i : Nat) (idx : List Nat) :
    runs93 T s (i :: idx) = (r93 (enc93 T i)).map (s * ·) ++ runs93 T s idx := by
  simp [runs93]

theorem c93Char_at (T : Tables) (f : WF93Facts T) (i : Nat) (hi : i < 48) :
    c93Char T (enc93 T i) = .ok (alpha93 T i) := by
  unfold c93Char
  have he : enc93 T i = T.code93Enc[i]'(by rw [f.encLen]; exact hi) := by
    unfold enc93; exact getD_eq_getElem _ _ _ _
  rw [he, indexOf?_getElem f.encDistinct i (by rw [f.encLen]; exact hi)]
  simp only []
  rw [nth_ok _ i (by rw [f.alphaLen]; exact hi)]
  unfold alpha93
  rw [getD_eq_getElem _ _ _ (by rw [f.alphaLen]; exact hi)]

theorem alpha93_ne_star (T : Tables) (f : WF93Facts T) (i : Nat) (hi : i < 47) : alpha93 T i ≠ 42 := by
  intro h
  have h47 : T.code93Alphabet[47]'(by rw [f.alphaLen]; omega) = 42 := by
    have := f.star
    rw [List.getElem?_eq_getElem (by rw [f.alphaLen]; omega)] at this
    exact Option.some.inj this
  have hi' : T.code93Alphabet[i]'(by rw [f.alphaLen]; omega) = 42 := by
    unfold alpha93 at h
    rw [getD_eq_getElem _ _ _ (by rw [f.alphaLen]; omega)] at h
    exact h
  have e1 := indexOf?_getElem f.alphaDistinct i (by rw [f.alphaLen]; omega)
  have e2 := indexOf?_getElem f.alphaDistinct 47 (by rw [f.alphaLen]; omega)
  rw [hi'] at e1
  rw [h47] at e2
  rw [e1] at e2
  have := Option.some.inj e2
  omega

theorem alpha93_star (T : Tables) (f : WF93Facts T) : alpha93 T 47 = 42 := by
  unfold alpha93
  rw [getD_eq_getElem _ _ _ (by rw [f.alphaLen]; omega)]
  have := f.star
  rw [List.getElem?_eq_getElem (by rw [f.alphaLen]; omega)] at this
  exact Option.some.inj this

/-- one character at a run boundary: RecordPattern, classification, table lookup -/
theorem c93_step {row off} (T : Tables) (f : WF93Facts T) (s : Nat) (hs : 0 < s) (i : Nat) (hi : i < 48)
    (B : List Nat) (h : RowAt row off ((r93 (enc93 T i)).map (s * ·) ++ B) true) :
    wrapNotFound (RunLength.recordPattern row off 6) = .ok ((r93 (enc93 T i)).map (s * ·)) ∧
    c93Pattern ((r93 (enc93 T i)).map (s * ·)) = some (enc93 T i) ∧
    sumL ((r93 (enc93 T i)).map (s * ·)) = 9 * s := by
  obtain ⟨hl, _, _, hp⟩ := f.word i hi
  refine ⟨?_, ?_, ?_⟩
  · rw [recordPattern_at _ B 6 (by omega) (by simp [hl]) h]; rfl
  · rw [c93Pattern_scale s hs, hp]
  · rw [sumL_scale, r93_sum T f i hi, Nat.mul_comm]

theorem c93Loop_at {row} (T : Tables) (f : WF93Facts T) (s : Nat) (hs : 0 < s) :
    ∀ (idx : List Nat) (off fuel : Nat) (acc : List Nat) (t0 : Nat) (tail : List Nat),
      (∀ i ∈ idx, i < 47) → idx.length < fuel →
      RowAt row off (runs93 T s idx ++ ((r93 (enc93 T 47)).map (s * ·) ++ t0 :: tail)) true →
      c93Loop T row fuel off acc =
        .ok (acc.reverse ++ idx.map (alpha93 T), off + 9 * s * idx.length, 9 * s,
             off + 9 * s * (idx.length + 1)) := by
  intro idx
  induction idx with
  | nil =>
    intro off fuel acc t0 tail _ hfuel h
    obtain ⟨fuel', rfl⟩ : ∃ k, fuel = k + 1 := ⟨fuel - 1, by simp at hfuel; omega⟩
    simp only [runs93, List.map_nil, List.flatten_nil, List.nil_append] at h
    obtain ⟨h1, h2, h3⟩ := c93_step T f s hs 47 (by omega) _ h
    unfold c93Loop
    rw [h1]
    simp only [h2, c93Char_at T f 47 (by omega), alpha93_star T f, if_true, h3]
    have hadv := h.advance_even ((r93 (enc93 T 47)).map (s * ·)) (t0 :: tail) (by simp [(f.word 47 (by omega)).1])
    rw [h3] at hadv
    rw [getNextSet_at hadv]
    simp
  | cons i idx ih =>
    intro off fuel acc t0 tail hidx hfuel h
    obtain ⟨fuel', rfl⟩ : ∃ k, fuel = k + 1 := ⟨fuel - 1, by simp at hfuel; omega⟩
    have hi : i < 47 := hidx i (by simp)
    rw [runs93_cons, List.append_assoc] at h
    obtain ⟨h1, h2, h3⟩ := c93_step T f s hs i (by omega) _ h
    have hadv := h.advance_even ((r93 (enc93 T i)).map (s * ·)) _ (by simp [(f.word i (by omega)).1])
    rw [h3] at hadv
    -- the next run (first bar of the next character) is black
    have hnext : getNextSet row (off + 9 * s) = off + 9 * s := by
      cases hr : runs93 T s idx ++ ((r93 (enc93 T 47)).map (s * ·) ++ t0 :: tail) with
      | nil =>
        have : (runs93 T s idx ++ ((r93 (enc93 T 47)).map (s * ·) ++ t0 :: tail)).length = 0 := by rw [hr]; rfl
        simp at this
      | cons w B => rw [hr] at hadv; exact getNextSet_at hadv
    unfold c93Loop
    rw [h1]
    simp only [h2, c93Char_at T f i (by omega), alpha93_ne_star T f i hi, if_false, h3, hnext]
    rw [ih (off + 9 * s) fuel' (alpha93 T i :: acc) t0 tail (fun j hj => hidx j (by simp [hj]))
      (by simp at hfuel; omega) hadv]
    simp only [List.reverse_cons, List.append_assoc, List.singleton_append, List.map_cons, List.length_cons]
    have e1 : 9 * s * (idx.length + 1) = 9 * s * idx.length + 9 * s := Nat.mul_succ _ _
    have e2 : 9 * s * (idx.length + 1 + 1) = 9 * s * idx.length + 9 * s + 9 * s := by
      rw [Nat.mul_succ, Nat.mul_succ]
    rw [e2, e1]
    have e3 : off + 9 * s + 9 * s * idx.length = off + (9 * s * idx.length + 9 * s) := by omega
    have e4 : off + 9 * s + (9 * s * idx.length + 9 * s) = off + (9 * s * idx.length + 9 * s + 9 * s) := by omega
    rw [e3, e4]

/-! ## symbols ↔ characters -/

theorem alphaIndex_spec (A : List Nat) (c i : Nat) (h : alphaIndex A c = .ok i) : i < A.length ∧ A.getD i 0 = c := by
  unfold alphaIndex at h
  split at h
  · rename_i j hj
    cases h
    have h1 := indexOf?_lt hj
    have h2 := indexOf?_get hj
    refine ⟨h1, ?_⟩
    rw [List.getD_eq_getElem?_getD, h2]; rfl
  · cases h

theorem mapM_alphaIndex_spec (A : List Nat) : ∀ (l syms : List Nat), l.mapM (alphaIndex A) = .ok syms →
    (∀ i ∈ syms, i < A.length) ∧ syms.map (fun i => A.getD i 0) = l
  | [], syms, h => by
    simp only [List.mapM_nil, pure, Except.pure] at h
    cases h; simp
  | c :: cs, syms, h => by
    simp only [List.mapM_cons, bind, Except.bind] at h
    split at h
    · cases h
    · rename_i i hi
      split at h
      · cases h
      · rename_i rest hrest
        simp only [pure, Except.pure] at h
        cases h
        obtain ⟨h1, h2⟩ := alphaIndex_spec A c i hi
        obtain ⟨h3, h4⟩ := mapM_alphaIndex_spec A cs rest hrest
        refine ⟨?_, by rw [List.map_cons, h2, h4]⟩
        intro j hj
        rcases List.mem_cons.mp hj with e | e
        · rw [e]; exact h1
        · exact h3 j e

/-! ## the check characters and the unescaping, on characters -/

theorem indexFrom_getElem (A : List Nat) (hA : distinct A = true) (i : Nat) (hi : i < A.length) (k : Nat) :
    OneDPost.indexFrom A A[i] k = ((k + i : Nat) : Int) := by
  induction A generalizing i k with
  | nil => simp at hi
  | cons y ys ih =>
    simp only [distinct, Bool.and_eq_true, Bool.not_eq_true', List.contains_eq_mem,
      decide_eq_false_iff_not] at hA
    cases i with
    | zero => simp [OneDPost.indexFrom]
    | succ j =>
      have hj : j < ys.length := by simpa using hi
      simp only [List.getElem_cons_succ, OneDPost.indexFrom]
      have hne : ¬ y = ys[j] := by
        intro e; apply hA.1; rw [e]; exact List.getElem_mem hj
      rw [if_neg hne, ih hA.2 j hj (k + 1)]
      congr 1; omega

theorem indexOf_alpha93 (T : Tables) (f : WF93Facts T) (i : Nat) (hi : i < 48) :
    OneDPost.indexOf T.code93Alphabet (alpha93 T i) = (i : Int) := by
  unfold OneDPost.indexOf alpha93
  rw [getD_eq_getElem _ _ _ (by rw [f.alphaLen]; exact hi), indexFrom_getElem _ f.alphaDistinct i _ 0]
  simp

theorem c93Weighted_alpha (T : Tables) (f : WF93Facts T) (wm : Nat) : ∀ (l : List Nat) (w : Nat) (t : Int),
    (∀ i ∈ l, i < 48) →
    c93Weighted T.code93Alphabet wm (l.map (alpha93 T)) w t = t + ((CheckDigit.c93SumRev wm w l : Nat) : Int)
  | [], w, t, _ => by simp [c93Weighted, CheckDigit.c93SumRev]
  | i :: l, w, t, h => by
    simp only [List.map_cons, c93Weighted, CheckDigit.c93SumRev]
    rw [c93Weighted_alpha T f wm l _ _ (fun j hj => h j (by simp [hj])), indexOf_alpha93 T f i (h i (by simp))]
    simp only [CheckDigit.c93Next]
    have : ((i * w + CheckDigit.c93SumRev wm (if w + 1 > wm then 1 else w + 1) l : Nat) : Int) =
        (w : Int) * (i : Int) + ((CheckDigit.c93SumRev wm (if w + 1 > wm then 1 else w + 1) l : Nat) : Int) := by
      rw [Int.natCast_add, Int.natCast_mul, Int.mul_comm]
    rw [this]; omega

/-- one check character verifies on the characters the writer's symbols stand for -/
theorem c93CheckOne_written (T : Tables) (f : WF93Facts T) (syms : List Nat) (hs : ∀ i ∈ syms, i < 48)
    (pos wm : Nat) (hp : pos < syms.length)
    (hck : syms.getD pos 0 = CheckDigit.c93Check wm (syms.take pos)) :
    c93CheckOne T.code93Alphabet (syms.map (alpha93 T)) pos wm = .ok () := by
  unfold c93CheckOne
  rw [nth_ok _ pos (by simpa using hp)]
  rw [← List.map_take, ← List.map_reverse,
    c93Weighted_alpha T f wm _ 1 0 (fun i hi => hs i (List.mem_of_mem_take (List.mem_reverse.mp hi)))]
  simp only [Int.zero_add]
  have hmod : Int.tmod ((CheckDigit.c93SumRev wm 1 (syms.take pos).reverse : Nat) : Int) 47 =
      ((CheckDigit.c93Check wm (syms.take pos) : Nat) : Int) := by
    unfold CheckDigit.c93Check
    exact (Int.ofNat_tmod _ 47).symm
  rw [hmod]
  have hlt : CheckDigit.c93Check wm (syms.take pos) < 47 := by
    unfold CheckDigit.c93Check; exact Nat.mod_lt _ (by omega)
  have hal : OneDPost.alphaAt T.code93Alphabet ((CheckDigit.c93Check wm (syms.take pos) : Nat) : Int) =
      .ok (alpha93 T (CheckDigit.c93Check wm (syms.take pos))) := by
    unfold OneDPost.alphaAt
    rw [if_neg (by omega)]
    simp only [Int.toNat_natCast]
    rw [List.getElem?_eq_getElem (by rw [f.alphaLen]; omega)]
    unfold alpha93
    rw [getD_eq_getElem _ _ _ (by rw [f.alphaLen]; omega)]
  rw [hal]
  simp only [List.getElem_map]
  have : syms[pos] = CheckDigit.c93Check wm (syms.take pos) := by
    rw [← hck, getD_eq_getElem _ _ _ hp]
  rw [this]
  simp

theorem pair93_escape (c n d : Nat) (hc : isShift93 c = true) (h : pair93 c n = .ok d) :
    OneDPost.c93Escape c n = some d := by
  simp only [isShift93, Bool.and_eq_true, decide_eq_true_eq] at hc
  have hc' : c = 97 ∨ c = 98 ∨ c = 99 ∨ c = 100 := by omega
  rcases hc' with rfl | rfl | rfl | rfl <;>
    simp only [pair93, OneDPost.c93Escape, OneDPost.inRange] at h ⊢ <;> grind

theorem c93Ext_of_unescape : ∀ (l r acc : List Nat), code93Unescape l = .ok r →
    OneDPost.c93Ext l acc = .ok (acc.reverse ++ r)
  | [], r, acc, h => by cases h; simp [OneDPost.c93Ext]
  | [c], r, acc, h => by
    unfold code93Unescape at h
    split at h
    · cases h
    · rename_i hs
      cases h
      have : OneDPost.c93IsShift c = false := by
        simpa [OneDPost.c93IsShift, OneDPost.inRange, isShift93] using hs
      simp [OneDPost.c93Ext, this]
  | c :: n :: rest, r, acc, h => by
    unfold code93Unescape at h
    by_cases hs : isShift93 c = true
    · rw [if_pos hs] at h
      have hs' : OneDPost.c93IsShift c = true := by
        simpa [OneDPost.c93IsShift, OneDPost.inRange, isShift93] using hs
      cases hp : pair93 c n with
      | error e => rw [hp] at h; cases h
      | ok d =>
        rw [hp] at h
        simp only [] at h
        cases hr : code93Unescape rest with
        | error e => rw [hr] at h; cases h
        | ok r' =>
          rw [hr] at h
          cases h
          unfold OneDPost.c93Ext
          rw [if_pos hs']
          simp only [pair93_escape c n d hs hp]
          rw [c93Ext_of_unescape rest r' (d :: acc) hr]
          simp
    · rw [if_neg hs] at h
      have hs' : OneDPost.c93IsShift c = false := by
        simpa [OneDPost.c93IsShift, OneDPost.inRange, isShift93] using hs
      cases hr : code93Unescape (n :: rest) with
      | error e => rw [hr] at h; cases h
      | ok r' =>
        rw [hr] at h
        cases h
        unfold OneDPost.c93Ext
        simp only [hs', Bool.false_eq_true, if_false]
        rw [c93Ext_of_unescape (n :: rest) r' (c :: acc) hr]
        simp

/-! ## what the writer draws, as one run list -/

def runs93u (T : Tables) (idx : List Nat) : List Nat := (idx.map (fun i => r93 (enc93 T i))).flatten

theorem runs93u_scale (T : Tables) (s : Nat) (idx : List Nat) : (runs93u T idx).map (s * ·) = runs93 T s idx := by
  simp [runs93u, runs93, List.map_flatten, List.map_map, Function.comp_def]

theorem runs93_facts (T : Tables) (f : WF93Facts T) (s : Nat) (hs : 0 < s) : ∀ (idx : List Nat), (∀ i ∈ idx, i < 48) →
    (runs93 T s idx).length = 6 * idx.length ∧ sumL (runs93 T s idx) = 9 * s * idx.length ∧
      (∀ w ∈ runs93 T s idx, 0 < w)
  | [], _ => by simp [runs93, sumL_nil]
  | i :: idx, h => by
    obtain ⟨h1, h2, h3⟩ := runs93_facts T f s hs idx (fun j hj => h j (by simp [hj]))
    have hi := h i (by simp)
    obtain ⟨hl, hp, _, _⟩ := f.word i hi
    rw [runs93_cons]
    refine ⟨by simp [hl, h1]; omega, ?_, ?_⟩
    · rw [sumL_append, sumL_scale, r93_sum T f i hi, h2, List.length_cons]
      have e : 9 * s * (idx.length + 1) = 9 * s * idx.length + 9 * s := Nat.mul_succ _ _
      rw [e]; omega
    · intro w hw
      rcases List.mem_append.mp hw with e | e
      · exact scale_pos s hs _ hp w e
      · exact h3 w e

/-- the run widths of a whole Code 93 symbol: start, characters, stop, termination bar -/
def symbol93 (T : Tables) (syms : List Nat) : List Nat :=
  r93 (enc93 T 47) ++ (runs93u T syms ++ (r93 (enc93 T 47) ++ [1]))

theorem code93Draw_runs (T : Tables) (f : WF93Facts T) (syms : List Nat) (h : ∀ i ∈ syms, i < 48) :
    code93Draw T syms = .ok (appendPattern (symbol93 T syms) true) := by
  unfold code93Draw
  have hstar : nth T.code93Enc 47 = .ok (enc93 T 47) := by
    rw [nth_ok _ 47 (by rw [f.encLen]; omega)]
    unfold enc93; rw [getD_eq_getElem _ _ _ (by rw [f.encLen]; omega)]
  have hchars : syms.mapM (fun i => do let e ← nth T.code93Enc i; pure (bitsMSB 9 e)) =
      .ok (syms.map (fun i => bitsMSB 9 (enc93 T i))) := by
    apply mapM_ok
    intro i hi
    have := h i hi
    rw [nth_ok _ i (by rw [f.encLen]; exact this)]
    unfold enc93; rw [getD_eq_getElem _ _ _ (by rw [f.encLen]; exact this)]
    rfl
  have hbind : ∀ {α β : Type} (a : α) (g : α → Res β), (Except.ok a >>= g) = g a := fun _ _ => rfl
  rw [hstar, hbind, hchars, hbind]
  show Except.ok _ = Except.ok _
  congr 1
  have hw47 := f.word 47 (by omega)
  have hflat : (syms.map (fun i => bitsMSB 9 (enc93 T i))).flatten = appendPattern (runs93u T syms) true := by
    unfold runs93u
    rw [← flatten_map_appendPattern _ true (by
      intro p hp
      obtain ⟨i, hi, rfl⟩ := List.mem_map.mp hp
      rw [(f.word i (h i hi)).1])]
    rw [List.map_map]
    congr 1
    apply List.map_congr_left
    intro i hi
    exact ((f.word i (h i hi)).2.2.1).symm
  have hlenu : (runs93u T syms).length % 2 = 0 := by
    have := (runs93_facts T f 1 (by omega) syms h).1
    rw [← runs93u_scale] at this
    simp at this; omega
  unfold symbol93
  rw [hflat, ← hw47.2.2.1]
  rw [← appendPattern_even_append _ _ _ (by rw [hw47.1]), ← appendPattern_even_append _ _ _ hlenu,
    ← appendPattern_even_append _ _ _ (by rw [hw47.1])]
  simp [appendPattern, List.append_assoc]

theorem escape93_1_no_star (c : Nat) (l : List Nat) (h : code93Escape1 c = .ok l) : 42 ∉ l := by
  unfold code93Escape1 at h
  grind (splits := 30)

theorem escape93_no_star : ∀ (cs e : List Nat), code93Escape cs = .ok e → 42 ∉ e
  | [], e, h => by cases h; simp
  | c :: cs, e, h => by
    simp only [code93Escape, bind, Except.bind] at h
    split at h
    · cases h
    · rename_i e1 h1
      split at h
      · cases h
      · rename_i e2 h2
        simp only [pure, Except.pure] at h
        cases h
        intro hm
        rcases List.mem_append.mp hm with x | x
        · exact escape93_1_no_star c e1 h1 x
        · exact escape93_no_star cs e2 h2 x

/-! ## DecodeRow on a drawn row -/

theorem symbol93_scaled (T : Tables) (s : Nat) (syms : List Nat) :
    (symbol93 T syms).map (s * ·) =
      (r93 (enc93 T 47)).map (s * ·) ++ (runs93 T s syms ++ ((r93 (enc93 T 47)).map (s * ·) ++ [s * 1])) := by
  simp [symbol93, runs93u_scale]

/-- everything `code93Reader.DecodeRow` does before the check characters, on a row that shows (from pixel `lq`
    on, after white pixels only) the symbol characters `syms` between start and stop at `s` pixels per module -/
theorem c93DecodeRow_core (T : Tables) (f : WF93Facts T) (s : Nat) (hs : 0 < s) (syms : List Nat)
    (hsyms : ∀ i ∈ syms, i < 47) (row : List Bool) (lq rq : Nat)
    (hrow : RowAt row lq ((symbol93 T syms).map (s * ·) ++ tailQ rq) true) (hoff : getNextSet row 0 = lq) :
    c93DecodeRow T row =
      match c93Finish T.code93Alphabet (syms.map (alpha93 T)) with
      | .error e => .error e
      | .ok text => .ok ⟨text, 2 * lq + 9 * s, 2 * (lq + 9 * s + 9 * s * syms.length) + 9 * s⟩ := by
  have hw47 := f.word 47 (by omega)
  have hsyms48 : ∀ i ∈ syms, i < 48 := fun i hi => by have := hsyms i hi; omega
  obtain ⟨hrl, hrs, hrp⟩ := runs93_facts T f s hs syms hsyms48
  rw [symbol93_scaled, List.append_assoc] at hrow
  -- the start character: six runs p0 :: P, followed by at least one more run
  have hstarLen : ((r93 (enc93 T 47)).map (s * ·)).length = 6 := by simp [hw47.1]
  obtain ⟨p0, P, hP⟩ : ∃ p0 P, (r93 (enc93 T 47)).map (s * ·) = p0 :: P := by
    cases hc : (r93 (enc93 T 47)).map (s * ·) with
    | nil => rw [hc] at hstarLen; simp at hstarLen
    | cons a b => exact ⟨a, b, rfl⟩
  have hPlen : P.length + 1 = 6 := by rw [hP] at hstarLen; simpa using hstarLen
  have hsum47 : sumL ((r93 (enc93 T 47)).map (s * ·)) = 9 * s := by
    rw [sumL_scale, r93_sum T f 47 (by omega), Nat.mul_comm]
  obtain ⟨w, rest, hX⟩ : ∃ w rest, runs93 T s syms ++ ((r93 (enc93 T 47)).map (s * ·) ++ [s * 1]) ++ tailQ rq
      = w :: rest := by
    cases hc : runs93 T s syms ++ ((r93 (enc93 T 47)).map (s * ·) ++ [s * 1]) ++ tailQ rq with
    | nil =>
      have : (runs93 T s syms ++ ((r93 (enc93 T 47)).map (s * ·) ++ [s * 1]) ++ tailQ rq).length = 0 := by
        rw [hc]; rfl
      simp at this
    | cons a b => exact ⟨a, b, rfl⟩
  have hfind : c93FindAsterisk (enc93 T 47) row = .ok (lq, lq + 9 * s) := by
    unfold c93FindAsterisk
    rw [hoff]
    have hrow' : RowAt row lq (p0 :: P ++ w :: rest) true := by
      rw [← hX, ← hP]; simpa [List.append_assoc] using hrow
    have := starLoop_first (c93Accept (enc93 T 47)) p0 P w rest hrow' (by
      unfold c93Accept
      rw [← hP, c93Pattern_scale s hs, hw47.2.2.2]
      simp)
    rw [hPlen] at this
    rw [this, ← hP, hsum47]
  -- after the start character
  have hadv := hrow.advance_even ((r93 (enc93 T 47)).map (s * ·)) _ (by rw [hstarLen])
  rw [hsum47] at hadv
  have hnext : getNextSet row (lq + 9 * s) = lq + 9 * s := by
    have h' := hadv
    rw [hX] at h'
    exact getNextSet_at h'
  have hloop := c93Loop_at (row := row) T f s hs syms (lq + 9 * s) (row.length + 1) [] (s * 1) (tailQ rq) hsyms
    (by
      have hl := hadv.length
      simp only [sumL_append, hrs] at hl
      have : syms.length ≤ 9 * s * syms.length := by
        have : 1 ≤ 9 * s := by omega
        exact Nat.le_mul_of_pos_left _ (by omega)
      omega)
    (by simpa [List.append_assoc] using hadv)
  -- the termination bar
  have hbar : RowAt row (lq + 9 * s + 9 * s * (syms.length + 1)) (s * 1 :: tailQ rq) true := by
    have h' : RowAt row (lq + 9 * s) ((runs93 T s syms ++ (r93 (enc93 T 47)).map (s * ·)) ++ (s * 1 :: tailQ rq)) true := by
      simpa [List.append_assoc] using hadv
    have := h'.advance_even _ _ (by simp [hrl, hw47.1]; omega)
    rw [sumL_append, hrs, hsum47] at this
    have e : 9 * s * (syms.length + 1) = 9 * s * syms.length + 9 * s := Nat.mul_succ _ _
    rw [e]; exact this
  have hlt : lq + 9 * s + 9 * s * (syms.length + 1) ≠ row.length := by
    have := hbar.lt (by simp)
    omega
  unfold c93DecodeRow
  rw [nth_ok _ 47 (by rw [f.encLen]; omega)]
  have he47 : T.code93Enc[47]'(by rw [f.encLen]; omega) = enc93 T 47 := by
    unfold enc93; rw [getD_eq_getElem _ _ _ (by rw [f.encLen]; omega)]
  simp only [he47, hfind, hnext, hloop, List.reverse_nil, List.nil_append, hlt, if_false, rowGet_at hbar,
    Except.map, Bool.not_true]
  have e : lq + (lq + 9 * s) = 2 * lq + 9 * s := by omega
  rw [e]
  cases c93Finish T.code93Alphabet (List.map (alpha93 T) syms) <;> rfl

theorem c93Check_lt (wm : Nat) (vals : List Nat) : CheckDigit.c93Check wm vals < 47 := by
  unfold CheckDigit.c93Check; exact Nat.mod_lt _ (by omega)

/-- the characters the writer's symbols (data, C, K) stand for pass `checkChecksums` and unescape to the content -/
theorem c93Finish_written (T : Tables) (f : WF93Facts T) (vals : List Nat) (hv : ∀ i ∈ vals, i < 48)
    (contents : List Nat) (hun : code93Unescape (vals.map (alpha93 T)) = .ok contents) :
    c93Finish T.code93Alphabet ((vals ++ [(CheckDigit.c93Checks vals).1, (CheckDigit.c93Checks vals).2]).map (alpha93 T))
      = .ok contents := by
  have hc : (CheckDigit.c93Checks vals).1 = CheckDigit.c93Check 20 vals := rfl
  have hk : (CheckDigit.c93Checks vals).2 = CheckDigit.c93Check 15 (vals ++ [CheckDigit.c93Check 20 vals]) := rfl
  rw [hc, hk]
  generalize hcv : CheckDigit.c93Check 20 vals = c
  generalize hkv : CheckDigit.c93Check 15 (vals ++ [c]) = k
  have hclt : c < 47 := by rw [← hcv]; exact c93Check_lt _ _
  have hklt : k < 47 := by rw [← hkv]; exact c93Check_lt _ _
  have hall : ∀ i ∈ vals ++ [c, k], i < 48 := by
    intro i hi
    rcases List.mem_append.mp hi with e | e
    · exact hv i e
    · simp at e; omega
  have hlen : (vals ++ [c, k]).length = vals.length + 2 := by simp
  have h1 := c93CheckOne_written T f (vals ++ [c, k]) hall vals.length 20 (by omega) (by
    rw [List.take_left' rfl, hcv]
    simp [List.getD_eq_getElem?_getD])
  have h2 := c93CheckOne_written T f (vals ++ [c, k]) hall (vals.length + 1) 15 (by omega) (by
    have : (vals ++ [c, k]).take (vals.length + 1) = vals ++ [c] := by
      rw [show vals ++ [c, k] = (vals ++ [c]) ++ [k] by simp, List.take_left' (by simp)]
    rw [this, hkv]
    simp [List.getD_eq_getElem?_getD, List.getElem?_append_right])
  unfold c93Finish
  have hl2 : ¬ ((vals ++ [c, k]).map (alpha93 T)).length < 2 := by simp
  rw [if_neg hl2]
  have e1 : ((vals ++ [c, k]).map (alpha93 T)).length - 2 = vals.length := by simp
  have e2 : ((vals ++ [c, k]).map (alpha93 T)).length - 1 = vals.length + 1 := by simp
  rw [e1, e2, h1]
  simp only [h2]
  have e3 : ((vals ++ [c, k]).map (alpha93 T)).take vals.length = vals.map (alpha93 T) := by
    rw [List.map_append, List.take_left' (by simp)]
  rw [e3, c93Ext_of_unescape _ _ [] hun]
  simp

end Gzx.Row39
