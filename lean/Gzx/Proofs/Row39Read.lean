/-
  wp oned39 — helper lemmas for Properties/C03Row39.lean: the primitives of the Code 39 / Code 93 / Codabar row
  decoders evaluated on a row given by its run widths, at a run boundary (`RowAt`, Proofs/UpceanRow.lean).
-/
import Gzx.Proofs.Row39Total
import Gzx.Proofs.UpceanRead
set_option linter.unusedVariables false
set_option linter.unusedSimpArgs false
namespace Gzx.Row39
open Gzx Gzx.OneD Gzx.Proofs.TotalOneD

/-! ## RecordPattern at a run boundary -/

theorem recordPattern_at {row off col} (A B : List Nat) (n : Nat) (hn : 0 < n) (hA : A.length = n)
    (h : RowAt row off (A ++ B) col) : RunLength.recordPattern row off n = .ok A := by
  rw [Properties.C20.recordPattern_eq_runs row off n hn, h.drop, runs_appendPattern _ _ h.pos]
  have hl : (A ++ B).length ≥ n := by simp; omega
  simp only [hl, if_true]
  rw [← hA, List.take_left']
  rfl

/-! ## the start-pattern search finds the first window when `accept` says yes -/

theorem starLoop_same (acc : List Nat → Nat → Nat → Res Bool) (m : Nat) (col : Bool) (tail : List Bool) (x : Nat)
    (pre : List Nat) (k : Nat) (zs : List Nat) (ps : Nat) :
    starLoop acc (List.replicate m col ++ tail) x (pre ++ k :: zs) pre.length ps (!col)
      = starLoop acc tail (x + m) (pre ++ (k + m) :: zs) pre.length ps (!col) := by
  induction m generalizing x k with
  | zero => simp
  | succ m ih =>
    have hc : (col != !col) = true := by cases col <;> rfl
    have hlt : pre.length < (pre ++ k :: zs).length := by simp
    simp only [List.replicate_succ, List.cons_append, starLoop, hc, if_true, hlt, incrAt_mid]
    rw [ih]
    have e1 : x + 1 + m = x + (m + 1) := by omega
    have e2 : k + 1 + m = k + (m + 1) := by omega
    rw [e1, e2]

theorem starLoop_match (acc : List Nat → Nat → Nat → Res Bool) (post : List Nat) :
    ∀ (pre : List Nat) (k m : Nat) (zs : List Nat) (w : Nat) (rest : List Nat) (col : Bool) (x ps : Nat),
    zs.length = post.length → (∀ p ∈ post, 0 < p) → 0 < w →
    acc (pre ++ (k + m) :: post) ps (x + m + sumL post) = .ok true →
    starLoop acc (List.replicate m col ++ appendPattern (post ++ w :: rest) (!col)) x (pre ++ k :: zs) pre.length
        ps (!col) = .ok (ps, x + m + sumL post) := by
  induction post with
  | nil =>
    intro pre k m zs w rest col x ps hzs _ hw hacc
    have hz : zs = [] := by simpa using hzs
    subst hz
    obtain ⟨w', rfl⟩ : ∃ w', w = w' + 1 := ⟨w - 1, by omega⟩
    rw [starLoop_same]
    have hc : ((!col) != !col) = false := by cases col <;> rfl
    have hl : pre.length + 1 = (pre ++ [k + m]).length := by simp
    simp only [sumL_nil, Nat.add_zero] at hacc
    simp only [List.nil_append, appendPattern, List.replicate_succ, List.cons_append, starLoop, hc,
      Bool.false_eq_true, if_false, hl, if_true, hacc, sumL_nil, Nat.add_zero]
  | cons p post ih =>
    intro pre k m zs w rest col x ps hzs hpos hw hacc
    obtain ⟨z, zs', rfl⟩ : ∃ z zs', zs = z :: zs' := by
      cases zs with
      | nil => simp at hzs
      | cons z zs' => exact ⟨z, zs', rfl⟩
    have hp : 0 < p := hpos p (by simp)
    obtain ⟨p', rfl⟩ : ∃ p', p = p' + 1 := ⟨p - 1, by omega⟩
    rw [starLoop_same]
    have hc : ((!col) != !col) = false := by cases col <;> rfl
    have hl : ¬ pre.length + 1 = (pre ++ (k + m) :: z :: zs').length := by simp
    have hl2 : pre.length + 1 < (pre ++ (k + m) :: z :: zs').length := by simp
    simp only [List.cons_append, appendPattern, List.replicate_succ, starLoop, hc,
      Bool.false_eq_true, if_false, hl, hl2, if_true]
    have hset : (pre ++ (k + m) :: z :: zs').set (pre.length + 1) 1 = (pre ++ [k + m]) ++ 1 :: zs' := by
      rw [List.set_append_right _ _ (by omega)]
      simp
    have hpl : pre.length + 1 = (pre ++ [k + m]).length := by simp
    rw [hset, hpl]
    have := ih (pre ++ [k + m]) 1 p' zs' w rest (!col) (x + m + 1) ps
      (by simpa using hzs) (fun q hq => hpos q (by simp [hq])) hw
      (by
        have e : 1 + p' = p' + 1 := by omega
        have e2 : x + m + 1 + p' + sumL post = x + m + sumL ((p' + 1) :: post) := by rw [sumL_cons]; omega
        rw [e, e2]; simpa using hacc)
    simp only [Bool.not_not] at this ⊢
    rw [this, sumL_cons]
    congr 2; omega

/-- the search started where the first black run begins: the first `P.length` runs are the window -/
theorem starLoop_first {row off} (acc : List Nat → Nat → Nat → Res Bool) (p0 : Nat) (P : List Nat) (w : Nat)
    (rest : List Nat) (h : RowAt row off (p0 :: P ++ w :: rest) true)
    (hacc : acc (p0 :: P) off (off + sumL (p0 :: P)) = .ok true) :
    starLoop acc (row.drop off) off (List.replicate (P.length + 1) 0) 0 off false
      = .ok (off, off + sumL (p0 :: P)) := by
  rw [h.drop]
  simp only [List.cons_append, appendPattern, List.replicate_succ]
  have hpos : ∀ q ∈ P, 0 < q := fun q hq => h.pos q (by simp [hq])
  have hw : 0 < w := h.pos w (by simp)
  have := starLoop_match acc P [] 0 p0 (List.replicate P.length 0) w rest true off off (by simp) hpos hw
    (by simpa [sumL_cons, Nat.add_assoc] using hacc)
  simp only [List.nil_append, List.length_nil, Bool.not_true, Nat.zero_add] at this
  simp only [Bool.not_true]
  rw [this, sumL_cons]
  congr 2; omega

/-! ## the rendered row seen from the end of the left quiet zone (quiet zones may be empty) -/

/-- the right quiet zone as a run list: nothing when it is empty -/
def tailQ (rq : Nat) : List Nat := if rq = 0 then [] else [rq]

theorem tailQ_pos (rq : Nat) : ∀ w ∈ tailQ rq, 0 < w := by
  intro w hw
  unfold tailQ at hw
  split at hw
  · cases hw
  · simp at hw; omega

theorem paddedRow_rowAt (R : List Nat) (lq s rq : Nat) (hs : 0 < s) (hodd : R.length % 2 = 1)
    (hpos : ∀ w ∈ R, 0 < w) :
    RowAt (paddedRow lq s rq (appendPattern R true)) lq (R.map (s * ·) ++ tailQ rq) true ∧
    getNextSet (paddedRow lq s rq (appendPattern R true)) 0 = lq ∧
    (paddedRow lq s rq (appendPattern R true)).length = lq + s * sumL R + rq := by
  have hbody : (paddedRow lq s rq (appendPattern R true)).drop lq =
      appendPattern (R.map (s * ·) ++ tailQ rq) true := by
    unfold paddedRow
    rw [List.append_assoc, List.drop_left' (by simp), scaleRow_appendPattern, appendPattern_append]
    have hne : ¬ (R.map (s * ·)).length % 2 = 0 := by simp; omega
    simp only [hne, if_false, Bool.not_true]
    congr 1
    unfold tailQ
    split
    · rename_i h; subst h; simp [appendPattern]
    · simp [appendPattern]
  have hlen : (paddedRow lq s rq (appendPattern R true)).length = lq + s * sumL R + rq := by
    unfold paddedRow
    simp only [List.length_append, List.length_replicate, scaleRow_appendPattern, length_appendPattern, sumL_scale]
  refine ⟨⟨by omega, hbody, ?_⟩, ?_, hlen⟩
  · intro w hw
    rcases List.mem_append.mp hw with h | h
    · exact scale_pos s hs R hpos w h
    · exact tailQ_pos rq w h
  · obtain ⟨r0, R', rfl⟩ : ∃ r0 R', R = r0 :: R' := by
      cases R with
      | nil => simp at hodd
      | cons a b => exact ⟨a, b, rfl⟩
    have hr0 : 0 < s * r0 := Nat.mul_pos hs (hpos r0 (by simp))
    obtain ⟨k, hk⟩ : ∃ k, s * r0 = k + 1 := ⟨s * r0 - 1, by omega⟩
    unfold paddedRow
    rw [scaleRow_appendPattern]
    simp only [List.map_cons, appendPattern, hk, List.replicate_succ, List.cons_append, List.append_assoc]
    exact getNextSet_replicate lq _

/-- the pixel at a run boundary has the colour of the run -/
theorem rowGet_at {row off w B col} (h : RowAt row off (w :: B) col) : rowGet row off = .ok col := by
  obtain ⟨tl, htl⟩ := h.head
  unfold rowGet nth
  have : row[off]? = some col := by
    have := List.getElem?_drop (xs := row) (i := off) (j := 0)
    rw [htl] at this
    simpa using this.symm
  rw [this]

end Gzx.Row39
