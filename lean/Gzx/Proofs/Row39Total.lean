/-
  wp oned39 — helper lemmas for Properties/C06Row39.lean: every index expression of the Code 39 / Code 93 /
  Codabar row-decoder models (Gzx/Model/OneDRow39.lean) stays in range, on EVERY row.
  `Sat E P r` (Gzx.Det): `r` is a value satisfying `P` or an error allowed by `E`.
-/
import Gzx.Model.OneDRow39
import Gzx.Model.DetCore
import Gzx.Proofs.OneDPost
import Gzx.Proofs.TotalOneD
import Gzx.Proofs.CheckDigit
import Gzx.Proofs.OneD
import Gzx.Properties.C20
set_option linter.unusedVariables false
set_option linter.unusedSimpArgs false
namespace Gzx.Row39
open Gzx Gzx.OneD Gzx.Det Gzx.Proofs.TotalOneD
open Gzx.CheckDigit (indexOf? indexOf?_lt indexOf?_get indexOf?_none)

abbrev Any {α : Type} : α → Prop := fun _ => True

theorem sat_ok {α : Type} {E : Fault → Prop} {P : α → Prop} {a : α} (h : P a) : Sat E P (.ok a : Res α) := h
theorem sat_err {α : Type} {E : Fault → Prop} {P : α → Prop} {e : Fault} (h : E e) : Sat E P (.error e : Res α) := h

/-! ## the shared start-pattern search -/

theorem incrAt_le (x : Nat) : ∀ (cs : List Nat) (pos : Nat), (∀ c ∈ cs, c ≤ x) → ∀ c ∈ incrAt cs pos, c ≤ x + 1
  | [], _, _ => by intro c hc; simp [incrAt] at hc
  | a :: as, 0, h => by
    intro c hc
    simp only [incrAt, List.mem_cons] at hc
    rcases hc with h1 | h1
    · have := h a (by simp); omega
    · have := h c (by simp [h1]); omega
  | a :: as, n + 1, h => by
    intro c hc
    simp only [incrAt, List.mem_cons] at hc
    rcases hc with h1 | h1
    · have := h a (by simp); omega
    · exact incrAt_le x as n (fun d hd => h d (by simp [hd])) c h1

/-- the search loop never leaves its counter slice; `accept` is only ever asked about counters that are at most
    `N` ≥ the row length (each counter counts pixels of the row) -/
theorem starLoop_sat {E : Fault → Prop} (hnf : E .notFound) (N : Nat)
    (accept : List Nat → Nat → Nat → Res Bool)
    (hacc : ∀ cs ps x, (∀ c ∈ cs, c ≤ N) → Sat E Any (accept cs ps x)) :
    ∀ (bs : List Bool) (x : Nat) (cs : List Nat) (pos ps : Nat) (w : Bool),
      2 ≤ cs.length → pos < cs.length → x + bs.length ≤ N → (∀ c ∈ cs, c ≤ x) →
      Sat E Any (starLoop accept bs x cs pos ps w)
  | [], _, _, _, _, _, _, _, _, _ => by unfold starLoop; exact hnf
  | b :: bs, x, cs, pos, ps, w, h2, hp, hN, hb => by
    unfold starLoop
    have hN' : x + 1 + bs.length ≤ N := by simp at hN; omega
    by_cases hbw : (b != w) = true
    · rw [if_pos hbw, if_pos hp]
      exact starLoop_sat hnf N accept hacc bs _ _ _ _ _ (by rw [incrAt_length]; exact h2)
        (by rw [incrAt_length]; exact hp) hN' (incrAt_le x cs pos hb)
    · rw [if_neg hbw]
      by_cases hlast : pos + 1 = cs.length
      · rw [if_pos hlast]
        have ha := hacc cs ps x (fun c hc => by have := hb c hc; simp at hN; omega)
        cases hacc' : accept cs ps x with
        | error e => rw [hacc'] at ha; exact ha
        | ok t =>
          cases t with
          | true => trivial
          | false =>
            match cs, h2, hlast, hb with
            | c0 :: c1 :: tl, _, hlast, hb =>
              simp only []
              refine starLoop_sat hnf N accept hacc bs _ _ _ _ _ (by simp) (by simp at hlast ⊢; omega) hN' ?_
              intro c hc
              simp only [List.mem_append, List.mem_cons, List.not_mem_nil, or_false] at hc
              rcases hc with h1 | h1 | h1
              · have := hb c (by simp [h1]); omega
              · omega
              · omega
      · rw [if_neg hlast, if_pos (by omega)]
        refine starLoop_sat hnf N accept hacc bs _ _ _ _ _ (by rw [List.length_set]; exact h2)
          (by rw [List.length_set]; omega) hN' ?_
        intro c hc
        rcases List.mem_or_eq_of_mem_set hc with h1 | h1
        · have := hb c h1; omega
        · omega

/-! ## Code 39 -/

theorem c39PatternLoop_sat {E : Fault → Prop} (hf : E .fuel) (cs : List Nat) :
    ∀ (fuel m : Nat), Sat E Any (c39PatternLoop cs fuel m)
  | 0, _ => by unfold c39PatternLoop; exact hf
  | fuel + 1, m => by
    unfold c39PatternLoop
    simp only []
    split
    · split <;> trivial
    · split
      · exact c39PatternLoop_sat hf cs fuel _
      · trivial

theorem c39Pattern_sat {E : Fault → Prop} (hf : E .fuel) (cs : List Nat) : Sat E Any (c39Pattern cs) :=
  c39PatternLoop_sat hf cs _ _

theorem c39Accept_sat {E : Fault → Prop} (hf : E .fuel) (T : Tables) (row : List Bool) (cs : List Nat) (ps i : Nat) :
    Sat E Any (c39Accept T row cs ps i) := by
  unfold c39Accept
  have h := c39Pattern_sat hf cs
  cases hp : c39Pattern cs with
  | error e => rw [hp] at h; exact h
  | ok p => simp only []; split <;> trivial

theorem c39Accept_sat' {E : Fault → Prop} (T : Tables) (row : List Bool) (cs : List Nat) (ps i : Nat)
    (h : Sat E Any (c39Pattern cs)) : Sat E Any (c39Accept T row cs ps i) := by
  unfold c39Accept
  cases hp : c39Pattern cs with
  | error e => rw [hp] at h; exact h
  | ok p => simp only []; split <;> trivial

theorem getNextSet_le' (row : List Bool) (n : Nat) : getNextSet row n ≤ row.length := by
  induction row generalizing n with
  | nil => simp [getNextSet]
  | cons b bs ih =>
    cases n with
    | zero =>
      simp only [getNextSet]
      split
      · simp
      · have := ih 0; simp; omega
    | succ n => have := ih n; simp only [getNextSet, List.length_cons]; omega

theorem c39FindAsterisk_sat {E : Fault → Prop} (hnf : E .notFound) (T : Tables) (row : List Bool)
    (hpat : ∀ cs, (∀ c ∈ cs, c ≤ row.length) → Sat E Any (c39Pattern cs)) :
    Sat E Any (c39FindAsterisk T row) := by
  unfold c39FindAsterisk
  have hoff := getNextSet_le' row 0
  refine starLoop_sat hnf row.length _ (fun cs ps x hb => c39Accept_sat' T row cs ps x (hpat cs hb)) _ _ _ _ _ _
    (by simp) (by simp) ?_ ?_
  · rw [List.length_drop]; omega
  · intro c hc; simp at hc; omega

/-- table facts the Code 39 reader relies on: an alphabet entry for every encoding, 43 entries for the check character -/
def WF39 (T : Tables) : Bool :=
  decide (T.code39Enc.length ≤ T.code39Alphabet.length) && decide (43 ≤ T.code39Alphabet.length)

theorem c39Char_sat {E : Fault → Prop} (hnf : E .notFound) (T : Tables) (hT : WF39 T = true) (p : Nat) :
    Sat E (fun ch => ch = 42 ∨ ch ∈ T.code39Alphabet) (c39Char T p) := by
  unfold c39Char
  simp only [WF39, Bool.and_eq_true, decide_eq_true_eq] at hT
  cases hi : indexOf? p T.code39Enc with
  | some i =>
    simp only []
    have hlt := indexOf?_lt hi
    rw [nth_ok _ i (by omega)]
    exact Or.inr (List.getElem_mem _)
  | none =>
    simp only []
    split
    · exact Or.inl rfl
    · exact hnf

theorem wrapNotFound_sat {α : Type} {E : Fault → Prop} (hnf : E .notFound) (hf : E .fuel) (r : Res α)
    (hr : ∀ w, r ≠ .error (.panic w)) : Sat E Any (wrapNotFound r) := by
  cases r with
  | ok a => trivial
  | error e =>
    cases e with
    | panic w => exact absurd rfl (hr w)
    | fuel => exact hf
    | notFound => exact hnf
    | checksum => exact hnf
    | format => exact hnf
    | illegalArg => exact hnf
    | writer => exact hnf

theorem wrapNotFound_ok {α : Type} {r : Res α} {a : α} (h : wrapNotFound r = .ok a) : r = .ok a := by
  cases r with
  | ok b => simpa [wrapNotFound] using h
  | error e => cases e <;> simp [wrapNotFound] at h

/-! ## run lengths, RecordPattern, GetNextSet: bounds -/

theorem runsAux_sum (bs : List Bool) (cur : Bool) (cnt : Nat) :
    RunLength.sumL (RunLength.runsAux bs cur cnt) = cnt + bs.length := by
  induction bs generalizing cur cnt with
  | nil => simp [RunLength.runsAux, RunLength.sumL]
  | cons b bs ih =>
    unfold RunLength.runsAux
    split
    · rw [ih]; simp; omega
    · have := ih b 1
      simp only [RunLength.sumL, List.foldr_cons] at this ⊢
      rw [this]; simp; omega

theorem runs_sum (l : List Bool) : RunLength.sumL (RunLength.runs l) = l.length := by
  cases l with
  | nil => rfl
  | cons b bs => simp only [RunLength.runs]; rw [runsAux_sum]; simp; omega

theorem runsAux_pos (bs : List Bool) (cur : Bool) (cnt : Nat) (h : 0 < cnt) :
    ∀ r ∈ RunLength.runsAux bs cur cnt, 0 < r := by
  induction bs generalizing cur cnt with
  | nil => intro r hr; simp [RunLength.runsAux] at hr; omega
  | cons b bs ih =>
    unfold RunLength.runsAux
    split
    · exact ih cur (cnt + 1) (by omega)
    · intro r hr
      rcases List.mem_cons.mp hr with h1 | h1
      · omega
      · exact ih b 1 (by omega) r h1

theorem runs_pos (l : List Bool) : ∀ r ∈ RunLength.runs l, 0 < r := by
  cases l with
  | nil => intro r hr; simp [RunLength.runs] at hr
  | cons b bs => exact runsAux_pos bs b 1 (by omega)

theorem rsumL_take_le (l : List Nat) (n : Nat) : RunLength.sumL (l.take n) ≤ RunLength.sumL l := by
  induction l generalizing n with
  | nil => simp
  | cons x xs ih =>
    cases n with
    | zero => simp [RunLength.sumL]
    | succ n =>
      have := ih n
      simp only [List.take_succ_cons, RunLength.sumL, List.foldr_cons] at this ⊢
      omega

theorem mem_le_rsumL (l : List Nat) : ∀ c ∈ l, c ≤ RunLength.sumL l := by
  induction l with
  | nil => intro c hc; cases hc
  | cons x xs ih =>
    intro c hc
    simp only [RunLength.sumL, List.foldr_cons]
    rcases List.mem_cons.mp hc with h1 | h1
    · omega
    · have := ih c h1; simp only [RunLength.sumL] at this; omega

/-- what a successful `RecordPattern(row, start, counters)` with `n ≥ 1` counters guarantees -/
theorem recordPattern_bounds (row : List Bool) (start n : Nat) (hn : 0 < n) (cs : List Nat)
    (h : RunLength.recordPattern row start n = .ok cs) :
    cs.length = n ∧ 1 ≤ sumL cs ∧ start + sumL cs ≤ row.length ∧ (∀ c ∈ cs, 0 < c) ∧
      (∀ c ∈ cs, c ≤ row.length) := by
  rw [Properties.C20.recordPattern_eq_runs row start n hn] at h
  simp only [] at h
  split at h
  · rename_i hlen
    cases h
    have hsum := runs_sum (row.drop start)
    have htake := rsumL_take_le (RunLength.runs (row.drop start)) n
    have hpos := runs_pos (row.drop start)
    have hl : ((RunLength.runs (row.drop start)).take n).length = n := by
      rw [List.length_take]; omega
    have hdrop : (row.drop start).length = row.length - start := List.length_drop
    have hne : row.drop start ≠ [] := by
      intro he; rw [he] at hlen; simp [RunLength.runs] at hlen; omega
    have hstart : start < row.length := by
      have : 0 < (row.drop start).length := List.length_pos_iff.mpr hne
      omega
    have hpos' : ∀ c ∈ (RunLength.runs (row.drop start)).take n, 0 < c :=
      fun c hc => hpos c (List.mem_of_mem_take hc)
    have h1 : 1 ≤ sumL ((RunLength.runs (row.drop start)).take n) := by
      cases htk : (RunLength.runs (row.drop start)).take n with
      | nil => rw [htk] at hl; simp at hl; omega
      | cons x xs =>
        have := hpos' x (by rw [htk]; simp)
        simp only [sumL, List.foldr_cons]; omega
    have hsame : ∀ l : List Nat, sumL l = RunLength.sumL l := fun _ => rfl
    refine ⟨hl, h1, ?_, hpos', ?_⟩
    · rw [hsame]; omega
    · intro c hc
      have := mem_le_rsumL _ c hc
      omega
  · cases h

theorem getNextSet_le (row : List Bool) (n : Nat) : getNextSet row n ≤ row.length := by
  induction row generalizing n with
  | nil => simp [getNextSet]
  | cons b bs ih =>
    cases n with
    | zero =>
      simp only [getNextSet]
      split
      · simp
      · have := ih 0; simp; omega
    | succ n => have := ih n; simp only [getNextSet, List.length_cons]; omega

theorem getNextSet_ge (row : List Bool) (n : Nat) (h : n ≤ row.length) : n ≤ getNextSet row n := by
  induction row generalizing n with
  | nil => simp at h; subst h; simp [getNextSet]
  | cons b bs ih =>
    cases n with
    | zero => omega
    | succ n => have := ih n (by simpa using h); simp only [getNextSet]; omega

theorem recordPattern_nf (row : List Bool) (start n : Nat) (hn : 0 < n) :
    (∃ cs, RunLength.recordPattern row start n = .ok cs) ∨ RunLength.recordPattern row start n = .error .notFound := by
  rw [Properties.C20.recordPattern_eq_runs row start n hn]
  simp only []
  split
  · exact Or.inl ⟨_, rfl⟩
  · exact Or.inr rfl

/-- `WrapNotFoundException(RecordPattern(…))`: the counters with their bounds, or NotFound -/
theorem wrapRecord_sat {E : Fault → Prop} (hnf : E .notFound) (row : List Bool) (start n : Nat) (hn : 0 < n) :
    Sat E (fun cs => cs.length = n ∧ 1 ≤ sumL cs ∧ start + sumL cs ≤ row.length ∧ (∀ c ∈ cs, 0 < c) ∧
        (∀ c ∈ cs, c ≤ row.length)) (wrapNotFound (RunLength.recordPattern row start n)) := by
  rcases recordPattern_nf row start n hn with ⟨cs, h⟩ | h
  · rw [h]; exact recordPattern_bounds row start n hn cs h
  · rw [h]; exact hnf

/-! ## Code 39: the character loop and the rest of DecodeRow -/

theorem c39Loop_sat {E : Fault → Prop} (hnf : E .notFound) (T : Tables) (hT : WF39 T = true) (row : List Bool)
    (hpat : ∀ cs, (∀ c ∈ cs, c ≤ row.length) → Sat E Any (c39Pattern cs)) :
    ∀ (fuel nextStart : Nat) (acc : List Nat), nextStart ≤ row.length → row.length + 1 ≤ nextStart + fuel →
      (∀ c ∈ acc, c ∈ T.code39Alphabet) →
      Sat E (fun r => (∀ c ∈ r.1, c ∈ T.code39Alphabet) ∧ r.2.2.2 ≤ row.length) (c39Loop T row fuel nextStart acc)
  | 0, nextStart, _, hle, hfuel, _ => by omega
  | fuel + 1, nextStart, acc, hle, hfuel, hacc => by
    unfold c39Loop
    have hw := wrapRecord_sat (E := E) hnf row nextStart 9 (by omega)
    cases hrp : wrapNotFound (RunLength.recordPattern row nextStart 9) with
    | error e => rw [hrp] at hw; exact hw
    | ok cs =>
      rw [hrp] at hw
      obtain ⟨_, hs1, hs2, _, hbound⟩ := hw
      simp only []
      have hp := hpat cs hbound
      cases hpt : c39Pattern cs with
      | error e => rw [hpt] at hp; exact hp
      | ok po =>
        cases po with
        | none => exact hnf
        | some p =>
          simp only []
          have hc := c39Char_sat (E := E) hnf T hT p
          cases hch : c39Char T p with
          | error e => rw [hch] at hc; exact hc
          | ok ch =>
            rw [hch] at hc
            simp only []
            have hnext := getNextSet_le row (nextStart + sumL cs)
            have hge := getNextSet_ge row (nextStart + sumL cs) hs2
            split
            · exact ⟨fun c hcm => hacc c (by simpa using hcm), hnext⟩
            · rename_i hne
              apply c39Loop_sat hnf T hT row hpat fuel _ (ch :: acc) hnext (by omega)
              intro c hcm
              rcases List.mem_cons.mp hcm with h1 | h1
              · subst h1
                rcases hc with h42 | hmem
                · exact absurd h42 hne
                · exact hmem
              · exact hacc c h1

theorem c39Ext_sat {E : Fault → Prop} (hfm : E .format) (s acc : List Nat) : Sat E Any (OneDPost.c39Ext s acc) := by
  fun_induction OneDPost.c39Ext s acc <;> first | trivial | exact hfm | assumption

theorem c39Finish_sat {E : Fault → Prop} (hnf : E .notFound) (hck : E .checksum) (hfm : E .format)
    (A : List Nat) (hA : 43 ≤ A.length) (ck ext : Bool) (s : List Nat) (hs : ∀ c ∈ s, c ∈ A) :
    Sat E Any (c39Finish A ck ext s) := by
  unfold c39Finish
  by_cases h0 : s.length = 0
  · rw [if_pos h0]; exact hnf
  · rw [if_neg h0]
    have hext : ∀ s' : List Nat, Sat E Any (if s'.length = 0 then (.error .notFound : Res (List Nat))
        else if ext = true then OneDPost.c39Ext s' [] else .ok s') := by
      intro s'
      split
      · exact hnf
      · split
        · exact c39Ext_sat hfm s' []
        · trivial
    cases ck with
    | false => simp only [Bool.false_eq_true, if_false]; exact hext s
    | true =>
      simp only [if_true]
      rw [nth_ok s (s.length - 1) (by omega)]
      have htot : 0 ≤ OneDPost.sumIdx A (s.take (s.length - 1)) :=
        OneDPost.sumIdx_nonneg _ _ (fun c hc => hs c (List.mem_of_mem_take hc))
      obtain ⟨want, hw⟩ := OneDPost.alphaAt_tmod_ok A 43 hA (by omega) _ htot
      have hw' : OneDPost.alphaAt A (Int.tmod (OneDPost.sumIdx A (s.take (s.length - 1))) 43) = .ok want := hw
      rw [hw']
      simp only []
      by_cases hne : s[s.length - 1] ≠ want
      · rw [if_pos hne]; exact hck
      · rw [if_neg hne]; exact hext _

/-- Code 39 `DecodeRow`: allowed errors `E` ⊇ {NotFound, Checksum, Format} ∪ whatever the classifier may report
    on counters bounded by the row length -/
theorem c39DecodeRow_sat {E : Fault → Prop} (hnf : E .notFound) (hck : E .checksum) (hfm : E .format)
    (T : Tables) (hT : WF39 T = true) (ck ext : Bool) (row : List Bool)
    (hpat : ∀ cs, (∀ c ∈ cs, c ≤ row.length) → Sat E Any (c39Pattern cs)) :
    Sat E Any (c39DecodeRow T ck ext row) := by
  unfold c39DecodeRow
  have hfind := c39FindAsterisk_sat hnf T row hpat
  cases hfa : c39FindAsterisk T row with
  | error e => rw [hfa] at hfind; exact hfind
  | ok se =>
    obtain ⟨startLeft, startRight⟩ := se
    simp only []
    have hl := c39Loop_sat hnf T hT row hpat (row.length + 1) (getNextSet row startRight) []
      (getNextSet_le _ _) (by omega) (by simp)
    cases hlp : c39Loop T row (row.length + 1) (getNextSet row startRight) [] with
    | error e => rw [hlp] at hl; exact hl
    | ok r =>
      rw [hlp] at hl
      obtain ⟨result, lastStart, lastSize, next⟩ := r
      simp only []
      split
      · exact hnf
      · have hA : 43 ≤ T.code39Alphabet.length := by
          simp only [WF39, Bool.and_eq_true, decide_eq_true_eq] at hT; exact hT.2
        have hfin := c39Finish_sat hnf hck hfm T.code39Alphabet hA ck ext result hl.1
        cases hf : c39Finish T.code39Alphabet ck ext result with
        | error e => rw [hf] at hfin; exact hfin
        | ok text => trivial

/-! ## Code 93 -/

/-- table facts the Code 93 reader relies on: entry 47 (the asterisk) exists, an alphabet entry for every
    encoding, 47 entries for the check characters -/
def WF93 (T : Tables) : Bool :=
  decide (48 ≤ T.code93Enc.length) && decide (T.code93Enc.length ≤ T.code93Alphabet.length) &&
    decide (47 ≤ T.code93Alphabet.length)

theorem c93FindAsterisk_sat {E : Fault → Prop} (hnf : E .notFound) (star : Nat) (row : List Bool) :
    Sat E Any (c93FindAsterisk star row) := by
  unfold c93FindAsterisk
  have hoff := getNextSet_le' row 0
  refine starLoop_sat hnf row.length _ (fun cs ps x _ => by unfold c93Accept; trivial) _ _ _ _ _ _
    (by simp) (by simp) ?_ ?_
  · rw [List.length_drop]; omega
  · intro c hc; simp at hc; omega

theorem c93Char_sat {E : Fault → Prop} (hnf : E .notFound) (T : Tables) (hT : WF93 T = true) (p : Nat) :
    Sat E (fun ch => ch ∈ T.code93Alphabet) (c93Char T p) := by
  unfold c93Char
  simp only [WF93, Bool.and_eq_true, decide_eq_true_eq] at hT
  cases hi : indexOf? p T.code93Enc with
  | some i =>
    simp only []
    have hlt := indexOf?_lt hi
    rw [nth_ok _ i (by omega)]
    exact List.getElem_mem _
  | none => exact hnf

theorem c93Loop_sat {E : Fault → Prop} (hnf : E .notFound) (T : Tables) (hT : WF93 T = true) (row : List Bool) :
    ∀ (fuel nextStart : Nat) (acc : List Nat), nextStart ≤ row.length → row.length + 1 ≤ nextStart + fuel →
      (∀ c ∈ acc, c ∈ T.code93Alphabet) →
      Sat E (fun r => (∀ c ∈ r.1, c ∈ T.code93Alphabet) ∧ r.2.2.2 ≤ row.length) (c93Loop T row fuel nextStart acc)
  | 0, nextStart, _, hle, hfuel, _ => by omega
  | fuel + 1, nextStart, acc, hle, hfuel, hacc => by
    unfold c93Loop
    have hw := wrapRecord_sat (E := E) hnf row nextStart 6 (by omega)
    cases hrp : wrapNotFound (RunLength.recordPattern row nextStart 6) with
    | error e => rw [hrp] at hw; exact hw
    | ok cs =>
      rw [hrp] at hw
      obtain ⟨_, hs1, hs2, _, hbound⟩ := hw
      simp only []
      cases hpt : c93Pattern cs with
      | none => exact hnf
      | some p =>
        simp only []
        have hc := c93Char_sat (E := E) hnf T hT p
        cases hch : c93Char T p with
        | error e => rw [hch] at hc; exact hc
        | ok ch =>
          rw [hch] at hc
          simp only []
          have hnext := getNextSet_le row (nextStart + sumL cs)
          have hge := getNextSet_ge row (nextStart + sumL cs) hs2
          split
          · exact ⟨fun c hcm => hacc c (by simpa using hcm), hnext⟩
          · apply c93Loop_sat hnf T hT row fuel _ (ch :: acc) hnext (by omega)
            intro c hcm
            rcases List.mem_cons.mp hcm with h1 | h1
            · subst h1; exact hc
            · exact hacc c h1

theorem c93Weighted_nonneg (A : List Nat) (wm : Nat) (s : List Nat) (h : ∀ c ∈ s, c ∈ A) (w : Nat) (t : Int)
    (ht : 0 ≤ t) : 0 ≤ c93Weighted A wm s w t := by
  induction s generalizing w t with
  | nil => simpa [c93Weighted] using ht
  | cons c rest ih =>
    simp only [c93Weighted]
    apply ih (fun x hx => h x (by simp [hx]))
    have h1 := OneDPost.indexOf_nonneg A c (h c (by simp))
    have h2 : 0 ≤ (w : Int) * OneDPost.indexOf A c := Int.mul_nonneg (by omega) h1
    omega

theorem c93CheckOne_sat {E : Fault → Prop} (hck : E .checksum) (A : List Nat) (hA : 47 ≤ A.length)
    (s : List Nat) (hs : ∀ c ∈ s, c ∈ A) (pos wm : Nat) (hp : pos < s.length) :
    Sat E Any (c93CheckOne A s pos wm) := by
  unfold c93CheckOne
  rw [nth_ok s pos hp]
  have htot : 0 ≤ c93Weighted A wm (s.take pos).reverse 1 0 :=
    c93Weighted_nonneg A wm _ (fun c hc => hs c (List.mem_of_mem_take (List.mem_reverse.mp hc))) 1 0 (by omega)
  obtain ⟨want, hw⟩ := OneDPost.alphaAt_tmod_ok A 47 hA (by omega) _ htot
  have hw' : OneDPost.alphaAt A (Int.tmod (c93Weighted A wm (s.take pos).reverse 1 0) 47) = .ok want := hw
  simp only []
  rw [hw']
  simp only []
  split
  · exact hck
  · trivial

theorem c93Ext_sat {E : Fault → Prop} (hfm : E .format) (s acc : List Nat) : Sat E Any (OneDPost.c93Ext s acc) := by
  fun_induction OneDPost.c93Ext s acc <;> first | trivial | exact hfm | assumption

theorem c93Finish_sat {E : Fault → Prop} (hnf : E .notFound) (hck : E .checksum) (hfm : E .format)
    (A : List Nat) (hA : 47 ≤ A.length) (s : List Nat) (hs : ∀ c ∈ s, c ∈ A) :
    Sat E Any (c93Finish A s) := by
  unfold c93Finish
  by_cases h2 : s.length < 2
  · rw [if_pos h2]; exact hnf
  · rw [if_neg h2]
    have p1 := c93CheckOne_sat hck A hA s hs (s.length - 2) 20 (by omega)
    have p2 := c93CheckOne_sat hck A hA s hs (s.length - 1) 15 (by omega)
    cases e1 : c93CheckOne A s (s.length - 2) 20 with
    | error e => rw [e1] at p1; exact p1
    | ok u =>
      simp only []
      cases e2 : c93CheckOne A s (s.length - 1) 15 with
      | error e => rw [e2] at p2; exact p2
      | ok u2 => exact c93Ext_sat hfm _ _

theorem c93DecodeRow_sat {E : Fault → Prop} (hnf : E .notFound) (hck : E .checksum) (hfm : E .format)
    (T : Tables) (hT : WF93 T = true) (row : List Bool) : Sat E Any (c93DecodeRow T row) := by
  unfold c93DecodeRow
  have hT' := hT
  simp only [WF93, Bool.and_eq_true, decide_eq_true_eq] at hT'
  rw [nth_ok T.code93Enc 47 (by omega)]
  simp only []
  have hfind := c93FindAsterisk_sat (E := E) hnf T.code93Enc[47] row
  cases hfa : c93FindAsterisk T.code93Enc[47] row with
  | error e => rw [hfa] at hfind; exact hfind
  | ok se =>
    obtain ⟨startLeft, startRight⟩ := se
    simp only []
    have hl := c93Loop_sat hnf T hT row (row.length + 1) (getNextSet row startRight) []
      (getNextSet_le _ _) (by omega) (by simp)
    cases hlp : c93Loop T row (row.length + 1) (getNextSet row startRight) [] with
    | error e => rw [hlp] at hl; exact hl
    | ok r =>
      rw [hlp] at hl
      obtain ⟨result, lastStart, lastSize, next⟩ := r
      obtain ⟨hres, hnext⟩ := hl
      simp only [] at hnext ⊢
      by_cases hend : next = row.length
      · rw [if_pos hend]; exact hnf
      · rw [if_neg hend]
        unfold rowGet
        rw [nth_ok row next (by omega)]
        simp only [Except.map]
        cases hb : !row[next]'(by omega) with
        | true => exact hnf
        | false =>
          simp only []
          have hfin := c93Finish_sat hnf hck hfm T.code93Alphabet hT'.2 result hres
          cases hf : c93Finish T.code93Alphabet result with
          | error e => rw [hf] at hfin; exact hfin
          | ok text => trivial

/-! ## Codabar -/

/-- table fact the Codabar reader relies on: an alphabet character for every encoding -/
def WFCbRead (T : Tables) : Bool := decide (T.codabarEnc.length ≤ T.codabarAlphabet.length)

theorem len7 {α : Type} (l : List α) (h : l.length = 7) : ∃ a b c d e f g, l = [a, b, c, d, e, f, g] := by
  match l, h with
  | [a, b, c, d, e, f, g], _ => exact ⟨a, b, c, d, e, f, g, rfl⟩

theorem cbToNarrowWide_sat {E : Fault → Prop} (T : Tables) (cs : List Nat) (position : Nat) :
    Sat E (fun o => ∀ off, o = some off → off < T.codabarEnc.length ∧ position + 7 < cs.length)
      (cbToNarrowWide T cs position) := by
  unfold cbToNarrowWide
  by_cases hg : position + 7 ≥ cs.length
  · rw [if_pos hg]; intro off h; cases h
  · rw [if_neg hg]
    have hl : ((cs.drop position).take 7).length = 7 := by
      rw [List.length_take, List.length_drop]; omega
    obtain ⟨a, b, c, d, e, f, g, hw⟩ := len7 _ hl
    rw [hw]
    simp only []
    intro off h
    exact ⟨indexOf?_lt h, by omega⟩

theorem cbIsStartEnd_sat {E : Fault → Prop} (T : Tables) (hT : WFCbRead T = true) (off : Nat)
    (h : off < T.codabarEnc.length) : Sat E Any (cbIsStartEnd T off) := by
  unfold cbIsStartEnd
  simp only [WFCbRead, decide_eq_true_eq] at hT
  rw [nth_ok _ off (by omega)]
  trivial

theorem sumRange_ok (cs : List Nat) (a b : Nat) (h : b ≤ cs.length) : ∃ v, sumRange cs a b = .ok v := by
  unfold sumRange
  rw [if_neg (by omega)]
  exact ⟨_, rfl⟩

theorem nthI_ok (cs : List Nat) (i : Int) (h0 : 0 ≤ i) (h1 : i.toNat < cs.length) : ∃ v, nthI cs i = .ok v := by
  unfold nthI
  rw [if_neg (by omega), nth_ok cs i.toNat h1]
  exact ⟨_, rfl⟩

theorem cbFindStartLoop_sat {E : Fault → Prop} (hnf : E .notFound) (T : Tables) (hT : WFCbRead T = true)
    (cs : List Nat) :
    ∀ (ps : List Nat), (∀ i ∈ ps, 1 ≤ i) →
      Sat E (fun start => 1 ≤ start ∧ start + 7 < cs.length) (cbFindStartLoop T cs ps)
  | [], _ => by unfold cbFindStartLoop; exact hnf
  | i :: rest, hps => by
    unfold cbFindStartLoop
    have hi : 1 ≤ i := hps i (by simp)
    have hrest := cbFindStartLoop_sat hnf T hT cs rest (fun j hj => hps j (by simp [hj]))
    have hnw := cbToNarrowWide_sat (E := E) T cs i
    cases hc : cbToNarrowWide T cs i with
    | error e => rw [hc] at hnw; exact hnw
    | ok o =>
      rw [hc] at hnw
      cases o with
      | none => exact hrest
      | some off =>
        obtain ⟨hoff, hlen⟩ := hnw off rfl
        simp only []
        have hse := cbIsStartEnd_sat (E := E) T hT off hoff
        cases hs : cbIsStartEnd T off with
        | error e => rw [hs] at hse; exact hse
        | ok t =>
          cases t with
          | false => exact hrest
          | true =>
            simp only []
            obtain ⟨v, hv⟩ := sumRange_ok cs i (i + 7) (by omega)
            rw [hv]
            simp only []
            split
            · exact ⟨by omega, by omega⟩
            · obtain ⟨bf, hbf⟩ := nthI_ok cs ((i : Int) - 1) (by omega) (by omega)
              rw [hbf]
              simp only []
              split
              · exact ⟨hi, hlen⟩
              · exact hrest

theorem cbFindStart_sat {E : Fault → Prop} (hnf : E .notFound) (T : Tables) (hT : WFCbRead T = true)
    (cs : List Nat) : Sat E (fun start => 1 ≤ start ∧ start + 7 < cs.length) (cbFindStart T cs) := by
  unfold cbFindStart
  apply cbFindStartLoop_sat hnf T hT cs
  intro i hi
  obtain ⟨k, _, rfl⟩ := List.mem_map.mp hi
  omega

theorem cbCharLoop_sat {E : Fault → Prop} (hnf : E .notFound) (T : Tables) (hT : WFCbRead T = true)
    (cs : List Nat) (start : Nat) :
    ∀ (fuel nextStart : Nat) (acc : List Nat), nextStart ≤ cs.length → cs.length + 1 ≤ nextStart + fuel →
      nextStart = start + 8 * acc.length → (∀ r ∈ acc, r < T.codabarEnc.length) →
      (acc ≠ [] ∨ nextStart < cs.length) →
      Sat E (fun r => r.1 ≠ [] ∧ r.2 = start + 8 * r.1.length ∧ r.2 ≤ cs.length ∧
          ∀ x ∈ r.1, x < T.codabarEnc.length) (cbCharLoop T cs fuel nextStart acc)
  | 0, _, _, hle, hfuel, _, _, _ => by omega
  | fuel + 1, nextStart, acc, hle, hfuel, hpos, hacc, hne => by
    unfold cbCharLoop
    by_cases hlt : nextStart < cs.length
    · rw [if_pos hlt]
      have hnw := cbToNarrowWide_sat (E := E) T cs nextStart
      cases hc : cbToNarrowWide T cs nextStart with
      | error e => rw [hc] at hnw; exact hnw
      | ok o =>
        rw [hc] at hnw
        cases o with
        | none => exact hnf
        | some off =>
          obtain ⟨hoff, hlen⟩ := hnw off rfl
          simp only []
          have hmod : off % 256 < T.codabarEnc.length := Nat.lt_of_le_of_lt (Nat.mod_le _ _) hoff
          have hacc' : ∀ r ∈ (off % 256) :: acc, r < T.codabarEnc.length := by
            intro r hr
            rcases List.mem_cons.mp hr with h1 | h1
            · omega
            · exact hacc r h1
          have hrec := cbCharLoop_sat hnf T hT cs start fuel (nextStart + 8) ((off % 256) :: acc)
            (by omega) (by omega) (by simp; omega) hacc' (Or.inl (by simp))
          split
          · have hse := cbIsStartEnd_sat (E := E) T hT off hoff
            cases hs : cbIsStartEnd T off with
            | error e => rw [hs] at hse; exact hse
            | ok t =>
              cases t with
              | true =>
                refine ⟨by simp, by simp; omega, by simp only []; omega, ?_⟩
                intro x hx
                exact hacc' x (by simp at hx ⊢; rcases hx with h | h; exact Or.inr h; exact Or.inl h)
              | false => exact hrec
          · exact hrec
    · rw [if_neg hlt]
      have hne' : acc ≠ [] := by
        rcases hne with h | h
        · exact h
        · exact absurd h hlt
      refine ⟨by simpa using hne', by simp; omega, hle, ?_⟩
      intro x hx
      exact hacc x (by simpa using hx)

theorem cbStripes_sat {E : Fault → Prop} (T : Tables) (cs : List Nat) :
    ∀ (rs : List Nat) (pos : Nat), (∀ r ∈ rs, r < T.codabarEnc.length) → pos + 8 * rs.length ≤ cs.length + 1 →
      Sat E Any (cbStripes T cs rs pos)
  | [], _, _, _ => by unfold cbStripes; trivial
  | r :: rs, pos, hr, hpos => by
    unfold cbStripes
    rw [nth_ok _ r (hr r (by simp))]
    simp only []
    have hp : ¬ pos + 7 > cs.length := by simp at hpos; omega
    rw [if_neg hp]
    have hrec := cbStripes_sat (E := E) T cs rs (pos + 8) (fun x hx => hr x (by simp [hx])) (by simp at hpos; omega)
    cases hm : cbStripes T cs rs (pos + 8) with
    | error e => rw [hm] at hrec; exact hrec
    | ok more => trivial

theorem cbValidate_sat {E : Fault → Prop} (hnf : E .notFound) (T : Tables) (cs : List Nat) (rs : List Nat)
    (start : Nat) (hr : ∀ r ∈ rs, r < T.codabarEnc.length) (hpos : start + 8 * rs.length ≤ cs.length + 1) :
    Sat E Any (cbValidate T cs rs start) := by
  unfold cbValidate
  have h := cbStripes_sat (E := E) T cs rs start hr hpos
  cases hs : cbStripes T cs rs start with
  | error e => rw [hs] at h; exact h
  | ok ss =>
    simp only []
    split
    · exact hnf
    · trivial

theorem mapM_nth_ok (A : List Nat) : ∀ (rs : List Nat), (∀ r ∈ rs, r < A.length) →
    ∃ chars, rs.mapM (nth A) = .ok chars ∧ chars.length = rs.length
  | [], _ => ⟨[], rfl, rfl⟩
  | r :: rs, h => by
    obtain ⟨chars, hc, hl⟩ := mapM_nth_ok A rs (fun x hx => h x (by simp [hx]))
    refine ⟨A[r]'(h r (by simp)) :: chars, ?_, by simp [hl]⟩
    rw [List.mapM_cons, nth_ok A r (h r (by simp)), hc]
    rfl

theorem cbScan_sat {E : Fault → Prop} (hnf : E .notFound) (T : Tables) (hT : WFCbRead T = true) (row : List Bool) :
    Sat E (fun s => 1 ≤ s.start ∧ s.res ≠ [] ∧ s.nextStart = s.start + 8 * s.res.length ∧
        s.nextStart ≤ s.counters.length ∧ ∀ x ∈ s.res, x < T.codabarEnc.length) (cbScan T row) := by
  unfold cbScan
  cases hc : cbSetCounters row with
  | error e =>
    unfold cbSetCounters at hc
    simp only [] at hc
    split at hc
    · cases hc; exact hnf
    · cases hc
  | ok cs =>
    simp only []
    have hfs := cbFindStart_sat (E := E) hnf T hT cs
    cases hf : cbFindStart T cs with
    | error e => rw [hf] at hfs; exact hfs
    | ok start =>
      rw [hf] at hfs
      obtain ⟨h1, h7⟩ := hfs
      simp only []
      have hl := cbCharLoop_sat (E := E) hnf T hT cs start (cs.length + 1) start [] (by omega) (by omega) (by simp)
        (by simp) (Or.inr (by omega))
      cases hlp : cbCharLoop T cs (cs.length + 1) start [] with
      | error e => rw [hlp] at hl; exact hl
      | ok r =>
        rw [hlp] at hl
        obtain ⟨res, nextStart⟩ := r
        obtain ⟨a, b, c, d⟩ := hl
        exact ⟨h1, a, b, c, d⟩

theorem cbDecodeRow_sat {E : Fault → Prop} (hnf : E .notFound) (T : Tables) (hT : WFCbRead T = true)
    (retSE : Bool) (row : List Bool) : Sat E Any (cbDecodeRow T retSE row) := by
  unfold cbDecodeRow
  have hsc := cbScan_sat (E := E) hnf T hT row
  cases hs : cbScan T row with
  | error e => rw [hs] at hsc; exact hsc
  | ok sc =>
    rw [hs] at hsc
    obtain ⟨cs, start, res, nextStart⟩ := sc
    obtain ⟨h1, hne, hns, hle, hres⟩ := hsc
    simp only [] at h1 hne hns hle hres ⊢
    have hlen : 1 ≤ res.length := List.length_pos_iff.mpr hne
    obtain ⟨tr, htr⟩ := nthI_ok cs ((nextStart : Int) - 1) (by omega) (by omega)
    rw [htr]
    simp only []
    rw [if_neg (by omega)]
    obtain ⟨ls, hls⟩ := sumRange_ok cs (nextStart - 8) (nextStart - 1) (by omega)
    rw [hls]
    simp only []
    split
    · exact hnf
    · have hv := cbValidate_sat (E := E) hnf T cs res start hres (by omega)
      cases hval : cbValidate T cs res start with
      | error e => rw [hval] at hv; exact hv
      | ok u =>
        simp only []
        have hT' := hT
        simp only [WFCbRead, decide_eq_true_eq] at hT'
        obtain ⟨chars, hch, hcl⟩ := mapM_nth_ok T.codabarAlphabet res (fun r hr => by have := hres r hr; omega)
        rw [hch]
        simp only []
        rw [nth_ok chars 0 (by omega)]
        simp only []
        split
        · exact hnf
        · obtain ⟨ec, hec⟩ := nthI_ok chars ((chars.length : Int) - 1) (by omega) (by omega)
          rw [hec]
          simp only []
          split
          · exact hnf
          · split
            · exact hnf
            · obtain ⟨l, hl⟩ := sumRange_ok cs 0 start (by omega)
              obtain ⟨m, hm⟩ := sumRange_ok cs start (nextStart - 1) (by omega)
              rw [hl, hm]
              trivial

/-! ## Code 39: the classifier's loop ends (counters below 2^31) -/

theorem c39Scan_count (m : Nat) : ∀ (cs : List Nat) (p w t : Nat),
    (c39Scan m cs (p, w, t)).2.1 = w + cs.countP (fun c => decide (c > m))
  | [], p, w, t => by simp [c39Scan]
  | c :: cs, p, w, t => by
    unfold c39Scan
    split
    · rename_i h; rw [c39Scan_count m cs]; simp [List.countP_cons, h]; omega
    · rename_i h; rw [c39Scan_count m cs]; simp [List.countP_cons, h]

/-- number of "wide" counters for a threshold -/
def wideCount (cs : List Nat) (m : Nat) : Nat := cs.countP (fun c => decide (c > m))

theorem c39Scan_wide (cs : List Nat) (m : Nat) : (c39Scan m cs (0, 0, 0)).2.1 = wideCount cs m := by
  rw [c39Scan_count]; simp [wideCount]

theorem foldl_minAbove (m : Nat) : ∀ (cs : List Nat) (init : Nat),
    let M := cs.foldl (fun a c => if c < a ∧ c > m then c else a) init
    M ≤ init ∧ (∀ c ∈ cs, c > m → M ≤ c) ∧ (M = init ∨ (M ∈ cs ∧ M > m))
  | [], init => by simp
  | c :: cs, init => by
    simp only [List.foldl_cons]
    have ih := foldl_minAbove m cs (if c < init ∧ c > m then c else init)
    simp only [] at ih ⊢
    obtain ⟨h1, h2, h3⟩ := ih
    by_cases hc : c < init ∧ c > m
    · rw [if_pos hc] at h1 h2 h3 ⊢
      refine ⟨by omega, ?_, ?_⟩
      · intro d hd hdm
        rcases List.mem_cons.mp hd with e | e
        · subst e; exact h1
        · exact h2 d e hdm
      · rcases h3 with e | ⟨e1, e2⟩
        · right; rw [e]; exact ⟨by simp, hc.2⟩
        · right; exact ⟨by simp [e1], e2⟩
    · rw [if_neg hc] at h1 h2 h3 ⊢
      refine ⟨h1, ?_, ?_⟩
      · intro d hd hdm
        rcases List.mem_cons.mp hd with e | e
        · subst e; omega
        · exact h2 d e hdm
      · rcases h3 with e | ⟨e1, e2⟩
        · left; exact e
        · right; exact ⟨by simp [e1], e2⟩

theorem countP_lt_of (l : List Nat) (p q : Nat → Bool) (himp : ∀ x, p x = true → q x = true)
    (x : Nat) (hx : x ∈ l) (hq : q x = true) (hp : p x = false) : l.countP p < l.countP q := by
  induction l with
  | nil => cases hx
  | cons a as ih =>
    simp only [List.countP_cons]
    rcases List.mem_cons.mp hx with e | e
    · subst e
      have hle : as.countP p ≤ as.countP q := List.countP_mono_left (fun y _ => himp y)
      simp [hq, hp]; omega
    · have := ih e
      by_cases hpa : p a = true
      · simp [hpa, himp a hpa]; omega
      · simp [hpa]; split <;> omega

/-- one more round of the outer loop strictly reduces the number of wide counters -/
theorem wideCount_decreases (cs : List Nat) (hb : ∀ c ∈ cs, c ≤ 2147483647) (m : Nat) (hw : 0 < wideCount cs m) :
    wideCount cs (c39MinAbove cs m) < wideCount cs m := by
  obtain ⟨h1, h2, h3⟩ := foldl_minAbove m cs 2147483647
  unfold c39MinAbove
  rcases h3 with e | ⟨e1, e2⟩
  · rw [e]
    have : wideCount cs 2147483647 = 0 := by
      unfold wideCount
      rw [List.countP_eq_zero]
      intro c hc; have := hb c hc; simp; omega
    omega
  · unfold wideCount
    apply countP_lt_of cs _ _ _ _ e1
    · simp only [decide_eq_true_eq]; exact e2
    · simp only [decide_eq_false_iff_not]; omega
    · intro x hx; simp only [decide_eq_true_eq] at hx ⊢; omega

theorem c39PatternLoop_ok (cs : List Nat) (hb : ∀ c ∈ cs, c ≤ 2147483647) :
    ∀ (fuel m : Nat), wideCount cs (c39MinAbove cs m) < fuel → ∃ p, c39PatternLoop cs fuel m = .ok p
  | 0, _, h => by omega
  | fuel + 1, m, h => by
    unfold c39PatternLoop
    simp only []
    rw [c39Scan_wide]
    split
    · split <;> exact ⟨_, rfl⟩
    · split
      · rename_i h3
        apply c39PatternLoop_ok cs hb fuel
        have := wideCount_decreases cs hb (c39MinAbove cs m) (by omega)
        omega
      · exact ⟨_, rfl⟩

/-- `code39ToNarrowWidePattern` returns (a pattern or -1) whenever no counter exceeds `math.MaxInt32` -/
theorem c39Pattern_ok (cs : List Nat) (hb : ∀ c ∈ cs, c ≤ 2147483647) : ∃ p, c39Pattern cs = .ok p := by
  unfold c39Pattern
  apply c39PatternLoop_ok cs hb
  have : wideCount cs (c39MinAbove cs 0) ≤ cs.length := List.countP_le_length
  omega

end Gzx.Row39
