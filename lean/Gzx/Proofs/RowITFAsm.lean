/-
  wp oned128 — the ITF DecodeRow model on the row the ITF writer draws (assembly of Proofs/RowITFRead, RowITFTop).
-/
import Gzx.Proofs.RowITFTop
set_option linter.unusedSimpArgs false
set_option linter.unusedVariables false
namespace Gzx.RowITF
open Gzx Gzx.OneD Gzx.Row128

/-- reader tables fit the writer tables: same start pattern; the reader's rows 10..19 are the writer's ten patterns;
    twenty reader rows of five positive widths, pairwise non-proportional; the reader's first reversed end pattern has
    the writer's end pattern (reversed) below the variance threshold — all decidable -/
def wfRowITFB (Tw : Tables) (Tr : ItfT) : Bool :=
  WFITF Tw && (Tr.start == Tw.itfStart) && digitTableB Tr.patterns && (Tr.patterns.length == 20) &&
  (List.range 10).all (fun d => Tr.patterns.getD (10 + d) [] == Tw.itfWriter.getD d []) &&
  (match Tr.endRev with
   | e0 :: _ => (e0.length == Tw.itfEnd.length) && decide (0 < sumL e0) && pmvBelow Tw.itfEnd.reverse e0
   | [] => false)

theorem appendPattern_tail_white (X : List Nat) (rq : Nat) (hX : X.length % 2 = 1) :
    appendPattern X true ++ List.replicate rq false = appendPattern (X ++ tailQ rq) true := by
  rw [appendPattern_append]
  have : ¬ X.length % 2 = 0 := by omega
  simp only [this, if_false, Bool.not_true, appendPattern_tailQ]

/-- the module pattern the ITF writer draws, as one run list -/
theorem itfDraw_runs (T : Tables) (hT : WFITF T = true) (ds : List Nat) (hd : ∀ d ∈ ds, d < 10) :
    itfDraw T ds = .ok (appendPattern (T.itfStart ++
      ((itfPairs ds).map (fun p => interleave (T.itfWriter.getD p.1 []) (T.itfWriter.getD p.2 []))).flatten ++ T.itfEnd) true) := by
  simp only [WFITF, Bool.and_eq_true, beq_iff_eq, decide_eq_true_eq, List.all_eq_true] at hT
  obtain ⟨⟨⟨⟨⟨⟨hlen, hpat⟩, hnd⟩, hsl⟩, hsp⟩, hel⟩, hep⟩ := hT
  generalize hW : T.itfWriter = W at *
  have hpatD : ∀ d, d < 10 → (W.getD d []).length = 5 := by
    intro d hd10
    have hm : W.getD d [] ∈ W := by
      rw [getD_eq_getElem W d [] (by omega)]; exact List.getElem_mem _
    exact (hpat _ hm).1
  let enc : Nat × Nat → List Nat := fun p => interleave (W.getD p.1 []) (W.getD p.2 [])
  have hpairs : ∀ p ∈ itfPairs ds, p.1 < 10 ∧ p.2 < 10 := fun p hp =>
    ⟨hd _ (itfPairs_mem ds p hp).1, hd _ (itfPairs_mem ds p hp).2⟩
  have hpW : ∀ c ∈ (itfPairs ds).map enc, c.length = 10 := by
    intro c hc
    obtain ⟨p, hp, rfl⟩ := List.mem_map.mp hc
    have h1 := hpatD p.1 (hpairs p hp).1
    have h2 := hpatD p.2 (hpairs p hp).2
    simp only [enc]; rw [interleave_length _ _ (by omega)]; omega
  unfold itfDraw
  rw [hW]
  have hm : (itfPairs ds).mapM (itfPairDraw W) = .ok ((itfPairs ds).map (fun p => appendPattern (enc p) true)) := by
    apply mapM_ok
    intro p hp
    have h1 := (hpairs p hp).1
    have h2 := (hpairs p hp).2
    simp only [itfPairDraw, nth_getD W p.1 (by omega), nth_getD W p.2 (by omega), bind, Except.bind, pure, Except.pure, enc]
  simp only [hm, bind, Except.bind, pure, Except.pure]
  have he : ∀ c ∈ (itfPairs ds).map enc, c.length % 2 = 0 := fun c hc => by have := hpW c hc; omega
  have hfl := flatten_map_appendPattern ((itfPairs ds).map enc) true he
  simp only [List.map_map] at hfl
  have hfl' : (List.map (fun p => appendPattern (enc p) true) (itfPairs ds)).flatten
      = appendPattern (List.map enc (itfPairs ds)).flatten true := hfl
  rw [hfl']
  congr 1
  rw [appendPattern_even_append _ _ true (by omega), appendPattern_even_append _ _ true (by
    simp only [List.length_append]
    have := flatten_length_even ((itfPairs ds).map enc) he
    omega)]

theorem pairRuns_eq (Ww : List (List Nat)) (s : Nat) (pairs : List (Nat × Nat)) :
    pairRuns Ww s pairs = ((pairs.map (fun p => interleave (Ww.getD p.1 []) (Ww.getD p.2 []))).flatten).map (s * ·) := by
  induction pairs with
  | nil => rfl
  | cons p ps ih => rw [pairRuns_cons, ih]; simp

theorem pairRuns_pos {T : ItfT} {Ww : List (List Nat)} (hT : PairTables T Ww) (s : Nat) (hs : 0 < s)
    (pairs : List (Nat × Nat)) (hp : ∀ p ∈ pairs, p.1 < 10 ∧ p.2 < 10) : ∀ x ∈ pairRuns Ww s pairs, 0 < x := by
  induction pairs with
  | nil => intro x hx; simp [pairRuns] at hx
  | cons p ps ih =>
    intro x hx
    rw [pairRuns_cons, List.mem_append] at hx
    rcases hx with hx | hx
    · obtain ⟨y, hy, rfl⟩ := List.mem_map.mp hx
      have h1 := hp p (by simp)
      rcases interleave_mem _ _ y hy with h | h
      · exact Nat.mul_pos hs ((hT.shape p.1 h1.1).2 y h)
      · exact Nat.mul_pos hs ((hT.shape p.2 h1.2).2 y h)
    · exact ih (fun q hq => hp q (by simp [hq])) x hx

theorem pairRuns_length {T : ItfT} {Ww : List (List Nat)} (hT : PairTables T Ww) (s : Nat)
    (pairs : List (Nat × Nat)) (hp : ∀ p ∈ pairs, p.1 < 10 ∧ p.2 < 10) : (pairRuns Ww s pairs).length = 10 * pairs.length := by
  induction pairs with
  | nil => rfl
  | cons p ps ih =>
    have h1 := hp p (by simp)
    rw [pairRuns_cons, List.length_append, List.length_map,
      interleave_length _ _ (by rw [(hT.shape p.1 h1.1).1, (hT.shape p.2 h1.2).1]), (hT.shape p.1 h1.1).1,
      ih (fun q hq => hp q (by simp [hq])), List.length_cons]
    omega

theorem wfRowITF_facts (Tw : Tables) (Tr : ItfT) (h : wfRowITFB Tw Tr = true) :
    WFITF Tw = true ∧ Tr.start = Tw.itfStart ∧ PairTables Tr Tw.itfWriter ∧
    ∃ (h0 : 0 < Tr.endRev.length), Tr.endRev[0].length = Tw.itfEnd.length ∧ 0 < sumL Tr.endRev[0] ∧
      pmvBelow Tw.itfEnd.reverse Tr.endRev[0] = true := by
  simp only [wfRowITFB, Bool.and_eq_true, beq_iff_eq, List.all_eq_true, List.mem_range] at h
  obtain ⟨⟨⟨⟨⟨hwf, hst⟩, hdig⟩, h20⟩, hlink⟩, hend⟩ := h
  refine ⟨hwf, hst, ⟨hdig, h20, ?_⟩, ?_⟩
  · intro d hd
    have := hlink d hd
    rw [getD_eq_getElem _ _ _ (by omega)] at this
    exact this
  · cases he : Tr.endRev with
    | nil => rw [he] at hend; simp at hend
    | cons e0 es =>
      rw [he] at hend
      simp only [Bool.and_eq_true, beq_iff_eq, decide_eq_true_eq] at hend
      exact ⟨by simp, by simpa using hend.1.1, by simpa using hend.1.2, by simpa using hend.2⟩

/-- the ITF DecodeRow model on the row the ITF writer draws, every quiet zone ≥ 0, every scale ≥ 1, every
    ALLOWED_LENGTHS value that admits the length -/
theorem itf_row_core (Tw : Tables) (Tr : ItfT) (hWF : wfRowITFB Tw Tr = true) (ds : List Nat)
    (hd : ∀ d ∈ ds, d < 10) (heven : ds.length % 2 = 0) (allowed : Option (List Int))
    (hok : lengthOK (allowed.getD Tr.defaultAllowed) ds.length = true)
    (lq s rq : Nat) (hs : 0 < s) :
    ∃ mods, itfDraw Tw ds = .ok mods ∧
      decodeRow exactDom Tr (paddedRow lq s rq mods) allowed =
        .ok { text := ds.map (48 + ·), p0 := lq + s * sumL Tw.itfStart,
              p1 := (paddedRow lq s rq mods).length - (rq + s * sumL Tw.itfEnd) } := by
  obtain ⟨hwf, hst, hPT, h0, he0len, he0sum, he0below⟩ := wfRowITF_facts Tw Tr hWF
  refine ⟨_, itfDraw_runs Tw hwf ds hd, ?_⟩
  have hwf' := hwf
  simp only [WFITF, Bool.and_eq_true, beq_iff_eq, decide_eq_true_eq, List.all_eq_true] at hwf'
  obtain ⟨⟨⟨⟨⟨⟨_, _⟩, _⟩, hsl⟩, hsp⟩, hel⟩, hep⟩ := hwf'
  have hspos : ∀ x ∈ Tw.itfStart, 0 < x := fun x hx => by simpa using hsp x hx
  have hepos : ∀ x ∈ Tw.itfEnd, 0 < x := fun x hx => by simpa using hep x hx
  have hsne : Tw.itfStart ≠ [] := by intro e; rw [e] at hsl; simp at hsl
  have hene : Tw.itfEnd ≠ [] := by intro e; rw [e] at hel; simp at hel
  have hpairs : ∀ p ∈ itfPairs ds, p.1 < 10 ∧ p.2 < 10 := fun p hp =>
    ⟨hd _ (itfPairs_mem ds p hp).1, hd _ (itfPairs_mem ds p hp).2⟩
  -- names
  generalize hS : Tw.itfStart = S at *
  generalize hE : Tw.itfEnd = E at *
  generalize hPW : ((itfPairs ds).map (fun p => interleave (Tw.itfWriter.getD p.1 []) (Tw.itfWriter.getD p.2 []))).flatten = PW
  have hPR : pairRuns Tw.itfWriter s (itfPairs ds) = PW.map (s * ·) := by rw [pairRuns_eq, hPW]
  have hPRpos := pairRuns_pos hPT s hs (itfPairs ds) hpairs
  have hPRlen := pairRuns_length hPT s (itfPairs ds) hpairs
  rw [hPR] at hPRpos hPRlen
  have hEpos' : ∀ x ∈ E.map (s * ·), 0 < x := scale_pos s hs E hepos
  have hSpos' : ∀ x ∈ S.map (s * ·), 0 < x := scale_pos s hs S hspos
  have hoddW : (S ++ PW ++ E).length % 2 = 1 := by
    have : PW.length = 10 * (itfPairs ds).length := by simpa using hPRlen
    simp only [List.length_append, hsl, hel, this]; omega
  -- the row, left to right
  generalize hrowdef : paddedRow lq s rq (appendPattern (S ++ PW ++ E) true) = row
  have hrow : row = List.replicate lq false ++
      appendPattern (S.map (s * ·) ++ (PW.map (s * ·) ++ (E.map (s * ·) ++ tailQ rq))) true := by
    rw [← hrowdef]
    unfold paddedRow
    rw [scaleRow_appendPattern, List.append_assoc, appendPattern_tail_white _ rq (by simpa using hoddW)]
    simp only [List.map_append, List.append_assoc]
  have hrestpos : ∀ x ∈ PW.map (s * ·) ++ (E.map (s * ·) ++ tailQ rq), 0 < x := by
    intro x hx
    simp only [List.mem_append] at hx
    rcases hx with hx | hx | hx
    · exact hPRpos x hx
    · exact hEpos' x hx
    · exact tailQ_pos rq x hx
  obtain ⟨w, rest, hwr⟩ : ∃ w rest, PW.map (s * ·) ++ (E.map (s * ·) ++ tailQ rq) = w :: rest := by
    cases h : PW.map (s * ·) ++ (E.map (s * ·) ++ tailQ rq) with
    | nil =>
      have := congrArg List.length h
      simp [hel] at this
    | cons a b => exact ⟨a, b, rfl⟩
  -- 1. decodeStart
  have hstart := decodeStart_at Tr (by rw [hst]; exact hsne) (by rw [hst]; exact hspos) lq s hs w
    (hrestpos w (by rw [hwr]; simp)) rest (fun x hx => hrestpos x (by rw [hwr]; simp [hx]))
  rw [hst, ← hwr, ← hrow] at hstart
  -- 2. decodeEnd on the reversed row
  have hrev : row.reverse = List.replicate rq false ++
      appendPattern (E.reverse.map (s * ·) ++ ((PW.reverse.map (s * ·) ++ (S.reverse.map (s * ·) ++ tailQ lq)))) true := by
    rw [← hrowdef, paddedRow_reverse lq s rq _ hoddW]
    unfold paddedRow
    rw [scaleRow_appendPattern, List.append_assoc,
      appendPattern_tail_white _ lq (by rw [List.length_map, List.length_reverse]; exact hoddW)]
    simp only [List.reverse_append, List.map_append, List.append_assoc]
  have hrest2pos : ∀ x ∈ PW.reverse.map (s * ·) ++ (S.reverse.map (s * ·) ++ tailQ lq), 0 < x := by
    intro x hx
    simp only [List.mem_append, List.mem_map, List.mem_reverse] at hx
    rcases hx with ⟨y, hy, rfl⟩ | ⟨y, hy, rfl⟩ | hx
    · exact hPRpos _ (List.mem_map_of_mem hy)
    · exact Nat.mul_pos hs (hspos y hy)
    · exact tailQ_pos lq x hx
  obtain ⟨w2, rest2, hwr2⟩ : ∃ w rest, PW.reverse.map (s * ·) ++ (S.reverse.map (s * ·) ++ tailQ lq) = w :: rest := by
    cases h : PW.reverse.map (s * ·) ++ (S.reverse.map (s * ·) ++ tailQ lq) with
    | nil =>
      have := congrArg List.length h
      simp [hsl] at this
    | cons a b => exact ⟨a, b, rfl⟩
  rw [hwr2] at hrev
  have hend := decodeEnd_at Tr Tr.endRev[0] h0 rfl E.reverse (by simpa using hene)
    (fun x hx => hepos x (by simpa using hx)) (by simpa using he0len.symm) he0sum he0below row rq s hs w2
    (hrest2pos w2 (by rw [hwr2]; simp)) rest2 (fun x hx => hrest2pos x (by rw [hwr2]; simp [hx])) hrev
  -- 3. the row seen from the end of the start pattern
  have hat0 : RowAt row lq (S.map (s * ·) ++ (PW.map (s * ·) ++ (E.map (s * ·) ++ tailQ rq))) true := by
    refine ⟨by rw [hrow]; simp, by rw [hrow, List.drop_left' (by simp)], ?_⟩
    intro x hx
    rw [List.mem_append] at hx
    rcases hx with hx | hx
    · exact hSpos' x hx
    · exact hrestpos x hx
  have hat1 := hat0.advance_even _ _ (by simp [hsl])
  rw [sumL_scale] at hat1
  have hrowlen := hat0.length
  simp only [sumL_append, sumL_scale] at hrowlen
  have hpend : row.length - (rq + s * sumL E.reverse) = lq + s * sumL S + sumL (PW.map (s * ·)) := by
    have : sumL (tailQ rq) = rq := by unfold tailQ; split <;> simp [sumL, *]
    rw [sumL_reverse, sumL_scale]
    omega
  have hmid := middleLoop_at Tr Tw.itfWriter hPT s hs row (itfPairs ds) (lq + s * sumL S) [] (E.map (s * ·) ++ tailQ rq)
    (row.length + 1) hpairs (by
      have : (itfPairs ds).length ≤ PW.length := by
        have : PW.length = 10 * (itfPairs ds).length := by simpa using hPRlen
        omega
      have h2 : PW.length ≤ sumL (PW.map (s * ·)) := by
        have := le_sumL_take (PW.map (s * ·)) PW.length hPRpos (by simp)
        rw [List.take_of_length_le (by simp)] at this
        exact this
      omega)
    (by rw [hPR]; exact hat1)
  rw [hPR] at hmid
  -- 4. assemble
  have htext : ((itfPairs ds).map (fun p => [48 + p.1, 48 + p.2])).flatten = ds.map (48 + ·) := by
    have hgen : ∀ (ps : List (Nat × Nat)), (ps.map (fun p => [48 + p.1, 48 + p.2])).flatten =
        ((ps.map (fun p => [p.1, p.2])).flatten).map (48 + ·) := by
      intro ps
      induction ps with
      | nil => rfl
      | cons p ps ih => simp [ih]
    rw [hgen, itfPairs_flatten ds heven]
  simp only [List.reverse_nil, List.nil_append] at hmid
  rw [htext] at hmid
  unfold decodeRow
  rw [hstart]
  simp only []
  rw [hend]
  simp only []
  rw [hpend, hmid]
  simp only [List.length_map, hok, Bool.not_true, Bool.false_eq_true, if_false]
  congr 2
  rw [sumL_reverse] at hpend
  omega

end Gzx.RowITF
