/-
  wp oned128 — helper lemmas for the ITF row read-back theorem (Properties/C03Row128.lean): `itfReader_decodeDigit` with its
  "second best match with the same variance" rule on exact multiples of a reader pattern; guards found at the first
  attempt; the quiet-zone loop on a white prefix; the reversed row.
-/
import Gzx.Proofs.Row128Read
set_option linter.unusedSimpArgs false
set_option linter.unusedVariables false
namespace Gzx.RowITF
open Gzx Gzx.OneD Gzx.Row128

/-! ## PatternMatchVariance against a pattern that is not proportional to the observation -/

/-- `q` is not proportional to `p`: some cross-multiplied deviation is non-zero (decidable) -/
def nonProp (p q : List Nat) : Bool := (RunLength.devs (sumL p) (sumL q) p q).any (· ≠ 0)

theorem sumL_pos_of_mem (xs : List Nat) (d : Nat) (hd : d ∈ xs) (h0 : d ≠ 0) : 0 < sumL xs := by
  induction xs with
  | nil => simp at hd
  | cons x xs ih =>
    rw [sumL_cons]
    simp only [List.mem_cons] at hd
    rcases hd with rfl | hd
    · omega
    · have := ih hd; omega

theorem pmv_nonProp (p q : List Nat) (s a b : Nat) (hs : 0 < s) (hl : q.length = p.length) (h : nonProp p q = true) :
    pmv (p.map (s * ·)) q a b = .ok none ∨ ∃ n d, pmv (p.map (s * ·)) q a b = .ok (some (n, d)) ∧ 0 < n := by
  unfold pmv RunLength.patternMatchVariance
  have h0 : ¬ q.length < (p.map (s * ·)).length := by simp; omega
  have htake : q.take (p.map (s * ·)).length = q := List.take_of_length_le (by simp; omega)
  simp only [h0, if_false, htake, rl_sumL, sumL_scale]
  split
  · exact Or.inl rfl
  · split
    · exact Or.inl rfl
    · refine Or.inr ⟨_, _, rfl, ?_⟩
      rw [Properties.C20.devs_scale]
      simp only [nonProp, List.any_eq_true, decide_eq_true_eq] at h
      obtain ⟨d, hd, hd0⟩ := h
      apply sumL_pos_of_mem _ (s * d) (List.mem_map_of_mem hd)
      exact Nat.ne_of_gt (Nat.mul_pos hs (Nat.pos_of_ne_zero hd0))

/-! ## the best loop with the tie rule -/

theorem bestLoopTie_stay (c : List Nat) (den : Nat) (hden : 0 < den) :
    ∀ (ps : List (List Nat)) (i : Nat) (bm : Option Nat),
    (∀ q ∈ ps, pmv c q 1 2 = .ok none ∨ ∃ n d, pmv c q 1 2 = .ok (some (n, d)) ∧ 0 < n) →
    bestLoopTie exactDom c ps i (some (0, den)) bm = .ok bm := by
  intro ps
  induction ps with
  | nil => intro i bm _; rfl
  | cons q ps ih =>
    intro i bm hall
    have hrest : ∀ q ∈ ps, pmv c q 1 2 = .ok none ∨ ∃ n d, pmv c q 1 2 = .ok (some (n, d)) ∧ 0 < n :=
      fun q' h' => hall q' (by simp [h'])
    rcases hall q (by simp) with hq | ⟨n, d, hq, hn⟩
    · have hq' : exactDom.pmv c q 1 2 = .ok none := hq
      simp only [bestLoopTie, hq']
      have h1 : exactDom.lt none (some (0, den)) = false := rfl
      have h2 : exactDom.eq none (some (0, den)) = false := rfl
      simp only [h1, h2, Bool.false_eq_true, if_false]
      exact ih _ _ hrest
    · have hq' : exactDom.pmv c q 1 2 = .ok (some (n, d)) := hq
      simp only [bestLoopTie, hq']
      have h1 : exactDom.lt (some (n, d)) (some (0, den)) = false := by
        change fracLtO (some (n, d)) (some (0, den)) = false
        simp [fracLtO]
      have h2 : exactDom.eq (some (n, d)) (some (0, den)) = false := by
        change fracEqO (some (n, d)) (some (0, den)) = false
        simp only [fracEqO, Nat.zero_mul, beq_eq_false_iff_ne, ne_eq]
        exact Nat.ne_of_gt (Nat.mul_pos hn hden)
      simp only [h1, h2, Bool.false_eq_true, if_false]
      exact ih _ _ hrest

theorem bestLoopTie_pick (c : List Nat) (den : Nat) (hden : 0 < den) :
    ∀ (ps : List (List Nat)) (j i : Nat) (bn bd : Nat) (bm : Option Nat) (hj : j < ps.length),
    0 < bn →
    pmv c ps[j] 1 2 = .ok (some (0, den)) →
    (∀ q ∈ ps.take j, pmv c q 1 2 = .ok none ∨ ∃ n d, pmv c q 1 2 = .ok (some (n, d)) ∧ 0 < n) →
    (∀ q ∈ ps.drop (j + 1), pmv c q 1 2 = .ok none ∨ ∃ n d, pmv c q 1 2 = .ok (some (n, d)) ∧ 0 < n) →
    bestLoopTie exactDom c ps i (some (bn, bd)) bm = .ok (some (i + j)) := by
  intro ps
  induction ps with
  | nil => intro j i bn bd bm hj; simp at hj
  | cons q ps ih =>
    intro j i bn bd bm hj hb hhit hbefore hafter
    cases j with
    | zero =>
      simp only [List.getElem_cons_zero] at hhit
      have hhit' : exactDom.pmv c q 1 2 = .ok (some (0, den)) := hhit
      simp only [bestLoopTie, hhit']
      have : exactDom.lt (some (0, den)) (some (bn, bd)) = true := by
        change fracLtO (some (0, den)) (some (bn, bd)) = true
        simp only [fracLtO, Nat.zero_mul, decide_eq_true_eq]
        exact Nat.mul_pos hb hden
      simp only [this, if_true]
      exact bestLoopTie_stay c den hden ps _ _ (by simpa using hafter)
    | succ j =>
      have hj' : j < ps.length := by simpa using hj
      have hq := hbefore q (by simp)
      have hbefore' : ∀ q ∈ ps.take j, pmv c q 1 2 = .ok none ∨ ∃ n d, pmv c q 1 2 = .ok (some (n, d)) ∧ 0 < n :=
        fun q' h' => hbefore q' (by simp [h'])
      have hafter' : ∀ q ∈ ps.drop (j + 1), pmv c q 1 2 = .ok none ∨ ∃ n d, pmv c q 1 2 = .ok (some (n, d)) ∧ 0 < n := by
        simpa using hafter
      have hhit' : pmv c ps[j] 1 2 = .ok (some (0, den)) := by simpa using hhit
      have e : i + (j + 1) = i + 1 + j := by omega
      rw [e]
      rcases hq with hq | ⟨n, d, hq, hn⟩
      · have hq' : exactDom.pmv c q 1 2 = .ok none := hq
        simp only [bestLoopTie, hq']
        have h1 : exactDom.lt none (some (bn, bd)) = false := rfl
        have h2 : exactDom.eq none (some (bn, bd)) = false := rfl
        simp only [h1, h2, Bool.false_eq_true, if_false]
        exact ih j (i + 1) bn bd bm hj' hb hhit' hbefore' hafter'
      · have hq' : exactDom.pmv c q 1 2 = .ok (some (n, d)) := hq
        simp only [bestLoopTie, hq']
        split
        · exact ih j (i + 1) n d (some i) hj' hn hhit' hbefore' hafter'
        · split
          · exact ih j (i + 1) bn bd none hj' hb hhit' hbefore' hafter'
          · exact ih j (i + 1) bn bd bm hj' hb hhit' hbefore' hafter'

/-- what the digit lemma needs of the reader's pattern table: rows of five positive widths, pairwise non-proportional
    (decidable; 20 x 20 checks) -/
def digitTableB (Q : List (List Nat)) : Bool :=
  Q.all (fun q => q.length == 5 && q.all (0 < ·)) &&
  (List.range Q.length).all (fun i => (List.range Q.length).all (fun j => i == j || nonProp (Q.getD i []) (Q.getD j [])))

/-- `itfReader_decodeDigit` on `s`·(row `j` of the reader table) returns `j mod 10` -/
theorem decodeDigit_at (T : ItfT) (hT : digitTableB T.patterns = true) (j : Nat) (hj : j < T.patterns.length)
    (s : Nat) (hs : 0 < s) : decodeDigit exactDom T (T.patterns[j].map (s * ·)) = .ok (j % 10) := by
  simp only [digitTableB, Bool.and_eq_true, List.all_eq_true, beq_iff_eq, decide_eq_true_eq, List.mem_range,
    Bool.or_eq_true] at hT
  obtain ⟨hshape, hnp⟩ := hT
  have hqj := hshape _ (List.getElem_mem hj)
  have hposj : ∀ w ∈ T.patterns[j], 0 < w := hqj.2
  have hsum : 0 < sumL T.patterns[j] := sumL_pos _ (by intro e; rw [e] at hqj; simp at hqj) hposj
  have hother : ∀ (k : Nat) (hk : k < T.patterns.length), k ≠ j →
      pmv (T.patterns[j].map (s * ·)) T.patterns[k] 1 2 = .ok none ∨
        ∃ n d, pmv (T.patterns[j].map (s * ·)) T.patterns[k] 1 2 = .ok (some (n, d)) ∧ 0 < n := by
    intro k hk hne
    have := hnp j hj k hk
    rcases this with h | h
    · exact absurd h.symm hne
    · rw [getD_eq_getElem _ _ _ hj, getD_eq_getElem _ _ _ hk] at h
      exact pmv_nonProp _ _ s 1 2 hs (by rw [(hshape _ (List.getElem_mem hk)).1, hqj.1]) h
  have hpick := bestLoopTie_pick (T.patterns[j].map (s * ·)) (sumL T.patterns[j] * (s * sumL T.patterns[j]))
    (Nat.mul_pos hsum (Nat.mul_pos hs hsum)) T.patterns j 0 19 50 none hj (by omega)
    (pmv_multiple T.patterns[j] s 1 2 hs)
    (by
      intro q hq
      obtain ⟨k, hk, rfl⟩ := List.getElem_of_mem hq
      simp only [List.length_take] at hk
      rw [List.getElem_take]
      exact hother k (by omega) (by omega))
    (by
      intro q hq
      obtain ⟨k, hk, rfl⟩ := List.getElem_of_mem hq
      simp only [List.length_drop] at hk
      rw [List.getElem_drop]
      exact hother (j + 1 + k) (by omega) (by omega))
  unfold decodeDigit
  have hp' : bestLoopTie exactDom (T.patterns[j].map (s * ·)) T.patterns 0 (exactDom.frac 19 50) none = .ok (some (0 + j)) := hpick
  rw [hp']
  simp

/-! ## findGuardPattern at its first attempt -/

/-- what `itfReader_findGuardPattern` does when its counters are full -/
def checkITF (D : VarDom) (pattern : List Nat) (ps i : Nat) (cs : List Nat) : Res (Option (Nat × Nat)) :=
  match D.pmv cs pattern 1 2 with
  | .error e => .error e
  | .ok v => .ok (if D.lt v (D.frac 19 50) then some (ps, i) else none)

theorem guardLoop_eq_gen (D : VarDom) (pattern : List Nat) :
    ∀ (bs : List Bool) (x : Nat) (cs : List Nat) (pos ps : Nat) (isWhite : Bool),
      guardLoop D pattern bs x cs pos ps isWhite = genLoop pattern.length (checkITF D pattern) bs x cs pos ps isWhite
  | [], _, _, _, _, _ => rfl
  | b :: bs, x, cs, pos, ps, isWhite => by
    unfold guardLoop genLoop
    by_cases hb : (b != isWhite) = true
    · rw [if_pos hb, if_pos hb]
      cases incrChk cs pos with
      | error e => rfl
      | ok cs' => exact guardLoop_eq_gen D pattern bs _ _ _ _ _
    · rw [if_neg hb, if_neg hb]
      by_cases hlast : pos + 1 = pattern.length
      · rw [if_pos hlast, if_pos hlast]
        unfold checkITF
        cases D.pmv cs pattern 1 2 with
        | error e => rfl
        | ok v =>
          simp only []
          by_cases hlt : D.lt v (D.frac 19 50) = true
          · simp only [hlt, if_true]
          · simp only [hlt, Bool.false_eq_true, if_false]
            match cs with
            | c0 :: c1 :: tl =>
              simp only []
              split
              · rfl
              · exact guardLoop_eq_gen D pattern bs _ _ _ _ _
            | [_] => rfl
            | [] => rfl
      · rw [if_neg hlast, if_neg hlast]
        split
        · exact guardLoop_eq_gen D pattern bs _ _ _ _ _
        · rfl

theorem pmv_den_pos (c p : List Nat) (a b n d : Nat) (h : pmv c p a b = .ok (some (n, d)))
    (hP : 0 < sumL (p.take c.length)) : 0 < d := by
  unfold pmv RunLength.patternMatchVariance at h
  split at h
  · cases h
  · simp only [] at h
    split at h
    · cases h
    · rename_i hT
      split at h
      · cases h
      · simp only [Except.ok.injEq, Option.some.injEq, Prod.mk.injEq] at h
        rw [← h.2]
        simp only [rl_sumL] at hT ⊢
        exact Nat.mul_pos hP (by omega)

/-- decidable at scale 1: the observation `g` scores below MAX_AVG_VARIANCE (19/50) against `pattern` -/
def pmvBelow (g pattern : List Nat) : Bool :=
  match pmv g pattern 1 2 with
  | .ok (some (n, d)) => decide (50 * n < 19 * d)
  | _ => false

/-- … and then so does every multiple of it (C20 `pmv_scale_invariant`) -/
theorem pmvBelow_scale (g pattern : List Nat) (s : Nat) (hs : 0 < s) (hl : g.length = pattern.length)
    (hpos : 0 < sumL pattern) (h : pmvBelow g pattern = true) :
    ∃ v, pmv (g.map (s * ·)) pattern 1 2 = .ok v ∧ exactDom.lt v (exactDom.frac 19 50) = true := by
  unfold pmvBelow at h
  cases h1 : pmv g pattern 1 2 with
  | error e => rw [h1] at h; cases h
  | ok r =>
    cases r with
    | none => rw [h1] at h; cases h
    | some nd =>
      obtain ⟨n, d⟩ := nd
      rw [h1] at h
      simp only [decide_eq_true_eq] at h
      have htake : pattern.take g.length = pattern := List.take_of_length_le (by omega)
      have hres : sumL (pattern.take g.length) ≤ sumL g := by
        -- otherwise the score would be +Inf
        unfold pmv RunLength.patternMatchVariance at h1
        rw [if_neg (by omega)] at h1
        simp only [] at h1
        split at h1
        · cases h1
        · rename_i hT; simp only [rl_sumL] at hT; omega
      have hinv := Properties.C20.pmv_scale_invariant g pattern s 1 2 hs (by omega) hres
      have h1' : RunLength.patternMatchVariance g pattern 1 2 = .ok (some (n, d)) := h1
      rw [h1'] at hinv
      cases h2 : RunLength.patternMatchVariance (g.map (s * ·)) pattern 1 2 with
      | error e => rw [h2] at hinv; exact absurd hinv (by simp)
      | ok r2 =>
        cases r2 with
        | none => rw [h2] at hinv; exact absurd hinv (by simp)
        | some nd' =>
          obtain ⟨n', d'⟩ := nd'
          rw [h2] at hinv
          simp only [] at hinv
          refine ⟨some (n', d'), h2, ?_⟩
          change fracLtO (some (n', d')) (some (19, 50)) = true
          simp only [fracLtO, decide_eq_true_eq]
          have hd : 0 < d := pmv_den_pos g pattern 1 2 n d h1 (by rw [htake]; exact hpos)
          have hd' : 0 < d' := pmv_den_pos (g.map (s * ·)) pattern 1 2 n' d' h2 (by
            rw [List.length_map, htake]; exact hpos)
          -- n' * d = n * d', 50 n < 19 d  ⊢  n' * 50 < 19 * d'
          apply Nat.lt_of_mul_lt_mul_right (a := d)
          calc n' * 50 * d = 50 * (n' * d) := by rw [Nat.mul_comm n' 50, Nat.mul_assoc]
            _ = 50 * (n * d') := by rw [hinv]
            _ = (50 * n) * d' := by rw [Nat.mul_assoc]
            _ < (19 * d) * d' := Nat.mul_lt_mul_of_pos_right h hd'
            _ = 19 * d' * d := by rw [Nat.mul_assoc, Nat.mul_comm d d', ← Nat.mul_assoc]

/-- `findGuardPattern` started at a run boundary where the next runs `s`·g score below the threshold against `pattern`
    and at least one more run follows: found at once -/
theorem findGuard_first {row : List Bool} {off : Nat} (pattern g : List Nat) (s w : Nat) (rest : List Nat)
    (hg : g ≠ []) (hgpos : ∀ x ∈ g, 0 < x) (hlen : g.length = pattern.length) (hs : 0 < s)
    (v : Option (Nat × Nat)) (hv : pmv (g.map (s * ·)) pattern 1 2 = .ok v)
    (hlt : exactDom.lt v (exactDom.frac 19 50) = true)
    (h : RowAt row off (g.map (s * ·) ++ w :: rest) true) :
    findGuardPattern exactDom row off pattern = .ok (off, off + s * sumL g) := by
  obtain ⟨g0, g', rfl⟩ : ∃ g0 g', g = g0 :: g' := by
    cases g with
    | nil => exact absurd rfl hg
    | cons a b => exact ⟨a, b, rfl⟩
  have hw : 0 < w := h.pos w (by simp)
  unfold findGuardPattern
  rw [guardLoop_eq_gen, h.drop]
  simp only [List.map_cons, List.cons_append, appendPattern]
  have hrep : List.replicate pattern.length 0 = [] ++ 0 :: List.replicate g'.length 0 := by
    rw [← hlen]; simp [List.replicate_succ]
  rw [hrep]
  have hm := genLoop_match pattern.length (checkITF exactDom pattern) (g'.map (s * ·)) [] 0 (s * g0)
    (List.replicate g'.length 0) w rest true off off (off, off + s * sumL (g0 :: g'))
    (by simp at hlen ⊢; omega) (by simp) (scale_pos s hs g' (fun x hx => hgpos x (by simp [hx]))) hw
    (by
      unfold checkITF
      have hcs : [] ++ (0 + s * g0) :: g'.map (s * ·) = (g0 :: g').map (s * ·) := by simp
      rw [hcs]
      have hv' : exactDom.pmv ((g0 :: g').map (s * ·)) pattern 1 2 = .ok v := hv
      rw [hv']
      simp only [hlt, if_true]
      rw [sumL_scale, sumL_cons, Nat.mul_add, Nat.add_assoc])
  simp only [List.nil_append, List.length_nil, Bool.not_true] at hm ⊢
  exact hm

end Gzx.RowITF
