/-
  wp oned128 — helper lemmas for the ITF row read-back theorem (part 2): decodeStart / decodeEnd (reversed row) /
  decodeMiddle on a drawn symbol.
-/
import Gzx.Proofs.RowITFRead
import Gzx.Proofs.Row128Main
set_option linter.unusedSimpArgs false
set_option linter.unusedVariables false
namespace Gzx.RowITF
open Gzx Gzx.OneD Gzx.Row128

/-! ## quiet zone on a white prefix -/

theorem quietLoop_white (lq : Nat) (X : List Bool) :
    ∀ (i q : Nat), i ≤ lq → q ≤ i → quietLoop (List.replicate lq false ++ X) i q = .ok 0
  | 0, q, _, hq => by
    have : q = 0 := by omega
    subst this; rfl
  | i + 1, q, hi, hq => by
    unfold quietLoop
    by_cases h0 : q = 0
    · subst h0; simp
    · rw [if_neg h0]
      have hn : nth (List.replicate lq false ++ X) i = .ok false := by
        rw [nth_ok' _ i (by simp; omega)]
        congr 1
        rw [List.getElem_append_left (by simp; omega)]
        simp
      rw [hn]
      simp only [Bool.false_eq_true, if_false]
      exact quietLoop_white lq X i (q - 1) (by omega) (by omega)

theorem validateQuietZone_white (lq : Nat) (X : List Bool) (nlw : Nat) :
    validateQuietZone (List.replicate lq false ++ X) nlw lq = .ok () := by
  unfold validateQuietZone
  simp only []
  rw [quietLoop_white lq X lq _ (Nat.le_refl _) (by split <;> simp at * <;> omega)]
  simp

/-! ## decodeStart on  lq white ++ s·start ++ (more runs) -/

theorem decodeStart_at (T : ItfT) (hs0 : T.start ≠ []) (hspos : ∀ x ∈ T.start, 0 < x) (lq s : Nat) (hs : 0 < s)
    (w : Nat) (hw : 0 < w) (rest : List Nat) (hrest : ∀ x ∈ rest, 0 < x) :
    decodeStart exactDom T (List.replicate lq false ++ appendPattern (T.start.map (s * ·) ++ w :: rest) true)
      = .ok ((lq, lq + s * sumL T.start), (lq + s * sumL T.start - lq) / 4) := by
  obtain ⟨g0, g', hg⟩ : ∃ g0 g', T.start = g0 :: g' := by
    cases h : T.start with
    | nil => exact absurd h hs0
    | cons a b => exact ⟨a, b, rfl⟩
  have hg0 : 0 < g0 := hspos g0 (by rw [hg]; simp)
  generalize hrow : List.replicate lq false ++ appendPattern (T.start.map (s * ·) ++ w :: rest) true = row
  have hhead : (appendPattern (T.start.map (s * ·) ++ w :: rest) true).head? = some true := by
    rw [hg]
    obtain ⟨k, hk⟩ : ∃ k, s * g0 = k + 1 := ⟨s * g0 - 1, by have := Nat.mul_pos hs hg0; omega⟩
    simp [appendPattern, hk, List.replicate_succ]
  have hat : RowAt row lq (T.start.map (s * ·) ++ w :: rest) true := by
    refine ⟨by rw [← hrow]; simp, by rw [← hrow, List.drop_left' (by simp)], ?_⟩
    intro x hx
    simp only [List.mem_append, List.mem_cons] at hx
    rcases hx with hx | rfl | hx
    · exact scale_pos s hs _ hspos x hx
    · exact hw
    · exact hrest x hx
  have hskip : skipWhiteSpace row = .ok lq := by
    unfold skipWhiteSpace
    simp only []
    rw [← hrow, getNextSet_white_then_black lq _ hhead, hrow]
    have := hat.lt (by simp)
    rw [if_neg (by omega)]
  have hsum : 0 < sumL T.start := sumL_pos _ hs0 hspos
  have hguard := findGuard_first T.start T.start s w rest hs0 hspos rfl hs _ (pmv_multiple T.start s 1 2 hs)
    (by
      change fracLtO (some (0, _)) (some (19, 50)) = true
      simp only [fracLtO, Nat.zero_mul, decide_eq_true_eq]
      exact Nat.mul_pos (by omega) (Nat.mul_pos hsum (Nat.mul_pos hs hsum)))
    hat
  unfold decodeStart
  rw [hskip]
  simp only [wrapNF, hguard]
  rw [← hrow, validateQuietZone_white]

/-! ## the reversed row -/

theorem appendPattern_reverse (W : List Nat) (c : Bool) :
    (appendPattern W c).reverse = appendPattern W.reverse (if W.length % 2 = 1 then c else !c) := by
  induction W generalizing c with
  | nil => simp [appendPattern]
  | cons w ws ih =>
    simp only [appendPattern, List.reverse_append, List.reverse_replicate, List.reverse_cons, ih, List.length_cons]
    rw [appendPattern_append]
    by_cases h : ws.length % 2 = 1
    · have h1 : ¬ (ws.length + 1) % 2 = 1 := by omega
      have h2 : ¬ ws.reverse.length % 2 = 0 := by simp; omega
      simp [h, h1, h2, appendPattern]
    · have h1 : (ws.length + 1) % 2 = 1 := by omega
      have h2 : ws.reverse.length % 2 = 0 := by simp; omega
      simp [h, h1, h2, appendPattern]

theorem scaleRow_reverse (s : Nat) (l : List Bool) : (scaleRow s l).reverse = scaleRow s l.reverse := by
  induction l with
  | nil => rfl
  | cons b bs ih =>
    have e1 : scaleRow s (b :: bs) = List.replicate s b ++ scaleRow s bs := by simp [scaleRow]
    have e2 : scaleRow s (bs.reverse ++ [b]) = scaleRow s bs.reverse ++ List.replicate s b := by
      rw [scaleRow_append]; simp [scaleRow]
    rw [e1, List.reverse_append, List.reverse_replicate, ih, List.reverse_cons, e2]

theorem paddedRow_reverse (lq s rq : Nat) (W : List Nat) (hodd : W.length % 2 = 1) :
    (paddedRow lq s rq (appendPattern W true)).reverse = paddedRow rq s lq (appendPattern W.reverse true) := by
  unfold paddedRow
  simp only [List.reverse_append, List.reverse_replicate, scaleRow_reverse, appendPattern_reverse, hodd, if_true,
    List.append_assoc]

/-! ## decodeEnd: the end pattern, seen from the right -/

theorem decodeEnd_at (T : ItfT) (e0 : List Nat) (h0 : 0 < T.endRev.length) (he0 : T.endRev[0] = e0)
    (g : List Nat) (hg : g ≠ []) (hgpos : ∀ x ∈ g, 0 < x) (hlen : g.length = e0.length) (hsum : 0 < sumL e0)
    (hbelow : pmvBelow g e0 = true) (row : List Bool) (rq s : Nat) (hs : 0 < s) (w : Nat) (hw : 0 < w)
    (rest : List Nat) (hrest : ∀ x ∈ rest, 0 < x)
    (hrev : row.reverse = List.replicate rq false ++ appendPattern (g.map (s * ·) ++ w :: rest) true) (nlw : Nat) :
    decodeEnd exactDom T row nlw = .ok (row.length - (rq + s * sumL g), row.length - rq) := by
  obtain ⟨g0, g', hgg⟩ : ∃ g0 g', g = g0 :: g' := by
    cases h : g with
    | nil => exact absurd h hg
    | cons a b => exact ⟨a, b, rfl⟩
  have hg0 : 0 < g0 := hgpos g0 (by rw [hgg]; simp)
  have hhead : (appendPattern (g.map (s * ·) ++ w :: rest) true).head? = some true := by
    rw [hgg]
    obtain ⟨k, hk⟩ : ∃ k, s * g0 = k + 1 := ⟨s * g0 - 1, by have := Nat.mul_pos hs hg0; omega⟩
    simp [appendPattern, hk, List.replicate_succ]
  have hat : RowAt row.reverse rq (g.map (s * ·) ++ w :: rest) true := by
    refine ⟨by rw [hrev]; simp, by rw [hrev, List.drop_left' (by simp)], ?_⟩
    intro x hx
    simp only [List.mem_append, List.mem_cons] at hx
    rcases hx with hx | rfl | hx
    · exact scale_pos s hs _ hgpos x hx
    · exact hw
    · exact hrest x hx
  have hskip : skipWhiteSpace row.reverse = .ok rq := by
    unfold skipWhiteSpace
    simp only []
    have e : getNextSet row.reverse 0 = rq := by rw [hrev]; exact getNextSet_white_then_black rq _ hhead
    rw [e]
    have := hat.lt (by simp)
    rw [if_neg (by omega)]
  obtain ⟨v, hv, hlt⟩ := pmvBelow_scale g e0 s hs hlen hsum hbelow
  have hguard := findGuard_first e0 g s w rest hg hgpos hlen hs v hv hlt hat
  have hend : endGuard exactDom T row.reverse rq e0 = .ok (rq, rq + s * sumL g) := by
    unfold endGuard; rw [hguard]
  unfold decodeEnd
  simp only []
  rw [hskip]
  simp only [wrapNF, nth_ok' T.endRev 0 h0, he0, hend]
  have hv2 : validateQuietZone row.reverse nlw rq = .ok () := by rw [hrev]; exact validateQuietZone_white rq _ nlw
  rw [hv2]
  simp only [List.length_reverse]

/-! ## decodeMiddle on drawn digit pairs -/

/-- the ten run widths of each digit pair (bars from the first digit's pattern, spaces from the second's), scaled -/
def pairRuns (Ww : List (List Nat)) (s : Nat) (pairs : List (Nat × Nat)) : List Nat :=
  (pairs.map (fun p => (interleave (Ww.getD p.1 []) (Ww.getD p.2 [])).map (s * ·))).flatten

theorem pairRuns_cons (Ww : List (List Nat)) (s : Nat) (p : Nat × Nat) (ps : List (Nat × Nat)) :
    pairRuns Ww s (p :: ps) = (interleave (Ww.getD p.1 []) (Ww.getD p.2 [])).map (s * ·) ++ pairRuns Ww s ps := rfl

theorem splitPair_interleave (a b : List Nat) (s : Nat) (ha : a.length = 5) (hb : b.length = 5) :
    splitPair ((interleave a b).map (s * ·)) = .ok (a.map (s * ·), b.map (s * ·)) := by
  match a, ha, b, hb with
  | [a0, a1, a2, a3, a4], _, [b0, b1, b2, b3, b4], _ => rfl

theorem sumL_interleave (a b : List Nat) (h : a.length = b.length) : sumL (interleave a b) = sumL a + sumL b := by
  induction a generalizing b with
  | nil => cases b <;> simp [interleave, sumL] at *
  | cons x xs ih =>
    cases b with
    | nil => simp at h
    | cons y ys =>
      simp only [List.length_cons, Nat.add_right_cancel_iff] at h
      simp only [interleave, sumL_cons, ih ys h]; omega

/-- link between the writer's ten patterns and rows 10..19 of the reader's table, shapes -/
structure PairTables (T : ItfT) (Ww : List (List Nat)) : Prop where
  digits : digitTableB T.patterns = true
  len20 : T.patterns.length = 20
  link : ∀ (d : Nat) (hd : d < 10), T.patterns[10 + d]'(by omega) = Ww.getD d []

theorem PairTables.shape {T Ww} (h : PairTables T Ww) (d : Nat) (hd : d < 10) :
    (Ww.getD d []).length = 5 ∧ ∀ w ∈ Ww.getD d [], 0 < w := by
  have := h.digits
  simp only [digitTableB, Bool.and_eq_true, List.all_eq_true, beq_iff_eq, decide_eq_true_eq] at this
  have hm := this.1 _ (List.getElem_mem (show 10 + d < T.patterns.length by rw [h.len20]; omega))
  rw [h.link d hd] at hm
  exact hm

theorem middleLoop_at (T : ItfT) (Ww : List (List Nat)) (hT : PairTables T Ww) (s : Nat) (hs : 0 < s) (row : List Bool) :
    ∀ (pairs : List (Nat × Nat)) (off : Nat) (acc : List Nat) (tail : List Nat) (fuel : Nat),
    (∀ p ∈ pairs, p.1 < 10 ∧ p.2 < 10) → pairs.length + 1 ≤ fuel →
    RowAt row off (pairRuns Ww s pairs ++ tail) true →
    middleLoop exactDom T row (off + sumL (pairRuns Ww s pairs)) fuel off acc =
      .ok (acc.reverse ++ (pairs.map (fun p => [48 + p.1, 48 + p.2])).flatten) := by
  intro pairs
  induction pairs with
  | nil =>
    intro off acc tail fuel _ hfuel _
    obtain ⟨f, rfl⟩ : ∃ f, fuel = f + 1 := ⟨fuel - 1, by simp at hfuel; omega⟩
    simp [middleLoop, pairRuns, sumL]
  | cons p ps ih =>
    intro off acc tail fuel hp hfuel hrow
    obtain ⟨f, rfl⟩ : ∃ f, fuel = f + 1 := ⟨fuel - 1, by simp at hfuel; omega⟩
    have hp1 := hp p (by simp)
    obtain ⟨ha5, hapos⟩ := hT.shape p.1 hp1.1
    obtain ⟨hb5, hbpos⟩ := hT.shape p.2 hp1.2
    generalize hA : Ww.getD p.1 [] = A at *
    generalize hB : Ww.getD p.2 [] = B at *
    rw [pairRuns_cons, hA, hB, List.append_assoc] at hrow
    have hil : (interleave A B).length = 10 := by rw [interleave_length A B (by omega)]; omega
    have hilpos : ∀ x ∈ interleave A B, 0 < x := by
      intro x hx
      rcases interleave_mem A B x hx with h | h
      · exact hapos x h
      · exact hbpos x h
    have hrec : RunLength.recordPattern row off 10 = .ok ((interleave A B).map (s * ·)) := by
      rw [Properties.C20.recordPattern_eq_runs row off 10 (by omega), hrow.drop, runs_appendPattern _ _ hrow.pos]
      have hl : ((interleave A B).map (s * ·) ++ (pairRuns Ww s ps ++ tail)).length ≥ 10 := by
        rw [List.length_append, List.length_map, hil]; omega
      simp only [hl, if_true]
      rw [List.take_left' (by rw [List.length_map, hil])]
    have hsumP : sumL ((interleave A B).map (s * ·)) = s * (sumL A + sumL B) := by
      rw [sumL_scale, sumL_interleave A B (by omega)]
    have hsumpos : 0 < s * (sumL A + sumL B) := by
      have : 0 < sumL A := sumL_pos A (by intro e; rw [e] at ha5; simp at ha5) hapos
      exact Nat.mul_pos hs (by omega)
    have hd1 : decodeDigit exactDom T (A.map (s * ·)) = .ok p.1 := by
      have := decodeDigit_at T hT.digits (10 + p.1) (by rw [hT.len20]; omega) s hs
      rw [hT.link p.1 hp1.1, hA] at this
      rw [this]; congr 1; omega
    have hd2 : decodeDigit exactDom T (B.map (s * ·)) = .ok p.2 := by
      have := decodeDigit_at T hT.digits (10 + p.2) (by rw [hT.len20]; omega) s hs
      rw [hT.link p.2 hp1.2, hB] at this
      rw [this]; congr 1; omega
    have hadv := hrow.advance_even _ _ (by rw [List.length_map, hil])
    rw [hsumP] at hadv
    have hend : off + sumL (pairRuns Ww s (p :: ps)) = off + s * (sumL A + sumL B) + sumL (pairRuns Ww s ps) := by
      rw [pairRuns_cons, hA, hB, sumL_append, hsumP]; omega
    rw [hend]
    unfold middleLoop
    rw [if_pos (by omega), hrec]
    simp only [wrapNF, splitPair_interleave A B s ha5 hb5, hd1, hd2, hsumP]
    rw [ih (off + s * (sumL A + sumL B)) _ tail f (fun q hq => hp q (by simp [hq])) (by simp at hfuel ⊢; omega) hadv]
    simp [List.reverse_cons, List.append_assoc]

end Gzx.RowITF
