/-
  wp oned128 — helper lemmas for Properties/C06Row128.lean: the ITF row decoder model (Gzx/Model/OneDRowITF.lean) never
  panics and never runs out of fuel, for every interpretation of the variance arithmetic that does not panic on patterns
  at least as long as the counters.
-/
import Gzx.Proofs.Row128Total
import Gzx.Model.OneDRowITF
set_option linter.unusedSimpArgs false
set_option linter.unusedVariables false
namespace Gzx.RowITF
open Gzx Gzx.OneD Gzx.Row128

/-- table facts: guard patterns of at least three runs (the counter shift `counters[2:…]`), two end patterns, digit
    patterns of at least five widths -/
def TableITF (T : ItfT) : Prop :=
  3 ≤ T.start.length ∧ 2 ≤ T.endRev.length ∧ (∀ p ∈ T.endRev, 3 ≤ p.length) ∧ ∀ p ∈ T.patterns, 5 ≤ p.length

def tableITFB (T : ItfT) : Bool :=
  decide (3 ≤ T.start.length) && decide (2 ≤ T.endRev.length) && T.endRev.all (fun p => decide (3 ≤ p.length)) &&
  T.patterns.all (fun p => decide (5 ≤ p.length))

theorem tableITF_of_B (T : ItfT) (h : tableITFB T = true) : TableITF T := by
  simp only [tableITFB, Bool.and_eq_true, decide_eq_true_eq, List.all_eq_true] at h
  exact ⟨h.1.1.1, h.1.1.2, h.1.2, h.2⟩

/-! ## findGuardPattern -/

theorem sumL_incrAt (cs : List Nat) (pos : Nat) : sumL (incrAt cs pos) ≤ sumL cs + 1 := by
  induction cs generalizing pos with
  | nil => simp [incrAt, sumL]
  | cons c cs ih =>
    cases pos with
    | zero => simp only [incrAt, sumL, List.foldr_cons]; omega
    | succ n =>
      have := ih n
      simp only [incrAt, sumL, List.foldr_cons] at this ⊢; omega

theorem sumL_set_one (cs : List Nat) (k : Nat) : sumL (cs.set k 1) ≤ sumL cs + 1 := by
  induction cs generalizing k with
  | nil => simp [sumL]
  | cons c cs ih =>
    cases k with
    | zero => simp only [List.set_cons_zero, sumL, List.foldr_cons]; omega
    | succ n =>
      have := ih n
      simp only [List.set_cons_succ, sumL, List.foldr_cons] at this ⊢; omega

theorem sumL_append' (a b : List Nat) : sumL (a ++ b) = sumL a + sumL b := by
  induction a with
  | nil => simp [sumL]
  | cons x xs ih => simp only [List.cons_append, sumL, List.foldr_cons] at ih ⊢; omega

/-- NotFound, or a range `ps ≤ x < n` -/
def GuardRes (n : Nat) (r : Res (Nat × Nat)) : Prop :=
  r = .error .notFound ∨ ∃ ps x, r = .ok (ps, x) ∧ ps ≤ x ∧ x < n

theorem guardLoop_res (D : VarDom) (hD : D.PmvOk) (pattern : List Nat) (h3 : 3 ≤ pattern.length) (n : Nat) :
    ∀ (bs : List Bool) (x : Nat) (cs : List Nat) (pos ps : Nat) (isWhite : Bool),
      x + bs.length = n → cs.length = pattern.length → pos < pattern.length → ps + sumL cs ≤ x →
      GuardRes n (guardLoop D pattern bs x cs pos ps isWhite)
  | [], _, _, _, _, _, _, _, _, _ => Or.inl rfl
  | b :: bs, x, cs, pos, ps, isWhite, hx, hl, hp, hs => by
    have hx' : x + 1 + bs.length = n := by simp at hx; omega
    unfold guardLoop
    by_cases hb : (b != isWhite) = true
    · rw [if_pos hb]
      simp only [incrChk, hl, hp, if_true]
      exact guardLoop_res D hD pattern h3 n bs _ _ _ _ _ hx' (by rw [incrAt_length']; exact hl) hp
        (by have := sumL_incrAt cs pos; omega)
    · rw [if_neg hb]
      by_cases hlast : pos + 1 = pattern.length
      · rw [if_pos hlast]
        obtain ⟨v, hv⟩ := hD cs pattern 1 2 (by omega)
        rw [hv]
        simp only []
        by_cases hlt : D.lt v (D.frac 19 50) = true
        · rw [if_pos hlt]
          exact Or.inr ⟨ps, x, rfl, by omega, by omega⟩
        · rw [if_neg hlt]
          obtain ⟨c0, c1, tl, rfl⟩ : ∃ c0 c1 tl, cs = c0 :: c1 :: tl := by
            match cs, hl with
            | c0 :: c1 :: tl, _ => exact ⟨c0, c1, tl, rfl⟩
            | [_], hl => simp at hl; omega
            | [], hl => simp at hl; omega
          simp only [List.length_cons] at hl
          simp only []
          rw [if_neg (by omega)]
          refine guardLoop_res D hD pattern h3 n bs _ _ _ _ _ hx' (by simp; omega) (by omega) ?_
          have e1 : sumL (tl ++ [1, 0]) = sumL tl + 1 := by rw [sumL_append']; rfl
          have e2 : sumL (c0 :: c1 :: tl) = c0 + (c1 + sumL tl) := rfl
          omega
      · rw [if_neg hlast]
        rw [if_pos (by omega)]
        exact guardLoop_res D hD pattern h3 n bs _ _ _ _ _ hx' (by rw [List.length_set]; exact hl) (by omega)
          (by have := sumL_set_one cs (pos + 1); omega)

theorem sumL_replicate_zero (k : Nat) : sumL (List.replicate k 0) = 0 := by
  induction k with
  | zero => rfl
  | succ k ih => simp only [List.replicate_succ, sumL, List.foldr_cons] at ih ⊢; omega

theorem findGuardPattern_res (D : VarDom) (hD : D.PmvOk) (row : List Bool) (off : Nat) (pattern : List Nat)
    (h3 : 3 ≤ pattern.length) (hoff : off ≤ row.length) :
    GuardRes row.length (findGuardPattern D row off pattern) := by
  unfold findGuardPattern
  exact guardLoop_res D hD pattern h3 row.length _ _ _ _ _ _ (by rw [List.length_drop]; omega) (by simp) (by omega)
    (by rw [sumL_replicate_zero]; omega)

/-! ## quiet zone -/

theorem quietLoop_ok (row : List Bool) : ∀ (i1 q : Nat), i1 ≤ row.length → ∃ q', quietLoop row i1 q = .ok q'
  | 0, q, _ => ⟨q, rfl⟩
  | i + 1, q, h => by
    unfold quietLoop
    split
    · exact ⟨_, rfl⟩
    · rw [nth_ok' row i (by omega)]
      simp only []
      split
      · exact ⟨_, rfl⟩
      · exact quietLoop_ok row i (q - 1) (by omega)

theorem validateQuietZone_nf (row : List Bool) (nlw sp : Nat) (h : sp ≤ row.length) : NF (validateQuietZone row nlw sp) := by
  unfold validateQuietZone
  simp only []
  obtain ⟨q, hq⟩ := quietLoop_ok row sp (if (!decide (nlw * 10 < sp)) = true then sp else nlw * 10) h
  rw [hq]
  simp only []
  split
  · exact Or.inr rfl
  · exact Or.inl ⟨_, rfl⟩

theorem skipWhiteSpace_res (row : List Bool) :
    skipWhiteSpace row = .error .notFound ∨ ∃ e, skipWhiteSpace row = .ok e ∧ e ≤ row.length := by
  unfold skipWhiteSpace
  simp only []
  split
  · exact Or.inl rfl
  · exact Or.inr ⟨_, rfl, getNextSet_le row 0⟩

/-! ## decodeStart / decodeEnd -/

theorem guardRes_wrap {n : Nat} {r : Res (Nat × Nat)} (h : GuardRes n r) : GuardRes n (wrapNF r) := by
  rcases h with rfl | ⟨ps, x, rfl, h⟩
  · exact Or.inl rfl
  · exact Or.inr ⟨ps, x, rfl, h⟩

theorem decodeStart_res (D : VarDom) (hD : D.PmvOk) (T : ItfT) (hT : TableITF T) (row : List Bool) :
    decodeStart D T row = .error .notFound ∨
      ∃ sp nlw, decodeStart D T row = .ok (sp, nlw) ∧ sp.2 < row.length := by
  unfold decodeStart
  rcases skipWhiteSpace_res row with h | ⟨e, h, he⟩
  · rw [h]; exact Or.inl rfl
  · rw [h]
    rw [show wrapNF (Except.ok e : Res Nat) = Except.ok e from rfl]
    simp only []
    rcases guardRes_wrap (findGuardPattern_res D hD row e T.start hT.1 he) with hg | ⟨ps, x, hg, h1, h2⟩
    · rw [hg]; exact Or.inl rfl
    · rw [hg]
      simp only []
      rcases wrapNF_of_nf _ (validateQuietZone_nf row ((x - ps) / 4) ps (by omega)) with ⟨u, hv⟩ | hv
      · rw [hv]; exact Or.inr ⟨_, _, rfl, h2⟩
      · rw [hv]; exact Or.inl rfl

theorem endGuard_res (D : VarDom) (hD : D.PmvOk) (T : ItfT) (hT : TableITF T) (rr : List Bool) (e : Nat)
    (he : e ≤ rr.length) (p0 : List Nat) (hp0 : 3 ≤ p0.length) : GuardRes rr.length (endGuard D T rr e p0) := by
  unfold endGuard
  obtain ⟨hs, he2, hep, _⟩ := hT
  rcases findGuardPattern_res D hD rr e p0 hp0 he with hg | ⟨ps, x, hg, h1, h2⟩
  · rw [hg]
    simp only [isNotFound, if_true]
    rw [nth_ok' T.endRev 1 (by omega)]
    exact findGuardPattern_res D hD rr e T.endRev[1] (hep _ (List.getElem_mem _)) he
  · rw [hg]; exact Or.inr ⟨ps, x, rfl, h1, h2⟩

theorem decodeEnd_res (D : VarDom) (hD : D.PmvOk) (T : ItfT) (hT : TableITF T) (row : List Bool) (nlw : Nat) :
    NF (decodeEnd D T row nlw) := by
  unfold decodeEnd
  simp only []
  rcases skipWhiteSpace_res row.reverse with h | ⟨e, h, he⟩
  · rw [h]; exact Or.inr rfl
  · rw [h]
    rw [show wrapNF (Except.ok e : Res Nat) = Except.ok e from rfl]
    simp only []
    have h0 : 0 < T.endRev.length := by have := hT.2.1; omega
    rw [nth_ok' T.endRev 0 h0]
    simp only []
    rcases guardRes_wrap (endGuard_res D hD T hT row.reverse e he T.endRev[0] (hT.2.2.1 _ (List.getElem_mem _)))
      with hg | ⟨ps, x, hg, h1, h2⟩
    · rw [hg]; exact Or.inr rfl
    · rw [hg]
      simp only []
      rcases wrapNF_of_nf _ (validateQuietZone_nf row.reverse nlw ps (by omega)) with ⟨u, hv⟩ | hv
      · rw [hv]; exact Or.inl ⟨_, rfl⟩
      · rw [hv]; exact Or.inr rfl

/-! ## decodeDigit / decodeMiddle -/

theorem bestLoopTie_ok (D : VarDom) (hD : D.PmvOk) (counters : List Nat) :
    ∀ (ps : List (List Nat)) (i : Nat) (best : D.V) (bm : Option Nat),
      (∀ p ∈ ps, counters.length ≤ p.length) → ∃ r, bestLoopTie D counters ps i best bm = .ok r := by
  intro ps
  induction ps with
  | nil => intro i best bm _; exact ⟨bm, rfl⟩
  | cons p ps ih =>
    intro i best bm h
    obtain ⟨v, hv⟩ := hD counters p 1 2 (h p (by simp))
    simp only [bestLoopTie, hv]
    have hrest : ∀ q ∈ ps, counters.length ≤ q.length := fun q hq => h q (by simp [hq])
    split
    · exact ih _ _ _ hrest
    · split
      · exact ih _ _ _ hrest
      · exact ih _ _ _ hrest

theorem decodeDigit_nf (D : VarDom) (hD : D.PmvOk) (T : ItfT) (hT : TableITF T) (cs : List Nat) (h5 : cs.length = 5) :
    NF (decodeDigit D T cs) := by
  unfold decodeDigit
  obtain ⟨r, hr⟩ := bestLoopTie_ok D hD cs T.patterns 0 (D.frac 19 50) none (by rw [h5]; exact hT.2.2.2)
  rw [hr]
  cases r with
  | none => exact Or.inr rfl
  | some m => exact Or.inl ⟨_, rfl⟩

theorem splitPair_ok (pair : List Nat) (h : pair.length = 10) :
    ∃ b w, splitPair pair = .ok (b, w) ∧ b.length = 5 ∧ w.length = 5 := by
  match pair, h with
  | [a0, a1, a2, a3, a4, a5, a6, a7, a8, a9], _ => exact ⟨[a0, a2, a4, a6, a8], [a1, a3, a5, a7, a9], rfl, rfl, rfl⟩

theorem middleLoop_nf (D : VarDom) (hD : D.PmvOk) (T : ItfT) (hT : TableITF T) (row : List Bool) (payloadEnd : Nat) :
    ∀ (fuel start : Nat) (acc : List Nat), start ≤ row.length → row.length < start + fuel →
      NF (middleLoop D T row payloadEnd fuel start acc)
  | 0, _, _, h1, h2 => by omega
  | fuel + 1, start, acc, h1, h2 => by
    unfold middleLoop
    split
    · have hnf := wrapNF_nf (RunLength.recordPattern row start 10)
        (Properties.C20.recordPattern_total row start 10 (by omega))
        (by
          rw [Properties.C20.recordPattern_eq_runs row start 10 (by omega)]
          simp only
          split <;> simp)
      rcases hnf with ⟨pair, hp⟩ | hp
      · rw [hp]
        simp only []
        have hf := recordPattern_ok_facts row start 10 pair (by omega) (wrapNF_ok _ _ hp)
        obtain ⟨bl, wh, hsp, hb5, hw5⟩ := splitPair_ok pair hf.1
        rw [hsp]
        simp only []
        rcases wrapNF_of_nf _ (decodeDigit_nf D hD T hT bl hb5) with ⟨d1, hd1⟩ | hd1
        · rw [hd1]
          simp only []
          rcases wrapNF_of_nf _ (decodeDigit_nf D hD T hT wh hw5) with ⟨d2, hd2⟩ | hd2
          · rw [hd2]
            simp only []
            exact middleLoop_nf D hD T hT row payloadEnd fuel _ _ (by omega) (by omega)
          · rw [hd2]; exact Or.inr rfl
        · rw [hd1]; exact Or.inr rfl
      · rw [hp]; exact Or.inr rfl
    · exact Or.inl ⟨_, rfl⟩

end Gzx.RowITF
