import Gzx.Proofs.Row128Total
namespace Gzx.RowITF
end Gzx.RowITF
