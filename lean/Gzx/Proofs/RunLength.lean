import Gzx.Model.RunLength
namespace Gzx.RunLength

theorem runsAux_ne_nil (bs : List Bool) (cur : Bool) (cnt : Nat) : runsAux bs cur cnt ≠ [] := by
  induction bs generalizing cur cnt with
  | nil => simp [runsAux]
  | cons b bs ih =>
    unfold runsAux
    split
    · exact ih _ _
    · simp

theorem runsAux_length_pos (bs : List Bool) (cur : Bool) (cnt : Nat) : 0 < (runsAux bs cur cnt).length := by
  have := runsAux_ne_nil bs cur cnt
  cases h : runsAux bs cur cnt with
  | nil => exact absurd h this
  | cons _ _ => simp

/-- the loop of `RecordPattern` computes a prefix of the run-length encoding -/
theorem rpLoop_spec (n : Nat) (bs : List Bool) (cur : Bool) (done : List Nat) (cnt : Nat)
    (h : done.length < n) :
    rpLoop n bs cur done cnt =
      if done.length + (runsAux bs cur cnt).length > n
      then ((done ++ runsAux bs cur cnt).take n, true)
      else (done ++ runsAux bs cur cnt, false) := by
  induction bs generalizing cur done cnt with
  | nil =>
    simp only [rpLoop, runsAux, List.length_cons, List.length_nil]
    have : ¬ (done.length + (0 + 1) > n) := by omega
    simp [this]
  | cons b bs ih =>
    unfold rpLoop runsAux
    by_cases hb : b = cur
    · simp only [hb, if_true]
      exact ih cur done (cnt + 1) h
    · simp only [hb, if_false]
      have hpos := runsAux_length_pos bs b 1
      by_cases hn : done.length + 1 = n
      · simp only [hn, if_true, List.length_cons]
        have : done.length + ((runsAux bs b 1).length + 1) > n := by omega
        simp only [this, if_true]
        have hl : done.length = n - 1 := by omega
        congr 1
        rw [List.take_append]
        have h1 : n - done.length = 1 := by omega
        have h2 : List.take n done = done := List.take_of_length_le (by omega)
        simp [h1, h2]
      · simp only [hn, if_false]
        have h' : (done ++ [cnt]).length < n := by simp; omega
        rw [ih b (done ++ [cnt]) 1 h']
        simp only [List.length_append, List.length_cons, List.length_nil, List.append_assoc,
          List.cons_append, List.nil_append]
        have e : done.length + (0 + 1) + (runsAux bs b 1).length =
            done.length + ((runsAux bs b 1).length + 1) := by omega
        rw [e]

theorem sumL_map_mul (k : Nat) (xs : List Nat) : sumL (xs.map (k * ·)) = k * sumL xs := by
  induction xs with
  | nil => simp [sumL]
  | cons x xs ih =>
    simp only [sumL, List.map_cons, List.foldr_cons] at ih ⊢
    rw [ih, Nat.mul_add]

theorem absDiff_self (a : Nat) : absDiff a a = 0 := by simp [absDiff]

theorem absDiff_mul (k a b : Nat) : absDiff (k * a) (k * b) = k * absDiff a b := by
  unfold absDiff
  by_cases h : a ≥ b
  · have : k * a ≥ k * b := Nat.mul_le_mul_left k h
    simp [h, this, Nat.mul_sub]
  · have h' : b ≥ a := by omega
    by_cases hk : k * a ≥ k * b
    · have : k * a = k * b := Nat.le_antisymm (Nat.mul_le_mul_left k h') hk
      simp [h, this, Nat.mul_sub]
    · simp [h, hk, Nat.mul_sub]

end Gzx.RunLength
