/-
  One corrupted symbol is restored: symbolic execution of the model decoder (syndromes, Euclid,
  locator shortcut, Forney with generator-base correction, correction loop) on `c + e·x^p`
  for every code length, every parity count r ≥ 2, every position and magnitude.
  Helper lemmas for Properties/C04.lean.  Core Lean only.
-/
import Gzx.Proofs.RS
import Gzx.Proofs.MinDist
namespace Gzx.Proofs.SingleError
open Gzx Gzx.GF Gzx.RS Gzx.Ref.GF Gzx.Proofs.GF Gzx.Proofs.Poly Gzx.Proofs.RS Gzx.Proofs.MinDist

/-- `[h, h·y, h·y², …]` (n terms) -/
def geoUp (prim h y : Nat) : Nat → List Nat
  | 0 => []
  | n + 1 => h :: geoUp prim (gmul prim h y) y n

theorem geoUp_length (prim y : Nat) : ∀ (n h : Nat), (geoUp prim h y n).length = n
  | 0, _ => rfl
  | n + 1, h => by simp [geoUp, geoUp_length prim y n]

section field
variable {prim size : Nat} (ok : ParamsOK prim size)
include ok

theorem geoUp_inR (y : Nat) : ∀ (n h : Nat), h < size → InR size (geoUp prim h y n)
  | 0, _, _ => InR.nil
  | n + 1, h, hh => InR.cons hh (geoUp_inR y n _ (gmul_lt ok _ _))

theorem geoUp_map (s y : Nat) (hs : s < size) (hy : y < size) : ∀ (n h : Nat), h < size →
    (geoUp prim h y n).map (gmul prim s) = geoUp prim (gmul prim s h) y n
  | 0, _, _ => rfl
  | n + 1, h, hh => by
    simp only [geoUp, List.map_cons]
    rw [geoUp_map s y hs hy n _ (gmul_lt ok _ _), gmul_assoc ok s h y hs hh hy]

theorem geoUp_snoc (y : Nat) (hy : y < size) : ∀ (n h : Nat), h < size →
    geoUp prim h y (n + 1) = geoUp prim h y n ++ [gmul prim h (gpow prim y n)]
  | 0, h, hh => by
    simp only [geoUp, List.nil_append]
    rw [show gpow prim y 0 = 1 from rfl, gmul_one_right ok h hh]
  | n + 1, h, hh => by
    show h :: geoUp prim (gmul prim h y) y (n + 1) = _
    rw [geoUp_snoc y hy n _ (gmul_lt ok _ _)]
    show _ = h :: (geoUp prim (gmul prim h y) y n ++ [gmul prim h (gpow prim y (n + 1))])
    congr 3
    show _ = gmul prim h (gmul prim (gpow prim y n) y)
    rw [gmul_assoc ok h y _ hh hy (gpow_lt ok y n), gmul_comm ok y _ hy (gpow_lt ok y n)]

/-- the inverse is unique -/
theorem inv_unique (a b y : Nat) (ha : a < size) (hb : b < size) (hy : y < size)
    (h1 : gmul prim a y = 1) (h2 : gmul prim b y = 1) : a = b := by
  have : gmul prim (gmul prim a y) b = gmul prim a (gmul prim b y) := by
    rw [gmul_assoc ok a y b ha hy hb, gmul_comm ok y b hy hb]
  rw [h1, h2, gmul_one_left ok b hb, gmul_one_right ok a ha] at this
  exact this.symm

theorem ne_zero_of_mul_eq_one (a b : Nat) (hb : b < size) (h : gmul prim a b = 1) : a ≠ 0 := by
  intro h0
  rw [h0, gmul_zero_left ok b hb] at h
  exact absurd h (by decide)

theorem gmul_ne_zero (a b : Nat) (ha : a < size) (hb : b < size) (ha0 : a ≠ 0) (hb0 : b ≠ 0) :
    gmul prim a b ≠ 0 := by
  intro h
  rcases gmul_eq_zero ok a b ha hb h with h | h
  · exact ha0 h
  · exact hb0 h

theorem gpow_ne_zero (y : Nat) (hy : y < size) (hy0 : y ≠ 0) : ∀ n, gpow prim y n ≠ 0
  | 0 => by show (1 : Nat) ≠ 0; decide
  | n + 1 => gmul_ne_zero ok _ _ (gpow_lt ok y n) hy (gpow_ne_zero y hy hy0 n) hy0

/-- value of a word with one symbol changed -/
theorem evalH_set (a : Nat) (ha : a < size) (e : Nat) (he : e < size) : ∀ (c : List Nat) (j : Nat)
    (hj : j < c.length), InR size c →
    evalH prim a (c.set j (c[j] ^^^ e)) = evalH prim a c ^^^ gmul prim (gpow prim a (c.length - 1 - j)) e
  | [], j, hj, _ => by simp at hj
  | x :: xs, 0, _, hc => by
    simp only [List.set_cons_zero, List.getElem_cons_zero, List.length_cons, Nat.add_sub_cancel, Nat.sub_zero]
    rw [evalH_cons ok a ha _ xs (xor_lt_size ok x e hc.head he) hc.tail,
      evalH_cons ok a ha x xs hc.head hc.tail, gmul_xor_right ok _ x e hc.head he]
    apply Nat.eq_of_testBit_eq; intro i
    simp only [Nat.testBit_xor]
    cases (gmul prim (gpow prim a xs.length) x).testBit i <;>
      cases (gmul prim (gpow prim a xs.length) e).testBit i <;>
      cases (evalH prim a xs).testBit i <;> rfl
  | x :: xs, j + 1, hj, hc => by
    have hj' : j < xs.length := by simpa using hj
    have hin : InR size (xs.set j (xs[j] ^^^ e)) := by
      intro y hy
      rcases List.mem_or_eq_of_mem_set hy with h | h
      · exact hc.tail y h
      · rw [h]; exact xor_lt_size ok _ _ (hc.tail _ (List.getElem_mem hj')) he
    simp only [List.set_cons_succ, List.getElem_cons_succ, List.length_cons]
    rw [evalH_cons ok a ha x _ hc.head hin, evalH_cons ok a ha x xs hc.head hc.tail,
      evalH_set a ha e he xs j hj' hc.tail, List.length_set, Nat.xor_assoc]
    have e1 : xs.length + 1 - 1 - (j + 1) = xs.length - 1 - j := by omega
    rw [e1]

end field

section F
variable {F : GF} (hF : FieldOK F)
include hF

omit hF in
theorem buildMonomial_ok (d c : Nat) (hc : c ≠ 0) : buildMonomial d c = .ok (c :: List.replicate d 0) := by
  unfold buildMonomial
  rw [if_neg hc, mkPoly_ok _ (by simp), normalize_of_head_ne_zero _ _ hc]

theorem multiplyByMonomial_ok (lh : Nat) (lt : List Nat) (hl : InR F.size (lh :: lt)) (d c : Nat)
    (hc : c < F.size) (hne : gmul F.prim c lh ≠ 0) :
    multiplyByMonomial F (lh :: lt) d c =
      .ok (gmul F.prim c lh :: (lt.map (gmul F.prim c) ++ List.replicate d 0)) := by
  have hlh : lh ≠ 0 := by
    intro h; rw [h, gmul_zero_right hF.2] at hne; exact hne rfl
  obtain ⟨r, hr, _, _, hshape⟩ :=
    multiplyByMonomial_spec hF (lh :: lt) ⟨hl, Or.inr ⟨lh, lt, rfl, hlh⟩⟩ d c hc
  rw [hr, hshape lh lt rfl hne]

/-- one iteration of the inner division loop of the Euclidean algorithm -/
theorem euclidDiv_step (lh : Nat) (lt : List Nat) (hl : InR F.size (lh :: lt)) (inv : Nat) (hinv : inv < F.size)
    (hmul : gmul F.prim lh inv = 1) (q : List Nat) (rh : Nat) (rt : List Nat) (hr : InR F.size (rh :: rt))
    (hrh : rh ≠ 0) (hdeg : lt.length ≤ rt.length) (fuel : Nat) :
    euclidDivLoop F (lh :: lt) inv (fuel + 1) q (rh :: rt) =
      (match addOrSubtract q (gmul F.prim rh inv :: List.replicate (rt.length - lt.length) 0) with
       | .ok q' => euclidDivLoop F (lh :: lt) inv fuel q'
          (normalize (List.zipWith (· ^^^ ·) rt
            (lt.map (gmul F.prim (gmul F.prim rh inv)) ++ List.replicate (rt.length - lt.length) 0)))
       | .error err => .error err) := by
  have hlh : lh < F.size := hl.head
  have hrh' : rh < F.size := hr.head
  have hinv0 : inv ≠ 0 := by
    intro h; rw [h, gmul_zero_right hF.2] at hmul; exact absurd hmul (by decide)
  have hscale : gmul F.prim rh inv < F.size := gmul_lt hF.2 _ _
  have hscale0 : gmul F.prim rh inv ≠ 0 := gmul_ne_zero hF.2 _ _ hrh' hinv hrh hinv0
  have hlead : gmul F.prim (gmul F.prim rh inv) lh = rh := by
    rw [gmul_assoc hF.2 rh inv lh hrh' hinv hlh, gmul_comm hF.2 inv lh hinv hlh, hmul,
      gmul_one_right hF.2 rh hrh']
  have hcond : (decide (degree (rh :: rt) ≥ degree (lh :: lt)) && !isZero (rh :: rt)) = true := by
    simp [degree, isZero, hrh, hdeg]
  have hdd : degree (rh :: rt) - degree (lh :: lt) = rt.length - lt.length := by simp [degree]
  have hmono := multiplyByMonomial_ok hF lh lt hl (rt.length - lt.length) _ hscale (by rw [hlead]; exact hrh)
  rw [hlead] at hmono
  have hcancel := addOrSubtract_cancel rh rt
    (lt.map (gmul F.prim (gmul F.prim rh inv)) ++ List.replicate (rt.length - lt.length) 0) hrh
    (by simp; omega)
  conv => lhs; unfold euclidDivLoop
  rw [if_pos hcond, getCoefficient_lead, hdd]
  simp only [bind, Except.bind, F_mul hF rh inv hrh' hinv, buildMonomial_ok _ _ hscale0, hmono, hcancel]
  cases addOrSubtract q (gmul F.prim rh inv :: List.replicate (rt.length - lt.length) 0) <;> rfl

omit hF in
/-- the inner loop stops when the remainder is shorter than the divisor -/
theorem euclidDiv_stop (rLast : List Nat) (inv : Nat) (q r : List Nat) (hdeg : degree r < degree rLast)
    (fuel : Nat) : euclidDivLoop F rLast inv (fuel + 1) q r = .ok (q, r) := by
  unfold euclidDivLoop
  have : ¬ (decide (degree r ≥ degree rLast) && !isZero r) = true := by
    simp; intro h; omega
  rw [if_neg this]

omit hF in
theorem zipWith_xor_self_append : ∀ (A : List Nat) (z : Nat),
    List.zipWith (· ^^^ ·) (A ++ [0]) (A ++ [z]) = List.replicate A.length 0 ++ [z]
  | [], z => by simp
  | a :: A, z => by
    simp only [List.cons_append, List.zipWith_cons_cons, Nat.xor_self, List.length_cons, List.replicate_succ]
    rw [zipWith_xor_self_append A z]

omit hF in
theorem normalize_zeros_append (z : Nat) (hz : z ≠ 0) : ∀ n, normalize (List.replicate n 0 ++ [z]) = [z]
  | 0 => by simp [normalize_of_head_ne_zero _ _ hz]
  | n + 1 => by
    rw [List.replicate_succ, List.cons_append, normalize_zero_cons, normalize_zeros_append z hz n]

/-- the division of `x^(k+2)` by the geometric syndrome polynomial `H·(1, Y, Y², …)` (k+2 terms):
    quotient `u·x + Y·u`, remainder the constant `Y^(k+2)` -/
theorem euclidDiv_geo (H Y u k : Nat) (hH : H < F.size) (hY : Y < F.size) (hY0 : Y ≠ 0) (hu : u < F.size)
    (hHu : gmul F.prim H u = 1) :
    euclidDivLoop F (geoUp F.prim H Y (k + 2)) u (k + 4) [0] (1 :: List.replicate (k + 2) 0) =
      .ok ([u, gmul F.prim Y u], [gmul F.prim Y (gpow F.prim Y (k + 1))]) := by
  have ok := hF.2
  have hu0 : u ≠ 0 := by
    intro h; rw [h, gmul_zero_right ok] at hHu; exact absurd hHu (by decide)
  have hH0 : H ≠ 0 := ne_zero_of_mul_eq_one ok H u hu hHu
  have h1 : (1 : Nat) < F.size := one_lt_size ok
  have huH : gmul F.prim u H = 1 := by rw [gmul_comm ok u H hu hH]; exact hHu
  have hHY : gmul F.prim H Y < F.size := gmul_lt ok _ _
  have hYY : gmul F.prim Y Y < F.size := gmul_lt ok _ _
  have hv : gmul F.prim Y u < F.size := gmul_lt ok _ _
  have hv0 : gmul F.prim Y u ≠ 0 := gmul_ne_zero ok _ _ hY hu hY0 hu0
  -- G = H :: Gt
  have hG : geoUp F.prim H Y (k + 2) = H :: geoUp F.prim (gmul F.prim H Y) Y (k + 1) := rfl
  have hGin : InR F.size (H :: geoUp F.prim (gmul F.prim H Y) Y (k + 1)) := by
    rw [← hG]; exact geoUp_inR ok Y _ H hH
  have hGtlen : (geoUp F.prim (gmul F.prim H Y) Y (k + 1)).length = k + 1 := geoUp_length _ _ _ _
  -- step 1
  have e1 : gmul F.prim u (gmul F.prim H Y) = Y := by
    rw [← gmul_assoc ok u H Y hu hH hY, huH, gmul_one_left ok Y hY]
  have hmap1 : (geoUp F.prim (gmul F.prim H Y) Y (k + 1)).map (gmul F.prim (gmul F.prim 1 u)) =
      Y :: geoUp F.prim (gmul F.prim Y Y) Y k := by
    rw [gmul_one_left ok u hu, geoUp_map ok u Y hu hY _ _ hHY, e1]; rfl
  have hrem1 : normalize (List.zipWith (· ^^^ ·) (List.replicate (k + 2) 0)
      ((geoUp F.prim (gmul F.prim H Y) Y (k + 1)).map (gmul F.prim (gmul F.prim 1 u)) ++
        List.replicate ((List.replicate (k + 2) 0).length - (geoUp F.prim (gmul F.prim H Y) Y (k + 1)).length) 0)) =
      Y :: (geoUp F.prim (gmul F.prim Y Y) Y k ++ [0]) := by
    rw [hmap1, List.length_replicate, hGtlen]
    have : k + 2 - (k + 1) = 1 := by omega
    rw [this]
    have hl : k + 2 = (Y :: geoUp F.prim (gmul F.prim Y Y) Y k ++ List.replicate 1 0).length := by
      simp [geoUp_length]
    rw [hl, zipWith_zeros_left]
    exact normalize_of_head_ne_zero _ _ hY0
  have hq1 : addOrSubtract [0] (gmul F.prim 1 u ::
      List.replicate ((List.replicate (k + 2) 0).length - (geoUp F.prim (gmul F.prim H Y) Y (k + 1)).length) 0) =
      .ok [u, 0] := by
    rw [List.length_replicate, hGtlen, gmul_one_left ok u hu]
    have : k + 2 - (k + 1) = 1 := by omega
    rw [this]; rfl
  -- step 2
  have e2 : gmul F.prim (gmul F.prim Y u) (gmul F.prim H Y) = gmul F.prim Y Y := by
    rw [gmul_assoc ok Y u _ hY hu hHY, e1]
  have hrtlen : (geoUp F.prim (gmul F.prim Y Y) Y k ++ [0]).length = k + 1 := by simp [geoUp_length]
  have hmap2 : (geoUp F.prim (gmul F.prim H Y) Y (k + 1)).map (gmul F.prim (gmul F.prim Y u)) =
      geoUp F.prim (gmul F.prim Y Y) Y k ++ [gmul F.prim (gmul F.prim Y Y) (gpow F.prim Y k)] := by
    rw [geoUp_map ok _ Y hv hY _ _ hHY, e2, geoUp_snoc ok Y hY k _ hYY]
  have hz : gmul F.prim (gmul F.prim Y Y) (gpow F.prim Y k) = gmul F.prim Y (gpow F.prim Y (k + 1)) := by
    show _ = gmul F.prim Y (gmul F.prim (gpow F.prim Y k) Y)
    rw [gmul_assoc ok Y Y _ hY hY (gpow_lt ok Y k), gmul_comm ok Y (gpow F.prim Y k) hY (gpow_lt ok Y k)]
  have hz0 : gmul F.prim Y (gpow F.prim Y (k + 1)) ≠ 0 :=
    gmul_ne_zero ok _ _ hY (gpow_lt ok Y _) hY0 (gpow_ne_zero ok Y hY hY0 _)
  have hrem2 : normalize (List.zipWith (· ^^^ ·) (geoUp F.prim (gmul F.prim Y Y) Y k ++ [0])
      ((geoUp F.prim (gmul F.prim H Y) Y (k + 1)).map (gmul F.prim (gmul F.prim Y u)) ++
        List.replicate ((geoUp F.prim (gmul F.prim Y Y) Y k ++ [0]).length -
          (geoUp F.prim (gmul F.prim H Y) Y (k + 1)).length) 0)) =
      [gmul F.prim Y (gpow F.prim Y (k + 1))] := by
    rw [hmap2, hrtlen, hGtlen, Nat.sub_self, List.replicate_zero, List.append_nil, zipWith_xor_self_append,
      hz, normalize_zeros_append _ hz0]
  have hq2 : addOrSubtract [u, 0] (gmul F.prim Y u ::
      List.replicate ((geoUp F.prim (gmul F.prim Y Y) Y k ++ [0]).length -
        (geoUp F.prim (gmul F.prim H Y) Y (k + 1)).length) 0) = .ok [u, gmul F.prim Y u] := by
    rw [hrtlen, hGtlen, Nat.sub_self, List.replicate_zero]
    simp [addOrSubtract, isZero, hu0, hv0, mkPoly, normalize_of_head_ne_zero _ _ hu0]
  have hR1in : InR F.size (Y :: (geoUp F.prim (gmul F.prim Y Y) Y k ++ [0])) :=
    InR.cons hY (InR.append (geoUp_inR ok Y _ _ hYY) (InR.cons (size_pos hF) InR.nil))
  rw [hG]
  show euclidDivLoop F _ u ((k + 3) + 1) [0] (1 :: List.replicate (k + 2) 0) = _
  rw [euclidDiv_step hF H _ hGin u hu hHu [0] 1 (List.replicate (k + 2) 0)
    (InR.cons h1 (InR.replicate (size_pos hF))) (by decide) (by simp [geoUp_length]) (k + 3)]
  rw [hq1, hrem1]
  show euclidDivLoop F _ u ((k + 2) + 1) [u, 0] _ = _
  rw [euclidDiv_step hF H _ hGin u hu hHu [u, 0] Y _ hR1in hY0 (by simp [geoUp_length]) (k + 2)]
  rw [hq2, hrem2]
  show euclidDivLoop F _ u ((k + 1) + 1) _ _ = _
  rw [euclidDiv_stop]
  simp [degree, geoUp_length]

theorem multiplyBy_ok (h : Nat) (t : List Nat) (hp : InR F.size (h :: t)) (s : Nat) (hs : s < F.size)
    (hne : gmul F.prim s h ≠ 0) :
    multiplyBy F (h :: t) s = .ok ((h :: t).map (gmul F.prim s)) := by
  have ok := hF.2
  have hs0 : s ≠ 0 := by
    intro h0; rw [h0, gmul_zero_left ok h hp.head] at hne; exact hne rfl
  unfold multiplyBy
  rw [if_neg hs0]
  by_cases h1 : s = 1
  · rw [if_pos h1, h1]
    congr 1
    symm
    have : ∀ x, x ∈ (h :: t) → gmul F.prim 1 x = id x := fun x hx => gmul_one_left ok x (hp x hx)
    rw [List.map_congr_left this, List.map_id]
  · rw [if_neg h1, scale_mapM hF (h :: t) hp s hs]
    simp only [bind, Except.bind]
    rw [mkPoly_ok _ (by simp), List.map_cons, normalize_of_head_ne_zero _ _ hne]

/-- Euclid on `x^(k+2)` and the geometric syndrome polynomial: one outer iteration -/
theorem runEuclid_geo (H Y u zz k : Nat) (hH : H < F.size) (hY : Y < F.size) (hY0 : Y ≠ 0)
    (hu : u < F.size) (hinvH : F.inv H = .ok u) (hHu : gmul F.prim H u = 1)
    (hzz : zz < F.size) (hinvv : F.inv (gmul F.prim Y u) = .ok zz)
    (hvz : gmul F.prim (gmul F.prim Y u) zz = 1) :
    runEuclideanAlgorithm F (1 :: List.replicate (k + 2) 0) (geoUp F.prim H Y (k + 2)) (k + 2) =
      .ok ([gmul F.prim zz u, 1], [gmul F.prim zz (gmul F.prim Y (gpow F.prim Y (k + 1)))]) := by
  have ok := hF.2
  have h1 : (1 : Nat) < F.size := one_lt_size ok
  have hu0 : u ≠ 0 := by
    intro h; rw [h, gmul_zero_right ok] at hHu; exact absurd hHu (by decide)
  have hH0 : H ≠ 0 := ne_zero_of_mul_eq_one ok H u hu hHu
  have hv : gmul F.prim Y u < F.size := gmul_lt ok _ _
  have hv0 : gmul F.prim Y u ≠ 0 := gmul_ne_zero ok _ _ hY hu hY0 hu0
  have hzz0 : zz ≠ 0 := by
    intro h; rw [h, gmul_zero_right ok] at hvz; exact absurd hvz (by decide)
  have hz : gmul F.prim Y (gpow F.prim Y (k + 1)) < F.size := gmul_lt ok _ _
  have hz0 : gmul F.prim Y (gpow F.prim Y (k + 1)) ≠ 0 :=
    gmul_ne_zero ok _ _ hY (gpow_lt ok Y _) hY0 (gpow_ne_zero ok Y hY hY0 _)
  have hG : geoUp F.prim H Y (k + 2) = H :: geoUp F.prim (gmul F.prim H Y) Y (k + 1) := rfl
  have hdiv := euclidDiv_geo hF H Y u k hH hY hY0 hu hHu
  have hmul : multiply F [u, gmul F.prim Y u] [1] = .ok [u, gmul F.prim Y u] := by
    simp [multiply, mulRaw, isZero, hu0, F_mul hF u 1 hu h1, F_mul hF _ 1 hv h1, gmul_one_right ok u hu,
      gmul_one_right ok _ hv, addInto, mkPoly, normalize_of_head_ne_zero _ _ hu0, bind, Except.bind, pure,
      Except.pure]
  have hadd : addOrSubtract [u, gmul F.prim Y u] [0] = .ok [u, gmul F.prim Y u] := by
    simp [addOrSubtract, isZero, hu0]
  have hsig : multiplyBy F [u, gmul F.prim Y u] zz = .ok [gmul F.prim zz u, 1] := by
    rw [multiplyBy_ok hF u _ (InR.cons hu (InR.cons hv InR.nil)) zz hzz
      (gmul_ne_zero ok _ _ hzz hu hzz0 hu0)]
    simp only [List.map_cons, List.map_nil]
    rw [gmul_comm ok zz _ hzz hv, hvz]
  have hom : multiplyBy F [gmul F.prim Y (gpow F.prim Y (k + 1))] zz =
      .ok [gmul F.prim zz (gmul F.prim Y (gpow F.prim Y (k + 1)))] := by
    rw [multiplyBy_ok hF _ _ (InR.cons hz InR.nil) zz hzz (gmul_ne_zero ok _ _ hzz hz hzz0 hz0)]
    rfl
  unfold runEuclideanAlgorithm
  have hdeg : ¬ degree (1 :: List.replicate (k + 2) 0) < degree (geoUp F.prim H Y (k + 2)) := by
    simp [degree, geoUp_length]
  simp only [hdeg, if_false, geoUp_length]
  -- outer loop, first iteration
  show (euclidLoop F (k + 2) ((k + 2) + 1) _ _ [0] [1] >>= _) = _
  have hloop : euclidLoop F (k + 2) ((k + 2) + 1) (1 :: List.replicate (k + 2) 0) (geoUp F.prim H Y (k + 2)) [0] [1] =
      .ok ([u, gmul F.prim Y u], [gmul F.prim Y (gpow F.prim Y (k + 1))]) := by
    conv => lhs; unfold euclidLoop
    have hc1 : 2 * degree (geoUp F.prim H Y (k + 2)) ≥ k + 2 := by simp [degree, geoUp_length]; omega
    rw [if_pos hc1]
    have hnz : isZero (geoUp F.prim H Y (k + 2)) = false := by rw [hG]; exact isZero_false hH0
    have hlead : getCoefficient (geoUp F.prim H Y (k + 2)) (degree (geoUp F.prim H Y (k + 2))) = .ok H := by
      rw [hG]; exact getCoefficient_lead _ _
    have hlen : (1 :: List.replicate (k + 2) 0).length + 1 = k + 4 := by simp
    simp only [hnz, hlead, hinvH, hlen, hdiv, hmul, hadd, liftD, bind, Except.bind, pure, Except.pure,
      Bool.false_eq_true, if_false]
    have hc2 : ¬ degree [gmul F.prim Y (gpow F.prim Y (k + 1))] ≥ degree (geoUp F.prim H Y (k + 2)) := by
      simp [degree, geoUp_length]
    rw [if_neg hc2]
    show euclidLoop F (k + 2) ((k + 1) + 1) _ _ _ _ = _
    conv => lhs; unfold euclidLoop
    have hc3 : ¬ 2 * degree [gmul F.prim Y (gpow F.prim Y (k + 1))] ≥ k + 2 := by simp [degree]
    rw [if_neg hc3]
  rw [hloop]
  have hcoef : getCoefficient [u, gmul F.prim Y u] 0 = .ok (gmul F.prim Y u) := by simp [getCoefficient]
  simp only [bind, Except.bind, hcoef, liftD, hv0, if_false, hinvv, hsig, hom, pure, Except.pure]

theorem F_inv_one : F.inv 1 = .ok 1 := by
  obtain ⟨v, hv, hvlt, _, hmul⟩ := F_inv hF 1 (by decide) (one_lt_size hF.2)
  rw [gmul_one_left hF.2 v hvlt] at hmul
  rw [hv, hmul]

omit hF in
theorem findErrorLocations_single (x : Nat) : findErrorLocations F [x, 1] = .ok [x] := by
  simp [findErrorLocations, degree, getCoefficient, liftD, bind, Except.bind]

theorem findErrorMagnitudes_single (W X Y : Nat) (hW : W < F.size) (hY : Y < F.size)
    (hinv : F.inv X = .ok Y) :
    findErrorMagnitudes F [W] [X] = .ok [if F.base ≠ 0 then gmul F.prim W Y else W] := by
  have ok := hF.2
  have hev : evaluateAt F [W] Y = .ok W := by
    rw [evaluateAt_ok hF [W] (by simp) (InR.cons hW InR.nil) Y hY]
    congr 1
    show evalFrom F.prim Y 0 [W] = W
    rw [evalFrom_cons, gmul_zero_right ok, Nat.zero_xor]; rfl
  unfold findErrorMagnitudes magLoop errorMagnitude
  simp only [hinv, magDenominator, bind, Except.bind, F_inv_one hF, hev, F_mul hF W 1 hW (one_lt_size ok),
    gmul_one_right ok W hW, ne_eq, not_true_eq_false, if_false, magLoop]
  by_cases hb : F.base = 0
  · simp [hb]
  · simp [hb, F_mul hF W Y hW hY]

theorem applyCorrections_single (X m p : Nat) (w : List Nat) (hlog : F.logOf X = .ok p) (hp : p < w.length)
    (v : Nat) (hv : w[w.length - 1 - p]? = some v) :
    applyCorrections F [X] [m] w = .ok (w.set (w.length - 1 - p) (v ^^^ m)) := by
  unfold applyCorrections
  have : ¬ w.length < p + 1 := by omega
  simp only [hlog, liftD, bind, Except.bind, this, if_false, hv, pure, Except.pure]
  rfl

/-- one corrupted symbol is corrected (with the failure-reason decoder) -/
theorem decodeD_single (hb : F.base ≤ 1) (c : List Nat) (r j e : Nat) (hr : 2 ≤ r)
    (hrb : r + F.base ≤ F.size) (hn : c.length ≤ F.size - 1) (hc : InR F.size c)
    (hz : ∀ i, i < r → evalH F.prim (pw F.prim F.size (i + F.base)) c = 0)
    (hj : j < c.length) (he0 : e ≠ 0) (he : e < F.size) :
    decodeD F (c.set j (c[j] ^^^ e)) r = .ok c := by
  have ok := hF.2
  obtain ⟨k, rfl⟩ : ∃ k, r = k + 2 := ⟨r - 2, by omega⟩
  have hN : 0 < F.size - 1 := by have := ok.2.1; omega
  -- locator X = α^p and its inverse Y
  obtain ⟨p, hp⟩ : ∃ p, p = c.length - 1 - j := ⟨_, rfl⟩
  have hpN : p < F.size - 1 := by omega
  have hX : pw F.prim F.size p < F.size := pw_lt ok p
  have hY : pw F.prim F.size (F.size - 1 - p) < F.size := pw_lt ok _
  have hY0 := pw_ne_zero ok (F.size - 1 - p)
  have hXY : gmul F.prim (pw F.prim F.size p) (pw F.prim F.size (F.size - 1 - p)) = 1 := by
    rw [gmul_pw_pw ok]
    have : p + (F.size - 1 - p) = F.size - 1 := by omega
    rw [this, pw_order ok]
  -- the corrupted word
  have hwne : c.set j (c[j] ^^^ e) ≠ [] := by
    intro h; have := congrArg List.length h; rw [List.length_set, List.length_nil] at this; omega
  have hwin : InR F.size (c.set j (c[j] ^^^ e)) := by
    intro y hy
    rcases List.mem_or_eq_of_mem_set hy with h | h
    · exact hc y h
    · rw [h]; exact xor_lt_size ok _ _ (hc _ (List.getElem_mem hj)) he
  -- syndromes S_i = α^((i+b)p) · e
  obtain ⟨synd, hsynd⟩ : ∃ synd : Nat → Nat, synd = fun i => gmul F.prim (pw F.prim F.size ((i + F.base) * p)) e :=
    ⟨_, rfl⟩
  have hsynd_lt : ∀ i, synd i < F.size := fun i => by rw [hsynd]; exact gmul_lt ok _ _
  have hsynd0 : ∀ i, synd i ≠ 0 := fun i => by
    rw [hsynd]; exact gmul_ne_zero ok _ _ (pw_lt ok _) he (pw_ne_zero ok _) he0
  have hS : ∀ i, i < k + 2 →
      evalH F.prim (pw F.prim F.size (i + F.base)) (normalize (c.set j (c[j] ^^^ e))) = synd i := by
    intro i hi
    rw [evalH_normalize ok, evalH_set ok _ (pw_lt ok _) e he c j hj hc, hz i hi, Nat.zero_xor, ← hp,
      gpow_pw ok, hsynd]
  have hstep : ∀ i, gmul F.prim (synd (i + 1)) (pw F.prim F.size (F.size - 1 - p)) = synd i := by
    intro i
    rw [hsynd]
    simp only
    have e1 : (i + 1 + F.base) * p = (i + F.base) * p + p := by
      rw [show i + 1 + F.base = (i + F.base) + 1 by omega, Nat.add_mul, Nat.one_mul]
    rw [e1, ← gmul_pw_pw ok, gmul_comm ok _ e (gmul_lt ok _ _) he,
      ← gmul_assoc ok e _ _ he (pw_lt ok _) (pw_lt ok _),
      gmul_assoc ok _ _ _ (gmul_lt ok _ _) hX hY, hXY, gmul_one_right ok _ (gmul_lt ok _ _),
      gmul_comm ok e _ he (pw_lt ok _)]
  have hrev : ∀ m, ((List.range' 0 (m + 1)).map synd).reverse =
      geoUp F.prim (synd m) (pw F.prim F.size (F.size - 1 - p)) (m + 1) := by
    intro m
    induction m with
    | zero => rfl
    | succ m ih =>
      rw [List.range'_1_concat, List.map_append, List.reverse_append, ih]
      show synd (0 + (m + 1)) :: _ = synd (m + 1) :: geoUp F.prim (gmul F.prim (synd (m + 1)) _) _ (m + 1)
      rw [hstep m, Nat.zero_add]
      rfl
  have hlast : ∀ m, synd 0 = gmul F.prim (synd m) (gpow F.prim (pw F.prim F.size (F.size - 1 - p)) m) := by
    intro m
    induction m with
    | zero => rw [show gpow F.prim _ 0 = 1 from rfl, gmul_one_right ok _ (hsynd_lt 0)]
    | succ m ih =>
      show _ = gmul F.prim _ (gmul F.prim (gpow F.prim _ m) _)
      rw [gmul_comm ok (gpow F.prim _ m) _ (gpow_lt ok _ m) hY,
        ← gmul_assoc ok _ _ _ (hsynd_lt _) hY (gpow_lt ok _ m), hstep m, ih]
  -- inverses used by Euclid
  obtain ⟨u, hinvH, hu, _, hHu⟩ := F_inv hF (synd (k + 1)) (hsynd0 _) (hsynd_lt _)
  have hu0 : u ≠ 0 := by
    intro h; rw [h, gmul_zero_right ok] at hHu; exact absurd hHu (by decide)
  have hv : gmul F.prim (pw F.prim F.size (F.size - 1 - p)) u < F.size := gmul_lt ok _ _
  have hv0 := gmul_ne_zero ok _ _ hY hu hY0 hu0
  obtain ⟨zz, hinvv, hzz, _, hvz⟩ := F_inv hF _ hv0 hv
  -- sigma's leading coefficient is X, omega is S_0
  have hsigX : gmul F.prim zz u = pw F.prim F.size p := by
    apply inv_unique ok _ _ (pw F.prim F.size (F.size - 1 - p)) (gmul_lt ok _ _) hX hY _ hXY
    rw [gmul_assoc ok zz u _ hzz hu hY, gmul_comm ok u _ hu hY, gmul_comm ok zz _ hzz hv, hvz]
  have hzzY : gmul F.prim zz (pw F.prim F.size (F.size - 1 - p)) = synd (k + 1) := by
    apply inv_unique ok _ _ u (gmul_lt ok _ _) (hsynd_lt _) hu _ hHu
    rw [gmul_assoc ok zz _ u hzz hY hu, gmul_comm ok zz _ hzz hv, hvz]
  have hom : gmul F.prim zz (gmul F.prim (pw F.prim F.size (F.size - 1 - p))
      (gpow F.prim (pw F.prim F.size (F.size - 1 - p)) (k + 1))) = synd 0 := by
    rw [← gmul_assoc ok zz _ _ hzz hY (gpow_lt ok _ _), hzzY, ← hlast (k + 1)]
  -- inverse of X
  obtain ⟨Y', hinvX, hY', _, hXY'⟩ := F_inv hF (pw F.prim F.size p) (pw_ne_zero ok p) hX
  have hYeq : Y' = pw F.prim F.size (F.size - 1 - p) := by
    apply inv_unique ok _ _ (pw F.prim F.size p) hY' hY hX
    · rw [gmul_comm ok Y' _ hY' hX]; exact hXY'
    · rw [gmul_comm ok _ _ hY hX]; exact hXY
  -- magnitude
  have hmag : (if F.base ≠ 0 then gmul F.prim (synd 0) Y' else synd 0) = e := by
    rw [hsynd]
    simp only
    by_cases hb0 : F.base = 0
    · simp only [hb0, ne_eq, not_true_eq_false, if_false, Nat.add_zero, Nat.zero_mul]
      show gmul F.prim 1 e = e
      exact gmul_one_left ok e he
    · have hb1 : F.base = 1 := by omega
      simp only [hb1, ne_eq, Nat.succ_ne_zero, not_false_eq_true, if_true, Nat.zero_add, Nat.one_mul]
      rw [hYeq, gmul_comm ok _ e hX he, gmul_assoc ok e _ _ he hX hY, hXY, gmul_one_right ok e he]
  -- run the decoder
  unfold decodeD
  rw [mkPoly_ok _ hwne]
  simp only [liftD, bind, Except.bind]
  rw [syndromes_spec hF _ (normalize_ne_nil _) (InR_normalize (size_pos hF) _ hwin) (k + 2) 0 (by omega)]
  have hmapS : (List.range' 0 (k + 2)).map
      (fun i => evalH F.prim (pw F.prim F.size (i + F.base)) (normalize (c.set j (c[j] ^^^ e)))) =
      (List.range' 0 (k + 2)).map synd := by
    apply List.map_congr_left
    intro i hi
    exact hS i (by have := List.mem_range'_1.1 hi; omega)
  simp only [hmapS]
  have hnotall : ((List.range' 0 (k + 2)).map synd).all (· == 0) = false := by
    rw [show k + 2 = (k + 1) + 1 by rfl, List.range'_succ, List.map_cons, List.all_cons]
    simp [hsynd0 0]
  rw [hnotall]
  simp only [Bool.false_eq_true, if_false]
  rw [hrev (k + 1)]
  have hGne : geoUp F.prim (synd (k + 1)) (pw F.prim F.size (F.size - 1 - p)) (k + 1 + 1) ≠ [] := by
    simp [geoUp]
  rw [mkPoly_ok _ hGne]
  have hGnorm : normalize (geoUp F.prim (synd (k + 1)) (pw F.prim F.size (F.size - 1 - p)) (k + 1 + 1)) =
      geoUp F.prim (synd (k + 1)) (pw F.prim F.size (F.size - 1 - p)) (k + 2) :=
    normalize_of_head_ne_zero _ _ (hsynd0 _)
  rw [hGnorm, buildMonomial_ok (k + 2) 1 (by decide)]
  simp only
  rw [runEuclid_geo hF _ _ u zz k (hsynd_lt _) hY hY0 hu hinvH hHu hzz hinvv hvz]
  simp only
  rw [hsigX, hom, findErrorLocations_single]
  simp only
  rw [findErrorMagnitudes_single hF (synd 0) _ Y' (hsynd_lt 0) hY' hinvX, hmag]
  simp only
  have hlog := F_log_pw hF p hpN
  have hlen : (c.set j (c[j] ^^^ e)).length = c.length := List.length_set
  have hpos : (c.set j (c[j] ^^^ e)).length - 1 - p = j := by rw [hlen, hp]; omega
  rw [applyCorrections_single hF _ e p _ hlog (by rw [hlen]; omega) (c[j] ^^^ e)
    (by rw [hpos]; exact List.getElem?_set_self hj)]
  rw [hpos, List.set_set]
  congr 1
  have : c[j] ^^^ e ^^^ e = c[j] := by rw [Nat.xor_assoc, Nat.xor_self, Nat.xor_zero]
  rw [this, List.set_getElem_self]

end F
end Gzx.Proofs.SingleError
