/-
  The Euclidean algorithm solves the key equation: for at most ⌊R/2⌋ errors the pair returned by the model's
  `runEuclideanAlgorithm` is (Λ, Ω), coefficient by coefficient.
  Helper lemmas for Properties/C04.lean.  Core Lean only.
-/
import Gzx.Proofs.Locator
import Gzx.Proofs.Roots
namespace Gzx.Proofs.Sugiyama
open Gzx Gzx.GF Gzx.RS Gzx.Ref.GF Gzx.Proofs.GF Gzx.Proofs.Poly Gzx.Proofs.Conv Gzx.Proofs.Coef
  Gzx.Proofs.MinDist Gzx.Proofs.SingleError Gzx.Proofs.KeyEq Gzx.Proofs.Locator Gzx.Proofs.Roots
  Gzx.Proofs.Euclid Gzx.Proofs.Total

theorem getCoefficient_eq_coef : ∀ (p : List Nat) (d : Nat), d < p.length → getCoefficient p d = .ok (coef p d)
  | [], d, h => by simp at h
  | c :: cs, d, h => by
    unfold getCoefficient
    have h1 : ¬ d + 1 > (c :: cs).length := by omega
    rw [if_neg h1]
    simp only [List.length_cons] at h
    by_cases hd : d = cs.length
    · subst hd
      simp [coef]
    · have hlt : d < cs.length := by omega
      have ih := getCoefficient_eq_coef cs d hlt
      unfold getCoefficient at ih
      have h2 : ¬ d + 1 > cs.length := by omega
      rw [if_neg h2] at ih
      have e : (c :: cs).length - 1 - d = (cs.length - 1 - d) + 1 := by simp only [List.length_cons]; omega
      rw [e, List.getElem?_cons_succ]
      simp only [coef, hd, if_false]
      exact ih

section field
variable {prim size : Nat} (ok : ParamsOK prim size)
include ok

/-- polynomials with the same coefficient sequence have the same values -/
theorem evalH_congr_coef (a : Nat) (ha : a < size) (p q : List Nat) (hp : InR size p) (hq : InR size q)
    (h : ∀ m, coef p m = coef q m) : evalH prim a p = evalH prim a q := by
  rw [evalH_eq_xsum_ge ok a ha p hp (max p.length q.length) (Nat.le_max_left _ _),
    evalH_eq_xsum_ge ok a ha q hq (max p.length q.length) (Nat.le_max_right _ _)]
  exact xsum_congr (fun m _ => by rw [h m])

theorem gpow_zero_succ (k : Nat) : gpow prim 0 (k + 1) = 0 := gmul_zero_right ok _

/-- value at 0 = constant coefficient -/
theorem evalH_at_zero (p : List Nat) (hp : InR size p) (hne : p ≠ []) : evalH prim 0 p = coef p 0 := by
  have hs := zero_lt_size ok
  rw [evalH_eq_xsum ok 0 hs p hp]
  have hl : 0 < p.length := List.length_pos_iff.2 hne
  rw [xsum_single 0 hl (fun j _ hne => by
    obtain ⟨k, rfl⟩ : ∃ k, j = k + 1 := ⟨j - 1, by omega⟩
    rw [gpow_zero_succ ok, gmul_zero_left ok _ (coef_lt hs p hp _)])]
  exact gmul_one_left ok _ (coef_lt hs p hp 0)

end field

section F
variable {F : GF} (hF : FieldOK F)
include hF

/-- inverse locators are distinct and non-zero -/
theorem inv_nodup (L : List (Nat × Nat)) (ai : Nat → Nat) (hE : ErrSet F.prim F.size L ai) :
    (0 :: L.map (fun p => ai p.2)).Nodup ∧ ∀ b, b ∈ (0 :: L.map (fun p => ai p.2)) → b < F.size := by
  have ok := hF.2
  constructor
  · rw [List.nodup_cons]
    constructor
    · intro h
      obtain ⟨p, hp, h0⟩ := List.mem_map.1 h
      have := (hE.inv p hp).2
      rw [h0, gmul_zero_right ok] at this
      exact absurd this (by decide)
    · rw [List.nodup_iff_pairwise_ne, List.pairwise_map]
      apply hE.distinct.imp_of_mem
      intro p q hp hq hne heq
      apply hne
      -- equal inverses ⇒ equal locators
      have h1 := hE.inv p hp
      have h2 := hE.inv q hq
      rw [← heq] at h2
      exact inv_unique ok p.2 q.2 (ai p.2) (hE.inr p hp).2 (hE.inr q hq).2 h1.1 h1.2 h2.2
  · intro b hb
    rcases List.mem_cons.1 hb with rfl | hb
    · exact size_pos hF
    · obtain ⟨p, hp, rfl⟩ := List.mem_map.1 hb
      exact (hE.inv p hp).1

/-- **Euclid solves the key equation.**  For `1 ≤ |L|`, `2|L| ≤ R` and the syndrome polynomial `Spoly` of the
    error pattern `L`, the model's `runEuclideanAlgorithm(x^R, S, R)` succeeds and returns the true locator and
    evaluator, coefficient by coefficient. -/
theorem euclid_output (L : List (Nat × Nat)) (ai : Nat → Nat) (hE : ErrSet F.prim F.size L ai) (R : Nat)
    (hs1 : 1 ≤ L.length) (hs2 : 2 * L.length ≤ R)
    (Spoly : List Nat) (hSwf : WF F.size Spoly) (hSlen : Spoly.length ≤ R)
    (hScoef : ∀ m, coef Spoly m = Sfun F.prim L R m) :
    ∃ sigma omega, runEuclideanAlgorithm F (1 :: List.replicate R 0) Spoly R = .ok (sigma, omega) ∧
      WF F.size sigma ∧ WF F.size omega ∧ sigma.length = L.length + 1 ∧
      (∀ m, coef sigma m = coef (lamList F.prim L) m) ∧ (∀ m, coef omega m = coef (omList F.prim L) m) := by
  have ok := hF.2
  have hsz := size_pos hF
  have h1lt := one_lt_size ok
  have hR : 1 ≤ R := by omega
  have hSf : ∀ j, Sfun F.prim L R j < F.size := fun j => by
    unfold Sfun; split; exact psum_lt ok _ _; exact hsz
  have hSl : 0 < Spoly.length := List.length_pos_iff.2 hSwf.2.ne_nil
  -- initial invariant
  have hmono : WF F.size (1 :: List.replicate R 0) :=
    ⟨InR.cons h1lt (InR.replicate hsz), Or.inr ⟨1, _, rfl, by decide⟩⟩
  have hI0 : Inv F R (Sfun F.prim L R) (1 :: List.replicate R 0) Spoly [0] [1] := by
    refine ⟨hmono, hSwf, wf_zero hsz, ⟨InR.cons h1lt InR.nil, Or.inr ⟨1, [], rfl, by decide⟩⟩, ?_, ?_, ?_, ?_,
      Or.inl rfl, ?_, by decide⟩
    · intro m hm
      rw [conv_zero_left hF _ hSf m]
      have : ¬ m = (List.replicate R 0).length := by simp; omega
      simp only [coef, this, if_false, coef_replicate_zero]
    · intro m _
      rw [conv_one_left hF _ hSf m, hScoef m]
    · simp [degree]
    · simp only [degree, List.length_cons, List.length_replicate]; omega
    · simp only [degree, List.length_cons, List.length_replicate]; omega
  obtain ⟨rLast, r, tLast, t, hloop, hI, hstop⟩ :=
    euclidLoop_inv hF R hR (Sfun F.prim L R) hSf (Spoly.length + 1) _ _ _ _ hI0 (Nat.le_refl _)
  -- basic shape facts
  have htl : 0 < t.length := List.length_pos_iff.2 hI.wf4.2.ne_nil
  have hrl : 0 < r.length := List.length_pos_iff.2 hI.wf2.2.ne_nil
  have hrLl : 0 < rLast.length := List.length_pos_iff.2 hI.wf1.2.ne_nil
  have htLl : 0 < tLast.length := List.length_pos_iff.2 hI.wf3.2.ne_nil
  have hd1 := hI.d1
  have hd2 := hI.d2
  have hd4 := hI.d4
  unfold degree at hd1 hd2 hd4 hstop
  obtain ⟨th, tt, rfl, hth⟩ := wf_cons_of_ne_zero hI.wf4 hI.d5
  -- (ii) t vanishes at the inverse locators
  have hroots : ∀ p, p ∈ L → evalH F.prim (ai p.2) (th :: tt) = 0 :=
    roots_of_key ok (th :: tt) r hI.wf4.1 L ai hE R (R - L.length) hI.c2
      (by simp only [List.length_cons] at hd1 ⊢; omega) (by omega) (by omega)
  -- (iii) deg t ≥ |L|
  obtain ⟨hnd, hblt⟩ := inv_nodup hF L ai hE
  have hge : L.length < (th :: tt).length := by
    apply Classical.byContradiction
    intro hcon
    have hz := zero_of_roots ok (L.map (fun p => ai p.2)) (th :: tt) hI.wf4.1 (List.nodup_cons.1 hnd).2
      (fun b hb => hblt b (List.mem_cons_of_mem _ hb))
      (fun b hb => by obtain ⟨p, hp, rfl⟩ := List.mem_map.1 hb; exact hroots p hp)
      (by rw [List.length_map]; omega)
    exact hth (hz th (by simp))
  -- (i) deg t ≤ |L|
  have hle : (th :: tt).length ≤ L.length + 1 := by
    apply Classical.byContradiction
    intro hcon
    simp only [List.length_cons] at hcon hd1 hge
    have hrLne : rLast ≠ [0] := fun h => by rw [h] at hd2; simp at hd2
    obtain ⟨qh, qt, rfl, hqh⟩ := wf_cons_of_ne_zero hI.wf1 hrLne
    simp only [List.length_cons, Nat.add_sub_cancel] at hd1 hd2 hd4
    have htLlen : tLast.length ≤ qt.length + 1 := by
      rcases hI.d3 with h | h
      · rw [h]; simp
      · unfold degree at h; simp only [List.length_cons, Nat.add_sub_cancel] at h; omega
    exact degree_bound ok tLast hI.wf3.1 qh qt hqh L ai hE R hI.c1 htLlen (by omega) (by omega)
  have htlen : (th :: tt).length = L.length + 1 := by omega
  -- (iv) t = c · Λ
  have hLin := hE.inr
  have hc : coef (th :: tt) 0 < F.size := coef_lt hsz _ hI.wf4.1 0
  have hdiff : ∀ x, x ∈ List.zipWith (· ^^^ ·) (th :: tt) ((lamList F.prim L).map (gmul F.prim (coef (th :: tt) 0))) →
      x = 0 := by
    have hlen2 : (th :: tt).length = ((lamList F.prim L).map (gmul F.prim (coef (th :: tt) 0))).length := by
      rw [List.length_map, lamList_length, htlen]
    have hev : ∀ b, b < F.size → evalH F.prim b (List.zipWith (· ^^^ ·) (th :: tt)
        ((lamList F.prim L).map (gmul F.prim (coef (th :: tt) 0)))) =
        evalH F.prim b (th :: tt) ^^^ gmul F.prim (coef (th :: tt) 0) (lamVal F.prim L b) := by
      intro b hb
      have := evalFrom_xor ok b (th :: tt) ((lamList F.prim L).map (gmul F.prim (coef (th :: tt) 0))) 0 0 hlen2
        hsz hsz hI.wf4.1 (InR_map_gmul ok _ _)
      rw [Nat.xor_zero] at this
      show evalFrom F.prim b 0 _ = _
      rw [this]
      show evalH F.prim b _ ^^^ evalH F.prim b _ = _
      rw [evalH_scale ok b _ hb hc _ (lamList_inR ok L), evalH_lamList ok b hb L hLin]
    apply zero_of_roots ok (0 :: L.map (fun p => ai p.2)) _
      (InR_zipWith_xor ok _ _ hI.wf4.1 (InR_map_gmul ok _ _)) hnd hblt
    · intro b hb
      rw [hev b (hblt b hb)]
      rcases List.mem_cons.1 hb with rfl | hb
      · rw [evalH_at_zero ok _ hI.wf4.1 (by simp), lamVal_zero ok L hLin, gmul_one_right ok _ hc, Nat.xor_self]
      · obtain ⟨p, hp, rfl⟩ := List.mem_map.1 hb
        rw [hroots p hp, (lamVal_eq_zero_iff ok _ (hE.inv p hp).1 L hLin).2 ⟨p, hp, (hE.inv p hp).2⟩,
          gmul_zero_right ok]
        rfl
    · simp only [List.length_zipWith, List.length_map, lamList_length, List.length_cons] at htlen ⊢
      omega
  have hteq : (th :: tt) = (lamList F.prim L).map (gmul F.prim (coef (th :: tt) 0)) :=
    zipWith_xor_all_zero _ _ (by rw [List.length_map, lamList_length, htlen]) hdiff
  -- (v) c ≠ 0
  have hc0 : coef (th :: tt) 0 ≠ 0 := by
    intro h0
    have : th = 0 := by
      have hm : th ∈ (lamList F.prim L).map (gmul F.prim (coef (th :: tt) 0)) := by rw [← hteq]; simp
      obtain ⟨x, hx, hxe⟩ := List.mem_map.1 hm
      rw [← hxe, h0, gmul_zero_left ok x (lamList_inR ok L x hx)]
    exact hth this
  have htcoef : ∀ m, coef (th :: tt) m = gmul F.prim (coef (th :: tt) 0) (coef (lamList F.prim L) m) := by
    intro m
    conv => lhs; rw [hteq]
    exact coef_map_gmul ok _ _ m
  -- (vi) r = c · Ω
  have hrcoef : ∀ m, coef r m = gmul F.prim (coef (th :: tt) 0) (coef (omList F.prim L) m) := by
    intro m
    by_cases hm : m < R
    · rw [← hI.c2 m hm, conv_congr_left (fun i _ => htcoef i),
        conv_scale_left ok _ hc _ _ (coef_lt hsz _ (lamList_inR ok L)) hSf m, key_lambda ok R L hLin m hm]
    · rw [coef_ge r m (by omega), coef_ge _ m (by rw [omList_length]; omega), gmul_zero_right ok]
  -- run the rest of `runEuclideanAlgorithm`
  obtain ⟨z, hz, hzlt, _, hcz⟩ := F_inv hF _ hc0 hc
  obtain ⟨sigma, hsig, hsigwf, _⟩ := multiplyBy_spec hF _ hI.wf4 z hzlt
  obtain ⟨omega, hom, homwf, _⟩ := multiplyBy_spec hF r hI.wf2 z hzlt
  have hzc : ∀ x, x < F.size → gmul F.prim z (gmul F.prim (coef (th :: tt) 0) x) = x := by
    intro x hx
    rw [← gmul_assoc ok z _ x hzlt hc hx, gmul_comm ok z _ hzlt hc, hcz, gmul_one_left ok x hx]
  refine ⟨sigma, omega, ?_, hsigwf, homwf, ?_, ?_, ?_⟩
  · unfold runEuclideanAlgorithm
    have hdeg : ¬ degree (1 :: List.replicate R 0) < degree Spoly := by
      simp only [degree, List.length_cons, List.length_replicate]; omega
    simp only [hdeg, if_false, hloop, bind, Except.bind, liftD,
      getCoefficient_eq_coef (th :: tt) 0 (by simp), hc0, hz, hsig, hom, pure, Except.pure]
  · -- length of sigma: head of sigma is non-zero
    have hsc : ∀ m, coef sigma m = coef (lamList F.prim L) m := by
      intro m
      rw [multiplyBy_coef hF _ _ hI.wf4 z hzlt hsig m, htcoef m, hzc _ (coef_lt hsz _ (lamList_inR ok L) m)]
    -- σ is normal with coefficient L.length equal to the (non-zero) leading coefficient of t scaled
    have hlead : coef sigma L.length ≠ 0 := by
      rw [multiplyBy_coef hF _ _ hI.wf4 z hzlt hsig L.length]
      have : coef (th :: tt) L.length = th := by
        simp only [List.length_cons] at htlen
        have : L.length = tt.length := by omega
        rw [this, coef_head]
      rw [this]
      have hz0 : z ≠ 0 := by
        intro h; rw [h, gmul_zero_right ok] at hcz; exact absurd hcz (by decide)
      exact gmul_ne_zero ok _ _ hzlt hI.wf4.1.head hz0 hth
    have hzero : ∀ m, L.length < m → coef sigma m = 0 := by
      intro m hm
      rw [hsc m, coef_ge _ m (by rw [lamList_length]; omega)]
    -- a normal list: length = 1 + index of the leading coefficient
    rcases hsigwf.2 with h0 | ⟨c, rs, rfl, hcne⟩
    · rw [h0] at hlead
      exact absurd (coef_zero_poly hF L.length) hlead
    · have h1 : coef (c :: rs) rs.length = c := coef_head c rs
      have hle1 : ¬ L.length < rs.length := fun h => hcne (by rw [← h1]; exact hzero _ h)
      have hle2 : ¬ rs.length < L.length := fun h => hlead (coef_ge _ _ (by simp only [List.length_cons]; omega))
      simp only [List.length_cons]; omega
  · intro m
    rw [multiplyBy_coef hF _ _ hI.wf4 z hzlt hsig m, htcoef m, hzc _ (coef_lt hsz _ (lamList_inR ok L) m)]
  · intro m
    rw [multiplyBy_coef hF _ _ hI.wf2 z hzlt hom m, hrcoef m, hzc _ (coef_lt hsz _ (omList_inR ok L) m)]

end F
end Gzx.Proofs.Sugiyama
