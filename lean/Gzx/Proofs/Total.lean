/-
  Totality of the model decoder on in-range input: `Decode` never panics and never runs out of fuel;
  it returns a word of the same length over the field or a ReedSolomonException.
  Helper lemmas for Properties/C04.lean.  Core Lean only.
-/
import Gzx.Proofs.SingleError
namespace Gzx.Proofs.Total
open Gzx Gzx.GF Gzx.RS Gzx.Ref.GF Gzx.Proofs.GF Gzx.Proofs.Poly Gzx.Proofs.RS Gzx.Proofs.SingleError

/-- a failure that `Decode` reports as a `ReedSolomonException` (not a panic, not fuel exhaustion) -/
def Benign (e : DErr) : Prop := e.toFault = .checksum

section F
variable {F : GF} (hF : FieldOK F)
include hF

/-- inner division loop of Euclid: always succeeds within the fuel on well-formed operands -/
theorem euclidDivLoop_spec (lh : Nat) (lt : List Nat) (hl : WF F.size (lh :: lt)) (hlh : lh ≠ 0)
    (inv : Nat) (hinv : inv < F.size) (hmul : gmul F.prim lh inv = 1) :
    ∀ (fuel : Nat) (q r : List Nat), WF F.size q → WF F.size r →
      (if r = [0] then 1 else r.length + 1) ≤ fuel →
      ∃ q' r', euclidDivLoop F (lh :: lt) inv fuel q r = .ok (q', r') ∧ WF F.size q' ∧ WF F.size r' ∧
        (r'.length < (lh :: lt).length ∨ r' = [0])
  | 0, _, r, _, _, hfuel => by
    exfalso
    split at hfuel <;> omega
  | fuel + 1, q, r, hq, hr, hfuel => by
    have ok := hF.2
    by_cases hcond : (decide (degree r ≥ degree (lh :: lt)) && !isZero r) = true
    · simp only [Bool.and_eq_true, decide_eq_true_eq, Bool.not_eq_true'] at hcond
      obtain ⟨hdeg, hnz⟩ := hcond
      have hne0 : r ≠ [0] := fun h => by rw [h] at hnz; simp [isZero] at hnz
      obtain ⟨rh, rt, rfl, hrh⟩ : ∃ c t, r = c :: t ∧ c ≠ 0 := by
        rcases hr.2 with h | h
        · exact absurd h hne0
        · exact h
      simp only [degree, List.length_cons, Nat.add_sub_cancel] at hdeg
      rw [euclidDiv_step hF lh lt hl.1 inv hinv hmul q rh rt hr.1 hrh hdeg fuel]
      have hinv0 : inv ≠ 0 := by
        intro h; rw [h, gmul_zero_right ok] at hmul; exact absurd hmul (by decide)
      have hscale0 : gmul F.prim rh inv ≠ 0 := gmul_ne_zero ok _ _ hr.1.head hinv hrh hinv0
      have hmono : WF F.size (gmul F.prim rh inv :: List.replicate (rt.length - lt.length) 0) :=
        ⟨InR.cons (gmul_lt ok _ _) (InR.replicate (size_pos hF)), Or.inr ⟨_, _, rfl, hscale0⟩⟩
      obtain ⟨q', hq', hq'wf, _, _⟩ := addOrSubtract_spec hF q _ hq hmono
      rw [hq']
      simp only
      have hr'in : InR F.size (List.zipWith (· ^^^ ·) rt
          (lt.map (gmul F.prim (gmul F.prim rh inv)) ++ List.replicate (rt.length - lt.length) 0)) :=
        InR_zipWith_xor ok _ _ hr.1.tail (InR.append (InR_map_gmul ok _ _) (InR.replicate (size_pos hF)))
      have hr'wf := wf_normalize (size_pos hF) _ hr'in
      have hfuel' : (if normalize (List.zipWith (· ^^^ ·) rt
          (lt.map (gmul F.prim (gmul F.prim rh inv)) ++ List.replicate (rt.length - lt.length) 0)) = [0]
          then 1 else (normalize (List.zipWith (· ^^^ ·) rt
          (lt.map (gmul F.prim (gmul F.prim rh inv)) ++ List.replicate (rt.length - lt.length) 0))).length + 1) ≤ fuel := by
        rw [if_neg hne0] at hfuel
        simp only [List.length_cons] at hfuel
        split
        · omega
        · rename_i hr0
          have hlen := normalize_length_le' (List.zipWith (· ^^^ ·) rt
            (lt.map (gmul F.prim (gmul F.prim rh inv)) ++ List.replicate (rt.length - lt.length) 0))
          have hzl : (List.zipWith (· ^^^ ·) rt
            (lt.map (gmul F.prim (gmul F.prim rh inv)) ++ List.replicate (rt.length - lt.length) 0)).length = rt.length := by
            simp; omega
          rw [hzl] at hlen
          cases rt with
          | nil => exfalso; apply hr0; simp [normalize]
          | cons x xs => simp only [List.length_cons] at hlen hfuel ⊢; omega
      exact euclidDivLoop_spec lh lt hl hlh inv hinv hmul fuel q' _ hq'wf hr'wf hfuel'
    · have : euclidDivLoop F (lh :: lt) inv (fuel + 1) q r = .ok (q, r) := by
        conv => lhs; unfold euclidDivLoop
        rw [if_neg hcond]
      refine ⟨q, r, this, hq, hr, ?_⟩
      simp only [Bool.and_eq_true, decide_eq_true_eq, Bool.not_eq_true', not_and, Bool.not_eq_false] at hcond
      by_cases hdeg : degree r ≥ degree (lh :: lt)
      · right; exact (isZero_iff hr.2).1 (hcond hdeg)
      · left
        have := List.length_pos_iff.2 hr.2.ne_nil
        simp only [degree, List.length_cons, Nat.add_sub_cancel] at hdeg ⊢
        omega

/-- outer loop of Euclid: a well-formed pair or a ReedSolomonException -/
theorem euclidLoop_spec (R : Nat) : ∀ (fuel : Nat) (rLast r tLast t : List Nat),
    WF F.size rLast → WF F.size r → WF F.size tLast → WF F.size t → r.length + 1 ≤ fuel →
    (∃ t' r', euclidLoop F R fuel rLast r tLast t = .ok (t', r') ∧ WF F.size t' ∧ WF F.size r') ∨
    (∃ e, euclidLoop F R fuel rLast r tLast t = .error e ∧ Benign e)
  | 0, _, r, _, _, _, _, _, _, hfuel => by omega
  | fuel + 1, rLast, r, tLast, t, hrLast, hr, htLast, ht, hfuel => by
    have ok := hF.2
    conv => enter [1, 1, t', 1, r', 1, 1]; unfold euclidLoop
    conv => enter [2, 1, e, 1, 1]; unfold euclidLoop
    by_cases hcond : 2 * degree r ≥ R
    · simp only [if_pos hcond]
      by_cases hz : isZero r = true
      · right
        refine ⟨.rLastZero, ?_, rfl⟩
        simp [hz, bind, Except.bind, throw, throwThe, MonadExceptOf.throw]
      · have hz' : isZero r = false := by simpa using hz
        have hne0 : r ≠ [0] := fun h => by rw [h] at hz'; simp [isZero] at hz'
        obtain ⟨lh, lt, rfl, hlh⟩ : ∃ c t, r = c :: t ∧ c ≠ 0 := by
          rcases hr.2 with h | h
          · exact absurd h hne0
          · exact h
        obtain ⟨u, hinv, hu, _, hmul⟩ := F_inv hF lh hlh hr.1.head
        have hfuelD : (if rLast = [0] then 1 else rLast.length + 1) ≤ rLast.length + 1 := by
          split <;> omega
        obtain ⟨q, r', hdiv, hqwf, hr'wf, hr'len⟩ :=
          euclidDivLoop_spec hF lh lt hr hlh u hu hmul (rLast.length + 1) [0] rLast (wf_zero (size_pos hF)) hrLast hfuelD
        obtain ⟨qt, hqt, hqtwf, _, _⟩ := multiply_spec hF q t hqwf ht
        obtain ⟨t', ht', ht'wf, _, _⟩ := addOrSubtract_spec hF qt tLast hqtwf htLast
        simp only [hz', getCoefficient_lead, hinv, hdiv, hqt, ht', liftD, bind, Except.bind, pure, Except.pure,
          Bool.false_eq_true, if_false]
        by_cases hdeg : degree r' ≥ degree (lh :: lt)
        · right
          refine ⟨.illegalState, ?_, rfl⟩
          simp [hdeg, throw, throwThe, MonadExceptOf.throw]
        · simp only [hdeg, if_false]
          have hr'l : r'.length + 1 ≤ fuel := by
            have := List.length_pos_iff.2 hr'wf.2.ne_nil
            simp only [degree, List.length_cons, Nat.add_sub_cancel] at hdeg hfuel
            omega
          exact euclidLoop_spec R fuel (lh :: lt) r' t t' hr hr'wf ht ht'wf hr'l
    · left
      simp only [if_neg hcond]
      exact ⟨t, r, rfl, ht, hr⟩

omit hF in
theorem getCoefficient_zero (p : List Nat) (hp : p ≠ []) : ∃ v, getCoefficient p 0 = .ok v ∧ v ∈ p := by
  unfold getCoefficient
  have hl : 0 < p.length := List.length_pos_iff.2 hp
  have : ¬ 0 + 1 > p.length := by omega
  rw [if_neg this]
  have e : p.length - 1 - 0 = p.length - 1 := by omega
  rw [e, ← List.getLast?_eq_getElem?, List.getLast?_eq_some_getLast hp]
  exact ⟨_, rfl, List.getLast_mem hp⟩

/-- `runEuclideanAlgorithm`: well-formed (sigma, omega) or a ReedSolomonException -/
theorem runEuclid_spec (a b : List Nat) (ha : WF F.size a) (hb : WF F.size b) (R : Nat) :
    (∃ sigma omega, runEuclideanAlgorithm F a b R = .ok (sigma, omega) ∧ WF F.size sigma ∧ WF F.size omega) ∨
    (∃ e, runEuclideanAlgorithm F a b R = .error e ∧ Benign e) := by
  have ok := hF.2
  -- after the swap
  obtain ⟨a', b', hab, ha', hb'⟩ : ∃ a' b', (if degree a < degree b then (b, a) else (a, b)) = (a', b') ∧
      WF F.size a' ∧ WF F.size b' := by
    by_cases h : degree a < degree b
    · exact ⟨b, a, by rw [if_pos h], hb, ha⟩
    · exact ⟨a, b, by rw [if_neg h], ha, hb⟩
  unfold runEuclideanAlgorithm
  simp only [hab]
  rcases euclidLoop_spec hF R (b'.length + 1) a' b' [0] [1] ha' hb' (wf_zero (size_pos hF))
    ⟨InR.cons (one_lt_size ok) InR.nil, Or.inr ⟨1, [], rfl, by decide⟩⟩ (Nat.le_refl _) with
    ⟨t, r, hloop, htwf, hrwf⟩ | ⟨e, hloop, he⟩
  · obtain ⟨v, hv, hvmem⟩ := getCoefficient_zero t htwf.2.ne_nil
    simp only [hloop, hv, liftD, bind, Except.bind]
    by_cases hv0 : v = 0
    · right
      refine ⟨.sigmaZero, ?_, rfl⟩
      simp [hv0, throw, throwThe, MonadExceptOf.throw]
    · obtain ⟨z, hz, hzlt, _, _⟩ := F_inv hF v hv0 (htwf.1 v hvmem)
      obtain ⟨sigma, hsig, hsigwf, _⟩ := multiplyBy_spec hF t htwf z hzlt
      obtain ⟨omega, hom, homwf, _⟩ := multiplyBy_spec hF r hrwf z hzlt
      left
      refine ⟨sigma, omega, ?_, hsigwf, homwf⟩
      simp [hv0, hz, hsig, hom, pure, Except.pure]
  · right
    refine ⟨e, ?_, he⟩
    simp only [hloop, bind, Except.bind]

/-- non-zero field elements -/
def NZ (size : Nat) (l : List Nat) : Prop := ∀ x, x ∈ l → x ≠ 0 ∧ x < size

theorem chien_spec (sigma : List Nat) (hs : WF F.size sigma) (n : Nat) : ∀ (cands acc : List Nat),
    NZ F.size cands → NZ F.size acc → ∃ res, chien F sigma n cands acc = .ok res ∧ NZ F.size res
  | [], acc, _, hacc => ⟨acc, rfl, hacc⟩
  | i :: is, acc, hc, hacc => by
    unfold chien
    by_cases hlen : acc.length ≥ n
    · rw [if_pos hlen]; exact ⟨acc, rfl, hacc⟩
    · rw [if_neg hlen]
      have hi := hc i (by simp)
      have hc' : NZ F.size is := fun x hx => hc x (List.mem_cons_of_mem _ hx)
      rw [evaluateAt_ok hF sigma hs.2.ne_nil hs.1 i hi.2]
      simp only [bind, Except.bind]
      by_cases hv : evalH F.prim i sigma = 0
      · rw [if_pos hv]
        obtain ⟨x, hx, hxlt, hx0, _⟩ := F_inv hF i hi.1 hi.2
        simp only [hx]
        apply chien_spec sigma hs n is _ hc'
        intro y hy
        rcases List.mem_append.1 hy with h | h
        · exact hacc y h
        · simp at h; rw [h]; exact ⟨hx0, hxlt⟩
      · rw [if_neg hv]
        exact chien_spec sigma hs n is acc hc' hacc

theorem findErrorLocations_spec (sigma : List Nat) (hs : WF F.size sigma) :
    (∃ locs, findErrorLocations F sigma = .ok locs ∧ NZ F.size locs) ∨
    (∃ e, findErrorLocations F sigma = .error e ∧ Benign e) := by
  unfold findErrorLocations
  by_cases h1 : degree sigma = 1
  · left
    -- sigma = [c, d] with c ≠ 0
    have hlen : sigma.length = 2 := by
      have := List.length_pos_iff.2 hs.2.ne_nil
      unfold degree at h1; omega
    rcases hs.2 with h | ⟨c, r, rfl, hc⟩
    · rw [h] at hlen; simp at hlen
    · have hr : r.length = 1 := by simpa using hlen
      have : getCoefficient (c :: r) 1 = .ok c := by
        simp [getCoefficient, hr]
      simp only [h1, if_true, this, liftD, bind, Except.bind]
      refine ⟨[c], rfl, ?_⟩
      intro x hx
      simp at hx
      rw [hx]
      exact ⟨hc, hs.1.head⟩
  · simp only [h1, if_false]
    have hcands : NZ F.size (List.range' 1 (F.size - 1)) := by
      intro x hx
      have := List.mem_range'_1.1 hx
      constructor <;> omega
    obtain ⟨res, hres, hnz⟩ := chien_spec hF sigma hs (degree sigma) _ [] hcands (fun x hx => by simp at hx)
    simp only [hres, liftD, bind, Except.bind]
    by_cases hl : res.length ≠ degree sigma
    · right
      refine ⟨.rootCount, ?_, rfl⟩
      simp [hl, throw, throwThe, MonadExceptOf.throw]
    · left
      refine ⟨res, ?_, hnz⟩
      simp [hl, pure, Except.pure]

theorem termPlus1_lt (term : Nat) (ht : term < F.size) :
    (if term &&& 1 = 0 then term ||| 1 else term - 1) < F.size := by
  have ok := hF.2
  split
  · have h1 := (lt_size_iff ok term).1 ht
    have h2 := (lt_size_iff ok 1).1 (one_lt_size ok)
    exact (lt_size_iff ok _).2 (Nat.or_lt_two_pow h1 h2)
  · omega

theorem magDenominator_spec (xiInverse i : Nat) (hxi : xiInverse < F.size) : ∀ (locs : List Nat) (j den : Nat),
    InR F.size locs → den < F.size →
    ∃ d, magDenominator F xiInverse i locs j den = .ok d ∧ d < F.size
  | [], _, den, _, hd => ⟨den, rfl, hd⟩
  | xj :: rest, j, den, hl, hd => by
    have ok := hF.2
    unfold magDenominator
    by_cases hij : i ≠ j
    · rw [if_pos hij, F_mul hF xj xiInverse hl.head hxi]
      simp only [bind, Except.bind]
      rw [F_mul hF den _ hd (termPlus1_lt hF _ (gmul_lt ok _ _))]
      simp only
      exact magDenominator_spec xiInverse i hxi rest (j + 1) _ hl.tail (gmul_lt ok _ _)
    · rw [if_neg hij]
      exact magDenominator_spec xiInverse i hxi rest (j + 1) den hl.tail hd

theorem errorMagnitude_spec (omega : List Nat) (ho : WF F.size omega) (locs : List Nat) (hl : InR F.size locs)
    (i xi : Nat) (hxi0 : xi ≠ 0) (hxi : xi < F.size) :
    (∃ m, errorMagnitude F omega locs i xi = .ok m ∧ m < F.size) ∨
    errorMagnitude F omega locs i xi = .error .illegalArg := by
  have ok := hF.2
  obtain ⟨y, hy, hylt, _, _⟩ := F_inv hF xi hxi0 hxi
  obtain ⟨d, hd, hdlt⟩ := magDenominator_spec hF y i hylt locs 0 1 hl (one_lt_size ok)
  unfold errorMagnitude
  simp only [hy, hd, bind, Except.bind]
  by_cases hd0 : d = 0
  · right
    subst hd0
    rfl
  · left
    obtain ⟨z, hz, hzlt, _, _⟩ := F_inv hF d hd0 hdlt
    have hev := evaluateAt_ok hF omega ho.2.ne_nil ho.1 y hylt
    have hevlt := evalH_lt ok y omega ho.1
    simp only [hz, hev, F_mul hF _ z hevlt hzlt]
    by_cases hb : F.base ≠ 0
    · rw [if_pos hb, F_mul hF _ y (gmul_lt ok _ _) hylt]
      exact ⟨_, rfl, gmul_lt ok _ _⟩
    · rw [if_neg hb]
      exact ⟨_, rfl, gmul_lt ok _ _⟩

theorem magLoop_spec (omega : List Nat) (ho : WF F.size omega) (locs : List Nat) (hl : InR F.size locs) :
    ∀ (rest : List Nat) (i : Nat), NZ F.size rest →
    (∃ ms, magLoop F omega locs rest i = .ok ms ∧ InR F.size ms ∧ ms.length = rest.length) ∨
    magLoop F omega locs rest i = .error .illegalArg
  | [], _, _ => Or.inl ⟨[], rfl, InR.nil, rfl⟩
  | xi :: rest, i, hr => by
    have hxi := hr xi (by simp)
    unfold magLoop
    rcases errorMagnitude_spec hF omega ho locs hl i xi hxi.1 hxi.2 with ⟨m, hm, hmlt⟩ | he
    · rcases magLoop_spec omega ho locs hl rest (i + 1) (fun x hx => hr x (List.mem_cons_of_mem _ hx)) with
        ⟨ms, hms, hmsin, hmslen⟩ | he
      · left
        refine ⟨m :: ms, ?_, InR.cons hmlt hmsin, by simp [hmslen]⟩
        simp only [hm, hms, bind, Except.bind]
      · right
        simp only [hm, he, bind, Except.bind]
    · right
      simp only [he, bind, Except.bind]

theorem applyCorrections_spec : ∀ (locs ms w : List Nat), NZ F.size locs → InR F.size ms →
    ms.length = locs.length → InR F.size w →
    (∃ w', applyCorrections F locs ms w = .ok w' ∧ InR F.size w' ∧ w'.length = w.length) ∨
    (∃ e, applyCorrections F locs ms w = .error e ∧ Benign e)
  | [], _, w, _, _, _, hw => Or.inl ⟨w, by unfold applyCorrections; rfl, hw, rfl⟩
  | _ :: _, [], _, _, _, hlen, _ => by simp at hlen
  | loc :: locs, m :: ms, w, hl, hm, hlen, hw => by
    have ok := hF.2
    have hloc := hl loc (by simp)
    obtain ⟨lg, hlg, _⟩ := F_log hF loc hloc.1 hloc.2
    unfold applyCorrections
    simp only [hlg, liftD, bind, Except.bind]
    by_cases hbad : w.length < lg + 1
    · right
      refine ⟨.badLocation, ?_, rfl⟩
      simp [hbad, throw, throwThe, MonadExceptOf.throw]
    · have hpos : w.length - 1 - lg < w.length := by omega
      have hget : w[w.length - 1 - lg]? = some w[w.length - 1 - lg] := List.getElem?_eq_getElem hpos
      simp only [hbad, if_false, hget, pure, Except.pure]
      have hv : w[w.length - 1 - lg] < F.size := hw _ (List.getElem_mem hpos)
      have hw' : InR F.size (w.set (w.length - 1 - lg) (w[w.length - 1 - lg] ^^^ m)) := by
        intro y hy
        rcases List.mem_or_eq_of_mem_set hy with h | h
        · exact hw y h
        · rw [h]; exact xor_lt_size ok _ _ hv hm.head
      rcases applyCorrections_spec locs ms _ (fun x hx => hl x (List.mem_cons_of_mem _ hx)) hm.tail
        (by simpa using hlen) hw' with ⟨w'', h1, h2, h3⟩ | ⟨e, h1, h2⟩
      · left
        exact ⟨w'', h1, h2, by rw [h3, List.length_set]⟩
      · right
        exact ⟨e, h1, h2⟩

/-- `Decode` on an in-range word never panics and never runs out of fuel -/
theorem decodeD_total (w : List Nat) (hne : w ≠ []) (hw : InR F.size w) (twoS : Nat)
    (hb : twoS + F.base ≤ F.size) :
    (∃ w', decodeD F w twoS = .ok w' ∧ InR F.size w' ∧ w'.length = w.length) ∨
    (∃ e, decodeD F w twoS = .error e ∧ Benign e) := by
  have ok := hF.2
  unfold decodeD
  rw [mkPoly_ok w hne]
  simp only [liftD, bind, Except.bind]
  rw [syndromes_spec hF _ (normalize_ne_nil w) (InR_normalize (size_pos hF) w hw) twoS 0 (by omega)]
  simp only
  obtain ⟨synd, hsynd⟩ : ∃ synd, synd = (List.range' 0 twoS).map
      (fun j => evalH F.prim (pw F.prim F.size (j + F.base)) (normalize w)) := ⟨_, rfl⟩
  rw [← hsynd]
  have hsin : InR F.size synd := by
    rw [hsynd]
    intro x hx
    obtain ⟨j, _, rfl⟩ := List.mem_map.1 hx
    exact evalH_lt ok _ _ (InR_normalize (size_pos hF) w hw)
  by_cases hall : synd.all (· == 0) = true
  · left
    rw [if_pos hall]
    exact ⟨w, rfl, hw, rfl⟩
  · rw [if_neg hall]
    have hsne : synd.reverse ≠ [] := by
      intro h
      have : synd = [] := by simpa using h
      rw [this] at hall
      simp at hall
    have hswf : WF F.size (normalize synd.reverse) :=
      wf_normalize (size_pos hF) _ (fun x hx => hsin x (by simpa using hx))
    have hmwf : WF F.size (1 :: List.replicate twoS 0) :=
      ⟨InR.cons (one_lt_size ok) (InR.replicate (size_pos hF)), Or.inr ⟨1, _, rfl, by decide⟩⟩
    rw [mkPoly_ok _ hsne, buildMonomial_ok twoS 1 (by decide)]
    simp only
    rcases runEuclid_spec hF _ _ hmwf hswf twoS with ⟨sigma, omega, hrun, hsig, hom⟩ | ⟨e, hrun, he⟩
    · rw [hrun]
      simp only
      rcases findErrorLocations_spec hF sigma hsig with ⟨locs, hlocs, hnz⟩ | ⟨e, hlocs, he⟩
      · rw [hlocs]
        simp only
        have hlin : InR F.size locs := fun x hx => (hnz x hx).2
        rcases magLoop_spec hF omega hom locs hlin locs 0 hnz with ⟨ms, hms, hmsin, hmslen⟩ | hms
        · have : findErrorMagnitudes F omega locs = .ok ms := hms
          rw [this]
          simp only
          exact applyCorrections_spec hF locs ms w hnz hmsin hmslen hw
        · right
          have : findErrorMagnitudes F omega locs = .error .illegalArg := hms
          rw [this]
          exact ⟨.base .illegalArg, rfl, rfl⟩
      · right
        rw [hlocs]
        exact ⟨e, rfl, he⟩
    · right
      rw [hrun]
      exact ⟨e, rfl, he⟩

end F
end Gzx.Proofs.Total
