/-
  C06 — totality of the Data Matrix bit-stream parser model (`Gzx.DMHighLevel.decodeText` /
  `decodeFull`: ASCII, C40, Text, ANSI X12, EDIFACT, Base 256, macros, FNC1, ECI):
  a text or FormatException for EVERY codeword list and every character tables; never a panic.
  Helper lemmas for Properties/C06.lean.  Core Lean only.
-/
import Gzx.Model.DMHighLevel
import Gzx.Proofs.TotalQR
namespace Gzx.Proofs.TotalDM
open Gzx Gzx.DMHighLevel Gzx.Proofs.TotalQR

/-! ## C40 / Text values

The only way a C40/Text value can be negative is the pair (0,0), whose 16-bit value minus one is −1:
Go's truncating division then gives (0, 0, −1).  The −1 is harmless because the two zeros before it
leave the shift state in {0, 1}, where the value is not used as an index. -/

theorem idx_ok (tbl : List Nat) (v : Int) (h0 : 0 ≤ v) (hl : v < tbl.length) : ∃ c, idx tbl v = .ok c := by
  unfold idx
  rw [if_neg (by omega)]
  have : v.toNat < tbl.length := by omega
  rw [List.getElem?_eq_getElem this]
  exact ⟨_, rfl⟩

/-- the guarded table access `if v < len(tbl) { tbl[v] … } else …` -/
theorem guarded_idx (tbl : List Nat) (v : Int) (h0 : 0 ≤ v) (st : CState) (els : Res (CState × Emit))
    (hels : FmtOnly els) :
    FmtOnly (if v < tbl.length then
      (match idx tbl v with
       | .ok c => .ok (emitUp st c)
       | .error e => .error e) else els) := by
  by_cases hl : v < tbl.length
  · rw [if_pos hl]
    obtain ⟨c, hc⟩ := idx_ok _ v h0 hl
    rw [hc]; exact FmtOnly.ok _
  · rw [if_neg hl]; exact hels

theorem emitUp_shift (st : CState) (c : Int) : (emitUp st c).1.shift = 0 := by
  unfold emitUp; split <;> rfl

theorem guarded_idx_shift (tbl : List Nat) (v : Int) (st st' : CState) (e : Emit) (els : Res (CState × Emit))
    (h : (if v < tbl.length then
      (match idx tbl v with
       | .ok c => .ok (emitUp st c)
       | .error e => .error e) else els) = .ok (st', e)) : st'.shift = 0 ∨ els = .ok (st', e) := by
  by_cases hl : v < tbl.length
  · rw [if_pos hl] at h
    left
    cases hi : idx tbl v with
    | ok c =>
      rw [hi] at h
      have h' := Except.ok.inj h
      have : st' = (emitUp st c).1 := by rw [h']
      rw [this]; exact emitUp_shift _ _
    | error x => rw [hi] at h; cases h
  · rw [if_neg hl] at h; exact Or.inr h

theorem cValueCore_nonneg (T : Tables) (text : Bool) (v : Int) (st : CState) (h0 : 0 ≤ v) :
    FmtOnly (cValueCore T text v st) := by
  unfold cValueCore
  simp only []
  by_cases s0 : st.shift = 0
  · rw [if_pos s0]
    by_cases h3 : v < 3
    · rw [if_pos h3]; exact FmtOnly.ok _
    · rw [if_neg h3]; exact guarded_idx _ v h0 st _ FmtOnly.fmt
  · rw [if_neg s0]
    by_cases s1 : st.shift = 1
    · rw [if_pos s1]; exact FmtOnly.ok _
    · rw [if_neg s1]
      by_cases s2 : st.shift = 2
      · rw [if_pos s2]
        refine guarded_idx _ v h0 st _ ?_
        split
        · exact FmtOnly.ok _
        · split
          · exact FmtOnly.ok _
          · exact FmtOnly.fmt
      · rw [if_neg s2]
        by_cases s3 : st.shift = 3
        · rw [if_pos s3]
          cases text
          · simp only [Bool.false_eq_true, if_false]
            split <;> exact FmtOnly.ok _
          · simp only [if_true]
            exact guarded_idx _ v h0 st _ FmtOnly.fmt
        · rw [if_neg s3]; exact FmtOnly.fmt

theorem cValueCore_lowShift (T : Tables) (text : Bool) (v : Int) (st : CState) (hv : v < 0)
    (hs : st.shift = 0 ∨ st.shift = 1) : ∃ r, cValueCore T text v st = .ok r := by
  unfold cValueCore
  simp only []
  rcases hs with hs | hs
  · rw [if_pos hs, if_pos (by omega)]; exact ⟨_, rfl⟩
  · rw [if_neg (by omega), if_pos hs]; exact ⟨_, rfl⟩

/-- the shift state after one value: back to 0, or a shift value 0..2 just selected set 1..3 -/
theorem cValueCore_shift (T : Tables) (text : Bool) (v : Int) (st st' : CState) (e : Emit)
    (h : cValueCore T text v st = .ok (st', e)) : st'.shift = 0 ∨ (v < 3 ∧ st'.shift = v + 1) := by
  unfold cValueCore at h
  simp only [] at h
  by_cases s0 : st.shift = 0
  · rw [if_pos s0] at h
    by_cases h3 : v < 3
    · rw [if_pos h3] at h; cases h; exact Or.inr ⟨h3, rfl⟩
    · rw [if_neg h3] at h
      rcases guarded_idx_shift _ _ _ _ _ _ h with h | h
      · exact Or.inl h
      · cases h
  · rw [if_neg s0] at h
    by_cases s1 : st.shift = 1
    · rw [if_pos s1] at h
      have h' := Except.ok.inj h
      have : st' = (emitUp st v).1 := by rw [h']
      rw [this]; exact Or.inl (emitUp_shift _ _)
    · rw [if_neg s1] at h
      by_cases s2 : st.shift = 2
      · rw [if_pos s2] at h
        rcases guarded_idx_shift _ _ _ _ _ _ h with h | h
        · exact Or.inl h
        · split at h
          · cases h; exact Or.inl rfl
          · split at h
            · cases h; exact Or.inl rfl
            · cases h
      · rw [if_neg s2] at h
        by_cases s3 : st.shift = 3
        · rw [if_pos s3] at h
          cases text
          · simp only [Bool.false_eq_true, if_false] at h
            split at h <;> cases h <;> exact Or.inl rfl
          · simp only [if_true] at h
            rcases guarded_idx_shift _ _ _ _ _ _ h with h | h
            · exact Or.inl h
            · cases h
        · rw [if_neg s3] at h; cases h

theorem cValueCore_zero_shift (T : Tables) (text : Bool) (st st' : CState) (e : Emit)
    (h : cValueCore T text 0 st = .ok (st', e)) : st'.shift = 0 ∨ st'.shift = 1 := by
  rcases cValueCore_shift T text 0 st st' e h with h | ⟨_, h⟩
  · exact Or.inl h
  · exact Or.inr (by omega)

theorem cValue_of_core (T : Tables) (text : Bool) (v : Int) (st : CState) (a : Acc)
    (h : FmtOnly (cValueCore T text v st)) :
    (∃ st' e, cValueCore T text v st = .ok (st', e) ∧ cValue T text v st a = .ok (st', a.emit e)) ∨
    cValue T text v st a = .error .format := by
  unfold cValue
  rcases h with ⟨⟨st', e⟩, h⟩ | h
  · rw [h]; exact Or.inl ⟨st', e, rfl, rfl⟩
  · rw [h]; exact Or.inr rfl

/-- the three values of a codeword pair: all non-negative, or (0, 0, −1) -/
theorem parseTwoBytes_cases (b1 b2 : Nat) :
    (0 ≤ (parseTwoBytes b1 b2).1 ∧ 0 ≤ (parseTwoBytes b1 b2).2.1 ∧ 0 ≤ (parseTwoBytes b1 b2).2.2) ∨
    parseTwoBytes b1 b2 = (0, 0, -1) := by
  by_cases hz : b1 = 0 ∧ b2 = 0
  · right; rw [hz.1, hz.2]; decide
  · left
    unfold parseTwoBytes
    dsimp only
    have hfull : (0 : Int) ≤ (b1 : Int) * 256 + b2 - 1 := by omega
    generalize (b1 : Int) * 256 + b2 - 1 = full at hfull
    rw [Int.tdiv_eq_ediv_of_nonneg hfull]
    have h2 : 0 ≤ full - full / 1600 * 1600 := by omega
    rw [Int.tdiv_eq_ediv_of_nonneg h2]
    refine ⟨by omega, by omega, by omega⟩

theorem x12Value_fmt (v : Int) : FmtOnly (x12Value v) := by
  unfold x12Value
  repeat' split
  all_goals first | exact FmtOnly.ok _ | exact FmtOnly.fmt

/-! ## segments -/

theorem cSeg_fmt (T : Tables) (text : Bool) : ∀ (bs : List Nat) (st : CState) (a : Acc) (n : Nat),
    FmtOnly (cSeg T text bs st a n)
  | [], _, _, _ => by unfold cSeg; exact FmtOnly.ok _
  | [_], _, _, _ => by unfold cSeg; exact FmtOnly.ok _
  | b1 :: b2 :: rest, st, a, n => by
    unfold cSeg
    by_cases h254 : b1 = 254
    · rw [if_pos h254]; exact FmtOnly.ok _
    · rw [if_neg h254]
      rcases parseTwoBytes_cases b1 b2 with ⟨h1, h2, h3⟩ | hz
      · obtain ⟨c1, c2, c3, hp⟩ : ∃ c1 c2 c3, parseTwoBytes b1 b2 = (c1, c2, c3) := ⟨_, _, _, rfl⟩
        rw [hp] at h1 h2 h3 ⊢
        simp only [] at h1 h2 h3 ⊢
        rcases cValue_of_core T text c1 st a (cValueCore_nonneg T text c1 st h1) with ⟨st1, e1, _, hv1⟩ | hv1
        · rw [hv1]; simp only []
          rcases cValue_of_core T text c2 st1 (a.emit e1) (cValueCore_nonneg T text c2 st1 h2) with ⟨st2, e2, _, hv2⟩ | hv2
          · rw [hv2]; simp only []
            rcases cValue_of_core T text c3 st2 ((a.emit e1).emit e2) (cValueCore_nonneg T text c3 st2 h3) with
              ⟨st3, e3, _, hv3⟩ | hv3
            · rw [hv3]; simp only []
              exact cSeg_fmt T text rest _ _ _
            · rw [hv3]; exact FmtOnly.fmt
          · rw [hv2]; exact FmtOnly.fmt
        · rw [hv1]; exact FmtOnly.fmt
      · rw [hz]
        simp only []
        rcases cValue_of_core T text 0 st a (cValueCore_nonneg T text 0 st (by omega)) with ⟨st1, e1, _, hv1⟩ | hv1
        · rw [hv1]; simp only []
          rcases cValue_of_core T text 0 st1 (a.emit e1) (cValueCore_nonneg T text 0 st1 (by omega)) with
            ⟨st2, e2, hc2, hv2⟩ | hv2
          · rw [hv2]; simp only []
            have hs2 := cValueCore_zero_shift T text st1 st2 e2 hc2
            obtain ⟨r, hr⟩ := cValueCore_lowShift T text (-1) st2 (by omega) hs2
            rcases cValue_of_core T text (-1) st2 ((a.emit e1).emit e2) (Or.inl ⟨r, hr⟩) with ⟨st3, e3, _, hv3⟩ | hv3
            · rw [hv3]; simp only []
              exact cSeg_fmt T text rest _ _ _
            · rw [hv3]; exact FmtOnly.fmt
          · rw [hv2]; exact FmtOnly.fmt
        · rw [hv1]; exact FmtOnly.fmt

theorem x12Seg_fmt : ∀ (bs : List Nat) (a : Acc) (n : Nat), FmtOnly (x12Seg bs a n)
  | [], _, _ => by unfold x12Seg; exact FmtOnly.ok _
  | [_], _, _ => by unfold x12Seg; exact FmtOnly.ok _
  | b1 :: b2 :: rest, a, n => by
    unfold x12Seg
    by_cases h254 : b1 = 254
    · rw [if_pos h254]; exact FmtOnly.ok _
    · rw [if_neg h254]
      obtain ⟨c1, c2, c3, hp⟩ : ∃ c1 c2 c3, parseTwoBytes b1 b2 = (c1, c2, c3) := ⟨_, _, _, rfl⟩
      rw [hp]
      simp only []
      rcases x12Value_fmt c1 with ⟨x1, h1⟩ | h1
      · rw [h1]; simp only []
        rcases x12Value_fmt c2 with ⟨x2, h2⟩ | h2
        · rw [h2]; simp only []
          rcases x12Value_fmt c3 with ⟨x3, h3⟩ | h3
          · rw [h3]; simp only []
            exact x12Seg_fmt rest _ _
          · rw [h3]; exact FmtOnly.fmt
        · rw [h2]; exact FmtOnly.fmt
      · rw [h1]; exact FmtOnly.fmt

theorem b256Data_fmt : ∀ (k : Nat) (bs : List Nat) (pos : Nat) (a : Acc), FmtOnly (b256Data k bs pos a)
  | 0, _, _, _ => by unfold b256Data; exact FmtOnly.ok _
  | _ + 1, [], _, _ => by unfold b256Data; exact FmtOnly.fmt
  | k + 1, b :: bs, pos, a => by unfold b256Data; exact b256Data_fmt k bs _ _

theorem b256Seg_fmt (rest : List Nat) (off : Nat) (a : Acc) : FmtOnly (b256Seg rest off a) := by
  unfold b256Seg
  cases rest with
  | nil => exact FmtOnly.ok _
  | cons b r1 =>
    simp only []
    split
    · rcases b256Data_fmt r1.length r1 (off + 2) a with ⟨a', h⟩ | h
      · rw [h]; exact FmtOnly.ok _
      · rw [h]; exact FmtOnly.fmt
    · split
      · rcases b256Data_fmt (unrand255 b (off + 1)) r1 (off + 2) a with ⟨a', h⟩ | h
        · rw [h]; exact FmtOnly.ok _
        · rw [h]; exact FmtOnly.fmt
      · cases r1 with
        | nil => exact FmtOnly.fmt
        | cons b2 r2 =>
          simp only []
          rcases b256Data_fmt (250 * (unrand255 b (off + 1) - 249) + unrand255 b2 (off + 2)) r2 (off + 3) a with
            ⟨a', h⟩ | h
          · rw [h]; exact FmtOnly.ok _
          · rw [h]; exact FmtOnly.fmt

/-! ## the main loop -/

theorem err_of_fmt {α β : Type} {r : Res α} {e : Fault} (h : FmtOnly r) (he : r = .error e) :
    FmtOnly (.error e : Res β) := by
  rcases h with ⟨a, h⟩ | h
  · rw [h] at he; cases he
  · rw [h] at he; cases he; exact FmtOnly.fmt

theorem decLoop_fmt (T : Tables) : ∀ (bs : List Nat) (skip : Nat) (up : Bool) (off : Nat) (a : Acc),
    FmtOnly (decLoop T bs skip up off a) := by
  intro bs skip up off a
  fun_induction decLoop T bs skip up off a <;>
    first
    | exact FmtOnly.ok _
    | exact FmtOnly.fmt
    | assumption
    | exact err_of_fmt (cSeg_fmt _ _ _ _ _ _) (by assumption)
    | exact err_of_fmt (x12Seg_fmt _ _ _) (by assumption)
    | exact err_of_fmt (b256Seg_fmt _ _ _) (by assumption)

/-- `DecodedBitStreamParser_decode` (text): a text or FormatException -/
theorem decodeText_fmt (T : Tables) (cw : List Nat) : FmtOnly (decodeText T cw) := by
  unfold decodeText
  rcases decLoop_fmt T cw 0 false 0 {} with ⟨a, h⟩ | h
  · rw [h]; exact FmtOnly.ok _
  · rw [h]; exact FmtOnly.fmt

/-- text and symbology modifier -/
theorem decodeFull_fmt (T : Tables) (cw : List Nat) : FmtOnly (decodeFull T cw) := by
  unfold decodeFull
  rcases decLoop_fmt T cw 0 false 0 {} with ⟨a, h⟩ | h
  · rw [h]; exact FmtOnly.ok _
  · rw [h]; exact FmtOnly.fmt

end Gzx.Proofs.TotalDM
