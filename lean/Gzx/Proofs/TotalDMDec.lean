/-
  C06 — totality of the Data Matrix matrix decoder model (`Gzx.DMDec`: NewBitMatrixParser with
  getVersionForDimensions / extractDataRegion, then readCodewords) on ARBITRARY bit matrices:
  FormatException for every matrix whose dimensions are not in the version table, otherwise exactly
  `totalCodewords` codewords; never a panic.  Helper lemmas for Properties/C06.lean.  Core Lean only.
-/
import Gzx.Model.DMDecoder
import Gzx.Proofs.DMSizeH
namespace Gzx.Proofs.TotalDMDec
open Gzx Gzx.DMDec

/-- representation invariant of a `BitMatrix`: `width*height` cells -/
def GridWF (g : BitGrid) : Prop := g.bits.size = g.width * g.height

/-- what the read order of `readCodewords` must satisfy on an `nrow x ncol` mapping matrix -/
structure ReadOK (nrow ncol total : Nat) : Prop where
  nooob : (readState nrow ncol).oob = false
  len : (readState nrow ncol).cells.length = 8 * total
  inrange : ∀ c ∈ (readState nrow ncol).cells, c < nrow * ncol
  colsPos : 0 < ncol

theorem readOK_of_sizeCheck {nrow ncol total : Nat} (h : DMProofs.sizeCheck nrow ncol total = true) :
    ReadOK nrow ncol total := by
  have F := DMProofs.sizeFacts_of_check h
  exact ⟨F.nooob, by rw [F.readEq]; exact F.len, fun c hc => F.inrange c (by rw [← F.readEq]; exact hc), F.colsPos⟩

theorem readOK_of_readOnlyCheck {nrow ncol total : Nat} (hc : 0 < ncol)
    (h : DMProofs.readOnlyCheck nrow ncol total = true) : ReadOK nrow ncol total := by
  unfold DMProofs.readOnlyCheck at h
  simp only [Bool.and_eq_true, Bool.not_eq_true', beq_iff_eq, List.all_eq_true, decide_eq_true_eq] at h
  obtain ⟨⟨⟨h1, h2⟩, h3⟩, _⟩ := h
  exact ⟨h1, h2, h3, hc⟩

/-- the facts about one version entry that keep the decoder inside its slices -/
structure VersionOK (v : Version) : Prop where
  regR : v.dataRegionSizeRows ≠ 0
  regC : v.dataRegionSizeColumns ≠ 0
  fitR : v.symbolSizeRows / v.dataRegionSizeRows * (v.dataRegionSizeRows + 2) ≤ v.symbolSizeRows
  fitC : v.symbolSizeColumns / v.dataRegionSizeColumns * (v.dataRegionSizeColumns + 2) ≤ v.symbolSizeColumns
  read : ReadOK (v.symbolSizeRows / v.dataRegionSizeRows * v.dataRegionSizeRows)
    (v.symbolSizeColumns / v.dataRegionSizeColumns * v.dataRegionSizeColumns) v.totalCodewords

theorem getVersionForDimensions_spec (tbl : List Version) (r c : Nat) :
    getVersionForDimensions tbl r c = .error .format ∨
    ∃ v, getVersionForDimensions tbl r c = .ok v ∧ v ∈ tbl ∧ v.symbolSizeRows = r ∧ v.symbolSizeColumns = c := by
  unfold getVersionForDimensions
  split
  · exact Or.inl rfl
  · split
    · rename_i v hf
      have hm := List.mem_of_find?_eq_some hf
      have hp := List.find?_some hf
      simp only [Bool.and_eq_true, beq_iff_eq] at hp
      exact Or.inr ⟨v, rfl, hm, hp.1, hp.2⟩
    · exact Or.inl rfl

theorem grid_get_ok (g : BitGrid) (hg : GridWF g) (x y : Nat) (hx : x < g.width) (hy : y < g.height) :
    ∃ b, g.get x y = .ok b := by
  unfold BitGrid.get
  rw [if_pos ⟨hx, hy⟩]
  have h1 : (y + 1) * g.width ≤ g.height * g.width := Nat.mul_le_mul_right _ hy
  rw [Nat.add_mul, Nat.one_mul] at h1
  have : y * g.width + x < g.bits.size := by rw [hg, Nat.mul_comm g.width]; omega
  rw [Array.getElem?_eq_getElem this]
  exact ⟨_, rfl⟩

theorem mapM_total_len {α β : Type} (f : α → Res β) (l : List α) (h : ∀ x ∈ l, ∃ y, f x = .ok y) :
    ∃ ys, l.mapM f = .ok ys ∧ ys.length = l.length := by
  induction l with
  | nil => exact ⟨[], rfl, rfl⟩
  | cons a l ih =>
    obtain ⟨y, hy⟩ := h a (by simp)
    obtain ⟨ys, hys, hl⟩ := ih (fun x hx => h x (List.mem_cons_of_mem _ hx))
    rw [List.mapM_cons, hy, hys]
    exact ⟨y :: ys, rfl, by simp [hl]⟩

/-- a coordinate `rc·(reg+2) + 1 + j` of the data-region copy stays inside the symbol -/
theorem coord_lt {w reg n size : Nat} (hreg : reg ≠ 0) (hw : w < n * reg) (hfit : n * (reg + 2) ≤ size) :
    w / reg * (reg + 2) + 1 + w % reg < size := by
  have hpos : 0 < reg := Nat.pos_of_ne_zero hreg
  have hdiv : w / reg < n := (Nat.div_lt_iff_lt_mul hpos).2 hw
  have hmod : w % reg < reg := Nat.mod_lt _ hpos
  have h1 : (w / reg + 1) * (reg + 2) ≤ n * (reg + 2) := Nat.mul_le_mul_right _ hdiv
  rw [Nat.add_mul, Nat.one_mul] at h1
  omega

theorem extractDataRegion_spec (v : Version) (hv : VersionOK v) (g : BitGrid) (hg : GridWF g)
    (hh : g.height = v.symbolSizeRows) (hw : g.width = v.symbolSizeColumns) :
    ∃ m, extractDataRegion v g = .ok m ∧ GridWF m ∧
      m.height = v.symbolSizeRows / v.dataRegionSizeRows * v.dataRegionSizeRows ∧
      m.width = v.symbolSizeColumns / v.dataRegionSizeColumns * v.dataRegionSizeColumns := by
  unfold extractDataRegion
  rw [if_neg (by omega)]
  unfold extractCoords
  rw [if_neg (by have := hv.regR; have := hv.regC; omega)]
  simp only []
  obtain ⟨bits, hbits, hlen⟩ := mapM_total_len (fun (xy : Nat × Nat) => g.get xy.1 xy.2)
    ((List.range (v.symbolSizeRows / v.dataRegionSizeRows * v.dataRegionSizeRows)).flatMap (fun wy =>
      (List.range (v.symbolSizeColumns / v.dataRegionSizeColumns * v.dataRegionSizeColumns)).map (fun wx =>
        (wx / v.dataRegionSizeColumns * (v.dataRegionSizeColumns + 2) + 1 + wx % v.dataRegionSizeColumns,
         wy / v.dataRegionSizeRows * (v.dataRegionSizeRows + 2) + 1 + wy % v.dataRegionSizeRows)))) (by
    intro xy hxy
    simp only [List.mem_flatMap, List.mem_range, List.mem_map] at hxy
    obtain ⟨wy, hwy, wx, hwx, rfl⟩ := hxy
    exact grid_get_ok g hg _ _ (by rw [hw]; exact coord_lt hv.regC hwx hv.fitC)
      (by rw [hh]; exact coord_lt hv.regR hwy hv.fitR))
  rw [hbits]
  refine ⟨_, rfl, ?_, rfl, rfl⟩
  unfold GridWF
  simp only [List.size_toArray, hlen]
  generalize v.symbolSizeRows / v.dataRegionSizeRows * v.dataRegionSizeRows = R
  generalize v.symbolSizeColumns / v.dataRegionSizeColumns * v.dataRegionSizeColumns = C
  generalize (fun (wy wx : Nat) => (wx / v.dataRegionSizeColumns * (v.dataRegionSizeColumns + 2) + 1 + wx % v.dataRegionSizeColumns,
         wy / v.dataRegionSizeRows * (v.dataRegionSizeRows + 2) + 1 + wy % v.dataRegionSizeRows)) = F
  induction R with
  | zero => simp
  | succ R ih =>
    rw [List.range_succ, List.flatMap_append, List.length_append, ih]
    simp [Nat.mul_succ]

/-- `NewBitMatrixParser`: FormatException, or a table version of the matrix' dimensions and its mapping matrix -/
theorem newBitMatrixParser_spec (tbl : List Version) (hT : ∀ v ∈ tbl, VersionOK v) (g : BitGrid) (hg : GridWF g) :
    newBitMatrixParser tbl g = .error .format ∨
    ∃ v m, newBitMatrixParser tbl g = .ok (v, m) ∧ v ∈ tbl ∧ v.symbolSizeRows = g.height ∧
      v.symbolSizeColumns = g.width ∧ GridWF m ∧
      m.height = v.symbolSizeRows / v.dataRegionSizeRows * v.dataRegionSizeRows ∧
      m.width = v.symbolSizeColumns / v.dataRegionSizeColumns * v.dataRegionSizeColumns := by
  unfold newBitMatrixParser
  split
  · exact Or.inl rfl
  · rcases getVersionForDimensions_spec tbl g.height g.width with h | ⟨v, h, hm, hr, hc⟩
    · rw [h]; exact Or.inl rfl
    · rw [h]
      simp only []
      obtain ⟨m, hx, hmw, hmh, hmc⟩ := extractDataRegion_spec v (hT v hm) g hg hr.symm hc.symm
      rw [hx]
      exact Or.inr ⟨v, m, rfl, hm, hr, hc, hmw, hmh, hmc⟩

theorem packBytes_length : ∀ (n : Nat) (bits : List Bool), bits.length = 8 * n → (packBytes n bits).length = n
  | 0, _, _ => rfl
  | n + 1, bits, h => by
    unfold packBytes
    have : bits.isEmpty = false := by
      cases bits with
      | nil => simp at h
      | cons => rfl
    rw [this]
    simp only [Bool.false_eq_true, if_false, List.length_cons]
    rw [packBytes_length n (bits.drop 8) (by simp only [List.length_drop]; omega)]

/-- `readCodewords` on the mapping matrix of a table version: always exactly `totalCodewords` codewords -/
theorem readCodewords_spec (v : Version) (m : BitGrid) (hm : GridWF m)
    (hr : ReadOK m.height m.width v.totalCodewords) :
    ∃ cws, readCodewords v m = .ok cws ∧ cws.length = v.totalCodewords := by
  unfold readCodewords
  simp only [hr.nooob, Bool.false_eq_true, if_false]
  have hn : (readState m.height m.width).cells.length / 8 = v.totalCodewords := by rw [hr.len]; omega
  rw [hn, if_neg (Nat.lt_irrefl _)]
  obtain ⟨bits, hbits, hlen⟩ := mapM_total_len (fun c => m.get (c % m.width) (c / m.width))
    (readState m.height m.width).cells.reverse (by
      intro c hc
      have hlt := hr.inrange c (List.mem_reverse.mp hc)
      exact grid_get_ok m hm _ _ (Nat.mod_lt _ hr.colsPos) ((Nat.div_lt_iff_lt_mul hr.colsPos).2 hlt))
  rw [hbits]
  simp only [ne_eq, not_true_eq_false, if_false]
  exact ⟨_, rfl, packBytes_length _ _ (by rw [hlen, List.length_reverse, hr.len])⟩

/-! ## DataBlocks_getDataBlocks -/

/-- target `(j, i)` lies inside block `j` of a block list with lengths `L` -/
def inShape (L : List Nat) (t : Nat × Nat) : Bool :=
  match L[t.1]? with
  | some n => decide (t.2 < n)
  | none => false

/-- per-version check: the three fill loops address exactly `totalCodewords` cells, all inside the blocks -/
def dbOK (v : Version) : Bool :=
  match dbTargets v with
  | .ok ts => ts.length == v.totalCodewords && ts.all (inShape ((blockShapes v).map (·.2)))
  | .error _ => false

theorem set2_spec (blocks : List (List Nat)) (j i x : Nat) (h : inShape (blocks.map List.length) (j, i) = true) :
    ∃ bs, set2 blocks j i x = some bs ∧ bs.map List.length = blocks.map List.length := by
  unfold inShape at h
  simp only [List.getElem?_map] at h
  unfold set2
  cases hb : blocks[j]? with
  | none => rw [hb] at h; simp at h
  | some b =>
    rw [hb] at h
    simp only [Option.map_some, decide_eq_true_eq] at h
    simp only [h, if_true]
    refine ⟨_, rfl, ?_⟩
    rw [List.map_set, List.length_set]
    obtain ⟨hj, hbj⟩ := List.getElem?_eq_some_iff.mp hb
    have : b.length = (blocks.map List.length)[j]'(by simpa using hj) := by simp [hbj]
    rw [this, List.set_getElem_self]

theorem fillBlocks_spec : ∀ (ts : List (Nat × Nat)) (raw : List Nat) (blocks : List (List Nat)),
    raw.length = ts.length → ts.all (inShape (blocks.map List.length)) = true →
    ∃ bs, fillBlocks ts raw blocks = .ok bs
  | [], [], _, _, _ => ⟨_, rfl⟩
  | [], _ :: _, _, h, _ => by simp at h
  | _ :: _, [], _, h, _ => by simp at h
  | (j, i) :: ts, x :: xs, blocks, hl, hall => by
    simp only [List.all_cons, Bool.and_eq_true] at hall
    obtain ⟨bs, hs, hshape⟩ := set2_spec blocks j i x hall.1
    unfold fillBlocks
    rw [hs]
    exact fillBlocks_spec ts xs bs (by simpa using hl) (by rw [hshape]; exact hall.2)

/-- `DataBlocks_getDataBlocks` on `totalCodewords` raw codewords of a checked version never fails -/
theorem getDataBlocks_spec (v : Version) (hv : dbOK v = true) (raw : List Nat) (hl : raw.length = v.totalCodewords) :
    ∃ bs, getDataBlocks raw v = .ok bs := by
  unfold dbOK at hv
  unfold getDataBlocks
  cases ht : dbTargets v with
  | error e => rw [ht] at hv; cases hv
  | ok ts =>
    rw [ht] at hv
    simp only [Bool.and_eq_true, beq_iff_eq] at hv
    simp only []
    obtain ⟨bs, hb⟩ := fillBlocks_spec ts raw ((blockShapes v).map (fun s => List.replicate s.2 0))
      (by rw [hl, hv.1]) (by
        have : ((blockShapes v).map (fun s => List.replicate s.2 0)).map List.length = (blockShapes v).map (·.2) := by
          simp [List.map_map, Function.comp_def]
        rw [this]; exact hv.2)
    rw [hb]
    exact ⟨_, rfl⟩

end Gzx.Proofs.TotalDMDec
