/-
  C06 — the version table of the Data Matrix decoder model (`DMDec.versions`: ISO/IEC 16022 Table 7 and the
  18 DMRE sizes; equal to the table regenerated from /repo by `Obligations.C08.gen_versions_eq`) satisfies
  `VersionOK`: region sizes are non-zero, the data regions fit into the symbol, and — by the per-size kernel
  evaluations Proofs/DMSizeA..H — the read order of `readCodewords` stays inside the mapping matrix and
  yields exactly `totalCodewords` codewords.
-/
import Gzx.Proofs.TotalDMDec
import Gzx.Proofs.DMSizeA
import Gzx.Proofs.DMSizeB
import Gzx.Proofs.DMSizeC
import Gzx.Proofs.DMSizeD
import Gzx.Proofs.DMSizeE
import Gzx.Proofs.DMSizeF
import Gzx.Proofs.DMSizeG
import Gzx.Proofs.DMSizeH
namespace Gzx.Proofs.TotalDMDec
open Gzx Gzx.DMDec

/-- mapping-matrix rows, columns and codeword count of a version -/
def readKey (v : Version) : Nat × Nat × Nat :=
  (v.symbolSizeRows / v.dataRegionSizeRows * v.dataRegionSizeRows,
   v.symbolSizeColumns / v.dataRegionSizeColumns * v.dataRegionSizeColumns, v.totalCodewords)

def arithOK (v : Version) : Bool :=
  decide (v.dataRegionSizeRows ≠ 0) && decide (v.dataRegionSizeColumns ≠ 0) &&
  decide (v.symbolSizeRows / v.dataRegionSizeRows * (v.dataRegionSizeRows + 2) ≤ v.symbolSizeRows) &&
  decide (v.symbolSizeColumns / v.dataRegionSizeColumns * (v.dataRegionSizeColumns + 2) ≤ v.symbolSizeColumns)

def tableKeys : List (Nat × Nat × Nat) := [(8, 8, 8), (10, 10, 12), (12, 12, 18), (14, 14, 24), (16, 16, 32), (18, 18, 40), (20, 20, 50), (22, 22, 60), (24, 24, 72), (28, 28, 98), (32, 32, 128), (36, 36, 162), (40, 40, 200), (44, 44, 242), (48, 48, 288), (56, 56, 392), (64, 64, 512), (72, 72, 648), (80, 80, 800), (88, 88, 968), (96, 96, 1152), (108, 108, 1458), (120, 120, 1800), (132, 132, 2178), (6, 16, 12), (6, 28, 21), (10, 24, 30), (10, 32, 40), (14, 32, 56), (14, 44, 77), (6, 44, 33), (6, 56, 42), (6, 72, 54), (6, 88, 66), (6, 108, 81), (6, 132, 99), (10, 56, 70), (10, 80, 100), (14, 56, 98), (18, 32, 72), (18, 40, 90), (18, 56, 126), (20, 44, 110), (22, 44, 121), (22, 56, 154), (24, 36, 108), (24, 44, 132), (24, 56, 168)]

theorem versions_keys : versions.map readKey = tableKeys := by decide +kernel

theorem versions_arith : versions.all arithOK = true := by decide +kernel

theorem keys_readOK : ∀ k ∈ tableKeys, ReadOK k.1 k.2.1 k.2.2 := by
  intro k hk
  simp only [tableKeys, List.mem_cons, List.mem_nil_iff, or_false] at hk
  rcases hk with rfl | rfl | rfl | rfl | rfl | rfl | rfl | rfl | rfl | rfl | rfl | rfl | rfl | rfl | rfl | rfl | rfl | rfl | rfl | rfl | rfl | rfl | rfl | rfl | rfl | rfl | rfl | rfl | rfl | rfl | rfl | rfl | rfl | rfl | rfl | rfl | rfl | rfl | rfl | rfl | rfl | rfl | rfl | rfl | rfl | rfl | rfl | rfl
  · exact readOK_of_sizeCheck DMProofs.check_10x10
  · exact readOK_of_sizeCheck DMProofs.check_12x12
  · exact readOK_of_sizeCheck DMProofs.check_14x14
  · exact readOK_of_sizeCheck DMProofs.check_16x16
  · exact readOK_of_sizeCheck DMProofs.check_18x18
  · exact readOK_of_sizeCheck DMProofs.check_20x20
  · exact readOK_of_sizeCheck DMProofs.check_22x22
  · exact readOK_of_sizeCheck DMProofs.check_24x24
  · exact readOK_of_sizeCheck DMProofs.check_26x26
  · exact readOK_of_sizeCheck DMProofs.check_32x32
  · exact readOK_of_sizeCheck DMProofs.check_36x36
  · exact readOK_of_sizeCheck DMProofs.check_40x40
  · exact readOK_of_sizeCheck DMProofs.check_44x44
  · exact readOK_of_sizeCheck DMProofs.check_48x48
  · exact readOK_of_sizeCheck DMProofs.check_52x52
  · exact readOK_of_sizeCheck DMProofs.check_64x64
  · exact readOK_of_sizeCheck DMProofs.check_72x72
  · exact readOK_of_sizeCheck DMProofs.check_80x80
  · exact readOK_of_sizeCheck DMProofs.check_88x88
  · exact readOK_of_sizeCheck DMProofs.check_96x96
  · exact readOK_of_sizeCheck DMProofs.check_104x104
  · exact readOK_of_sizeCheck DMProofs.check_120x120
  · exact readOK_of_sizeCheck DMProofs.check_132x132
  · exact readOK_of_sizeCheck DMProofs.check_144x144
  · exact readOK_of_sizeCheck DMProofs.check_8x18
  · exact readOK_of_sizeCheck DMProofs.check_8x32
  · exact readOK_of_sizeCheck DMProofs.check_12x26
  · exact readOK_of_sizeCheck DMProofs.check_12x36
  · exact readOK_of_sizeCheck DMProofs.check_16x36
  · exact readOK_of_sizeCheck DMProofs.check_16x48
  · exact readOK_of_readOnlyCheck (by decide) DMProofs.check_dmre_8x48
  · exact readOK_of_readOnlyCheck (by decide) DMProofs.check_dmre_8x64
  · exact readOK_of_readOnlyCheck (by decide) DMProofs.check_dmre_8x80
  · exact readOK_of_readOnlyCheck (by decide) DMProofs.check_dmre_8x96
  · exact readOK_of_readOnlyCheck (by decide) DMProofs.check_dmre_8x120
  · exact readOK_of_readOnlyCheck (by decide) DMProofs.check_dmre_8x144
  · exact readOK_of_readOnlyCheck (by decide) DMProofs.check_dmre_12x64
  · exact readOK_of_readOnlyCheck (by decide) DMProofs.check_dmre_12x88
  · exact readOK_of_readOnlyCheck (by decide) DMProofs.check_dmre_16x64
  · exact readOK_of_readOnlyCheck (by decide) DMProofs.check_dmre_20x36
  · exact readOK_of_readOnlyCheck (by decide) DMProofs.check_dmre_20x44
  · exact readOK_of_readOnlyCheck (by decide) DMProofs.check_dmre_20x64
  · exact readOK_of_readOnlyCheck (by decide) DMProofs.check_dmre_22x48
  · exact readOK_of_readOnlyCheck (by decide) DMProofs.check_dmre_24x48
  · exact readOK_of_readOnlyCheck (by decide) DMProofs.check_dmre_24x64
  · exact readOK_of_readOnlyCheck (by decide) DMProofs.check_dmre_26x40
  · exact readOK_of_readOnlyCheck (by decide) DMProofs.check_dmre_26x48
  · exact readOK_of_readOnlyCheck (by decide) DMProofs.check_dmre_26x64

theorem versions_db : versions.all dbOK = true := by decide +kernel

/-- every entry of the decoder's version table keeps the decoder inside its slices -/
theorem versions_ok : ∀ v ∈ versions, VersionOK v := by
  intro v hv
  have ha := List.all_eq_true.mp versions_arith v hv
  simp only [arithOK, Bool.and_eq_true, decide_eq_true_eq] at ha
  obtain ⟨⟨⟨h1, h2⟩, h3⟩, h4⟩ := ha
  have hk : readKey v ∈ tableKeys := by rw [← versions_keys]; exact List.mem_map_of_mem hv
  exact ⟨h1, h2, h3, h4, keys_readOK _ hk⟩

end Gzx.Proofs.TotalDMDec
