/-
  C06 — UPC/EAN row decoder model (Gzx/Model/OneD.lean), first layer: `findGuardPattern`
  (`upceanReader_findGuardPatternWithCounters`) on ARBITRARY rows never panics: the counter shift
  `counters[2:]` stays inside the slice for every guard pattern of at least 3 runs (start/end 3, middle 5,
  UPC-E end 6), and `PatternMatchVariance` is always called with as many counters as pattern entries.
  Helper lemmas for Properties/C06.lean.  Core Lean only.
-/
import Gzx.Model.OneD
namespace Gzx.Proofs.TotalOneD
open Gzx Gzx.OneD

/-- a (start, end) range or NotFoundException -/
def NF {α : Type} (r : Res α) : Prop := (∃ a, r = .ok a) ∨ r = .error .notFound

theorem incrAt_length : ∀ (cs : List Nat) (n : Nat), (incrAt cs n).length = cs.length
  | [], _ => rfl
  | _ :: _, 0 => rfl
  | c :: cs, n + 1 => by simp [incrAt, incrAt_length cs n]

theorem pmv_ok (cs pattern : List Nat) (h : cs.length = pattern.length) (a b : Nat) :
    ∃ v, RunLength.patternMatchVariance cs pattern a b = .ok v := by
  unfold RunLength.patternMatchVariance
  rw [if_neg (by omega)]
  simp only []
  split
  · exact ⟨_, rfl⟩
  · split <;> exact ⟨_, rfl⟩

theorem guardLoop_nf (pattern : List Nat) (h3 : 3 ≤ pattern.length) :
    ∀ (bs : List Bool) (x : Nat) (cs : List Nat) (pos ps : Nat) (isWhite : Bool),
      cs.length = pattern.length → pos < pattern.length → NF (guardLoop pattern bs x cs pos ps isWhite)
  | [], _, _, _, _, _, _, _ => Or.inr rfl
  | b :: bs, x, cs, pos, ps, isWhite, hl, hp => by
    unfold guardLoop
    by_cases hb : (b != isWhite) = true
    · rw [if_pos hb]
      exact guardLoop_nf pattern h3 bs _ _ _ _ _ (by rw [incrAt_length]; exact hl) hp
    · rw [if_neg hb]
      by_cases hlast : pos + 1 = pattern.length
      · rw [if_pos hlast]
        obtain ⟨v, hv⟩ := pmv_ok cs pattern hl 7 10
        rw [hv]
        simp only []
        by_cases hbelow : belowAvg v = true
        · rw [if_pos hbelow]; exact Or.inl ⟨_, rfl⟩
        · rw [if_neg hbelow]
          match cs, hl with
          | c0 :: c1 :: tl, hl =>
            simp only []
            rw [if_neg (by omega)]
            exact guardLoop_nf pattern h3 bs _ _ _ _ _ (by simp at hl ⊢; omega) (by omega)
          | [_], hl => simp at hl; omega
          | [], hl => simp at hl; omega
      · rw [if_neg hlast]
        exact guardLoop_nf pattern h3 bs _ _ _ _ _ (by rw [List.length_set]; exact hl) (by omega)

/-- `findGuardPattern` on any row, from any offset, for any pattern of at least three runs -/
theorem findGuardPattern_nf (row : List Bool) (rowOffset : Nat) (whiteFirst : Bool) (pattern : List Nat)
    (h3 : 3 ≤ pattern.length) : NF (findGuardPattern row rowOffset whiteFirst pattern) := by
  unfold findGuardPattern
  exact guardLoop_nf pattern h3 _ _ _ _ _ _ (by simp) (by omega)

end Gzx.Proofs.TotalOneD
