/-
  C06 — totality of the QR bit-stream parser model (`Gzx.QRDec.parse`, all modes):
  result or FormatException, never a panic, never out of fuel.  Helper lemmas for Properties/C06.lean.
  Core Lean only.
-/
import Gzx.Model.QRDecoder
namespace Gzx.Proofs.TotalQR
open Gzx Gzx.QRDec Gzx.ECI

/-- a result or FormatException (in particular: no panic, no fuel exhaustion) -/
def FmtOnly {α : Type} (r : Res α) : Prop := (∃ a, r = .ok a) ∨ r = .error .format

/-- a reading step on the bit list `bits`: FormatException, or a value and a remaining bit list that is
    at least `k` bits shorter -/
def Step {α : Type} (k : Nat) (bits : List Bool) (r : Res (α × List Bool)) : Prop :=
  r = .error .format ∨ ∃ a bits', r = .ok (a, bits') ∧ bits'.length + k ≤ bits.length

theorem FmtOnly.ok {α : Type} (a : α) : FmtOnly (.ok a : Res α) := Or.inl ⟨a, rfl⟩
theorem FmtOnly.fmt {α : Type} : FmtOnly (.error .format : Res α) := Or.inr rfl
theorem Step.fmt {α : Type} (k : Nat) (bits : List Bool) : Step k bits (.error .format : Res (α × List Bool)) := Or.inl rfl
theorem Step.ok {α : Type} (k : Nat) (bits : List Bool) (a : α) (bits' : List Bool) (h : bits'.length + k ≤ bits.length) :
    Step k bits (.ok (a, bits') : Res (α × List Bool)) := Or.inr ⟨a, bits', rfl, h⟩

theorem Step.weaken {α : Type} {k bits} {r : Res (α × List Bool)} (h : Step k bits r) : Step 0 bits r := by
  rcases h with h | ⟨a, b, h, hl⟩
  · exact Or.inl h
  · exact Or.inr ⟨a, b, h, by omega⟩

theorem Step.toFmtOnly {α : Type} {k bits} {r : Res (α × List Bool)} (h : Step k bits r) : FmtOnly r := by
  rcases h with h | ⟨a, b, h, _⟩
  · exact Or.inr h
  · exact Or.inl ⟨_, h⟩

/-- sequencing after a total non-reading computation -/
theorem bind_fmt {α β : Type} (P : Res β → Prop) (hP : P (.error .format)) {x : Res α} {f : α → Res β}
    (hx : FmtOnly x) (hf : ∀ a, x = .ok a → P (f a)) : P (x >>= f) := by
  rcases hx with ⟨a, h⟩ | h
  · rw [h]; exact hf a h
  · rw [h]; exact hP

/-- sequencing after a reading step -/
theorem bind_step {α β : Type} (P : Res β → Prop) (hP : P (.error .format)) {k : Nat} {bits : List Bool}
    {x : Res (α × List Bool)} {f : α × List Bool → Res β}
    (hx : Step k bits x) (hf : ∀ a bits', bits'.length + k ≤ bits.length → P (f (a, bits'))) : P (x >>= f) := by
  rcases hx with h | ⟨a, b, h, hl⟩
  · rw [h]; exact hP
  · rw [h]; exact hf a b hl

/-! ## primitives -/

theorem readBitsF_step (n : Nat) (bits : List Bool) : Step n bits (readBitsF n bits) := by
  unfold readBitsF readBits
  by_cases h : n < 1 ∨ n > 32 ∨ n > bits.length
  · rw [if_pos h]; exact Step.fmt _ _
  · rw [if_neg h]
    refine Step.ok _ _ _ _ ?_
    simp only [List.length_drop]
    omega

theorem countBits_ok (m : Mode) (ver : Nat) : ∃ n, countBits m ver = .ok n := by
  unfold countBits
  by_cases h9 : ver ≤ 9
  · cases m <;> simp [Mode.countTable, h9]
  · by_cases h26 : ver ≤ 26
    · cases m <;> simp [Mode.countTable, h9, h26]
    · cases m <;> simp [Mode.countTable, h9, h26]

theorem toAlnumChar_fmt (v : Nat) : FmtOnly (toAlnumChar v) := by
  unfold toAlnumChar
  split
  · exact FmtOnly.ok _
  · exact FmtOnly.fmt

theorem wrapF_modeForBits (n : Nat) : FmtOnly (wrapF (modeForBits n)) := by
  unfold modeForBits
  split <;> first | exact FmtOnly.ok _ | exact FmtOnly.fmt

theorem byValue_cases (reg : Registry) (v : Int) : (∃ o, byValue reg v = .ok o) ∨ byValue reg v = .error .format := by
  unfold byValue
  split
  · exact Or.inr rfl
  · exact Or.inl ⟨_, rfl⟩

theorem guessCharset_fmt (reg : Registry) (bytes : List Nat) (hint : Hint) : FmtOnly (guessCharset reg bytes hint) := by
  unfold guessCharset
  split
  · exact FmtOnly.ok _
  · split
    · exact FmtOnly.ok _
    · split
      · exact FmtOnly.ok _
      · exact FmtOnly.fmt
  · split <;> exact FmtOnly.ok _

theorem parseECIValue_step (bits : List Bool) : Step 8 bits (parseECIValue bits) := by
  unfold parseECIValue
  refine bind_step (Step 8 bits) (Step.fmt _ _) (readBitsF_step 8 bits) ?_
  intro first b1 h1
  dsimp only
  split
  · exact Step.ok _ _ _ _ h1
  · split
    · refine bind_step (Step 8 bits) (Step.fmt _ _) (readBitsF_step 8 b1) ?_
      intro second b2 h2
      dsimp only
      exact Step.ok _ _ _ _ (by omega)
    · split
      · refine bind_step (Step 8 bits) (Step.fmt _ _) (readBitsF_step 16 b1) ?_
        intro rest b2 h2
        dsimp only
        exact Step.ok _ _ _ _ (by omega)
      · exact Step.fmt _ _

/-! ## segment decoders -/

theorem decodeNumeric_step (n : Nat) (bits : List Bool) (acc : List Nat) : Step 0 bits (decodeNumeric n bits acc) := by
  fun_induction decodeNumeric n bits acc with
  | case1 n bits acc ih =>
    refine bind_step (Step 0 bits) (Step.fmt _ _) (readBitsF_step 10 bits) ?_
    intro v b1 h1
    dsimp only
    split
    · exact Step.fmt _ _
    · rcases ih v b1 with h | ⟨a, b2, h, hl⟩
      · exact Or.inl h
      · exact Or.inr ⟨a, b2, h, by omega⟩
  | case2 bits acc =>
    refine bind_step (Step 0 bits) (Step.fmt _ _) (readBitsF_step 7 bits) ?_
    intro v b1 h1
    dsimp only
    split
    · exact Step.fmt _ _
    · exact Step.ok _ _ _ _ (by omega)
  | case3 bits acc =>
    refine bind_step (Step 0 bits) (Step.fmt _ _) (readBitsF_step 4 bits) ?_
    intro v b1 h1
    dsimp only
    split
    · exact Step.fmt _ _
    · exact Step.ok _ _ _ _ (by omega)
  | case4 bits acc => exact Step.ok _ _ _ _ (by omega)

theorem decodeAlnumRaw_step (n : Nat) (bits : List Bool) (acc : List Nat) :
    Step 0 bits (decodeAlnumRaw n bits acc) := by
  fun_induction decodeAlnumRaw n bits acc with
  | case1 n bits acc ih =>
    refine bind_step (Step 0 bits) (Step.fmt _ _) (readBitsF_step 11 bits) ?_
    intro v b1 h1
    dsimp only
    refine bind_fmt (Step 0 bits) (Step.fmt _ _) (toAlnumChar_fmt _) ?_
    intro c1 _
    refine bind_fmt (Step 0 bits) (Step.fmt _ _) (toAlnumChar_fmt _) ?_
    intro c2 _
    rcases ih b1 c1 c2 with h | ⟨a, b2, h, hl⟩
    · exact Or.inl h
    · exact Or.inr ⟨a, b2, h, by omega⟩
  | case2 bits acc =>
    refine bind_step (Step 0 bits) (Step.fmt _ _) (readBitsF_step 6 bits) ?_
    intro v b1 h1
    dsimp only
    refine bind_fmt (Step 0 bits) (Step.fmt _ _) (toAlnumChar_fmt _) ?_
    intro c _
    exact Step.ok _ _ _ _ (by omega)
  | case3 bits acc => exact Step.ok _ _ _ _ (by omega)

theorem decodeAlnum_step (count : Nat) (bits : List Bool) (fnc1 : Bool) :
    Step 0 bits (decodeAlnum count bits fnc1) := by
  unfold decodeAlnum
  refine bind_step (Step 0 bits) (Step.fmt _ _) (decodeAlnumRaw_step count bits []) ?_
  intro cs b1 h1
  exact Step.ok _ _ _ _ h1

theorem readGroups_step (w n : Nat) (bits : List Bool) (acc : List Nat) :
    Step 0 bits (readGroups w n bits acc) := by
  induction n generalizing bits acc with
  | zero => exact Step.ok _ _ _ _ (by omega)
  | succ n ih =>
    unfold readGroups
    refine bind_step (Step 0 bits) (Step.fmt _ _) (readBitsF_step w bits) ?_
    intro v b1 h1
    dsimp only
    rcases ih b1 (acc ++ [v]) with h | ⟨a, b2, h, hl⟩
    · exact Or.inl h
    · exact Or.inr ⟨a, b2, h, by omega⟩

theorem decode13_step (toBytes : Nat → List Nat) (count : Nat) (bits : List Bool) :
    Step 0 bits (decode13 toBytes count bits) := by
  unfold decode13
  split
  · exact Step.fmt _ _
  · refine bind_step (Step 0 bits) (Step.fmt _ _) (readGroups_step 13 count bits []) ?_
    intro vs b1 h1
    exact Step.ok _ _ _ _ h1

/-- `decodeByteSegment`: FormatException or (charset, bytes, remaining bits) -/
theorem decodeByte_step (reg : Registry) (count : Nat) (bits : List Bool) (eci : Option Entry) (hint : Hint) :
    decodeByte reg count bits eci hint = .error .format ∨
    ∃ cs bytes bits', decodeByte reg count bits eci hint = .ok (cs, bytes, bits') ∧ bits'.length ≤ bits.length := by
  unfold decodeByte
  split
  · exact Or.inl rfl
  · rcases readGroups_step 8 count bits [] with h | ⟨bytes, b1, h, hl⟩
    · rw [h]; exact Or.inl rfl
    · rw [h]
      simp only [bind, Except.bind]
      cases eci with
      | some e => exact Or.inr ⟨_, _, _, rfl, by omega⟩
      | none =>
        simp only []
        rcases guessCharset_fmt reg bytes hint with ⟨cs, hg⟩ | hg
        · rw [hg]; exact Or.inr ⟨_, _, _, rfl, by omega⟩
        · rw [hg]; exact Or.inl rfl

/-! ## the segment loop -/

/-- the loop never panics and never runs out of fuel when the fuel exceeds the number of unread bits
    (every round consumes the 4 mode bits) -/
theorem parseLoop_fmt (reg : Registry) (ver : Nat) (hint : Hint) :
    ∀ (fuel : Nat) (st : PSt) (bits : List Bool), bits.length < fuel → FmtOnly (parseLoop reg ver hint fuel st bits) := by
  intro fuel
  induction fuel with
  | zero => intro st bits h; omega
  | succ fuel ih =>
    intro st bits hfuel
    unfold parseLoop
    split
    · exact FmtOnly.ok _
    · refine bind_step FmtOnly FmtOnly.fmt (readBitsF_step 4 bits) ?_
      intro m4 b0 h0
      dsimp only
      refine bind_fmt FmtOnly FmtOnly.fmt (wrapF_modeForBits m4) ?_
      intro mode _
      have hb0 : b0.length < fuel := by omega
      cases mode with
      | terminator => exact FmtOnly.ok _
      | fnc1First => exact ih _ _ hb0
      | fnc1Second => exact ih _ _ hb0
      | structuredAppend =>
        dsimp only
        refine bind_step FmtOnly FmtOnly.fmt (readBitsF_step 8 b0) ?_
        intro seq b1 h1
        dsimp only
        refine bind_step FmtOnly FmtOnly.fmt (readBitsF_step 8 b1) ?_
        intro par b2 h2
        dsimp only
        exact ih _ _ (by omega)
      | eci =>
        dsimp only
        refine bind_step FmtOnly FmtOnly.fmt (parseECIValue_step b0) ?_
        intro value b1 h1
        dsimp only
        rcases byValue_cases reg value with ⟨o, hv⟩ | hv
        · rw [hv]
          cases o with
          | none => exact FmtOnly.fmt
          | some e => exact ih _ _ (by omega)
        · rw [hv]; exact FmtOnly.fmt
      | hanzi =>
        dsimp only
        refine bind_step FmtOnly FmtOnly.fmt (readBitsF_step 4 b0) ?_
        intro subset b1 h1
        dsimp only
        obtain ⟨cb, hcb⟩ := countBits_ok .hanzi ver
        rw [hcb]
        refine bind_step FmtOnly FmtOnly.fmt (readBitsF_step cb b1) ?_
        intro count b2 h2
        dsimp only
        split
        · refine bind_step FmtOnly FmtOnly.fmt (decode13_step hanziBytes count b2) ?_
          intro bytes b3 h3
          dsimp only
          exact ih _ _ (by omega)
        · exact ih _ _ (by omega)
      | numeric =>
        dsimp only
        obtain ⟨cb, hcb⟩ := countBits_ok .numeric ver
        rw [hcb]
        refine bind_step FmtOnly FmtOnly.fmt (readBitsF_step cb b0) ?_
        intro count b1 h1
        dsimp only
        refine bind_step FmtOnly FmtOnly.fmt (decodeNumeric_step count b1 []) ?_
        intro cs b2 h2
        dsimp only
        exact ih _ _ (by omega)
      | alphanumeric =>
        dsimp only
        obtain ⟨cb, hcb⟩ := countBits_ok .alphanumeric ver
        rw [hcb]
        refine bind_step FmtOnly FmtOnly.fmt (readBitsF_step cb b0) ?_
        intro count b1 h1
        dsimp only
        refine bind_step FmtOnly FmtOnly.fmt (decodeAlnum_step count b1 st.fnc1) ?_
        intro cs b2 h2
        dsimp only
        exact ih _ _ (by omega)
      | byte =>
        dsimp only
        obtain ⟨cb, hcb⟩ := countBits_ok .byte ver
        rw [hcb]
        refine bind_step FmtOnly FmtOnly.fmt (readBitsF_step cb b0) ?_
        intro count b1 h1
        dsimp only
        rcases decodeByte_step reg count b1 st.eci hint with hd | ⟨cs, bytes, b2, hd, h2⟩
        · rw [hd]; exact FmtOnly.fmt
        · rw [hd]; exact ih _ _ (by simp only []; omega)
      | kanji =>
        dsimp only
        obtain ⟨cb, hcb⟩ := countBits_ok .kanji ver
        rw [hcb]
        refine bind_step FmtOnly FmtOnly.fmt (readBitsF_step cb b0) ?_
        intro count b1 h1
        dsimp only
        refine bind_step FmtOnly FmtOnly.fmt (decode13_step kanjiBytes count b1) ?_
        intro bytes b2 h2
        dsimp only
        exact ih _ _ (by omega)

theorem parseStream_fmt (reg : Registry) (bits : List Bool) (ver : Nat) (hint : Hint) :
    FmtOnly (parseStream reg bits ver hint) := by
  unfold parseStream
  refine bind_fmt FmtOnly FmtOnly.fmt (parseLoop_fmt reg ver hint _ _ bits (Nat.lt_succ_self _)) ?_
  intro st _
  exact FmtOnly.ok _

theorem parse_fmt (reg : Registry) (bytes : List Nat) (ver : Nat) (hint : Hint) :
    FmtOnly (parse reg bytes ver hint) := parseStream_fmt reg _ ver hint

end Gzx.Proofs.TotalQR
