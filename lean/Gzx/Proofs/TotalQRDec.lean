/-
  C06 — totality of the QR matrix decoder model (`Gzx.QRDec.decode`: NewBitMatrixParser, ReadVersion,
  ReadFormatInformation, ReadCodewords, DataBlock_GetDataBlocks, correctErrors, the bit-stream parser
  and the mirrored second attempt) on ARBITRARY matrices.  Helper lemmas for Properties/C06.lean.
  Core Lean only.
-/
import Gzx.Proofs.TotalQR
import Gzx.Proofs.QRMatrixRead
import Gzx.Proofs.QRTablesWF
namespace Gzx.Proofs.TotalQRDec
open Gzx Gzx.QRDec Gzx.ECI Gzx.Proofs.TotalQR

/-- a checked error: neither a panic nor an exhausted loop budget -/
def Soft (e : Fault) : Prop := (∀ w, e ≠ .panic w) ∧ e ≠ .fuel

theorem soft_format : Soft .format := ⟨fun _ h => (by cases h), fun h => (by cases h)⟩
theorem soft_illegalArg : Soft .illegalArg := ⟨fun _ h => (by cases h), fun h => (by cases h)⟩
theorem soft_notFound : Soft .notFound := ⟨fun _ h => (by cases h), fun h => (by cases h)⟩

theorem wrapF_soft {α : Type} {e : Fault} (h : Soft e) : wrapF (.error e : Res α) = .error .format := by
  cases e with
  | panic w => exact absurd rfl (h.1 w)
  | fuel => exact absurd rfl h.2
  | _ => rfl

theorem wrapF_ok {α : Type} (a : α) : wrapF (.ok a : Res α) = .ok a := rfl

/-! ## the version table -/

structure VWF (v : VersionInfo) : Prop where
  len : v.ecBlocks.length = 4
  blocks : ∀ b ∈ v.ecBlocks, wfBlocks b = true ∧ b.total = v.totalCodewords

theorem wfFrom_get : ∀ (vs : List VersionInfo) (i k : Nat) (v : VersionInfo),
    wfVersionsFrom vs i = true → vs[k]? = some v → wfVersion v (i + k) = true
  | [], _, _, _, _, h => by simp at h
  | a :: vs, i, 0, v, hw, h => by
    simp only [wfVersionsFrom, Bool.and_eq_true] at hw
    simp at h
    rw [← h]; exact hw.1
  | a :: vs, i, k + 1, v, hw, h => by
    simp only [wfVersionsFrom, Bool.and_eq_true] at hw
    simp at h
    have := wfFrom_get vs (i + 1) k v hw.2 h
    rw [show i + (k + 1) = i + 1 + k by omega]; exact this

theorem vwf_of_wfVersion (v : VersionInfo) (i : Nat) (h : wfVersion v i = true) : VWF v ∧ v.num = i + 1 := by
  simp only [wfVersion, Bool.and_eq_true, beq_iff_eq, List.all_eq_true] at h
  obtain ⟨⟨⟨hn, hl⟩, hb⟩, ht⟩ := h
  exact ⟨⟨hl, fun b hb' => ⟨hb b hb', ht b hb'⟩⟩, hn⟩

theorem vwf_of_mem (vs : List VersionInfo) (h : wfVersions vs = true) (v : VersionInfo) (hv : v ∈ vs) : VWF v := by
  simp only [wfVersions, Bool.and_eq_true, beq_iff_eq] at h
  obtain ⟨k, hk⟩ := List.getElem?_of_mem hv
  have := wfFrom_get vs 0 k v h.2 hk
  exact (vwf_of_wfVersion v _ this).1

/-- `Version_GetVersionForNumber` on a well-formed table: IllegalArgument outside 1..40, otherwise the
    entry with that number -/
theorem getVersionForNumber_spec (vs : List VersionInfo) (h : wfVersions vs = true) (n : Nat) :
    ((n < 1 ∨ n > 40) ∧ getVersionForNumber vs n = .error .illegalArg) ∨
    ∃ v, getVersionForNumber vs n = .ok v ∧ v ∈ vs ∧ v.num = n := by
  unfold getVersionForNumber
  by_cases hn : n < 1 ∨ n > 40
  · rw [if_pos hn]; exact Or.inl ⟨hn, rfl⟩
  · rw [if_neg hn]
    right
    simp only [wfVersions, Bool.and_eq_true, beq_iff_eq] at h
    have hlt : n - 1 < vs.length := by omega
    rw [List.getElem?_eq_getElem hlt]
    refine ⟨_, rfl, List.getElem_mem hlt, ?_⟩
    have := wfFrom_get vs 0 (n - 1) _ h.2 (List.getElem?_eq_getElem hlt)
    have := (vwf_of_wfVersion _ _ this).2
    omega

theorem decodeVersionInformation_spec (T : Tables) (h : wfVersions T.versions = true) (bits : Nat) :
    (∃ v, decodeVersionInformation T bits = .ok v ∧ v ∈ T.versions) ∨
    (∃ e, decodeVersionInformation T bits = .error e ∧ Soft e) := by
  unfold decodeVersionInformation
  have gv : ∀ n, (∃ v, getVersionForNumber T.versions n = .ok v ∧ v ∈ T.versions) ∨
      (∃ e, getVersionForNumber T.versions n = .error e ∧ Soft e) := by
    intro n
    rcases getVersionForNumber_spec T.versions h n with ⟨_, he⟩ | ⟨v, hv, hm, _⟩
    · exact Or.inr ⟨_, he, soft_illegalArg⟩
    · exact Or.inl ⟨v, hv, hm⟩
  split
  · exact gv _
  · split
    · exact gv _
    · exact Or.inr ⟨_, rfl, soft_notFound⟩

theorem versionCopyOK_mem (T : Tables) (h : wfVersions T.versions = true) (dim bits : Nat) (v : VersionInfo)
    (hv : versionCopyOK T dim bits = some v) : v ∈ T.versions ∧ v.dimension = dim := by
  unfold versionCopyOK at hv
  rcases decodeVersionInformation_spec T h bits with ⟨v', hd, hm⟩ | ⟨e, hd, _⟩
  · rw [hd] at hv
    simp only at hv
    split at hv
    · cases hv; exact ⟨hm, by assumption⟩
    · cases hv
  · rw [hd] at hv; cases hv

/-! ## the parser state -/

/-- what `NewBitMatrixParser` establishes and every parser operation keeps: the dimension is
    17 + 4k with k ≥ 1, and a cached version comes from the table and has the matrix' dimension -/
structure PInv (T : Tables) (p : Parser) : Prop where
  dim21 : 21 ≤ p.m.dim
  dim4 : p.m.dim % 4 = 1
  ver : ∀ v, p.ver = some v → v ∈ T.versions ∧ v.dimension = p.m.dim

theorem newParser_spec (T : Tables) (m : Matrix) :
    newParser m = .error .format ∨ ∃ p, newParser m = .ok p ∧ PInv T p := by
  unfold newParser
  split
  · exact Or.inl rfl
  · rename_i h
    refine Or.inr ⟨_, rfl, ⟨by simp only []; omega, by simp only []; omega, fun v hv => by cases hv⟩⟩

theorem readVersion_spec (T : Tables) (hT : wfVersions T.versions = true) (p : Parser) (hp : PInv T p) :
    readVersion T p = .error .format ∨
    ∃ v p', readVersion T p = .ok (v, p') ∧ v ∈ T.versions ∧ v.dimension = p.m.dim ∧
      p'.m = p.m ∧ p'.mirror = p.mirror ∧ p'.fmt = p.fmt ∧ PInv T p' := by
  unfold readVersion
  cases hver : p.ver with
  | some v =>
    obtain ⟨h1, h2⟩ := hp.ver v hver
    exact Or.inr ⟨v, p, rfl, h1, h2, rfl, rfl, rfl, hp⟩
  | none =>
    simp only []
    have h21 := hp.dim21
    have h4 := hp.dim4
    by_cases hs : (p.m.dim - 17) / 4 ≤ 6
    · rw [if_pos hs]
      rcases getVersionForNumber_spec T.versions hT ((p.m.dim - 17) / 4) with ⟨hbad, _⟩ | ⟨v, hv, hm, hn⟩
      · omega
      · rw [hv]
        refine Or.inr ⟨v, p, rfl, hm, ?_, rfl, rfl, rfl, hp⟩
        unfold VersionInfo.dimension; omega
    · rw [if_neg hs]
      rw [copyBits_eq]
      simp only [bind, Except.bind]
      cases h1 : versionCopyOK T p.m.dim _ with
      | some v =>
        obtain ⟨hm, hd⟩ := versionCopyOK_mem T hT _ _ v h1
        refine Or.inr ⟨v, _, rfl, hm, hd, rfl, rfl, rfl, ⟨h21, h4, ?_⟩⟩
        intro v' hv'; cases hv'; exact ⟨hm, hd⟩
      | none =>
        simp only []
        rw [copyBits_eq]
        simp only []
        cases h2 : versionCopyOK T p.m.dim _ with
        | some v =>
          obtain ⟨hm, hd⟩ := versionCopyOK_mem T hT _ _ v h2
          refine Or.inr ⟨v, _, rfl, hm, hd, rfl, rfl, rfl, ⟨h21, h4, ?_⟩⟩
          intro v' hv'; cases hv'; exact ⟨hm, hd⟩
        | none => exact Or.inl rfl

theorem ecForBits_ok (n : Nat) (h : n < 4) : ∃ ec, ecForBits n = .ok ec := by
  have : n = 0 ∨ n = 1 ∨ n = 2 ∨ n = 3 := by omega
  rcases this with h | h | h | h <;> subst h <;> exact ⟨_, rfl⟩

theorem formatInfoOf_ok (d : Nat) : ∃ fi, formatInfoOf d = .ok fi := by
  unfold formatInfoOf
  have : (d >>> 3) &&& 3 < 2 ^ 2 := Nat.and_lt_two_pow _ (by decide)
  obtain ⟨ec, h⟩ := ecForBits_ok _ this
  rw [h]; exact ⟨_, rfl⟩

theorem decodeFormat_ok (T : List (Nat × Nat)) (mask m1 m2 : Nat) : ∃ o, decodeFormat T mask m1 m2 = .ok o := by
  unfold decodeFormat
  split
  · rename_i d _
    obtain ⟨fi, h⟩ := formatInfoOf_ok d
    rw [h]; exact ⟨_, rfl⟩
  · exact ⟨_, rfl⟩

theorem readFormat_spec (T : Tables) (p : Parser) :
    readFormatInformation T p = .error .format ∨
    ∃ fi p', readFormatInformation T p = .ok (fi, p') ∧ p'.m = p.m ∧ p'.ver = p.ver ∧ p'.mirror = p.mirror := by
  unfold readFormatInformation
  cases hf : p.fmt with
  | some f => exact Or.inr ⟨f, p, rfl, rfl, rfl, rfl⟩
  | none =>
    simp only []
    rw [copyBits_eq, copyBits_eq]
    simp only [bind, Except.bind]
    obtain ⟨o, ho⟩ := decodeFormat_ok T.fmt T.fmtMask
      ((formatCoords1.map (cellOf p.m p.mirror)).foldl (fun a b => 2 * a + b.toNat) 0)
      (((formatCoords2 p.m.dim).map (cellOf p.m p.mirror)).foldl (fun a b => 2 * a + b.toNat) 0)
    rw [ho]
    cases o with
    | none => exact Or.inl rfl
    | some f => exact Or.inr ⟨f, _, rfl, rfl, rfl, rfl⟩

theorem PInv.of_eq (T : Tables) {p p' : Parser} (hp : PInv T p) (hm : p'.m.dim = p.m.dim) (hv : p'.ver = p.ver) :
    PInv T p' :=
  ⟨by rw [hm]; exact hp.dim21, by rw [hm]; exact hp.dim4, fun v h => by rw [hm]; exact hp.ver v (by rw [← hv]; exact h)⟩

/-! ## codeword reading -/

/-- number of cells of `cells` that are not function-pattern modules (each yields one data bit) -/
def freeCount (fp : Matrix) : List (Nat × Nat) → Nat
  | [] => 0
  | xy :: rest => (if fp.getB xy.1 xy.2 then 0 else 1) + freeCount fp rest

theorem readDataBits_spec (fp m : Matrix) : ∀ (cells : List (Nat × Nat)) (acc : List Bool),
    ∃ bits, readDataBits fp m cells acc = .ok bits ∧ bits.length = acc.length + freeCount fp cells
  | [], acc => ⟨_, rfl, by simp [freeCount]⟩
  | xy :: rest, acc => by
    unfold readDataBits
    rw [Matrix.get_eq]
    simp only [bind, Except.bind]
    by_cases hf : fp.getB xy.1 xy.2 = true
    · rw [if_pos hf]
      obtain ⟨bits, h, hl⟩ := readDataBits_spec fp m rest acc
      exact ⟨bits, h, by rw [hl]; simp [freeCount, hf]⟩
    · rw [if_neg hf, Matrix.get_eq]
      simp only []
      obtain ⟨bits, h, hl⟩ := readDataBits_spec fp m rest (m.getB xy.1 xy.2 :: acc)
      exact ⟨bits, h, by rw [hl]; simp [freeCount, hf]; omega⟩

/-- the per-version obligation on the table: the symbol has room for at most `totalCodewords`
    codewords (plus up to 7 remainder bits) outside its function patterns -/
def CwFits (T : Tables) : Prop :=
  ∀ v ∈ T.versions, ∀ fp, buildFunctionPattern v = .ok fp →
    freeCount fp (zigzagCells v.dimension) / 8 ≤ v.totalCodewords

theorem buildFunctionPattern_cases (v : VersionInfo) :
    (∃ fp, buildFunctionPattern v = .ok fp) ∨ buildFunctionPattern v = .error .illegalArg := by
  unfold buildFunctionPattern
  simp only []
  split
  · exact Or.inr rfl
  · repeat' split
    all_goals first | exact Or.inl ⟨_, rfl⟩ | exact Or.inr rfl

theorem readCodewords_spec (T : Tables) (hT : wfVersions T.versions = true) (hfit : CwFits T)
    (p : Parser) (hp : PInv T p) :
    PInv T (readCodewords T p).2 ∧
    ((∃ cws, (readCodewords T p).1 = .ok cws) ∨ (∃ e, (readCodewords T p).1 = .error e ∧ Soft e)) := by
  unfold readCodewords
  rcases readFormat_spec T p with hf | ⟨fi, p1, hf, hm1, hv1, hmi1⟩
  · rw [hf]; exact ⟨hp, Or.inr ⟨_, rfl, soft_format⟩⟩
  · rw [hf]
    simp only []
    have hp1 : PInv T p1 := hp.of_eq T (by rw [hm1]) hv1
    rcases readVersion_spec T hT p1 hp1 with hv | ⟨v, p2, hv, hmem, hdim, hm2, _, _, hp2⟩
    · rw [hv]; exact ⟨hp1, Or.inr ⟨_, rfl, soft_format⟩⟩
    · rw [hv]
      simp only []
      refine ⟨hp2.of_eq T rfl rfl, ?_⟩
      rcases buildFunctionPattern_cases v with ⟨fp, hfp⟩ | hfp
      · rw [hfp, wrapF_ok]
        simp only [bind, Except.bind]
        obtain ⟨bits, hb, hl⟩ := readDataBits_spec fp (unmask fi.2 p2.m) (zigzagCells (unmask fi.2 p2.m).dim) []
        rw [hb]
        simp only []
        have hd : (unmask fi.2 p2.m).dim = v.dimension := by
          show p2.m.dim = _
          rw [hm2, hdim]
        have := hfit v hmem fp hfp
        rw [hd] at hl
        simp only [List.length_nil, Nat.zero_add] at hl
        rw [if_neg (by rw [hl]; omega)]
        split
        · exact Or.inr ⟨_, rfl, soft_format⟩
        · exact Or.inl ⟨_, rfl⟩
      · rw [hfp, wrapF_soft soft_illegalArg]
        exact Or.inr ⟨_, rfl, soft_format⟩

/-! ## DataBlock_GetDataBlocks -/

theorem mapM_total {α β : Type} (f : α → Res β) (l : List α) (h : ∀ x ∈ l, ∃ y, f x = .ok y) :
    ∃ ys, l.mapM f = .ok ys := by
  induction l with
  | nil => exact ⟨[], rfl⟩
  | cons a l ih =>
    obtain ⟨y, hy⟩ := h a (by simp)
    obtain ⟨ys, hys⟩ := ih (fun x hx => h x (List.mem_cons_of_mem _ hx))
    rw [List.mapM_cons, hy, hys]
    exact ⟨_, rfl⟩

theorem rawAt_ok (raw : List Nat) (i : Nat) (h : i < raw.length) : ∃ c, rawAt raw i = .ok c := by
  unfold rawAt
  rw [List.getElem?_eq_getElem h]
  exact ⟨_, rfl⟩

theorem idx_lt {i a j n : Nat} (hi : i < a) (hj : j < n) : i * n + j < a * n := by
  have h1 : (i + 1) * n ≤ a * n := Nat.mul_le_mul_right n hi
  rw [Nat.add_mul, Nat.one_mul] at h1
  omega

/-- the three filling loops stay inside `rawCodewords` when it holds `(sd + ne)·n + (n − L)` codewords -/
theorem blockCodewords_ok (raw : List Nat) (n L sd ne j : Nat) (hj : j < n)
    (hlen : (sd + ne) * n + (n - L) ≤ raw.length) : ∃ cw, blockCodewords raw n L sd ne j = .ok cw := by
  unfold blockCodewords
  have hexp : (sd + ne) * n = sd * n + ne * n := Nat.add_mul _ _ _
  obtain ⟨data, hdata⟩ := mapM_total (fun i => rawAt raw (i * n + j)) (List.range sd) (by
    intro i hi
    have hi' : i < sd := List.mem_range.mp hi
    have := idx_lt hi' hj
    exact rawAt_ok raw _ (by omega))
  obtain ⟨ecs, hecs⟩ := mapM_total (fun k => rawAt raw (sd * n + (n - L) + k * n + j)) (List.range ne) (by
    intro k hk
    have hk' : k < ne := List.mem_range.mp hk
    have := idx_lt hk' hj
    exact rawAt_ok raw _ (by omega))
  rw [hdata, hecs]
  by_cases hL : j ≥ L
  · obtain ⟨c, hc⟩ := rawAt_ok raw (sd * n + (j - L)) (by omega)
    simp only [hL, if_true, hc, bind, Except.bind, pure, Except.pure]
    exact ⟨_, rfl⟩
  · simp only [hL, if_false, bind, Except.bind, pure, Except.pure]
    exact ⟨_, rfl⟩

theorem takeWhile_ne_len (s c1 : Nat) : ∀ c2 : Nat,
    ((List.replicate c2 (s + 1) ++ List.replicate c1 s).takeWhile (· ≠ s)).length ≤ c2
  | 0 => by
    cases c1 with
    | zero => simp
    | succ c => simp [List.replicate_succ]
  | c2 + 1 => by
    rw [List.replicate_succ, List.cons_append, List.takeWhile_cons]
    split
    · simp only [List.length_cons]
      have := takeWhile_ne_len s c1 c2
      omega
    · simp

/-- the block list of a well-formed entry: `c1 ≥ 1` short blocks followed by `c2 ≥ 0` blocks that are
    one data codeword longer -/
theorem shapes_of_wf (eb : ECBlocks) (h : wfBlocks eb = true) :
    ∃ c1 c2 d, 1 ≤ c1 ∧
      blockShapes eb = List.replicate c1 (d, eb.ecPerBlock + d) ++ List.replicate c2 (d + 1, eb.ecPerBlock + (d + 1)) ∧
      eb.total = c1 * (d + eb.ecPerBlock) + c2 * (d + 1 + eb.ecPerBlock) := by
  unfold wfBlocks at h
  split at h
  · rename_i c d hg
    refine ⟨c, 0, d, by simpa using h, ?_, ?_⟩
    · simp [blockShapes, hg]
    · simp [ECBlocks.total, hg]
  · rename_i c1 d1 c2 d2 hg
    simp only [Bool.and_eq_true, decide_eq_true_eq, beq_iff_eq] at h
    obtain ⟨⟨h1, _⟩, hd⟩ := h
    subst hd
    refine ⟨c1, c2, d1, h1, ?_, ?_⟩
    · simp [blockShapes, hg]
    · simp [ECBlocks.total, hg]
  · cases h

theorem getDataBlocks_spec (v : VersionInfo) (hv : VWF v) (raw : List Nat) (ec : EC) :
    (∃ bs, getDataBlocks raw v ec = .ok bs) ∨ getDataBlocks raw v ec = .error .illegalArg := by
  unfold getDataBlocks
  by_cases hl : raw.length ≠ v.totalCodewords
  · rw [if_pos hl]; exact Or.inr rfl
  · rw [if_neg hl]
    have hl' : raw.length = v.totalCodewords := by omega
    have hidx : ec.index < v.ecBlocks.length := by rw [hv.len]; cases ec <;> decide
    rw [List.getElem?_eq_getElem hidx]
    simp only []
    obtain ⟨hwf, htot⟩ := hv.blocks _ (List.getElem_mem hidx)
    generalize v.ecBlocks[ec.index] = eb at hwf htot
    obtain ⟨c1, c2, d, hc1, hshape, htotal⟩ := shapes_of_wf eb hwf
    rw [hshape]
    obtain ⟨c, rfl⟩ : ∃ c, c1 = c + 1 := ⟨c1 - 1, by omega⟩
    rw [List.replicate_succ, List.cons_append]
    simp only []
    left
    apply mapM_total
    intro sj hsj
    obtain ⟨⟨sh, j⟩, rfl⟩ : ∃ q : (Nat × Nat) × Nat, sj = q := ⟨sj, rfl⟩
    have hj := (List.mem_zipIdx hsj).2.1
    simp only [Nat.zero_add, List.length_cons, List.length_append, List.length_replicate] at hj
    have hlens : (((d, eb.ecPerBlock + d) :: (List.replicate c (d, eb.ecPerBlock + d) ++
        List.replicate c2 (d + 1, eb.ecPerBlock + (d + 1)))).map (·.2)) =
        List.replicate (c + 1) (eb.ecPerBlock + d) ++ List.replicate c2 (eb.ecPerBlock + d + 1) := by
      simp [List.replicate_succ, Nat.add_assoc]
    have hbound : ((eb.ecPerBlock + d - eb.ecPerBlock) + (eb.ecPerBlock + d - (eb.ecPerBlock + d - eb.ecPerBlock))) *
        (c + 1 + c2) + ((c + 1 + c2) - longerStart (eb.ecPerBlock + d)
          (List.replicate (c + 1) (eb.ecPerBlock + d) ++ List.replicate c2 (eb.ecPerBlock + d + 1))) ≤ raw.length := by
      have e1 : eb.ecPerBlock + d - eb.ecPerBlock = d := by omega
      have e2 : eb.ecPerBlock + d - d = eb.ecPerBlock := by omega
      rw [e1, e2]
      unfold longerStart
      rw [List.reverse_append, List.reverse_replicate, List.reverse_replicate]
      have ht := takeWhile_ne_len (eb.ecPerBlock + d) (c + 1) c2
      simp only [List.length_append, List.length_replicate]
      rw [hl', ← htot, htotal]
      have harith : (d + eb.ecPerBlock) * (c + 1 + c2) + c2 =
          (c + 1) * (d + eb.ecPerBlock) + c2 * (d + 1 + eb.ecPerBlock) := by grind
      omega
    simp only [List.length_cons, List.length_append, List.length_replicate, hlens]
    have hj' : j < c + 1 + c2 := by omega
    have hn : c + c2 + 1 = c + 1 + c2 := by omega
    rw [hn]
    obtain ⟨cw, hcw⟩ := blockCodewords_ok raw (c + 1 + c2) _ _ _ j hj' hbound
    rw [hcw]
    exact ⟨_, rfl⟩

/-! ## error correction, one decoding attempt, the mirrored retry -/

/-- a result, FormatException or ChecksumException -/
def FC {α : Type} (r : Res α) : Prop := (∃ a, r = .ok a) ∨ r = .error .format ∨ r = .error .checksum

/-- what is assumed of the Reed-Solomon block decoder: it never panics -/
def RSNoPanic (rs : List Nat → Nat → Res (List Nat)) : Prop := ∀ cw n w, rs cw n ≠ .error (.panic w)

theorem correctBlocks_spec (rs : List Nat → Nat → Res (List Nat)) (hrs : RSNoPanic rs) :
    ∀ blocks : List (Nat × List Nat), (∃ d, correctBlocks rs blocks = .ok d) ∨ correctBlocks rs blocks = .error .checksum
  | [] => Or.inl ⟨_, rfl⟩
  | (nd, cw) :: rest => by
    unfold correctBlocks
    rcases correctBlocks_spec rs hrs rest with ⟨t, ht⟩ | ht
    · cases hr : rs cw (cw.length - nd) with
      | ok w => simp [ht, bind, Except.bind]
      | error e =>
        cases e with
        | panic w => exact absurd hr (hrs _ _ w)
        | _ => simp [bind, Except.bind]
    · cases hr : rs cw (cw.length - nd) with
      | ok w => simp [ht, bind, Except.bind]
      | error e =>
        cases e with
        | panic w => exact absurd hr (hrs _ _ w)
        | _ => simp [bind, Except.bind]

theorem decodeOnce_spec (T : Tables) (hT : wfVersions T.versions = true) (hfit : CwFits T)
    (rs : List Nat → Nat → Res (List Nat)) (hrs : RSNoPanic rs) (hint : Hint) (p : Parser) (hp : PInv T p) :
    PInv T (decodeOnce T rs hint p).2 ∧ FC (decodeOnce T rs hint p).1 := by
  unfold decodeOnce
  rcases readVersion_spec T hT p hp with hv | ⟨v, p1, hv, hmem, _, _, _, _, hp1⟩
  · rw [hv]; exact ⟨hp, Or.inr (Or.inl rfl)⟩
  · rw [hv]
    simp only []
    rcases readFormat_spec T p1 with hf | ⟨fi, p2, hf, hm2, hv2, _⟩
    · rw [hf]; exact ⟨hp1, Or.inr (Or.inl rfl)⟩
    · rw [hf]
      simp only []
      have hp2 : PInv T p2 := hp1.of_eq T (by rw [hm2]) hv2
      obtain ⟨hp3, hcw⟩ := readCodewords_spec T hT hfit p2 hp2
      obtain ⟨r3, p3, h3⟩ : ∃ r3 p3, readCodewords T p2 = (r3, p3) := ⟨_, _, rfl⟩
      rw [h3] at hp3 hcw ⊢
      simp only [] at hp3 hcw
      rcases hcw with ⟨cws, hc⟩ | ⟨e, hc, hs⟩
      · subst hc
        simp only []
        refine ⟨hp3, ?_⟩
        rcases getDataBlocks_spec v (vwf_of_mem _ hT v hmem) cws fi.1 with ⟨bs, hb⟩ | hb
        · rw [hb, wrapF_ok]
          simp only [bind, Except.bind]
          rcases correctBlocks_spec rs hrs bs with ⟨d, hd⟩ | hd
          · rw [hd]
            simp only []
            rcases parse_fmt T.eci d v.num hint with ⟨pp, hpp⟩ | hpp
            · rw [hpp]; exact Or.inl ⟨_, rfl⟩
            · rw [hpp]; exact Or.inr (Or.inl rfl)
          · rw [hd]; exact Or.inr (Or.inr rfl)
        · rw [hb, wrapF_soft soft_illegalArg]
          exact Or.inr (Or.inl rfl)
      · subst hc
        simp only []
        rw [wrapF_soft hs]
        exact ⟨hp3, Or.inr (Or.inl rfl)⟩

/-- `Decoder.Decode` on an arbitrary matrix: a result, FormatException or ChecksumException -/
theorem decode_spec (T : Tables) (hT : wfVersions T.versions = true) (hfit : CwFits T)
    (rs : List Nat → Nat → Res (List Nat)) (hrs : RSNoPanic rs) (hint : Hint) (m : Matrix) :
    FC (decode T rs hint m) := by
  unfold decode
  rcases newParser_spec T m with hn | ⟨p, hn, hp⟩
  · rw [hn]; exact Or.inr (Or.inl rfl)
  · rw [hn]
    simp only []
    obtain ⟨hp1, hfc⟩ := decodeOnce_spec T hT hfit rs hrs hint p hp
    obtain ⟨r1, p1, h1⟩ : ∃ r1 p1, decodeOnce T rs hint p = (r1, p1) := ⟨_, _, rfl⟩
    rw [h1] at hp1 hfc ⊢
    simp only [] at hp1 hfc
    -- the parser handed to the second attempt
    have hq : PInv T (setMirror (remask p1) true) := by
      refine ⟨?_, ?_, fun v hv => by cases hv⟩
      · have : (remask p1).m.dim = p1.m.dim := by unfold remask; split <;> rfl
        show (remask p1).m.dim ≥ 21
        rw [this]; exact hp1.dim21
      · have : (remask p1).m.dim = p1.m.dim := by unfold remask; split <;> rfl
        show (remask p1).m.dim % 4 = 1
        rw [this]; exact hp1.dim4
    -- the second attempt: a result, FormatException or ChecksumException
    have hsecond : FC (do
        let (_, p) ← readVersion T (setMirror (remask p1) true)
        let (_, p) ← readFormatInformation T p
        let p := { p with m := mirrorMatrix p.m }
        let d ← (decodeOnce T rs hint p).1
        (.ok { d with mirrored := true } : Res Decoded)) := by
      rcases readVersion_spec T hT _ hq with hv | ⟨v, q1, hv, _, _, _, _, _, hq1⟩
      · rw [hv]; exact Or.inr (Or.inl rfl)
      · rw [hv]
        simp only [bind, Except.bind]
        rcases readFormat_spec T q1 with hf | ⟨fi, q2, hf, hm2, hv2, _⟩
        · rw [hf]; exact Or.inr (Or.inl rfl)
        · rw [hf]
          simp only []
          have hq2 : PInv T { q2 with m := mirrorMatrix q2.m } :=
            hq1.of_eq T (by show q2.m.dim = _; rw [hm2]) hv2
          rcases (decodeOnce_spec T hT hfit rs hrs hint _ hq2).2 with ⟨d, hd⟩ | hd | hd
          · rw [hd]; exact Or.inl ⟨_, rfl⟩
          · rw [hd]; exact Or.inr (Or.inl rfl)
          · rw [hd]; exact Or.inr (Or.inr rfl)
    rcases hfc with ⟨d, hd⟩ | hd | hd
    · subst hd; exact Or.inl ⟨_, rfl⟩
    · subst hd
      simp only []
      rcases hsecond with ⟨d, hd⟩ | hd | hd
      · rw [hd]; exact Or.inl ⟨_, rfl⟩
      · rw [hd]; exact Or.inr (Or.inl rfl)
      · rw [hd]; exact Or.inr (Or.inl rfl)
    · subst hd
      simp only []
      rcases hsecond with ⟨d, hd⟩ | hd | hd
      · rw [hd]; exact Or.inl ⟨_, rfl⟩
      · rw [hd]; exact Or.inr (Or.inr rfl)
      · rw [hd]; exact Or.inr (Or.inr rfl)

end Gzx.Proofs.TotalQRDec
