/-
  C06 — a kernel-evaluable check of the per-version obligation `CwFits` of Proofs/TotalQRDec.lean
  ("the symbol has room for at most totalCodewords codewords outside its function patterns"), and its
  soundness.  The check walks the zig-zag column pairs; the function-pattern cells of one column are
  held in ONE natural number (bit y = row y), so that the kernel's big-number arithmetic does the work.
  Core Lean only.
-/
import Gzx.Proofs.TotalQRDec
namespace Gzx.Proofs.TotalQRFit
open Gzx Gzx.QRDec Gzx.Proofs.TotalQRDec

/-- rows of column `x` covered by the regions: bit `y` is set iff some region has `(x, y)` -/
def colMask : List Region → Nat → Nat
  | [], _ => 0
  | r :: rs, x =>
    (if r.left ≤ x ∧ x < r.left + r.width then (2 ^ r.height - 1) <<< r.top else 0) ||| colMask rs x

theorem colMask_testBit (regs : List Region) (x y : Nat) :
    (colMask regs x).testBit y = regs.any (·.has x y) := by
  induction regs with
  | nil => simp [colMask]
  | cons r rs ih =>
    simp only [colMask, Nat.testBit_or, ih, List.any_cons]
    congr 1
    unfold Region.has
    by_cases hx : r.left ≤ x ∧ x < r.left + r.width
    · rw [if_pos hx, Nat.testBit_shiftLeft, Nat.testBit_two_pow_sub_one]
      by_cases hy : r.top ≤ y
      · by_cases hy2 : y < r.top + r.height
        · have : y - r.top < r.height := by omega
          simp [hx.1, hx.2, hy, hy2, this]
        · have : ¬ y - r.top < r.height := by omega
          simp [hx.1, hx.2, hy, hy2, this]
      · simp [hy]
    · rw [if_neg hx]
      by_cases h1 : r.left ≤ x
      · have : ¬ x < r.left + r.width := fun h => hx ⟨h1, h⟩
        simp [h1, this]
      · simp [h1]

/-- evaluate `m` once, then continue (for the kernel: the continuation receives a literal) -/
def forceNat (m : Nat) (k : Nat → Nat) : Nat :=
  match m with
  | 0 => k 0
  | n + 1 => k (n + 1)

theorem forceNat_eq (m : Nat) (k : Nat → Nat) : forceNat m k = k m := by
  cases m <;> rfl

/-- data cells among the first `k` cells of one column walked upwards (`up`) or downwards -/
def colFree (mask dim : Nat) (xin up : Bool) : Nat → Nat
  | 0 => 0
  | k + 1 =>
    colFree mask dim xin up k +
      (if xin && decide ((if up then dim - 1 - k else k) < dim) && mask.testBit (if up then dim - 1 - k else k)
       then 0 else 1)

def pairsFree (regs : List Region) (dim : Nat) : List (Nat × Bool) → Nat
  | [] => 0
  | ju :: rest =>
    forceNat (colMask regs ju.1) (fun m1 => forceNat (colMask regs (ju.1 - 1)) (fun m2 =>
      colFree m1 dim (decide (ju.1 < dim)) ju.2 dim + colFree m2 dim (decide (ju.1 - 1 < dim)) ju.2 dim)) +
    pairsFree regs dim rest

/-- the region list of `Version.buildFunctionPattern` -/
def functionRegions (v : VersionInfo) : Option (List Region) :=
  match alignmentRegions v.centers with
  | none => none
  | some al =>
    some ([⟨0, 0, 9, 9⟩, ⟨v.dimension - 8, 0, 8, 9⟩, ⟨0, v.dimension - 8, 9, 8⟩] ++ al ++
      [⟨6, 9, 1, v.dimension - 17⟩, ⟨9, 6, v.dimension - 17, 1⟩] ++
      (if v.num > 6 then [⟨v.dimension - 11, 0, 3, 6⟩, ⟨0, v.dimension - 11, 6, 3⟩] else []))

/-- the check, one version -/
def cwFitsB (v : VersionInfo) : Bool :=
  match functionRegions v with
  | some regs =>
    decide (pairsFree regs v.dimension (colPairs v.dimension (v.dimension - 1) true) / 8 ≤ v.totalCodewords)
  | none => true

/-! ## soundness -/

theorem buildFunctionPattern_regs (v : VersionInfo) (fp : Matrix) (h : buildFunctionPattern v = .ok fp) :
    ∃ regs, functionRegions v = some regs ∧ fp.dim = v.dimension ∧ ∀ x y, fp.bit x y = regs.any (·.has x y) := by
  unfold buildFunctionPattern at h
  unfold functionRegions
  simp only [] at h
  cases hal : alignmentRegions v.centers with
  | none => rw [hal] at h; cases h
  | some al =>
    rw [hal] at h
    simp only [] at h ⊢
    by_cases h6 : v.num > 6
    · simp only [h6, if_true] at h ⊢
      split at h
      · cases h
        exact ⟨_, rfl, rfl, fun x y => rfl⟩
      · cases h
    · simp only [h6, if_false] at h ⊢
      split at h
      · cases h
        exact ⟨_, rfl, rfl, fun x y => rfl⟩
      · cases h

theorem freeCount_append (fp : Matrix) (l1 l2 : List (Nat × Nat)) :
    freeCount fp (l1 ++ l2) = freeCount fp l1 + freeCount fp l2 := by
  induction l1 with
  | nil => simp [freeCount]
  | cons a l ih => simp only [List.cons_append, freeCount, ih]; omega

theorem getB_mask (fp : Matrix) (regs : List Region) (hbit : ∀ x y, fp.bit x y = regs.any (·.has x y)) (x y : Nat) :
    fp.getB x y = (decide (x < fp.dim) && decide (y < fp.dim) && (colMask regs x).testBit y) := by
  unfold Matrix.getB
  rw [colMask_testBit, hbit]
  by_cases hx : x < fp.dim
  · by_cases hy : y < fp.dim
    · simp [hx, hy]
    · simp [hy]
  · simp [hx]

theorem freeCount_column (fp : Matrix) (regs : List Region) (hbit : ∀ x y, fp.bit x y = regs.any (·.has x y))
    (a b : Nat) (up : Bool) : ∀ k : Nat,
    freeCount fp ((List.range k).flatMap (fun count =>
      [(a, if up then fp.dim - 1 - count else count), (b, if up then fp.dim - 1 - count else count)])) =
    colFree (colMask regs a) fp.dim (decide (a < fp.dim)) up k +
      colFree (colMask regs b) fp.dim (decide (b < fp.dim)) up k
  | 0 => by simp [freeCount, colFree]
  | k + 1 => by
    rw [List.range_succ, List.flatMap_append, freeCount_append, freeCount_column fp regs hbit a b up k]
    simp only [List.flatMap_cons, List.flatMap_nil, List.append_nil, freeCount, colFree,
      getB_mask fp regs hbit]
    omega

theorem freeCount_pairs (fp : Matrix) (regs : List Region) (hbit : ∀ x y, fp.bit x y = regs.any (·.has x y)) :
    ∀ pairs : List (Nat × Bool),
    freeCount fp (pairs.flatMap (fun ju =>
      (List.range fp.dim).flatMap (fun count =>
        let i := if ju.2 then fp.dim - 1 - count else count
        [(ju.1, i), (ju.1 - 1, i)]))) = pairsFree regs fp.dim pairs
  | [] => by simp [freeCount, pairsFree]
  | ju :: rest => by
    rw [List.flatMap_cons, freeCount_append, freeCount_pairs fp regs hbit rest]
    simp only [pairsFree, forceNat_eq]
    rw [← freeCount_column fp regs hbit ju.1 (ju.1 - 1) ju.2 fp.dim]

/-- the check implies the obligation -/
theorem cwFits_of_check (T : Tables) (h : T.versions.all cwFitsB = true) : CwFits T := by
  intro v hv fp hfp
  have hc := List.all_eq_true.mp h v hv
  obtain ⟨regs, hregs, hdim, hbit⟩ := buildFunctionPattern_regs v fp hfp
  unfold cwFitsB at hc
  rw [hregs] at hc
  simp only [decide_eq_true_eq] at hc
  have := freeCount_pairs fp regs hbit (colPairs v.dimension (v.dimension - 1) true)
  rw [hdim] at this
  unfold zigzagCells
  rw [this]
  exact hc

end Gzx.Proofs.TotalQRFit
