/-
  C03 — helper lemmas for `upcean_read_write`: the best-match digit decoder (`decodeDigit`, `digitsLoop`)
  on runs that are an exact multiple of a table pattern picks exactly that pattern, for every table whose
  patterns are pairwise distinct, of equal length and equal width sum.
-/
import Gzx.Proofs.UpceanRow
set_option linter.unusedSimpArgs false
set_option linter.unusedVariables false
namespace Gzx.OneD
open Gzx Gzx.CheckDigit

abbrev pmv := RunLength.patternMatchVariance

theorem absDiff_eq_zero {a b : Nat} (h : RunLength.absDiff a b = 0) : a = b := by
  unfold RunLength.absDiff at h
  split at h <;> omega

theorem devs_zero_eq (s P : Nat) (hsP : 0 < s * P) : ∀ (p q : List Nat), p.length = q.length →
    (∀ d ∈ RunLength.devs (s * P) P (p.map (s * ·)) q, d = 0) → p = q := by
  intro p
  induction p with
  | nil => intro q hl _; cases q with
    | nil => rfl
    | cons _ _ => simp at hl
  | cons x xs ih =>
    intro q hl hz
    cases q with
    | nil => simp at hl
    | cons y ys =>
      simp only [List.map_cons, RunLength.devs, List.mem_cons, forall_eq_or_imp] at hz
      have h1 := absDiff_eq_zero hz.1
      have h2 : x * (s * P) = y * (s * P) := by
        rw [← h1, Nat.mul_comm s x, Nat.mul_assoc]
      have hx : x = y := Nat.eq_of_mul_eq_mul_right hsP h2
      have := ih ys (by simpa using hl) hz.2
      rw [hx, this]

theorem sumL_eq_zero (xs : List Nat) (h : sumL xs = 0) : ∀ d ∈ xs, d = 0 := by
  induction xs with
  | nil => simp
  | cons x xs ih =>
    rw [sumL_cons] at h
    intro d hd
    simp only [List.mem_cons] at hd
    rcases hd with rfl | hd
    · omega
    · exact ih (by omega) d hd

/-- a different pattern of the same length and width sum never scores 0 on an exact multiple -/
theorem pmv_ne (p q : List Nat) (s a b : Nat) (hs : 0 < s) (hl : q.length = p.length) (hsum : sumL q = sumL p)
    (hP : 0 < sumL p) (hne : p ≠ q) :
    pmv (p.map (s * ·)) q a b = .ok none ∨ ∃ n d, pmv (p.map (s * ·)) q a b = .ok (some (n, d)) ∧ 0 < n := by
  unfold pmv RunLength.patternMatchVariance
  have h0 : ¬ q.length < (p.map (s * ·)).length := by simp; omega
  have htake : q.take (p.map (s * ·)).length = q := List.take_of_length_le (by simp; omega)
  simp only [h0, if_false, htake, rl_sumL, sumL_scale, hsum]
  split
  · exact Or.inl rfl
  · split
    · exact Or.inl rfl
    · refine Or.inr ⟨_, _, rfl, ?_⟩
      apply Nat.pos_of_ne_zero
      intro hz
      apply hne
      exact devs_zero_eq s (sumL p) (Nat.mul_pos hs hP) p q hl.symm (sumL_eq_zero _ hz)

theorem bestLoop_stay (c : List Nat) : ∀ (ps : List (List Nat)) (i : Nat) (best : Nat × Nat) (bm : Option Nat),
    best.1 = 0 → (∀ q ∈ ps, ∃ r, pmv c q 7 10 = .ok r) → bestLoop c ps i best bm = .ok bm := by
  intro ps
  induction ps with
  | nil => intro i best bm _ _; rfl
  | cons q ps ih =>
    intro i best bm hb hall
    obtain ⟨r, hr⟩ := hall q (by simp)
    have hrest : ∀ q ∈ ps, ∃ r, pmv c q 7 10 = .ok r := fun q' h' => hall q' (by simp [h'])
    unfold pmv at hr
    simp only [bestLoop, hr]
    cases r with
    | none => exact ih _ _ _ hb hrest
    | some v =>
      have : fracLt v best = false := by simp [fracLt, hb]
      simp only [this, Bool.false_eq_true, if_false]
      exact ih _ _ _ hb hrest

theorem bestLoop_pick (c : List Nat) (den : Nat) (hden : 0 < den) :
    ∀ (ps : List (List Nat)) (j i : Nat) (best : Nat × Nat) (bm : Option Nat) (hj : j < ps.length),
    0 < best.1 →
    pmv c ps[j] 7 10 = .ok (some (0, den)) →
    (∀ q ∈ ps.take j, pmv c q 7 10 = .ok none ∨ ∃ n d, pmv c q 7 10 = .ok (some (n, d)) ∧ 0 < n) →
    (∀ q ∈ ps.drop (j + 1), ∃ r, pmv c q 7 10 = .ok r) →
    bestLoop c ps i best bm = .ok (some (i + j)) := by
  intro ps
  induction ps with
  | nil => intro j i best bm hj; simp at hj
  | cons q ps ih =>
    intro j i best bm hj hb hhit hbefore hafter
    cases j with
    | zero =>
      simp only [List.getElem_cons_zero] at hhit
      unfold pmv at hhit
      simp only [bestLoop, hhit]
      have : fracLt (0, den) best = true := by
        simp only [fracLt, Nat.zero_mul, decide_eq_true_eq]
        exact Nat.mul_pos hb hden
      simp only [this, if_true]
      exact bestLoop_stay c ps _ _ _ rfl (by simpa using hafter)
    | succ j =>
      have hj' : j < ps.length := by simpa using hj
      have hq := hbefore q (by simp)
      have hbefore' : ∀ q ∈ ps.take j, pmv c q 7 10 = .ok none ∨ ∃ n d, pmv c q 7 10 = .ok (some (n, d)) ∧ 0 < n :=
        fun q' h' => hbefore q' (by simp [h'])
      have hafter' : ∀ q ∈ ps.drop (j + 1), ∃ r, pmv c q 7 10 = .ok r := by simpa using hafter
      have hhit' : pmv c ps[j] 7 10 = .ok (some (0, den)) := by simpa using hhit
      have e : i + (j + 1) = i + 1 + j := by omega
      rw [e]
      unfold pmv at hq
      rcases hq with hq | ⟨n, d, hq, hn⟩
      · simp only [bestLoop, hq]
        exact ih j (i + 1) best bm hj' hb hhit' hbefore' hafter'
      · simp only [bestLoop, hq]
        split
        · exact ih j (i + 1) (n, d) (some i) hj' hn hhit' hbefore' hafter'
        · exact ih j (i + 1) best bm hj' hb hhit' hbefore' hafter'

/-- what the digit theorems need of a pattern table: pairwise distinct rows of four positive widths with
    the same sum `M` -/
structure DigitTable (P : List (List Nat)) (M : Nat) : Prop where
  nodup : P.Nodup
  shape : ∀ q ∈ P, q.length = 4 ∧ sumL q = M ∧ ∀ w ∈ q, 0 < w

theorem DigitTable.Mpos {P M} (h : DigitTable P M) (j : Nat) (hj : j < P.length) : 0 < M := by
  have hq := h.shape P[j] (List.getElem_mem hj)
  rw [← hq.2.1]
  exact sumL_pos _ (by intro e; have := hq.1; rw [e] at this; simp at this) hq.2.2

theorem nodup_take_ne {α} (l : List α) (h : l.Nodup) (j : Nat) (hj : j < l.length) : ∀ q ∈ l.take j, q ≠ l[j] := by
  intro q hq
  have hsplit : l = l.take j ++ l.drop j := (List.take_append_drop j l).symm
  rw [hsplit] at h
  have hd := (List.nodup_append.mp h).2.2
  have hm : l[j] ∈ l.drop j := by
    have : (l.drop j)[0]'(by simp; omega) = l[j] := by simp
    rw [← this]; exact List.getElem_mem _
  exact hd q hq _ hm

/-- `decodeDigit` at a run boundary where the next four runs are `s`·(row `j` of the table): digit `j`, `s·M` pixels -/
theorem decodeDigit_at {row off} {P : List (List Nat)} {M : Nat} (hP : DigitTable P M) (j : Nat) (hj : j < P.length)
    (s : Nat) (hs : 0 < s) (rest : List Nat) (col : Bool)
    (h : RowAt row off (P[j].map (s * ·) ++ rest) col) :
    decodeDigit row off P = .ok (j, s * M) := by
  have hq := hP.shape P[j] (List.getElem_mem hj)
  have hM := hP.Mpos j hj
  have hrec : RunLength.recordPattern row off 4 = .ok (P[j].map (s * ·)) := by
    rw [Properties.C20.recordPattern_eq_runs row off 4 (by omega), h.drop, runs_appendPattern _ _ h.pos]
    have hl : (P[j].map (s * ·) ++ rest).length ≥ 4 := by simp [hq.1]
    simp only [hl, if_true]
    have : (P[j].map (s * ·)).length = 4 := by simp [hq.1]
    rw [← this, List.take_left']
    rfl
  have hbest : bestLoop (P[j].map (s * ·)) P 0 (12, 25) none = .ok (some j) := by
    have := bestLoop_pick (P[j].map (s * ·)) (sumL P[j] * (s * sumL P[j]))
      (by rw [hq.2.1]; exact Nat.mul_pos hM (Nat.mul_pos hs hM)) P j 0 (12, 25) none hj (by decide)
      (pmv_multiple P[j] s 7 10 hs)
      (by
        intro q hqm
        have hqs := hP.shape q (List.mem_of_mem_take hqm)
        exact pmv_ne P[j] q s 7 10 hs (by rw [hqs.1, hq.1]) (by rw [hqs.2.1, hq.2.1]) (by rw [hq.2.1]; exact hM)
          (fun e => nodup_take_ne P hP.nodup j hj q hqm e.symm))
      (by
        intro q hqm
        have hqs := hP.shape q (List.mem_of_mem_drop hqm)
        exact Properties.C20.pmv_total _ _ 7 10 (by simp [hqs.1, hq.1]))
    simpa using this
  unfold decodeDigit
  simp only [hrec, hbest, sumL_scale, hq.2.1]

theorem getD_eq_getElem {α} (l : List α) (i : Nat) (d : α) (hi : i < l.length) : l.getD i d = l[i] := by
  simp [List.getD_eq_getElem?_getD, List.getElem?_eq_getElem hi]

/-- the widths the writer draws for table rows `idx`, at `s` pixels per module -/
def digitRuns (P : List (List Nat)) (s : Nat) (idx : List Nat) : List Nat :=
  (idx.map (fun i => (P.getD i []).map (s * ·))).flatten

theorem digitRuns_cons (P : List (List Nat)) (s i : Nat) (idx : List Nat) :
    digitRuns P s (i :: idx) = (P.getD i []).map (s * ·) ++ digitRuns P s idx := rfl

/-- `digitsLoop` over `idx.length` digits drawn from table rows `idx`, followed by at least one more run -/
theorem digitsLoop_at {row} {P : List (List Nat)} {M : Nat} (hP : DigitTable P M) (s : Nat) (hs : 0 < s) :
    ∀ (idx : List Nat) (off : Nat) (rest : List Nat) (col : Bool) (acc : List Nat),
    (∀ i ∈ idx, i < P.length) → rest ≠ [] →
    RowAt row off (digitRuns P s idx ++ rest) col →
    digitsLoop row P idx.length off acc = .ok (acc.reverse ++ idx, off + s * M * idx.length) ∧
    RowAt row (off + s * M * idx.length) rest col := by
  intro idx
  induction idx with
  | nil =>
    intro off rest col acc _ _ h
    simp only [digitRuns, List.map_nil, List.flatten_nil, List.nil_append] at h
    simp [digitsLoop, h]
  | cons i idx ih =>
    intro off rest col acc hidx hne h
    have hi : i < P.length := hidx i (by simp)
    rw [digitRuns_cons, getD_eq_getElem _ _ _ hi, List.append_assoc] at h
    have hlt : off < row.length := h.lt (by
      have hl4 := (hP.shape P[i] (List.getElem_mem hi)).1
      intro e
      have hl0 := congrArg List.length e
      simp [hl4] at hl0)
    have hd := decodeDigit_at hP i hi s hs _ col h
    have hadv := h.advance _ _
    have hq := hP.shape P[i] (List.getElem_mem hi)
    simp only [List.length_map, hq.1, sumL_scale, hq.2.1] at hadv
    have hadv' : RowAt row (off + s * M) (digitRuns P s idx ++ rest) col := by simpa using hadv
    obtain ⟨h1, h2⟩ := ih (off + s * M) rest col (i :: acc) (fun k hk => hidx k (by simp [hk])) hne hadv'
    have e : off + s * M + s * M * idx.length = off + s * M * (idx.length + 1) := by
      rw [Nat.mul_add]; omega
    constructor
    · simp only [List.length_cons, digitsLoop, hlt, if_true, hd, h1]
      rw [e]; simp
    · rw [List.length_cons, ← e]; exact h2

end Gzx.OneD
