/-
  C03 — `upcean_read_write`, row level: the faithful row decoder on the rendered run widths of a two-half
  symbol (EAN-13 / EAN-8) and of a UPC-E symbol, for table-row indices instead of contents.
-/
import Gzx.Proofs.UpceanRead
set_option linter.unusedSimpArgs false
set_option linter.unusedVariables false
namespace Gzx.OneD
open Gzx Gzx.CheckDigit

theorem ne_nil_of_odd (l : List Nat) (h : l.length % 2 = 1) : l ≠ [] := by
  intro e; rw [e] at h; simp at h

theorem map_ne_nil (l : List Nat) (f : Nat → Nat) (h : l ≠ []) : l.map f ≠ [] := by
  simpa using h

/-- what the reader's primitives return on a rendered two-half symbol (start guard, left digits drawn from table `PL`,
    middle guard, right digits drawn from the L table, end guard) -/
theorem twoHalf_facts (T : Tables) (hT : WFFacts T) (PL : List (List Nat)) (hPL : DigitTable PL 7) (il ir : List Nat)
    (hilt : ∀ i ∈ il, i < PL.length) (hirt : ∀ i ∈ ir, i < T.lPatterns.length)
    (lq s rq : Nat) (hs : 0 < s) (hlq : s * sumL T.startEnd ≤ lq) (hrq : s * sumL T.startEnd < rq)
    (row : List Bool)
    (hrow : row = paddedRow lq s rq (appendPattern
      (T.startEnd ++ digitWidths PL il ++ T.middle ++ digitWidths T.lPatterns ir ++ T.startEnd) true)) :
    findStartGuardPattern T row = .ok (lq, lq + s * sumL T.startEnd) ∧
    digitsLoop row PL il.length (lq + s * sumL T.startEnd) [] =
      .ok (il, lq + s * sumL T.startEnd + s * 7 * il.length) ∧
    findGuardPattern row (lq + s * sumL T.startEnd + s * 7 * il.length) true T.middle =
      .ok (lq + s * sumL T.startEnd + s * 7 * il.length,
           lq + s * sumL T.startEnd + s * 7 * il.length + s * sumL T.middle) ∧
    digitsLoop row T.lPatterns ir.length (lq + s * sumL T.startEnd + s * 7 * il.length + s * sumL T.middle) [] =
      .ok (ir, lq + s * sumL T.startEnd + s * 7 * il.length + s * sumL T.middle + s * 7 * ir.length) ∧
    findGuardPattern row (lq + s * sumL T.startEnd + s * 7 * il.length + s * sumL T.middle + s * 7 * ir.length)
        false T.startEnd =
      .ok (lq + s * sumL T.startEnd + s * 7 * il.length + s * sumL T.middle + s * 7 * ir.length,
           lq + s * sumL T.startEnd + s * 7 * il.length + s * sumL T.middle + s * 7 * ir.length + s * sumL T.startEnd) ∧
    ¬ (lq + s * sumL T.startEnd + s * 7 * il.length + s * sumL T.middle + s * 7 * ir.length + s * sumL T.startEnd
        + s * sumL T.startEnd ≥ row.length) ∧
    isRangeWhite row
      (lq + s * sumL T.startEnd + s * 7 * il.length + s * sumL T.middle + s * 7 * ir.length + s * sumL T.startEnd)
      (lq + s * sumL T.startEnd + s * 7 * il.length + s * sumL T.middle + s * 7 * ir.length + s * sumL T.startEnd
        + s * sumL T.startEnd) = true := by
  have hgne := ne_nil_of_odd _ hT.gOdd
  have hmne := ne_nil_of_odd _ hT.mOdd
  have hG : 0 < sumL T.startEnd := sumL_pos _ hgne hT.gPos
  have hsG : 0 < s * sumL T.startEnd := Nat.mul_pos hs hG
  obtain ⟨hl1, hp1⟩ := digitWidths_shape hPL il hilt
  obtain ⟨hl2, hp2⟩ := digitWidths_shape hT.tabL ir hirt
  have hodd : (T.startEnd ++ digitWidths PL il ++ T.middle ++ digitWidths T.lPatterns ir ++ T.startEnd).length % 2 = 1 := by
    have := hT.gOdd; have := hT.mOdd
    simp only [List.length_append, hl1, hl2]; omega
  have hR : (lq :: ((T.startEnd ++ digitWidths PL il ++ T.middle ++ digitWidths T.lPatterns ir ++ T.startEnd).map (s * ·) ++ [rq]))
      = lq :: (T.startEnd.map (s * ·) ++ (digitRuns PL s il ++ (T.middle.map (s * ·) ++
          (digitRuns T.lPatterns s ir ++ (T.startEnd.map (s * ·) ++ [rq]))))) := by
    simp only [digitRuns_eq, List.map_append, List.append_assoc]
  rw [paddedRow_runs _ lq s rq hodd, hR] at hrow
  have hpos : ∀ w ∈ lq :: (T.startEnd.map (s * ·) ++ (digitRuns PL s il ++ (T.middle.map (s * ·) ++
          (digitRuns T.lPatterns s ir ++ (T.startEnd.map (s * ·) ++ [rq]))))), 0 < w := by
    intro w hw
    simp only [List.mem_cons, List.mem_append, digitRuns_eq, List.mem_singleton] at hw
    rcases hw with rfl | hw | hw | hw | hw | hw | hw
    · omega
    · exact scale_pos s hs _ hT.gPos w hw
    · exact scale_pos s hs _ hp1 w hw
    · exact scale_pos s hs _ hT.mPos w hw
    · exact scale_pos s hs _ hp2 w hw
    · exact scale_pos s hs _ hT.gPos w hw
    · simp at hw; omega
  have h0 := rowAt_zero _ false hpos
  rw [← hrow] at h0
  -- start guard
  have hne1 : digitRuns PL s il ++ (T.middle.map (s * ·) ++
      (digitRuns T.lPatterns s ir ++ (T.startEnd.map (s * ·) ++ [rq]))) ≠ [] := by
    intro e
    have := congrArg List.length e
    simp at this
  have F1 := startGuard_at T lq s _ hgne hT.gPos hs hne1 hlq h0
  have h1 := h0.advance_odd [lq] _ (by simp)
  simp only [sumL_cons, sumL_nil, Nat.zero_add, Nat.add_zero, Bool.not_false] at h1
  have h2 := h1.advance_odd _ _ (by simpa using hT.gOdd)
  rw [sumL_scale] at h2
  simp only [Bool.not_true] at h2
  -- left digits
  obtain ⟨F2, h3⟩ := digitsLoop_at hPL s hs il _ _ false [] hilt (by
    intro e
    have := congrArg List.length e
    simp at this) h2
  -- middle guard
  obtain ⟨F3, h4⟩ := guard_at T.middle s _ false hmne hT.mPos hs (by
    intro e
    have := congrArg List.length e
    simp at this) h3
  have hmo : ¬ T.middle.length % 2 = 0 := by have := hT.mOdd; omega
  simp only [hmo, if_false, Bool.not_false] at h4 F3
  -- right digits
  obtain ⟨F4, h5⟩ := digitsLoop_at hT.tabL s hs ir _ _ true [] hirt (by
    intro e
    have := congrArg List.length e
    simp at this) h4
  -- end guard
  obtain ⟨F5, h6⟩ := guard_at T.startEnd s [rq] true hgne hT.gPos hs (by simp) h5
  have hgo : ¬ T.startEnd.length % 2 = 0 := by have := hT.gOdd; omega
  simp only [hgo, if_false, Bool.not_true] at h6 F5
  obtain ⟨F6, F7⟩ := quiet_at h6 (s * sumL T.startEnd) hrq
  exact ⟨F1, by simpa using F2, F3, by simpa using F4, F5, F6, F7⟩

/-- the same for a UPC-E symbol: start guard, six digits from the L/G table, the six-module end pattern -/
theorem upce_facts (T : Tables) (hT : WFFacts T) (il : List Nat)
    (hilt : ∀ i ∈ il, i < (lAndG T.lPatterns).length)
    (lq s rq : Nat) (hs : 0 < s) (hlq : s * sumL T.startEnd ≤ lq) (hrq : s * sumL T.upceEnd < rq)
    (row : List Bool)
    (hrow : row = paddedRow lq s rq (appendPattern
      (T.startEnd ++ digitWidths (lAndG T.lPatterns) il ++ T.upceEnd) true)) :
    findStartGuardPattern T row = .ok (lq, lq + s * sumL T.startEnd) ∧
    digitsLoop row (lAndG T.lPatterns) il.length (lq + s * sumL T.startEnd) [] =
      .ok (il, lq + s * sumL T.startEnd + s * 7 * il.length) ∧
    findGuardPattern row (lq + s * sumL T.startEnd + s * 7 * il.length) true T.upceMiddleEnd =
      .ok (lq + s * sumL T.startEnd + s * 7 * il.length,
           lq + s * sumL T.startEnd + s * 7 * il.length + s * sumL T.upceEnd) ∧
    ¬ (lq + s * sumL T.startEnd + s * 7 * il.length + s * sumL T.upceEnd + s * sumL T.upceEnd ≥ row.length) ∧
    isRangeWhite row
      (lq + s * sumL T.startEnd + s * 7 * il.length + s * sumL T.upceEnd)
      (lq + s * sumL T.startEnd + s * 7 * il.length + s * sumL T.upceEnd + s * sumL T.upceEnd) = true := by
  have hgne := ne_nil_of_odd _ hT.gOdd
  have hene := hT.eNe
  have hG : 0 < sumL T.startEnd := sumL_pos _ hgne hT.gPos
  have hsG : 0 < s * sumL T.startEnd := Nat.mul_pos hs hG
  obtain ⟨hl1, hp1⟩ := digitWidths_shape hT.tabLG il hilt
  have hodd : (T.startEnd ++ digitWidths (lAndG T.lPatterns) il ++ T.upceEnd).length % 2 = 1 := by
    have := hT.gOdd; have := hT.eEven
    simp only [List.length_append, hl1]; omega
  have hR : (lq :: ((T.startEnd ++ digitWidths (lAndG T.lPatterns) il ++ T.upceEnd).map (s * ·) ++ [rq]))
      = lq :: (T.startEnd.map (s * ·) ++ (digitRuns (lAndG T.lPatterns) s il ++ (T.upceEnd.map (s * ·) ++ [rq]))) := by
    simp only [digitRuns_eq, List.map_append, List.append_assoc]
  rw [paddedRow_runs _ lq s rq hodd, hR] at hrow
  have hpos : ∀ w ∈ lq :: (T.startEnd.map (s * ·) ++ (digitRuns (lAndG T.lPatterns) s il ++
      (T.upceEnd.map (s * ·) ++ [rq]))), 0 < w := by
    intro w hw
    simp only [List.mem_cons, List.mem_append, digitRuns_eq, List.mem_singleton] at hw
    rcases hw with rfl | hw | hw | hw | hw
    · omega
    · exact scale_pos s hs _ hT.gPos w hw
    · exact scale_pos s hs _ hp1 w hw
    · exact scale_pos s hs _ hT.ePos w hw
    · simp at hw; omega
  have h0 := rowAt_zero _ false hpos
  rw [← hrow] at h0
  have hne1 : digitRuns (lAndG T.lPatterns) s il ++ (T.upceEnd.map (s * ·) ++ [rq]) ≠ [] := by
    intro e
    have := congrArg List.length e
    simp at this
  have F1 := startGuard_at T lq s _ hgne hT.gPos hs hne1 hlq h0
  have h1 := h0.advance_odd [lq] _ (by simp)
  simp only [sumL_cons, sumL_nil, Nat.zero_add, Nat.add_zero, Bool.not_false] at h1
  have h2 := h1.advance_odd _ _ (by simpa using hT.gOdd)
  rw [sumL_scale] at h2
  simp only [Bool.not_true] at h2
  obtain ⟨F2, h3⟩ := digitsLoop_at hT.tabLG s hs il _ _ false [] hilt (by simp) h2
  obtain ⟨F3, h4⟩ := guard_at T.upceEnd s [rq] false hene hT.ePos hs (by simp) h3
  simp only [hT.eEven, if_true, Bool.not_false] at h4 F3
  obtain ⟨F6, F7⟩ := quiet_at h4 (s * sumL T.upceEnd) hrq
  rw [hT.eEq]
  exact ⟨F1, by simpa using F2, F3, F6, F7⟩

end Gzx.OneD
