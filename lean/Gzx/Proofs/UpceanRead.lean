/-
  C03 — helper lemmas for `upcean_read_write`: start guard with its left quiet zone, a guard at a run
  boundary, the right quiet zone; well-formedness of the UPC/EAN tables; the rendered row as one run list.
-/
import Gzx.Proofs.UpceanDigit
import Gzx.Proofs.CheckDigit
set_option linter.unusedSimpArgs false
set_option linter.unusedVariables false
namespace Gzx.OneD
open Gzx Gzx.CheckDigit

/-! ## RowAt steps -/

theorem RowAt.advance_even {row off col} (A B : List Nat) (hA : A.length % 2 = 0) (h : RowAt row off (A ++ B) col) :
    RowAt row (off + sumL A) B col := by
  have := h.advance A B
  simpa [hA] using this

theorem RowAt.advance_odd {row off col} (A B : List Nat) (hA : A.length % 2 = 1) (h : RowAt row off (A ++ B) col) :
    RowAt row (off + sumL A) B (!col) := by
  have := h.advance A B
  have hne : ¬ A.length % 2 = 0 := by omega
  simpa [hne] using this

theorem getNextSet_skip {row off w0 w1 B} (h : RowAt row off (w0 :: w1 :: B) false) :
    getNextSet row off = off + w0 := by
  have hw1 := h.pos w1 (by simp)
  obtain ⟨k, rfl⟩ : ∃ k, w1 = k + 1 := ⟨w1 - 1, by omega⟩
  rw [getNextSet_drop row off h.le, h.drop]
  simp only [appendPattern, Bool.not_false, List.replicate_succ, List.cons_append]
  rw [getNextSet_replicate]

theorem isRangeWhite_prefix (lq : Nat) (X : List Bool) (a b : Nat) (hab : a ≤ b) (hb : b ≤ lq) :
    isRangeWhite (List.replicate lq false ++ X) a b = true := by
  unfold isRangeWhite
  have h1 : ¬ (b < a ∨ b > (List.replicate lq false ++ X).length) := by simp; omega
  rw [if_neg h1]
  rw [List.drop_append_of_le_length (by simp; omega), List.take_append_of_le_length (by simp; omega)]
  simp [List.all_eq_true]

theorem isRangeWhite_at {row off w B} (h : RowAt row off (w :: B) false) (n : Nat) (hn : n ≤ w) :
    isRangeWhite row off (off + n) = true := by
  unfold isRangeWhite
  have hl := h.length
  rw [sumL_cons] at hl
  have h1 : ¬ (off + n < off ∨ off + n > row.length) := by omega
  rw [if_neg h1, h.drop]
  simp only [appendPattern, Nat.add_sub_cancel_left]
  rw [List.take_append_of_le_length (by simp; omega)]
  simp [List.all_eq_true]

/-- L1: the start guard is found where the left quiet zone ends, provided the quiet zone is at least as wide -/
theorem startGuard_at (T : Tables) {row : List Bool} (lq s : Nat) (tail : List Nat)
    (hg : T.startEnd ≠ []) (hgpos : ∀ x ∈ T.startEnd, 0 < x) (hs : 0 < s) (htail : tail ≠ [])
    (hlq : s * sumL T.startEnd ≤ lq)
    (h : RowAt row 0 (lq :: (T.startEnd.map (s * ·) ++ tail)) false) :
    findStartGuardPattern T row = .ok (lq, lq + s * sumL T.startEnd) := by
  obtain ⟨w, rest, rfl⟩ : ∃ w rest, tail = w :: rest := by
    cases tail with
    | nil => exact absurd rfl htail
    | cons a b => exact ⟨a, b, rfl⟩
  obtain ⟨g0, g', hgg⟩ : ∃ g0 g', T.startEnd = g0 :: g' := by
    cases hc : T.startEnd with
    | nil => exact absurd hc hg
    | cons a b => exact ⟨a, b, rfl⟩
  have h1 : RowAt row lq (T.startEnd.map (s * ·) ++ w :: rest) true := by
    have := h.advance_odd [lq] _ (by simp)
    simpa [sumL_cons, sumL_nil] using this
  have hfind := findGuard_at T.startEnd s w rest true hg hgpos hs h1
  have hskip : getNextSet row 0 = getNextSet row lq := by
    have e1 : getNextSet row 0 = 0 + lq := by
      have h' := h
      rw [hgg] at h'
      simp only [List.map_cons, List.cons_append] at h'
      exact getNextSet_skip h'
    have e2 : getNextSet row lq = lq := by
      have h' := h1
      rw [hgg] at h'
      simp only [List.map_cons, List.cons_append] at h'
      exact getNextSet_at h'
    rw [e1, e2]; omega
  have hfind0 : findGuardPattern row 0 false T.startEnd = .ok (lq, lq + s * sumL T.startEnd) := by
    rw [← hfind]
    simp only [findGuardPattern, Bool.false_eq_true, if_false, Bool.not_true, hskip]
  have hrow : row = List.replicate lq false ++ appendPattern (T.startEnd.map (s * ·) ++ w :: rest) true := by
    have := h.drop
    simpa [appendPattern] using this
  have hwhite : isRangeWhite row (lq - s * sumL T.startEnd) lq = true := by
    rw [hrow]; exact isRangeWhite_prefix _ _ _ _ (by omega) (by omega)
  simp only [findStartGuardPattern, findStartLoop, hfind0]
  have e : lq + s * sumL T.startEnd - lq = s * sumL T.startEnd := by omega
  simp only [e, hwhite, hlq, ge_iff_le, and_self, if_true]

/-- L3: a guard at a run boundary, and the position after it -/
theorem guard_at {row off} (p : List Nat) (s : Nat) (tail : List Nat) (col : Bool)
    (hp : p ≠ []) (hppos : ∀ x ∈ p, 0 < x) (hs : 0 < s) (htail : tail ≠ [])
    (h : RowAt row off (p.map (s * ·) ++ tail) col) :
    findGuardPattern row off (!col) p = .ok (off, off + s * sumL p) ∧
    RowAt row (off + s * sumL p) tail (if p.length % 2 = 0 then col else !col) := by
  obtain ⟨w, rest, rfl⟩ : ∃ w rest, tail = w :: rest := by
    cases tail with
    | nil => exact absurd rfl htail
    | cons a b => exact ⟨a, b, rfl⟩
  refine ⟨findGuard_at p s w rest col hp hppos hs h, ?_⟩
  have := h.advance _ _
  simpa [sumL_scale] using this

/-- L4: the right quiet zone -/
theorem quiet_at {row off rq} (h : RowAt row off [rq] false) (n : Nat) (hn : n < rq) :
    ¬ (off + n ≥ row.length) ∧ isRangeWhite row off (off + n) = true := by
  have hl := h.length
  simp only [sumL_cons, sumL_nil] at hl
  exact ⟨by omega, isRangeWhite_at h n (by omega)⟩

/-! ## the rendered row as one run list -/

theorem paddedRow_runs (W : List Nat) (lq s rq : Nat) (hodd : W.length % 2 = 1) :
    paddedRow lq s rq (appendPattern W true) = appendPattern (lq :: (W.map (s * ·) ++ [rq])) false := by
  unfold paddedRow
  rw [scaleRow_appendPattern]
  simp only [appendPattern, Bool.not_false]
  rw [appendPattern_append]
  have : ¬ (W.map (s * ·)).length % 2 = 0 := by simp; omega
  simp [this, hodd, appendPattern]

theorem rowAt_zero (R : List Nat) (c : Bool) (hpos : ∀ w ∈ R, 0 < w) : RowAt (appendPattern R c) 0 R c :=
  ⟨Nat.zero_le _, by simp, hpos⟩

/-! ## digit widths -/

/-- the widths the writer draws for table rows `idx` -/
def digitWidths (P : List (List Nat)) (idx : List Nat) : List Nat := (idx.map (fun i => P.getD i [])).flatten

theorem digitRuns_eq (P : List (List Nat)) (s : Nat) (idx : List Nat) :
    digitRuns P s idx = (digitWidths P idx).map (s * ·) := by
  simp [digitRuns, digitWidths, List.map_flatten, List.map_map, Function.comp_def]

theorem digitWidths_shape {P : List (List Nat)} {M : Nat} (hP : DigitTable P M) (idx : List Nat)
    (hidx : ∀ i ∈ idx, i < P.length) :
    (digitWidths P idx).length = 4 * idx.length ∧ ∀ w ∈ digitWidths P idx, 0 < w := by
  induction idx with
  | nil => simp [digitWidths]
  | cons i idx ih =>
    have hi := hidx i (by simp)
    have hq := hP.shape P[i] (List.getElem_mem hi)
    obtain ⟨h1, h2⟩ := ih (fun k hk => hidx k (by simp [hk]))
    have e : digitWidths P (i :: idx) = P[i] ++ digitWidths P idx := by
      simp [digitWidths, List.getElem?_eq_getElem hi]
    rw [e]
    refine ⟨by simp [hq.1, h1]; omega, ?_⟩
    intro w hw
    simp only [List.mem_append] at hw
    rcases hw with hw | hw
    · exact hq.2.2 w hw
    · exact h2 w hw

/-! ## table well-formedness -/

/-- what `upcean_read_write` needs of the UPC/EAN tables (decidable; discharged for the regenerated tables of
    /repo in Obligations/C03.lean): ten L patterns of four positive widths summing to 7, L and G (= reversed L)
    patterns pairwise distinct; guards non-empty with positive widths and the run-count parities that make bars and
    spaces alternate across the symbol; the UPC-E reader's end pattern is the writer's; parity tables of
    pairwise distinct 6-bit words. -/
def WFUpcEan (T : Tables) : Bool :=
  T.lPatterns.length == 10 &&
  T.lPatterns.all (fun p => p.length == 4 && sumL p == 7 && p.all (0 < ·)) &&
  decide (lAndG T.lPatterns).Nodup &&
  T.startEnd.length % 2 == 1 && T.startEnd.all (0 < ·) &&
  T.middle.length % 2 == 1 && T.middle.all (0 < ·) &&
  T.upceEnd.length % 2 == 0 && T.upceEnd.length != 0 && T.upceEnd.all (0 < ·) &&
  T.upceMiddleEnd == T.upceEnd &&
  WFParity T.firstDigit && T.firstDigit.all (· < 64) &&
  WFParity2 T.upceParity && T.upceParity.all (fun r => r.all (· < 64))

structure WFFacts (T : Tables) : Prop where
  len : T.lPatterns.length = 10
  tabL : DigitTable T.lPatterns 7
  tabLG : DigitTable (lAndG T.lPatterns) 7
  gOdd : T.startEnd.length % 2 = 1
  gPos : ∀ x ∈ T.startEnd, 0 < x
  mOdd : T.middle.length % 2 = 1
  mPos : ∀ x ∈ T.middle, 0 < x
  eEven : T.upceEnd.length % 2 = 0
  eNe : T.upceEnd ≠ []
  ePos : ∀ x ∈ T.upceEnd, 0 < x
  eEq : T.upceMiddleEnd = T.upceEnd
  fd : WFParity T.firstDigit = true
  fd64 : ∀ x ∈ T.firstDigit, x < 64
  up : WFParity2 T.upceParity = true
  up64 : ∀ r ∈ T.upceParity, ∀ x ∈ r, x < 64

theorem sumL_reverse (xs : List Nat) : sumL xs.reverse = sumL xs := by
  induction xs with
  | nil => rfl
  | cons x xs ih => simp only [List.reverse_cons, sumL_append, sumL_cons, sumL_nil, ih]; omega

theorem wfFacts (T : Tables) (h : WFUpcEan T = true) : WFFacts T := by
  simp only [WFUpcEan, Bool.and_eq_true, beq_iff_eq, decide_eq_true_eq, List.all_eq_true, bne_iff_ne, ne_eq] at h
  obtain ⟨⟨⟨⟨⟨⟨⟨⟨⟨⟨⟨⟨⟨⟨hlen, hshape⟩, hnd⟩, hgo⟩, hgp⟩, hmo⟩, hmp⟩, hee⟩, hen⟩, hep⟩, heq⟩, hfd⟩, hfd64⟩, hup⟩, hup64⟩ := h
  have shapeL : ∀ q ∈ T.lPatterns, q.length = 4 ∧ sumL q = 7 ∧ ∀ w ∈ q, 0 < w := by
    intro q hq
    have := hshape q hq
    exact ⟨this.1.1, this.1.2, fun w hw => this.2 w hw⟩
  refine ⟨hlen, ⟨?_, shapeL⟩, ⟨hnd, ?_⟩, hgo, hgp, hmo, hmp, hee, ?_, hep, heq, hfd, hfd64, hup, hup64⟩
  · have : (lAndG T.lPatterns).Nodup := hnd
    unfold lAndG at this
    exact (List.nodup_append.mp this).1
  · intro q hq
    simp only [lAndG, List.mem_append, List.mem_map] at hq
    rcases hq with hq | ⟨p, hp, rfl⟩
    · exact shapeL q hq
    · have := shapeL p hp
      exact ⟨by simp [this.1], by rw [sumL_reverse]; exact this.2.1, fun w hw => this.2.2 w (by simpa using hw)⟩
  · intro e
    rw [e] at hen
    simp at hen

end Gzx.OneD
