/-
  C03 — helper lemmas for `upcean_read_write`: the primitives of the faithful UPC/EAN row decoder
  (`findGuardPattern`, `decodeDigit`, `digitsLoop`, quiet-zone tests) evaluated on a row that is given
  by its run widths (`appendPattern R c`), at a position that is a run boundary.
-/
import Gzx.Proofs.OneD
import Gzx.Properties.C20
set_option linter.unusedSimpArgs false
set_option linter.unusedVariables false
namespace Gzx.OneD
open Gzx Gzx.CheckDigit

/-! ## sums, scaling -/

theorem rl_sumL (xs : List Nat) : RunLength.sumL xs = sumL xs := rfl

theorem sumL_nil : sumL [] = 0 := rfl
theorem sumL_cons (x : Nat) (xs : List Nat) : sumL (x :: xs) = x + sumL xs := rfl

theorem sumL_append (a b : List Nat) : sumL (a ++ b) = sumL a + sumL b := by
  induction a with
  | nil => simp [sumL_nil]
  | cons x xs ih => simp only [List.cons_append, sumL_cons, ih]; omega

theorem sumL_scale (s : Nat) (xs : List Nat) : sumL (xs.map (s * ·)) = s * sumL xs :=
  RunLength.sumL_map_mul s xs

theorem sumL_pos (xs : List Nat) (hne : xs ≠ []) (hpos : ∀ w ∈ xs, 0 < w) : 0 < sumL xs := by
  cases xs with
  | nil => exact absurd rfl hne
  | cons x xs => have := hpos x (by simp); rw [sumL_cons]; omega

theorem length_appendPattern (ws : List Nat) (c : Bool) : (appendPattern ws c).length = sumL ws := by
  induction ws generalizing c with
  | nil => rfl
  | cons w ws ih => simp only [appendPattern, List.length_append, List.length_replicate, ih, sumL_cons]

theorem scaleRow_append (s : Nat) (a b : List Bool) : scaleRow s (a ++ b) = scaleRow s a ++ scaleRow s b := by
  simp [scaleRow]

theorem scaleRow_replicate (s w : Nat) (c : Bool) : scaleRow s (List.replicate w c) = List.replicate (s * w) c := by
  induction w with
  | zero => simp [scaleRow]
  | succ w ih =>
    have h := ih
    simp only [scaleRow, List.replicate_succ, List.map_cons, List.flatten_cons] at h ⊢
    rw [h, Nat.mul_succ, Nat.add_comm, List.replicate_append_replicate]

theorem scaleRow_appendPattern (s : Nat) (ws : List Nat) (c : Bool) :
    scaleRow s (appendPattern ws c) = appendPattern (ws.map (s * ·)) c := by
  induction ws generalizing c with
  | nil => simp [appendPattern, scaleRow]
  | cons w ws ih => simp only [appendPattern, List.map_cons, scaleRow_append, scaleRow_replicate, ih]

theorem scale_pos (s : Nat) (hs : 0 < s) (ws : List Nat) (h : ∀ w ∈ ws, 0 < w) : ∀ w ∈ ws.map (s * ·), 0 < w := by
  intro w hw
  obtain ⟨v, hv, rfl⟩ := List.mem_map.mp hw
  exact Nat.mul_pos hs (h v hv)

/-! ## a row seen from a run boundary -/

/-- from pixel `off` on, the row consists of runs of widths `B` (all positive), the first of colour `col` -/
structure RowAt (row : List Bool) (off : Nat) (B : List Nat) (col : Bool) : Prop where
  le : off ≤ row.length
  drop : row.drop off = appendPattern B col
  pos : ∀ w ∈ B, 0 < w

theorem RowAt.length {row off B col} (h : RowAt row off B col) : row.length = off + sumL B := by
  have := congrArg List.length h.drop
  rw [List.length_drop, length_appendPattern] at this
  have := h.le
  omega

theorem RowAt.advance {row off col} (A B : List Nat) (h : RowAt row off (A ++ B) col) :
    RowAt row (off + sumL A) B (if A.length % 2 = 0 then col else !col) := by
  have hl := h.length
  rw [sumL_append] at hl
  refine ⟨by omega, ?_, fun w hw => h.pos w (by simp [hw])⟩
  rw [← List.drop_drop, h.drop, appendPattern_append]
  have : sumL A = (appendPattern A col).length := (length_appendPattern A col).symm
  rw [this, List.drop_left]

theorem RowAt.lt {row off B col} (h : RowAt row off B col) (hne : B ≠ []) : off < row.length := by
  have := h.length
  have := sumL_pos B hne h.pos
  omega

theorem RowAt.head {row off w B col} (h : RowAt row off (w :: B) col) :
    ∃ tl, row.drop off = col :: tl := by
  have hw := h.pos w (by simp)
  obtain ⟨k, rfl⟩ : ∃ k, w = k + 1 := ⟨w - 1, by omega⟩
  refine ⟨List.replicate k col ++ appendPattern B (!col), ?_⟩
  rw [h.drop]; simp [appendPattern, List.replicate_succ]

/-! ## GetNextSet / GetNextUnset at a pixel of the right colour -/

theorem getNextSet_drop (row : List Bool) (off : Nat) (h : off ≤ row.length) :
    getNextSet row off = off + getNextSet (row.drop off) 0 := by
  induction row generalizing off with
  | nil => simp at h; subst h; simp [getNextSet]
  | cons b bs ih =>
    cases off with
    | zero => simp
    | succ n =>
      simp only [getNextSet, List.drop_succ_cons]
      rw [ih n (by simpa using h)]; omega

theorem getNextUnset_drop (row : List Bool) (off : Nat) (h : off ≤ row.length) :
    getNextUnset row off = off + getNextUnset (row.drop off) 0 := by
  induction row generalizing off with
  | nil => simp at h; subst h; simp [getNextUnset]
  | cons b bs ih =>
    cases off with
    | zero => simp
    | succ n =>
      simp only [getNextUnset, List.drop_succ_cons]
      rw [ih n (by simpa using h)]; omega

theorem getNextSet_at {row off w B} (h : RowAt row off (w :: B) true) : getNextSet row off = off := by
  obtain ⟨tl, htl⟩ := h.head
  rw [getNextSet_drop row off h.le, htl]; simp [getNextSet]

theorem getNextUnset_at {row off w B} (h : RowAt row off (w :: B) false) : getNextUnset row off = off := by
  obtain ⟨tl, htl⟩ := h.head
  rw [getNextUnset_drop row off h.le, htl]; simp [getNextUnset]

theorem getNextSet_replicate (lq : Nat) (rest : List Bool) :
    getNextSet (List.replicate lq false ++ true :: rest) 0 = lq := by
  induction lq with
  | zero => simp [getNextSet]
  | succ n ih => simp only [List.replicate_succ, List.cons_append, getNextSet]; simp [ih]; omega

/-! ## the guard search matches at its first attempt -/

theorem incrAt_mid (pre : List Nat) (k : Nat) (zs : List Nat) :
    incrAt (pre ++ k :: zs) pre.length = pre ++ (k + 1) :: zs := by
  induction pre with
  | nil => simp [incrAt]
  | cons p pre ih => simp [incrAt, ih]

theorem guardLoop_same (g : List Nat) (m : Nat) (col : Bool) (tail : List Bool) (x : Nat) (pre : List Nat)
    (k : Nat) (zs : List Nat) (ps : Nat) :
    guardLoop g (List.replicate m col ++ tail) x (pre ++ k :: zs) pre.length ps (!col)
      = guardLoop g tail (x + m) (pre ++ (k + m) :: zs) pre.length ps (!col) := by
  induction m generalizing x k with
  | zero => simp
  | succ m ih =>
    have hc : (col != !col) = true := by cases col <;> rfl
    simp only [List.replicate_succ, List.cons_append, guardLoop, hc, if_true, incrAt_mid]
    rw [ih]
    have e1 : x + 1 + m = x + (m + 1) := by omega
    have e2 : k + 1 + m = k + (m + 1) := by omega
    rw [e1, e2]

theorem guardLoop_match (g : List Nat) (post : List Nat) :
    ∀ (pre : List Nat) (k m : Nat) (zs : List Nat) (w : Nat) (rest : List Nat) (col : Bool) (x ps : Nat)
      (v : Option (Nat × Nat)),
    pre.length + 1 + post.length = g.length → zs.length = post.length → (∀ p ∈ post, 0 < p) → 0 < w →
    RunLength.patternMatchVariance (pre ++ (k + m) :: post) g 7 10 = .ok v → belowAvg v = true →
    guardLoop g (List.replicate m col ++ appendPattern (post ++ w :: rest) (!col)) x (pre ++ k :: zs) pre.length
        ps (!col) = .ok (ps, x + m + sumL post) := by
  induction post with
  | nil =>
    intro pre k m zs w rest col x ps v hlen hzs _ hw hv hb
    have hz : zs = [] := by simpa using hzs
    subst hz
    obtain ⟨w', rfl⟩ : ∃ w', w = w' + 1 := ⟨w - 1, by omega⟩
    rw [guardLoop_same]
    have hc : ((!col) != !col) = false := by cases col <;> rfl
    have hl : pre.length + 1 = g.length := by simpa using hlen
    simp only [List.nil_append, appendPattern, List.replicate_succ, List.cons_append, guardLoop, hc,
      Bool.false_eq_true, if_false, hl, if_true, hv, hb, sumL_nil, Nat.add_zero]
  | cons p post ih =>
    intro pre k m zs w rest col x ps v hlen hzs hpos hw hv hb
    obtain ⟨z, zs', rfl⟩ : ∃ z zs', zs = z :: zs' := by
      cases zs with
      | nil => simp at hzs
      | cons z zs' => exact ⟨z, zs', rfl⟩
    have hp : 0 < p := hpos p (by simp)
    obtain ⟨p', rfl⟩ : ∃ p', p = p' + 1 := ⟨p - 1, by omega⟩
    rw [guardLoop_same]
    have hc : ((!col) != !col) = false := by cases col <;> rfl
    have hl : ¬ pre.length + 1 = g.length := by simp at hlen; omega
    simp only [List.cons_append, appendPattern, List.replicate_succ, guardLoop, hc,
      Bool.false_eq_true, if_false, hl]
    have hset : (pre ++ (k + m) :: z :: zs').set (pre.length + 1) 1 = (pre ++ [k + m]) ++ 1 :: zs' := by
      rw [List.set_append_right _ _ (by omega)]
      simp
    have hpl : pre.length + 1 = (pre ++ [k + m]).length := by simp
    rw [hset, hpl]
    have := ih (pre ++ [k + m]) 1 p' zs' w rest (!col) (x + m + 1) ps v
      (by simp at hlen ⊢; omega) (by simpa using hzs) (fun q hq => hpos q (by simp [hq])) hw
      (by
        have e : 1 + p' = p' + 1 := by omega
        rw [e]; simpa using hv) hb
    rw [this, sumL_cons]
    congr 2; omega

/-- an exact multiple of the pattern scores 0 with a positive denominator -/
theorem pmv_multiple (p : List Nat) (k a b : Nat) (hk : 0 < k) :
    RunLength.patternMatchVariance (p.map (k * ·)) p a b = .ok (some (0, sumL p * (k * sumL p))) := by
  have hlen : (p.map (k * ·)).length = p.length := by simp
  have htake : p.take (p.map (k * ·)).length = p := by simp
  have hT : RunLength.sumL (p.map (k * ·)) = k * RunLength.sumL p := RunLength.sumL_map_mul k p
  have hz := Properties.C20.devs_multiple k (RunLength.sumL p) p
  have := Properties.C20.pmv_formula (p.map (k * ·)) p a b (by simp)
    (by rw [htake, hT]; exact Nat.le_mul_of_pos_left _ hk)
    (by
      rw [htake, hT]
      intro d hd
      rw [hz d hd]; simp)
  rw [this, htake, hT, Properties.C20.sumL_zero_of_all_zero _ hz]
  rfl

/-- `findGuardPattern` started at a run boundary where the next runs are `s`·pattern followed by at least one
    more run: found at once, range = exactly those runs -/
theorem findGuard_at {row off} (g : List Nat) (s w : Nat) (rest : List Nat) (col : Bool)
    (hg : g ≠ []) (hgpos : ∀ x ∈ g, 0 < x) (hs : 0 < s)
    (h : RowAt row off (g.map (s * ·) ++ w :: rest) col) :
    findGuardPattern row off (!col) g = .ok (off, off + s * sumL g) := by
  obtain ⟨g0, g', rfl⟩ : ∃ g0 g', g = g0 :: g' := by
    cases g with
    | nil => exact absurd rfl hg
    | cons a b => exact ⟨a, b, rfl⟩
  have hw : 0 < w := h.pos w (by simp)
  have hoff : (if (!col) = true then getNextUnset row off else getNextSet row off) = off := by
    cases col with
    | true => simp only [Bool.not_true, Bool.false_eq_true, if_false]; exact getNextSet_at h
    | false => simp only [Bool.not_false, if_true]; exact getNextUnset_at h
  unfold findGuardPattern
  simp only [hoff, Nat.min_eq_left h.le, h.drop]
  simp only [List.map_cons, List.cons_append, appendPattern, List.length_cons, List.replicate_succ]
  have hm := guardLoop_match (g0 :: g') (g'.map (s * ·)) [] 0 (s * g0) (List.replicate g'.length 0) w rest col off off
    (some (0, sumL (g0 :: g') * (s * sumL (g0 :: g'))))
    (by simp; omega) (by simp) (scale_pos s hs g' (fun x hx => hgpos x (by simp [hx]))) hw
    (by
      have := pmv_multiple (g0 :: g') s 7 10 hs
      simpa using this)
    (by
      have : 0 < sumL (g0 :: g') := sumL_pos _ (by simp) hgpos
      have : 0 < sumL (g0 :: g') * (s * sumL (g0 :: g')) := Nat.mul_pos this (Nat.mul_pos hs this)
      simp only [belowAvg, decide_eq_true_eq]; omega)
  simp only [List.nil_append, List.length_nil] at hm
  rw [hm, sumL_scale, sumL_cons]
  congr 2
  rw [Nat.mul_add]; omega

end Gzx.OneD
