/-
  C03 — `upcean_read_write`, content level: what the writers' check-digit stage returns, the module pattern
  as one run list, and the composition with the row-level facts, per symbology.
-/
import Gzx.Proofs.UpceanKinds
import Gzx.Properties.C10
set_option linter.unusedSimpArgs false
set_option linter.unusedVariables false
namespace Gzx.OneD
open Gzx Gzx.CheckDigit

/-! ## the digit string the writer draws -/

/-- whatever `stdWriterContents n` returns is `n` digits with a valid mod-10 check digit -/
theorem std_full (n : Nat) (hn : 0 < n) (hn' : n ≤ 38) (s full : List Nat) (h : stdWriterContents n s = .ok full) :
    ∃ fd, full = digitBytes fd ∧ fd.length = n ∧ (∀ d ∈ fd, d < 10) ∧ eanValid fd = true := by
  obtain ⟨hall, hlen, hcase⟩ := (Properties.C10.writer_rejects_length_and_alphabet n s).2 full h
  obtain ⟨ds, rfl, hds⟩ := allDigits_exists s hall
  have hdl : (digitBytes ds).length = ds.length := by simp [digitBytes]
  rw [hdl] at hcase
  rcases hcase with hc | hc
  · -- check digit supplied
    have hne : ds ≠ [] := by intro e; rw [e] at hc; simp at hc; omega
    obtain ⟨body, c, rfl⟩ : ∃ body c, ds = body ++ [c] :=
      ⟨ds.dropLast, ds.getLast hne, (List.dropLast_concat_getLast hne).symm⟩
    have hcl : c < 10 := hds c (by simp)
    have hb : ∀ d ∈ body, d < 10 := fun d hd => hds d (by simp [hd])
    have := Properties.C10.writer_rejects_wrong_check n body c hb hcl (by simp at hc; omega)
    rw [this] at h
    by_cases he : eanCheckDigit body = (c : Int)
    · rw [if_pos he] at h
      cases h
      refine ⟨body ++ [c], rfl, hc, hds, ?_⟩
      rw [eanValid_concat, he]; simp
    · rw [if_neg he] at h; cases h
  · obtain ⟨c, hc10, hcd, hw, hv⟩ := Properties.C10.writer_appends_check n ds hds hc (by omega)
    rw [hw] at h
    cases h
    refine ⟨ds ++ [c], rfl, by simp; omega, ?_, hv⟩
    intro d hd
    simp only [List.mem_append, List.mem_singleton] at hd
    rcases hd with hd | rfl
    · exact hds d hd
    · exact hc10

theorem digitVals_digitBytes (fd : List Nat) : digitVals (digitBytes fd) = fd := by
  induction fd with
  | nil => rfl
  | cons d ds ih =>
    simp only [digitVals, digitBytes, List.map_cons, List.map_map] at ih ⊢
    rw [ih]; simp

theorem readerAccept_std (k : EanKind) (hk : k ≠ .upce) (fd : List Nat) (hl : 8 ≤ fd.length) (hd : ∀ d ∈ fd, d < 10)
    (hv : eanValid fd = true) : readerAccept k (digitBytes fd) = .ok () := by
  unfold readerAccept
  have : ¬ (digitBytes fd).length < 8 := by simp [digitBytes]; omega
  rw [if_neg this]
  cases k <;> simp_all [checkStandardB_digitBytes fd hd]

theorem idxDigit (b : Prop) [Decidable b] (d : Nat) (hd : d < 10) : 48 + (if b then d + 10 else d) % 10 = d + 48 := by
  split <;> omega

/-! ## EAN-8 -/

theorem ean8_modules_eq (T : Tables) (hT : WFFacts T) (contents : List Nat) (d0 d1 d2 d3 d4 d5 d6 d7 : Nat)
    (hd : ∀ d ∈ [d0, d1, d2, d3, d4, d5, d6, d7], d < 10)
    (hw : stdWriterContents 8 contents = .ok (digitBytes [d0, d1, d2, d3, d4, d5, d6, d7])) :
    ean8Modules T contents = .ok (appendPattern (T.startEnd ++ digitWidths T.lPatterns [d0, d1, d2, d3] ++ T.middle ++
      digitWidths T.lPatterns [d4, d5, d6, d7] ++ T.startEnd) true) := by
  have hlen := hT.len
  simp only [List.mem_cons, List.mem_nil_iff, or_false, forall_eq_or_imp, forall_eq] at hd
  obtain ⟨h0, h1, h2, h3, h4, h5, h6, h7⟩ := hd
  have hl1 : (List.range 4).mapM (fun j => do let d ← nth [d0, d1, d2, d3, d4, d5, d6, d7] j; nth T.lPatterns d)
      = .ok ([d0, d1, d2, d3].map (fun i => T.lPatterns.getD i [])) := by
    simp [List.range_succ, nth, bind, Except.bind, pure, Except.pure, List.getD_eq_getElem?_getD, *]
  have hl2 : (List.range 4).mapM (fun j => do let d ← nth [d0, d1, d2, d3, d4, d5, d6, d7] (j + 4); nth T.lPatterns d)
      = .ok ([d4, d5, d6, d7].map (fun i => T.lPatterns.getD i [])) := by
    simp [List.range_succ, nth, bind, Except.bind, pure, Except.pure, List.getD_eq_getElem?_getD, *]
  unfold ean8Modules
  simp only [bind, Except.bind, pure, Except.pure] at hl1 hl2
  simp only [hw, bind, Except.bind, pure, Except.pure, digitVals_digitBytes, hl1, hl2]
  obtain ⟨e1, _⟩ := digitWidths_shape hT.tabL [d0, d1, d2, d3] (by simp; omega)
  obtain ⟨e2, _⟩ := digitWidths_shape hT.tabL [d4, d5, d6, d7] (by simp; omega)
  have hev : ∀ (idx : List Nat), (∀ i ∈ idx, i < T.lPatterns.length) →
      ∀ p ∈ idx.map (fun i => T.lPatterns.getD i []), p.length % 2 = 0 := by
    intro idx hidx p hp
    obtain ⟨i, hi, rfl⟩ := List.mem_map.mp hp
    have hi' := hidx i hi
    rw [getD_eq_getElem _ _ _ hi', (hT.tabL.shape _ (List.getElem_mem hi')).1]
  rw [flatten_map_appendPattern _ false (hev [d0, d1, d2, d3] (by simp; omega)),
      flatten_map_appendPattern _ true (hev [d4, d5, d6, d7] (by simp; omega))]
  have hgo := hT.gOdd
  have hmo := hT.mOdd
  congr 1
  show _ = appendPattern (T.startEnd ++ digitWidths T.lPatterns [d0, d1, d2, d3] ++ T.middle ++
      digitWidths T.lPatterns [d4, d5, d6, d7] ++ T.startEnd) true
  simp only [appendPattern_append, List.length_append, e1, e2]
  have p1 : ¬ T.startEnd.length % 2 = 0 := by omega
  have p2 : (T.startEnd.length + 4 * [d0, d1, d2, d3].length) % 2 ≠ 0 := by simp; omega
  have p3 : (T.startEnd.length + 4 * [d0, d1, d2, d3].length + T.middle.length) % 2 = 0 := by simp; omega
  have p4 : (T.startEnd.length + 4 * [d0, d1, d2, d3].length + T.middle.length + 4 * [d4, d5, d6, d7].length) % 2 = 0 := by
    simp; omega
  simp only [p1, p2, p3, p4, if_false, if_true, Bool.not_true, Bool.not_false, digitWidths]

theorem ean8_read_write (T : Tables) (hWF : WFUpcEan T = true) (contents full : List Nat)
    (hw : stdWriterContents 8 contents = .ok full) (lq s rq : Nat) (hs : 0 < s)
    (hlq : s * sumL T.startEnd ≤ lq) (hrq : s * sumL T.startEnd < rq) :
    ∃ mods, ean8Modules T contents = .ok mods ∧ decodeRow T .ean8 (paddedRow lq s rq mods) = .ok full := by
  have hT := wfFacts T hWF
  obtain ⟨fd, rfl, hlen, hd, hv⟩ := std_full 8 (by omega) (by omega) contents full hw
  match fd, hlen with
  | [d0, d1, d2, d3, d4, d5, d6, d7], _ =>
    have hm := ean8_modules_eq T hT contents d0 d1 d2 d3 d4 d5 d6 d7 hd hw
    refine ⟨_, hm, ?_⟩
    have hacc := readerAccept_std .ean8 (by decide) _ (by simp) hd hv
    have hd' := hd
    simp only [List.mem_cons, List.mem_nil_iff, or_false, forall_eq_or_imp, forall_eq] at hd'
    obtain ⟨h0, h1, h2, h3, h4, h5, h6, h7⟩ := hd'
    have hlen10 := hT.len
    obtain ⟨F1, F2, F3, F4, F5, F6, F7⟩ := twoHalf_facts T hT T.lPatterns hT.tabL [d0, d1, d2, d3] [d4, d5, d6, d7]
      (by simp; omega) (by simp; omega) lq s rq hs hlq hrq _ rfl
    have e4 : ∀ (a b c d : Nat), [a, b, c, d].length = 4 := fun _ _ _ _ => rfl
    simp only [e4] at F2 F3 F4 F5 F6 F7
    generalize paddedRow lq s rq _ = row at *
    simp only [decodeRow, F1, notFoundOf, bind, Except.bind, decodeWithStart, ean8DecodeMiddle, F2, F3, F4, F5,
      pure, Except.pure]
    have hres : (List.map (fun x => 48 + x) [d0, d1, d2, d3] ++ List.map (fun x => 48 + x) [d4, d5, d6, d7])
        = digitBytes [d0, d1, d2, d3, d4, d5, d6, d7] := by simp [digitBytes, Nat.add_comm]
    simp only [Nat.add_sub_cancel_left, F6, F7, if_false, Bool.not_true, Bool.false_eq_true, hres, hacc, reduceCtorEq]

end Gzx.OneD
