/-
  C03 — `upcean_read_write`, content level: what the writers' check-digit stage returns, the module pattern
  as one run list, and the composition with the row-level facts, per symbology.
-/
import Gzx.Proofs.UpceanKinds
import Gzx.Properties.C10
set_option linter.unusedSimpArgs false
set_option linter.unusedVariables false
namespace Gzx.OneD
open Gzx Gzx.CheckDigit

/-! ## the digit string the writer draws -/

/-- whatever `stdWriterContents n` returns is `n` digits with a valid mod-10 check digit -/
theorem std_full (n : Nat) (hn : 0 < n) (hn' : n ≤ 38) (s full : List Nat) (h : stdWriterContents n s = .ok full) :
    ∃ fd, full = digitBytes fd ∧ fd.length = n ∧ (∀ d ∈ fd, d < 10) ∧ eanValid fd = true := by
  obtain ⟨hall, hlen, hcase⟩ := (Properties.C10.writer_rejects_length_and_alphabet n s).2 full h
  obtain ⟨ds, rfl, hds⟩ := allDigits_exists s hall
  have hdl : (digitBytes ds).length = ds.length := by simp [digitBytes]
  rw [hdl] at hcase
  rcases hcase with hc | hc
  · -- check digit supplied
    have hne : ds ≠ [] := by intro e; rw [e] at hc; simp at hc; omega
    obtain ⟨body, c, rfl⟩ : ∃ body c, ds = body ++ [c] :=
      ⟨ds.dropLast, ds.getLast hne, (List.dropLast_concat_getLast hne).symm⟩
    have hcl : c < 10 := hds c (by simp)
    have hb : ∀ d ∈ body, d < 10 := fun d hd => hds d (by simp [hd])
    have := Properties.C10.writer_rejects_wrong_check n body c hb hcl (by simp at hc; omega)
    rw [this] at h
    by_cases he : eanCheckDigit body = (c : Int)
    · rw [if_pos he] at h
      cases h
      refine ⟨body ++ [c], rfl, hc, hds, ?_⟩
      rw [eanValid_concat, he]; simp
    · rw [if_neg he] at h; cases h
  · obtain ⟨c, hc10, hcd, hw, hv⟩ := Properties.C10.writer_appends_check n ds hds hc (by omega)
    rw [hw] at h
    cases h
    refine ⟨ds ++ [c], rfl, by simp; omega, ?_, hv⟩
    intro d hd
    simp only [List.mem_append, List.mem_singleton] at hd
    rcases hd with hd | rfl
    · exact hds d hd
    · exact hc10

theorem digitVals_digitBytes (fd : List Nat) : digitVals (digitBytes fd) = fd := by
  induction fd with
  | nil => rfl
  | cons d ds ih =>
    simp only [digitVals, digitBytes, List.map_cons, List.map_map] at ih ⊢
    rw [ih]; simp

theorem readerAccept_std (k : EanKind) (hk : k ≠ .upce) (fd : List Nat) (hl : 8 ≤ fd.length) (hd : ∀ d ∈ fd, d < 10)
    (hv : eanValid fd = true) : readerAccept k (digitBytes fd) = .ok () := by
  unfold readerAccept
  have : ¬ (digitBytes fd).length < 8 := by simp [digitBytes]; omega
  rw [if_neg this]
  cases k <;> simp_all [checkStandardB_digitBytes fd hd]

theorem idxDigit (b : Prop) [Decidable b] (d : Nat) (hd : d < 10) : 48 + (if b then d + 10 else d) % 10 = d + 48 := by
  split <;> omega

/-! ## EAN-8 -/

theorem ean8_modules_eq (T : Tables) (hT : WFFacts T) (contents : List Nat) (d0 d1 d2 d3 d4 d5 d6 d7 : Nat)
    (hd : ∀ d ∈ [d0, d1, d2, d3, d4, d5, d6, d7], d < 10)
    (hw : stdWriterContents 8 contents = .ok (digitBytes [d0, d1, d2, d3, d4, d5, d6, d7])) :
    ean8Modules T contents = .ok (appendPattern (T.startEnd ++ digitWidths T.lPatterns [d0, d1, d2, d3] ++ T.middle ++
      digitWidths T.lPatterns [d4, d5, d6, d7] ++ T.startEnd) true) := by
  have hlen := hT.len
  simp only [List.mem_cons, List.mem_nil_iff, or_false, forall_eq_or_imp, forall_eq] at hd
  obtain ⟨h0, h1, h2, h3, h4, h5, h6, h7⟩ := hd
  have hl1 : (List.range 4).mapM (fun j => do let d ← nth [d0, d1, d2, d3, d4, d5, d6, d7] j; nth T.lPatterns d)
      = .ok ([d0, d1, d2, d3].map (fun i => T.lPatterns.getD i [])) := by
    simp [List.range_succ, nth, bind, Except.bind, pure, Except.pure, List.getD_eq_getElem?_getD, *]
  have hl2 : (List.range 4).mapM (fun j => do let d ← nth [d0, d1, d2, d3, d4, d5, d6, d7] (j + 4); nth T.lPatterns d)
      = .ok ([d4, d5, d6, d7].map (fun i => T.lPatterns.getD i [])) := by
    simp [List.range_succ, nth, bind, Except.bind, pure, Except.pure, List.getD_eq_getElem?_getD, *]
  unfold ean8Modules
  simp only [bind, Except.bind, pure, Except.pure] at hl1 hl2
  simp only [hw, bind, Except.bind, pure, Except.pure, digitVals_digitBytes, hl1, hl2]
  obtain ⟨e1, _⟩ := digitWidths_shape hT.tabL [d0, d1, d2, d3] (by simp; omega)
  obtain ⟨e2, _⟩ := digitWidths_shape hT.tabL [d4, d5, d6, d7] (by simp; omega)
  have hev : ∀ (idx : List Nat), (∀ i ∈ idx, i < T.lPatterns.length) →
      ∀ p ∈ idx.map (fun i => T.lPatterns.getD i []), p.length % 2 = 0 := by
    intro idx hidx p hp
    obtain ⟨i, hi, rfl⟩ := List.mem_map.mp hp
    have hi' := hidx i hi
    rw [getD_eq_getElem _ _ _ hi', (hT.tabL.shape _ (List.getElem_mem hi')).1]
  rw [flatten_map_appendPattern _ false (hev [d0, d1, d2, d3] (by simp; omega)),
      flatten_map_appendPattern _ true (hev [d4, d5, d6, d7] (by simp; omega))]
  have hgo := hT.gOdd
  have hmo := hT.mOdd
  congr 1
  show _ = appendPattern (T.startEnd ++ digitWidths T.lPatterns [d0, d1, d2, d3] ++ T.middle ++
      digitWidths T.lPatterns [d4, d5, d6, d7] ++ T.startEnd) true
  simp only [appendPattern_append, List.length_append, e1, e2]
  have p1 : ¬ T.startEnd.length % 2 = 0 := by omega
  have p2 : (T.startEnd.length + 4 * [d0, d1, d2, d3].length) % 2 ≠ 0 := by simp; omega
  have p3 : (T.startEnd.length + 4 * [d0, d1, d2, d3].length + T.middle.length) % 2 = 0 := by simp; omega
  have p4 : (T.startEnd.length + 4 * [d0, d1, d2, d3].length + T.middle.length + 4 * [d4, d5, d6, d7].length) % 2 = 0 := by
    simp; omega
  simp only [p1, p2, p3, p4, if_false, if_true, Bool.not_true, Bool.not_false, digitWidths]

theorem ean8_read_write (T : Tables) (hWF : WFUpcEan T = true) (contents full : List Nat)
    (hw : stdWriterContents 8 contents = .ok full) :
    ∃ mods, ean8Modules T contents = .ok mods ∧ ∀ (lq s rq : Nat), 0 < s → s * sumL T.startEnd ≤ lq →
      s * sumL T.startEnd < rq → decodeRow T .ean8 (paddedRow lq s rq mods) = .ok full := by
  have hT := wfFacts T hWF
  obtain ⟨fd, rfl, hlen, hd, hv⟩ := std_full 8 (by omega) (by omega) contents full hw
  match fd, hlen with
  | [d0, d1, d2, d3, d4, d5, d6, d7], _ =>
    have hm := ean8_modules_eq T hT contents d0 d1 d2 d3 d4 d5 d6 d7 hd hw
    refine ⟨_, hm, ?_⟩
    intro lq s rq hs hlq hrq
    have hacc := readerAccept_std .ean8 (by decide) _ (by simp) hd hv
    have hd' := hd
    simp only [List.mem_cons, List.mem_nil_iff, or_false, forall_eq_or_imp, forall_eq] at hd'
    obtain ⟨h0, h1, h2, h3, h4, h5, h6, h7⟩ := hd'
    have hlen10 := hT.len
    obtain ⟨F1, F2, F3, F4, F5, F6, F7⟩ := twoHalf_facts T hT T.lPatterns hT.tabL [d0, d1, d2, d3] [d4, d5, d6, d7]
      (by simp; omega) (by simp; omega) lq s rq hs hlq hrq _ rfl
    have e4 : ∀ (a b c d : Nat), [a, b, c, d].length = 4 := fun _ _ _ _ => rfl
    simp only [e4] at F2 F3 F4 F5 F6 F7
    generalize paddedRow lq s rq _ = row at *
    simp only [decodeRow, F1, notFoundOf, bind, Except.bind, decodeWithStart, ean8DecodeMiddle, F2, F3, F4, F5,
      pure, Except.pure]
    have hres : (List.map (fun x => 48 + x) [d0, d1, d2, d3] ++ List.map (fun x => 48 + x) [d4, d5, d6, d7])
        = digitBytes [d0, d1, d2, d3, d4, d5, d6, d7] := by simp [digitBytes, Nat.add_comm]
    simp only [Nat.add_sub_cancel_left, F6, F7, if_false, Bool.not_true, Bool.false_eq_true, hres, hacc, reduceCtorEq]

/-! ## the parity-encoded left half (EAN-13, UPC-E) -/

/-- row of the L/G table the writer draws digit `d` with at left-half position `j` under parity word `p` -/
def lgIdx (p j d : Nat) : Nat := if (p / 2 ^ (5 - j)) % 2 = 1 then d + 10 else d

theorem lgIdx_lt (p j d : Nat) (hd : d < 10) : lgIdx p j d < 20 := by unfold lgIdx; split <;> omega

theorem lgIdx_mod (p j d : Nat) (hd : d < 10) : lgIdx p j d % 10 = d := by unfold lgIdx; split <;> omega

theorem lgWord_lgIdx (p d1 d2 d3 d4 d5 d6 : Nat) (hp : p < 64) (h1 : d1 < 10) (h2 : d2 < 10) (h3 : d3 < 10)
    (h4 : d4 < 10) (h5 : d5 < 10) (h6 : d6 < 10) :
    lgWord 6 [lgIdx p 0 d1, lgIdx p 1 d2, lgIdx p 2 d3, lgIdx p 3 d4, lgIdx p 4 d5, lgIdx p 5 d6] = p := by
  have ge : ∀ j d, d < 10 → (lgIdx p j d ≥ 10 ↔ (p / 2 ^ (5 - j)) % 2 = 1) := by
    intro j d hd; unfold lgIdx; split <;> omega
  have step : ∀ (c : Prop) [Decidable c] (a k : Nat), (if c then a + k else a) = a + (if c then k else 0) := by
    intro c _ a k; split <;> rfl
  have bit : ∀ (x k : Nat), (if x % 2 = 1 then k else 0) = k * (x % 2) := by
    intro x k
    split
    · rename_i h; rw [h]; simp
    · rename_i h; have : x % 2 = 0 := by omega
      rw [this]; simp
  simp only [lgWord, List.length_cons, List.length_nil, Nat.reduceAdd, List.range_succ, List.range_zero, List.nil_append,
    List.cons_append, List.zip_cons_cons, List.zip_nil_right, List.foldl_cons, List.foldl_nil, ge _ _ h1, ge _ _ h2,
    ge _ _ h3, ge _ _ h4, ge _ _ h5, ge _ _ h6, Nat.reduceSub, Nat.reducePow, Nat.zero_add, step, bit]
  omega

theorem lAndG_length (T : Tables) (hT : WFFacts T) : (lAndG T.lPatterns).length = 20 := by
  simp [lAndG, hT.len]

theorem leftHalf_eq (T : Tables) (hT : WFFacts T) (d0 d1 d2 d3 d4 d5 d6 : Nat) (tl : List Nat) (p : Nat)
    (h1 : d1 < 10) (h2 : d2 < 10) (h3 : d3 < 10) (h4 : d4 < 10) (h5 : d5 < 10) (h6 : d6 < 10) :
    leftHalf T (d0 :: d1 :: d2 :: d3 :: d4 :: d5 :: d6 :: tl) p =
      .ok (appendPattern (digitWidths (lAndG T.lPatterns)
        [lgIdx p 0 d1, lgIdx p 1 d2, lgIdx p 2 d3, lgIdx p 3 d4, lgIdx p 4 d5, lgIdx p 5 d6]) false) := by
  have h20 := lAndG_length T hT
  have hm : (List.range 6).mapM (fun j => do
        let d ← nth (d0 :: d1 :: d2 :: d3 :: d4 :: d5 :: d6 :: tl) (j + 1)
        nth (lAndG T.lPatterns) (if (p / 2 ^ (5 - j)) % 2 = 1 then d + 10 else d))
      = .ok ([lgIdx p 0 d1, lgIdx p 1 d2, lgIdx p 2 d3, lgIdx p 3 d4, lgIdx p 4 d5, lgIdx p 5 d6].map
          (fun i => (lAndG T.lPatterns).getD i [])) := by
    have e : [lgIdx p 0 d1, lgIdx p 1 d2, lgIdx p 2 d3, lgIdx p 3 d4, lgIdx p 4 d5, lgIdx p 5 d6].map
          (fun i => (lAndG T.lPatterns).getD i [])
        = (List.range 6).map (fun j => (lAndG T.lPatterns).getD
            (lgIdx p j ((d0 :: d1 :: d2 :: d3 :: d4 :: d5 :: d6 :: tl).getD (j + 1) 0)) []) := by
      simp [List.range_succ]
    rw [e]
    apply mapM_ok
    intro j hj
    have hj6 : j < 6 := by simpa using hj
    have : j = 0 ∨ j = 1 ∨ j = 2 ∨ j = 3 ∨ j = 4 ∨ j = 5 := by omega
    rcases this with rfl | rfl | rfl | rfl | rfl | rfl
    · simp only [nth, List.getElem?_cons_succ, List.getElem?_cons_zero, bind, Except.bind, List.getD_cons_succ, List.getD_cons_zero]
      exact nth_getD _ _ (by rw [h20]; exact lgIdx_lt p 0 d1 h1)
    · simp only [nth, List.getElem?_cons_succ, List.getElem?_cons_zero, bind, Except.bind, List.getD_cons_succ, List.getD_cons_zero]
      exact nth_getD _ _ (by rw [h20]; exact lgIdx_lt p 1 d2 h2)
    · simp only [nth, List.getElem?_cons_succ, List.getElem?_cons_zero, bind, Except.bind, List.getD_cons_succ, List.getD_cons_zero]
      exact nth_getD _ _ (by rw [h20]; exact lgIdx_lt p 2 d3 h3)
    · simp only [nth, List.getElem?_cons_succ, List.getElem?_cons_zero, bind, Except.bind, List.getD_cons_succ, List.getD_cons_zero]
      exact nth_getD _ _ (by rw [h20]; exact lgIdx_lt p 3 d4 h4)
    · simp only [nth, List.getElem?_cons_succ, List.getElem?_cons_zero, bind, Except.bind, List.getD_cons_succ, List.getD_cons_zero]
      exact nth_getD _ _ (by rw [h20]; exact lgIdx_lt p 4 d5 h5)
    · simp only [nth, List.getElem?_cons_succ, List.getElem?_cons_zero, bind, Except.bind, List.getD_cons_succ, List.getD_cons_zero]
      exact nth_getD _ _ (by rw [h20]; exact lgIdx_lt p 5 d6 h6)
  unfold leftHalf
  simp only [bind, Except.bind, pure, Except.pure] at hm
  simp only [bind, Except.bind, pure, Except.pure, hm]
  rw [flatten_map_appendPattern]
  · rfl
  · intro q hq
    obtain ⟨i, hi, rfl⟩ := List.mem_map.mp hq
    have hi' : i < (lAndG T.lPatterns).length := by
      rw [h20]
      simp only [List.mem_cons, List.mem_nil_iff, or_false] at hi
      rcases hi with rfl | rfl | rfl | rfl | rfl | rfl <;> exact lgIdx_lt _ _ _ (by assumption)
    rw [getD_eq_getElem _ _ _ hi', (hT.tabLG.shape _ (List.getElem_mem hi')).1]

/-! ## EAN-13 and UPC-A -/

theorem nthN_getD (l : List Nat) (i : Nat) (hi : i < l.length) : nth l i = .ok (l.getD i 0) := by
  simp [nth, List.getD_eq_getElem?_getD, List.getElem?_eq_getElem hi]

theorem symbol_join (g DL m DR e : List Nat) (hg : g.length % 2 = 1) (hDL : DL.length % 2 = 0) (hm : m.length % 2 = 1)
    (hDR : DR.length % 2 = 0) :
    appendPattern g true ++ appendPattern DL false ++ appendPattern m false ++ appendPattern DR true ++ appendPattern e true
      = appendPattern (g ++ DL ++ m ++ DR ++ e) true := by
  simp only [appendPattern_append, List.length_append]
  have p1 : ¬ g.length % 2 = 0 := by omega
  have p2 : ¬ (g.length + DL.length) % 2 = 0 := by omega
  have p3 : (g.length + DL.length + m.length) % 2 = 0 := by omega
  have p4 : (g.length + DL.length + m.length + DR.length) % 2 = 0 := by omega
  simp only [p1, p2, p3, p4, if_false, if_true, Bool.not_true, Bool.not_false]

theorem ean13_modules_eq (T : Tables) (hT : WFFacts T) (contents : List Nat)
    (d0 d1 d2 d3 d4 d5 d6 d7 d8 d9 d10 d11 d12 : Nat)
    (hd : ∀ d ∈ [d0, d1, d2, d3, d4, d5, d6, d7, d8, d9, d10, d11, d12], d < 10)
    (hw : stdWriterContents 13 contents = .ok (digitBytes [d0, d1, d2, d3, d4, d5, d6, d7, d8, d9, d10, d11, d12])) :
    ean13Modules T contents = .ok (appendPattern (T.startEnd ++
      digitWidths (lAndG T.lPatterns)
        [lgIdx (T.firstDigit.getD d0 0) 0 d1, lgIdx (T.firstDigit.getD d0 0) 1 d2, lgIdx (T.firstDigit.getD d0 0) 2 d3,
         lgIdx (T.firstDigit.getD d0 0) 3 d4, lgIdx (T.firstDigit.getD d0 0) 4 d5, lgIdx (T.firstDigit.getD d0 0) 5 d6] ++
      T.middle ++ digitWidths T.lPatterns [d7, d8, d9, d10, d11, d12] ++ T.startEnd) true) := by
  have hlen := hT.len
  have hfd := hT.fd
  simp only [WFParity, Bool.and_eq_true, beq_iff_eq] at hfd
  simp only [List.mem_cons, List.mem_nil_iff, or_false, forall_eq_or_imp, forall_eq] at hd
  obtain ⟨h0, h1, h2, h3, h4, h5, h6, h7, h8, h9, h10, h11, h12⟩ := hd
  have hl2 : (List.range 6).mapM (fun j => do
        let d ← nth [d0, d1, d2, d3, d4, d5, d6, d7, d8, d9, d10, d11, d12] (j + 7); nth T.lPatterns d)
      = .ok ([d7, d8, d9, d10, d11, d12].map (fun i => T.lPatterns.getD i [])) := by
    simp [List.range_succ, nth, bind, Except.bind, pure, Except.pure, List.getD_eq_getElem?_getD, *]
  have hfirst : nth [d0, d1, d2, d3, d4, d5, d6, d7, d8, d9, d10, d11, d12] 0 = .ok d0 := by simp [nth]
  have hpar := nthN_getD T.firstDigit d0 (by omega)
  have hleft := leftHalf_eq T hT d0 d1 d2 d3 d4 d5 d6 [d7, d8, d9, d10, d11, d12] (T.firstDigit.getD d0 0) h1 h2 h3 h4 h5 h6
  unfold ean13Modules
  simp only [bind, Except.bind, pure, Except.pure] at hl2
  simp only [hw, bind, Except.bind, pure, Except.pure, digitVals_digitBytes, hfirst, hpar, hleft, hl2]
  have h20 := lAndG_length T hT
  obtain ⟨e1, _⟩ := digitWidths_shape hT.tabLG
    [lgIdx (T.firstDigit.getD d0 0) 0 d1, lgIdx (T.firstDigit.getD d0 0) 1 d2, lgIdx (T.firstDigit.getD d0 0) 2 d3,
     lgIdx (T.firstDigit.getD d0 0) 3 d4, lgIdx (T.firstDigit.getD d0 0) 4 d5, lgIdx (T.firstDigit.getD d0 0) 5 d6] (by
      intro i hi
      rw [h20]
      simp only [List.mem_cons, List.mem_nil_iff, or_false] at hi
      rcases hi with rfl | rfl | rfl | rfl | rfl | rfl <;> exact lgIdx_lt _ _ _ (by assumption))
  obtain ⟨e2, _⟩ := digitWidths_shape hT.tabL [d7, d8, d9, d10, d11, d12] (by simp; omega)
  have hev : ∀ p ∈ [d7, d8, d9, d10, d11, d12].map (fun i => T.lPatterns.getD i []), p.length % 2 = 0 := by
    intro p hp
    obtain ⟨i, hi, rfl⟩ := List.mem_map.mp hp
    have hi' : i < T.lPatterns.length := by
      simp only [List.mem_cons, List.mem_nil_iff, or_false] at hi
      rcases hi with rfl | rfl | rfl | rfl | rfl | rfl <;> omega
    rw [getD_eq_getElem _ _ _ hi', (hT.tabL.shape _ (List.getElem_mem hi')).1]
  rw [flatten_map_appendPattern _ true hev]
  congr 1
  exact symbol_join _ _ _ _ _ hT.gOdd (by rw [e1]; omega) hT.mOdd (by
    have : ([d7, d8, d9, d10, d11, d12].map (fun i => T.lPatterns.getD i [])).flatten = digitWidths T.lPatterns [d7, d8, d9, d10, d11, d12] := rfl
    rw [this, e2]; omega)

theorem ean13_core (T : Tables) (hWF : WFUpcEan T = true) (k : EanKind) (hk : k = .ean13 ∨ k = .upca)
    (contents full : List Nat) (hw : stdWriterContents 13 contents = .ok full)
    (hupca : k = .upca → full.head? = some 48) :
    ∃ mods, ean13Modules T contents = .ok mods ∧ ∀ (lq s rq : Nat), 0 < s → s * sumL T.startEnd ≤ lq →
      s * sumL T.startEnd < rq → decodeRow T k (paddedRow lq s rq mods) = .ok (upceanCanonical k full) := by
  have hT := wfFacts T hWF
  obtain ⟨fd, rfl, hlen, hd, hv⟩ := std_full 13 (by omega) (by omega) contents full hw
  match fd, hlen with
  | [d0, d1, d2, d3, d4, d5, d6, d7, d8, d9, d10, d11, d12], _ =>
    have hm := ean13_modules_eq T hT contents d0 d1 d2 d3 d4 d5 d6 d7 d8 d9 d10 d11 d12 hd hw
    refine ⟨_, hm, ?_⟩
    intro lq s rq hs hlq hrq
    have hacc := readerAccept_std .ean13 (by decide) _ (by simp) hd hv
    have hd' := hd
    simp only [List.mem_cons, List.mem_nil_iff, or_false, forall_eq_or_imp, forall_eq] at hd'
    obtain ⟨h0, h1, h2, h3, h4, h5, h6, h7, h8, h9, h10, h11, h12⟩ := hd'
    have hlen10 := hT.len
    have h20 := lAndG_length T hT
    have hfd := hT.fd
    have hfdl : T.firstDigit.length = 10 := by
      simp only [WFParity, Bool.and_eq_true, beq_iff_eq] at hfd; exact hfd.1
    generalize hp : T.firstDigit.getD d0 0 = p at *
    have hpe : p = T.firstDigit[d0]'(by omega) := by rw [← hp]; exact getD_eq_getElem _ _ _ (by omega)
    have hp64 : p < 64 := by rw [hpe]; exact hT.fd64 _ (List.getElem_mem _)
    obtain ⟨F1, F2, F3, F4, F5, F6, F7⟩ := twoHalf_facts T hT (lAndG T.lPatterns) hT.tabLG
      [lgIdx p 0 d1, lgIdx p 1 d2, lgIdx p 2 d3, lgIdx p 3 d4, lgIdx p 4 d5, lgIdx p 5 d6] [d7, d8, d9, d10, d11, d12]
      (by
        intro i hi
        rw [h20]
        simp only [List.mem_cons, List.mem_nil_iff, or_false] at hi
        rcases hi with rfl | rfl | rfl | rfl | rfl | rfl <;> exact lgIdx_lt _ _ _ (by assumption))
      (by simp; omega) lq s rq hs hlq hrq _ rfl
    have e6 : ∀ (a b c d e f : Nat), [a, b, c, d, e, f].length = 6 := fun _ _ _ _ _ _ => rfl
    simp only [e6] at F2 F3 F4 F5 F6 F7
    generalize paddedRow lq s rq _ = row at *
    have hdet : determineFirstDigit T.firstDigit
        (lgWord 6 [lgIdx p 0 d1, lgIdx p 1 d2, lgIdx p 2 d3, lgIdx p 3 d4, lgIdx p 4 d5, lgIdx p 5 d6]) = .ok d0 := by
      rw [lgWord_lgIdx p d1 d2 d3 d4 d5 d6 hp64 h1 h2 h3 h4 h5 h6, hpe]
      obtain ⟨_, hs10⟩ := scan10_getElem hfd d0 h0
      exact hs10
    have hres : ((48 + d0) :: List.map (fun m => 48 + m % 10)
          [lgIdx p 0 d1, lgIdx p 1 d2, lgIdx p 2 d3, lgIdx p 3 d4, lgIdx p 4 d5, lgIdx p 5 d6]) ++
          List.map (fun x => 48 + x) [d7, d8, d9, d10, d11, d12]
        = digitBytes [d0, d1, d2, d3, d4, d5, d6, d7, d8, d9, d10, d11, d12] := by
      simp only [List.map_cons, List.map_nil, lgIdx_mod _ _ _ h1, lgIdx_mod _ _ _ h2, lgIdx_mod _ _ _ h3,
        lgIdx_mod _ _ _ h4, lgIdx_mod _ _ _ h5, lgIdx_mod _ _ _ h6, digitBytes, List.cons_append, List.nil_append,
        Nat.add_comm 48]
    rcases hk with rfl | rfl
    · simp only [decodeRow, F1, notFoundOf, bind, Except.bind, decodeWithStart, ean13DecodeMiddle, F2, F3, F4, F5,
        pure, Except.pure, hdet, Nat.add_sub_cancel_left, F6, F7, if_false, Bool.not_true, Bool.false_eq_true,
        reduceCtorEq, upceanCanonical]
      rw [hres, hacc]
    · have hz : d0 = 0 := by
        have := hupca rfl
        simp [digitBytes] at this
        exact this
      subst hz
      simp only [decodeRow, F1, notFoundOf, bind, Except.bind, decodeWithStart, ean13DecodeMiddle, F2, F3, F4, F5,
        pure, Except.pure, hdet, Nat.add_sub_cancel_left, F6, F7, if_false, Bool.not_true, Bool.false_eq_true,
        reduceCtorEq, upceanCanonical, if_true]
      rw [hres, hacc]
      simp [digitBytes]

/-! ## UPC-E -/

theorem upce_key (s full : List Nat) (h : upceWriterContents s = .ok full) :
    allDigits s = true ∧ (s.length = 7 ∨ s.length = 8) ∧ (s.head? = some 48 ∨ s.head? = some 49) := by
  unfold upceWriterContents at h
  by_cases h7 : s.length = 7
  · simp only [h7, if_true] at h
    cases hc : convertUPCEtoUPCA s with
    | error e => simp [hc] at h
    | ok a =>
      cases hs : eanChecksumB a with
      | error e => simp [hc, hs] at h
      | ok c =>
        simp only [hc, hs] at h
        by_cases hall : allDigits (s ++ itoaSmall c) = true
        · simp only [hall, Bool.not_true, Bool.false_eq_true, if_false] at h
          have hall' : allDigits s = true := by
            simp only [allDigits, List.all_append, Bool.and_eq_true] at hall
            exact hall.1
          cases s with
          | nil => simp at h7
          | cons b tl =>
            simp only [List.cons_append] at h
            by_cases hb : b = 48 ∨ b = 49
            · exact ⟨hall', Or.inl h7, by simpa using hb⟩
            · simp [hb] at h
        · simp [hall] at h
  · by_cases h8 : s.length = 8
    · simp only [h7, if_false] at h
      simp only [h8, if_true] at h
      cases hc : convertUPCEtoUPCA s with
      | error e => simp [hc] at h
      | ok a =>
        cases hs : checkStandardB a with
        | error e => simp [hc, hs] at h
        | ok c =>
          cases c with
          | false => simp [hc, hs] at h
          | true =>
            simp only [hc, hs] at h
            by_cases hall : allDigits s = true
            · simp only [hall, Bool.not_true, Bool.false_eq_true, if_false] at h
              cases s with
              | nil => simp at h8
              | cons b tl =>
                by_cases hb : b = 48 ∨ b = 49
                · exact ⟨hall, Or.inr h8, by simpa using hb⟩
                · simp [hb] at h
            · simp [hall] at h
    · simp [h7, h8] at h

theorem upce_full (s full : List Nat) (h : upceWriterContents s = .ok full) :
    ∃ fd, full = digitBytes fd ∧ fd.length = 8 ∧ (∀ d ∈ fd, d < 10) ∧ (fd.head? = some 0 ∨ fd.head? = some 1) ∧
      readerAccept .upce full = .ok () := by
  obtain ⟨hall, hlen, hhead⟩ := upce_key s full h
  obtain ⟨ds, rfl, hds⟩ := allDigits_exists s hall
  have hdl : (digitBytes ds).length = ds.length := by simp [digitBytes]
  rw [hdl] at hlen
  have hns : ds.head? = some 0 ∨ ds.head? = some 1 := by
    cases ds with
    | nil => simp at hlen
    | cons d tl =>
      simp only [digitBytes, List.map_cons, List.head?_cons, Option.some.injEq] at hhead ⊢
      omega
  rcases hlen with h7 | h8
  · obtain ⟨a, c, hea, hc10, hcd, hw, hacc⟩ := Properties.C10.upce_check_on_expansion ds h7 hds hns
    rw [hw] at h
    cases h
    refine ⟨ds ++ [c], rfl, by simp; omega, ?_, ?_, hacc⟩
    · intro d hd
      simp only [List.mem_append, List.mem_singleton] at hd
      rcases hd with hd | rfl
      · exact hds d hd
      · exact hc10
    · cases ds with
      | nil => simp at h7
      | cons d tl => simpa using hns
  · obtain ⟨a, hea, hw⟩ := Properties.C10.upce_writer_rejects_wrong_check ds h8 hds
    rw [hw] at h
    split at h
    · rename_i hcond
      cases h
      obtain ⟨a', hea', hacc⟩ := Properties.C10.upce_reader_accept_iff ds h8 hds
      rw [hea] at hea'
      cases hea'
      rw [if_pos hcond.1] at hacc
      exact ⟨ds, rfl, h8, hds, hns, hacc⟩
    · cases h

theorem wfParity2_rows (T : Tables) (hT : WFFacts T) :
    ∃ r0 r1, T.upceParity = [r0, r1] ∧ r0.length = 10 ∧ r1.length = 10 := by
  have h := hT.up
  unfold WFParity2 at h
  split at h
  · rename_i r0 r1 he
    simp only [Bool.and_eq_true, beq_iff_eq] at h
    exact ⟨r0, r1, he, h.1.1, h.1.2⟩
  · cases h

theorem upce_modules_eq (T : Tables) (hT : WFFacts T) (contents : List Nat) (d0 d1 d2 d3 d4 d5 d6 d7 : Nat)
    (hd : ∀ d ∈ [d0, d1, d2, d3, d4, d5, d6, d7], d < 10) (hns : d0 = 0 ∨ d0 = 1)
    (hw : upceWriterContents contents = .ok (digitBytes [d0, d1, d2, d3, d4, d5, d6, d7])) :
    upceModules T contents = .ok (appendPattern (T.startEnd ++
      digitWidths (lAndG T.lPatterns)
        [lgIdx ((T.upceParity.getD d0 []).getD d7 0) 0 d1, lgIdx ((T.upceParity.getD d0 []).getD d7 0) 1 d2,
         lgIdx ((T.upceParity.getD d0 []).getD d7 0) 2 d3, lgIdx ((T.upceParity.getD d0 []).getD d7 0) 3 d4,
         lgIdx ((T.upceParity.getD d0 []).getD d7 0) 4 d5, lgIdx ((T.upceParity.getD d0 []).getD d7 0) 5 d6] ++
      T.upceEnd) true) := by
  obtain ⟨r0, r1, hrows, hr0, hr1⟩ := wfParity2_rows T hT
  simp only [List.mem_cons, List.mem_nil_iff, or_false, forall_eq_or_imp, forall_eq] at hd
  obtain ⟨h0, h1, h2, h3, h4, h5, h6, h7⟩ := hd
  have hfirst : nth [d0, d1, d2, d3, d4, d5, d6, d7] 0 = .ok d0 := by simp [nth]
  have hchk : nth [d0, d1, d2, d3, d4, d5, d6, d7] 7 = .ok d7 := by simp [nth]
  have hrow := nth_getD T.upceParity d0 (by rw [hrows]; simp; omega)
  have hrl : (T.upceParity.getD d0 []).length = 10 := by
    rw [hrows]; rcases hns with rfl | rfl <;> simpa
  have hpar := nthN_getD (T.upceParity.getD d0 []) d7 (by omega)
  have hleft := leftHalf_eq T hT d0 d1 d2 d3 d4 d5 d6 [d7] ((T.upceParity.getD d0 []).getD d7 0) h1 h2 h3 h4 h5 h6
  unfold upceModules
  simp only [hw, bind, Except.bind, pure, Except.pure, digitVals_digitBytes, hfirst, hchk, hrow, hpar, hleft]
  have h20 := lAndG_length T hT
  obtain ⟨e1, _⟩ := digitWidths_shape hT.tabLG
    [lgIdx ((T.upceParity.getD d0 []).getD d7 0) 0 d1, lgIdx ((T.upceParity.getD d0 []).getD d7 0) 1 d2,
     lgIdx ((T.upceParity.getD d0 []).getD d7 0) 2 d3, lgIdx ((T.upceParity.getD d0 []).getD d7 0) 3 d4,
     lgIdx ((T.upceParity.getD d0 []).getD d7 0) 4 d5, lgIdx ((T.upceParity.getD d0 []).getD d7 0) 5 d6] (by
      intro i hi
      rw [h20]
      simp only [List.mem_cons, List.mem_nil_iff, or_false] at hi
      rcases hi with rfl | rfl | rfl | rfl | rfl | rfl <;> exact lgIdx_lt _ _ _ (by assumption))
  congr 1
  simp only [appendPattern_append, List.length_append, e1]
  have p1 : ¬ T.startEnd.length % 2 = 0 := by have := hT.gOdd; omega
  have p2 : ¬ (T.startEnd.length + 4 * [lgIdx ((T.upceParity.getD d0 []).getD d7 0) 0 d1,
     lgIdx ((T.upceParity.getD d0 []).getD d7 0) 1 d2,
     lgIdx ((T.upceParity.getD d0 []).getD d7 0) 2 d3, lgIdx ((T.upceParity.getD d0 []).getD d7 0) 3 d4,
     lgIdx ((T.upceParity.getD d0 []).getD d7 0) 4 d5, lgIdx ((T.upceParity.getD d0 []).getD d7 0) 5 d6].length) % 2 = 0 := by
    have := hT.gOdd; simp; omega
  simp only [p1, p2, if_false, Bool.not_true]

theorem upce_core (T : Tables) (hWF : WFUpcEan T = true)
    (contents full : List Nat) (hw : upceWriterContents contents = .ok full) :
    ∃ mods, upceModules T contents = .ok mods ∧ ∀ (lq s rq : Nat), 0 < s → s * sumL T.startEnd ≤ lq →
      s * sumL T.upceMiddleEnd < rq → decodeRow T .upce (paddedRow lq s rq mods) = .ok full := by
  have hT := wfFacts T hWF
  obtain ⟨fd, rfl, hlen, hd, hns, hacc⟩ := upce_full contents full hw
  match fd, hlen with
  | [d0, d1, d2, d3, d4, d5, d6, d7], _ =>
    have hns' : d0 = 0 ∨ d0 = 1 := by simpa using hns
    have hm := upce_modules_eq T hT contents d0 d1 d2 d3 d4 d5 d6 d7 hd hns' hw
    refine ⟨_, hm, ?_⟩
    intro lq s rq hs hlq hrq
    rw [hT.eEq] at hrq
    have hd' := hd
    simp only [List.mem_cons, List.mem_nil_iff, or_false, forall_eq_or_imp, forall_eq] at hd'
    obtain ⟨h0, h1, h2, h3, h4, h5, h6, h7⟩ := hd'
    have h20 := lAndG_length T hT
    obtain ⟨r0, r1, hrows, hr0, hr1⟩ := wfParity2_rows T hT
    have hup := hT.up
    rw [hrows] at hup
    obtain ⟨hb0, hb1, _⟩ := Properties.C10.upce_parity_bijective r0 r1 hup
    generalize hp : (T.upceParity.getD d0 []).getD d7 0 = p at *
    have hp64 : p < 64 := by
      rw [← hp]
      have hrl : (T.upceParity.getD d0 []).length = 10 := by
        rw [hrows]; rcases hns' with rfl | rfl <;> simpa
      have hmem : T.upceParity.getD d0 [] ∈ T.upceParity := by
        rw [hrows]; rcases hns' with rfl | rfl <;> simp
      rw [getD_eq_getElem _ _ _ (by omega)]
      exact hT.up64 _ hmem _ (List.getElem_mem _)
    have hdet : determineNumSysAndCheckDigit T.upceParity
        (lgWord 6 [lgIdx p 0 d1, lgIdx p 1 d2, lgIdx p 2 d3, lgIdx p 3 d4, lgIdx p 4 d5, lgIdx p 5 d6]) = .ok (d0, d7) := by
      rw [lgWord_lgIdx p d1 d2 d3 d4 d5 d6 hp64 h1 h2 h3 h4 h5 h6, hrows, ← hp, hrows]
      rcases hns' with rfl | rfl
      · obtain ⟨hlt, hh⟩ := hb0 d7 h7
        simp only [List.getD_cons_zero]
        rw [getD_eq_getElem _ _ _ hlt]; exact hh
      · obtain ⟨hlt, hh⟩ := hb1 d7 h7
        simp only [List.getD_cons_succ, List.getD_cons_zero]
        rw [getD_eq_getElem _ _ _ hlt]; exact hh
    obtain ⟨F1, F2, F3, F6, F7⟩ := upce_facts T hT
      [lgIdx p 0 d1, lgIdx p 1 d2, lgIdx p 2 d3, lgIdx p 3 d4, lgIdx p 4 d5, lgIdx p 5 d6]
      (by
        intro i hi
        rw [h20]
        simp only [List.mem_cons, List.mem_nil_iff, or_false] at hi
        rcases hi with rfl | rfl | rfl | rfl | rfl | rfl <;> exact lgIdx_lt _ _ _ (by assumption))
      lq s rq hs hlq hrq _ rfl
    have e6 : ∀ (a b c d e f : Nat), [a, b, c, d, e, f].length = 6 := fun _ _ _ _ _ _ => rfl
    simp only [e6] at F2 F3 F6 F7
    generalize paddedRow lq s rq _ = row at *
    have hres : ((48 + d0) :: List.map (fun m => 48 + m % 10)
          [lgIdx p 0 d1, lgIdx p 1 d2, lgIdx p 2 d3, lgIdx p 3 d4, lgIdx p 4 d5, lgIdx p 5 d6]) ++ [48 + d7]
        = digitBytes [d0, d1, d2, d3, d4, d5, d6, d7] := by
      simp only [List.map_cons, List.map_nil, lgIdx_mod _ _ _ h1, lgIdx_mod _ _ _ h2, lgIdx_mod _ _ _ h3,
        lgIdx_mod _ _ _ h4, lgIdx_mod _ _ _ h5, lgIdx_mod _ _ _ h6, digitBytes, List.cons_append, List.nil_append,
        Nat.add_comm 48]
    simp only [decodeRow, F1, notFoundOf, bind, Except.bind, decodeWithStart, upceDecodeMiddle, F2, F3,
      pure, Except.pure, hdet, Nat.add_sub_cancel_left, F6, F7, if_false, Bool.not_true, Bool.false_eq_true,
      reduceCtorEq]
    rw [hres, hacc]

/-! ## all four symbologies -/

theorem std_prefix (n : Nat) (s full : List Nat) (h : stdWriterContents n s = .ok full) : ∃ t, full = s ++ t := by
  unfold stdWriterContents at h
  split at h
  · split at h
    · cases h
    · simp only at h
      split at h
      · cases h; exact ⟨_, rfl⟩
      · cases h
  · split at h
    · split at h
      · cases h
      · cases h
      · split at h
        · cases h; exact ⟨[], by simp⟩
        · cases h
    · cases h

theorem upcean_read_write_core (T : Tables) (hT : WFUpcEan T = true) (k : EanKind) (contents full : List Nat)
    (hw : writerContents k contents = .ok full) :
    ∃ mods, upceanModules T k contents = .ok mods ∧ ∀ (lq s rq : Nat), 1 ≤ s → lq ≥ s * sumL T.startEnd →
      rq > s * sumL (endGuardOf T k) → decodeRow T k (paddedRow lq s rq mods) = .ok (upceanCanonical k full) := by
  cases k with
  | ean13 => exact ean13_core T hT .ean13 (Or.inl rfl) contents full hw (by intro h; cases h)
  | ean8 => exact ean8_read_write T hT contents full hw
  | upca =>
    have hw' : stdWriterContents 13 (48 :: contents) = .ok full := hw
    obtain ⟨t, ht⟩ := std_prefix 13 _ full hw'
    exact ean13_core T hT .upca (Or.inr rfl) (48 :: contents) full hw' (by intro _; rw [ht]; rfl)
  | upce => exact upce_core T hT contents full hw

/-! ## the writer's own rendering -/

theorem renderRow_padded (code : List Bool) (width margin : Nat) (h0 : code.length + margin ≠ 0) :
    renderRow code width margin = .ok (paddedRow
      ((max width (code.length + margin) - code.length * (max width (code.length + margin) / (code.length + margin))) / 2)
      (max width (code.length + margin) / (code.length + margin))
      (max width (code.length + margin)
        - (max width (code.length + margin) - code.length * (max width (code.length + margin) / (code.length + margin))) / 2
        - code.length * (max width (code.length + margin) / (code.length + margin)))
      code) := by
  unfold renderRow
  simp only [h0, if_false, paddedRow, scaleRow]

/-- the row `renderRow` produces satisfies the quiet-zone hypotheses whenever the margin is at least twice the start
    guard and more than twice the end guard (in modules): e.g. 7 for EAN-13 / EAN-8 / UPC-A, 13 for UPC-E -/
theorem upcean_rendered_core (T : Tables) (hT : WFUpcEan T = true) (k : EanKind) (contents full : List Nat)
    (hw : writerContents k contents = .ok full) (width margin : Nat)
    (hm1 : margin ≥ 2 * sumL T.startEnd) (hm2 : margin ≥ 2 * sumL (endGuardOf T k) + 1) :
    ∃ mods row, upceanModules T k contents = .ok mods ∧ renderRow mods width margin = .ok row ∧
      decodeRow T k row = .ok (upceanCanonical k full) := by
  obtain ⟨mods, hm, hread⟩ := upcean_read_write_core T hT k contents full hw
  refine ⟨mods, _, hm, renderRow_padded mods width margin (by omega), ?_⟩
  generalize hn : mods.length = n
  generalize hW : max width (n + margin) = W
  have hWge : n + margin ≤ W := by rw [← hW]; exact Nat.le_max_right _ _
  have hfw : 0 < n + margin := by omega
  generalize hmm : W / (n + margin) = m
  have hm1' : 1 ≤ m := by
    rw [← hmm]; exact (Nat.le_div_iff_mul_le hfw).mpr (by omega)
  have hle : m * (n + margin) ≤ W := by rw [← hmm]; exact Nat.div_mul_le_self _ _
  rw [Nat.mul_add] at hle
  have h1 : m * (2 * sumL T.startEnd) ≤ m * margin := Nat.mul_le_mul_left m hm1
  have h2 : m * (2 * sumL (endGuardOf T k) + 1) ≤ m * margin := Nat.mul_le_mul_left m hm2
  have e1 : m * (2 * sumL T.startEnd) = 2 * (m * sumL T.startEnd) := by rw [Nat.mul_left_comm]
  have e2 : m * (2 * sumL (endGuardOf T k) + 1) = 2 * (m * sumL (endGuardOf T k)) + m := by
    rw [Nat.mul_add, Nat.mul_left_comm, Nat.mul_one]
  rw [e1] at h1
  rw [e2] at h2
  have e3 : n * m = m * n := Nat.mul_comm _ _
  apply hread _ m _ hm1'
  · rw [e3]; omega
  · rw [e3]; omega

end Gzx.OneD
