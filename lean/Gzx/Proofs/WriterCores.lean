/-
  C12, depth: the encoder cores modelled elsewhere in this project are total — no panic for any input, and a
  symbol that is returned is not empty — so the writer front-end theorems of Properties/C12 can be instantiated
  without a core hypothesis.
    1-D: Gzx/Model/OneD.lean (C03)        QR: Gzx/Ref/QR.lean refEncode (C07)
-/
import Gzx.Proofs.WriterFrontend
import Gzx.Proofs.OneD
import Gzx.Proofs.CheckDigit
import Gzx.Ref.QR
import Gzx.Proofs.DMTotalAB
namespace Gzx.WriterFrontend
open Gzx Gzx.Render Gzx.OneD Gzx.CheckDigit

/-- an encoder that answers with a WriterException or a non-empty code is a total core -/
theorem coreTotal_of_key (core : List Nat → Res (List Bool))
    (key : ∀ c, core c = .error .writer ∨ ∃ code, core c = .ok code ∧ 1 ≤ code.length) :
    OneDCoreTotal (fun c (_ : Hints) => core c) := by
  constructor
  · intro c _ w hw
    rcases key c with h | ⟨code, h, -⟩ <;> rw [h] at hw <;> cases hw
  · intro c _ code hok
    rcases key c with h | ⟨code', h, hl⟩
    · rw [h] at hok; cases hok
    · rw [h] at hok; cases hok; exact hl

/-! ## UPC/EAN -/

/-- what the UPC/EAN writers need from the tables they index -/
def WFUpc (T : Tables) : Bool :=
  T.lPatterns.length == 10 && T.firstDigit.length == 10 && T.upceParity.length == 2 &&
  T.upceParity.all (fun r => r.length == 10) && decide (1 ≤ (appendPattern T.startEnd true).length)

theorem wfUpc_ref : WFUpc refTables = true := by decide

theorem itoaSmall_length (c : Int) : 1 ≤ (itoaSmall c).length := by
  unfold itoaSmall; split <;> simp

theorem stdWriterContents_ok (n : Nat) (contents full : List Nat) (h : stdWriterContents n contents = .ok full) :
    n ≤ full.length ∧ allDigits full = true := by
  unfold stdWriterContents at h
  split at h
  · split at h
    · cases h
    · rename_i c _
      dsimp only at h
      split at h
      · rename_i hd
        cases h
        have := itoaSmall_length c
        exact ⟨by simp only [List.length_append]; omega, hd⟩
      · cases h
  · split at h
    · split at h
      · cases h
      · cases h
      · split at h
        · rename_i hd; cases h; exact ⟨by omega, hd⟩
        · cases h
    · cases h

theorem stdWriterContents_err (n : Nat) (contents : List Nat) (e : Fault)
    (h : stdWriterContents n contents = .error e) : e = .writer := by
  unfold stdWriterContents at h
  split at h
  · split at h
    · cases h; rfl
    · dsimp only at h
      split at h
      · cases h
      · cases h; rfl
  · split at h
    · split at h
      · cases h; rfl
      · cases h; rfl
      · split at h
        · cases h
        · cases h; rfl
    · cases h; rfl

theorem nth_digit {ds : List Nat} {i : Nat} (hi : i < ds.length) (hd : ∀ d ∈ ds, d < 10) :
    ∃ d, nth ds i = .ok d ∧ d < 10 :=
  ⟨ds[i], nth_ok ds i hi, hd _ (List.getElem_mem hi)⟩

theorem nth_exists {α : Type} (l : List α) (i : Nat) (hi : i < l.length) : ∃ x, nth l i = .ok x :=
  ⟨l[i], nth_ok l i hi⟩

theorem leftHalf_ok (T : Tables) (hL : T.lPatterns.length = 10) (ds : List Nat) (hlen : 7 ≤ ds.length)
    (hd : ∀ d ∈ ds, d < 10) (parities : Nat) : ∃ r, leftHalf T ds parities = .ok r := by
  unfold leftHalf
  have hLG : (lAndG T.lPatterns).length = 20 := by simp [lAndG, hL]
  obtain ⟨pats, hp, -, -⟩ := mapM_exists_ok
    (fun j => do
      let d ← nth ds (j + 1)
      nth (lAndG T.lPatterns) (if (parities / 2 ^ (5 - j)) % 2 = 1 then d + 10 else d))
    (List.range 6) (by
      intro j hj
      have hj : j < 6 := List.mem_range.mp hj
      obtain ⟨d, hdj, hd10⟩ := nth_digit (i := j + 1) (by omega) hd
      obtain ⟨p, hp⟩ := nth_exists (lAndG T.lPatterns) (if (parities / 2 ^ (5 - j)) % 2 = 1 then d + 10 else d)
        (by split <;> omega)
      exact ⟨p, by simp only [hdj, hp, bind, Except.bind]⟩)
  simp only [bind, Except.bind, pure, Except.pure] at hp ⊢
  rw [hp]
  exact ⟨_, rfl⟩

theorem ean13_core_total (T : Tables) (hT : WFUpc T = true) :
    OneDCoreTotal (fun c (_ : Hints) => ean13Modules T c) := by
  simp only [WFUpc, Bool.and_eq_true, beq_iff_eq, decide_eq_true_eq] at hT
  obtain ⟨⟨⟨⟨hL, hF⟩, -⟩, -⟩, hS⟩ := hT
  have key : ∀ c, ean13Modules T c = .error .writer ∨
      ∃ code, ean13Modules T c = .ok code ∧ 1 ≤ code.length := by
    intro c
    unfold ean13Modules
    cases hfull : stdWriterContents 13 c with
    | error e => left; rw [stdWriterContents_err _ _ _ hfull]; rfl
    | ok full =>
      right
      obtain ⟨hlen, hdig⟩ := stdWriterContents_ok _ _ _ hfull
      have hdl : (digitVals full).length = full.length := by simp [digitVals]
      have hd := digitVals_lt full hdig
      obtain ⟨first, hfirst, hf10⟩ := nth_digit (ds := digitVals full) (i := 0) (by omega) hd
      obtain ⟨par, hpar⟩ := nth_exists T.firstDigit first (by omega)
      obtain ⟨left, hleft⟩ := leftHalf_ok T hL (digitVals full) (by omega) hd par
      obtain ⟨right, hright, -, -⟩ := mapM_exists_ok
        (fun j => do let d ← nth (digitVals full) (j + 7); nth T.lPatterns d) (List.range 6) (by
          intro j hj
          have hj : j < 6 := List.mem_range.mp hj
          obtain ⟨d, hdj, hd10⟩ := nth_digit (ds := digitVals full) (i := j + 7) (by omega) hd
          obtain ⟨p, hp⟩ := nth_exists T.lPatterns d (by omega)
          exact ⟨p, by simp only [hdj, hp, bind, Except.bind]⟩)
      simp only [bind, Except.bind, pure, Except.pure] at hright ⊢
      simp only [hfirst, hpar, hleft, hright]
      refine ⟨_, rfl, ?_⟩
      simp only [List.length_append]; omega
  exact coreTotal_of_key _ key

theorem ean8_core_total (T : Tables) (hT : WFUpc T = true) :
    OneDCoreTotal (fun c (_ : Hints) => ean8Modules T c) := by
  simp only [WFUpc, Bool.and_eq_true, beq_iff_eq, decide_eq_true_eq] at hT
  obtain ⟨⟨⟨⟨hL, -⟩, -⟩, -⟩, hS⟩ := hT
  apply coreTotal_of_key
  intro c
  unfold ean8Modules
  cases hfull : stdWriterContents 8 c with
  | error e => left; rw [stdWriterContents_err _ _ _ hfull]; rfl
  | ok full =>
    right
    obtain ⟨hlen, hdig⟩ := stdWriterContents_ok _ _ _ hfull
    have hdl : (digitVals full).length = full.length := by simp [digitVals]
    have hd := digitVals_lt full hdig
    obtain ⟨left, hleft, -, -⟩ := mapM_exists_ok
      (fun j => do let d ← nth (digitVals full) j; nth T.lPatterns d) (List.range 4) (by
        intro j hj
        have hj : j < 4 := List.mem_range.mp hj
        obtain ⟨d, hdj, hd10⟩ := nth_digit (ds := digitVals full) (i := j) (by omega) hd
        obtain ⟨p, hp⟩ := nth_exists T.lPatterns d (by omega)
        exact ⟨p, by simp only [hdj, hp, bind, Except.bind]⟩)
    obtain ⟨right, hright, -, -⟩ := mapM_exists_ok
      (fun j => do let d ← nth (digitVals full) (j + 4); nth T.lPatterns d) (List.range 4) (by
        intro j hj
        have hj : j < 4 := List.mem_range.mp hj
        obtain ⟨d, hdj, hd10⟩ := nth_digit (ds := digitVals full) (i := j + 4) (by omega) hd
        obtain ⟨p, hp⟩ := nth_exists T.lPatterns d (by omega)
        exact ⟨p, by simp only [hdj, hp, bind, Except.bind]⟩)
    simp only [bind, Except.bind, pure, Except.pure] at hleft hright ⊢
    simp only [hleft, hright]
    refine ⟨_, rfl, ?_⟩
    simp only [List.length_append]; omega

/-- UPC-A: the EAN-13 encoder on "0" + contents -/
theorem upca_core_total (T : Tables) (hT : WFUpc T = true) :
    OneDCoreTotal (fun c (_ : Hints) => upcaModules T c) := by
  have h := ean13_core_total T hT
  constructor
  · intro c hh; exact h.noPanic (48 :: c) hh
  · intro c hh code hok; exact h.nonEmpty (48 :: c) hh code hok

theorem convertUPCEtoUPCA_ok (c : List Nat) (hl : 7 ≤ c.length) : ∃ a, convertUPCEtoUPCA c = .ok a := by
  match c, hl with
  | n :: a :: b :: c :: d :: e :: l :: rest, _ => exact ⟨_, rfl⟩

theorem upceWriterContents_ok (contents full : List Nat) (h : upceWriterContents contents = .ok full) :
    8 ≤ full.length ∧ allDigits full = true ∧ ∃ f, full.head? = some f ∧ (f = 48 ∨ f = 49) := by
  unfold upceWriterContents at h
  dsimp only at h
  split at h
  · cases h
  · rename_i full' hchk
    have hlen : 8 ≤ full'.length := by
      split at hchk
      · split at hchk
        · cases hchk
        · split at hchk
          · cases hchk
          · rename_i cd _
            cases hchk
            have := itoaSmall_length cd
            simp only [List.length_append]; omega
      · split at hchk
        · split at hchk
          · cases hchk
          · split at hchk
            · cases hchk
            · cases hchk
            · cases hchk; omega
        · cases hchk
    split at h
    · cases h
    · rename_i hdig
      split at h
      · rename_i f rest
        split at h
        · rename_i hf
          cases h
          exact ⟨hlen, by simpa using hdig, f, rfl, hf⟩
        · cases h
      · cases h

theorem upceWriterContents_err (contents : List Nat) (e : Fault) (h : upceWriterContents contents = .error e) :
    e = .writer := by
  unfold upceWriterContents at h
  dsimp only at h
  split at h
  · rename_i e' hchk
    cases h
    split at hchk
    · rename_i h7
      obtain ⟨a, ha⟩ := convertUPCEtoUPCA_ok contents (by omega)
      rw [ha] at hchk
      dsimp only at hchk
      split at hchk
      · cases hchk; rfl
      · cases hchk
    · split at hchk
      · rename_i h8
        obtain ⟨a, ha⟩ := convertUPCEtoUPCA_ok contents (by omega)
        rw [ha] at hchk
        dsimp only at hchk
        split at hchk
        · cases hchk; rfl
        · cases hchk; rfl
        · cases hchk
      · cases hchk; rfl
  · rename_i full' hchk
    have hlen : 8 ≤ full'.length := by
      split at hchk
      · split at hchk
        · cases hchk
        · split at hchk
          · cases hchk
          · rename_i cd _
            cases hchk
            have := itoaSmall_length cd
            simp only [List.length_append]; omega
      · split at hchk
        · split at hchk
          · cases hchk
          · split at hchk
            · cases hchk
            · cases hchk
            · cases hchk; omega
        · cases hchk
    split at h
    · cases h; rfl
    · split at h
      · split at h
        · cases h
        · cases h; rfl
      · simp at hlen

theorem upce_core_total (T : Tables) (hT : WFUpc T = true) :
    OneDCoreTotal (fun c (_ : Hints) => upceModules T c) := by
  simp only [WFUpc, Bool.and_eq_true, beq_iff_eq, decide_eq_true_eq, List.all_eq_true] at hT
  obtain ⟨⟨⟨⟨hL, -⟩, hP⟩, hRow⟩, hS⟩ := hT
  apply coreTotal_of_key
  intro c
  unfold upceModules
  cases hfull : upceWriterContents c with
  | error e => left; rw [upceWriterContents_err _ _ hfull]; rfl
  | ok full =>
    right
    obtain ⟨hlen, hdig, f, hf, hf01⟩ := upceWriterContents_ok _ _ hfull
    have hdl : (digitVals full).length = full.length := by simp [digitVals]
    have hd := digitVals_lt full hdig
    have hfirst : nth (digitVals full) 0 = .ok (f - 48) := by
      cases full with
      | nil => simp at hlen
      | cons x xs =>
        simp only [List.head?_cons, Option.some.injEq] at hf
        subst hf
        simp [digitVals, nth]
    have hf2 : f - 48 < 2 := by omega
    obtain ⟨chk, hchk, hc10⟩ := nth_digit (ds := digitVals full) (i := 7) (by omega) hd
    obtain ⟨row, hrow⟩ := nth_exists T.upceParity (f - 48) (by omega)
    have hrowlen : row.length = 10 := by
      have hmem : row ∈ T.upceParity := by
        unfold nth at hrow
        split at hrow
        · rename_i x hx; cases hrow; exact List.mem_of_getElem? hx
        · cases hrow
      simpa using hRow row hmem
    obtain ⟨par, hpar⟩ := nth_exists row chk (by omega)
    obtain ⟨body, hbody⟩ := leftHalf_ok T hL (digitVals full) (by omega) hd par
    simp only [bind, Except.bind, pure, Except.pure]
    simp only [hfirst, hchk, hrow, hpar, hbody]
    refine ⟨_, rfl, ?_⟩
    simp only [List.length_append]; omega

/-! ## ITF -/

def WFItfW (T : Tables) : Bool :=
  T.itfWriter.length == 10 && decide (1 ≤ (appendPattern T.itfStart true).length)

theorem wfItfW_ref : WFItfW refTables = true := by decide

theorem itfSymbols_ok (c ds : List Nat) (h : itfSymbols c = .ok ds) : ∀ d ∈ ds, d < 10 := by
  unfold itfSymbols at h
  simp only [bind, Except.bind, throw, throwThe, MonadExceptOf.throw, pure, Except.pure] at h
  split at h
  · cases h
  · split at h
    · cases h
    · split at h
      · cases h
      · rename_i hdig
        cases h
        exact digitVals_lt c (by simpa using hdig)

theorem itfSymbols_err (c : List Nat) (e : Fault) (h : itfSymbols c = .error e) : e = .writer := by
  unfold itfSymbols at h
  simp only [bind, Except.bind, throw, throwThe, MonadExceptOf.throw, pure, Except.pure] at h
  split at h
  · cases h; rfl
  · split at h
    · cases h; rfl
    · split at h
      · cases h; rfl
      · cases h

theorem itf_core_total (T : Tables) (hT : WFItfW T = true) :
    OneDCoreTotal (fun c (_ : Hints) => itfModules T c) := by
  simp only [WFItfW, Bool.and_eq_true, beq_iff_eq, decide_eq_true_eq] at hT
  obtain ⟨hW, hS⟩ := hT
  apply coreTotal_of_key
  intro c
  unfold itfModules
  cases hds : itfSymbols c with
  | error e => left; rw [itfSymbols_err _ _ hds]; rfl
  | ok ds =>
    right
    have hd := itfSymbols_ok _ _ hds
    obtain ⟨pairs, hpairs, -, -⟩ := mapM_exists_ok (itfPairDraw T.itfWriter) (itfPairs ds) (by
      intro p hp
      obtain ⟨m1, m2⟩ := itfPairs_mem _ p hp
      obtain ⟨one, h1'⟩ := nth_exists T.itfWriter p.1 (by have := hd _ m1; omega)
      obtain ⟨two, h2'⟩ := nth_exists T.itfWriter p.2 (by have := hd _ m2; omega)
      refine ⟨appendPattern (interleave one two) true, ?_⟩
      simp only [itfPairDraw, h1', h2', bind, Except.bind, pure, Except.pure])
    simp only [bind, Except.bind, pure, Except.pure, itfDraw, hpairs]
    refine ⟨_, rfl, ?_⟩
    simp only [List.length_append]; omega

/-! ## Code 39 / Code 93 -/

/-- every byte an escape produces is in the alphabet, for all 128 escapable bytes -/
def escInAlpha (esc : Nat → Res (List Nat)) (A : List Nat) : Bool :=
  (List.range 128).all (fun c =>
    match esc c with
    | .ok e => e.all (fun x => (indexOf? x A).isSome)
    | .error f => f == .writer)

def WF39 (T : Tables) : Bool :=
  escInAlpha code39Escape1 T.code39Alphabet && decide (T.code39Alphabet.length ≤ T.code39Enc.length)

def WF93 (T : Tables) : Bool :=
  escInAlpha code93Escape1 T.code93Alphabet && decide (T.code93Alphabet.length ≤ T.code93Enc.length) &&
  decide (48 ≤ T.code93Enc.length)

theorem wf39_ref : WF39 refTables = true := by decide
theorem wf93_ref : WF93 refTables = true := by decide

theorem esc39_ge (c : Nat) (hc : 128 ≤ c) : code39Escape1 c = .error .writer := by
  unfold code39Escape1
  repeat (rw [if_neg (by omega)])

theorem esc93_ge (c : Nat) (hc : 128 ≤ c) : code93Escape1 c = .error .writer := by
  unfold code93Escape1
  repeat (rw [if_neg (by omega)])

/-- a list escape either fails with a WriterException or yields bytes of the alphabet -/
theorem escape_list (esc : Nat → Res (List Nat)) (escL : List Nat → Res (List Nat)) (A : List Nat)
    (hnil : escL [] = .ok [])
    (hcons : ∀ c cs, escL (c :: cs) = (do let e ← esc c; let r ← escL cs; pure (e ++ r)))
    (hge : ∀ c, 128 ≤ c → esc c = .error .writer) (hA : escInAlpha esc A = true) :
    ∀ cs, escL cs = .error .writer ∨ ∃ e, escL cs = .ok e ∧ ∀ x ∈ e, (indexOf? x A).isSome = true := by
  intro cs
  induction cs with
  | nil => right; exact ⟨[], hnil, by simp⟩
  | cons c cs ih =>
    rw [hcons]
    by_cases hc : c < 128
    · have h1 := List.all_eq_true.mp hA c (List.mem_range.mpr hc)
      cases he : esc c with
      | error f =>
        rw [he] at h1
        have : f = .writer := by simpa using h1
        left; rw [this]; rfl
      | ok e =>
        rw [he] at h1
        rcases ih with h | ⟨r, hr, hmem⟩
        · left; simp only [h, bind, Except.bind]
        · right
          refine ⟨e ++ r, by simp only [hr, bind, Except.bind, pure, Except.pure], ?_⟩
          intro x hx
          rcases List.mem_append.mp hx with hx | hx
          · exact List.all_eq_true.mp h1 x hx
          · exact hmem x hx
    · left; simp only [hge c (by omega), bind, Except.bind]

theorem mapM_alphaIndex_ok (A : List Nat) (l : List Nat) (h : ∀ x ∈ l, (indexOf? x A).isSome = true) :
    ∃ syms, l.mapM (alphaIndex A) = .ok syms ∧ ∀ i ∈ syms, i < A.length := by
  obtain ⟨syms, hs, -, hmem⟩ := mapM_exists_ok (alphaIndex A) l (by
    intro x hx
    have := h x hx
    cases hi : indexOf? x A with
    | none => rw [hi] at this; cases this
    | some i => exact ⟨i, by simp only [alphaIndex, hi]⟩)
  refine ⟨syms, hs, ?_⟩
  intro i hi
  obtain ⟨x, -, hx⟩ := hmem i hi
  unfold alphaIndex at hx
  split at hx
  · rename_i j hj; cases hx; exact indexOf?_lt hj
  · cases hx

theorem code39Symbols_total (T : Tables) (hT : WF39 T = true) (c : List Nat) :
    code39Symbols T c = .error .writer ∨
      ∃ syms, code39Symbols T c = .ok syms ∧ ∀ i ∈ syms, i < T.code39Alphabet.length := by
  simp only [WF39, Bool.and_eq_true, decide_eq_true_eq] at hT
  unfold code39Symbols
  simp only [bind, Except.bind, throw, throwThe, MonadExceptOf.throw, pure, Except.pure]
  split
  · left; rfl
  · split
    · rename_i hall
      obtain ⟨syms, hs, hlt⟩ := mapM_alphaIndex_ok T.code39Alphabet c (by
        intro x hx; exact List.all_eq_true.mp hall x hx)
      right; exact ⟨syms, by rw [hs], hlt⟩
    · rcases escape_list code39Escape1 code39Escape T.code39Alphabet rfl (fun _ _ => rfl) esc39_ge hT.1 c
        with h | ⟨e, he, hmem⟩
      · left; simp only [h]
      · simp only [he]
        split
        · left; rfl
        · obtain ⟨syms, hs, hlt⟩ := mapM_alphaIndex_ok T.code39Alphabet e hmem
          right; exact ⟨syms, by rw [hs], hlt⟩

theorem code39_core_total (T : Tables) (hT : WF39 T = true) :
    OneDCoreTotal (fun c (_ : Hints) => code39Modules T c) := by
  have hT' := hT
  simp only [WF39, Bool.and_eq_true, decide_eq_true_eq] at hT'
  apply coreTotal_of_key
  intro c
  unfold code39Modules
  rcases code39Symbols_total T hT c with h | ⟨syms, hs, hlt⟩
  · left; simp only [h, bind, Except.bind]
  · right
    obtain ⟨chars, hchars, -, -⟩ := mapM_exists_ok
      (fun i => do
        let e ← nth T.code39Enc i
        pure (appendPattern (code39Widths e) true ++ [false])) syms (by
        intro i hi
        obtain ⟨e, he⟩ := nth_exists T.code39Enc i (by have := hlt i hi; omega)
        refine ⟨appendPattern (code39Widths e) true ++ [false], ?_⟩
        simp only [he, bind, Except.bind, pure, Except.pure])
    simp only [bind, Except.bind, pure, Except.pure] at hchars ⊢
    simp only [hs, code39Draw, bind, Except.bind, pure, Except.pure, hchars]
    refine ⟨_, rfl, ?_⟩
    simp only [List.length_append, List.length_cons, List.length_nil]; omega

theorem c93Check_lt (m : Nat) (vals : List Nat) : c93Check m vals < 47 := by
  unfold c93Check; exact Nat.mod_lt _ (by decide)

theorem code93Symbols_total (T : Tables) (hT : WF93 T = true) (c : List Nat) :
    code93Symbols T c = .error .writer ∨
      ∃ syms, code93Symbols T c = .ok syms ∧ ∀ i ∈ syms, i < T.code93Enc.length := by
  simp only [WF93, Bool.and_eq_true, decide_eq_true_eq] at hT
  obtain ⟨⟨hA, hle⟩, h48⟩ := hT
  unfold code93Symbols
  simp only [bind, Except.bind, throw, throwThe, MonadExceptOf.throw, pure, Except.pure]
  rcases escape_list code93Escape1 code93Escape T.code93Alphabet rfl (fun _ _ => rfl) esc93_ge hA c
    with h | ⟨e, he, hmem⟩
  · left; simp only [h]
  · simp only [he]
    split
    · left; rfl
    · obtain ⟨vals, hv, hlt⟩ := mapM_alphaIndex_ok T.code93Alphabet e hmem
      right
      simp only [hv]
      refine ⟨_, rfl, ?_⟩
      intro i hi
      simp only [c93Checks, List.mem_append, List.mem_cons, List.not_mem_nil, or_false] at hi
      rcases hi with hi | rfl | rfl
      · have := hlt i hi; omega
      · have := c93Check_lt 20 vals; omega
      · have := c93Check_lt 15 (vals ++ [c93Check 20 vals]); omega

theorem code93_core_total (T : Tables) (hT : WF93 T = true) :
    OneDCoreTotal (fun c (_ : Hints) => code93Modules T c) := by
  have hT' := hT
  simp only [WF93, Bool.and_eq_true, decide_eq_true_eq] at hT'
  apply coreTotal_of_key
  intro c
  unfold code93Modules
  rcases code93Symbols_total T hT c with h | ⟨syms, hs, hlt⟩
  · left; simp only [h, bind, Except.bind]
  · right
    obtain ⟨star, hstar⟩ := nth_exists T.code93Enc 47 (by omega)
    obtain ⟨chars, hchars, -, -⟩ := mapM_exists_ok
      (fun i => do let e ← nth T.code93Enc i; pure (bitsMSB 9 e)) syms (by
        intro i hi
        obtain ⟨e, he⟩ := nth_exists T.code93Enc i (hlt i hi)
        refine ⟨bitsMSB 9 e, ?_⟩
        simp only [he, bind, Except.bind, pure, Except.pure])
    simp only [bind, Except.bind, pure, Except.pure] at hchars ⊢
    simp only [hs, code93Draw, bind, Except.bind, pure, Except.pure, hstar, hchars]
    refine ⟨_, rfl, ?_⟩
    simp only [List.length_append, List.length_cons, List.length_nil]; omega

/-! ## Codabar -/

def WFCodabar (T : Tables) : Bool := decide (T.codabarAlphabet.length ≤ T.codabarEnc.length)

theorem wfCodabar_ref : WFCodabar refTables = true := by decide

/-- first stage of `codabarFull` (guard handling), copied from the model; `codabarFull_eq` ties it by `rfl` -/
def codabarPre (contents : List Nat) : Res (List Nat) :=
  let startEnd := [65, 66, 67, 68]
  let alt := [84, 78, 42, 69]
  if contents.length < 2 then pure ([65] ++ contents ++ [65])
  else
    match contents.head?, contents.getLast? with
    | some f, some l =>
      let fu := toUpperByte f
      let lu := toUpperByte l
      let startsNormal := startEnd.contains fu
      let endsNormal := startEnd.contains lu
      let startsAlt := alt.contains fu
      let endsAlt := alt.contains lu
      if startsNormal then (if endsNormal then pure contents else throw .writer)
      else if startsAlt then (if endsAlt then pure contents else throw .writer)
      else if endsNormal ∨ endsAlt then throw .writer
      else pure ([65] ++ contents ++ [65])
    | _, _ => throw (.panic "unreachable")

theorem codabarFull_eq (c : List Nat) :
    codabarFull c = (codabarPre c >>= fun full =>
      let middle := (full.drop 1).dropLast
      if middle.all (fun c => (48 ≤ c ∧ c ≤ 57) ∨ c = 45 ∨ c = 36 ∨ c = 47 ∨ c = 58 ∨ c = 43 ∨ c = 46) then pure full
      else throw .writer) := by
  unfold codabarFull codabarPre
  dsimp only
  split
  · rfl
  · split
    · repeat' split
      all_goals first | rfl | (exfalso; simp_all)
    · repeat' split
      all_goals first | rfl | (exfalso; simp_all)

theorem codabarPre_spec (c : List Nat) :
    codabarPre c = .error .writer ∨ ∃ full, codabarPre c = .ok full ∧ 2 ≤ full.length := by
  unfold codabarPre
  simp only [throw, throwThe, MonadExceptOf.throw, pure, Except.pure]
  split
  · right; exact ⟨_, rfl, by simp⟩
  · rename_i hge
    split
    · repeat' split
      all_goals first | (left; rfl) | (right; exact ⟨_, rfl, by omega⟩) | (right; exact ⟨_, rfl, by simp⟩)
    · rename_i hnone
      exfalso
      cases c with
      | nil => simp at hge
      | cons x xs =>
        cases hg : (x :: xs).getLast? with
        | none => simp at hg
        | some l => exact hnone x l rfl hg

theorem codabarFull_spec (c : List Nat) :
    codabarFull c = .error .writer ∨ ∃ full, codabarFull c = .ok full ∧ 2 ≤ full.length := by
  rw [codabarFull_eq]
  rcases codabarPre_spec c with h | ⟨full, h, hl⟩
  · left; rw [h]; rfl
  · rw [h]
    simp only [bind, Except.bind, throw, throwThe, MonadExceptOf.throw, pure, Except.pure]
    split
    · right; exact ⟨full, rfl, hl⟩
    · left; rfl

theorem appendPattern_length_pos (w : Nat) (ws : List Nat) (c : Bool) (hw : 1 ≤ w) :
    1 ≤ (appendPattern (w :: ws) c).length := by
  simp only [appendPattern, List.length_append, List.length_replicate]; omega

theorem codabarDraw_pos (w : Nat) (ws : List Nat) : 1 ≤ (codabarDraw (w :: ws)).length := by
  have h7 : ∃ x xs, codabarWidths w = x :: xs ∧ 1 ≤ x := by
    unfold codabarWidths bitsMSB
    refine ⟨_, _, rfl, ?_⟩
    by_cases hb : decide (w / 2 ^ (7 - 1 - 0) % 2 = 1) = true <;> simp [hb]
  obtain ⟨x, xs, hx, h1⟩ := h7
  cases ws with
  | nil => simp only [codabarDraw, hx]; exact appendPattern_length_pos x xs true h1
  | cons v vs =>
    simp only [codabarDraw, hx, List.length_append]
    have := appendPattern_length_pos x xs true h1
    omega

theorem codabarWords_ok (T : Tables) (hT : T.codabarAlphabet.length ≤ T.codabarEnc.length) (full : List Nat) :
    ∃ words, codabarWords T full = .ok words ∧ words.length = full.length := by
  cases hw : codabarWords T full with
  | ok words =>
    refine ⟨words, rfl, ?_⟩
    unfold codabarWords at hw
    dsimp only at hw
    simpa using mapM_ok_length _ _ _ hw
  | error e =>
    exfalso
    unfold codabarWords at hw
    dsimp only at hw
    obtain ⟨i, hi, hfi⟩ := mapM_error_elem _ _ _ hw
    have hi : i < full.length := List.mem_range.mp hi
    obtain ⟨c0, hc0⟩ := nth_exists full i hi
    simp only [hc0, bind, Except.bind, pure, Except.pure] at hfi
    split at hfi
    · rename_i k hk
      obtain ⟨w, hw'⟩ := nth_exists T.codabarEnc k (by have := indexOf?_lt hk; omega)
      rw [hw'] at hfi; cases hfi
    · cases hfi

theorem codabar_core_total (T : Tables) (hT : WFCodabar T = true) :
    OneDCoreTotal (fun c (_ : Hints) => codabarModules T c) := by
  simp only [WFCodabar, decide_eq_true_eq] at hT
  apply coreTotal_of_key
  intro c
  unfold codabarModules
  rcases codabarFull_spec c with h | ⟨full, hfull, hlen⟩
  · left; simp only [h, bind, Except.bind]
  · right
    obtain ⟨words, hwords, hwl⟩ := codabarWords_ok T hT full
    simp only [hfull, hwords, bind, Except.bind, pure, Except.pure]
    refine ⟨_, rfl, ?_⟩
    cases words with
    | nil => simp at hwl; omega
    | cons w ws => exact codabarDraw_pos w ws

/-! ## QR: the reference encoder of C07 as the core -/

/-- The QR core built from the reference encoder `QRRef.refEncode` (ISO/IEC 18004, tied to the Go encoder by
    C07 / C01).  `prep` stands for what precedes it in `Encoder_encode` (character-set conversion, mode choice,
    QR_VERSION / QR_MASK_PATTERN / GS1_FORMAT parsing): any function, `none` = refused. -/
def qrRefCore (prep : List Nat → Int → Hints → Option (QRRef.Mode × List Nat × QRRef.Config)) :
    List Nat → Int → Hints → Res Modules :=
  fun c e h =>
    match prep c e h with
    | none => .error .writer
    | some (m, bytes, cfg) =>
      match QRRef.refEncode m bytes cfg with
      | none => .error .writer                 -- not encodable in the mode / does not fit / version refused
      | some s =>
        .ok ⟨QRRef.dimension s.version, QRRef.dimension s.version,
             fun x y => ((s.matrix[y]?).bind (fun row => row[x]?)).getD false⟩

theorem qrRefCore_total (prep : List Nat → Int → Hints → Option (QRRef.Mode × List Nat × QRRef.Config))
    (knownCharset : HintVal → Bool) : QRCoreTotal ⟨knownCharset, qrRefCore prep⟩ := by
  constructor
  · intro c e h w hw
    simp only [qrRefCore] at hw
    split at hw
    · cases hw
    · split at hw <;> cases hw
  · intro c e h md hok
    simp only [qrRefCore] at hok
    split at hok
    · cases hok
    · split at hok
      · cases hok
      · cases hok
        simp only [QRRef.dimension]
        exact ⟨by omega, by omega⟩

/-! ## Data Matrix: the high-level encoder model of C02, ASCII / Base-256 part -/

/-- Data Matrix core = ISO-8859-1 conversion (`prep`, `none` = character outside Latin-1), the high-level
    encoder model `encodeHL` with look-ahead oracle `la`, then `post` = symbol lookup, ECC200, placement and
    `encodeLowLevel`'s module matrix (not instantiated here). -/
def dmHLCore (syms : List DMHighLevel.SymbolInfo) (la : DMHighLevel.LookAhead)
    (prep : List Nat → Option (List Nat))
    (post : List Nat → Int → Option (Int × Int) → Option (Int × Int) → Res Modules) :
    List Nat → Int → Option (Int × Int) → Option (Int × Int) → Res Modules :=
  fun c shape mn mx =>
    match prep c with
    | none => .error .writer
    | some msg =>
      match DMHighLevel.encodeHL syms la msg
          ⟨shape.toNat, mn.map (fun d => (d.1.toNat, d.2.toNat)), mx.map (fun d => (d.1.toNat, d.2.toNat))⟩ with
      | .error f => .error f
      | .ok cw => post cw shape mn mx

/-- with an oracle that proposes only ASCII and Base 256 (for which C02 proves that the mode loop terminates
    without panic) the Data Matrix core is total as soon as the back end `post` is -/
theorem dmHLCore_total (syms : List DMHighLevel.SymbolInfo) (la : DMHighLevel.LookAhead)
    (hla : DMHighLevel.LaAB la) (prep : List Nat → Option (List Nat))
    (post : List Nat → Int → Option (Int × Int) → Option (Int × Int) → Res Modules)
    (hpost : ∀ cw s mn mx, NoPanic (post cw s mn mx))
    (hne : ∀ cw s mn mx md, post cw s mn mx = .ok md → 1 ≤ md.mw ∧ 1 ≤ md.mh) :
    DMCoreTotal ⟨dmHLCore syms la prep post⟩ := by
  constructor
  · intro c s mn mx w hw
    simp only [dmHLCore] at hw
    split at hw
    · cases hw
    · rename_i msg _
      rcases DMHighLevel.encode_total_ab syms la hla msg
        ⟨s.toNat, mn.map (fun d => (d.1.toNat, d.2.toNat)), mx.map (fun d => (d.1.toNat, d.2.toNat))⟩ with h | ⟨cw, h⟩
      · rw [h] at hw; cases hw
      · rw [h] at hw; exact hpost _ _ _ _ w hw
  · intro c s mn mx md hok
    simp only [dmHLCore] at hok
    split at hok
    · cases hok
    · split at hok
      · cases hok
      · exact hne _ _ _ _ _ hok

end Gzx.WriterFrontend
