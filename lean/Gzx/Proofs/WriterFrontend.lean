/-
  C12 helper definitions: "does not panic", totality of an encoder core, and the small Except toolbox used
  to prove the concrete encoder cores total (Gzx/Proofs/WriterCores.lean).
-/
import Gzx.Model.WriterFrontend
namespace Gzx.WriterFrontend
open Gzx Gzx.Render

/-- "does not panic": the result is a value or one of the library's checked errors -/
def NoPanic {α : Type} (r : Res α) : Prop := ∀ why, r ≠ .error (.panic why)

theorem noPanic_ok {α : Type} (a : α) : NoPanic (.ok a : Res α) := by intro w h; cases h

/-- `NewWriterException("literal", args…)` never trips the `args[0].(string)` assertion -/
theorem newWriterException_lit (args : List HintVal) : ∀ why, newWriterException (lit :: args) ≠ .panic why := by
  intro why h; simp [newWriterException, lit] at h

theorem noPanic_lit {α : Type} (args : List HintVal) : NoPanic (.error (newWriterException (lit :: args)) : Res α) := by
  intro why h
  injection h with h
  exact newWriterException_lit args why h

/-- the QR encoder core (rest of `Encoder_encode`) is total and yields a non-empty matrix -/
structure QRCoreTotal (env : QREnv) : Prop where
  noPanic : ∀ c e h, NoPanic (env.core c e h)
  nonEmpty : ∀ c e h md, env.core c e h = .ok md → 1 ≤ md.mw ∧ 1 ≤ md.mh

structure DMCoreTotal (env : DMEnv) : Prop where
  noPanic : ∀ c s mn mx, NoPanic (env.core c s mn mx)
  nonEmpty : ∀ c s mn mx md, env.core c s mn mx = .ok md → 1 ≤ md.mw ∧ 1 ≤ md.mh

structure OneDCoreTotal (core : List Nat → Hints → Res (List Bool)) : Prop where
  noPanic : ∀ c h, NoPanic (core c h)
  nonEmpty : ∀ c h code, core c h = .ok code → 1 ≤ code.length


/-! ## Except toolbox -/

theorem NoPanic.bind {α β : Type} {x : Res α} {f : α → Res β} (hx : NoPanic x)
    (hf : ∀ a, x = .ok a → NoPanic (f a)) : NoPanic (x >>= f) := by
  cases x with
  | error e =>
    intro w h
    have h' : (Except.error e : Res β) = .error (.panic w) := h
    injection h' with h'
    exact hx w (by rw [h'])
  | ok a => exact hf a rfl

theorem noPanic_error {α : Type} (f : Fault) (hf : ∀ w, f ≠ .panic w) : NoPanic (.error f : Res α) := by
  intro w h; injection h with h; exact hf w h

theorem noPanic_writer {α : Type} : NoPanic (.error .writer : Res α) := by
  intro w h; cases h

theorem noPanic_mapM {α β : Type} (f : α → Res β) (l : List α) (h : ∀ x ∈ l, NoPanic (f x)) :
    NoPanic (l.mapM f) := by
  induction l with
  | nil => simp only [List.mapM_nil]; intro w h; cases h
  | cons a l ih =>
    simp only [List.mapM_cons]
    apply NoPanic.bind (h a (by simp))
    intro b _
    apply NoPanic.bind (ih (fun x hx => h x (by simp [hx])))
    intro bs _ w hw
    cases hw

/-- all elements succeed ⇒ `mapM` succeeds, with as many results -/
theorem mapM_exists_ok {α β : Type} (f : α → Res β) (l : List α) (h : ∀ x ∈ l, ∃ y, f x = .ok y) :
    ∃ ys, l.mapM f = .ok ys ∧ ys.length = l.length ∧ ∀ y ∈ ys, ∃ x ∈ l, f x = .ok y := by
  induction l with
  | nil => exact ⟨[], rfl, rfl, by simp⟩
  | cons a l ih =>
    obtain ⟨b, hb⟩ := h a (by simp)
    obtain ⟨bs, hbs, hlen, hmem⟩ := ih (fun x hx => h x (by simp [hx]))
    refine ⟨b :: bs, ?_, by simp [hlen], ?_⟩
    · simp only [List.mapM_cons, hb, hbs, bind, Except.bind, pure, Except.pure]
    · intro y hy
      simp only [List.mem_cons] at hy
      rcases hy with rfl | hy
      · exact ⟨a, by simp, hb⟩
      · obtain ⟨x, hx, hfx⟩ := hmem y hy
        exact ⟨x, by simp [hx], hfx⟩

/-- a failing `mapM` fails at some element -/
theorem mapM_error_elem {α β : Type} (f : α → Res β) (l : List α) (e : Fault) (h : l.mapM f = .error e) :
    ∃ x ∈ l, f x = .error e := by
  induction l with
  | nil => simp only [List.mapM_nil, pure, Except.pure] at h; cases h
  | cons a l ih =>
    simp only [List.mapM_cons, bind, Except.bind] at h
    split at h
    · rename_i e' he; cases h; exact ⟨a, by simp, he⟩
    · split at h
      · rename_i e' he; cases h
        obtain ⟨x, hx, hfx⟩ := ih he
        exact ⟨x, by simp [hx], hfx⟩
      · simp only [pure, Except.pure] at h; cases h

theorem mapM_ok_length {α β : Type} (f : α → Res β) (l : List α) (ys : List β) (h : l.mapM f = .ok ys) :
    ys.length = l.length := by
  induction l generalizing ys with
  | nil => simp only [List.mapM_nil, pure, Except.pure] at h; cases h; rfl
  | cons a l ih =>
    simp only [List.mapM_cons, bind, Except.bind] at h
    split at h
    · cases h
    · split at h
      · cases h
      · rename_i bs hbs
        simp only [pure, Except.pure] at h; cases h
        simp [ih bs hbs]

end Gzx.WriterFrontend
