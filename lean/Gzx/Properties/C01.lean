/-
  C01 — QR Code: what is written is what is read.  Property theorems only (decoder-side layer
  inverses and the composed round-trip statement).
  Decoder model: Gzx/Model/QRDecoder.lean (mirrors qrcode/decoder/*, tied by the `c01` suites).
  Reference packing: Gzx/Ref/QRPack.lean (written from ISO/IEC 18004).
  The encoder model `Gzx.QRRef` belongs to work package C07/C13; where the composed theorem needs a
  fact about the encoder it is a NAMED hypothesis (`qr_roundtrip_partial`).
-/
import Gzx.Proofs.QRSegments
import Gzx.Proofs.QRInterleave
import Gzx.Proofs.QRTolerance
import Gzx.Proofs.QRMatrixRead
namespace Gzx.Properties.C01
open Gzx Gzx.QRDec Gzx.QRPack Gzx.ECI

/-! ## character-count widths: the three version classes 1-9 | 10-26 | 27-40 -/

/-- the widths at the class boundaries 9|10 and 26|27 -/
example : (countWidth 0 9, countWidth 0 10, countWidth 0 26, countWidth 0 27) = (10, 12, 12, 14) := by decide
example : (countWidth 2 9, countWidth 2 10, countWidth 3 26, countWidth 3 27) = (8, 16, 10, 12) := by decide

/-! ## segment inverses: parse ∘ pack = id, for all lengths and all three count-width classes -/

/-- `bits_numeric_inv`: one round of the parser on a numeric segment packed as in ISO 18004 7.4.3
    appends exactly the digits (as ASCII) and leaves the rest of the stream, for every version, every
    number of digits that the count field can hold, and whatever follows. -/
theorem bits_numeric_inv (reg : Registry) (ver : Nat) (hint : Hint) (fuel : Nat) (st : PSt)
    (ds : List Nat) (hd : ∀ d ∈ ds, d < 10) (hlen : ds.length < 2 ^ countWidth 0 ver) (rest : List Bool) :
    parseLoop reg ver hint (fuel + 1) st (segment 1 (countWidth 0 ver) ds.length (packNumeric ds) ++ rest) =
      parseLoop reg ver hint fuel { st with segs := st.segs ++ [.raw (ds.map (48 + ·))] } rest := by
  conv => lhs; unfold parseLoop
  have ⟨c1, c32⟩ := countWidth_range 0 ver
  simp only [segment, List.append_assoc]
  have hl : ¬ (natToBits 4 1 ++ (natToBits (countWidth 0 ver) ds.length ++ (packNumeric ds ++ rest))).length < 4 := by
    simp only [List.length_append, natToBits_length]; omega
  simp only [hl, if_false]
  rw [readBitsF_natToBits_lt 4 1 _ (by omega) (by omega) (by decide)]
  simp only [bind, Except.bind, modeForBits, wrapF, countBits_numeric]
  rw [readBitsF_natToBits_lt _ _ _ c1 c32 hlen]
  simp only [decodeNumeric_pack ds hd rest [], List.nil_append]

/-- `bits_alnum_inv` (ISO 18004 7.4.4; no FNC1 in effect) -/
theorem bits_alnum_inv (reg : Registry) (ver : Nat) (hint : Hint) (fuel : Nat) (st : PSt) (hf : st.fnc1 = false)
    (cs : List Nat) (hc : ∀ c ∈ cs, c < 45) (hlen : cs.length < 2 ^ countWidth 1 ver) (rest : List Bool) :
    parseLoop reg ver hint (fuel + 1) st (segment 2 (countWidth 1 ver) cs.length (packAlnum cs) ++ rest) =
      parseLoop reg ver hint fuel { st with segs := st.segs ++ [.raw (cs.map alnumCharOf)] } rest := by
  conv => lhs; unfold parseLoop
  have ⟨c1, c32⟩ := countWidth_range 1 ver
  simp only [segment, List.append_assoc]
  have hl : ¬ (natToBits 4 2 ++ (natToBits (countWidth 1 ver) cs.length ++ (packAlnum cs ++ rest))).length < 4 := by
    simp only [List.length_append, natToBits_length]; omega
  simp only [hl, if_false]
  rw [readBitsF_natToBits_lt 4 2 _ (by omega) (by omega) (by decide)]
  simp only [bind, Except.bind, modeForBits, wrapF, countBits_alnum]
  rw [readBitsF_natToBits_lt _ _ _ c1 c32 hlen]
  simp only [decodeAlnum, bind, Except.bind, decodeAlnumRaw_pack cs hc rest [], List.nil_append, hf]
  rfl

/-- the alphanumeric alphabet is read back injectively: 45 distinct characters -/
theorem alnum_alphabet_injective : (List.range 45).map alnumCharOf = alnumChars ∧ alnumChars.Nodup := by
  decide

/-- `bits_byte_inv` (7.4.5): the bytes come back unchanged together with the charset that decodes
    them — the current ECI entry if there is one … -/
theorem bits_byte_inv_eci (reg : Registry) (ver : Nat) (hint : Hint) (fuel : Nat) (st : PSt) (e : Entry)
    (he : st.eci = some e)
    (bs : List Nat) (hb : ∀ b ∈ bs, b < 256) (hlen : bs.length < 2 ^ countWidth 2 ver) (rest : List Bool) :
    parseLoop reg ver hint (fuel + 1) st (segment 4 (countWidth 2 ver) bs.length (packBytes bs) ++ rest) =
      parseLoop reg ver hint fuel
        { st with segs := st.segs ++ [.text (.named e.name) bs], byteSegs := st.byteSegs ++ [bs] } rest :=
  parseLoop_byte_eci reg ver hint fuel st e he bs hb hlen rest

/-- … and otherwise the hinted or guessed charset (`guessCharset`; for UTF-8 payloads see `C15.guess_utf8`) -/
theorem bits_byte_inv_guess (reg : Registry) (ver : Nat) (hint : Hint) (fuel : Nat) (st : PSt)
    (he : st.eci = none) (bs : List Nat) (hb : ∀ b ∈ bs, b < 256) (hlen : bs.length < 2 ^ countWidth 2 ver)
    (cs : Charset) (hcs : guessCharset reg bs hint = .ok cs) (rest : List Bool) :
    parseLoop reg ver hint (fuel + 1) st (segment 4 (countWidth 2 ver) bs.length (packBytes bs) ++ rest) =
      parseLoop reg ver hint fuel
        { st with segs := st.segs ++ [.text cs bs], byteSegs := st.byteSegs ++ [bs] } rest := by
  conv => lhs; unfold parseLoop
  have ⟨c1, c32⟩ := countWidth_range 2 ver
  simp only [segment, List.append_assoc]
  have hl : ¬ (natToBits 4 4 ++ (natToBits (countWidth 2 ver) bs.length ++ (packBytes bs ++ rest))).length < 4 := by
    simp only [List.length_append, natToBits_length]; omega
  simp only [hl, if_false]
  rw [readBitsF_natToBits_lt 4 4 _ (by omega) (by omega) (by decide)]
  simp only [bind, Except.bind, modeForBits, wrapF, countBits_byte]
  rw [readBitsF_natToBits_lt _ _ _ c1 c32 hlen]
  have hfit : ¬ 8 * bs.length > (List.flatMap (natToBits 8) bs ++ rest).length := by
    simp only [List.length_append, flatMap_natToBits_length]; omega
  simp only [decodeByte, packBytes, hfit, if_false, bind, Except.bind,
    readGroups_pack 8 (by omega) (by omega) bs hb rest [], List.nil_append, he, hcs]

/-- `bits_kanji_inv` (7.4.6): the Shift_JIS byte pairs of the two Kanji ranges come back unchanged -/
theorem bits_kanji_inv (reg : Registry) (ver : Nat) (hint : Hint) (fuel : Nat) (st : PSt)
    (ps : List (Nat × Nat)) (hp : ∀ p ∈ ps, kanjiPairOK p) (hlen : ps.length < 2 ^ countWidth 3 ver)
    (rest : List Bool) :
    parseLoop reg ver hint (fuel + 1) st (segment 8 (countWidth 3 ver) ps.length (packKanji ps) ++ rest) =
      parseLoop reg ver hint fuel
        { st with segs := st.segs ++ [.text .sjis (ps.flatMap (fun p => [p.1, p.2]))] } rest := by
  conv => lhs; unfold parseLoop
  have ⟨c1, c32⟩ := countWidth_range 3 ver
  simp only [segment, List.append_assoc]
  have hl : ¬ (natToBits 4 8 ++ (natToBits (countWidth 3 ver) ps.length ++ (packKanji ps ++ rest))).length < 4 := by
    simp only [List.length_append, natToBits_length]; omega
  simp only [hl, if_false]
  rw [readBitsF_natToBits_lt 4 8 _ (by omega) (by omega) (by decide)]
  simp only [bind, Except.bind, modeForBits, wrapF, countBits_kanji]
  rw [readBitsF_natToBits_lt _ _ _ c1 c32 hlen]
  simp only [decode13_packKanji ps hp rest]

/-! ## terminator and padding -/

/-- `terminate_parse`: the parser stops exactly at the payload end — on the 4-bit terminator whatever
    follows it (bit padding to the byte boundary and any number of pad bytes 0xEC/0x11), and on a
    shortened terminator of 0..3 bits when the payload fills the symbol to within 3 bits. -/
theorem terminate_parse (reg : Registry) (ver : Nat) (hint : Hint) (fuel : Nat) (st : PSt) :
    (∀ pad : List Bool, parseLoop reg ver hint (fuel + 1) st (List.replicate 4 false ++ pad) = .ok st) ∧
    (∀ tail : List Bool, tail.length < 4 → parseLoop reg ver hint (fuel + 1) st tail = .ok st) := by
  constructor
  · intro pad
    unfold parseLoop
    have hl : ¬ (List.replicate 4 false ++ pad).length < 4 := by simp
    simp only [hl, if_false]
    have : List.replicate 4 false = natToBits 4 0 := by decide
    rw [this, readBitsF_natToBits_lt 4 0 _ (by omega) (by omega) (by decide)]
    simp [bind, Except.bind, modeForBits, wrapF]
  · intro tail ht
    unfold parseLoop
    simp [ht]

/-! ## data masks -/

/-- `mask_involutive`: unmasking twice with the same pattern restores every module (`Remask`) -/
theorem mask_involutive (k : Nat) (m : Matrix) (x y : Nat) : (unmask k (unmask k m)).bit x y = m.bit x y := by
  simp only [unmask]
  cases m.bit x y <;> cases maskBit k y x <;> rfl

theorem unmask_dim (k : Nat) (m : Matrix) : (unmask k m).dim = m.dim := rfl

/-- mirroring (transposition) twice restores the matrix -/
theorem mirror_involutive (m : Matrix) (x y : Nat) : (mirrorMatrix (mirrorMatrix m)).bit x y = m.bit x y := rfl

/-! ## format and version information: read-back -/

/-- `format_info_inv`: read-back of both copies on the exact-match path — if the modules of both
    format areas hold the 15-bit word `w` of lookup entry `(w, d)` (what the encoder embeds: QRRef),
    `ReadFormatInformation` returns and caches the level and mask of `d`. -/
theorem format_info_inv (T : Tables) (hT : MinDist 7 (T.fmt.map (·.1))) (p : Parser) (hc : p.fmt = none)
    (w d : Nat) (hw : (w, d) ∈ T.fmt) (hlt : w < 2 ^ 15) (f : EC × Nat) (hf : formatInfoOf d = .ok f)
    (c₁ : formatCoords1.map (cellOf p.m p.mirror) = natToBits 15 w)
    (c₂ : (formatCoords2 p.m.dim).map (cellOf p.m p.mirror) = natToBits 15 w) :
    readFormatInformation T p = .ok (f, { p with fmt := some f }) := by
  have h := decodeFormat_near T.fmt T.fmtMask hT w d hw 0 0 (by decide) (by decide)
  simp only [Nat.xor_zero] at h
  rw [readFormat_reads T p hc w w hlt hlt c₁ c₂, h, hf]
  rfl

/-- `version_info_inv`: versions 1..6 are read off the dimension; for versions ≥ 7 the first copy
    holding the 18-bit word of version `i+7` yields that version (dimension check included). -/
theorem version_info_inv_small (T : Tables) (p : Parser) (hc : p.ver = none) (hsmall : (p.m.dim - 17) / 4 ≤ 6)
    (v : VersionInfo) (hv : getVersionForNumber T.versions ((p.m.dim - 17) / 4) = .ok v) :
    readVersion T p = .ok (v, p) :=
  readVersion_small T p hc hsmall v hv

theorem version_info_inv (T : Tables) (hT : MinDist 8 T.vdi) (p : Parser) (hc : p.ver = none)
    (hbig : ¬ (p.m.dim - 17) / 4 ≤ 6) (i w : Nat) (hw : T.vdi[i]? = some w) (hlt : w < 2 ^ 18)
    (v : VersionInfo) (hv : getVersionForNumber T.versions (i + 7) = .ok v) (hd : v.dimension = p.m.dim)
    (c₁ : (versionCoords1 p.m.dim).map (cellOf p.m p.mirror) = natToBits 18 w) :
    readVersion T p = .ok (v, { p with ver := some v }) := by
  have h := versionCopyOK_near T hT i w hw 0 (by decide) v hv p.m.dim hd
  simp only [Nat.xor_zero] at h
  exact readVersion_reads_first T p hc hbig w hlt c₁ v h

/-! ## whole bit streams: one segment, terminator, padding -/

/-- numeric symbol contents: the data codewords' bit string `segment ++ terminator ++ padding` parses
    to exactly the digits (one raw ASCII segment, no byte segments, symbology modifier 1) -/
theorem parse_numeric_stream (reg : Registry) (ver : Nat) (hint : Hint)
    (ds : List Nat) (hd : ∀ d ∈ ds, d < 10) (hlen : ds.length < 2 ^ countWidth 0 ver)
    (tail : List Bool) (ht : Terminated tail) :
    parseStream reg (segment 1 (countWidth 0 ver) ds.length (packNumeric ds) ++ tail) ver hint =
      .ok ⟨[.raw (ds.map (48 + ·))], [], -1, -1, 1⟩ := by
  unfold parseStream
  rw [bits_numeric_inv reg ver hint _ {} ds hd hlen tail]
  obtain ⟨f, hf⟩ : ∃ f, (segment 1 (countWidth 0 ver) ds.length (packNumeric ds) ++ tail).length = f + 1 :=
    ⟨_, (Nat.succ_pred_eq_of_pos (by simp [segment]; omega)).symm⟩
  rw [hf, parseLoop_terminated reg ver hint f _ tail ht]
  rfl

theorem parse_alnum_stream (reg : Registry) (ver : Nat) (hint : Hint)
    (cs : List Nat) (hc : ∀ c ∈ cs, c < 45) (hlen : cs.length < 2 ^ countWidth 1 ver)
    (tail : List Bool) (ht : Terminated tail) :
    parseStream reg (segment 2 (countWidth 1 ver) cs.length (packAlnum cs) ++ tail) ver hint =
      .ok ⟨[.raw (cs.map alnumCharOf)], [], -1, -1, 1⟩ := by
  unfold parseStream
  rw [bits_alnum_inv reg ver hint _ {} rfl cs hc hlen tail]
  obtain ⟨f, hf⟩ : ∃ f, (segment 2 (countWidth 1 ver) cs.length (packAlnum cs) ++ tail).length = f + 1 :=
    ⟨_, (Nat.succ_pred_eq_of_pos (by simp [segment]; omega)).symm⟩
  rw [hf, parseLoop_terminated reg ver hint f _ tail ht]
  rfl

/-- byte-mode contents without ECI: the bytes come back with the charset `guessCharset` picks (UTF-8
    for UTF-8 payloads with a multi-byte character: `C15.guess_utf8`) -/
theorem parse_byte_stream (reg : Registry) (ver : Nat) (hint : Hint)
    (bs : List Nat) (hb : ∀ b ∈ bs, b < 256) (hlen : bs.length < 2 ^ countWidth 2 ver)
    (cs : Charset) (hcs : guessCharset reg bs hint = .ok cs)
    (tail : List Bool) (ht : Terminated tail) :
    parseStream reg (segment 4 (countWidth 2 ver) bs.length (packBytes bs) ++ tail) ver hint =
      .ok ⟨[.text cs bs], [bs], -1, -1, 1⟩ := by
  unfold parseStream
  rw [bits_byte_inv_guess reg ver hint _ {} rfl bs hb hlen cs hcs tail]
  obtain ⟨f, hf⟩ : ∃ f, (segment 4 (countWidth 2 ver) bs.length (packBytes bs) ++ tail).length = f + 1 :=
    ⟨_, (Nat.succ_pred_eq_of_pos (by simp [segment]; omega)).symm⟩
  rw [hf, parseLoop_terminated reg ver hint f _ tail ht]
  rfl

theorem parse_kanji_stream (reg : Registry) (ver : Nat) (hint : Hint)
    (ps : List (Nat × Nat)) (hp : ∀ p ∈ ps, kanjiPairOK p) (hlen : ps.length < 2 ^ countWidth 3 ver)
    (tail : List Bool) (ht : Terminated tail) :
    parseStream reg (segment 8 (countWidth 3 ver) ps.length (packKanji ps) ++ tail) ver hint =
      .ok ⟨[.text .sjis (ps.flatMap (fun p => [p.1, p.2]))], [], -1, -1, 1⟩ := by
  unfold parseStream
  rw [bits_kanji_inv reg ver hint _ {} ps hp hlen tail]
  obtain ⟨f, hf⟩ : ∃ f, (segment 8 (countWidth 3 ver) ps.length (packKanji ps) ++ tail).length = f + 1 :=
    ⟨_, (Nat.succ_pred_eq_of_pos (by simp [segment]; omega)).symm⟩
  rw [hf, parseLoop_terminated reg ver hint f _ tail ht]
  rfl

/-- non-vacuity: ISO 18004 Annex I example "01234567", version 1 -/
example : parseStream [] (segment 1 (countWidth 0 1) 8 (packNumeric [0, 1, 2, 3, 4, 5, 6, 7]) ++
    (List.replicate 4 false ++ natToBits 8 0xEC)) 1 .none =
    .ok ⟨[.raw [48, 49, 50, 51, 52, 53, 54, 55]], [], -1, -1, 1⟩ := by decide

/-! ## `interleave_deinterleave` -/

/-- re-export: see `Properties.C05.interleave_deinterleave` / Proofs/QRInterleave.lean -/
theorem interleave_deinterleave {d e : Nat} {short long : List (List Nat × List Nat)}
    (w : ShortLong d e short long) (v : VersionInfo) (ec : EC) (eb : ECBlocks)
    (heb : v.ecBlocks[ec.index]? = some eb) (hec : eb.ecPerBlock = e)
    (hshape : blockShapes eb = (short ++ long).map (fun b => (b.1.length, e + b.1.length)))
    (htot : v.totalCodewords = (QRDec.interleave (short ++ long)).length) :
    getDataBlocks (QRDec.interleave (short ++ long)) v ec =
      .ok ((short ++ long).map (fun b => (b.1.length, b.1 ++ b.2))) :=
  QRDec.interleave_deinterleave w v ec eb heb hec hshape htot

/-! ## the composed round trip -/

/-- `qr_roundtrip_partial` — composition skeleton of `Decoder.Decode`: when every layer reads back what
    was written, the first decoding attempt succeeds (the mirrored retry is not entered) and the
    result carries the parsed content, the error-correction level of the format information and the
    version.  FULL statement (kept for reference):

      qr_roundtrip : WFqr T → codecOK cs → fits t cfg → decode T (encodeM T t cfg) = ok (t, cfg.ec)

    Each hypothesis below is one layer, named after the theorem that discharges it:
      * `h_version`  — version_info_inv  (encoder writes both copies / dimension class: QRRef, C07)
      * `h_format`   — format_info_inv   (encoder writes both copies: QRRef, C07)
      * `h_place`    — place_read_inv + mask_enc_eq_dec (zig-zag placement and masking: QRRef, C07)
      * `h_deint`    — interleave_deinterleave (PROVED above, given the block structure)
      * `h_rs`       — rs_decode_encode (Reed-Solomon on undamaged blocks: C04) through `correctBlocks_map`
      * `h_parse`    — bits_*_inv + terminate_parse (PROVED above: `parse_*_stream`)
    What is missing for the full statement is exactly the encoder-side facts (work package C07/C13:
    `Gzx.QRRef`) and C04; they were not merged into this branch. -/
theorem qr_roundtrip_partial (T : Tables) (rs : List Nat → Nat → Res (List Nat)) (hint : Hint) (m : Matrix)
    (hdim : ¬ (m.dim < 21 ∨ m.dim % 4 ≠ 1))
    (v : VersionInfo) (p1 : Parser) (h_version : readVersion T { m := m } = .ok (v, p1))
    (fi : EC × Nat) (p2 : Parser) (h_format : readFormatInformation T p1 = .ok (fi, p2))
    (raw : List Nat) (p3 : Parser) (h_place : readCodewords T p2 = (.ok raw, p3))
    (blocks : List (Nat × List Nat)) (h_deint : getDataBlocks raw v fi.1 = .ok blocks)
    (data : List Nat) (h_rs : correctBlocks rs blocks = .ok data)
    (parsed : Parsed) (h_parse : parse T.eci data v.num hint = .ok parsed) :
    decode T rs hint m = .ok ⟨parsed, fi.1, v.num, data, false⟩ := by
  unfold decode newParser
  simp only [hdim, if_false]
  unfold decodeOnce
  simp only [h_version, h_format, h_place, h_deint, wrapF, bind, Except.bind, h_rs, h_parse]

/-- the same with the proved layers plugged in, for numeric contents: given the matrix-level reads
    (hypotheses of C07), Reed-Solomon on the undamaged blocks (hypothesis of C04) and the encoder's
    terminated bit stream being the standard's packing (hypothesis `h_stream`, QRRef), decoding returns
    the digits and the level. -/
theorem qr_roundtrip_numeric_partial (T : Tables) (rs : List Nat → Nat → Res (List Nat)) (hint : Hint) (m : Matrix)
    (hdim : ¬ (m.dim < 21 ∨ m.dim % 4 ≠ 1))
    (v : VersionInfo) (p1 : Parser) (h_version : readVersion T { m := m } = .ok (v, p1))
    (fi : EC × Nat) (p2 : Parser) (h_format : readFormatInformation T p1 = .ok (fi, p2))
    {d e : Nat} {short long : List (List Nat × List Nat)} (w : ShortLong d e short long)
    (p3 : Parser) (h_place : readCodewords T p2 = (.ok (QRDec.interleave (short ++ long)), p3))
    (eb : ECBlocks) (heb : v.ecBlocks[fi.1.index]? = some eb) (hec : eb.ecPerBlock = e)
    (hshape : blockShapes eb = (short ++ long).map (fun b => (b.1.length, e + b.1.length)))
    (htot : v.totalCodewords = (QRDec.interleave (short ++ long)).length)
    (h_rs : ∀ b ∈ short ++ long, rs (b.1 ++ b.2) e = .ok (b.1 ++ b.2))
    (ds : List Nat) (hd : ∀ x ∈ ds, x < 10) (hlen : ds.length < 2 ^ countWidth 0 v.num)
    (tail : List Bool) (ht : Terminated tail)
    (h_stream : bytesToBits ((short ++ long).flatMap (·.1)) =
      segment 1 (countWidth 0 v.num) ds.length (packNumeric ds) ++ tail) :
    decode T rs hint m =
      .ok ⟨⟨[.raw (ds.map (48 + ·))], [], -1, -1, 1⟩, fi.1, v.num, (short ++ long).flatMap (·.1), false⟩ := by
  apply qr_roundtrip_partial T rs hint m hdim v p1 h_version fi p2 h_format _ p3 h_place
    ((short ++ long).map (fun b => (b.1.length, b.1 ++ b.2)))
    (QRDec.interleave_deinterleave w v fi.1 eb heb hec hshape htot)
  · apply correctBlocks_map rs (short ++ long) (short ++ long) rfl
    intro p hp
    have hpp : p.1 = p.2 := by
      have := List.of_mem_zip hp
      obtain ⟨i, hi⟩ := List.getElem?_of_mem hp
      rw [List.getElem?_zip_eq_some] at hi
      exact Option.some.inj (hi.1.symm.trans hi.2)
    rw [← hpp]
    refine ⟨rfl, ?_⟩
    have hb := List.of_mem_zip hp
    have hl : p.1.2.length = e := (w.data_len p.1 hb.1).2.2
    have : (p.1.1 ++ p.1.2).length - p.1.1.length = e := by simp [hl]
    rw [this]
    exact h_rs p.1 hb.1
  · unfold parse
    rw [h_stream]
    exact parse_numeric_stream T.eci v.num hint ds hd hlen tail ht

end Gzx.Properties.C01
