/-
  C01 — QR Code: what is written is what is read.  Property theorems only (decoder-side layer
  inverses and the composed round-trip statement).
  Decoder model: Gzx/Model/QRDecoder.lean (mirrors qrcode/decoder/*, tied by the `c01` suites).
  Reference packing: Gzx/Ref/QRPack.lean (written from ISO/IEC 18004).
  The encoder model `Gzx.QRRef` belongs to work package C07/C13; where the composed theorem needs a
  fact about the encoder it is a NAMED hypothesis (`qr_roundtrip_partial`).
-/
import Gzx.Proofs.QRSegments

namespace Gzx.Properties.C01
open Gzx Gzx.QRDec Gzx.QRPack Gzx.ECI

/-! ## character-count widths: the three version classes 1-9 | 10-26 | 27-40 -/

theorem countBits_numeric (ver : Nat) : countBits .numeric ver = .ok (countWidth 0 ver) := by
  by_cases h9 : ver ≤ 9 <;> by_cases h26 : ver ≤ 26 <;> simp [countBits, countWidth, Mode.countTable, h9, h26]
theorem countBits_alnum (ver : Nat) : countBits .alphanumeric ver = .ok (countWidth 1 ver) := by
  by_cases h9 : ver ≤ 9 <;> by_cases h26 : ver ≤ 26 <;> simp [countBits, countWidth, Mode.countTable, h9, h26]
theorem countBits_byte (ver : Nat) : countBits .byte ver = .ok (countWidth 2 ver) := by
  by_cases h9 : ver ≤ 9 <;> by_cases h26 : ver ≤ 26 <;> simp [countBits, countWidth, Mode.countTable, h9, h26]
theorem countBits_kanji (ver : Nat) : countBits .kanji ver = .ok (countWidth 3 ver) := by
  by_cases h9 : ver ≤ 9 <;> by_cases h26 : ver ≤ 26 <;> simp [countBits, countWidth, Mode.countTable, h9, h26]

theorem countWidth_range (m ver : Nat) : 1 ≤ countWidth m ver ∧ countWidth m ver ≤ 32 := by
  by_cases h9 : ver ≤ 9 <;> by_cases h26 : ver ≤ 26 <;>
    (unfold countWidth; simp only [h9, h26, if_true, if_false]; split <;> omega)

/-- the widths at the class boundaries 9|10 and 26|27 -/
example : (countWidth 0 9, countWidth 0 10, countWidth 0 26, countWidth 0 27) = (10, 12, 12, 14) := by decide
example : (countWidth 2 9, countWidth 2 10, countWidth 3 26, countWidth 3 27) = (8, 16, 10, 12) := by decide

/-! ## segment inverses: parse ∘ pack = id, for all lengths and all three count-width classes -/

/-- `bits_numeric_inv`: one round of the parser on a numeric segment packed as in ISO 18004 7.4.3
    appends exactly the digits (as ASCII) and leaves the rest of the stream, for every version, every
    number of digits that the count field can hold, and whatever follows. -/
theorem bits_numeric_inv (reg : Registry) (ver : Nat) (hint : Hint) (fuel : Nat) (st : PSt)
    (ds : List Nat) (hd : ∀ d ∈ ds, d < 10) (hlen : ds.length < 2 ^ countWidth 0 ver) (rest : List Bool) :
    parseLoop reg ver hint (fuel + 1) st (segment 1 (countWidth 0 ver) ds.length (packNumeric ds) ++ rest) =
      parseLoop reg ver hint fuel { st with segs := st.segs ++ [.raw (ds.map (48 + ·))] } rest := by
  conv => lhs; unfold parseLoop
  have ⟨c1, c32⟩ := countWidth_range 0 ver
  simp only [segment, List.append_assoc]
  have hl : ¬ (natToBits 4 1 ++ (natToBits (countWidth 0 ver) ds.length ++ (packNumeric ds ++ rest))).length < 4 := by
    simp only [List.length_append, natToBits_length]; omega
  simp only [hl, if_false]
  rw [readBitsF_natToBits_lt 4 1 _ (by omega) (by omega) (by decide)]
  simp only [bind, Except.bind, modeForBits, wrapF, countBits_numeric]
  rw [readBitsF_natToBits_lt _ _ _ c1 c32 hlen]
  simp only [decodeNumeric_pack ds hd rest [], List.nil_append]

/-- `bits_alnum_inv` (ISO 18004 7.4.4; no FNC1 in effect) -/
theorem bits_alnum_inv (reg : Registry) (ver : Nat) (hint : Hint) (fuel : Nat) (st : PSt) (hf : st.fnc1 = false)
    (cs : List Nat) (hc : ∀ c ∈ cs, c < 45) (hlen : cs.length < 2 ^ countWidth 1 ver) (rest : List Bool) :
    parseLoop reg ver hint (fuel + 1) st (segment 2 (countWidth 1 ver) cs.length (packAlnum cs) ++ rest) =
      parseLoop reg ver hint fuel { st with segs := st.segs ++ [.raw (cs.map alnumCharOf)] } rest := by
  conv => lhs; unfold parseLoop
  have ⟨c1, c32⟩ := countWidth_range 1 ver
  simp only [segment, List.append_assoc]
  have hl : ¬ (natToBits 4 2 ++ (natToBits (countWidth 1 ver) cs.length ++ (packAlnum cs ++ rest))).length < 4 := by
    simp only [List.length_append, natToBits_length]; omega
  simp only [hl, if_false]
  rw [readBitsF_natToBits_lt 4 2 _ (by omega) (by omega) (by decide)]
  simp only [bind, Except.bind, modeForBits, wrapF, countBits_alnum]
  rw [readBitsF_natToBits_lt _ _ _ c1 c32 hlen]
  simp only [decodeAlnum, bind, Except.bind, decodeAlnumRaw_pack cs hc rest [], List.nil_append, hf]
  rfl

/-- the alphanumeric alphabet is read back injectively: 45 distinct characters -/
theorem alnum_alphabet_injective : (List.range 45).map alnumCharOf = alnumChars ∧ alnumChars.Nodup := by
  decide

/-- `bits_byte_inv` (7.4.5): the bytes come back unchanged together with the charset that decodes
    them — the current ECI entry if there is one … -/
theorem bits_byte_inv_eci (reg : Registry) (ver : Nat) (hint : Hint) (fuel : Nat) (st : PSt) (e : Entry)
    (he : st.eci = some e)
    (bs : List Nat) (hb : ∀ b ∈ bs, b < 256) (hlen : bs.length < 2 ^ countWidth 2 ver) (rest : List Bool) :
    parseLoop reg ver hint (fuel + 1) st (segment 4 (countWidth 2 ver) bs.length (packBytes bs) ++ rest) =
      parseLoop reg ver hint fuel
        { st with segs := st.segs ++ [.text (.named e.name) bs], byteSegs := st.byteSegs ++ [bs] } rest := by
  conv => lhs; unfold parseLoop
  have ⟨c1, c32⟩ := countWidth_range 2 ver
  simp only [segment, List.append_assoc]
  have hl : ¬ (natToBits 4 4 ++ (natToBits (countWidth 2 ver) bs.length ++ (packBytes bs ++ rest))).length < 4 := by
    simp only [List.length_append, natToBits_length]; omega
  simp only [hl, if_false]
  rw [readBitsF_natToBits_lt 4 4 _ (by omega) (by omega) (by decide)]
  simp only [bind, Except.bind, modeForBits, wrapF, countBits_byte]
  rw [readBitsF_natToBits_lt _ _ _ c1 c32 hlen]
  have hfit : ¬ 8 * bs.length > (List.flatMap (natToBits 8) bs ++ rest).length := by
    simp only [List.length_append, flatMap_natToBits_length]; omega
  simp only [decodeByte, packBytes, hfit, if_false, bind, Except.bind,
    readGroups_pack 8 (by omega) (by omega) bs hb rest [], List.nil_append, he]

/-- … and otherwise the hinted or guessed charset (`guessCharset`; for UTF-8 payloads see `C15.guess_utf8`) -/
theorem bits_byte_inv_guess (reg : Registry) (ver : Nat) (hint : Hint) (fuel : Nat) (st : PSt)
    (he : st.eci = none) (bs : List Nat) (hb : ∀ b ∈ bs, b < 256) (hlen : bs.length < 2 ^ countWidth 2 ver)
    (cs : Charset) (hcs : guessCharset reg bs hint = .ok cs) (rest : List Bool) :
    parseLoop reg ver hint (fuel + 1) st (segment 4 (countWidth 2 ver) bs.length (packBytes bs) ++ rest) =
      parseLoop reg ver hint fuel
        { st with segs := st.segs ++ [.text cs bs], byteSegs := st.byteSegs ++ [bs] } rest := by
  conv => lhs; unfold parseLoop
  have ⟨c1, c32⟩ := countWidth_range 2 ver
  simp only [segment, List.append_assoc]
  have hl : ¬ (natToBits 4 4 ++ (natToBits (countWidth 2 ver) bs.length ++ (packBytes bs ++ rest))).length < 4 := by
    simp only [List.length_append, natToBits_length]; omega
  simp only [hl, if_false]
  rw [readBitsF_natToBits_lt 4 4 _ (by omega) (by omega) (by decide)]
  simp only [bind, Except.bind, modeForBits, wrapF, countBits_byte]
  rw [readBitsF_natToBits_lt _ _ _ c1 c32 hlen]
  have hfit : ¬ 8 * bs.length > (List.flatMap (natToBits 8) bs ++ rest).length := by
    simp only [List.length_append, flatMap_natToBits_length]; omega
  simp only [decodeByte, packBytes, hfit, if_false, bind, Except.bind,
    readGroups_pack 8 (by omega) (by omega) bs hb rest [], List.nil_append, he, hcs]

/-- `bits_kanji_inv` (7.4.6): the Shift_JIS byte pairs of the two Kanji ranges come back unchanged -/
theorem bits_kanji_inv (reg : Registry) (ver : Nat) (hint : Hint) (fuel : Nat) (st : PSt)
    (ps : List (Nat × Nat)) (hp : ∀ p ∈ ps, kanjiPairOK p) (hlen : ps.length < 2 ^ countWidth 3 ver)
    (rest : List Bool) :
    parseLoop reg ver hint (fuel + 1) st (segment 8 (countWidth 3 ver) ps.length (packKanji ps) ++ rest) =
      parseLoop reg ver hint fuel
        { st with segs := st.segs ++ [.text .sjis (ps.flatMap (fun p => [p.1, p.2]))] } rest := by
  conv => lhs; unfold parseLoop
  have ⟨c1, c32⟩ := countWidth_range 3 ver
  simp only [segment, List.append_assoc]
  have hl : ¬ (natToBits 4 8 ++ (natToBits (countWidth 3 ver) ps.length ++ (packKanji ps ++ rest))).length < 4 := by
    simp only [List.length_append, natToBits_length]; omega
  simp only [hl, if_false]
  rw [readBitsF_natToBits_lt 4 8 _ (by omega) (by omega) (by decide)]
  simp only [bind, Except.bind, modeForBits, wrapF, countBits_kanji]
  rw [readBitsF_natToBits_lt _ _ _ c1 c32 hlen]
  simp only [decode13_packKanji ps hp rest]

/-! ## terminator and padding -/

/-- `terminate_parse`: the parser stops exactly at the payload end — on the 4-bit terminator whatever
    follows it (bit padding to the byte boundary and any number of pad bytes 0xEC/0x11), and on a
    shortened terminator of 0..3 bits when the payload fills the symbol to within 3 bits. -/
theorem terminate_parse (reg : Registry) (ver : Nat) (hint : Hint) (fuel : Nat) (st : PSt) :
    (∀ pad : List Bool, parseLoop reg ver hint (fuel + 1) st (List.replicate 4 false ++ pad) = .ok st) ∧
    (∀ tail : List Bool, tail.length < 4 → parseLoop reg ver hint (fuel + 1) st tail = .ok st) := by
  constructor
  · intro pad
    unfold parseLoop
    have hl : ¬ (List.replicate 4 false ++ pad).length < 4 := by simp
    simp only [hl, if_false]
    have : List.replicate 4 false = natToBits 4 0 := by decide
    rw [this, readBitsF_natToBits_lt 4 0 _ (by omega) (by omega) (by decide)]
    simp [bind, Except.bind, modeForBits, wrapF]
  · intro tail ht
    unfold parseLoop
    simp [ht]

/-! ## data masks -/

/-- `mask_involutive`: unmasking twice with the same pattern restores every module (`Remask`) -/
theorem mask_involutive (k : Nat) (m : Matrix) (x y : Nat) : (unmask k (unmask k m)).bit x y = m.bit x y := by
  simp only [unmask]
  cases m.bit x y <;> cases maskBit k y x <;> rfl

theorem unmask_dim (k : Nat) (m : Matrix) : (unmask k m).dim = m.dim := rfl

/-- mirroring (transposition) twice restores the matrix -/
theorem mirror_involutive (m : Matrix) (x y : Nat) : (mirrorMatrix (mirrorMatrix m)).bit x y = m.bit x y := rfl

end Gzx.Properties.C01
