/-
  C01 — QR Code: what is written is what is read.  Property theorems only (decoder-side layer
  inverses and the composed round-trip statement).
  Decoder model: Gzx/Model/QRDecoder.lean (mirrors qrcode/decoder/*, tied by the `c01` suites).
  Reference packing: Gzx/Ref/QRPack.lean (written from ISO/IEC 18004).
  The encoder model `Gzx.QRRef` belongs to work package C07/C13; where the composed theorem needs a
  fact about the encoder it is a NAMED hypothesis (`qr_roundtrip_partial`).
-/
import Gzx.Proofs.QRSegments
import Gzx.Proofs.QRInterleave
import Gzx.Proofs.QRTolerance
import Gzx.Proofs.QRMatrixRead
import Gzx.Proofs.QRCompBlocks
import Gzx.Proofs.QRCompStream
import Gzx.Properties.C15
namespace Gzx.Properties.C01
open Gzx Gzx.QRDec Gzx.QRPack Gzx.ECI Gzx.QRComp

/-! ## character-count widths: the three version classes 1-9 | 10-26 | 27-40 -/

/-- the widths at the class boundaries 9|10 and 26|27 -/
example : (countWidth 0 9, countWidth 0 10, countWidth 0 26, countWidth 0 27) = (10, 12, 12, 14) := by decide
example : (countWidth 2 9, countWidth 2 10, countWidth 3 26, countWidth 3 27) = (8, 16, 10, 12) := by decide

/-! ## segment inverses: parse ∘ pack = id, for all lengths and all three count-width classes -/

/-- `bits_numeric_inv`: one round of the parser on a numeric segment packed as in ISO 18004 7.4.3
    appends exactly the digits (as ASCII) and leaves the rest of the stream, for every version, every
    number of digits that the count field can hold, and whatever follows. -/
theorem bits_numeric_inv (reg : Registry) (ver : Nat) (hint : Hint) (fuel : Nat) (st : PSt)
    (ds : List Nat) (hd : ∀ d ∈ ds, d < 10) (hlen : ds.length < 2 ^ countWidth 0 ver) (rest : List Bool) :
    parseLoop reg ver hint (fuel + 1) st (segment 1 (countWidth 0 ver) ds.length (packNumeric ds) ++ rest) =
      parseLoop reg ver hint fuel { st with segs := st.segs ++ [.raw (ds.map (48 + ·))] } rest := by
  conv => lhs; unfold parseLoop
  have ⟨c1, c32⟩ := countWidth_range 0 ver
  simp only [segment, List.append_assoc]
  have hl : ¬ (natToBits 4 1 ++ (natToBits (countWidth 0 ver) ds.length ++ (packNumeric ds ++ rest))).length < 4 := by
    simp only [List.length_append, natToBits_length]; omega
  simp only [hl, if_false]
  rw [readBitsF_natToBits_lt 4 1 _ (by omega) (by omega) (by decide)]
  simp only [bind, Except.bind, modeForBits, wrapF, countBits_numeric]
  rw [readBitsF_natToBits_lt _ _ _ c1 c32 hlen]
  simp only [decodeNumeric_pack ds hd rest [], List.nil_append]

/-- `bits_alnum_inv` (ISO 18004 7.4.4; no FNC1 in effect) -/
theorem bits_alnum_inv (reg : Registry) (ver : Nat) (hint : Hint) (fuel : Nat) (st : PSt) (hf : st.fnc1 = false)
    (cs : List Nat) (hc : ∀ c ∈ cs, c < 45) (hlen : cs.length < 2 ^ countWidth 1 ver) (rest : List Bool) :
    parseLoop reg ver hint (fuel + 1) st (segment 2 (countWidth 1 ver) cs.length (packAlnum cs) ++ rest) =
      parseLoop reg ver hint fuel { st with segs := st.segs ++ [.raw (cs.map alnumCharOf)] } rest := by
  conv => lhs; unfold parseLoop
  have ⟨c1, c32⟩ := countWidth_range 1 ver
  simp only [segment, List.append_assoc]
  have hl : ¬ (natToBits 4 2 ++ (natToBits (countWidth 1 ver) cs.length ++ (packAlnum cs ++ rest))).length < 4 := by
    simp only [List.length_append, natToBits_length]; omega
  simp only [hl, if_false]
  rw [readBitsF_natToBits_lt 4 2 _ (by omega) (by omega) (by decide)]
  simp only [bind, Except.bind, modeForBits, wrapF, countBits_alnum]
  rw [readBitsF_natToBits_lt _ _ _ c1 c32 hlen]
  simp only [decodeAlnum, bind, Except.bind, decodeAlnumRaw_pack cs hc rest [], List.nil_append, hf]
  rfl

/-- the alphanumeric alphabet is read back injectively: 45 distinct characters -/
theorem alnum_alphabet_injective : (List.range 45).map alnumCharOf = alnumChars ∧ alnumChars.Nodup := by
  decide

/-- `bits_byte_inv` (7.4.5): the bytes come back unchanged together with the charset that decodes
    them — the current ECI entry if there is one … -/
theorem bits_byte_inv_eci (reg : Registry) (ver : Nat) (hint : Hint) (fuel : Nat) (st : PSt) (e : Entry)
    (he : st.eci = some e)
    (bs : List Nat) (hb : ∀ b ∈ bs, b < 256) (hlen : bs.length < 2 ^ countWidth 2 ver) (rest : List Bool) :
    parseLoop reg ver hint (fuel + 1) st (segment 4 (countWidth 2 ver) bs.length (packBytes bs) ++ rest) =
      parseLoop reg ver hint fuel
        { st with segs := st.segs ++ [.text (.named e.name) bs], byteSegs := st.byteSegs ++ [bs] } rest :=
  parseLoop_byte_eci reg ver hint fuel st e he bs hb hlen rest

/-- … and otherwise the hinted or guessed charset (`guessCharset`; for UTF-8 payloads see `C15.guess_utf8`) -/
theorem bits_byte_inv_guess (reg : Registry) (ver : Nat) (hint : Hint) (fuel : Nat) (st : PSt)
    (he : st.eci = none) (bs : List Nat) (hb : ∀ b ∈ bs, b < 256) (hlen : bs.length < 2 ^ countWidth 2 ver)
    (cs : Charset) (hcs : guessCharset reg bs hint = .ok cs) (rest : List Bool) :
    parseLoop reg ver hint (fuel + 1) st (segment 4 (countWidth 2 ver) bs.length (packBytes bs) ++ rest) =
      parseLoop reg ver hint fuel
        { st with segs := st.segs ++ [.text cs bs], byteSegs := st.byteSegs ++ [bs] } rest := by
  conv => lhs; unfold parseLoop
  have ⟨c1, c32⟩ := countWidth_range 2 ver
  simp only [segment, List.append_assoc]
  have hl : ¬ (natToBits 4 4 ++ (natToBits (countWidth 2 ver) bs.length ++ (packBytes bs ++ rest))).length < 4 := by
    simp only [List.length_append, natToBits_length]; omega
  simp only [hl, if_false]
  rw [readBitsF_natToBits_lt 4 4 _ (by omega) (by omega) (by decide)]
  simp only [bind, Except.bind, modeForBits, wrapF, countBits_byte]
  rw [readBitsF_natToBits_lt _ _ _ c1 c32 hlen]
  have hfit : ¬ 8 * bs.length > (List.flatMap (natToBits 8) bs ++ rest).length := by
    simp only [List.length_append, flatMap_natToBits_length]; omega
  simp only [decodeByte, packBytes, hfit, if_false, bind, Except.bind,
    readGroups_pack 8 (by omega) (by omega) bs hb rest [], List.nil_append, he, hcs]

/-- `bits_kanji_inv` (7.4.6): the Shift_JIS byte pairs of the two Kanji ranges come back unchanged -/
theorem bits_kanji_inv (reg : Registry) (ver : Nat) (hint : Hint) (fuel : Nat) (st : PSt)
    (ps : List (Nat × Nat)) (hp : ∀ p ∈ ps, kanjiPairOK p) (hlen : ps.length < 2 ^ countWidth 3 ver)
    (rest : List Bool) :
    parseLoop reg ver hint (fuel + 1) st (segment 8 (countWidth 3 ver) ps.length (packKanji ps) ++ rest) =
      parseLoop reg ver hint fuel
        { st with segs := st.segs ++ [.text .sjis (ps.flatMap (fun p => [p.1, p.2]))] } rest := by
  conv => lhs; unfold parseLoop
  have ⟨c1, c32⟩ := countWidth_range 3 ver
  simp only [segment, List.append_assoc]
  have hl : ¬ (natToBits 4 8 ++ (natToBits (countWidth 3 ver) ps.length ++ (packKanji ps ++ rest))).length < 4 := by
    simp only [List.length_append, natToBits_length]; omega
  simp only [hl, if_false]
  rw [readBitsF_natToBits_lt 4 8 _ (by omega) (by omega) (by decide)]
  simp only [bind, Except.bind, modeForBits, wrapF, countBits_kanji]
  rw [readBitsF_natToBits_lt _ _ _ c1 c32 hlen]
  simp only [decode13_packKanji ps hp rest]

/-! ## terminator and padding -/

/-- `terminate_parse`: the parser stops exactly at the payload end — on the 4-bit terminator whatever
    follows it (bit padding to the byte boundary and any number of pad bytes 0xEC/0x11), and on a
    shortened terminator of 0..3 bits when the payload fills the symbol to within 3 bits. -/
theorem terminate_parse (reg : Registry) (ver : Nat) (hint : Hint) (fuel : Nat) (st : PSt) :
    (∀ pad : List Bool, parseLoop reg ver hint (fuel + 1) st (List.replicate 4 false ++ pad) = .ok st) ∧
    (∀ tail : List Bool, tail.length < 4 → parseLoop reg ver hint (fuel + 1) st tail = .ok st) := by
  constructor
  · intro pad
    unfold parseLoop
    have hl : ¬ (List.replicate 4 false ++ pad).length < 4 := by simp
    simp only [hl, if_false]
    have : List.replicate 4 false = natToBits 4 0 := by decide
    rw [this, readBitsF_natToBits_lt 4 0 _ (by omega) (by omega) (by decide)]
    simp [bind, Except.bind, modeForBits, wrapF]
  · intro tail ht
    unfold parseLoop
    simp [ht]

/-! ## data masks -/

/-- `mask_involutive`: unmasking twice with the same pattern restores every module (`Remask`) -/
theorem mask_involutive (k : Nat) (m : Matrix) (x y : Nat) : (unmask k (unmask k m)).bit x y = m.bit x y := by
  simp only [unmask]
  cases m.bit x y <;> cases maskBit k y x <;> rfl

theorem unmask_dim (k : Nat) (m : Matrix) : (unmask k m).dim = m.dim := rfl

/-- mirroring (transposition) twice restores the matrix -/
theorem mirror_involutive (m : Matrix) (x y : Nat) : (mirrorMatrix (mirrorMatrix m)).bit x y = m.bit x y := rfl

/-! ## format and version information: read-back -/

/-- `format_info_inv`: read-back of both copies on the exact-match path — if the modules of both
    format areas hold the 15-bit word `w` of lookup entry `(w, d)` (what the encoder embeds: QRRef),
    `ReadFormatInformation` returns and caches the level and mask of `d`. -/
theorem format_info_inv (T : Tables) (hT : MinDist 7 (T.fmt.map (·.1))) (p : Parser) (hc : p.fmt = none)
    (w d : Nat) (hw : (w, d) ∈ T.fmt) (hlt : w < 2 ^ 15) (f : EC × Nat) (hf : formatInfoOf d = .ok f)
    (c₁ : formatCoords1.map (cellOf p.m p.mirror) = natToBits 15 w)
    (c₂ : (formatCoords2 p.m.dim).map (cellOf p.m p.mirror) = natToBits 15 w) :
    readFormatInformation T p = .ok (f, { p with fmt := some f }) := by
  have h := decodeFormat_near T.fmt T.fmtMask hT w d hw 0 0 (by decide) (by decide)
  simp only [Nat.xor_zero] at h
  rw [readFormat_reads T p hc w w hlt hlt c₁ c₂, h, hf]
  rfl

/-- `version_info_inv`: versions 1..6 are read off the dimension; for versions ≥ 7 the first copy
    holding the 18-bit word of version `i+7` yields that version (dimension check included). -/
theorem version_info_inv_small (T : Tables) (p : Parser) (hc : p.ver = none) (hsmall : (p.m.dim - 17) / 4 ≤ 6)
    (v : VersionInfo) (hv : getVersionForNumber T.versions ((p.m.dim - 17) / 4) = .ok v) :
    readVersion T p = .ok (v, p) :=
  readVersion_small T p hc hsmall v hv

theorem version_info_inv (T : Tables) (hT : MinDist 8 T.vdi) (p : Parser) (hc : p.ver = none)
    (hbig : ¬ (p.m.dim - 17) / 4 ≤ 6) (i w : Nat) (hw : T.vdi[i]? = some w) (hlt : w < 2 ^ 18)
    (v : VersionInfo) (hv : getVersionForNumber T.versions (i + 7) = .ok v) (hd : v.dimension = p.m.dim)
    (c₁ : (versionCoords1 p.m.dim).map (cellOf p.m p.mirror) = natToBits 18 w) :
    readVersion T p = .ok (v, { p with ver := some v }) := by
  have h := versionCopyOK_near T hT i w hw 0 (by decide) v hv p.m.dim hd
  simp only [Nat.xor_zero] at h
  exact readVersion_reads_first T p hc hbig w hlt c₁ v h

/-! ## whole bit streams: one segment, terminator, padding -/

/-- numeric symbol contents: the data codewords' bit string `segment ++ terminator ++ padding` parses
    to exactly the digits (one raw ASCII segment, no byte segments, symbology modifier 1) -/
theorem parse_numeric_stream (reg : Registry) (ver : Nat) (hint : Hint)
    (ds : List Nat) (hd : ∀ d ∈ ds, d < 10) (hlen : ds.length < 2 ^ countWidth 0 ver)
    (tail : List Bool) (ht : Terminated tail) :
    parseStream reg (segment 1 (countWidth 0 ver) ds.length (packNumeric ds) ++ tail) ver hint =
      .ok ⟨[.raw (ds.map (48 + ·))], [], -1, -1, 1⟩ := by
  unfold parseStream
  rw [bits_numeric_inv reg ver hint _ {} ds hd hlen tail]
  obtain ⟨f, hf⟩ : ∃ f, (segment 1 (countWidth 0 ver) ds.length (packNumeric ds) ++ tail).length = f + 1 :=
    ⟨_, (Nat.succ_pred_eq_of_pos (by simp [segment]; omega)).symm⟩
  rw [hf, parseLoop_terminated reg ver hint f _ tail ht]
  rfl

theorem parse_alnum_stream (reg : Registry) (ver : Nat) (hint : Hint)
    (cs : List Nat) (hc : ∀ c ∈ cs, c < 45) (hlen : cs.length < 2 ^ countWidth 1 ver)
    (tail : List Bool) (ht : Terminated tail) :
    parseStream reg (segment 2 (countWidth 1 ver) cs.length (packAlnum cs) ++ tail) ver hint =
      .ok ⟨[.raw (cs.map alnumCharOf)], [], -1, -1, 1⟩ := by
  unfold parseStream
  rw [bits_alnum_inv reg ver hint _ {} rfl cs hc hlen tail]
  obtain ⟨f, hf⟩ : ∃ f, (segment 2 (countWidth 1 ver) cs.length (packAlnum cs) ++ tail).length = f + 1 :=
    ⟨_, (Nat.succ_pred_eq_of_pos (by simp [segment]; omega)).symm⟩
  rw [hf, parseLoop_terminated reg ver hint f _ tail ht]
  rfl

/-- byte-mode contents without ECI: the bytes come back with the charset `guessCharset` picks (UTF-8
    for UTF-8 payloads with a multi-byte character: `C15.guess_utf8`) -/
theorem parse_byte_stream (reg : Registry) (ver : Nat) (hint : Hint)
    (bs : List Nat) (hb : ∀ b ∈ bs, b < 256) (hlen : bs.length < 2 ^ countWidth 2 ver)
    (cs : Charset) (hcs : guessCharset reg bs hint = .ok cs)
    (tail : List Bool) (ht : Terminated tail) :
    parseStream reg (segment 4 (countWidth 2 ver) bs.length (packBytes bs) ++ tail) ver hint =
      .ok ⟨[.text cs bs], [bs], -1, -1, 1⟩ := by
  unfold parseStream
  rw [bits_byte_inv_guess reg ver hint _ {} rfl bs hb hlen cs hcs tail]
  obtain ⟨f, hf⟩ : ∃ f, (segment 4 (countWidth 2 ver) bs.length (packBytes bs) ++ tail).length = f + 1 :=
    ⟨_, (Nat.succ_pred_eq_of_pos (by simp [segment]; omega)).symm⟩
  rw [hf, parseLoop_terminated reg ver hint f _ tail ht]
  rfl

theorem parse_kanji_stream (reg : Registry) (ver : Nat) (hint : Hint)
    (ps : List (Nat × Nat)) (hp : ∀ p ∈ ps, kanjiPairOK p) (hlen : ps.length < 2 ^ countWidth 3 ver)
    (tail : List Bool) (ht : Terminated tail) :
    parseStream reg (segment 8 (countWidth 3 ver) ps.length (packKanji ps) ++ tail) ver hint =
      .ok ⟨[.text .sjis (ps.flatMap (fun p => [p.1, p.2]))], [], -1, -1, 1⟩ := by
  unfold parseStream
  rw [bits_kanji_inv reg ver hint _ {} ps hp hlen tail]
  obtain ⟨f, hf⟩ : ∃ f, (segment 8 (countWidth 3 ver) ps.length (packKanji ps) ++ tail).length = f + 1 :=
    ⟨_, (Nat.succ_pred_eq_of_pos (by simp [segment]; omega)).symm⟩
  rw [hf, parseLoop_terminated reg ver hint f _ tail ht]
  rfl

/-- non-vacuity: ISO 18004 Annex I example "01234567", version 1 -/
example : parseStream [] (segment 1 (countWidth 0 1) 8 (packNumeric [0, 1, 2, 3, 4, 5, 6, 7]) ++
    (List.replicate 4 false ++ natToBits 8 0xEC)) 1 .none =
    .ok ⟨[.raw [48, 49, 50, 51, 52, 53, 54, 55]], [], -1, -1, 1⟩ := by decide

/-! ## `interleave_deinterleave` -/

/-- re-export: see `Properties.C05.interleave_deinterleave` / Proofs/QRInterleave.lean -/
theorem interleave_deinterleave {d e : Nat} {short long : List (List Nat × List Nat)}
    (w : ShortLong d e short long) (v : VersionInfo) (ec : EC) (eb : ECBlocks)
    (heb : v.ecBlocks[ec.index]? = some eb) (hec : eb.ecPerBlock = e)
    (hshape : blockShapes eb = (short ++ long).map (fun b => (b.1.length, e + b.1.length)))
    (htot : v.totalCodewords = (QRDec.interleave (short ++ long)).length) :
    getDataBlocks (QRDec.interleave (short ++ long)) v ec =
      .ok ((short ++ long).map (fun b => (b.1.length, b.1 ++ b.2))) :=
  QRDec.interleave_deinterleave w v ec eb heb hec hshape htot

/-! ## the composed round trip -/

/-- `qr_roundtrip_partial` — composition skeleton of `Decoder.Decode`: when every layer reads back what
    was written, the first decoding attempt succeeds (the mirrored retry is not entered) and the
    result carries the parsed content, the error-correction level of the format information and the
    version.  FULL statement (kept for reference):

      qr_roundtrip : WFqr T → codecOK cs → fits t cfg → decode T (encodeM T t cfg) = ok (t, cfg.ec)

    Each hypothesis below is one layer, named after the theorem that discharges it:
      * `h_version`  — version_info_inv  (encoder writes both copies / dimension class: QRRef, C07)
      * `h_format`   — format_info_inv   (encoder writes both copies: QRRef, C07)
      * `h_place`    — place_read_inv + mask_enc_eq_dec (zig-zag placement and masking: QRRef, C07)
      * `h_deint`    — interleave_deinterleave (PROVED above, given the block structure)
      * `h_rs`       — rs_decode_encode (Reed-Solomon on undamaged blocks: C04) through `correctBlocks_map`
      * `h_parse`    — bits_*_inv + terminate_parse (PROVED above: `parse_*_stream`)
    What is missing for the full statement is exactly the encoder-side facts (work package C07/C13:
    `Gzx.QRRef`) and C04; they were not merged into this branch. -/
theorem qr_roundtrip_partial (T : Tables) (rs : List Nat → Nat → Res (List Nat)) (hint : Hint) (m : Matrix)
    (hdim : ¬ (m.dim < 21 ∨ m.dim % 4 ≠ 1))
    (v : VersionInfo) (p1 : Parser) (h_version : readVersion T { m := m } = .ok (v, p1))
    (fi : EC × Nat) (p2 : Parser) (h_format : readFormatInformation T p1 = .ok (fi, p2))
    (raw : List Nat) (p3 : Parser) (h_place : readCodewords T p2 = (.ok raw, p3))
    (blocks : List (Nat × List Nat)) (h_deint : getDataBlocks raw v fi.1 = .ok blocks)
    (data : List Nat) (h_rs : correctBlocks rs blocks = .ok data)
    (parsed : Parsed) (h_parse : parse T.eci data v.num hint = .ok parsed) :
    decode T rs hint m = .ok ⟨parsed, fi.1, v.num, data, false⟩ := by
  unfold decode newParser
  simp only [hdim, if_false]
  unfold decodeOnce
  simp only [h_version, h_format, h_place, h_deint, wrapF, bind, Except.bind, h_rs, h_parse]

/-- the same with the proved layers plugged in, for numeric contents: given the matrix-level reads
    (hypotheses of C07), Reed-Solomon on the undamaged blocks (hypothesis of C04) and the encoder's
    terminated bit stream being the standard's packing (hypothesis `h_stream`, QRRef), decoding returns
    the digits and the level. -/
theorem qr_roundtrip_numeric_partial (T : Tables) (rs : List Nat → Nat → Res (List Nat)) (hint : Hint) (m : Matrix)
    (hdim : ¬ (m.dim < 21 ∨ m.dim % 4 ≠ 1))
    (v : VersionInfo) (p1 : Parser) (h_version : readVersion T { m := m } = .ok (v, p1))
    (fi : EC × Nat) (p2 : Parser) (h_format : readFormatInformation T p1 = .ok (fi, p2))
    {d e : Nat} {short long : List (List Nat × List Nat)} (w : ShortLong d e short long)
    (p3 : Parser) (h_place : readCodewords T p2 = (.ok (QRDec.interleave (short ++ long)), p3))
    (eb : ECBlocks) (heb : v.ecBlocks[fi.1.index]? = some eb) (hec : eb.ecPerBlock = e)
    (hshape : blockShapes eb = (short ++ long).map (fun b => (b.1.length, e + b.1.length)))
    (htot : v.totalCodewords = (QRDec.interleave (short ++ long)).length)
    (h_rs : ∀ b ∈ short ++ long, rs (b.1 ++ b.2) e = .ok (b.1 ++ b.2))
    (ds : List Nat) (hd : ∀ x ∈ ds, x < 10) (hlen : ds.length < 2 ^ countWidth 0 v.num)
    (tail : List Bool) (ht : Terminated tail)
    (h_stream : bytesToBits ((short ++ long).flatMap (·.1)) =
      segment 1 (countWidth 0 v.num) ds.length (packNumeric ds) ++ tail) :
    decode T rs hint m =
      .ok ⟨⟨[.raw (ds.map (48 + ·))], [], -1, -1, 1⟩, fi.1, v.num, (short ++ long).flatMap (·.1), false⟩ := by
  apply qr_roundtrip_partial T rs hint m hdim v p1 h_version fi p2 h_format _ p3 h_place
    ((short ++ long).map (fun b => (b.1.length, b.1 ++ b.2)))
    (QRDec.interleave_deinterleave w v fi.1 eb heb hec hshape htot)
  · apply correctBlocks_map rs (short ++ long) (short ++ long) rfl
    intro p hp
    have hpp : p.1 = p.2 := by
      have := List.of_mem_zip hp
      obtain ⟨i, hi⟩ := List.getElem?_of_mem hp
      rw [List.getElem?_zip_eq_some] at hi
      exact Option.some.inj (hi.1.symm.trans hi.2)
    rw [← hpp]
    refine ⟨rfl, ?_⟩
    have hb := List.of_mem_zip hp
    have hl : p.1.2.length = e := (w.data_len p.1 hb.1).2.2
    have : (p.1.1 ++ p.1.2).length - p.1.1.length = e := by simp [hl]
    rw [this]
    exact h_rs p.1 hb.1
  · unfold parse
    rw [h_stream]
    exact parse_numeric_stream T.eci v.num hint ds hd hlen tail ht

/-! ## the composed round trip, in full: reference encoder (ISO/IEC 18004, `Gzx.QRRef`) → decoder model

No layer hypotheses.  The Reed-Solomon decoder is the C04 model `Gzx.RS.decode` over `Gzx.GF.qrCode256`
(`QRComp.rsQR`), the tables are any tables conforming to the standard (`QRComp.TablesConform T`, decidable,
discharged for the tables regenerated from /repo by `Obligations.C01.tables_conform`), the symbol is the
reference symbol of C07 (`QRRef.refMatrix`, which the `c07` oracle compares with the library's matrices). -/

/-- the reference symbol for a payload bit string (mode indicator, count, data — before termination):
    terminator + padding, block split + RS parity + interleaving, placement + masking + function patterns -/
def refSymbol (v : Nat) (ec : QRRef.EC) (mask : Nat) (bits : List Bool) : Matrix :=
  matrixOf (QRRef.refMatrix v ec mask
    (QRRef.finalCodewords v ec (QRRef.terminate (QRRef.dataCodewords v ec) bits)))

/-- `qr_roundtrip_bits` — the composition for an arbitrary payload: for every version 1..40, level, mask 0..7
    and every payload that fits the data capacity, `Decoder.Decode` on the reference symbol succeeds on the
    first attempt (not mirrored) and returns whatever the bit-stream parser makes of the payload followed by
    a terminated tail, the level, the version and exactly the data codewords that were written. -/
theorem qr_roundtrip_bits (T : Tables) (hT : TablesConform T) (hint : Hint) (v : Nat) (h1 : 1 ≤ v) (h40 : v ≤ 40)
    (ec : QRRef.EC) (mask : Nat) (hm : mask < 8) (bits : List Bool)
    (hfit : bits.length ≤ 8 * QRRef.dataCodewords v ec) (parsed : Parsed)
    (hparse : ∀ tail, Terminated tail → parseStream T.eci (bits ++ tail) v hint = .ok parsed) :
    decode T rsQR hint (refSymbol v ec mask bits) =
      .ok ⟨parsed, toDecEC ec, v, QRRef.terminate (QRRef.dataCodewords v ec) bits, false⟩ := by
  unfold refSymbol
  generalize hdata : QRRef.terminate (QRRef.dataCodewords v ec) bits = data
  have hd : data.length = QRRef.dataCodewords v ec := by
    rw [← hdata]; exact QRRef.terminate_length _ _ hfit
  have hb : ∀ x ∈ data, x < 256 := by rw [← hdata]; exact terminate_lt _ _
  have hl := Gzx.Properties.C07.final_codewords_length v h1 h40 ec data hd
  have hcb := QRRef.finalCodewords_lt v ec data hb
  obtain ⟨s, l, q, hs, hq, h255, hlens, hpar, eb, heb, hec, hshape0, htot0⟩ :=
    refBlocks_structure v h1 h40 ec data hd
  generalize hshort : (refBlocks v ec data).take s = short
  generalize hlong : (refBlocks v ec data).drop s = long
  have hsplit : refBlocks v ec data = short ++ long := by
    rw [← hshort, ← hlong]; exact (List.take_append_drop _ _).symm
  have w : ShortLong q (QRRef.ecPerBlock v ec) short long := by
    rw [← hshort, ← hlong]; exact shortLong_of_lengths _ s l q _ hs hlens hpar
  have hshape : blockShapes eb = (short ++ long).map (fun b => (b.1.length, QRRef.ecPerBlock v ec + b.1.length)) := by
    rw [hshape0, ← hlens, ← hsplit, List.map_map]; rfl
  have htot : (refVersion v).totalCodewords = (QRDec.interleave (short ++ long)).length := by
    rw [← hsplit]; exact htot0
  have hcw : QRRef.finalCodewords v ec data = QRDec.interleave (short ++ long) := by
    rw [finalCodewords_eq_interleave, hsplit]
  have hdim : ¬ ((sym v ec mask (QRRef.finalCodewords v ec data)).dim < 21 ∨
      (sym v ec mask (QRRef.finalCodewords v ec data)).dim % 4 ≠ 1) := by
    rw [matrixOf_dim]; omega
  have hplace := readCodewords_ref v h1 h40 ec mask _ hl hcb T hT
  have := qr_roundtrip_partial T rsQR hint (sym v ec mask (QRRef.finalCodewords v ec data)) hdim (refVersion v) _
    (readVersion_ref v h1 h40 ec mask _ T hT) (toDecEC ec, mask) _ (readFormat_ref v h1 h40 ec mask _ T hT hm)
    (QRRef.finalCodewords v ec data) _ (Prod.ext hplace rfl)
    ((short ++ long).map (fun b => (b.1.length, b.1 ++ b.2)))
    (by rw [hcw]; exact QRDec.interleave_deinterleave w (refVersion v) (toDecEC ec) eb heb hec hshape htot)
    data ?_ parsed ?_
  · exact this
  · have hflat : (short ++ long).flatMap (·.1) = data := by
      rw [← hsplit]; exact refBlocks_data v h1 h40 ec data hd
    rw [← hflat]
    apply correctBlocks_map rsQR (short ++ long) (short ++ long) rfl
    intro p hp
    have hpp : p.1 = p.2 := by
      obtain ⟨i, hi⟩ := List.getElem?_of_mem hp
      rw [List.getElem?_zip_eq_some] at hi
      exact Option.some.inj (hi.1.symm.trans hi.2)
    rw [← hpp]
    refine ⟨rfl, ?_⟩
    have hmem : p.1 ∈ refBlocks v ec data := by rw [hsplit]; exact (List.of_mem_zip hp).1
    obtain ⟨hpar, hne, hbytes, hecm⟩ := refBlocks_mem v h1 h40 ec data hd hb p.1 hmem
    have hlen : (p.1.1 ++ p.1.2).length - p.1.1.length = QRRef.ecPerBlock v ec := by
      rw [hpar]; simp [QRRef.rsParity_length]
    rw [hlen, hpar]
    exact rsQR_clean _ hecm p.1.1 hne hbytes
  · unfold parse
    obtain ⟨tail, hbits, hterm⟩ := terminate_stream (QRRef.dataCodewords v ec) bits hfit
    rw [← hdata, hbits]
    exact hparse tail hterm

/-- payload length of a single-segment symbol -/
theorem payload_length (v : Nat) (hdr : List Bool) (m : QRRef.Mode) (count : Nat) (data : List Bool) :
    (QRRef.payloadBits v hdr m count data).length = hdr.length + QRRef.countBits m v + data.length := by
  unfold QRRef.payloadBits
  simp [QRRef.toBitsBE_length]
  omega

theorem flatMap_pair_length (ps : List (Nat × Nat)) : (ps.flatMap (fun p => [p.1, p.2])).length = 2 * ps.length := by
  induction ps with
  | nil => rfl
  | cons p ps ih => rw [List.flatMap_cons, List.length_append, ih]; simp; omega

theorem payload_segment (v : Nat) (m : QRRef.Mode) (k : Nat) (hk : QRRef.countBits m v = countWidth k v)
    (count : Nat) (data : List Bool) :
    QRRef.payloadBits v (QRRef.headerBits none false m) m count data =
      segment m.indicator (countWidth k v) count data := by
  unfold QRRef.payloadBits QRRef.headerBits segment
  simp only [Bool.false_eq_true, if_false, List.nil_append, List.append_nil, toBitsBE_eq_natToBits, hk]

/-- **`qr_roundtrip`, numeric mode** (7.4.3): every string of digits that fits (version, level) comes back as
    its ASCII bytes, with the level and version, for every version 1..40, level and mask. -/
theorem qr_roundtrip_numeric (T : Tables) (hT : TablesConform T) (hint : Hint) (v : Nat) (h1 : 1 ≤ v) (h40 : v ≤ 40)
    (ec : QRRef.EC) (mask : Nat) (hm : mask < 8) (ds : List Nat) (hd : ∀ d ∈ ds, d < 10)
    (hfit : QRRef.fitsBits v ec .numeric (QRRef.headerBits none false .numeric).length
      (QRRef.packNumeric ds).length = true) :
    decode T rsQR hint (refSymbol v ec mask
        (QRRef.payloadBits v (QRRef.headerBits none false .numeric) .numeric ds.length (QRRef.packNumeric ds))) =
      .ok ⟨⟨[.raw (ds.map (48 + ·))], [], -1, -1, 1⟩, toDecEC ec, v,
        QRRef.dataCodewordsOf v ec (QRRef.headerBits none false .numeric) .numeric ds.length (QRRef.packNumeric ds),
        false⟩ := by
  have hk := (countBits_eq v).1
  have hf : _ ≤ _ := of_decide_eq_true hfit
  have hcount : ds.length < 2 ^ QRRef.countBits .numeric v := by
    have hc := (cap_facts v h1 h40 ec).1
    rw [packNumeric_length] at hf
    generalize 2 ^ QRRef.countBits .numeric v = P at hc ⊢
    split at hf
    · omega
    · split at hf <;> omega
  apply qr_roundtrip_bits T hT hint v h1 h40 ec mask hm
  · rw [payload_length]; exact hf
  · intro tail ht
    rw [payload_segment v .numeric 0 hk, packNumeric_eq]
    exact parse_numeric_stream T.eci v hint ds hd (by rw [← hk]; exact hcount) tail ht

/-- **`qr_roundtrip`, alphanumeric mode** (7.4.4): character values 0..44 come back as the characters of Table 5 -/
theorem qr_roundtrip_alnum (T : Tables) (hT : TablesConform T) (hint : Hint) (v : Nat) (h1 : 1 ≤ v) (h40 : v ≤ 40)
    (ec : QRRef.EC) (mask : Nat) (hm : mask < 8) (cs : List Nat) (hc : ∀ c ∈ cs, c < 45)
    (hfit : QRRef.fitsBits v ec .alnum (QRRef.headerBits none false .alnum).length
      (QRRef.packAlnum cs).length = true) :
    decode T rsQR hint (refSymbol v ec mask
        (QRRef.payloadBits v (QRRef.headerBits none false .alnum) .alnum cs.length (QRRef.packAlnum cs))) =
      .ok ⟨⟨[.raw (cs.map alnumCharOf)], [], -1, -1, 1⟩, toDecEC ec, v,
        QRRef.dataCodewordsOf v ec (QRRef.headerBits none false .alnum) .alnum cs.length (QRRef.packAlnum cs),
        false⟩ := by
  have hk := (countBits_eq v).2.1
  have hf : _ ≤ _ := of_decide_eq_true hfit
  have hcount : cs.length < 2 ^ QRRef.countBits .alnum v := by
    have hc := (cap_facts v h1 h40 ec).2.1
    rw [packAlnum_length] at hf
    generalize 2 ^ QRRef.countBits .alnum v = P at hc ⊢
    omega
  apply qr_roundtrip_bits T hT hint v h1 h40 ec mask hm
  · rw [payload_length]; exact hf
  · intro tail ht
    rw [payload_segment v .alnum 1 hk, packAlnum_eq]
    exact parse_alnum_stream T.eci v hint cs hc (by rw [← hk]; exact hcount) tail ht

/-- **`qr_roundtrip`, byte mode without ECI header** (7.4.5): the bytes come back unchanged, labelled with the
    character set `guessCharset` picks for them (hint honoured, UTF-8 detected: C15) -/
theorem qr_roundtrip_byte (T : Tables) (hT : TablesConform T) (hint : Hint) (v : Nat) (h1 : 1 ≤ v) (h40 : v ≤ 40)
    (ec : QRRef.EC) (mask : Nat) (hm : mask < 8) (bs : List Nat) (hb : ∀ b ∈ bs, b < 256)
    (charset : Charset) (hcs : guessCharset T.eci bs hint = .ok charset)
    (hfit : QRRef.fitsBits v ec .byte (QRRef.headerBits none false .byte).length
      (QRRef.bitsOfBytes bs).length = true) :
    decode T rsQR hint (refSymbol v ec mask
        (QRRef.payloadBits v (QRRef.headerBits none false .byte) .byte bs.length (QRRef.bitsOfBytes bs))) =
      .ok ⟨⟨[.text charset bs], [bs], -1, -1, 1⟩, toDecEC ec, v,
        QRRef.dataCodewordsOf v ec (QRRef.headerBits none false .byte) .byte bs.length (QRRef.bitsOfBytes bs),
        false⟩ := by
  have hk := (countBits_eq v).2.2.1
  have hf : _ ≤ _ := of_decide_eq_true hfit
  have hcount : bs.length < 2 ^ QRRef.countBits .byte v := by
    have hc := (cap_facts v h1 h40 ec).2.2.1
    rw [QRRef.bitsOfBytes_length] at hf
    generalize 2 ^ QRRef.countBits .byte v = P at hc ⊢
    omega
  apply qr_roundtrip_bits T hT hint v h1 h40 ec mask hm
  · rw [payload_length]; exact hf
  · intro tail ht
    rw [payload_segment v .byte 2 hk, bitsOfBytes_eq]
    exact parse_byte_stream T.eci v hint bs hb (by rw [← hk]; exact hcount) charset hcs tail ht

/-- **`qr_roundtrip`, Kanji mode** (7.4.6): Shift_JIS double-byte characters of the two Kanji ranges come back as
    their byte pairs, labelled Shift_JIS -/
theorem qr_roundtrip_kanji (T : Tables) (hT : TablesConform T) (hint : Hint) (v : Nat) (h1 : 1 ≤ v) (h40 : v ≤ 40)
    (ec : QRRef.EC) (mask : Nat) (hm : mask < 8) (ps : List (Nat × Nat)) (hp : ∀ p ∈ ps, kanjiPairOK p)
    (hfit : QRRef.fitsBits v ec .kanji (QRRef.headerBits none false .kanji).length
      (QRPack.packKanji ps).length = true) :
    QRRef.encodeData .kanji (ps.flatMap (fun p => [p.1, p.2])) = some (ps.length, QRPack.packKanji ps) ∧
    decode T rsQR hint (refSymbol v ec mask
        (QRRef.payloadBits v (QRRef.headerBits none false .kanji) .kanji ps.length (QRPack.packKanji ps))) =
      .ok ⟨⟨[.text .sjis (ps.flatMap (fun p => [p.1, p.2]))], [], -1, -1, 1⟩, toDecEC ec, v,
        QRRef.dataCodewordsOf v ec (QRRef.headerBits none false .kanji) .kanji ps.length (QRPack.packKanji ps),
        false⟩ := by
  have hk := (countBits_eq v).2.2.2
  have hf : _ ≤ _ := of_decide_eq_true hfit
  have hcount : ps.length < 2 ^ QRRef.countBits .kanji v := by
    have hc := (cap_facts v h1 h40 ec).2.2.2
    rw [packKanji_length] at hf
    generalize 2 ^ QRRef.countBits .kanji v = P at hc ⊢
    omega
  constructor
  · unfold QRRef.encodeData
    simp only [QRComp.packKanji_eq ps hp, Option.map_some]
    rw [flatMap_pair_length]; simp
  · apply qr_roundtrip_bits T hT hint v h1 h40 ec mask hm
    · rw [payload_length]; exact hf
    · intro tail ht
      rw [payload_segment v .kanji 3 hk]
      exact parse_kanji_stream T.eci v hint ps hp (by rw [← hk]; exact hcount) tail ht

/-! ### byte mode with an ECI header -/

theorem eciDesignator_eq (val : Nat) :
    QRRef.eciDesignator val = encodeECIValue (if val < 128 then 1 else if val < 16384 then 2 else 3) val := by
  unfold QRRef.eciDesignator encodeECIValue
  by_cases h1 : val < 128
  · simp [h1, toBitsBE_eq_natToBits]
  · by_cases h2 : val < 16384
    · simp [h1, h2, toBitsBE_eq_natToBits]
    · simp [h1, h2, toBitsBE_eq_natToBits]

/-- ECI header (7.4.2) + byte segment + terminated tail: the bytes come back labelled with the registered
    character set of the ECI assignment number, whatever `guessCharset` would have said -/
theorem parse_byte_eci_stream (reg : Registry) (ver : Nat) (hint : Hint) (val : Nat) (hval : val < 900)
    (e : Entry) (hl : lookupValue reg val = some e)
    (bs : List Nat) (hb : ∀ b ∈ bs, b < 256) (hlen : bs.length < 2 ^ countWidth 2 ver)
    (tail : List Bool) (ht : Terminated tail) :
    parseStream reg (natToBits 4 7 ++ (QRRef.eciDesignator val ++
      (segment 4 (countWidth 2 ver) bs.length (packBytes bs) ++ tail))) ver hint =
      .ok ⟨[.text (.named e.name) bs], [bs], -1, -1, 2⟩ := by
  unfold parseStream
  rw [eciDesignator_eq]
  obtain ⟨f, hf⟩ : ∃ f, (natToBits 4 7 ++ (encodeECIValue (if val < 128 then 1 else if val < 16384 then 2 else 3) val ++
      (segment 4 (countWidth 2 ver) bs.length (packBytes bs) ++ tail))).length + 1 = f + 1 + 1 + 1 := by
    generalize encodeECIValue _ val ++ _ = rest
    refine ⟨(natToBits 4 7 ++ rest).length - 2, ?_⟩
    rw [List.length_append, natToBits_length]
    omega
  rw [hf, Gzx.Properties.C15.parseLoop_eci reg ver hint (f + 1 + 1) {} _ val _ (by
    by_cases h1 : val < 128
    · simp [h1]
    · by_cases h2 : val < 16384
      · simp [h1, h2]
      · simp [h1, h2]; omega), hl]
  simp only [hval, if_true]
  rw [bits_byte_inv_eci reg ver hint (f + 1) _ e rfl bs hb hlen tail, parseLoop_terminated reg ver hint f _ tail ht]
  rfl

/-- **`qr_roundtrip`, byte mode with ECI header**: for every ECI assignment number `val` the decoder's registry
    knows (entry `e`), the symbol announcing `val` returns the bytes labelled with `e`'s character set
    (symbology modifier 2) -/
theorem qr_roundtrip_byte_eci (T : Tables) (hT : TablesConform T) (hint : Hint) (v : Nat) (h1 : 1 ≤ v) (h40 : v ≤ 40)
    (ec : QRRef.EC) (mask : Nat) (hm : mask < 8) (val : Nat) (hval : val < 900) (e : Entry)
    (hl : lookupValue T.eci val = some e) (bs : List Nat) (hb : ∀ b ∈ bs, b < 256)
    (hfit : QRRef.fitsBits v ec .byte (QRRef.headerBits (some val) false .byte).length
      (QRRef.bitsOfBytes bs).length = true) :
    decode T rsQR hint (refSymbol v ec mask
        (QRRef.payloadBits v (QRRef.headerBits (some val) false .byte) .byte bs.length (QRRef.bitsOfBytes bs))) =
      .ok ⟨⟨[.text (.named e.name) bs], [bs], -1, -1, 2⟩, toDecEC ec, v,
        QRRef.dataCodewordsOf v ec (QRRef.headerBits (some val) false .byte) .byte bs.length (QRRef.bitsOfBytes bs),
        false⟩ := by
  have hk := (countBits_eq v).2.2.1
  have hf : _ ≤ _ := of_decide_eq_true hfit
  have hcount : bs.length < 2 ^ QRRef.countBits .byte v := by
    have hc := (cap_facts v h1 h40 ec).2.2.1
    rw [QRRef.bitsOfBytes_length] at hf
    generalize 2 ^ QRRef.countBits .byte v = P at hc ⊢
    omega
  apply qr_roundtrip_bits T hT hint v h1 h40 ec mask hm
  · rw [payload_length]; exact hf
  · intro tail ht
    have : QRRef.payloadBits v (QRRef.headerBits (some val) false .byte) .byte bs.length (QRRef.bitsOfBytes bs) ++ tail =
        natToBits 4 7 ++ (QRRef.eciDesignator val ++
          (segment 4 (countWidth 2 v) bs.length (packBytes bs) ++ tail)) := by
      unfold QRRef.payloadBits QRRef.headerBits segment
      simp only [Bool.false_eq_true, if_false, List.append_nil, List.append_assoc, toBitsBE_eq_natToBits, hk,
        bitsOfBytes_eq]
      rfl
    rw [this]
    exact parse_byte_eci_stream T.eci v hint val hval e hl bs hb (by rw [← hk]; exact hcount) tail ht

/-! ### non-vacuity of the composed theorems -/

/-- the table hypothesis is satisfiable: the standard's tables as a `Tables` value
    (and the regenerated tables: `Obligations.C01.tables_conform`) -/
example : TablesConform refTables := refTables_conform

/-- ISO/IEC 18004 Annex I: "01234567", version 1-M — the data codewords of the reference construction are those
    of the standard's worked example … -/
example : QRRef.dataCodewordsOf 1 .M (QRRef.headerBits none false .numeric) .numeric 8
    (QRRef.packNumeric [0, 1, 2, 3, 4, 5, 6, 7]) =
    [0x10, 0x20, 0x0C, 0x56, 0x61, 0x80, 0xEC, 0x11, 0xEC, 0x11, 0xEC, 0x11, 0xEC, 0x11, 0xEC, 0x11] := by decide

/-- … and the symbol (mask 011) decodes to the digits: a concrete instance of every hypothesis of
    `qr_roundtrip_numeric` (evaluated by the kernel end to end in Proofs/QRCompExamples.lean) -/
example : decode refTables rsQR .none (refSymbol 1 .M 3
      (QRRef.payloadBits 1 (QRRef.headerBits none false .numeric) .numeric 8 (QRRef.packNumeric [0, 1, 2, 3, 4, 5, 6, 7]))) =
    .ok ⟨⟨[.raw ([0, 1, 2, 3, 4, 5, 6, 7].map (48 + ·))], [], -1, -1, 1⟩, .M, 1,
      QRRef.dataCodewordsOf 1 .M (QRRef.headerBits none false .numeric) .numeric 8
        (QRRef.packNumeric [0, 1, 2, 3, 4, 5, 6, 7]), false⟩ :=
  qr_roundtrip_numeric refTables refTables_conform .none 1 (by decide) (by decide) .M 3 (by decide)
    [0, 1, 2, 3, 4, 5, 6, 7] (by decide) (by decide)

/-- a version 7 symbol (45x45, carries both copies of the version information; 2 + 4 blocks at level Q),
    alphanumeric "HR:", mask 101 -/
example : decode refTables rsQR .none (refSymbol 7 .Q 5
      (QRRef.payloadBits 7 (QRRef.headerBits none false .alnum) .alnum 3 (QRRef.packAlnum [17, 27, 44]))) =
    .ok ⟨⟨[.raw ([17, 27, 44].map alnumCharOf)], [], -1, -1, 1⟩, .Q, 7,
      QRRef.dataCodewordsOf 7 .Q (QRRef.headerBits none false .alnum) .alnum 3 (QRRef.packAlnum [17, 27, 44]), false⟩ :=
  qr_roundtrip_alnum refTables refTables_conform .none 7 (by decide) (by decide) .Q 5 (by decide)
    [17, 27, 44] (by decide) (by decide)

example : ([17, 27, 44].map alnumCharOf, QRRef.blockGroups 7 .Q, QRRef.versionWord 7) =
    ([72, 82, 58], [(2, 14), (4, 15)], 0x07C94) := by decide

/-- version 40-L, byte mode, 2953 bytes (the published capacity): fits, hence round-trips -/
example : QRRef.fitsBits 40 .L .byte (QRRef.headerBits none false .byte).length (8 * 2953) = true ∧
    QRRef.fitsBits 40 .L .byte (QRRef.headerBits none false .byte).length (8 * 2954) = false := by decide

end Gzx.Properties.C01
