/-
  C01 — QR, clause "… or the rendered image read in pure-barcode mode, returns exactly that text"
  (work package imgpath2d).  Property theorems only; proofs in Gzx/Proofs/Image2D.lean (corner scans, read-off),
  Gzx/Proofs/Image2DQR.lean (diagonal walk of moduleSize, float path) and Gzx/Proofs/Image2DBin.lean (binarisers, C17).

    text → encoder (reference symbol qr_roundtrip_bits / mirror of Encoder_encode mirror_symbol_roundtrip)
         → renderResult(code, width, height, quietZone)                                  C14 renderQR_*
         → BitMatrix as image.Image → NewLuminanceSourceFromImage → HybridBinarizer.GetBlackMatrix     C17
         → QRCodeReader.Decode(PURE_BARCODE): extractPureBits (float64 moduleSize) → Decoder.Decode

  float64 is a parameter (`FOps`); what is needed of it is `QRFloatExact o s n` for the pitch `s` the renderer chose
  and the symbol dimension `n` (three equations, Proofs/Image2DQR.lean), which holds of every interpretation that is
  exact on integers (`ExactOps`; IEEE binary64 is, below 2^53 — correspondence `img2d qrfloat`).
  Image-size conditions: from 40x40 pixels (always the case for a QR symbol with the default margin 4: 21+8 = 29
  modules … not at scale 1) the local binariser is used and the result is unconditional; below, the global histogram
  method may answer NotFound, which the QR reader hands through unchanged.
-/
import Gzx.Proofs.Image2DQR
import Gzx.Proofs.Image2DBin
import Gzx.Proofs.Image2DGlobal
import Gzx.Properties.C14
import Gzx.Properties.C01Mirror
import Gzx.Properties.C01Multi
import Gzx.Properties.C05
import Gzx.Properties.C06PureRead
namespace Gzx.Properties.C01Image
open Gzx Gzx.Det Gzx.Det.Pure Gzx.Render Gzx.Image2D Gzx.ImagePath
open Gzx.Properties.C14 (qrScale renderQR_pixel renderQR_quiet renderQR_eq)
open Gzx.Properties.C06PureRead (toQR)
open Gzx.Properties.C06Det (toyOps)

/-! ## 1. `extractPureBits` on a rendered symbol is the module matrix -/

/-- the QR rendering of `m` shows `m` (C14): pitch `qrScale`, pads ≥ margin·pitch -/
theorem renderQR_shows (mw mh : Nat) (m : Nat → Nat → Bool) (q reqW reqH : Int) (hq : 0 ≤ q) (hw : 1 ≤ mw) (hh : 1 ≤ mh) :
    ∃ img, renderQR mw mh m q reqW reqH = .ok img ∧
      img.w = outSize reqW mw (2 * q) ∧ img.h = outSize reqH mh (2 * q) ∧
      ∀ bm : Img, SameAsImage bm img →
        Shows bm mw mh m (qrScale mw mh q reqW reqH) (padOf img.w mw (qrScale mw mh q reqW reqH))
          (padOf img.h mh (qrScale mw mh q reqW reqH)) := by
  have heq := renderQR_eq mw mh m q reqW reqH hq hw hh
  obtain ⟨img, himg, hpx⟩ := renderQR_pixel mw mh m q reqW reqH hq hw hh
  obtain ⟨hs1, -, -, -, qx1, qx2, qy1, qy2, -⟩ := renderQR_quiet mw mh q reqW reqH hq hw hh
  have hqs : 0 ≤ q * qrScale mw mh q reqW reqH := Int.mul_nonneg hq (by omega)
  rw [heq] at himg
  cases himg
  refine ⟨_, heq, rfl, rfl, ?_⟩
  intro bm ⟨bw, bh, bpx⟩
  dsimp only at hpx bw bh bpx qx1 qx2 qy1 qy2 ⊢
  exact {
    s_pos := hs1, padX_nonneg := by omega, padY_nonneg := by omega
    fitX := by rw [bw]; omega
    fitY := by rw [bh]; omega
    pix := by
      intro x y hin
      rw [bpx x y hin]
      exact hpx x y }

/-- **`qr_extractPureBits_rendered`** — for the C14 rendering (`renderResult`: any requested width and height, any
    margin ≥ 0, hence any pitch s ≥ 1, any quiet zone and leftover padding) of ANY `n x n` module matrix with the QR
    finder structure the code uses (`QRFinderFacts`: diagonal of the top-left finder and separator, a dark module in
    the last row right of column 0), `QRCodeReader.extractPureBits` returns exactly the module matrix — for every
    interpretation of float64 that is accurate at this pitch and dimension (`QRFloatExact`), with the guarded and with
    an unguarded `Get`. -/
theorem qr_extractPureBits_rendered {F : Type} (o : FOps F) (n : Nat) (m : Nat → Nat → Bool) (q reqW reqH : Int)
    (hq : 0 ≤ q) (hm : QRFinderFacts n m) (ho : QRFloatExact o (qrScale n n q reqW reqH) n) :
    ∃ img, renderQR n n m q reqW reqH = .ok img ∧
      QR.extractPureBits o (bitImage img).rdGo (bitImage img) = .ok { w := n, h := n, rows := matrixRows n n m } ∧
      QR.extractPureBits o (bitImage img).rdStrict (bitImage img) = .ok { w := n, h := n, rows := matrixRows n n m } := by
  have hn := hm.size
  obtain ⟨img, himg, _, _, hshow⟩ := renderQR_shows n n m q reqW reqH hq (by omega) (by omega)
  have hs := hshow (bitImage img) ⟨rfl, rfl, fun _ _ _ => rfl⟩
  exact ⟨img, himg, qr_extract_shows o hs (reads_rdGo _) hm ho, qr_extract_shows o hs (reads_rdStrict _) hm ho⟩

/-- the accuracy hypothesis is dischargeable: every interpretation exact on integers has it at every pitch and
    dimension — e.g. the integer toy interpretation -/
theorem toy_exact : ExactOps toyOps := by
  refine ⟨?_, ?_, ?_, ?_, ?_⟩
  · intro a b hb; exact Int.mul_tdiv_cancel a (by omega)
  · intro a b; rfl
  · intro a; rfl
  · intro a ha
    show (if decide (a < 0) = true then a - Int.tdiv 1 2 else a + Int.tdiv 1 2) = a
    have : ¬ a < 0 := by omega
    simp [this]
  · intro a ha
    exact Int.tdiv_eq_ediv_of_nonneg ha

theorem qr_extractPureBits_rendered_exact {F : Type} (o : FOps F) (he : ExactOps o) (n : Nat) (m : Nat → Nat → Bool)
    (q reqW reqH : Int) (hq : 0 ≤ q) (hm : QRFinderFacts n m) :
    ∃ img, renderQR n n m q reqW reqH = .ok img ∧
      QR.extractPureBits o (bitImage img).rdGo (bitImage img) = .ok { w := n, h := n, rows := matrixRows n n m } := by
  have hn := hm.size
  obtain ⟨hs1, -⟩ := renderQR_quiet n n q reqW reqH hq (by omega) (by omega)
  obtain ⟨img, h1, h2, _⟩ := qr_extractPureBits_rendered o n m q reqW reqH hq hm (he.qrFloatExact _ n hs1 (by omega))
  exact ⟨img, h1, h2⟩

/-- through image → luminance → binariser: the bitmap yields a black matrix from 40x40 pixels up (local method)
    and, below, whenever one of the pixels the global method samples is white (`WhiteSample`) -/
theorem qr_extractPureBits_binarised {F : Type} (o : FOps F) (n : Nat) (m : Nat → Nat → Bool) (q reqW reqH : Int)
    (hq : 0 ≤ q) (hm : QRFinderFacts n m) (ho : QRFloatExact o (qrScale n n q reqW reqH) n) :
    ∃ img, renderQR n n m q reqW reqH = .ok img ∧
      img.w = outSize reqW n (2 * q) ∧ img.h = outSize reqH n (2 * q) ∧
      (blackMatrix img = .error .notFound ∨
        ∃ bm, blackMatrix img = .ok bm ∧
          QR.extractPureBits o bm.rdGo bm = .ok { w := n, h := n, rows := matrixRows n n m }) ∧
      (40 ≤ img.w ∧ 40 ≤ img.h ∨ WhiteSample img → ∃ bm, blackMatrix img = .ok bm ∧
          QR.extractPureBits o bm.rdGo bm = .ok { w := n, h := n, rows := matrixRows n n m }) := by
  have hn := hm.size
  obtain ⟨img, himg, ew, eh, hshow⟩ := renderQR_shows n n m q reqW reqH hq (by omega) (by omega)
  have hW : 1 ≤ img.w := by rw [ew]; unfold outSize; omega
  have hH : 1 ≤ img.h := by rw [eh]; unfold outSize; omega
  have ext : ∀ bm, SameAsImage bm img →
      QR.extractPureBits o bm.rdGo bm = .ok { w := n, h := n, rows := matrixRows n n m } := fun bm hbm =>
    qr_extract_shows o (hshow bm hbm) (reads_rdGo _) hm ho
  refine ⟨img, himg, ew, eh, ?_, ?_⟩
  · rcases blackMatrix_any img hW hH with h | ⟨bm, hb, hs⟩
    · exact Or.inl h
    · exact Or.inr ⟨bm, hb, ext bm hs⟩
  · rintro (⟨h40w, h40h⟩ | hwhite)
    · obtain ⟨bm, hb, hs⟩ := blackMatrix_local img h40w h40h
      exact ⟨bm, hb, ext bm hs⟩
    · obtain ⟨bm, hb, hs⟩ := blackMatrix_white img hW hH hwhite
      exact ⟨bm, hb, ext bm hs⟩

/-! ## 2. the composed image round trip -/

/-- module (column `i`, row `j`) of the reference symbol (C07) -/
def refModule (v : Nat) (ec : QRRef.EC) (mask : Nat) (cw : List Nat) : Nat → Nat → Bool :=
  fun i j => QRRef.moduleAt v ec mask cw i j

theorem refModule_rows (v : Nat) (ec : QRRef.EC) (mask : Nat) (cw : List Nat) :
    matrixRows (QRRef.dimension v) (QRRef.dimension v) (refModule v ec mask cw) = QRRef.refMatrix v ec mask cw := by
  rw [QRRef.refMatrix_eq_spec]; rfl

theorem regionOf_topLeft (v x y : Nat) (hx : x < 7) (hy : y < 7) : QRRef.regionOf v x y = .finder := by
  unfold QRRef.regionOf
  simp [hx, hy]

theorem regionOf_bottomLeft (v x y : Nat) (hx : x < 7) (hy : y + 7 ≥ QRRef.dimension v) : QRRef.regionOf v x y = .finder := by
  unfold QRRef.regionOf
  simp [hx, hy]

theorem regionOf_77 (v : Nat) : QRRef.regionOf v 7 7 = .separator := by
  unfold QRRef.regionOf QRRef.dimension
  have : ¬ (7 + 7 ≥ 17 + 4 * v) := by omega
  simp [this]

/-- every reference symbol has the finder facts the pure-barcode code uses -/
theorem refModule_finder (v : Nat) (ec : QRRef.EC) (mask : Nat) (cw : List Nat) :
    QRFinderFacts (QRRef.dimension v) (refModule v ec mask cw) := by
  refine ⟨by unfold QRRef.dimension; omega, ?_, ⟨6, by omega, by unfold QRRef.dimension; omega, ?_⟩⟩
  · intro i hi
    by_cases h7 : i = 7
    · subst h7
      simp [refModule, QRRef.moduleAt, QRRef.isFunction, QRRef.functionModule, regionOf_77, finderDiag]
    · have hr := regionOf_topLeft v i i (by omega) (by omega)
      have : i = 0 ∨ i = 1 ∨ i = 2 ∨ i = 3 ∨ i = 4 ∨ i = 5 ∨ i = 6 := by omega
      simp only [refModule, QRRef.moduleAt, QRRef.isFunction, QRRef.functionModule, hr]
      rcases this with rfl | rfl | rfl | rfl | rfl | rfl | rfl <;> simp [QRRef.finderDark, finderDiag]
  · have hr := regionOf_bottomLeft v 6 (QRRef.dimension v - 1) (by omega) (by unfold QRRef.dimension; omega)
    simp only [refModule, QRRef.moduleAt, QRRef.isFunction, QRRef.functionModule, hr]
    have hd : QRRef.dimension v - 1 + 7 - QRRef.dimension v = 6 := by unfold QRRef.dimension; omega
    have hl : ¬ (QRRef.dimension v - 1 < 7) := by unfold QRRef.dimension; omega
    simp [QRRef.finderDark, hd, hl]

/-- the matrix read off, handed to the decoder model, is the reference symbol -/
theorem toQR_ref (v : Nat) (ec : QRRef.EC) (mask : Nat) (cw : List Nat) :
    toQR { w := QRRef.dimension v, h := QRRef.dimension v,
           rows := matrixRows (QRRef.dimension v) (QRRef.dimension v) (refModule v ec mask cw) } =
      QRComp.matrixOf (QRRef.refMatrix v ec mask cw) := by
  rw [refModule_rows]
  unfold toQR QRComp.matrixOf
  simp only [Int.toNat_natCast]
  congr 1
  · rw [QRComp.refMatrix_length]; rfl
  · funext x y
    unfold QRRef.matrixAt
    simp only [List.getD_eq_getElem?_getD]
    cases (QRRef.refMatrix v ec mask cw)[y]? <;> simp

/-- the model of `QRCodeReader.Decode(bitmap, {PURE_BARCODE, …})` after the renderer, with the C01 matrix decoder -/
def qrImageDecode {F : Type} (o : FOps F) (T : QRDec.Tables) (hint : ECI.Hint) (v : Nat) (ec : QRRef.EC) (mask : Nat)
    (cw : List Nat) (q reqW reqH : Int) : Except ReadFault QRDec.Decoded :=
  qrImagePath o (QRRef.dimension v) (QRRef.dimension v) (refModule v ec mask cw) q reqW reqH
    (fun b => QRDec.decode T QRComp.rsQR hint (toQR b))

/-- **the pure-barcode image path IS the matrix path** — for ANY `n x n` module matrix with the finder facts (a
    symbol of any encoder, also a damaged one), any margin ≥ 0 and requested size, any matrix decoder `decode`:
    rendering it, handing the BitMatrix over as an image, binarising and reading it with PURE_BARCODE gives exactly
    what `decode` gives on the module matrix itself (result or fault) — whenever the image is at least 40x40 pixels
    or one of the pixels the global method samples is white; in every case that, or the binariser's NotFound. -/
theorem qr_image_path_eq_matrix_path {F α : Type} (o : FOps F) (n : Nat) (m : Nat → Nat → Bool) (q reqW reqH : Int)
    (hq : 0 ≤ q) (hm : QRFinderFacts n m) (ho : QRFloatExact o (qrScale n n q reqW reqH) n) (decode : Bits → Res α) :
    ∃ img, renderQR n n m q reqW reqH = .ok img ∧
      img.w = outSize reqW n (2 * q) ∧ img.h = outSize reqH n (2 * q) ∧
      (40 ≤ img.w ∧ 40 ≤ img.h ∨ WhiteSample img →
        qrImagePath o n n m q reqW reqH decode = liftRes (decode { w := n, h := n, rows := matrixRows n n m })) ∧
      (qrImagePath o n n m q reqW reqH decode = liftRes (decode { w := n, h := n, rows := matrixRows n n m }) ∨
        qrImagePath o n n m q reqW reqH decode = .error (.other .notFound)) := by
  obtain ⟨img, himg, ew, eh, hany, hbig⟩ := qr_extractPureBits_binarised o n m q reqW reqH hq hm ho
  have ok_of : ∀ bm, blackMatrix img = .ok bm →
      QR.extractPureBits o bm.rdGo bm = .ok { w := n, h := n, rows := matrixRows n n m } →
      qrImagePath o n n m q reqW reqH decode = liftRes (decode { w := n, h := n, rows := matrixRows n n m }) := by
    intro bm hbm hex
    unfold qrImagePath
    rw [himg]
    simp only [qrRead, hbm, hex]
    cases decode { w := n, h := n, rows := matrixRows n n m } <;> rfl
  refine ⟨img, himg, ew, eh, ?_, ?_⟩
  · intro hc
    obtain ⟨bm, hbm, hex⟩ := hbig hc
    exact ok_of bm hbm hex
  · rcases hany with hnf | ⟨bm, hbm, hex⟩
    · right
      unfold qrImagePath
      rw [himg]
      simp only [qrRead, hnf]
    · left; exact ok_of bm hbm hex

/-- whatever a matrix-level theorem says about `Decoder.Decode` on the symbol that carries the final codeword
    sequence `cw` (function patterns, format / version information and placement of the reference; the codewords may
    be damaged) holds of the image path of that symbol -/
theorem qr_image_of_matrix_result_cw {F : Type} (o : FOps F) (T : QRDec.Tables) (hint : ECI.Hint)
    (v : Nat) (ec : QRRef.EC) (mask : Nat) (cw : List Nat) (want : QRDec.Decoded)
    (hsym : QRDec.decode T QRComp.rsQR hint (QRComp.matrixOf (QRRef.refMatrix v ec mask cw)) = .ok want)
    (q reqW reqH : Int) (hq : 0 ≤ q)
    (ho : QRFloatExact o (qrScale (QRRef.dimension v) (QRRef.dimension v) q reqW reqH) (QRRef.dimension v)) :
    let n := QRRef.dimension v
    (40 ≤ outSize reqW n (2 * q) → 40 ≤ outSize reqH n (2 * q) →
      qrImageDecode o T hint v ec mask cw q reqW reqH = .ok want) ∧
    ((∀ img, renderQR n n (refModule v ec mask cw) q reqW reqH = .ok img → WhiteSample img) →
      qrImageDecode o T hint v ec mask cw q reqW reqH = .ok want) ∧
    (qrImageDecode o T hint v ec mask cw q reqW reqH = .ok want ∨
      qrImageDecode o T hint v ec mask cw q reqW reqH = .error (.other .notFound)) := by
  intro n
  obtain ⟨img, himg, ew, eh, hbig, hany⟩ := qr_image_path_eq_matrix_path o n (refModule v ec mask cw) q reqW reqH hq
    (refModule_finder v ec mask cw) ho (fun b => QRDec.decode T QRComp.rsQR hint (toQR b))
  have hdec : QRDec.decode T QRComp.rsQR hint
      (toQR { w := n, h := n, rows := matrixRows n n (refModule v ec mask cw) }) = .ok want := by
    rw [show (toQR { w := n, h := n, rows := matrixRows n n (refModule v ec mask cw) }) =
      QRComp.matrixOf (QRRef.refMatrix v ec mask cw) from toQR_ref v ec mask cw]
    exact hsym
  simp only [hdec, liftRes] at hbig hany
  refine ⟨?_, ?_, hany⟩
  · intro a b
    exact hbig (Or.inl ⟨by rw [ew]; exact a, by rw [eh]; exact b⟩)
  · intro hwhite
    exact hbig (Or.inr (hwhite img himg))

/-- … in particular of the reference symbol of a payload (`qr_roundtrip_bits`, `qr_roundtrip_items`,
    `qr_roundtrip_segments`) -/
theorem qr_image_of_matrix_result {F : Type} (o : FOps F) (T : QRDec.Tables) (hint : ECI.Hint)
    (v : Nat) (ec : QRRef.EC) (mask : Nat) (bits : List Bool) (want : QRDec.Decoded)
    (hsym : QRDec.decode T QRComp.rsQR hint (C01.refSymbol v ec mask bits) = .ok want)
    (q reqW reqH : Int) (hq : 0 ≤ q)
    (ho : QRFloatExact o (qrScale (QRRef.dimension v) (QRRef.dimension v) q reqW reqH) (QRRef.dimension v)) :
    let cw := QRRef.finalCodewords v ec (QRRef.terminate (QRRef.dataCodewords v ec) bits)
    let n := QRRef.dimension v
    (40 ≤ outSize reqW n (2 * q) → 40 ≤ outSize reqH n (2 * q) →
      qrImageDecode o T hint v ec mask cw q reqW reqH = .ok want) ∧
    ((∀ img, renderQR n n (refModule v ec mask cw) q reqW reqH = .ok img → WhiteSample img) →
      qrImageDecode o T hint v ec mask cw q reqW reqH = .ok want) ∧
    (qrImageDecode o T hint v ec mask cw q reqW reqH = .ok want ∨
      qrImageDecode o T hint v ec mask cw q reqW reqH = .error (.other .notFound)) := by
  intro cw n
  unfold C01.refSymbol at hsym
  exact qr_image_of_matrix_result_cw o T hint v ec mask cw want hsym q reqW reqH hq ho

/-- **the image of a DAMAGED symbol** (C05 at image level): the codeword modules carry the interleaving of received
    blocks in which at most ⌊ecPerBlock/2⌋ codewords of every Reed-Solomon block differ from what was written
    (`QRComp.Received`); its rendering at any size and margin ≥ 0, read in pure-barcode mode, gives exactly what the
    undamaged symbol gives.  Function patterns are those of the reference: damage to the finder diagonal is outside
    this statement. -/
theorem qr_image_tolerates_block_errors {F : Type} (o : FOps F) (T : QRDec.Tables) (hT : QRComp.TablesConform T)
    (hint : ECI.Hint) (v : Nat) (h1 : 1 ≤ v) (h40 : v ≤ 40) (ec : QRRef.EC) (mask : Nat) (hm : mask < 8)
    (bits : List Bool) (hfit : bits.length ≤ 8 * QRRef.dataCodewords v ec) (parsed : QRDec.Parsed)
    (hparse : ∀ tail, QRDec.Terminated tail → QRDec.parseStream T.eci (bits ++ tail) v hint = .ok parsed)
    (recv : List (List Nat × List Nat))
    (hrecv : QRComp.Received v ec (QRRef.terminate (QRRef.dataCodewords v ec) bits) recv)
    (q reqW reqH : Int) (hq : 0 ≤ q)
    (ho : QRFloatExact o (qrScale (QRRef.dimension v) (QRRef.dimension v) q reqW reqH) (QRRef.dimension v)) :
    let cw := QRDec.interleave recv
    let want : QRDec.Decoded := ⟨parsed, QRComp.toDecEC ec, v, QRRef.terminate (QRRef.dataCodewords v ec) bits, false⟩
    let n := QRRef.dimension v
    (40 ≤ outSize reqW n (2 * q) → 40 ≤ outSize reqH n (2 * q) →
      qrImageDecode o T hint v ec mask cw q reqW reqH = .ok want) ∧
    ((∀ img, renderQR n n (refModule v ec mask cw) q reqW reqH = .ok img → WhiteSample img) →
      qrImageDecode o T hint v ec mask cw q reqW reqH = .ok want) ∧
    (qrImageDecode o T hint v ec mask cw q reqW reqH = .ok want ∨
      qrImageDecode o T hint v ec mask cw q reqW reqH = .error (.other .notFound)) := by
  intro cw want n
  exact qr_image_of_matrix_result_cw o T hint v ec mask cw want
    (C05.qr_tolerates_block_errors T hT hint v h1 h40 ec mask hm bits hfit parsed hparse recv hrecv) q reqW reqH hq ho

/-- **`qr_image_pure_roundtrip`** — payload bits (mode, count, data of ANY segment list that fits version `v` at level
    `ec`) → reference symbol (terminator, padding, RS parity, interleaving, placement, mask 0..7, function patterns) →
    `renderResult` with ANY requested width and height and ANY margin ≥ 0 → image → luminances → `HybridBinarizer` →
    `QRCodeReader.Decode(PURE_BARCODE)` (extractPureBits with float64 `o` → `Decoder.Decode` model with the C04
    Reed-Solomon decoder):
      * returns what the bit-stream parser makes of the payload, the level, the version, the data codewords (first
        attempt, not mirrored) whenever the image is at least 40x40 pixels, and below whenever one of the pixels the
        global histogram method samples is white (`WhiteSample`);
      * in every case the same, or the binariser's NotFound handed through — nothing else.
    Hypotheses beyond `qr_roundtrip_bits`: margin ≥ 0; float64 accurate at the pitch the renderer chose
    (`QRFloatExact`, implied by `ExactOps o`). -/
theorem qr_image_pure_roundtrip {F : Type} (o : FOps F) (T : QRDec.Tables) (hT : QRComp.TablesConform T) (hint : ECI.Hint)
    (v : Nat) (h1 : 1 ≤ v) (h40 : v ≤ 40) (ec : QRRef.EC) (mask : Nat) (hm : mask < 8) (bits : List Bool)
    (hfit : bits.length ≤ 8 * QRRef.dataCodewords v ec) (parsed : QRDec.Parsed)
    (hparse : ∀ tail, QRDec.Terminated tail → QRDec.parseStream T.eci (bits ++ tail) v hint = .ok parsed)
    (q reqW reqH : Int) (hq : 0 ≤ q)
    (ho : QRFloatExact o (qrScale (QRRef.dimension v) (QRRef.dimension v) q reqW reqH) (QRRef.dimension v)) :
    let cw := QRRef.finalCodewords v ec (QRRef.terminate (QRRef.dataCodewords v ec) bits)
    let want : QRDec.Decoded := ⟨parsed, QRComp.toDecEC ec, v, QRRef.terminate (QRRef.dataCodewords v ec) bits, false⟩
    let n := QRRef.dimension v
    (40 ≤ outSize reqW n (2 * q) → 40 ≤ outSize reqH n (2 * q) →
      qrImageDecode o T hint v ec mask cw q reqW reqH = .ok want) ∧
    ((∀ img, renderQR n n (refModule v ec mask cw) q reqW reqH = .ok img → WhiteSample img) →
      qrImageDecode o T hint v ec mask cw q reqW reqH = .ok want) ∧
    (qrImageDecode o T hint v ec mask cw q reqW reqH = .ok want ∨
      qrImageDecode o T hint v ec mask cw q reqW reqH = .error (.other .notFound)) := by
  intro cw want n
  exact qr_image_of_matrix_result o T hint v ec mask bits want
    (C01.qr_roundtrip_bits T hT hint v h1 h40 ec mask hm bits hfit parsed hparse) q reqW reqH hq ho

/-- **`qr_image_pure_roundtrip_items`** — content level: EVERY list of items in any order (numeric / alphanumeric /
    byte / Kanji / Hanzi segments, ECI designators, FNC1 indicators, structured-append headers; C01Multi
    `qr_roundtrip_items`) that fits (version, level), written as the reference symbol and rendered at any size and
    margin ≥ 0, is read back from the IMAGE in pure-barcode mode as the meaning of the list, the level, the version and
    the written data codewords -/
theorem qr_image_pure_roundtrip_items {F : Type} (o : FOps F) (T : QRDec.Tables) (hT : QRComp.TablesConform T)
    (hint : ECI.Hint) (v : Nat) (h1 : 1 ≤ v) (h40 : v ≤ 40) (ec : QRRef.EC) (mask : Nat) (hm : mask < 8)
    (items : List QRMulti.Item) (g : List Nat → ECI.Charset)
    (hc : ∀ it ∈ items, it.Content T.eci)
    (hg : ∀ bs ∈ QRMulti.guessed false items, ECI.guessCharset T.eci bs hint = .ok (g bs))
    (hfit : (QRMulti.bitsOf v items).length ≤ 8 * QRRef.dataCodewords v ec)
    (q reqW reqH : Int) (hq : 0 ≤ q)
    (ho : QRFloatExact o (qrScale (QRRef.dimension v) (QRRef.dimension v) q reqW reqH) (QRRef.dimension v)) :
    let bits := QRMulti.bitsOf v items
    let cw := QRRef.finalCodewords v ec (QRRef.terminate (QRRef.dataCodewords v ec) bits)
    let want : QRDec.Decoded := ⟨QRMulti.toParsed (QRMulti.run T.eci g {} items), QRComp.toDecEC ec, v,
      QRRef.terminate (QRRef.dataCodewords v ec) bits, false⟩
    let n := QRRef.dimension v
    (40 ≤ outSize reqW n (2 * q) → 40 ≤ outSize reqH n (2 * q) →
      qrImageDecode o T hint v ec mask cw q reqW reqH = .ok want) ∧
    ((∀ img, renderQR n n (refModule v ec mask cw) q reqW reqH = .ok img → WhiteSample img) →
      qrImageDecode o T hint v ec mask cw q reqW reqH = .ok want) ∧
    (qrImageDecode o T hint v ec mask cw q reqW reqH = .ok want ∨
      qrImageDecode o T hint v ec mask cw q reqW reqH = .error (.other .notFound)) := by
  intro bits cw want n
  exact qr_image_of_matrix_result o T hint v ec mask bits want
    (C01Multi.qr_roundtrip_items T hT hint v h1 h40 ec mask hm items g hc hg hfit) q reqW reqH hq ho

/-- the same for the symbol the MIRROR of the Go encoder builds (`Encoder_encode`'s back half: terminateBits,
    interleaveWithECBytes, chooseMaskPattern / forced mask, MatrixUtil_buildMatrix): it is the reference symbol
    (`backHalf_eq_ref`), so its rendered image reads back the same way.  `FuncOK v` is the per-version fact of
    C01Mirror (proved for v ≤ 10 there). -/
theorem qr_image_pure_roundtrip_mirror {F : Type} (o : FOps F) {K : QREnc.Kernels} (hK : QREnc.KernelsOK K)
    (T : QRDec.Tables) (hT : QRComp.TablesConform T) (hint : ECI.Hint)
    (v : Nat) (h1 : 1 ≤ v) (h40 : v ≤ 40) (hfn : QREnc.FuncOK v) (ec : QRRef.EC)
    (forced : Option Nat) (hforced : ∀ k, forced = some k → k < 8) (payload : List Bool)
    (hfit : payload.length ≤ 8 * QRRef.dataCodewords v ec) (parsed : QRDec.Parsed)
    (hparse : ∀ tail, QRDec.Terminated tail → QRDec.parseStream T.eci (payload ++ tail) v hint = .ok parsed)
    (q reqW reqH : Int) (hq : 0 ≤ q) (ho : ExactOps o) :
    ∃ (k : Nat) (M : QREnc.ByteMatrix), k < 8 ∧ QREnc.backHalf K v ec forced payload = .ok ((k : Int), M) ∧
      M.bytes.map (fun r => r.map (· == 1)) =
        matrixRows (QRRef.dimension v) (QRRef.dimension v) (refModule v ec k (QREnc.refCodewords v ec payload)) ∧
      (40 ≤ outSize reqW (QRRef.dimension v) (2 * q) → 40 ≤ outSize reqH (QRRef.dimension v) (2 * q) →
        qrImageDecode o T hint v ec k (QREnc.refCodewords v ec payload) q reqW reqH =
          .ok ⟨parsed, QRComp.toDecEC ec, v, QRRef.terminate (QRRef.dataCodewords v ec) payload, false⟩) := by
  have hbh := QREnc.backHalf_eq_ref hK v h1 h40 hfn ec forced hforced payload hfit
  have hmask : forced.getD (QRRef.chooseMask v ec (QREnc.refCodewords v ec payload)) < 8 := by
    cases hfo : forced with
    | some k => simpa using hforced k hfo
    | none =>
      simp only [Option.getD_none]
      rw [QREnc.chooseMask_eq_fold]
      have : ∀ (l : List Nat) (b : Nat × Nat), b.1 < 8 → (∀ k ∈ l, k < 8) →
          (l.foldl (QREnc.refStep (QREnc.refPenalty v ec (QREnc.refCodewords v ec payload))) b).1 < 8 := by
        intro l
        induction l with
        | nil => intro b hb _; exact hb
        | cons k ks ih =>
          intro b hb hl
          rw [List.foldl_cons]
          apply ih
          · unfold QREnc.refStep; split
            · exact hl k List.mem_cons_self
            · exact hb
          · intro k' hk'; exact hl k' (List.mem_cons_of_mem _ hk')
      exact this _ _ (by decide) (fun k hk => List.mem_range.mp hk)
  obtain ⟨hs1, -⟩ := renderQR_quiet (QRRef.dimension v) (QRRef.dimension v) q reqW reqH hq
    (by unfold QRRef.dimension; omega) (by unfold QRRef.dimension; omega)
  refine ⟨_, _, hmask, hbh, ?_, ?_⟩
  · rw [C07Mirror.refByteMatrix_modules, refModule_rows]
  · exact (qr_image_pure_roundtrip o T hT hint v h1 h40 ec _ hmask payload hfit parsed hparse q reqW reqH hq
      (ho.qrFloatExact _ _ hs1 (by omega))).1

/-! ## non-vacuity -/

/-- a 9x9 "symbol": the finder pattern, its separator and a dark bottom row -/
def toy : Nat → Nat → Bool := fun i j =>
  (decide (i < 7 ∧ j < 7) && !(decide (1 ≤ i ∧ i ≤ 5 ∧ 1 ≤ j ∧ j ≤ 5) && !decide (2 ≤ i ∧ i ≤ 4 ∧ 2 ≤ j ∧ j ≤ 4))) || (j == 8 && i != 8)

example : QRFinderFacts 9 toy := by
  refine ⟨by decide, ?_, ⟨7, by decide, by decide, by decide⟩⟩
  intro i hi
  have : i = 0 ∨ i = 1 ∨ i = 2 ∨ i = 3 ∨ i = 4 ∨ i = 5 ∨ i = 6 ∨ i = 7 := by omega
  rcases this with rfl | rfl | rfl | rfl | rfl | rfl | rfl | rfl <;> decide

/-- margin 1, request 36x40: pitch 3, pads 4 and 6; the bottom-right module is light (the "special case" branch) -/
example : (renderQR 9 9 toy 1 36 40).toOption.map
      (fun img => (QR.extractPureBits toyOps (bitImage img).rdStrict (bitImage img)).toOption.map (fun b => (b.w, b.h, b.rows == matrixRows 9 9 toy))) =
    some (some (9, 9, true)) := by decide +kernel

/-- the float hypothesis is needed: an interpretation whose division is off by one module reads another matrix -/
def badOps : FOps Int := { toyOps with div := fun a b => Int.tdiv a b + 1 }
example : (renderQR 9 9 toy 1 36 40).toOption.map
      (fun img => (QR.extractPureBits badOps (bitImage img).rdGo (bitImage img)).toOption.map (fun b => (b.w, b.h))) ≠
    some (some (9, 9)) := by decide +kernel

end Gzx.Properties.C01Image
