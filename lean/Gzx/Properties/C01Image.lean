/-
  C01 — QR, clause "… or the rendered image read in pure-barcode mode, returns exactly that text"
  (work package imgpath2d).  Property theorems only; proofs in Gzx/Proofs/Image2D.lean (corner scans, read-off),
  Gzx/Proofs/Image2DQR.lean (diagonal walk of moduleSize, float path) and Gzx/Proofs/Image2DBin.lean (binarisers, C17).

    text → encoder (reference symbol qr_roundtrip_bits / mirror of Encoder_encode mirror_symbol_roundtrip)
         → renderResult(code, width, height, quietZone)                                  C14 renderQR_*
         → BitMatrix as image.Image → NewLuminanceSourceFromImage → HybridBinarizer.GetBlackMatrix     C17
         → QRCodeReader.Decode(PURE_BARCODE): extractPureBits (float64 moduleSize) → Decoder.Decode

  float64 is a parameter (`FOps`); what is needed of it is `QRFloatExact o s n` for the pitch `s` the renderer chose
  and the symbol dimension `n` (three equations, Proofs/Image2DQR.lean), which holds of every interpretation that is
  exact on integers (`ExactOps`; IEEE binary64 is, below 2^53 — correspondence `img2d qrfloat`).
  Image-size conditions imposed by the binarisers: from 40x40 pixels the local method is used — exact on a pure
  black/white picture; below 40 pixels on an axis the global histogram method is used — exact iff one of the pixels it
  samples is white (Proofs/Image2DGlobal.lean), NotFound otherwise (handed through unchanged by the QR reader).  For a
  REFERENCE symbol neither is a condition of the theorems: every rendering below 40 pixels has pitch 1 and a sampled
  pixel in the padding or on a light function module (`qr_render_big_or_white`, 1 300 bounded cases decided in the
  kernel); for an arbitrary module matrix with the finder facts the conditions stay (`qr_image_path_eq_matrix_path`).
-/
import Gzx.Proofs.Image2DQR
import Gzx.Proofs.Image2DBin
import Gzx.Proofs.Image2DGlobal
import Gzx.Properties.C14
import Gzx.Properties.C01Mirror
import Gzx.Properties.C01Multi
import Gzx.Properties.C05
import Gzx.Properties.C06PureRead
namespace Gzx.Properties.C01Image
open Gzx Gzx.Det Gzx.Det.Pure Gzx.Render Gzx.Image2D Gzx.ImagePath
open Gzx.Properties.C14 (qrScale renderQR_pixel renderQR_quiet renderQR_eq)
open Gzx.Properties.C06PureRead (toQR)
open Gzx.Properties.C06Det (toyOps)

/-! ## 1. `extractPureBits` on a rendered symbol is the module matrix -/

/-- the QR rendering of `m` shows `m` (C14): pitch `qrScale`, pads ≥ margin·pitch -/
theorem renderQR_shows (mw mh : Nat) (m : Nat → Nat → Bool) (q reqW reqH : Int) (hq : 0 ≤ q) (hw : 1 ≤ mw) (hh : 1 ≤ mh) :
    ∃ img, renderQR mw mh m q reqW reqH = .ok img ∧
      img.w = outSize reqW mw (2 * q) ∧ img.h = outSize reqH mh (2 * q) ∧
      ∀ bm : Img, SameAsImage bm img →
        Shows bm mw mh m (qrScale mw mh q reqW reqH) (padOf img.w mw (qrScale mw mh q reqW reqH))
          (padOf img.h mh (qrScale mw mh q reqW reqH)) := by
  have heq := renderQR_eq mw mh m q reqW reqH hq hw hh
  obtain ⟨img, himg, hpx⟩ := renderQR_pixel mw mh m q reqW reqH hq hw hh
  obtain ⟨hs1, -, -, -, qx1, qx2, qy1, qy2, -⟩ := renderQR_quiet mw mh q reqW reqH hq hw hh
  have hqs : 0 ≤ q * qrScale mw mh q reqW reqH := Int.mul_nonneg hq (by omega)
  rw [heq] at himg
  cases himg
  refine ⟨_, heq, rfl, rfl, ?_⟩
  intro bm ⟨bw, bh, bpx⟩
  dsimp only at hpx bw bh bpx qx1 qx2 qy1 qy2 ⊢
  exact {
    s_pos := hs1, padX_nonneg := by omega, padY_nonneg := by omega
    fitX := by rw [bw]; omega
    fitY := by rw [bh]; omega
    pix := by
      intro x y hin
      rw [bpx x y hin]
      exact hpx x y }

/-- **`qr_extractPureBits_rendered`** — for the C14 rendering (`renderResult`: any requested width and height, any
    margin ≥ 0, hence any pitch s ≥ 1, any quiet zone and leftover padding) of ANY `n x n` module matrix with the QR
    finder structure the code uses (`QRFinderFacts`: diagonal of the top-left finder and separator, a dark module in
    the last row right of column 0), `QRCodeReader.extractPureBits` returns exactly the module matrix — for every
    interpretation of float64 that is accurate at this pitch and dimension (`QRFloatExact`), with the guarded and with
    an unguarded `Get`. -/
theorem qr_extractPureBits_rendered {F : Type} (o : FOps F) (n : Nat) (m : Nat → Nat → Bool) (q reqW reqH : Int)
    (hq : 0 ≤ q) (hm : QRFinderFacts n m) (ho : QRFloatExact o (qrScale n n q reqW reqH) n) :
    ∃ img, renderQR n n m q reqW reqH = .ok img ∧
      QR.extractPureBits o (bitImage img).rdGo (bitImage img) = .ok { w := n, h := n, rows := matrixRows n n m } ∧
      QR.extractPureBits o (bitImage img).rdStrict (bitImage img) = .ok { w := n, h := n, rows := matrixRows n n m } := by
  have hn := hm.size
  obtain ⟨img, himg, _, _, hshow⟩ := renderQR_shows n n m q reqW reqH hq (by omega) (by omega)
  have hs := hshow (bitImage img) ⟨rfl, rfl, fun _ _ _ => rfl⟩
  exact ⟨img, himg, qr_extract_shows o hs (reads_rdGo _) hm ho, qr_extract_shows o hs (reads_rdStrict _) hm ho⟩

/-- the accuracy hypothesis is dischargeable: every interpretation exact on integers has it at every pitch and
    dimension — e.g. the integer toy interpretation -/
theorem toy_exact : ExactOps toyOps := by
  refine ⟨?_, ?_, ?_, ?_, ?_⟩
  · intro a b hb; exact Int.mul_tdiv_cancel a (by omega)
  · intro a b; rfl
  · intro a; rfl
  · intro a ha
    show (if decide (a < 0) = true then a - Int.tdiv 1 2 else a + Int.tdiv 1 2) = a
    have : ¬ a < 0 := by omega
    simp [this]
  · intro a ha
    exact Int.tdiv_eq_ediv_of_nonneg ha

theorem qr_extractPureBits_rendered_exact {F : Type} (o : FOps F) (he : ExactOps o) (n : Nat) (m : Nat → Nat → Bool)
    (q reqW reqH : Int) (hq : 0 ≤ q) (hm : QRFinderFacts n m) :
    ∃ img, renderQR n n m q reqW reqH = .ok img ∧
      QR.extractPureBits o (bitImage img).rdGo (bitImage img) = .ok { w := n, h := n, rows := matrixRows n n m } := by
  have hn := hm.size
  obtain ⟨hs1, -⟩ := renderQR_quiet n n q reqW reqH hq (by omega) (by omega)
  obtain ⟨img, h1, h2, _⟩ := qr_extractPureBits_rendered o n m q reqW reqH hq hm (he.qrFloatExact _ n hs1 (by omega))
  exact ⟨img, h1, h2⟩

/-- through image → luminance → binariser: the bitmap yields a black matrix from 40x40 pixels up (local method)
    and, below, whenever one of the pixels the global method samples is white (`WhiteSample`) -/
theorem qr_extractPureBits_binarised {F : Type} (o : FOps F) (n : Nat) (m : Nat → Nat → Bool) (q reqW reqH : Int)
    (hq : 0 ≤ q) (hm : QRFinderFacts n m) (ho : QRFloatExact o (qrScale n n q reqW reqH) n) :
    ∃ img, renderQR n n m q reqW reqH = .ok img ∧
      img.w = outSize reqW n (2 * q) ∧ img.h = outSize reqH n (2 * q) ∧
      (blackMatrix img = .error .notFound ∨
        ∃ bm, blackMatrix img = .ok bm ∧
          QR.extractPureBits o bm.rdGo bm = .ok { w := n, h := n, rows := matrixRows n n m }) ∧
      (40 ≤ img.w ∧ 40 ≤ img.h ∨ WhiteSample img → ∃ bm, blackMatrix img = .ok bm ∧
          QR.extractPureBits o bm.rdGo bm = .ok { w := n, h := n, rows := matrixRows n n m }) := by
  have hn := hm.size
  obtain ⟨img, himg, ew, eh, hshow⟩ := renderQR_shows n n m q reqW reqH hq (by omega) (by omega)
  have hW : 1 ≤ img.w := by rw [ew]; unfold outSize; omega
  have hH : 1 ≤ img.h := by rw [eh]; unfold outSize; omega
  have ext : ∀ bm, SameAsImage bm img →
      QR.extractPureBits o bm.rdGo bm = .ok { w := n, h := n, rows := matrixRows n n m } := fun bm hbm =>
    qr_extract_shows o (hshow bm hbm) (reads_rdGo _) hm ho
  refine ⟨img, himg, ew, eh, ?_, ?_⟩
  · rcases blackMatrix_any img hW hH with h | ⟨bm, hb, hs⟩
    · exact Or.inl h
    · exact Or.inr ⟨bm, hb, ext bm hs⟩
  · rintro (⟨h40w, h40h⟩ | hwhite)
    · obtain ⟨bm, hb, hs⟩ := blackMatrix_local img h40w h40h
      exact ⟨bm, hb, ext bm hs⟩
    · obtain ⟨bm, hb, hs⟩ := blackMatrix_white img hW hH hwhite
      exact ⟨bm, hb, ext bm hs⟩

/-! ## 2. the composed image round trip -/

/-- module (column `i`, row `j`) of the reference symbol (C07) -/
def refModule (v : Nat) (ec : QRRef.EC) (mask : Nat) (cw : List Nat) : Nat → Nat → Bool :=
  fun i j => QRRef.moduleAt v ec mask cw i j

theorem refModule_rows (v : Nat) (ec : QRRef.EC) (mask : Nat) (cw : List Nat) :
    matrixRows (QRRef.dimension v) (QRRef.dimension v) (refModule v ec mask cw) = QRRef.refMatrix v ec mask cw := by
  rw [QRRef.refMatrix_eq_spec]; rfl

theorem regionOf_topLeft (v x y : Nat) (hx : x < 7) (hy : y < 7) : QRRef.regionOf v x y = .finder := by
  unfold QRRef.regionOf
  simp [hx, hy]

theorem regionOf_bottomLeft (v x y : Nat) (hx : x < 7) (hy : y + 7 ≥ QRRef.dimension v) : QRRef.regionOf v x y = .finder := by
  unfold QRRef.regionOf
  simp [hx, hy]

theorem regionOf_77 (v : Nat) : QRRef.regionOf v 7 7 = .separator := by
  unfold QRRef.regionOf QRRef.dimension
  have : ¬ (7 + 7 ≥ 17 + 4 * v) := by omega
  simp [this]

/-- every reference symbol has the finder facts the pure-barcode code uses -/
theorem refModule_finder (v : Nat) (ec : QRRef.EC) (mask : Nat) (cw : List Nat) :
    QRFinderFacts (QRRef.dimension v) (refModule v ec mask cw) := by
  refine ⟨by unfold QRRef.dimension; omega, ?_, ⟨6, by omega, by unfold QRRef.dimension; omega, ?_⟩⟩
  · intro i hi
    by_cases h7 : i = 7
    · subst h7
      simp [refModule, QRRef.moduleAt, QRRef.isFunction, QRRef.functionModule, regionOf_77, finderDiag]
    · have hr := regionOf_topLeft v i i (by omega) (by omega)
      have : i = 0 ∨ i = 1 ∨ i = 2 ∨ i = 3 ∨ i = 4 ∨ i = 5 ∨ i = 6 := by omega
      simp only [refModule, QRRef.moduleAt, QRRef.isFunction, QRRef.functionModule, hr]
      rcases this with rfl | rfl | rfl | rfl | rfl | rfl | rfl <;> simp [QRRef.finderDark, finderDiag]
  · have hr := regionOf_bottomLeft v 6 (QRRef.dimension v - 1) (by omega) (by unfold QRRef.dimension; omega)
    simp only [refModule, QRRef.moduleAt, QRRef.isFunction, QRRef.functionModule, hr]
    have hd : QRRef.dimension v - 1 + 7 - QRRef.dimension v = 6 := by unfold QRRef.dimension; omega
    have hl : ¬ (QRRef.dimension v - 1 < 7) := by unfold QRRef.dimension; omega
    simp [QRRef.finderDark, hd, hl]

/-! ### every rendered QR symbol below 40 pixels has a white pixel among the sampled ones -/

/-- a module that is light in EVERY symbol of version `v` (whatever level, mask and codewords): light ring of a
    finder, separator, light timing module, light ring of an alignment pattern -/
def fixedWhite (v i j : Nat) : Bool :=
  match QRRef.regionOf v i j with
  | .finder => !QRRef.finderDark v i j
  | .separator => true
  | .timing => (i + j) % 2 != 0
  | .alignment => !QRRef.alignmentDark v i j
  | _ => false

theorem fixedWhite_moduleAt (v : Nat) (ec : QRRef.EC) (mask : Nat) (cw : List Nat) (i j : Nat)
    (h : fixedWhite v i j = true) : QRRef.moduleAt v ec mask cw i j = false := by
  unfold fixedWhite at h
  unfold QRRef.moduleAt QRRef.isFunction QRRef.functionModule
  cases hr : QRRef.regionOf v i j <;> rw [hr] at h <;> simp_all

/-- the picture `W x H` of a version-`v` symbol at pitch 1, centred: one of the pixels the global method samples lies
    outside the symbol or on a module that is light in every symbol -/
def smallOK (v W H : Nat) : Bool :=
  let n := QRRef.dimension v
  let padX := (W - n) / 2
  let padY := (H - n) / 2
  (List.range 4).any fun k' =>
    let y := H * (k' + 1) / 5
    (List.range (W * 4 / 5 - W / 5)).any fun dx =>
      let x := W / 5 + dx
      decide (x < padX) || decide (x ≥ padX + n) || decide (y < padY) || decide (y ≥ padY + n) ||
        fixedWhite v (x - padX) (y - padY)

/-- the bounded cases: an axis below 40 pixels, and on neither axis does the first sampled line fall into the padding -/
def smallCase (v W H : Nat) : Bool :=
  let n := QRRef.dimension v
  decide (n ≤ W) && decide (n ≤ H) && (decide (W < 40) || decide (H < 40)) &&
  !decide (W / 5 < (W - n) / 2) && !decide (H / 5 < (H - n) / 2)

def allSmallOK : Bool :=
  [1, 2, 3, 4, 5].all fun v => (List.range 71).all fun W => (List.range 71).all fun H =>
    !smallCase v W H || smallOK v W H

set_option maxRecDepth 100000 in
/-- all 1 300-odd bounded cases (versions 1..5, both axes up to 70 pixels), decided by the kernel -/
theorem allSmallOK_true : allSmallOK = true := by decide +kernel

/-- **every rendering of a reference symbol is at least 40x40 pixels or has a white pixel among those the global
    histogram method samples** — whatever the level, mask, codewords, margin ≥ 0 and requested size: below 40 pixels
    the pitch is 1; then either the first sampled row / column lies in the padding, or the picture is one of the
    bounded cases above, in which a light function module (finder ring, separator, timing, alignment ring) is sampled. -/
theorem qr_render_big_or_white (v : Nat) (h1 : 1 ≤ v) (ec : QRRef.EC) (mask : Nat) (cw : List Nat)
    (q reqW reqH : Int) (hq : 0 ≤ q) :
    ∀ img, renderQR (QRRef.dimension v) (QRRef.dimension v) (refModule v ec mask cw) q reqW reqH = .ok img →
      (40 ≤ img.w ∧ 40 ≤ img.h) ∨ WhiteSample img := by
  intro img0 himg0
  have hn : QRRef.dimension v = 17 + 4 * v := rfl
  obtain ⟨img, himg, ew, eh, hshow⟩ := renderQR_shows (QRRef.dimension v) (QRRef.dimension v) (refModule v ec mask cw)
    q reqW reqH hq (by omega) (by omega)
  have himgeq : img = img0 := by rw [himg] at himg0; exact Except.ok.inj himg0
  subst himgeq
  by_cases hbig : 40 ≤ img.w ∧ 40 ≤ img.h
  · exact Or.inl hbig
  · right
    have hs := hshow (bitImage img) ⟨rfl, rfl, fun _ _ _ => rfl⟩
    obtain ⟨hs1, fw, fh, -⟩ := renderQR_quiet (QRRef.dimension v) (QRRef.dimension v) q reqW reqH hq (by omega) (by omega)
    rw [← ew] at fw; rw [← eh] at fh
    generalize hsd : qrScale (QRRef.dimension v) (QRRef.dimension v) q reqW reqH = s at hs hs1 fw fh
    -- below 40 pixels the pitch is 1
    have hse : s = 1 := by
      by_cases h2 : 2 ≤ s
      · exfalso
        have e : 2 * ((QRRef.dimension v : Int) + 2 * q) ≤ s * ((QRRef.dimension v : Int) + 2 * q) :=
          Int.mul_le_mul_of_nonneg_right h2 (by omega)
        omega
      · omega
    subst hse
    simp only [Int.one_mul] at fw fh
    have hpX : padOf img.w (QRRef.dimension v) 1 = (img.w - (QRRef.dimension v : Int)) / 2 := by unfold padOf; simp
    have hpY : padOf img.h (QRRef.dimension v) 1 = (img.h - (QRRef.dimension v : Int)) / 2 := by unfold padOf; simp
    rw [hpX, hpY] at hs
    -- natural-number views
    generalize hWn : img.w.toNat = Wn
    generalize hHn : img.h.toNat = Hn
    have eW : img.w = (Wn : Int) := by omega
    have eH : img.h = (Hn : Int) := by omega
    have hpix : ∀ (x y : Nat), x < Wn → y < Hn →
        (x < (Wn - QRRef.dimension v) / 2 ∨ x ≥ (Wn - QRRef.dimension v) / 2 + QRRef.dimension v ∨
          y < (Hn - QRRef.dimension v) / 2 ∨ y ≥ (Hn - QRRef.dimension v) / 2 + QRRef.dimension v ∨
          fixedWhite v (x - (Wn - QRRef.dimension v) / 2) (y - (Hn - QRRef.dimension v) / 2) = true) →
        img.px (x : Int) (y : Int) = false := by
      intro x y hx hy hc
      cases hp : img.px (x : Int) (y : Int) with
      | false => rfl
      | true =>
        exfalso
        have hin : (bitImage img).inside (x : Int) (y : Int) := by
          simp only [Img.inside, bitImage]; omega
        obtain ⟨p1, p2, p3, p4, p5⟩ := (hs.pix _ _ hin).1 hp
        simp only [Int.mul_one, Int.ediv_one] at p2 p4 p5
        rcases hc with c | c | c | c | c
        · omega
        · omega
        · omega
        · omega
        · have e1 : ((x : Int) - (img.w - (QRRef.dimension v : Int)) / 2).toNat = x - (Wn - QRRef.dimension v) / 2 := by omega
          have e2 : ((y : Int) - (img.h - (QRRef.dimension v : Int)) / 2).toNat = y - (Hn - QRRef.dimension v) / 2 := by omega
          rw [e1, e2] at p5
          have := fixedWhite_moduleAt v ec mask cw _ _ c
          unfold refModule at p5
          rw [this] at p5
          cases p5
    unfold WhiteSample
    rw [hWn, hHn]
    by_cases hA : Wn / 5 < (Wn - QRRef.dimension v) / 2
    · exact ⟨1, Wn / 5, by simp, Nat.le_refl _, by omega, hpix _ _ (by omega) (by omega) (Or.inl hA)⟩
    · by_cases hB : Hn / 5 < (Hn - QRRef.dimension v) / 2
      · exact ⟨1, Wn / 5, by simp, Nat.le_refl _, by omega,
          hpix _ _ (by omega) (by omega) (Or.inr (Or.inr (Or.inl (by omega))))⟩
      · -- the bounded cases
        have hv : v ∈ [1, 2, 3, 4, 5] := by
          have : v = 1 ∨ v = 2 ∨ v = 3 ∨ v = 4 ∨ v = 5 := by omega
          rcases this with rfl | rfl | rfl | rfl | rfl <;> simp
        have hall := allSmallOK_true
        unfold allSmallOK at hall
        have h1' := List.all_eq_true.mp hall v hv
        have h2' := List.all_eq_true.mp h1' Wn (List.mem_range.mpr (by omega))
        have h3' := List.all_eq_true.mp h2' Hn (List.mem_range.mpr (by omega))
        have hcase : smallCase v Wn Hn = true := by
          unfold smallCase
          simp only [Bool.and_eq_true, Bool.or_eq_true, decide_eq_true_eq, Bool.not_eq_true', decide_eq_false_iff_not]
          exact ⟨⟨⟨⟨by omega, by omega⟩, by omega⟩, hA⟩, hB⟩
        rw [hcase] at h3'
        simp only [Bool.not_true, Bool.false_or] at h3'
        unfold smallOK at h3'
        simp only [List.any_eq_true, List.mem_range, Bool.or_eq_true, decide_eq_true_eq] at h3'
        obtain ⟨k', hk', dx, hdx, hc⟩ := h3'
        have hyH : Hn * (k' + 1) / 5 < Hn := by
          have : Hn * (k' + 1) ≤ Hn * 4 := Nat.mul_le_mul_left Hn (by omega)
          omega
        refine ⟨k' + 1, Wn / 5 + dx, ?_, by omega, by omega, hpix _ _ (by omega) hyH ?_⟩
        · have : k' = 0 ∨ k' = 1 ∨ k' = 2 ∨ k' = 3 := by omega
          rcases this with rfl | rfl | rfl | rfl <;> simp
        · rcases hc with (((c | c) | c) | c) | c
          · exact Or.inl c
          · exact Or.inr (Or.inl c)
          · exact Or.inr (Or.inr (Or.inl c))
          · exact Or.inr (Or.inr (Or.inr (Or.inl c)))
          · exact Or.inr (Or.inr (Or.inr (Or.inr c)))

/-- the matrix read off, handed to the decoder model, is the reference symbol -/
theorem toQR_ref (v : Nat) (ec : QRRef.EC) (mask : Nat) (cw : List Nat) :
    toQR { w := QRRef.dimension v, h := QRRef.dimension v,
           rows := matrixRows (QRRef.dimension v) (QRRef.dimension v) (refModule v ec mask cw) } =
      QRComp.matrixOf (QRRef.refMatrix v ec mask cw) := by
  rw [refModule_rows]
  unfold toQR QRComp.matrixOf
  simp only [Int.toNat_natCast]
  congr 1
  · rw [QRComp.refMatrix_length]; rfl
  · funext x y
    unfold QRRef.matrixAt
    simp only [List.getD_eq_getElem?_getD]
    cases (QRRef.refMatrix v ec mask cw)[y]? <;> simp

/-- the model of `QRCodeReader.Decode(bitmap, {PURE_BARCODE, …})` after the renderer, with the C01 matrix decoder -/
def qrImageDecode {F : Type} (o : FOps F) (T : QRDec.Tables) (hint : ECI.Hint) (v : Nat) (ec : QRRef.EC) (mask : Nat)
    (cw : List Nat) (q reqW reqH : Int) : Except ReadFault QRDec.Decoded :=
  qrImagePath o (QRRef.dimension v) (QRRef.dimension v) (refModule v ec mask cw) q reqW reqH
    (fun b => QRDec.decode T QRComp.rsQR hint (toQR b))

/-- **the pure-barcode image path IS the matrix path** — for ANY `n x n` module matrix with the finder facts (a
    symbol of any encoder, also a damaged one), any margin ≥ 0 and requested size, any matrix decoder `decode`:
    rendering it, handing the BitMatrix over as an image, binarising and reading it with PURE_BARCODE gives exactly
    what `decode` gives on the module matrix itself (result or fault) — whenever the image is at least 40x40 pixels
    or one of the pixels the global method samples is white; in every case that, or the binariser's NotFound. -/
theorem qr_image_path_eq_matrix_path {F α : Type} (o : FOps F) (n : Nat) (m : Nat → Nat → Bool) (q reqW reqH : Int)
    (hq : 0 ≤ q) (hm : QRFinderFacts n m) (ho : QRFloatExact o (qrScale n n q reqW reqH) n) (decode : Bits → Res α) :
    ∃ img, renderQR n n m q reqW reqH = .ok img ∧
      img.w = outSize reqW n (2 * q) ∧ img.h = outSize reqH n (2 * q) ∧
      (40 ≤ img.w ∧ 40 ≤ img.h ∨ WhiteSample img →
        qrImagePath o n n m q reqW reqH decode = liftRes (decode { w := n, h := n, rows := matrixRows n n m })) ∧
      (qrImagePath o n n m q reqW reqH decode = liftRes (decode { w := n, h := n, rows := matrixRows n n m }) ∨
        qrImagePath o n n m q reqW reqH decode = .error (.other .notFound)) := by
  obtain ⟨img, himg, ew, eh, hany, hbig⟩ := qr_extractPureBits_binarised o n m q reqW reqH hq hm ho
  have ok_of : ∀ bm, blackMatrix img = .ok bm →
      QR.extractPureBits o bm.rdGo bm = .ok { w := n, h := n, rows := matrixRows n n m } →
      qrImagePath o n n m q reqW reqH decode = liftRes (decode { w := n, h := n, rows := matrixRows n n m }) := by
    intro bm hbm hex
    unfold qrImagePath
    rw [himg]
    simp only [qrRead, hbm, hex]
    cases decode { w := n, h := n, rows := matrixRows n n m } <;> rfl
  refine ⟨img, himg, ew, eh, ?_, ?_⟩
  · intro hc
    obtain ⟨bm, hbm, hex⟩ := hbig hc
    exact ok_of bm hbm hex
  · rcases hany with hnf | ⟨bm, hbm, hex⟩
    · right
      unfold qrImagePath
      rw [himg]
      simp only [qrRead, hnf]
    · left; exact ok_of bm hbm hex

/-- … and the condition is exact: below 40 pixels on an axis and with NO white pixel among the sampled ones the image is
    refused (the binariser's NotFound, handed through) — whatever the module matrix -/
theorem qr_image_path_refused {F α : Type} (o : FOps F) (mw mh : Nat) (m : Nat → Nat → Bool) (q reqW reqH : Int)
    (hq : 0 ≤ q) (hw : 1 ≤ mw) (hh : 1 ≤ mh) (decode : Bits → Res α) :
    ∀ img, renderQR mw mh m q reqW reqH = .ok img → (img.w < 40 ∨ img.h < 40) → ¬ WhiteSample img →
      qrImagePath o mw mh m q reqW reqH decode = .error (.other .notFound) := by
  intro img himg hsmall hno
  obtain ⟨img', himg', ew, eh, _⟩ := renderQR_shows mw mh m q reqW reqH hq hw hh
  rw [himg] at himg'; cases himg'
  have hnf := blackMatrix_no_white img (by rw [ew]; unfold outSize; omega) (by rw [eh]; unfold outSize; omega) hsmall hno
  unfold qrImagePath
  rw [himg]
  simp only [qrRead, hnf]

/-- whatever a matrix-level theorem says about `Decoder.Decode` on the symbol that carries the final codeword
    sequence `cw` (function patterns, format / version information and placement of the reference; the codewords may
    be damaged) holds of the image path of that symbol -/
theorem qr_image_of_matrix_result_cw {F : Type} (o : FOps F) (T : QRDec.Tables) (hint : ECI.Hint)
    (v : Nat) (ec : QRRef.EC) (mask : Nat) (cw : List Nat) (want : QRDec.Decoded)
    (hsym : QRDec.decode T QRComp.rsQR hint (QRComp.matrixOf (QRRef.refMatrix v ec mask cw)) = .ok want)
    (q reqW reqH : Int) (hq : 0 ≤ q)
    (ho : QRFloatExact o (qrScale (QRRef.dimension v) (QRRef.dimension v) q reqW reqH) (QRRef.dimension v)) :
    let n := QRRef.dimension v
    (40 ≤ outSize reqW n (2 * q) → 40 ≤ outSize reqH n (2 * q) →
      qrImageDecode o T hint v ec mask cw q reqW reqH = .ok want) ∧
    ((∀ img, renderQR n n (refModule v ec mask cw) q reqW reqH = .ok img → WhiteSample img) →
      qrImageDecode o T hint v ec mask cw q reqW reqH = .ok want) ∧
    (qrImageDecode o T hint v ec mask cw q reqW reqH = .ok want ∨
      qrImageDecode o T hint v ec mask cw q reqW reqH = .error (.other .notFound)) := by
  intro n
  obtain ⟨img, himg, ew, eh, hbig, hany⟩ := qr_image_path_eq_matrix_path o n (refModule v ec mask cw) q reqW reqH hq
    (refModule_finder v ec mask cw) ho (fun b => QRDec.decode T QRComp.rsQR hint (toQR b))
  have hdec : QRDec.decode T QRComp.rsQR hint
      (toQR { w := n, h := n, rows := matrixRows n n (refModule v ec mask cw) }) = .ok want := by
    rw [show (toQR { w := n, h := n, rows := matrixRows n n (refModule v ec mask cw) }) =
      QRComp.matrixOf (QRRef.refMatrix v ec mask cw) from toQR_ref v ec mask cw]
    exact hsym
  simp only [hdec, liftRes] at hbig hany
  refine ⟨?_, ?_, hany⟩
  · intro a b
    exact hbig (Or.inl ⟨by rw [ew]; exact a, by rw [eh]; exact b⟩)
  · intro hwhite
    exact hbig (Or.inr (hwhite img himg))

/-- … and, for versions 1..40, WITHOUT any condition on the image size: every rendering is at least 40x40 pixels or
    has a white pixel among the sampled ones (`qr_render_big_or_white`) -/
theorem qr_image_of_matrix_result_full {F : Type} (o : FOps F) (T : QRDec.Tables) (hint : ECI.Hint)
    (v : Nat) (h1 : 1 ≤ v) (ec : QRRef.EC) (mask : Nat) (cw : List Nat) (want : QRDec.Decoded)
    (hsym : QRDec.decode T QRComp.rsQR hint (QRComp.matrixOf (QRRef.refMatrix v ec mask cw)) = .ok want)
    (q reqW reqH : Int) (hq : 0 ≤ q)
    (ho : QRFloatExact o (qrScale (QRRef.dimension v) (QRRef.dimension v) q reqW reqH) (QRRef.dimension v)) :
    qrImageDecode o T hint v ec mask cw q reqW reqH = .ok want := by
  obtain ⟨hbig, hwhite, -⟩ := qr_image_of_matrix_result_cw o T hint v ec mask cw want hsym q reqW reqH hq ho
  obtain ⟨img, himg, ew, eh, -⟩ := renderQR_shows (QRRef.dimension v) (QRRef.dimension v) (refModule v ec mask cw)
    q reqW reqH hq (by unfold QRRef.dimension; omega) (by unfold QRRef.dimension; omega)
  rcases qr_render_big_or_white v h1 ec mask cw q reqW reqH hq img himg with ⟨b1, b2⟩ | hw
  · exact hbig (by rw [← ew]; exact b1) (by rw [← eh]; exact b2)
  · refine hwhite ?_
    intro img' himg'
    rw [himg] at himg'
    cases himg'
    exact hw

/-- … in particular of the reference symbol of a payload (`qr_roundtrip_bits`, `qr_roundtrip_items`,
    `qr_roundtrip_segments`) -/
theorem qr_image_of_matrix_result {F : Type} (o : FOps F) (T : QRDec.Tables) (hint : ECI.Hint)
    (v : Nat) (h1 : 1 ≤ v) (ec : QRRef.EC) (mask : Nat) (bits : List Bool) (want : QRDec.Decoded)
    (hsym : QRDec.decode T QRComp.rsQR hint (C01.refSymbol v ec mask bits) = .ok want)
    (q reqW reqH : Int) (hq : 0 ≤ q)
    (ho : QRFloatExact o (qrScale (QRRef.dimension v) (QRRef.dimension v) q reqW reqH) (QRRef.dimension v)) :
    qrImageDecode o T hint v ec mask
      (QRRef.finalCodewords v ec (QRRef.terminate (QRRef.dataCodewords v ec) bits)) q reqW reqH = .ok want := by
  unfold C01.refSymbol at hsym
  exact qr_image_of_matrix_result_full o T hint v h1 ec mask _ want hsym q reqW reqH hq ho

/-- **the image of a DAMAGED symbol** (C05 at image level): the codeword modules carry the interleaving of received
    blocks in which at most ⌊ecPerBlock/2⌋ codewords of every Reed-Solomon block differ from what was written
    (`QRComp.Received`); its rendering at ANY size and margin ≥ 0, read in pure-barcode mode, gives exactly what the
    undamaged symbol gives.  Function patterns are those of the reference: damage to the finder diagonal is outside
    this statement. -/
theorem qr_image_tolerates_block_errors {F : Type} (o : FOps F) (T : QRDec.Tables) (hT : QRComp.TablesConform T)
    (hint : ECI.Hint) (v : Nat) (h1 : 1 ≤ v) (h40 : v ≤ 40) (ec : QRRef.EC) (mask : Nat) (hm : mask < 8)
    (bits : List Bool) (hfit : bits.length ≤ 8 * QRRef.dataCodewords v ec) (parsed : QRDec.Parsed)
    (hparse : ∀ tail, QRDec.Terminated tail → QRDec.parseStream T.eci (bits ++ tail) v hint = .ok parsed)
    (recv : List (List Nat × List Nat))
    (hrecv : QRComp.Received v ec (QRRef.terminate (QRRef.dataCodewords v ec) bits) recv)
    (q reqW reqH : Int) (hq : 0 ≤ q)
    (ho : QRFloatExact o (qrScale (QRRef.dimension v) (QRRef.dimension v) q reqW reqH) (QRRef.dimension v)) :
    qrImageDecode o T hint v ec mask (QRDec.interleave recv) q reqW reqH =
      .ok ⟨parsed, QRComp.toDecEC ec, v, QRRef.terminate (QRRef.dataCodewords v ec) bits, false⟩ :=
  qr_image_of_matrix_result_full o T hint v h1 ec mask _ _
    (C05.qr_tolerates_block_errors T hT hint v h1 h40 ec mask hm bits hfit parsed hparse recv hrecv) q reqW reqH hq ho

/-- **`qr_image_pure_roundtrip`** — payload bits (mode, count, data of ANY segment list that fits version `v` at level
    `ec`) → reference symbol (terminator, padding, RS parity, interleaving, placement, mask 0..7, function patterns) →
    `renderResult` with ANY requested width and height and ANY margin ≥ 0 → image → luminances → `HybridBinarizer` →
    `QRCodeReader.Decode(PURE_BARCODE)` (extractPureBits with float64 `o` → `Decoder.Decode` model with the C04
    Reed-Solomon decoder):
    returns what the bit-stream parser makes of the payload, the level, the version, the data codewords (first attempt,
    not mirrored) — FOR EVERY IMAGE SIZE: at 40x40 pixels and above by the local binariser, below by the global
    histogram method, which is exact because a pixel of the padding or of a light function module is among its samples
    (`qr_render_big_or_white`).
    Hypotheses beyond `qr_roundtrip_bits`: margin ≥ 0; float64 accurate at the pitch the renderer chose
    (`QRFloatExact`, implied by `ExactOps o`). -/
theorem qr_image_pure_roundtrip {F : Type} (o : FOps F) (T : QRDec.Tables) (hT : QRComp.TablesConform T) (hint : ECI.Hint)
    (v : Nat) (h1 : 1 ≤ v) (h40 : v ≤ 40) (ec : QRRef.EC) (mask : Nat) (hm : mask < 8) (bits : List Bool)
    (hfit : bits.length ≤ 8 * QRRef.dataCodewords v ec) (parsed : QRDec.Parsed)
    (hparse : ∀ tail, QRDec.Terminated tail → QRDec.parseStream T.eci (bits ++ tail) v hint = .ok parsed)
    (q reqW reqH : Int) (hq : 0 ≤ q)
    (ho : QRFloatExact o (qrScale (QRRef.dimension v) (QRRef.dimension v) q reqW reqH) (QRRef.dimension v)) :
    qrImageDecode o T hint v ec mask
      (QRRef.finalCodewords v ec (QRRef.terminate (QRRef.dataCodewords v ec) bits)) q reqW reqH =
      .ok ⟨parsed, QRComp.toDecEC ec, v, QRRef.terminate (QRRef.dataCodewords v ec) bits, false⟩ :=
  qr_image_of_matrix_result o T hint v h1 ec mask bits _
    (C01.qr_roundtrip_bits T hT hint v h1 h40 ec mask hm bits hfit parsed hparse) q reqW reqH hq ho

/-- **`qr_image_pure_roundtrip_items`** — content level: EVERY list of items in any order (numeric / alphanumeric /
    byte / Kanji / Hanzi segments, ECI designators, FNC1 indicators, structured-append headers; C01Multi
    `qr_roundtrip_items`) that fits (version, level), written as the reference symbol and rendered at any size and
    margin ≥ 0, is read back from the IMAGE in pure-barcode mode as the meaning of the list, the level, the version and
    the written data codewords -/
theorem qr_image_pure_roundtrip_items {F : Type} (o : FOps F) (T : QRDec.Tables) (hT : QRComp.TablesConform T)
    (hint : ECI.Hint) (v : Nat) (h1 : 1 ≤ v) (h40 : v ≤ 40) (ec : QRRef.EC) (mask : Nat) (hm : mask < 8)
    (items : List QRMulti.Item) (g : List Nat → ECI.Charset)
    (hc : ∀ it ∈ items, it.Content T.eci)
    (hg : ∀ bs ∈ QRMulti.guessed false items, ECI.guessCharset T.eci bs hint = .ok (g bs))
    (hfit : (QRMulti.bitsOf v items).length ≤ 8 * QRRef.dataCodewords v ec)
    (q reqW reqH : Int) (hq : 0 ≤ q)
    (ho : QRFloatExact o (qrScale (QRRef.dimension v) (QRRef.dimension v) q reqW reqH) (QRRef.dimension v)) :
    qrImageDecode o T hint v ec mask
      (QRRef.finalCodewords v ec (QRRef.terminate (QRRef.dataCodewords v ec) (QRMulti.bitsOf v items))) q reqW reqH =
      .ok ⟨QRMulti.toParsed (QRMulti.run T.eci g {} items), QRComp.toDecEC ec, v,
        QRRef.terminate (QRRef.dataCodewords v ec) (QRMulti.bitsOf v items), false⟩ :=
  qr_image_of_matrix_result o T hint v h1 ec mask (QRMulti.bitsOf v items) _
    (C01Multi.qr_roundtrip_items T hT hint v h1 h40 ec mask hm items g hc hg hfit) q reqW reqH hq ho

/-- the same for the symbol the MIRROR of the Go encoder builds (`Encoder_encode`'s back half: terminateBits,
    interleaveWithECBytes, chooseMaskPattern / forced mask, MatrixUtil_buildMatrix): it is the reference symbol
    (`backHalf_eq_ref`), so its rendered image reads back the same way.  `FuncOK v` is the per-version fact of
    C01Mirror (proved for v ≤ 10 there). -/
theorem qr_image_pure_roundtrip_mirror {F : Type} (o : FOps F) {K : QREnc.Kernels} (hK : QREnc.KernelsOK K)
    (T : QRDec.Tables) (hT : QRComp.TablesConform T) (hint : ECI.Hint)
    (v : Nat) (h1 : 1 ≤ v) (h40 : v ≤ 40) (hfn : QREnc.FuncOK v) (ec : QRRef.EC)
    (forced : Option Nat) (hforced : ∀ k, forced = some k → k < 8) (payload : List Bool)
    (hfit : payload.length ≤ 8 * QRRef.dataCodewords v ec) (parsed : QRDec.Parsed)
    (hparse : ∀ tail, QRDec.Terminated tail → QRDec.parseStream T.eci (payload ++ tail) v hint = .ok parsed)
    (q reqW reqH : Int) (hq : 0 ≤ q) (ho : ExactOps o) :
    ∃ (k : Nat) (M : QREnc.ByteMatrix), k < 8 ∧ QREnc.backHalf K v ec forced payload = .ok ((k : Int), M) ∧
      M.bytes.map (fun r => r.map (· == 1)) =
        matrixRows (QRRef.dimension v) (QRRef.dimension v) (refModule v ec k (QREnc.refCodewords v ec payload)) ∧
      qrImageDecode o T hint v ec k (QREnc.refCodewords v ec payload) q reqW reqH =
        .ok ⟨parsed, QRComp.toDecEC ec, v, QRRef.terminate (QRRef.dataCodewords v ec) payload, false⟩ := by
  have hbh := QREnc.backHalf_eq_ref hK v h1 h40 hfn ec forced hforced payload hfit
  have hmask : forced.getD (QRRef.chooseMask v ec (QREnc.refCodewords v ec payload)) < 8 := by
    cases hfo : forced with
    | some k => simpa using hforced k hfo
    | none =>
      simp only [Option.getD_none]
      rw [QREnc.chooseMask_eq_fold]
      have : ∀ (l : List Nat) (b : Nat × Nat), b.1 < 8 → (∀ k ∈ l, k < 8) →
          (l.foldl (QREnc.refStep (QREnc.refPenalty v ec (QREnc.refCodewords v ec payload))) b).1 < 8 := by
        intro l
        induction l with
        | nil => intro b hb _; exact hb
        | cons k ks ih =>
          intro b hb hl
          rw [List.foldl_cons]
          apply ih
          · unfold QREnc.refStep; split
            · exact hl k List.mem_cons_self
            · exact hb
          · intro k' hk'; exact hl k' (List.mem_cons_of_mem _ hk')
      exact this _ _ (by decide) (fun k hk => List.mem_range.mp hk)
  obtain ⟨hs1, -⟩ := renderQR_quiet (QRRef.dimension v) (QRRef.dimension v) q reqW reqH hq
    (by unfold QRRef.dimension; omega) (by unfold QRRef.dimension; omega)
  refine ⟨_, _, hmask, hbh, ?_, ?_⟩
  · rw [C07Mirror.refByteMatrix_modules, refModule_rows]
  · exact qr_image_pure_roundtrip o T hT hint v h1 h40 ec _ hmask payload hfit parsed hparse q reqW reqH hq
      (ho.qrFloatExact _ _ hs1 (by omega))

/-! ## non-vacuity -/

/-- a 9x9 "symbol": the finder pattern, its separator and a dark bottom row -/
def toy : Nat → Nat → Bool := fun i j =>
  (decide (i < 7 ∧ j < 7) && !(decide (1 ≤ i ∧ i ≤ 5 ∧ 1 ≤ j ∧ j ≤ 5) && !decide (2 ≤ i ∧ i ≤ 4 ∧ 2 ≤ j ∧ j ≤ 4))) || (j == 8 && i != 8)

example : QRFinderFacts 9 toy := by
  refine ⟨by decide, ?_, ⟨7, by decide, by decide, by decide⟩⟩
  intro i hi
  have : i = 0 ∨ i = 1 ∨ i = 2 ∨ i = 3 ∨ i = 4 ∨ i = 5 ∨ i = 6 ∨ i = 7 := by omega
  rcases this with rfl | rfl | rfl | rfl | rfl | rfl | rfl | rfl <;> decide

/-- margin 1, request 36x40: pitch 3, pads 4 and 6; the bottom-right module is light (the "special case" branch) -/
example : (renderQR 9 9 toy 1 36 40).toOption.map
      (fun img => (QR.extractPureBits toyOps (bitImage img).rdStrict (bitImage img)).toOption.map (fun b => (b.w, b.h, b.rows == matrixRows 9 9 toy))) =
    some (some (9, 9, true)) := by decide +kernel

/-- the float hypothesis is needed: an interpretation whose division is off by one module reads another matrix -/
def badOps : FOps Int := { toyOps with div := fun a b => Int.tdiv a b + 1 }
example : (renderQR 9 9 toy 1 36 40).toOption.map
      (fun img => (QR.extractPureBits badOps (bitImage img).rdGo (bitImage img)).toOption.map (fun b => (b.w, b.h))) ≠
    some (some (9, 9)) := by decide +kernel

end Gzx.Properties.C01Image
