/-
  C01 / work package `qrenc` — C01's round trip applies to the symbol the MIRROR of the Go encoder builds.

  `qr_roundtrip_bits` (Properties/C01.lean) is about `refSymbol v ec mask payload`, the reference symbol.
  `C07Mirror.mirror_encode_eq_ref` shows that the mirror of `Encoder_encode`'s back half (terminateBits,
  interleaveWithECBytes, chooseMaskPattern / forced mask, MatrixUtil_buildMatrix) builds exactly that symbol; so
  the decoder model reads back what the mirrored Go loops wrote.
-/
import Gzx.Properties.C01
import Gzx.Properties.C07Mirror
namespace Gzx.Properties.C01Mirror
open Gzx Gzx.QRDec Gzx.QRComp Gzx.QREnc Gzx.Properties.C01

/-- the modules of a ByteMatrix as the decoder's matrix (1 = dark) -/
def modulesOf (m : ByteMatrix) : Matrix := matrixOf (m.bytes.map (fun r => r.map (· == 1)))

/-- `mirror_symbol_roundtrip`: for every version 1..40, level, forced mask 0..7 or
    automatic choice, and every payload that fits: the matrix the mirror of the Go encoder builds decodes (decoder
    model with the C04 Reed-Solomon decoder, first attempt, not mirrored) to what the bit-stream parser makes of the
    payload, with the level, the version and exactly the data codewords that were written. -/
theorem mirror_symbol_roundtrip {K : Kernels} (hK : KernelsOK K) (T : Tables) (hT : TablesConform T) (hint : ECI.Hint)
    (v : Nat) (h1 : 1 ≤ v) (h40 : v ≤ 40) (ec : QRRef.EC)
    (forced : Option Nat) (hforced : ∀ k, forced = some k → k < 8) (payload : List Bool)
    (hfit : payload.length ≤ 8 * QRRef.dataCodewords v ec) (parsed : Parsed)
    (hparse : ∀ tail, Terminated tail → parseStream T.eci (payload ++ tail) v hint = .ok parsed) :
    ∃ mask M, backHalf K v ec forced payload = .ok (mask, M) ∧
      decode T rsQR hint (modulesOf M) =
        .ok ⟨parsed, toDecEC ec, v, QRRef.terminate (QRRef.dataCodewords v ec) payload, false⟩ := by
  refine ⟨_, _, backHalf_eq_ref hK v h1 h40 (funcOK_all v h1 h40) ec forced hforced payload hfit, ?_⟩
  unfold modulesOf
  rw [Gzx.Properties.C07Mirror.refByteMatrix_modules]
  have hm : forced.getD (QRRef.chooseMask v ec (refCodewords v ec payload)) < 8 := by
    cases hfo : forced with
    | some k => simpa using hforced k hfo
    | none =>
      simp only [Option.getD_none]
      rw [chooseMask_eq_fold]
      have : ∀ (l : List Nat) (b : Nat × Nat), b.1 < 8 → (∀ k ∈ l, k < 8) →
          (l.foldl (refStep (refPenalty v ec (refCodewords v ec payload))) b).1 < 8 := by
        intro l
        induction l with
        | nil => intro b hb _; exact hb
        | cons k ks ih =>
          intro b hb hl
          rw [List.foldl_cons]
          apply ih
          · unfold refStep; split
            · exact hl k List.mem_cons_self
            · exact hb
          · intro k' hk'; exact hl k' (List.mem_cons_of_mem _ hk')
      exact this _ _ (by decide) (fun k hk => List.mem_range.mp hk)
  exact qr_roundtrip_bits T hT hint v h1 h40 ec _ hm payload hfit parsed hparse

example : ([] : List Bool).length ≤ 8 * QRRef.dataCodewords 1 .L := by decide

end Gzx.Properties.C01Mirror
