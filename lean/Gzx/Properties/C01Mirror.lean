/-
  C01 / work package `qrenc` — C01's round trip applies to the symbol the MIRROR of the Go encoder builds.

  `qr_roundtrip_bits` (Properties/C01.lean) is about `refSymbol v ec mask payload`, the reference symbol.
  `C07Mirror.mirror_encode_eq_ref` shows that the mirror of `Encoder_encode`'s back half (terminateBits,
  interleaveWithECBytes, chooseMaskPattern / forced mask, MatrixUtil_buildMatrix) builds exactly that symbol; so
  the decoder model reads back what the mirrored Go loops wrote.
-/
import Gzx.Properties.C01
import Gzx.Properties.C07Mirror
namespace Gzx.Properties.C01Mirror
open Gzx Gzx.QRDec Gzx.QRComp Gzx.QREnc Gzx.Properties.C01

/-- the modules of a ByteMatrix as the decoder's matrix (1 = dark) -/
def modulesOf (m : ByteMatrix) : Matrix := matrixOf (m.bytes.map (fun r => r.map (· == 1)))

/-- `mirror_symbol_roundtrip`: for every version 1..40, level, forced mask 0..7 or
    automatic choice, and every payload that fits: the matrix the mirror of the Go encoder builds decodes (decoder
    model with the C04 Reed-Solomon decoder, first attempt, not mirrored) to what the bit-stream parser makes of the
    payload, with the level, the version and exactly the data codewords that were written. -/
theorem mirror_symbol_roundtrip {K : Kernels} (hK : KernelsOK K) (T : Tables) (hT : TablesConform T) (hint : ECI.Hint)
    (v : Nat) (h1 : 1 ≤ v) (h40 : v ≤ 40) (ec : QRRef.EC)
    (forced : Option Nat) (hforced : ∀ k, forced = some k → k < 8) (payload : List Bool)
    (hfit : payload.length ≤ 8 * QRRef.dataCodewords v ec) (parsed : Parsed)
    (hparse : ∀ tail, Terminated tail → parseStream T.eci (payload ++ tail) v hint = .ok parsed) :
    ∃ mask M, backHalf K v ec forced payload = .ok (mask, M) ∧
      decode T rsQR hint (modulesOf M) =
        .ok ⟨parsed, toDecEC ec, v, QRRef.terminate (QRRef.dataCodewords v ec) payload, false⟩ := by
  refine ⟨_, _, backHalf_eq_ref hK v h1 h40 (funcOK_all v h1 h40) ec forced hforced payload hfit, ?_⟩
  unfold modulesOf
  rw [Gzx.Properties.C07Mirror.refByteMatrix_modules]
  have hm : forced.getD (QRRef.chooseMask v ec (refCodewords v ec payload)) < 8 := by
    cases hfo : forced with
    | some k => simpa using hforced k hfo
    | none =>
      simp only [Option.getD_none]
      rw [chooseMask_eq_fold]
      have : ∀ (l : List Nat) (b : Nat × Nat), b.1 < 8 → (∀ k ∈ l, k < 8) →
          (l.foldl (refStep (refPenalty v ec (refCodewords v ec payload))) b).1 < 8 := by
        intro l
        induction l with
        | nil => intro b hb _; exact hb
        | cons k ks ih =>
          intro b hb hl
          rw [List.foldl_cons]
          apply ih
          · unfold refStep; split
            · exact hl k List.mem_cons_self
            · exact hb
          · intro k' hk'; exact hl k' (List.mem_cons_of_mem _ hk')
      exact this _ _ (by decide) (fun k hk => List.mem_range.mp hk)
  exact qr_roundtrip_bits T hT hint v h1 h40 ec _ hm payload hfit parsed hparse

/-- `mirror_encode_roundtrip` (wp `enc2`): the WHOLE mirrored `Encoder_encode` call composed with the decoder model — for
    every content, valid level, known CHARACTER_SET and hints of any type (codec parameters as in
    `C07Mirror.mirror_encode_eq_ref`): whenever the reference has a data segment for the mode of the mode analysis
    and a version is admissible, the call returns a symbol, and the decoder model reads from its matrix what the
    bit-stream parser makes of the reference payload (header segments, character count, data), with the level, the
    version and exactly the data codewords that were written. -/
theorem mirror_encode_roundtrip {K : Kernels} (hK : KernelsOK K) (T : Tables) (hT : TablesConform T) (hint : ECI.Hint)
    (inp : EncInput) (ec : QRRef.EC) (hec : ecOfInt inp.ecLevel = some ec)
    (hcs : ∀ cs, inp.charset = some cs → cs.known = true)
    (hsj : ∀ bs, inp.sjis = some bs → ∀ b ∈ bs, b < 256)
    (hrc : ∀ bs, inp.sjis = some bs → modeOf inp = .kanji → inp.runeCount = bs.length / 2)
    (he : ∀ e, eciOf inp (modeOf inp) = some e → e < 128)
    (count : Nat) (data : List Bool) (href : refSegment inp (modeOf inp) = some (count, data)) (v : Nat)
    (hv : versionChoice inp ec (modeOf inp)
      (QRRef.headerBits (eciOf inp (modeOf inp)) (gs1OfHint inp.gs1) (modeOf inp)).length data.length = some v)
    (parsed : Parsed)
    (hparse : ∀ tail, Terminated tail →
      parseStream T.eci (QRRef.payloadBits v (QRRef.headerBits (eciOf inp (modeOf inp)) (gs1OfHint inp.gs1) (modeOf inp))
        (modeOf inp) count data ++ tail) v hint = .ok parsed) :
    ∃ t, encode K inp = .ok t ∧ t.version = v ∧
      decode T rsQR hint (modulesOf t.matrix) =
        .ok ⟨parsed, toDecEC ec, v, QRRef.terminate (QRRef.dataCodewords v ec) t.headerAndDataBits, false⟩ := by
  have hfull := Gzx.Properties.C07Mirror.mirror_encode_eq_ref hK inp ec hec hcs hsj hrc he
  rw [href] at hfull
  simp only at hfull
  rw [hv] at hfull
  simp only at hfull
  obtain ⟨t, ht, _, htv, hhd, _, _, hmat⟩ := hfull
  obtain ⟨h1, h40, hfitb⟩ := versionChoice_range hv
  have hfit : t.headerAndDataBits.length ≤ 8 * QRRef.dataCodewords v ec := by
    rw [hhd]
    unfold QRRef.fitsBits at hfitb
    simp only [decide_eq_true_eq] at hfitb
    unfold QRRef.payloadBits
    simp only [List.length_append, QRRef.toBitsBE, List.length_map, List.length_range]
    omega
  -- the mask as a forced / automatic choice
  let forced : Option Nat := if maskOfHint inp.mask = -1 then none else some (maskOfHint inp.mask).toNat
  have hforced : ∀ k, forced = some k → k < 8 := by
    intro k hk
    rcases maskOfHint_cases inp.mask with hauto | ⟨j, hj, hjj⟩
    · simp [forced, hauto] at hk
    · have hne : ¬ ((j : Int) = -1) := by omega
      simp only [forced, hjj, hne, if_false, Option.some.injEq, Int.toNat_natCast] at hk
      omega
  have hfm : finalMask inp.mask v ec t.headerAndDataBits =
      forced.getD (QRRef.chooseMask v ec (refCodewords v ec t.headerAndDataBits)) := by
    unfold finalMask
    by_cases hauto : maskOfHint inp.mask = -1
    · simp [forced, hauto]
    · simp [forced, hauto]
  obtain ⟨mask, M, hbh, hdec⟩ := mirror_symbol_roundtrip hK T hT hint v h1 h40 ec forced hforced t.headerAndDataBits hfit parsed
    (by rw [hhd]; exact hparse)
  rw [backHalf_eq_ref hK v h1 h40 (funcOK_all v h1 h40) ec forced hforced _ hfit] at hbh
  simp only [Except.ok.injEq, Prod.mk.injEq] at hbh
  refine ⟨t, ht, htv, ?_⟩
  rw [hmat, hfm, hbh.2]
  exact hdec

/-- the segment and version hypotheses are satisfiable: "12", level M, no hints -> numeric segment, version 1 -/
example : ∃ inp : EncInput, ∃ count data, ecOfInt inp.ecLevel = some .M ∧
    refSegment inp (modeOf inp) = some (count, data) ∧
    versionChoice inp .M (modeOf inp)
      (QRRef.headerBits (eciOf inp (modeOf inp)) (gs1OfHint inp.gs1) (modeOf inp)).length data.length = some 1 :=
  ⟨{ content := [49, 50], runeCount := 2, ecLevel := 0, encoded := some [49, 50] }, 2, QRRef.toBitsBE 7 12, rfl, by decide, by decide⟩

example : ([] : List Bool).length ≤ 8 * QRRef.dataCodewords 1 .L := by decide

end Gzx.Properties.C01Mirror
