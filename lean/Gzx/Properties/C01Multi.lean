/-
  C01 (work package c01multi) — the QR round trip for MULTI-SEGMENT symbols: any sequence of numeric / alphanumeric /
  byte / Kanji / Hanzi segments, ECI designators between them, FNC1 first/second position, structured append.
  Property theorems only.  Reference stream: Gzx/Ref/QRMulti.lean (ISO/IEC 18004, GB/T 18284); decoder model:
  Gzx/Model/QRDecoder.lean; proofs: Gzx/Proofs/QRMulti.lean, QRMultiFit.lean; composition with the matrix / RS layers:
  `Properties.C01.qr_roundtrip_bits`.  The stream layer is tied to the Go parser and the whole chain to `Decoder.Decode`
  by the `c01multi` correspondence lines (harness/zz_c01multi_*.go).
-/
import Gzx.Proofs.QRMultiFit
namespace Gzx.Properties.C01Multi
open Gzx Gzx.QRDec Gzx.QRPack Gzx.ECI Gzx.QRComp Gzx.QRMulti
open Gzx.Properties.C01 (refSymbol)

/-! ## Hanzi (mode 1101, GB 2312 subset) -/

/-- `hanzi_segment_inv`: the parser on a Hanzi segment packed as GB/T 18284 prescribes (mode 1101, subset 0001, count of
    the Kanji width, 13 bits per character: row offset 0xA1 / 0xA6, × 0x60, + cell offset) appends exactly the GB 2312
    byte pairs and leaves what follows, for every version and every count the indicator can hold. -/
theorem hanzi_segment_inv (reg : Registry) (ver : Nat) (hint : Hint) (fuel : Nat) (st : PSt)
    (ps : List (Nat × Nat)) (hp : ∀ p ∈ ps, hanziPairOK p) (hlen : ps.length < 2 ^ countWidth 3 ver)
    (rest : List Bool) :
    parseLoop reg ver hint (fuel + 1) st
        (natToBits 4 0xD ++ (natToBits 4 1 ++ (natToBits (countWidth 3 ver) ps.length ++ packHanzi ps)) ++ rest) =
      parseLoop reg ver hint fuel
        { st with segs := st.segs ++ [.text (.named "GB18030") (ps.flatMap (fun p => [p.1, p.2]))] } rest :=
  QRMulti.hanzi_segment_inv reg ver hint fuel st ps hp hlen rest

/-- non-vacuity: the first and last characters of both row ranges (0xA1A1, 0xAAFE, 0xB0A1, 0xFAFE) in version 1 -/
example : (∀ p ∈ [(0xA1, 0xA1), (0xAA, 0xFE), (0xB0, 0xA1), (0xFA, 0xFE)], hanziPairOK p) ∧
    parseStream [] (Item.bits 1 (.hanzi [(0xA1, 0xA1), (0xAA, 0xFE), (0xB0, 0xA1), (0xFA, 0xFE)]) ++
      List.replicate 4 false) 1 .none =
    .ok ⟨[.text (.named "GB18030") [0xA1, 0xA1, 0xAA, 0xFE, 0xB0, 0xA1, 0xFA, 0xFE]], [], -1, -1, 1⟩ := by decide

/-! ## the bit-stream parser on whole multi-segment streams -/

/-- every item list in ANY order (segments, ECI designators, FNC1 indicators, structured-append headers), followed by
    the terminator (full, or shortened at capacity) and any padding: the parser returns the meaning `run` of the list —
    the decoder's state between two segments (ECI in effect, FNC1 in effect) is what `run` threads through. -/
theorem parse_items_stream (reg : Registry) (ver : Nat) (hint : Hint) (g : List Nat → Charset) (items : List Item)
    (hok : ∀ it ∈ items, it.Content reg ∧ it.CountOK ver)
    (hg : ∀ bs ∈ guessed false items, guessCharset reg bs hint = .ok (g bs))
    (tail : List Bool) (ht : Terminated tail) :
    parseStream reg (bitsOf ver items ++ tail) ver hint = .ok (toParsed (run reg g {} items)) :=
  parseStream_items reg ver hint g items hok hg tail ht

/-! ## the composed round trip -/

/-- **`qr_roundtrip_items`** — for every version 1..40, level, mask 0..7 and EVERY list of items in any order whose
    contents are encodable (`Item.Content`: digits, Table-5 values, bytes, Shift_JIS / GB 2312 pairs of the modes'
    ranges, registered ECI numbers < 900, 8-bit structured-append fields) and whose bit stream fits the data capacity of
    (version, level): `Decoder.Decode` (model) on the reference symbol succeeds on the first attempt and returns the
    meaning of the list — segments, byte segments, structured-append sequence/parity, symbology modifier —, the level,
    the version and exactly the written data codewords.  `g` names the charsets `guessCharset` picks for the byte
    segments that no ECI governs (hypothesis `hg`: only those are constrained; with the hint absent it always holds
    for `g := the guess`). -/
theorem qr_roundtrip_items (T : Tables) (hT : TablesConform T) (hint : Hint) (v : Nat) (h1 : 1 ≤ v) (h40 : v ≤ 40)
    (ec : QRRef.EC) (mask : Nat) (hm : mask < 8) (items : List Item) (g : List Nat → Charset)
    (hc : ∀ it ∈ items, it.Content T.eci)
    (hg : ∀ bs ∈ guessed false items, guessCharset T.eci bs hint = .ok (g bs))
    (hfit : (bitsOf v items).length ≤ 8 * QRRef.dataCodewords v ec) :
    decode T rsQR hint (refSymbol v ec mask (bitsOf v items)) =
      .ok ⟨toParsed (run T.eci g {} items), toDecEC ec, v,
        QRRef.terminate (QRRef.dataCodewords v ec) (bitsOf v items), false⟩ := by
  have hn := countOK_of_fit_all v h1 h40 ec items hfit
  apply Gzx.Properties.C01.qr_roundtrip_bits T hT hint v h1 h40 ec mask hm (bitsOf v items) hfit
  intro tail ht
  exact parseStream_items T.eci v hint g items (fun it hit => ⟨hc it hit, hn it hit⟩) hg tail ht

/-- **`qr_roundtrip_segments`** — the same for a symbol in the standard's layout: optional structured-append header,
    optional FNC1 indicator (first or second position), then any sequence of numeric / alphanumeric / byte / Kanji /
    Hanzi segments with ECI designators between them.  The decoder returns, explicitly (`Symbol.expected`):
      * the contents of the segments in order — digits as ASCII, Table-5 characters (with `%%`→`%`, `%`→GS when an
        FNC1 indicator heads the symbol), bytes labelled with the charset of the LAST ECI designator before them (the
        guess `g` when there is none), Shift_JIS / GB 2312 pairs;
      * the byte-mode segments; the structured-append sequence indicator and parity (−1, −1 without header);
      * the symbology modifier 1..6 from (FNC1 position, an ECI designator is present);
      * the level, the version and the written data codewords. -/
theorem qr_roundtrip_segments (T : Tables) (hT : TablesConform T) (hint : Hint) (v : Nat) (h1 : 1 ≤ v) (h40 : v ≤ 40)
    (ec : QRRef.EC) (mask : Nat) (hm : mask < 8) (s : Symbol) (g : List Nat → Charset)
    (hsa : ∀ qp, s.sa = some qp → qp.1 < 256 ∧ qp.2 < 256)
    (hb : ∀ it ∈ s.body, it.isBody = true ∧ it.Content T.eci)
    (hg : ∀ bs ∈ guessed false s.body, guessCharset T.eci bs hint = .ok (g bs))
    (hfit : (bitsOf v s.items).length ≤ 8 * QRRef.dataCodewords v ec) :
    decode T rsQR hint (refSymbol v ec mask (bitsOf v s.items)) =
      .ok ⟨s.expected T.eci g, toDecEC ec, v,
        QRRef.terminate (QRRef.dataCodewords v ec) (bitsOf v s.items), false⟩ := by
  rw [← run_symbol T.eci g s hb]
  apply qr_roundtrip_items T hT hint v h1 h40 ec mask hm s.items g ?_ (by rw [guessed_symbol]; exact hg) hfit
  intro it hit
  unfold Symbol.items Symbol.header at hit
  rcases List.mem_append.mp hit with h | h
  · rcases List.mem_append.mp h with h | h
    · cases hs : s.sa with
      | none => rw [hs] at h; cases h
      | some qp =>
        rw [hs] at h
        obtain ⟨q, p⟩ := qp
        rcases List.mem_singleton.mp h with rfl
        exact hsa (q, p) hs
    · cases hf : s.fnc1 <;> rw [hf] at h
      · cases h
      · rcases List.mem_singleton.mp h with rfl; trivial
      · rcases List.mem_singleton.mp h with rfl; trivial
  · exact (hb it h).2

/-! ### what the LIBRARY encoder emits with the GS1_FORMAT hint: [ECI header] FNC1(first position) one segment -/

/-- the item list of a GS1 symbol of the library encoder (`Encoder_encode`: appendECI, then the FNC1 mode header, then
    the segment) -/
def gs1Items (eci : Option Nat) (seg : Item) : List Item :=
  (match eci with | some val => [.eci val] | none => []) ++ [.fnc1First, seg]

/-- the reference encoder of C07 (`QRRef.headerBits eci true m`, which the c07 oracle compares with the library's
    matrices) writes exactly the stream of `gs1Items` -/
theorem gs1_payload (v : Nat) (eci : Option Nat) :
    (∀ ds, QRRef.payloadBits v (QRRef.headerBits eci true .numeric) .numeric ds.length (QRRef.packNumeric ds) =
      bitsOf v (gs1Items eci (.numeric ds))) ∧
    (∀ cs, QRRef.payloadBits v (QRRef.headerBits eci true .alnum) .alnum cs.length (QRRef.packAlnum cs) =
      bitsOf v (gs1Items eci (.alnum cs))) ∧
    (∀ bs, QRRef.payloadBits v (QRRef.headerBits eci true .byte) .byte bs.length (QRRef.bitsOfBytes bs) =
      bitsOf v (gs1Items eci (.byte bs))) ∧
    (∀ ps, QRRef.payloadBits v (QRRef.headerBits eci true .kanji) .kanji ps.length (QRPack.packKanji ps) =
      bitsOf v (gs1Items eci (.kanji ps))) := by
  obtain ⟨k0, k1, k2, k3⟩ := countBits_eq v
  have he : ∀ val, QRRef.eciDesignator val = eciBits val := by
    intro val
    unfold QRRef.eciDesignator eciBits
    simp only [toBitsBE_eq_natToBits]
  refine ⟨?_, ?_, ?_, ?_⟩ <;> intro xs <;> cases eci <;>
    simp only [QRRef.payloadBits, QRRef.headerBits, gs1Items, bitsOf, Item.bits, segment, if_true,
      toBitsBE_eq_natToBits, he, k0, k1, k2, k3, packNumeric_eq, packAlnum_eq, bitsOfBytes_eq,
      QRRef.Mode.indicator, List.append_assoc, List.nil_append, List.append_nil, List.cons_append]

/-- **corollary for the library's GS1 symbols** (GS1_FORMAT hint, optional character-set ECI, one segment of any of
    the four modes): the decoder returns the one segment's contents and the symbology modifier 3 (4 with ECI).  Note
    what `contents` says for alphanumeric mode: FNC1 is in effect, so `%` comes back as GS (0x1D) and `%%` as `%` —
    the decoder applies 7.4.8.2, the library encoder does not escape; digits, bytes and Kanji come back unchanged. -/
theorem qr_roundtrip_gs1 (T : Tables) (hT : TablesConform T) (hint : Hint) (v : Nat) (h1 : 1 ≤ v) (h40 : v ≤ 40)
    (ec : QRRef.EC) (mask : Nat) (hm : mask < 8) (eci : Option Nat) (seg : Item) (g : List Nat → Charset)
    (he : ∀ val, eci = some val → val < 900 ∧ (lookupValue T.eci val).isSome)
    (hs : seg.isBody = true ∧ seg.Content T.eci)
    (hg : eci = none → ∀ bs, seg = .byte bs → guessCharset T.eci bs hint = .ok (g bs))
    (hfit : (bitsOf v (gs1Items eci seg)).length ≤ 8 * QRRef.dataCodewords v ec) :
    decode T rsQR hint (refSymbol v ec mask (bitsOf v (gs1Items eci seg))) =
      .ok ⟨⟨contents T.eci g true (eci.bind (lookupValue T.eci)) [seg], byteSegsOf [seg], -1, -1,
            if eci.isSome || hasECI [seg] then 4 else 3⟩,
        toDecEC ec, v, QRRef.terminate (QRRef.dataCodewords v ec) (bitsOf v (gs1Items eci seg)), false⟩ := by
  have hmain := qr_roundtrip_items T hT hint v h1 h40 ec mask hm (gs1Items eci seg) g ?_ ?_ hfit
  · rw [hmain]
    congr 2
    cases eci with
    | none =>
      have hr : run T.eci g {} (gs1Items none seg) = run T.eci g { fnc1First := true, fnc1 := true } [seg] := rfl
      obtain ⟨i1, i2, i3, i4, i5, i6, i7⟩ := run_body T.eci g [seg]
        { fnc1First := true, fnc1 := true } (by intro it hit; rcases List.mem_singleton.mp hit with rfl; exact hs)
      rw [hr]
      simp only [toParsed, symbologyModifier, i1, i2, i3, i4, i5, i6, i7, List.nil_append, Option.isSome_none,
        Bool.false_or, Option.bind_none, if_true]
    | some val =>
      have hr : run T.eci g {} (gs1Items (some val) seg) =
          run T.eci g { eci := lookupValue T.eci val, fnc1First := true, fnc1 := true } [seg] := rfl
      obtain ⟨i1, i2, i3, i4, i5, i6, i7⟩ := run_body T.eci g [seg]
        { eci := lookupValue T.eci val, fnc1First := true, fnc1 := true }
        (by intro it hit; rcases List.mem_singleton.mp hit with rfl; exact hs)
      rw [hr]
      simp only [toParsed, symbologyModifier, i1, i2, i3, i4, i5, i6, i7, List.nil_append, (he val rfl).2,
        Bool.true_or, Option.bind_some, Option.isSome_some, if_true]
  · intro it hit
    unfold gs1Items at hit
    rcases List.mem_append.mp hit with h | h
    · cases eci with
      | none => cases h
      | some val => rcases List.mem_singleton.mp h with rfl; exact he val rfl
    · rcases List.mem_cons.mp h with rfl | h
      · trivial
      · rcases List.mem_singleton.mp h with rfl; exact hs.2
  · intro bs hbs
    cases eci with
    | none =>
      cases seg <;> simp [gs1Items, guessed] at hbs
      subst hbs
      exact hg rfl _ rfl
    | some val =>
      cases seg <;> simp [gs1Items, guessed] at hbs

/-- GS1 alphanumeric data escaped as 7.4.8.2 prescribes (`%` doubled, separator GS written as a single `%`:
    `QRMulti.gs1Escape`) comes back unchanged through the parser's FNC1 rule — for data in which no separator is directly
    followed by a separator or by `%` (`gs1Clean`); there the standard's escape itself is ambiguous (next example).
    Together with `qr_roundtrip_segments` (FNC1 header + alphanumeric segment of the escaped characters): GS1 element
    strings round-trip. -/
theorem gs1_escape_inv (xs : List Nat) (h : gs1Clean xs = true) : fnc1Massage (gs1Escape xs) = xs :=
  fnc1Massage_gs1Escape xs h

/-- `GS %` and `% GS` have the same escape `%%%`; `GS GS` escapes to `%%`, which reads as one `%` -/
example : gs1Escape [0x1D, 37] = gs1Escape [37, 0x1D] ∧ fnc1Massage (gs1Escape [0x1D, 0x1D]) = [37] ∧
    gs1Clean [65, 0x1D, 66, 37, 37, 0x1D] = true ∧
    fnc1Massage (gs1Escape [65, 0x1D, 66, 37, 37, 0x1D]) = [65, 0x1D, 66, 37, 37, 0x1D] := by decide

/-! ### non-vacuity -/

/-- a mixed symbol: structured append (2nd of 3, parity 0x5A), FNC1 first position, "0123" numeric, "A%%B%" alphanumeric,
    a guessed byte segment, ECI 9 (ISO-8859-7 in the library's registry), a designated byte segment, Kanji 0x935F,
    Hanzi 0xB0A1 — fits version 2-M; the parser returns what `Symbol.expected` says -/
def demo : Symbol :=
  { sa := some (0x12, 0x5A), fnc1 := .first,
    body := [.numeric [0, 1, 2, 3], .alnum [10, 38, 38, 11, 38], .byte [0x61, 0x62], .eci 9, .byte [0xE1, 0xE2],
             .kanji [(0x93, 0x5F)], .hanzi [(0xB0, 0xA1)]] }

def demoReg : Registry := [⟨[9], "ISO8859_7", "ISO8859_7", ["ISO-8859-7"], "ISO-8859-7"⟩]

example : (bitsOf 2 demo.items).length = 215 ∧ 215 ≤ 8 * QRRef.dataCodewords 2 .M ∧
    (∀ it ∈ demo.body, it.isBody = true) ∧
    parseStream demoReg (bitsOf 2 demo.items ++ List.replicate 4 false) 2 .none =
      .ok (demo.expected demoReg (fun _ => .latin1)) ∧
    demo.expected demoReg (fun _ => .latin1) =
      ⟨[.raw [48, 49, 50, 51], .raw [65, 37, 66, 0x1D], .text .latin1 [0x61, 0x62], .text (.named "ISO8859_7") [0xE1, 0xE2],
        .text .sjis [0x93, 0x5F], .text (.named "GB18030") [0xB0, 0xA1]],
       [[0x61, 0x62], [0xE1, 0xE2]], 0x12, 0x5A, 4⟩ := by decide +kernel

instance (p : Nat × Nat) : Decidable (kanjiPairOK p) := by unfold kanjiPairOK; infer_instance

instance (reg : Registry) (it : Item) : Decidable (it.Content reg) := by
  cases it <;> unfold Item.Content <;> infer_instance

/-- … and every hypothesis of `qr_roundtrip_segments` holds for it (tables of the standard with a one-entry ECI registry,
    version 2-M, mask 5): an instance of the theorem -/
example : decode ⟨refFmt, QRRef.formatMask, refVdi, refVersions, demoReg⟩ rsQR .none
      (refSymbol 2 .M 5 (bitsOf 2 demo.items)) =
    .ok ⟨demo.expected demoReg (fun _ => .latin1), .M, 2,
      QRRef.terminate (QRRef.dataCodewords 2 .M) (bitsOf 2 demo.items), false⟩ :=
  qr_roundtrip_segments ⟨refFmt, QRRef.formatMask, refVdi, refVersions, demoReg⟩ ⟨rfl, rfl, rfl⟩ .none 2 (by decide) (by decide)
    .M 5 (by decide) demo (fun _ => .latin1) (by decide) (by decide) (by decide +kernel) (by decide +kernel)

/-- the library's registry need not be consulted for a symbol without ECI: any `Tables`, hint absent — the hypothesis
    `hg` of `qr_roundtrip_segments` is then satisfied by the guess itself -/
example (reg : Registry) (bs : List Nat) : ∃ cs, guessCharset reg bs .none = .ok cs := by
  simp only [guessCharset]
  split <;> exact ⟨_, rfl⟩

/-- **observation (outside C01, whose quantifier is the library's own writer): FNC1 in second position.**  ISO/IEC 18004
    7.4.8.3 puts an 8-bit application indicator after mode 1001; the library (like ZXing) does not consume it, the next
    four bits are taken for a mode indicator.  With application indicator 0x25 (`37` → "00100101") before a numeric
    segment "01" the parser reads mode 0010 (alphanumeric) and fails; a stream WITHOUT the indicator (`Item.fnc1Second`
    as modelled) parses.  Structured reading of such symbols is therefore limited to what `Item.fnc1Second` writes. -/
example : parseStream [] (natToBits 4 9 ++ natToBits 8 0x25 ++ Item.bits 1 (.numeric [0, 1]) ++ List.replicate 4 false)
      1 .none = .error .format ∧
    parseStream [] (bitsOf 1 [.fnc1Second, .numeric [0, 1]] ++ List.replicate 4 false) 1 .none =
      .ok ⟨[.raw [48, 49]], [], -1, -1, 5⟩ := by decide

end Gzx.Properties.C01Multi
