/-
  C02 — Data Matrix: what is written is what is read (codeword level).
  Property theorems only; helper lemmas live in Gzx/Proofs/DM*.lean.
  Model: Gzx/Model/DMHighLevel.lean (decoder `decLoop`/`decodeText`, encoder `encodeHL`), tied to
  datamatrix/decoder/decoded_bit_stream_parser.go and datamatrix/encoder/*.go by the `c02` correspondence
  suites (dm-dec, dm-hl, dm-la) and by Obligations/C02.lean (character tables, randomisation kernels).

  The look-ahead (`HighLevelEncoder_lookAheadTest`, float arithmetic) is an arbitrary oracle
  `la : message → position → current mode → mode` in every theorem.
-/
import Gzx.Proofs.DMTotalAB
import Gzx.Proofs.DMMidstream
namespace Gzx.Properties.C02
open Gzx Gzx.DMHighLevel

/-! ## codec lemmas: encoder arithmetic and decoder arithmetic are inverse (all inputs) -/

/-- ASCII digit pairs: the codeword `130 + 10·d1 + d2` written for two digits decodes to exactly those two
    digit characters. -/
theorem ascii_digit_pair_inv (d1 d2 : Nat) (h1 : isDigit d1 = true) (h2 : isDigit d2 = true) :
    130 ≤ (d1 - 48) * 10 + (d2 - 48) + 130 ∧ (d1 - 48) * 10 + (d2 - 48) + 130 ≤ 229 ∧
    digitPair ((d1 - 48) * 10 + (d2 - 48) + 130 - 130) = [d1, d2] := by
  simp only [isDigit, Bool.and_eq_true, decide_eq_true_eq] at h1 h2
  have h := digitPair_digits (d1 - 48) (d2 - 48) (by omega) (by omega)
  have e1 : 48 + (d1 - 48) = d1 := by omega
  have e2 : 48 + (d2 - 48) = d2 := by omega
  rw [e1, e2] at h
  refine ⟨by omega, by omega, ?_⟩
  have : (d1 - 48) * 10 + (d2 - 48) + 130 - 130 = (d1 - 48) * 10 + (d2 - 48) := by omega
  rw [this, h]

example : digitPair (137 - 130) = [48, 55] := by decide    -- "07"

/-- C40 / Text / X12 packing: `parseTwoBytes ∘ c40EncodeToCodewords = id` on every triple of values < 40
    (both codewords are bytes). -/
theorem c40_pack_inv (c1 c2 c3 : Nat) (h1 : c1 < 40) (h2 : c2 < 40) (h3 : c3 < 40) :
    ∃ b1 b2, packTriplet c1 c2 c3 = [b1, b2] ∧ b1 < 256 ∧ b2 < 256 ∧
      parseTwoBytes b1 b2 = ((c1 : Int), (c2 : Int), (c3 : Int)) :=
  ⟨_, _, rfl, by omega, by omega, parseTwoBytes_pack c1 c2 c3 h1 h2 h3⟩

example : packTriplet 39 39 39 = [250, 0] ∧ parseTwoBytes 250 0 = (39, 39, 39) := by decide

/-- C40: for every byte value `c` the values `c40EncodeChar` produces (basic set, shift 1/2/3, upper shift
    for 128..255) are all < 40, and the decoder's value automaton started in its initial state emits exactly
    `c` and is back in the initial state (tables = ISO 16022 Annex C; tied to the code by
    `Obligations.C02.gen_tables_are_reference`). -/
theorem c40_char_inv (c : Nat) (hc : c < 256) : charRoundTrips refTables false c = true :=
  c40_chars_roundtrip ⟨c, hc⟩

/-- Text: the same for `textEncodeChar` and the Text tables. -/
theorem text_char_inv (c : Nat) (hc : c < 256) : charRoundTrips refTables true c = true :=
  text_chars_roundtrip ⟨c, hc⟩

example : cEncodeChar false 233 = [1, 30, 2, 9] := by decide   -- 'é' in C40: shift 2, upper shift, shift 3, 'i'
example : cEncodeChar true 233 = [1, 30, 22] := by decide      -- 'é' in Text: shift 2, upper shift, 'i'

/-- X12: the encoder accepts exactly the X12-native characters, maps them to values < 40, and the decoder's
    value table maps those back; every other byte is rejected by the encoder. -/
theorem x12_char_inv (c : Nat) (hc : c < 256) : x12RoundTrips c = true :=
  x12_chars_roundtrip ⟨c, hc⟩

/-- EDIFACT characters: the encoder accepts exactly 0x20..0x5E, the 6-bit value is never the unlatch value
    31, and the decoder's `value | 0x40 if bit 5 clear` restores the character. -/
theorem edifact_char_inv (c : Nat) (hc : c < 256) : edifactRoundTrips c = true :=
  edifact_chars_roundtrip ⟨c, hc⟩

/-- EDIFACT packing: four 6-bit values ↦ three bytes ↦ the same four values. -/
theorem edifact_pack_inv (c1 c2 c3 c4 : Nat) (h1 : c1 < 64) (h2 : c2 < 64) (h3 : c3 < 64) (h4 : c4 < 64) :
    ∃ b1 b2 b3, edifactWord c1 c2 c3 c4 = [b1, b2, b3] ∧ b1 < 256 ∧ b2 < 256 ∧ b3 < 256 ∧
      edifactUnpack b1 b2 b3 = [c1, c2, c3, c4] :=
  edifactUnpack_word c1 c2 c3 c4 h1 h2 h3 h4

/-- Base 256: the 255-state randomisation is undone by the decoder for every byte at every position. -/
theorem base256_randomize_inv (b p : Nat) (hb : b < 256) :
    rand255 b p < 256 ∧ unrand255 (rand255 b p) p = b :=
  ⟨rand255_lt b p hb, unrand255_rand255 b p hb⟩

/-- Pad codewords: the 253-state pad value is never 129 (so only the first pad codeword is 129) and is a
    byte in 1..254. -/
theorem pad253_range (p : Nat) : 1 ≤ rand253 p ∧ rand253 p ≤ 254 ∧ rand253 p ≠ 129 :=
  rand253_range p

/-- Whatever follows the first pad codeword is ignored by the decoder. -/
theorem decoder_stops_at_pad (T : Tables) (a : Acc) (up : Bool) (off : Nat) (rest : List Nat) :
    decLoop T (129 :: rest) 0 up off a = .ok a := by
  simp [decLoop]

/-! ## the segment invariant, ASCII encodation (every look-ahead oracle) -/

/-- `dm_encoder_invariant` (ASCII steps): if the decoder run on the codewords written so far yields exactly
    the characters consumed so far and is in ASCII state — whatever codewords follow — then after a data step
    of the ASCII encoder (digit pair / ASCII character / upper shift + character) the same holds again, the
    position has advanced, and message, hints and symbol are untouched.  `la` is arbitrary. -/
theorem dm_encoder_invariant_ascii (T : Tables) (la : LookAhead) (c c' : Ctx) (a : Acc)
    (hbytes : ∀ x ∈ c.msg, x < 256) (hI : Inv T c a)
    (h : asciiEncode la c = .ok c') (hno : c'.newEnc = none) :
    ∃ a', Inv T c' a' ∧ a'.trailer = a.trailer ∧ c.pos < c'.pos := by
  obtain ⟨a', hI', ht, _, hpos, _⟩ := ascii_step_inv hbytes hI h hno
  exact ⟨a', hI', ht, by rcases hpos with h1 | ⟨h2, _⟩ <;> omega⟩

/-- the invariant holds initially, also with a macro 05 / 06 header (codeword 236 / 237, seven characters
    consumed, trailer pending) -/
theorem dm_encoder_invariant_init (T : Tables) (msg : List Nat) (cfg : Cfg) :
    ∃ a, Inv T (initCtx msg cfg) a :=
  let ⟨a, h, _⟩ := initCtx_inv T msg cfg
  ⟨a, h⟩

/-- `base256_length_inv`: the decoder reads back the length field the encoder writes — one byte for 1..249
    data bytes, two bytes (`len/250+249`, `len%250`) for 250..1555, and 0 = "to the end of the symbol" — and
    un-randomises exactly the data bytes, at every offset, whatever follows an explicit-length segment. -/
theorem base256_length_inv (data suf : List Nat) (off : Nat) (a : Acc) (hd : ∀ x ∈ data, x < 256) :
    (1 ≤ data.length → data.length ≤ 249 →
      b256Seg (rand255All (data.length :: data) (off + 1) ++ suf) off a
        = .ok (a.push256All data, 1 + data.length)) ∧
    (250 ≤ data.length → data.length ≤ 1555 →
      b256Seg (rand255All ((data.length / 250 + 249) :: (data.length % 250) :: data) (off + 1) ++ suf) off a
        = .ok (a.push256All data, 2 + data.length)) ∧
    b256Seg (rand255All (0 :: data) (off + 1)) off a = .ok (a.push256All data, 1 + data.length) :=
  ⟨b256Seg_len1 data suf off a hd, b256Seg_len2 data suf off a hd, b256Seg_toEnd data off a hd⟩

/-- `dm_encoder_invariant` (Base 256): a whole call of the Base-256 encoder, started right after the latch
    231, consumes at least one character and either re-establishes the invariant (explicit length field) or
    ends the message with the symbol exactly full and the whole stream decoding to the message consumed
    (length 0).  `la` and the symbol table are arbitrary. -/
theorem dm_encoder_invariant_base256 (T : Tables) (syms : List SymbolInfo) (la : LookAhead) (c c' : Ctx) (a : Acc)
    (hbytes : ∀ x ∈ c.msg, x < 256) (hL : Latched256 T c a) (hle : c.pos ≤ c.total) (hmore : c.hasMore = true)
    (hnew : c.newEnc = none) (h : b256Encode syms la c = .ok c') :
    ∃ a', a'.trailer = a.trailer ∧ c.pos < c'.pos ∧
      (Inv T c' a' ∨ (c'.hasMore = false ∧ Exact T c' a')) := by
  obtain ⟨a', ht, _, _, _, hp, _, _, hres⟩ := b256_step_inv hbytes hL hle hmore hnew h
  exact ⟨a', ht, hp, hres⟩

/-- `c40_segment_inv` / `text_segment_inv`: if the decoder is in ASCII state after `cw`, then after
    `cw ++ [latch] ++ triplets ++ [254]`, where the triplets pack the values of whole characters `chars`
    (any bytes; the value count a multiple of three), it has appended exactly `chars` and is in ASCII state
    again — whatever codewords follow, including none (the "one byte left" rule lets a final 254 through). -/
theorem c40_segment_inv (text : Bool) (cw : List Nat) (a : Acc) (h : DecodesTo refTables cw a)
    (chars : List Nat) (hb : ∀ c ∈ chars, c < 256) (k : Nat) (hl : (cVals text chars).length = 3 * k) :
    DecodesTo refTables (cw ++ [if text then 239 else 230] ++ (writeTriplets (cVals text chars)).1 ++ [254])
      (a.pushAll chars).endSeg :=
  decodesTo_c40 text h chars hb k hl

/-- `x12_segment_inv`: the same for an X12 segment (latch 238) of complete triplets of X12 values. -/
theorem x12_segment_inv (T : Tables) (cw : List Nat) (a : Acc) (h : DecodesTo T cw a) (hp : a.pend = 0)
    (k : Nat) (vals chars : List Nat) (hl : vals.length = 3 * k) (hv : ∀ v ∈ vals, v < 40)
    (hc : x12Chars vals = .ok chars) (hch : ∀ c ∈ chars, c < 128) :
    DecodesTo T (cw ++ [238] ++ (writeTriplets vals).1 ++ [254]) (a.pushAll chars) :=
  decodesTo_x12 h hp k vals chars hl hv hc hch

example : (writeTriplets (cVals false [65, 66, 67])).1 = [89, 233] := by decide      -- "ABC" in C40
example : decodeText refTables [230, 89, 233, 254, 66] = .ok [65, 66, 67, 65] := by decide

/-- `dm_encoder_invariant` (C40 / Text, leaving in mid-stream): when the C40 or Text encoder stops with
    complete triplets buffered and characters still to come, `c40HandleEOD` writes the triplets and the unlatch
    and the invariant holds again, at the same position.  (The end-of-message branches of `c40HandleEOD` and
    the backtracking are NOT covered by a theorem.) -/
theorem dm_encoder_invariant_c40_midstream (syms : List SymbolInfo) (text : Bool) (c c' : Ctx) (a : Acc)
    (chars buf : List Nat) (hB : Buffered text c a chars buf) (hb : ∀ x ∈ chars, x < 256)
    (k : Nat) (h3 : buf.length = 3 * k) (hmore : c.hasMore = true)
    (h : c40HandleEOD syms c buf = .ok c') :
    Inv refTables c' (a.pushAll chars).endSeg ∧ c'.pos = c.pos :=
  let ⟨hI, hp, _, _⟩ := c40HandleEOD_midstream hB hb k h3 hmore h
  ⟨hI, hp⟩

/-! ## round trip -/

/-
  Full statement (kept visible; NOT proved in general):

    theorem dm_roundtrip (syms) (la : LookAhead) (msg) (cfg) (cw) (hb : ∀ x ∈ msg, x < 256) :
        encodeHL syms la msg cfg = .ok cw → decodeText refTables cw = .ok msg

  Proved part (`dm_roundtrip_ascii_base256_partial`): every encoding that uses ASCII and Base-256 encodation
  only, i.e. for every look-ahead oracle that proposes nothing but these two modes: digit pairs, ASCII
  characters, upper shift for 128..255, macro 05/06 header + trailer, Base-256 runs with 1- and 2-byte length
  fields and the exact-fill case (length 0), any number of switches between the two modes, the final
  `UpdateSymbolInfo` and the 129 / 253-state padding — for every symbol table and every shape/min/max hint.
  Missing cases: whole calls of the C40, Text, X12 and EDIFACT encoders.  For these modes the theorems above
  cover the characters and groups (codec lemmas), whole decoder segments of complete triplets closed by an
  unlatch (`c40_segment_inv`, `x12_segment_inv`) and the mid-stream branch of `c40HandleEOD`; NOT covered are
  the encoder loops with the look-ahead, the end-of-message branches of `c40HandleEOD` (pad value / single
  value left / no unlatch at exact fit), the backtracking, `x12HandleEOD`'s rewind, `edifactHandleEOD`
  (rest-in-ASCII, no-unlatch shortcut).  For whole messages these four modes rest on the correspondence
  suites (exact codewords model vs. code) and on the oracle on the real code.
-/

/-- `dm_roundtrip`, ASCII + Base-256 part. -/
theorem dm_roundtrip_ascii_base256_partial (T : Tables) (syms : List SymbolInfo) (la : LookAhead)
    (hla : LaAB la) (msg : List Nat) (cfg : Cfg) (cw : List Nat)
    (hb : ∀ x ∈ msg, x < 256) (h : encodeHL syms la msg cfg = .ok cw) :
    decodeText T cw = .ok msg :=
  roundtrip_ab T syms la hla msg cfg cw hb h

/-- the ASCII-only special case: a look-ahead oracle that never leaves ASCII -/
theorem dm_roundtrip_ascii_partial (T : Tables) (syms : List SymbolInfo) (la : LookAhead)
    (hla : ∀ m p, la m p ASCII = ASCII) (msg : List Nat) (cfg : Cfg) (cw : List Nat)
    (hb : ∀ x ∈ msg, x < 256) (h : encodeHL syms la msg cfg = .ok cw) :
    decodeText T cw = .ok msg :=
  roundtrip_ascii T syms la hla msg cfg cw hb h

/-! ## termination -/

/-
  Full statement (NOT provable for an arbitrary oracle — an oracle may latch back and forth for ever — and not
  proved for the float look-ahead `laFloat`; for the real code termination is watchdog-backed):

    theorem dm_terminates (syms) (msg) (cfg) : encodeHL syms laFloat msg cfg ≠ .error .fuel
-/

/-- `dm_terminates`, ASCII + Base-256 part: for every oracle proposing only these two modes the dispatch loop
    finishes within its fuel `4·|msg| + 8` and nothing panics: the result is a codeword list or a
    WriterException (no admissible symbol is large enough / a Base-256 run longer than 1555). -/
theorem dm_terminates_ascii_base256_partial (syms : List SymbolInfo) (la : LookAhead) (hla : LaAB la)
    (msg : List Nat) (cfg : Cfg) :
    encodeHL syms la msg cfg = .error .writer ∨ ∃ cw, encodeHL syms la msg cfg = .ok cw :=
  encode_total_ab syms la hla msg cfg

/-- non-vacuity of the error branch: nothing fits a table whose only symbol holds 3 codewords -/
example : encodeHL [⟨false, 3, 5, 8, 8, 1⟩] (fun _ _ _ => ASCII) [65, 66, 67, 68] {} = .error .writer := by decide

/-- non-vacuity: with the one-row table {10x10: 3 data codewords} "A12" encodes to [66, 142, 129] -/
example : encodeHL [⟨false, 3, 5, 8, 8, 1⟩] (fun _ _ _ => ASCII) [65, 49, 50] {} = .ok [66, 142, 129] := by
  decide
example : decodeText refTables [66, 142, 129] = .ok [65, 49, 50] := by decide
/-- a macro-05 message: header and trailer are represented by the single codeword 236 -/
example : encodeHL [⟨false, 5, 7, 10, 10, 1⟩] (fun _ _ _ => ASCII) [91, 41, 62, 30, 48, 53, 29, 65, 30, 4] {}
    = .ok [236, 66, 129, 220, 115] := by decide
example : decodeText refTables [236, 66, 129, 220, 115] = .ok [91, 41, 62, 30, 48, 53, 29, 65, 30, 4] := by decide
/-- an oracle that sends everything to Base 256: "\x80\x81\x82" fills a 5-codeword symbol exactly
    (latch, length 0, three data bytes) — the D5 witness — and decodes -/
example : LaAB (fun _ _ _ => BASE256) := fun _ _ _ => Or.inr rfl
example : encodeHL [⟨false, 5, 7, 10, 10, 1⟩] (fun _ _ _ => BASE256) [128, 129, 130] {}
    = .ok [231, 44, 65, 216, 110] := by decide
example : decodeText refTables [231, 44, 65, 216, 110] = .ok [128, 129, 130] := by decide

end Gzx.Properties.C02
